#!/bin/bash
# try_seed_scratch.sh <patch.diff> <property>...   like try_seed.sh, but on a scratch copy of /repo and /verif
# (/tmp/mut/ws<N>), so that /repo itself is never touched while other work reads it
P="$(readlink -f "$1")"; shift
SLOT="${SLOT:-s0}"
B=/tmp/mut/w$SLOT
mkdir -p $B
rsync -a --delete --exclude .git --exclude target /repo/ $B/repo/ 
rsync -a --delete --exclude .git --exclude work --exclude replays --exclude mutants /verif/ $B/verif/
sed -i "s#path = \"/repo\"#path = \"$B/repo\"#" $B/verif/harness/Cargo.toml
( cd $B/repo && git init -q 2>/dev/null; git apply "$P" ) || { echo "patch does not apply"; exit 2; }
for id in "$@"; do
  ( cd $B/verif && BTDHT_REPO=$B/repo bin/check "$id" --tier "${TIER:-quick}" > $B/try-$id.log 2>&1 ); rc=$?
  echo "--- $id rc=$rc"; grep -E "VIOLATION|KNOWN-FINDING|^OK|engine .*:" $B/try-$id.log | cut -c1-400 | tail -8
done
