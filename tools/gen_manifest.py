#!/usr/bin/env python3
"""Writes /verif/MANIFEST.json from tools/props.py (claimed checks) — run after editing props.py."""
import json, os, sys
sys.path.insert(0, os.path.dirname(os.path.abspath(__file__)))
from props import PROPS

VERIF = os.path.dirname(os.path.dirname(os.path.abspath(__file__)))
ids = [json.loads(l)["id"] for l in open(os.path.join(VERIF, "properties.jsonl"))]

checks = []
for pid in ids:
    if pid not in PROPS or not PROPS[pid].get("claimed", True):
        continue
    c = PROPS[pid]
    checks.append({
        "property_id": pid,
        "quick_cmd": f"bin/check {pid} --tier quick",
        "thorough_cmd": f"bin/check {pid} --tier thorough",
        "evidence_file": f"evidence/{pid}.json",
        "replay_cmd_template": f"bin/check {pid} --replay {{path}}",
        "engine": "+".join(e["name"] for e in c["engines"]),
        "level_claimed": {"category": "proof", "text": c.get("level_text", "Machine-checked Lean 4 theorems (named in level_note; kernel-checked, axioms audited on every run) state the property for every input, history and schedule it quantifies over, about an executable model of the code; the model is tied to the source as it is now on every run: constants and boundary guards are regenerated from /repo by a translator and the proofs re-checked against them, and the real code is run in lockstep with the model on generated and corpus operation sequences with the property's own oracle evaluated on the real code. A broken proof, translator or correspondence is searched for a concrete failing input. Proof is the right level because the property quantifies over unbounded histories/inputs; the level_note says which clauses are theorems and which remain explicit hypotheses or are decided by the tie only."), "design_ref": c.get("design_ref", f"DESIGN.md section 7, {pid}")},
        "level_note": c.get("level_note", ""),
        "technique": c.get("technique", "Lean 4 theorems about a hand-written executable model + constants and guard translators (regenerated from the source, proofs re-checked) + differential correspondence check (real code vs model in lockstep, property oracle on the real code)"),
    })
na = [{"property_id": pid, "reason": PROPS.get(pid, {}).get("na_reason", "check not built yet (work in progress; the design in DESIGN.md section 7 applies)")}
      for pid in ids if pid not in [c["property_id"] for c in checks]]
m = {
    "version": 1,
    "setup_cmd": "bin/setup",
    "hooks": {
        "guard": "btdht_verif",
        "enable": "RUSTFLAGS='--cfg btdht_verif --cfg tokio_unstable' (set in harness/.cargo/config.toml; the harness depends on /repo by path)",
        "baseline_off_cmd": "cd /repo && cargo test --workspace --no-fail-fast --offline",
        "source_commits": [l.strip() for l in open(os.path.join(VERIF, "hooks_commits.txt")) if l.strip()] if os.path.exists(os.path.join(VERIF, "hooks_commits.txt")) else [],
        "add_only": True,
    },
    "engines": [],
    "checks": checks,
    "not_applicable": na,
    "notes": "Technique family: machine-checked proof in Lean 4. See DESIGN.md. bin/check <id> regenerates the constants from /repo, rebuilds the property's theorems, audits axioms, rebuilds the harness against /repo's working tree and runs the correspondence engines.",
}
eng = {}
for pid, c in PROPS.items():
    for e in c["engines"]:
        eng.setdefault(e["name"], []).append(pid)
for name, ps in sorted(eng.items()):
    m["engines"].append({"name": name, "path": f"harness/src/engines/{name}.rs + lean/Driver", "serves_properties": sorted(ps),
                         "kind_free_text": "correspondence engine: real code in-process vs Lean model over a line protocol, plus the property's oracle on the real code"})
json.dump(m, open(os.path.join(VERIF, "MANIFEST.json"), "w"), indent=1)
print(f"MANIFEST.json: {len(checks)} checks, {len(na)} not_applicable")
