#!/usr/bin/env python3
import sys
d=sys.argv[1]
ops=open(d+'/ops.txt').read().split('\n'); im=open(d+'/impl.txt').read().split('\n'); mo=open(d+'/model.txt').read().split('\n')
print(len(ops),len(im),len(mo))
case=None; shown=0; casediff=set(); total=0; unm=0
maxshow=int(sys.argv[2]) if len(sys.argv)>2 else 5
for i,(a,b) in enumerate(zip(im,mo)):
    if ops[i].startswith('case'): case=ops[i]
    if b=='unmodelled': unm+=1; continue
    if a!=b:
        total+=1
        if case not in casediff:
            casediff.add(case)
            if shown<maxshow:
                shown+=1
                print('----',case,'line',i+1); print('OP  ',ops[i][:300])
                k=0
                while k<min(len(a),len(b)) and a[k]==b[k]: k+=1
                print('IMPL',a[max(0,k-200):k+300]); print('MODL',b[max(0,k-200):k+300])
print('diff lines',total,'cases with diffs',len(casediff),'unmodelled',unm)
