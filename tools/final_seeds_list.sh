#!/bin/bash
# final_seeds_list.sh <file with glob patterns>: like final_seeds.sh for a chosen list of kept seeds
cd /verif
for pat in $(cat "$1"); do tools/final_seeds.sh "$pat"; done
