#!/usr/bin/env python3
"""Translator, second part: the comparison / arithmetic *guards* of /repo/src that the properties'
boundaries hang on (`>=` vs `>` at 24 h, `<` vs `<=` at 500 pairs, at 15 min, at 30 s, at 256 bytes ...)
-> lean/Btdht/Generated/Guards.lean.

Each guard is found by a pattern in the current source, its Rust expression is rewritten token by token
into a Lean expression over named parameters (a sub-expression that is not recognised is a broken tie:
exit 3), and emitted as a `def`.  The hand-written model never mentions these definitions; the files
Btdht/Proofs/GuardTie*.lean prove, for every guard, that the model function that plays its role is
equal to the generated definition.  A flipped comparison or a changed arithmetic expression in the
code therefore breaks a proof obligation at `lake build` time.
"""
import re, sys, os, json

REPO = os.environ.get("BTDHT_REPO", "/repo")
OUT = sys.argv[1] if len(sys.argv) > 1 else "/verif/lean/Btdht/Generated/Guards.lean"
SPANS = sys.argv[2] if len(sys.argv) > 2 else None

def read(path):
    return open(os.path.join(REPO, path)).read()

def strip_tests(src):
    i = src.find("#[cfg(test)]\nmod tests")
    return src if i < 0 else src[:i]

NS = "1000000000"
# (`^` only ever comes from the rewriting of MAX_ACTION_ID / MAX_MESSAGE_ID = 1 << (bytes * 8))
OPS = {"^": "^", "<=": "≤", ">=": "≥", "==": "=", "!=": "≠", "<": "<", ">": ">", "+": "+", "-": "-", "*": "*", "/": "/", "(": "(", ")": ")"}

def translate(expr, subst, params):
    """Rust expression -> Lean expression; raises ValueError on anything unrecognised"""
    e = " ".join(expr.split())
    for pat, rep in subst:
        e = re.sub(pat, rep, e)
    e = re.sub(r'Duration::from_secs\(([^()]*)\)', r'((\1) * ' + NS + ')', e)
    e = re.sub(r'Duration::from_millis\(([^()]*)\)', r'((\1) * 1000000)', e)
    toks = re.findall(r'Constants\.[A-Za-z0-9_]+|[A-Za-z_][A-Za-z0-9_]*|\d+|<=|>=|==|!=|[<>+\-*/()^]|\S', e)
    out = []
    for t in toks:
        if t in OPS: out.append(OPS[t])
        elif t.isdigit() or t.startswith("Constants.") or t in params: out.append(t)
        else: raise ValueError(f"unrecognised token `{t}` in `{expr}` (after rewriting: `{e}`)")
    return " ".join(out)

guards = []
def guard(name, path, pattern, params, subst, kind="bool", doc="", count=1):
    src = strip_tests(read(path))
    ms = list(re.finditer(pattern, src, re.S))
    if len(ms) != count:
        print(f"extract_guards: pattern for {name} matched {len(ms)} times in {path} (expected {count})", file=sys.stderr)
        sys.exit(3)
    texts = {" ".join(m.group(1).split()) for m in ms}
    leans = set()
    for t in texts:
        try:
            leans.add(translate(t, subst, params))
        except ValueError as ex:
            print(f"extract_guards: {name} in {path}: {ex}", file=sys.stderr)
            sys.exit(3)
    if len(leans) != 1:
        print(f"extract_guards: the {count} sites of {name} in {path} disagree: {sorted(texts)}", file=sys.stderr)
        sys.exit(3)
    m = ms[0]
    guards.append(dict(name=name, file=path, line=src.count("\n", 0, m.start(1)) + 1, rust=sorted(texts)[0],
                       lean=leans.pop(), params=params, kind=kind, doc=doc))

C = "Constants."
# ---- storage.rs
guard("storage_expired", "src/storage.rs", r'impl ItemExpiration \{(?:(?!\nimpl ).)*?fn is_expired\(&self, now: Instant\) -> bool \{\s*(.*?)\s*\}',
      ["now", "inserted"], [(r'self\.inserted', 'inserted'), (r'\bEXPIRATION_TIME\b', C + 'EXPIRATION_TIME_ns')],
      doc="an entry of the expiry queue is expired")
guard("storage_has_room", "src/storage.rs", r'match \(already_in_list, (self\.expires\.len\(\)\s*[<>=!]+\s*MAX_ITEMS_STORED)\)',
      ["len"], [(r'self\.expires\.len\(\)', 'len'), (r'\bMAX_ITEMS_STORED\b', C + 'MAX_ITEMS_STORED')],
      doc="a new pair is admitted")
# ---- node.rs
guard("node_recently_requested", "src/node.rs", r'(Instant::now\(\)\s*[<>=!]+\s*time\s*[+\-]\s*Duration::from_secs\(\d+\))',
      ["now", "t"], [(r'Instant::now\(\)', 'now'), (r'\btime\b', 't')], doc="`recently_requested_from`")
guard("node_recent_response", "src/node.rs", r'if (since_response\s*[<>=!]+\s*Duration::from_secs\([^)]*\)) \{',
      ["since"], [(r'since_response', 'since'), (r'\bMAX_LAST_SEEN_MINS\b', C + 'MAX_LAST_SEEN_MINS')], doc="good by a recent answer")
guard("node_recent_request", "src/node.rs", r'if (since_request\s*[<>=!]+\s*Duration::from_secs\([^)]*\)) \{',
      ["since"], [(r'since_request', 'since'), (r'\bMAX_LAST_SEEN_MINS\b', C + 'MAX_LAST_SEEN_MINS')], doc="good by a recent query")
guard("node_struck_out", "src/node.rs", r'if (self\.refresh_requests\s*[<>=!]+\s*MAX_REFRESH_REQUESTS) \{',
      ["strikes"], [(r'self\.refresh_requests', 'strikes'), (r'\bMAX_REFRESH_REQUESTS\b', C + 'MAX_REFRESH_REQUESTS')], doc="bad by unanswered queries")
# ---- token.rs
guard("token_intervals", "src/token.rs", r'fn intervals_passed\(last_refresh: Instant\) -> u64 \{.*?\n\s*(diff_time\.as_secs\(\)[^\n;]*)\n\}',
      ["diff"], [(r'diff_time\.as_secs\(\)', '(diff / ' + NS + ')'), (r'REFRESH_INTERVAL\.as_secs\(\)', '(' + C + 'TOKEN_REFRESH_INTERVAL_ns / ' + NS + ')')],
      kind="nat", doc="number of rotation intervals that have passed")
# ---- lookup.rs
guard("lookup_token_fits", "src/action/lookup.rs", r'if (token\.len\(\)\s*[<>=!]+\s*MAX_TOKEN_LEN) \{',
      ["len"], [(r'token\.len\(\)', 'len'), (r'\bMAX_TOKEN_LEN\b', C + 'MAX_TOKEN_LEN')], doc="a token is recorded")
# ---- bootstrap.rs
guard("bootstrap_too_few_good", "src/action/bootstrap.rs", r'if ((?:num_good_nodes|self\.table\.lock\(\)\.unwrap\(\)\.num_good_nodes\(\))\s*[<>=!]+\s*GOOD_NODE_THRESHOLD) \{',
      ["good"], [(r'self\.table\.lock\(\)\.unwrap\(\)\.num_good_nodes\(\)', 'good'), (r'num_good_nodes', 'good'), (r'\bGOOD_NODE_THRESHOLD\b', C + 'GOOD_NODE_THRESHOLD')],
      doc="not enough good nodes (after the sweep and at the periodic check)", count=2)
guard("bootstrap_throttle", "src/action/bootstrap.rs", r'if (count\s*[<>=!]+\s*PINGS_PER_BUCKET) \{',
      ["count"], [(r'\bPINGS_PER_BUCKET\b', C + 'PINGS_PER_BUCKET')], doc="first-round sends are throttled")
guard("bootstrap_enough_responses", "src/action/bootstrap.rs", r'if (responses_received\s*[<>=!]+\s*stop_at) \{',
      ["responses", "stopAt"], [(r'responses_received', 'responses'), (r'stop_at', 'stopAt')], doc="the first round ends early")
# ---- transaction.rs
guard("aid_wrap", "src/transaction.rs", r'if (next_alloc\s*[<>=!]+\s*MAX_ACTION_ID) \{',
      ["nextAlloc"], [(r'next_alloc', 'nextAlloc'), (r'\bMAX_ACTION_ID\b', '(2 ^ (' + C + 'ACTION_ID_BYTES * 8))')], doc="the action id space wraps")
guard("mid_wrap", "src/transaction.rs", r'if (next_alloc\s*[<>=!]+\s*MAX_MESSAGE_ID) \{',
      ["nextAlloc"], [(r'next_alloc', 'nextAlloc'), (r'\bMAX_MESSAGE_ID\b', '(2 ^ (' + C + 'MESSAGE_ID_BYTES * 8))')], doc="the message id space wraps")

lines = ["/- GENERATED by tools/extract_guards.py from the current /repo source tree. Do not edit. -/",
         "import Btdht.Generated.Constants", "namespace Btdht.Guards", ""]
for g in guards:
    ps = " ".join(g["params"])
    lines.append(f"/-- {g['file']} (line ~{g['line']}), {g['doc']}: `{g['rust']}` -/")
    if g["kind"] == "bool":
        lines.append(f"def {g['name']} ({ps} : Nat) : Bool := decide ({g['lean']})")
    else:
        lines.append(f"def {g['name']} ({ps} : Nat) : Nat := {g['lean']}")
lines += ["", "end Btdht.Guards", ""]
new = "\n".join(lines)
old = open(OUT).read() if os.path.exists(OUT) else None
if old != new:
    os.makedirs(os.path.dirname(OUT), exist_ok=True)
    open(OUT, "w").write(new)
if SPANS:
    json.dump(guards, open(SPANS, "w"), indent=1)
print(f"extract_guards: {len(guards)} guards -> {OUT}" + (" (unchanged)" if old == new else " (updated)"))
