#!/bin/bash
# usage: try_seed.sh <property id> <patch.diff> [tier]   — applies the change to /repo, runs the check, undoes it
id=$1; patch=$2; tier=${3:-quick}
cd /verif
git -C /repo apply $patch || { echo "patch does not apply"; exit 2; }
bin/check $id --tier $tier; rc=$?
git -C /repo checkout -- .
echo "try_seed $id $(basename $(dirname $patch)): rc=$rc"
