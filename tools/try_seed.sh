#!/bin/bash
# try_seed.sh <patch.diff> <property>...   apply the change to /repo, run the quick checks, undo it straight afterwards
P="$1"; shift
[ -z "$(git -C /repo status --porcelain)" ] || { echo "/repo not clean"; exit 2; }
git -C /repo apply "$P" || exit 2
trap 'git -C /repo checkout -- . ; git -C /repo clean -qfd' EXIT
for id in "$@"; do
  /verif/bin/check "$id" --tier "${TIER:-quick}" > /tmp/try-$id.log 2>&1; rc=$?
  echo "--- $id rc=$rc"; grep -E "VIOLATION|KNOWN-FINDING|^OK|engine .*:" /tmp/try-$id.log | cut -c1-400 | tail -8
done
