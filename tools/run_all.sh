#!/bin/bash
# run every property's check at the given tier (default quick), 4 at a time; summary on stdout
TIER="${1:-quick}"
cd "$(dirname "$0")/.."
mkdir -p work/runall
ls evidence >/dev/null
printf "%s\n" C01 C02 C03 C04 C05 C06 C07 C08 C09 C10 C11 C12 C13 C14 C15 C16 C17 C18 C19 C20 | \
  xargs -P 4 -I{} sh -c "bin/check {} --tier $TIER > work/runall/{}.log 2>&1; echo {} rc=\$? \$(grep -E '^OK|VIOLATION' work/runall/{}.log | head -2 | cut -c1-160)"
