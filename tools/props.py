"""Per-property configuration of bin/check: which correspondence engines tie the definitions the
property's theorems are about to the code, with how many generated cases per tier."""

COMMON_TRUST = [
    "tools/extract_consts.py (constants translator)",
    "harness/ (Rust correspondence harness, generators, independent oracles) and Driver/*.lean (line protocol)",
    "hand-written model Btdht/Model/*.lean is tied to the code only by the differential runs reported here",
]

NODE_TRUST = COMMON_TRUST + ["the node model is tied to the real MainlineDht (handler task, bootstrap task, socket layer, API) by lockstep on the event trace of the vtrace! hooks under tokio's paused clock; iteration order of the first-round contact hash set and the order of two tasks woken at the same instant are oracle inputs (~fr, ~bfirst)",
                                   "tokio runtime behaviour (timers fire at their deadline, task scheduling, cooperative budget) is observed, not proved; a same-instant interleaving the model does not reproduce is excluded from the comparison and counted (unmodelled)"]

PROPS = {
    "C20": {
        "engines": [{"name": "bep42", "quick": 40, "thorough": 2700}],
        "constants": ["INFO_HASH_LEN"],
        "trusted": COMMON_TRUST + ["crc32c crate == Btdht.crc32c (validated on random buffers and the standard vector)"],
        "assumptions": ["the three random draws of from_ip are arbitrary bytes (universally quantified in the theorem, observed in the tie)"],
    },
    "C19": {
        "engines": [{"name": "tid", "quick": 8, "thorough": 40},
                    # the ids on the wire: every query a real node sends is checked by the [C19] oracle
                    # (8 bytes; one id goes to one address once; only a bootstrap first round shares its id)
                    {"name": "node", "quick": 42, "thorough": 140, "oracle_tag": "C19"},
                    # which action ids the handler's activities hold: the refresh's id was drawn from the generator
                    # (it is not among the ids later activities will get), live searches have distinct ids
                    {"name": "handler", "quick": 160, "thorough": 1500, "oracle_tag": "C19"}],
        "constants": ["ACTION_ID_BYTES", "MESSAGE_ID_BYTES", "ACTION_ID_PREALLOC_LEN", "MESSAGE_ID_PREALLOC_LEN"],
        "trusted": COMMON_TRUST + ["the shuffle of each id block is an arbitrary permutation (oracle input read through the hook accessor)"],
        "assumptions": ["rand's shuffle returns a permutation of the block"],
        "level_note": "generators: 8-byte layout, injectivity, freshness over 2^24 / 2^40 draws for every family of shuffles; attribution at handler-model level for every run: stored searches have pairwise distinct action ids (none the refresh's 0 or the bootstrap's 1), outstanding queries of a search pairwise distinct ids (C19_attribution, C19_attribution_unique; bootstrap exchanges: C15_exchanges_distinct); that every query on the wire carries such an id is decided by the [C19] wire oracle of the node engine",
    },
    "C06": {
        "engines": [{"name": "token", "quick": 60, "thorough": 600}, {"name": "handler", "quick": 40, "thorough": 600, "oracle_tag": "C06"}],
        "constants": ["TOKEN_REFRESH_INTERVAL_ns", "INFO_HASH_LEN"],
        "trusted": COMMON_TRUST + [
            "symbolic tokens: SHA-1 is collision-free on the 8/20-byte inputs, a party not given a token cannot produce it, fresh 32-bit secrets differ from earlier ones (2^-32 per rotation; the harness checks token == SHA1(ip||secret) with its own SHA-1)",
            "monotone clock (std Instant), replaced by tokio's paused clock under the hook"],
        "assumptions": ["clock is monotone", "adversary presents issued tokens or junk (symbolic model)"],
        "level_note": "store-level clauses proved for all histories; the handler-level gate (store only after checkin accepts, error 203, wrong-length tokens) is decided by the handler model of C05 (C06_gate)",
    },
    "C07": {
        "engines": [{"name": "storage", "quick": 30, "thorough": 400}, {"name": "handler", "quick": 40, "thorough": 600, "oracle_tag": "C07"}],
        "constants": ["MAX_ITEMS_STORED", "EXPIRATION_TIME_ns"],
        "trusted": COMMON_TRUST + ["the HashMap<InfoHash, Vec<item>> is represented by one list in push order (observationally the same map: lookups are by key only)"],
        "assumptions": ["clock is monotone"],
        "level_note": "store-level clauses proved for all histories (refinement to a 3-function spec + exactness over histories); which address is stored and the family filter of the reply are handler-level (C05 model)",
    },
    "C10": {
        "engines": [{"name": "table", "quick": 40, "thorough": 600, "oracle_tag": "C10",
                     "op_filter": ["n", "contacts", "counts", "local", "remote"]}],
        "constants": ["MAX_LAST_SEEN_MINS", "MAX_REFRESH_REQUESTS", "RECENTLY_REQUESTED_SECS"],
        "trusted": COMMON_TRUST + ["clock >= 15 min (the implementation's one-week Instant offset); generated times start at 1000 s"],
        "assumptions": ["clock is monotone", "events reach the node the way the routing table applies them (update / find_node_mut on pingable nodes)"],
    },
    "C08": {
        "engines": [{"name": "table", "quick": 40, "thorough": 600, "oracle_tag": "C08",
                     "op_filter": ["offer", "addnodes", "local", "remote", "dump", "new"]}],
        "constants": ["MAX_BUCKET_SIZE", "MAX_BUCKETS", "INFO_HASH_LEN", "MAX_LAST_SEEN_MINS", "MAX_REFRESH_REQUESTS"],
        "trusted": COMMON_TRUST + ["router set fixed before the first offer"],
        "assumptions": ["router set fixed before the first offer (as within one bootstrap attempt)"],
        "level_note": "shape invariant proved for all op sequences incl. splits; trade/admission/rejection proved per offer at bucket level and, for every table satisfying the invariant, at table level across any number of splits: split_bucket re-adds every live node and touches no other bucket (C08_split_lossless), at most one victim of strictly lower standing from a bucket of 8 live nodes (C08_table_trade), admission unless the final unsplittable bucket holds 8 live nodes none ranking below the newcomer (C08_table_admit), filtered offers change nothing (C08_offer_filtered)",
    },
    "C09": {
        "engines": [{"name": "table", "quick": 40, "thorough": 600, "oracle_tag": "C09",
                     "op_filter": ["closest", "counts"]}],
        "constants": ["MAX_BUCKET_SIZE", "MAX_BUCKETS", "INFO_HASH_LEN", "REPLY_NODES_PER_FAMILY", "REPLY_NODES_PER_FAMILY_V6"],
        "trusted": COMMON_TRUST + ["C08_inv supplies the table invariant the C09 theorems assume; ids are 20 bytes (InfoHash type)"],
        "assumptions": ["table satisfies TInv (proved for every reachable table in C08)", "ids are 20 bytes"],
        "level_note": "walk, exactly-once enumeration, closer-nodes-first and the per-family reply list are proved for every table satisfying the invariant; the family filter/take(8) glue of the handler is additionally exercised by the handler engine (C05)",
    },
    "C13": {
        "engines": [{"name": "codec", "quick": 40, "thorough": 1500, "oracle_tag": "C13"}],
        "constants": ["INFO_HASH_LEN", "SOCKET_ADDR_V4_LEN", "SOCKET_ADDR_V6_LEN", "BENCODE_MAX_DEPTH"],
        "trusted": COMMON_TRUST + ["serde / serde_bytes / torrust-serde-bencode behaviour is part of the hand-written decoder model (validated differentially, incl. a malformed stream)",
                                   "two syntactic classes are declared unmodelled and excluded from the verdict comparison: a list where a struct is expected; y/q given a dictionary"],
        "assumptions": ["byte strings shorter than 2^64 (datagrams are <= 64 KiB)"],
        "level_note": "byte-level round trip (any trailing bytes), encoder totality, sorted keys, literal templates, the rejections, and the invariance under key reordering and unknown keys at every level (C13_reorder_unknown: every variant of the encoding — pairs in any order, further pairs under keys that are no field names of their level, arbitrary well-formed values within the pre-scan depth — decodes to the same message) are proved for the whole message space",
    },
    "C14": {
        "engines": [{"name": "codec", "quick": 40, "thorough": 1500, "oracle_tag": "C14", "op_filter": ["dec"]},
                    # "a running node that receives any sequence of such datagrams keeps serving": real nodes
                    # fed garbage, duplicated, unsolicited and racing datagrams; a node that stops answering
                    # its API ([C15] oracle) or a query ([C05] oracle) afterwards violates C14 as well
                    {"name": "node", "quick": 42, "thorough": 140, "oracle_tag": ["C14", "C15", "C05"]}],
        "constants": ["BENCODE_MAX_DEPTH", "RECV_BUFFER_LEN"],
        "trusted": COMMON_TRUST + ["Rust-level panic/abort/stack-overflow freedom is runtime behaviour observed by the supervised decoder child (2 MiB stack, RLIMIT_AS 3 GiB, allocation counter); no theorem covers it"],
        "assumptions": [],
        "level_note": "PARTIAL: proved — decoder model total, every materialised string <= input length, pre-scan rejects over-long strings / nesting > 32 and accepts all well-formed values within the limit; not provable in Lean — that the Rust code does not panic/abort/overflow (tie only); the 'node keeps serving' clause is decided by the node engine (real nodes under garbage, duplicated, unsolicited and same-instant datagrams, in lockstep with the node model)",
    },
    "C02": {
        "engines": [{"name": "handler", "quick": 160, "thorough": 1500, "oracle_tag": "C02"}],
        "constants": ["ANNOUNCE_PICK_NUM", "INITIAL_PICK_NUM", "ITERATIVE_PICK_NUM", "MAX_TOKEN_LEN"],
        "trusted": COMMON_TRUST + ["transaction ids, action ids and token secrets are symbolic in the model and canonicalised by order of first appearance on both sides (C19/C06 prove what the symbols stand for)", "tokio timers fire at their deadline rounded up to the 1 ms tick (the observed instant is an oracle input of the `fire` op)"],
        "assumptions": [],
        "level_note": "proved for all runs — every peer of every accepted answer is delivered once per occurrence; the candidate list of every stored search is sorted by XOR distance in every state (C02_candidates_sorted); the announces go to the 8 closest candidates that answered with a token, each with that node's latest token, the info-hash, the own id and the configured port (C02_announce_closest); and, since session 4, the reachability clause itself: on a network N of nodes with distinct ids and addresses whose answers arrive within D < 1.5 s and name the 8 nodes of N closest to the target (closed loop with a ghost log of the queries sent: TruthfulRun / FinishOk = E1-E4 of the property), the announce_peer datagrams of the search are exactly `closest8 target N`, each once, closest first, each with that node's own token (C02_announce_targets_reach at search level, C02_announce_targets_reach_handler for any interleaving of handler inputs; C02_reach_not_completed_early: never completed before the end-game timer, and outside the end-game the network always owes an answer). Hypotheses kept explicit: E1-E4, tokens <= 256 bytes, and that the placeholder handle (id 0…0 at 0.0.0.0:0, the filler of the pick array) is not a node of N — shown necessary by a computed counter-example; the code behaves the same way. That the end-game timer fires is C04_upper",
    },
    "C03": {
        "engines": [{"name": "handler", "quick": 160, "thorough": 1500, "oracle_tag": "C03"}],
        "constants": ["ANNOUNCE_PICK_NUM", "MAX_TOKEN_LEN"],
        "trusted": COMMON_TRUST + ["transaction ids, action ids and token secrets are symbolic in the model and canonicalised by order of first appearance on both sides (C19/C06 prove what the symbols stand for)", "tokio timers fire at their deadline rounded up to the 1 ms tick (the observed instant is an oracle input of the `fire` op)"],
        "assumptions": [],
        "level_note": "yield provenance, announce discipline (<= 8, only when requested, only token holders, latest token), token provenance, routing by action prefix and run-once are proved for all event sequences at lookup/handler-model level; the model is tied to the real handler by lockstep on hostile network scenarios",
    },
    "C04": {
        "engines": [{"name": "handler", "quick": 160, "thorough": 1500, "oracle_tag": "C04"},
                    # "every search stream terminates" at node level: searches issued through the public API at any
                    # moment (before, during and after bootstraps and re-bootstraps) must end ([C04] oracle)
                    {"name": "node", "quick": 42, "thorough": 140, "oracle_tag": "C04"}],
        "constants": ["LOOKUP_TIMEOUT_ns", "ENDGAME_TIMEOUT_ns"],
        "trusted": COMMON_TRUST + ["transaction ids, action ids and token secrets are symbolic in the model and canonicalised by order of first appearance on both sides (C19/C06 prove what the symbols stand for)", "tokio timers fire at their deadline rounded up to the 1 ms tick (the observed instant is an oracle input of the `fire` op)"],
        "assumptions": ["timer contract: whenever the handler runs, no pending timer entry is overdue by more than J (tokio: < 1 ms); hypothesis PunctualRun of C04_upper"],
        "level_note": "proved — immediate close without good nodes; answers and query timeouts never end a search (only the end-game timer, scheduled 1.5 s after nothing was outstanding); every query gets a 1.5 s timeout entry; timer pops in deadline order, cancel removes exactly its entry; and, under the timer contract as an explicit hypothesis of the run (PunctualRun J: no pending entry overdue by more than J when the handler runs), the quantitative bound for every interleaving and any number of concurrent searches: a search still open at `now` satisfies now <= T0 + (1.5 s + J)(1 + k) + 1.5 s + 2J, k = nodes queried after the first round, each named in an accepted answer (C04_deadline_invariant, C04_upper, C04_silent, C04_later_rounds_query_named_nodes). PARTIAL only in that the timer contract of tokio is assumed; the [C04] oracles on silent/lossy/chain/hostile networks with failing sends measure the real closing times",
    },
    "C05": {
        "engines": [{"name": "handler", "quick": 160, "thorough": 1500, "oracle_tag": "C05"},
                    # what a query asks for (want, port / implied_port, token) is what the decoder makes of its
                    # bytes: the decoder half of the codec tie belongs to "each well-formed query gets a correct reply"
                    {"name": "codec", "quick": 40, "thorough": 1500, "oracle_tag": "C13", "op_filter": ["dec"]}],
        "constants": ["PROTOCOL_ERROR", "SERVER_ERROR", "REPLY_NODES_PER_FAMILY", "REPLY_NODES_PER_FAMILY_V6", "MAX_VALUES_V4", "MAX_VALUES_V6"],
        "trusted": COMMON_TRUST + ["transaction ids, action ids and token secrets are symbolic in the model and canonicalised by order of first appearance on both sides (C19/C06 prove what the symbols stand for)", "tokio timers fire at their deadline rounded up to the 1 ms tick (the observed instant is an oracle input of the `fire` op)"],
        "assumptions": [],
        "level_note": "one reply per query with echoed id and own id, reply shapes, 203/202 conditions, read-only silence, no reply to errors/responses are proved for every handler state; finding F5 (query swallowed by Socket::recv when it reuses a pending bootstrap id) is about the socket layer in front of the handler and is decided by the node engine",
    },
    "C12": {
        "engines": [{"name": "handler", "quick": 160, "thorough": 1500, "oracle_tag": "C12"},
                    # "receiving a query never adds its sender": what a query does to the table entry of its sender
                    # (also of a sender that was dropped from the contacts) is the table engine's `remote` operation
                    {"name": "table", "quick": 40, "thorough": 600, "oracle_tag": ["C12", "C10"],
                     "op_filter": ["remote", "contacts", "counts", "n"]}],
        "constants": ["MAX_BUCKET_SIZE"],
        "trusted": COMMON_TRUST + ["transaction ids, action ids and token secrets are symbolic in the model and canonicalised by order of first appearance on both sides (C19/C06 prove what the symbols stand for)", "tokio timers fire at their deadline rounded up to the 1 ms tick (the observed instant is an oracle input of the `fire` op)"],
        "assumptions": [],
        "level_note": "a query never changes any (id,address) slot; a response whose id routes nowhere changes nothing; named nodes are offered as questionable; own id and router addresses are never live after any handler step (C08 invariant along TReach). Known finding F12: the refresh action prefix is accepted with any message id",
    },
    "C17": {
        "engines": [{"name": "handler", "quick": 160, "thorough": 1500, "oracle_tag": "C17"},
                    {"name": "codec", "quick": 40, "thorough": 1000, "oracle_tag": "C13", "op_filter": ["enc"]}],
        "constants": ["MAX_VALUES_V4", "MAX_VALUES_V6", "MAX_TOKEN_LEN", "RECV_BUFFER_LEN", "REPLY_NODES_PER_FAMILY", "REPLY_NODES_PER_FAMILY_V6"],
        "trusted": COMMON_TRUST + ["the size theorems are about the encoder model printVal/msgTree, which C13 proves to be the BEP encoding and the codec engine ties byte-for-byte to the real serializer",
                                   "transaction ids of our own queries are 8 bytes (C19), tokens we issue are 20 bytes (SHA-1); echoed transaction ids are assumed <= 32 bytes in the reply theorem (the [C17] oracle measures the real datagrams, incl. longer echoed ids)"],
        "assumptions": ["echoed transaction id <= 32 bytes for the 1500-byte reply theorem (the formula theorem is stated for any bound)"],
        "level_note": "size formula 653+8v / 653+21v for replies, structural bounds of handler replies (<= 8 nodes per family, <= 100/40 peers, 20-byte token), fixed query sizes, announce <= 420 with a recorded token, error replies < 70+tid proved for all states; every datagram the real handler emits in lockstep runs is measured by the [C17] oracle. Findings F17 (unbounded values list) and F17b (unbounded echoed token) were fixed in /repo",
    },
    "C18": {
        "engines": [{"name": "node", "quick": 42, "thorough": 140, "oracle_tag": "C18"}],
        "constants": ["REFRESH_INTERVAL_TIMEOUT_ns", "PERIODIC_CHECK_TIMEOUT_ns", "GOOD_NODE_THRESHOLD"],
        "trusted": NODE_TRUST,
        "assumptions": [],
        "level_note": "single refresh chain (at most one pending TableRefresh entry in every state of every run) and >= 6 s between consecutive refresh rounds, hence at most w/6s+1 rounds in any window, proved for all runs of the node model (any inputs, any number of re-bootstraps); finding F18 (one more chain per bootstrap completion) demonstrated by the node engine and fixed in /repo",
    },
    "C16": {
        "engines": [{"name": "node", "quick": 42, "thorough": 140, "oracle_tag": "C16"}],
        "constants": ["GOOD_NODE_THRESHOLD"],
        "trusted": NODE_TRUST,
        "assumptions": [],
        "level_note": "queueing before the first completion, start of every queued search (in order, by the same function a late search goes through) when the completion is handled, no stream item/stream end before the first handled completion in any run, queue empty ever after: proved for all runs of the node model; that the started search yields what the late search yields is C02/C03 at model level and the [C16] oracle (every search of a truthful static network yields the stored peer) on the real node. Finding F16 demonstrated by the node engine and fixed in /repo",
    },
    "C15": {
        "engines": [{"name": "node", "quick": 42, "thorough": 140, "oracle_tag": "C15"}],
        "constants": ["INITIAL_TIMEOUT_ns", "NODE_TIMEOUT_ns", "NO_NETWORK_TIMEOUT_ns", "PERIODIC_CHECK_TIMEOUT_ns", "GOOD_NODE_THRESHOLD", "MAX_INITIAL_RESPONSES", "BOOTSTRAP_RETRY_BASE", "BOOTSTRAP_RETRY_MAX_EXP", "BOOTSTRAP_THROTTLE_AFTER"],
        "trusted": NODE_TRUST,
        "assumptions": [],
        "level_note": "proved for every run of the node model — no contacts: Bootstrapped in the starting step and the worker never attempts anything; with contacts: no Bootstrapped publication, no handled completion and no returning bootstrapped() before a contact's response was accepted; every waiter resolved in the step of the completion, nobody left waiting while bootstrapped, immediate return while bootstrapped; API commands always answered; first-round contacts pairwise distinct and, in every state of every run, the exchanges registered with the socket have pairwise distinct (address, id) keys (the F15 assertion is unreachable); and, since session 4, the timed clause: for a router-less node, from any state reached by any punctual run (any outages, failed attempts, earlier completions), once a node contact c answers every first-round query sent to it after t0 within its 2.5 s time-out (responsiveness stated on inputs and trace only: RespRunT, monitor owedScan), Bootstrapped is published, observed and every pending bootstrapped() call resolved by t0 + bootBound n = t0 + 512 s + 2(2.5 s + 0.5 s (n-9)) + 80 s, i.e. <= 608 s < 11 min for n <= 20 contacts (C15_completes, C15_completes_trace, C15_bound_11_minutes, C15_progress_invariant: a progress invariant of worker phases proved for every punctual run). Explicit hypotheses: punctuality of the run (the fuel-bounded loops of the model never run dry, i.e. tokio's timers fire) and the responsiveness of c. Finding F15 demonstrated by the node engine and fixed in /repo",
    },
    "C11": {
        "engines": [{"name": "node", "quick": 42, "thorough": 140, "oracle_tag": "C11"},
                    # the status / bucket rules the C11 theorems build on are those of C10 / C08: their tie
                    {"name": "table", "quick": 30, "thorough": 400, "oracle_tag": "C10", "op_filter": ["n", "contacts", "counts", "local", "remote"]}],
        "constants": ["REFRESH_INTERVAL_TIMEOUT_ns", "REFRESH_CONCURRENCY", "RECENTLY_REQUESTED_SECS", "MAX_LAST_SEEN_MINS", "MAX_REFRESH_REQUESTS", "PINGS_PER_BUCKET"],
        "trusted": NODE_TRUST,
        "assumptions": [],
        "level_note": "PARTIAL (hypotheses, not clauses, remain): proved — which contacts a refresh round pings (first 4 eligible in closest-to-target order), the self-perpetuating 6 s chain, an accepted answer makes a listed contact good at once, two strikes make a stale contact bad and unreported; and, since session 4, the quantitative bounds for punctual runs of the handler plus the bootstrap worker's table accesses (NRun J): a refresh round at least every 6 s + J (C11_round_every_6s, C11_rounds_in_window); the pigeonhole C11_pick_fair (with at most m other eligible contacts a waiting contact is picked by round ceil((m+1)/4) of a 30 s window) with its rely proved for every node step except a hearsay mention of a contact whose entry is bad or gone (C11_rely_step, C11_rely_hearsay; counter-example computed); C11_fresh_within + C11_refresh_answer_good (queried by lr + R(6 s + J), R = m/4+1; the answer is accepted whenever it arrives and makes the contact good: < 30 s for m <= 12, rtt <= 2 s); C11_purged_within (a silent contact is bad and unreported by t0 + 2(30 s + R(6 s + J)) = 108 s for m <= 12, well inside 20 min / 5 min). Explicit hypotheses: tokio's timer contract, the bound m on simultaneously eligible competitors (for m >= 20 the 30 s figure is not met by 4 pings per 6 s — the theorem's bound is what holds), the rely for re-named dead competitors, and that the contact is still listed when its answer arrives. NRun runs are not formally tied to DState.run (like C04's HOp runs). The [C11] oracle checks the end-to-end figures on the real node (single-contact, well-connected and crowded regimes)",
    },
    "C01": {
        "engines": [{"name": "node", "quick": 42, "thorough": 140, "oracle_tag": "C01"},
                    # the links of the chain are theorems about the storage / token / handler models: their ties
                    {"name": "storage", "quick": 30, "thorough": 400},
                    {"name": "token", "quick": 30, "thorough": 400},
                    {"name": "handler", "quick": 160, "thorough": 1500, "oracle_tag": "C05"}],
        "constants": ["MAX_VALUES_V4", "MAX_VALUES_V6", "ANNOUNCE_PICK_NUM", "TOKEN_REFRESH_INTERVAL_ns", "MAX_ITEMS_STORED", "EXPIRATION_TIME_ns"],
        "trusted": NODE_TRUST,
        "assumptions": [],
        "level_note": "PARTIAL (hypotheses, not clauses, remain). Proved: every link for all inputs/histories (token accepted >= 10 min, announce stores the contact, 24 h storage, reply lists the stored addresses, stream yields them) and, since session 4, the composition over a network of handler models (Proofs/Net*.lean, ReachG.lean): C01_server_contract (a serving node that knows exactly the other nodes answers every get_peers with its current token for the requester, the live stored contacts and exactly those nodes, along any run of queries); C01_announce_reaches_all (in a loss-free run with one-way latency D, 2D < 1.5 s, once the announcer's end-game timer has fired every node of closest8 — all others for <= 8 others — holds (info-hash, announcer's IP with the configured or source port) with insertion time in [T1, T1 + D], or the announce is still in flight); C01_search_finds, C01_expired_not_found (a later search yields a contact every queried node holds alive, and nothing that no node of the network holds — 24 h expiry by C07); C01_end_to_end (the searcher's stream yields the announcer's contact when its window ends less than 24 h after the announce). Explicit hypotheses: the network run (NetRun: every datagram delivered exactly once within D, nothing else delivered, timers not early), every node's table lists exactly the others as good for the window (Serves/Knows; a window of <= 10 min, the token validity), stores with room, one search at a time (RunOk), the search ends (C04). Not proved: concurrent searches and re-announces (stage D), the period between two searches more than 10 minutes apart (refresh, contacts going questionable: `Ready` is then a hypothesis). The proof surfaced that a search queries and announces to its own node (replies name the requester), so with exactly 9 nodes the 8 announces include the announcer itself and the farthest other node stores nothing — the end-to-end claim still holds. The [C01] oracle of the node engine decides the claim on networks of real nodes (2..9 nodes, offsets up to beyond 24 h)",
    },
}
