"""Per-property configuration of bin/check: which correspondence engines tie the definitions the
property's theorems are about to the code, with how many generated cases per tier."""

COMMON_TRUST = [
    "tools/extract_consts.py (constants translator)",
    "harness/ (Rust correspondence harness, generators, independent oracles) and Driver/*.lean (line protocol)",
    "hand-written model Btdht/Model/*.lean is tied to the code only by the differential runs reported here",
]

PROPS = {
    "C20": {
        "engines": [{"name": "bep42", "quick": 40, "thorough": 2700}],
        "constants": ["INFO_HASH_LEN"],
        "trusted": COMMON_TRUST + ["crc32c crate == Btdht.crc32c (validated on random buffers and the standard vector)"],
        "assumptions": ["the three random draws of from_ip are arbitrary bytes (universally quantified in the theorem, observed in the tie)"],
    },
    "C19": {
        "engines": [{"name": "tid", "quick": 8, "thorough": 40}],
        "constants": ["ACTION_ID_BYTES", "MESSAGE_ID_BYTES", "ACTION_ID_PREALLOC_LEN", "MESSAGE_ID_PREALLOC_LEN"],
        "trusted": COMMON_TRUST + ["the shuffle of each id block is an arbitrary permutation (oracle input read through the hook accessor)"],
        "assumptions": ["rand's shuffle returns a permutation of the block"],
    },
    "C06": {
        "engines": [{"name": "token", "quick": 60, "thorough": 600}],
        "constants": ["TOKEN_REFRESH_INTERVAL_ns", "INFO_HASH_LEN"],
        "trusted": COMMON_TRUST + [
            "symbolic tokens: SHA-1 is collision-free on the 8/20-byte inputs, a party not given a token cannot produce it, fresh 32-bit secrets differ from earlier ones (2^-32 per rotation; the harness checks token == SHA1(ip||secret) with its own SHA-1)",
            "monotone clock (std Instant), replaced by tokio's paused clock under the hook"],
        "assumptions": ["clock is monotone", "adversary presents issued tokens or junk (symbolic model)"],
        "level_note": "store-level clauses proved for all histories; the handler-level gate (store only after checkin accepts, error 203, wrong-length tokens) is decided by the handler model of C05 (C06_gate)",
    },
    "C07": {
        "engines": [{"name": "storage", "quick": 30, "thorough": 400}],
        "constants": ["MAX_ITEMS_STORED", "EXPIRATION_TIME_ns"],
        "trusted": COMMON_TRUST + ["the HashMap<InfoHash, Vec<item>> is represented by one list in push order (observationally the same map: lookups are by key only)"],
        "assumptions": ["clock is monotone"],
        "level_note": "store-level clauses proved for all histories (refinement to a 3-function spec + exactness over histories); which address is stored and the family filter of the reply are handler-level (C05 model)",
    },
    "C10": {
        "engines": [{"name": "table", "quick": 40, "thorough": 600, "oracle_tag": "C10",
                     "op_filter": ["n", "contacts", "counts", "local", "remote"]}],
        "constants": ["MAX_LAST_SEEN_MINS", "MAX_REFRESH_REQUESTS", "RECENTLY_REQUESTED_SECS"],
        "trusted": COMMON_TRUST + ["clock >= 15 min (the implementation's one-week Instant offset); generated times start at 1000 s"],
        "assumptions": ["clock is monotone", "events reach the node the way the routing table applies them (update / find_node_mut on pingable nodes)"],
    },
    "C08": {
        "engines": [{"name": "table", "quick": 40, "thorough": 600, "oracle_tag": "C08",
                     "op_filter": ["offer", "addnodes", "local", "remote", "dump", "new"]}],
        "constants": ["MAX_BUCKET_SIZE", "MAX_BUCKETS", "INFO_HASH_LEN", "MAX_LAST_SEEN_MINS", "MAX_REFRESH_REQUESTS"],
        "trusted": COMMON_TRUST + ["router set fixed before the first offer"],
        "assumptions": ["router set fixed before the first offer (as within one bootstrap attempt)"],
        "level_note": "shape invariant proved for all op sequences incl. splits; trade/admission/rejection proved per offer at bucket level and at table level for offers that do not split; that split_bucket re-adds every live node is NOT proved in Lean and is decided by the tie (check_trade on the real table across splits)",
    },
    "C09": {
        "engines": [{"name": "table", "quick": 40, "thorough": 600, "oracle_tag": "C09",
                     "op_filter": ["closest", "counts"]}],
        "constants": ["MAX_BUCKET_SIZE", "MAX_BUCKETS", "INFO_HASH_LEN", "REPLY_NODES_PER_FAMILY", "REPLY_NODES_PER_FAMILY_V6"],
        "trusted": COMMON_TRUST + ["C08_inv supplies the table invariant the C09 theorems assume; ids are 20 bytes (InfoHash type)"],
        "assumptions": ["table satisfies TInv (proved for every reachable table in C08)", "ids are 20 bytes"],
        "level_note": "walk, exactly-once enumeration, closer-nodes-first and the per-family reply list are proved for every table satisfying the invariant; the family filter/take(8) glue of the handler is additionally exercised by the handler engine (C05)",
    },
    "C13": {
        "engines": [{"name": "codec", "quick": 40, "thorough": 1500, "oracle_tag": "C13"}],
        "constants": ["INFO_HASH_LEN", "SOCKET_ADDR_V4_LEN", "SOCKET_ADDR_V6_LEN", "BENCODE_MAX_DEPTH"],
        "trusted": COMMON_TRUST + ["serde / serde_bytes / torrust-serde-bencode behaviour is part of the hand-written decoder model (validated differentially, incl. a malformed stream)",
                                   "two syntactic classes are declared unmodelled and excluded from the verdict comparison: a list where a struct is expected; y/q given a dictionary"],
        "assumptions": ["byte strings shorter than 2^64 (datagrams are <= 64 KiB)"],
        "level_note": "byte-level round trip (any trailing bytes), encoder totality, sorted keys, literal templates and the rejections are proved for the whole message space; invariance under key reordering/unknown keys is decided by the tie only so far (partial)",
    },
    "C14": {
        "engines": [{"name": "codec", "quick": 40, "thorough": 1500, "oracle_tag": "C14", "op_filter": ["dec"]}],
        "constants": ["BENCODE_MAX_DEPTH", "RECV_BUFFER_LEN"],
        "trusted": COMMON_TRUST + ["Rust-level panic/abort/stack-overflow freedom is runtime behaviour observed by the supervised decoder child (2 MiB stack, RLIMIT_AS 3 GiB, allocation counter); no theorem covers it"],
        "assumptions": [],
        "level_note": "PARTIAL: proved — decoder model total, every materialised string <= input length, pre-scan rejects over-long strings / nesting > 32 and accepts all well-formed values within the limit; not provable in Lean — that the Rust code does not panic/abort/overflow (tie only); the 'node keeps serving' clause is decided by the node engine once built",
    },
}
