#!/bin/bash
# soak: many seeds of the node engine against the model; prints only disagreements
out=${1:-/verif/work/soak}; n=${2:-10}; cases=${3:-84}
mkdir -p $out
for i in $(seq 1 $n); do
  seed=$((1000 + i))
  /verif/harness/target/release/btdht-verif-harness node --seed $seed --cases $cases --out $out/s$seed > /dev/null
  /verif/lean/.lake/build/bin/btdht_model node < $out/s$seed/ops.txt > $out/s$seed/model.txt
  r=$(python3 /verif/tools/cmp_node.py $out/s$seed 2 | tail -1)
  f=$(grep -c oracle-fail $out/s$seed/stats.txt)
  echo "seed $seed: $r oracle_fails=$f"
  case "$r" in *"diff lines 0 "*) [ "$f" = "0" ] && rm -rf $out/s$seed;; esac
done
