#!/usr/bin/env python3
"""Translator: /repo/src/**/*.rs -> lean/Btdht/Generated/Constants.lean

Every constant and literal the properties depend on is read from the *current* source tree and
written as a Lean definition. The model definitions use these names; the theorem statements use the
property's own numbers, so a changed constant breaks a proof obligation at `lake build` time.
Durations are given in nanoseconds (suffix _ns). A pattern that is no longer found is a broken tie:
the script exits 3 and names the constant.
"""
import re, sys, json, os

REPO = os.environ.get("BTDHT_REPO", "/repo")
OUT = sys.argv[1] if len(sys.argv) > 1 else "/verif/lean/Btdht/Generated/Constants.lean"
SPANS = sys.argv[2] if len(sys.argv) > 2 else None

def read(path):
    with open(os.path.join(REPO, path)) as f:
        return f.read()

def strip_cfg_test(src):
    """drop items under #[cfg(test)] (we model the production constants)"""
    return re.sub(r'#\[cfg\(test\)\]\s*\n\s*(const|static)[^;]*;', '', src)

env = {}
spans = []

def ev(expr, src=""):
    """value of a constant expression; a name that is not known yet is looked up as a `const` of the
    same file (a constant defined through another constant is a harmless rewrite, not a broken tie)"""
    e = expr.strip()
    m = re.fullmatch(r'Duration::from_secs\((.*)\)', e, re.S)
    if m: return ev(m.group(1), src) * 10**9
    m = re.fullmatch(r'Duration::from_millis\((.*)\)', e, re.S)
    if m: return ev(m.group(1), src) * 10**6
    e = re.sub(r'\bas\s+(u64|usize|u32|u8|u16)\b', '', e)
    e = re.sub(r'(\d)_(\d)', r'\1\2', e)
    e = re.sub(r'(\d+)(u64|usize|u32|u8|u16)\b', r'\1', e)
    def name(m):
        n = m.group(0)
        if n in env: return str(env[n])
        d = re.findall(r'(?:pub(?:\([a-z]+\))?\s+)?const\s+' + re.escape(n) + r'\s*:\s*[^=]+=\s*([^;]+);', src, re.S)
        if len(d) == 1: return "(" + str(ev(d[0], src)) + ")"
        raise KeyError(n)
    e = re.sub(r'\b[A-Z][A-Z0-9_]*\b', name, e)
    if not re.fullmatch(r'[0-9xa-fA-F\s+\-*/()<>]*', e):
        raise ValueError("cannot evaluate: " + expr)
    return int(eval(e.replace('/', '//')))

def const(lean_name, path, rust_name=None, pattern=None, group=1, duration=False):
    src = strip_cfg_test(read(path))
    rust_name = rust_name or lean_name
    if pattern is None:
        pattern = r'(?:pub(?:\([a-z]+\))?\s+)?const\s+' + re.escape(rust_name) + r'\s*:\s*[^=]+=\s*([^;]+);'
    ms = list(re.finditer(pattern, src, re.S))
    if len(ms) != 1:
        print(f"extract_consts: pattern for {lean_name} matched {len(ms)} times in {path}", file=sys.stderr)
        sys.exit(3)
    m = ms[0]
    try:
        val = ev(m.group(group), src)
    except Exception as ex:
        print(f"extract_consts: cannot evaluate {lean_name} in {path}: {ex}", file=sys.stderr)
        sys.exit(3)
    line = src.count('\n', 0, m.start()) + 1
    key = lean_name + ("_ns" if duration else "")
    env[rust_name] = val
    env[key] = val
    spans.append({"name": key, "value": val, "file": path, "approx_line": line,
                  "text": " ".join(m.group(0).split())[:120]})
    return val

# --- info_hash.rs / compact.rs
const("INFO_HASH_LEN", "src/info_hash.rs")
const("SOCKET_ADDR_V4_LEN", "src/compact.rs")
const("SOCKET_ADDR_V6_LEN", "src/compact.rs")
# --- transaction.rs
const("ACTION_ID_BYTES", "src/transaction.rs")
const("MESSAGE_ID_BYTES", "src/transaction.rs")
const("ACTION_ID_PREALLOC_LEN", "src/transaction.rs")
const("MESSAGE_ID_PREALLOC_LEN", "src/transaction.rs")
# --- token.rs
const("TOKEN_REFRESH_INTERVAL", "src/token.rs", rust_name="REFRESH_INTERVAL", duration=True)
# --- storage.rs
const("MAX_ITEMS_STORED", "src/storage.rs")
const("EXPIRATION_TIME", "src/storage.rs", duration=True)
# --- node.rs
const("MAX_LAST_SEEN_MINS", "src/node.rs")
const("MAX_REFRESH_REQUESTS", "src/node.rs")
const("RECENTLY_REQUESTED_SECS", "src/node.rs",
      pattern=r'Instant::now\(\)\s*<\s*time\s*\+\s*Duration::from_secs\((\d+)\)')
# --- bucket.rs / table.rs
const("MAX_BUCKET_SIZE", "src/bucket.rs")
const("MAX_BUCKETS", "src/table.rs")
# --- lookup.rs
const("LOOKUP_TIMEOUT", "src/action/lookup.rs", duration=True)
const("ENDGAME_TIMEOUT", "src/action/lookup.rs", duration=True)
const("ANNOUNCE_PICK_NUM", "src/action/lookup.rs")
const("INITIAL_PICK_NUM", "src/action/lookup.rs")
const("ITERATIVE_PICK_NUM", "src/action/lookup.rs")
# --- refresh.rs
const("REFRESH_INTERVAL_TIMEOUT", "src/action/refresh.rs", duration=True)
const("REFRESH_CONCURRENCY", "src/action/refresh.rs")
# --- bootstrap.rs
const("INITIAL_TIMEOUT", "src/action/bootstrap.rs", duration=True)
const("NODE_TIMEOUT", "src/action/bootstrap.rs", duration=True)
const("NO_NETWORK_TIMEOUT", "src/action/bootstrap.rs", duration=True)
const("PERIODIC_CHECK_TIMEOUT", "src/action/bootstrap.rs", duration=True)
const("GOOD_NODE_THRESHOLD", "src/action/bootstrap.rs")
const("PINGS_PER_BUCKET", "src/action/bootstrap.rs")
const("MAX_INITIAL_RESPONSES", "src/action/bootstrap.rs")
const("BOOTSTRAP_RETRY_BASE", "src/action/bootstrap.rs", rust_name="BASE")
const("BOOTSTRAP_RETRY_MAX_EXP", "src/action/bootstrap.rs", pattern=r'BASE\.pow\(\(bootstrap_attempt \+ 1\)\.min\((\d+)\) as u32\)')
const("NAT_FRIENDLY_SEND", "src/action/bootstrap.rs", pattern=r'fn nat_friendly_send_duration\(\) -> Duration \{.*?(Duration::from_millis\([^)]*\))\s*\}', duration=True)
const("BOOTSTRAP_THROTTLE_AFTER", "src/action/bootstrap.rs", pattern=r'if count > (PINGS_PER_BUCKET) \{')
# --- socket.rs
const("RECV_BUFFER_LEN", "src/socket.rs", pattern=r'let mut buffer = vec!\[0u8;\s*(\w+)\];')
# --- handler.rs
const("MAX_VALUES_V4", "src/handler.rs")
const("MAX_VALUES_V6", "src/handler.rs")
const("MAX_TOKEN_LEN", "src/action/lookup.rs")
const("REPLY_NODES_PER_FAMILY", "src/handler.rs",
      pattern=r'\.filter\(\|node\| node\.addr\(\)\.is_ipv4\(\)\)\s*\.take\((\w+)\)')
const("REPLY_NODES_PER_FAMILY_V6", "src/handler.rs",
      pattern=r'\.filter\(\|node\| node\.addr\(\)\.is_ipv6\(\)\)\s*\.take\((\w+)\)')
# --- bencode.rs (pre-scan limits introduced by the F14 fix)
const("BENCODE_MAX_DEPTH", "src/bencode.rs", rust_name="MAX_DEPTH")
# --- message.rs error codes
const("SERVER_ERROR", "src/message.rs")
const("PROTOCOL_ERROR", "src/message.rs")

EXTRA = os.path.join(os.path.dirname(os.path.abspath(__file__)), "extract_extra.py")
if os.path.exists(EXTRA):
    exec(open(EXTRA).read())

lines = ["/- GENERATED by tools/extract_consts.py from the current /repo source tree. Do not edit. -/",
         "namespace Btdht.Constants", ""]
for s in spans:
    lines.append(f"/-- {s['file']} (line ~{s['approx_line']}): `{s['text'].replace('/-','/ -').replace('-/','- /')}` -/")
    lines.append(f"def {s['name']} : Nat := {s['value']}")
lines += ["", "end Btdht.Constants", ""]
new = "\n".join(lines)
old = open(OUT).read() if os.path.exists(OUT) else None
if old != new:
    os.makedirs(os.path.dirname(OUT), exist_ok=True)
    with open(OUT, "w") as f:
        f.write(new)
if SPANS:
    with open(SPANS, "w") as f:
        json.dump(spans, f, indent=1)
print(f"extract_consts: {len(spans)} constants -> {OUT}" + (" (unchanged)" if old == new else " (updated)"))
