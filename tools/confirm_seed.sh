#!/bin/bash
# usage: confirm_seed.sh <id> <seed dir> "<cargo test args for the demonstration>"
# Confirms in the scratch worktree /tmp/wt-<id>: (a) demo passes without the change,
# (b) demo fails with it, (c) the existing suite passes with the change alone.
id=$1; dir=$2; demo="$3"; wt=/tmp/wt-$id
cd $wt || exit 2
git checkout -q -- . && git clean -fdq -e target
git apply $dir/demo.diff || { echo "demo.diff does not apply"; exit 2; }
cargo test --offline $demo > /tmp/confirm-$id-a.log 2>&1; a=$?
git apply $dir/patch.diff || { echo "patch.diff does not apply"; exit 2; }
cargo test --offline $demo > /tmp/confirm-$id-b.log 2>&1; b=$?
git checkout -q -- . && git clean -fdq -e target
git apply $dir/patch.diff
cargo test --offline > /tmp/confirm-$id-c.log 2>&1; c=$?
passed=$(grep -E "^test result" /tmp/confirm-$id-c.log | awk '{s+=$4} END {print s}')
git checkout -q -- . && git clean -fdq -e target
echo "seed $id: (a) demo without change rc=$a  (b) demo with change rc=$b  (c) suite with change rc=$c passed=$passed"
[ $a -eq 0 ] && [ $b -ne 0 ] && [ $c -eq 0 ] && echo "CONFIRMED $id" || echo "NOT CONFIRMED $id"
