#!/bin/bash
# confirm_seed.sh <scratch worktree of /repo containing seed_out/{patch.diff,demo.diff}> <demo cargo-test args...>
# (a) demo passes on the unchanged tree, (b) fails with patch.diff, (c) the 64 existing tests pass with patch.diff alone.
set -u
WT="$1"; shift
cd "$WT" || exit 2
export CARGO_NET_OFFLINE=true
SO=$(mktemp -d /tmp/seedout.XXXX); cp -r seed_out/. "$SO"/
git checkout -q -- . ; git clean -qfd -e target -e seed_out
git apply "$SO/demo.diff" || { echo "demo.diff does not apply"; exit 2; }
echo "== (a) demo on unchanged tree"; cargo test --offline "$@" > "$SO/a.log" 2>&1; A=$?; tail -4 "$SO/a.log"
git apply "$SO/patch.diff" || { echo "patch.diff does not apply"; exit 2; }
echo "== (b) demo with change"; cargo test --offline "$@" > "$SO/b.log" 2>&1; B=$?; grep -E "panicked|FAILED|failed|test result" "$SO/b.log" | head -8
git apply -R "$SO/demo.diff"
echo "== (c) existing suite with change"; cargo test --offline > "$SO/c.log" 2>&1; C=$?; grep -E "test result|FAILED" "$SO/c.log"
PASSED=$(grep -E "^test result" "$SO/c.log" | sed -E 's/.* ([0-9]+) passed.*/\1/' | paste -sd+ | bc)
git apply "$SO/demo.diff"
echo "RESULT a_exit=$A b_exit=$B c_exit=$C suite_passed=$PASSED  (want 0, nonzero, 0, 64)  logs in $SO"
