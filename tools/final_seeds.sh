#!/bin/bash
# final_seeds.sh <pattern>: every kept seed matching the pattern is applied to /repo itself, its property's quick
# check is run, and the change is undone straight afterwards; one line per seed on stdout
cd /verif
for d in seeded/$1; do
  P=$(python3 -c "import json;print(json.load(open('$d/meta.json'))['property'])")
  [ -z "$(git -C /repo status --porcelain)" ] || { echo "/repo not clean"; exit 2; }
  git -C /repo apply /verif/$d/patch.diff || { echo "$d: patch does not apply"; continue; }
  bin/check $P --tier quick > work/final-$(basename $d).log 2>&1; rc=$?
  git -C /repo checkout -- . ; git -C /repo clean -qfd
  echo "$(basename $d) $P rc=$rc $(grep -m1 -E '^VIOLATION' work/final-$(basename $d).log | cut -c1-150)"
done
