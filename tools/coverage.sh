#!/bin/bash
# coverage.sh [out.txt]: region coverage of /repo/src under the quick tier of the correspondence engines
# (support tooling: tells which parts of the code the tie exercises; not a check).
# Builds a copy of the harness with `-C instrument-coverage` on the nightly toolchain in /tmp/cov (removed afterwards).
set -e
OUT="${1:-/verif/coverage/quick.txt}"
T=$(ls -d /root/.rustup/toolchains/nightly-x86_64-unknown-linux-gnu/lib/rustlib/x86_64-unknown-linux-gnu/bin)
rm -rf /tmp/cov && mkdir -p /tmp/cov/prof /tmp/cov/out "$(dirname "$OUT")"
rsync -a --exclude target /verif/harness/ /tmp/cov/harness/
cat > /tmp/cov/harness/.cargo/config.toml <<'EOC'
[net]
offline = true
[build]
rustflags = ["--cfg", "btdht_verif", "--cfg", "tokio_unstable", "-C", "instrument-coverage"]
target-dir = "target"
EOC
(cd /tmp/cov/harness && LLVM_PROFILE_FILE=/tmp/cov/prof/build-%p.profraw CARGO_NET_OFFLINE=true cargo +nightly build --release --offline 2>&1 | tail -1)
H=/tmp/cov/harness/target/release/btdht-verif-harness
rm -f /tmp/cov/prof/*
for e in bep42:40 tid:8 token:60 storage:30 table:40 codec:40 handler:60 node:42; do
  n=${e%%:*}; c=${e##*:}
  LLVM_PROFILE_FILE=/tmp/cov/prof/$n-%p.profraw $H $n --seed 1 --cases $c --out /tmp/cov/out/$n --corpus /verif/corpus/$n > /dev/null 2>&1 || echo "$n failed"
done
$T/llvm-profdata merge -sparse /tmp/cov/prof/*.profraw -o /tmp/cov/all.profdata
{
  echo "# region coverage of /repo/src by the quick tier of all engines (seed 1, corpus first), $(date -u +%F)"
  $T/llvm-cov report $H -instr-profile=/tmp/cov/all.profdata --ignore-filename-regex='(registry|rustc|harness/src|rustlib)' 2>/dev/null | sed 's/  */ /g'
  echo; echo "# lines never executed (logging, Debug/Display impls and cfg(btdht_verif) accessors left out)"
  for f in $(cd /repo/src && find . -name '*.rs' | sed 's#^\./##' | sort); do
    $T/llvm-cov show $H -instr-profile=/tmp/cov/all.profdata /repo/src/$f --show-line-counts 2>/dev/null \
      | grep -E "^\s+[0-9]+\|\s+0\|" | grep -v "tracing::\|verif_\|fmt::\|fn fmt\|write!\|debug_struct\|\.field(\|\.finish()" | sed "s#^#$f:#" | cut -c1-160
  done
} > "$OUT"
rm -rf /tmp/cov
rm -f /repo/default_*.profraw
echo "coverage report -> $OUT"
