#!/bin/bash
# process_seed.sh <Cxx> [props...]: confirm a round-3 seed in its worktree /tmp/seed${R:-3}/Cxx, then run the checks on a scratch copy
ID=$1; shift
PROPS="${@:-$ID}"
WT=/tmp/seed${R:-3}/$ID
DEMO=$(grep -m1 '^DEMO:' $WT/seed_out/notes.md | sed 's/^DEMO: *cargo test --offline *//')
echo "### $ID demo args: $DEMO"
/verif/tools/confirm_seed.sh $WT $DEMO 2>&1 | grep -E "RESULT|does not apply"
SLOT=s$ID /verif/tools/try_seed_scratch.sh $WT/seed_out/patch.diff $PROPS 2>&1 | grep -v "vanished" | tail -12
