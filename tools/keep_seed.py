#!/usr/bin/env python3
"""keep_seed.py <seed name> <property> <src dir> <demo cmd> <needs> <caught: yes/no + how>"""
import sys, json, shutil, os
name, prop, src, demo, needs, caught = sys.argv[1:7]
d = f"/verif/seeded/{name}"
os.makedirs(d, exist_ok=True)
for f in ("patch.diff", "demo.diff", "notes.md"):
    if os.path.exists(os.path.join(src, f)):
        shutil.copy(os.path.join(src, f), os.path.join(d, f))
json.dump({"property": prop, "needs_to_manifest": needs,
           "demonstration": f"apply demo.diff, then: cargo test --offline {demo}  (passes without patch.diff, fails with it)",
           "confirmed_by": "tools/confirm_seed.sh in a scratch worktree: (a) demo passes without the change, (b) fails with it, (c) all 64 existing tests pass with the change",
           "check_result": caught}, open(os.path.join(d, "meta.json"), "w"), indent=1)
print("kept", d)
