#!/bin/bash
# try3.sh <Cxx> props...: run checks on scratch copy against round-3 seed (confirmation done separately)
ID=$1; shift
SLOT=s$ID /verif/tools/try_seed_scratch.sh /tmp/seed${R:-3}/$ID/seed_out/patch.diff "$@" 2>&1 | grep -v vanished | tail -14
