#!/usr/bin/env python3
"""Mechanical mutation campaign: how many small syntactic changes of /repo/src that survive the
64 existing tests are caught by the quick checks?  (Support tooling for DESIGN.md section 0.7; the
campaign never touches /repo or /verif: every worker has its own scratch copy of both.)

  mutants.py gen  OUT.json [--per-file N] [--seed S]      enumerate + sample mutants
  mutants.py run  IN.json RESULTS.jsonl --worker K --of N  run slice K of N in /tmp/mut/wK
  mutants.py sum  RESULTS.jsonl                            summary table
"""
import sys, os, re, json, random, subprocess, shutil, time

SRC_FILES = ["storage.rs", "token.rs", "node.rs", "bucket.rs", "table.rs", "action/lookup.rs", "action/refresh.rs",
             "action/bootstrap.rs", "action/mod.rs", "handler.rs", "transaction.rs", "message.rs", "compact.rs",
             "bencode.rs", "info_hash.rs", "timer.rs", "socket.rs", "mainline_dht.rs"]

# which checks look at a file (the property's anchors + what the engines drive)
FILE_PROPS = {
    "storage.rs": ["C07", "C01", "C17"],
    "token.rs": ["C06", "C01", "C05"],
    "node.rs": ["C10", "C11", "C08", "C12"],
    "bucket.rs": ["C08", "C10", "C09", "C11"],
    "table.rs": ["C08", "C09", "C10", "C12", "C11"],
    "action/lookup.rs": ["C02", "C03", "C04", "C17", "C01", "C16"],
    "action/refresh.rs": ["C11", "C18", "C12"],
    "action/bootstrap.rs": ["C15", "C19", "C18", "C11", "C16"],
    "action/mod.rs": ["C04", "C18", "C15"],
    "handler.rs": ["C05", "C12", "C16", "C18", "C17", "C07", "C06", "C03", "C04", "C15", "C09"],
    "transaction.rs": ["C19", "C03", "C12"],
    "message.rs": ["C13", "C14", "C17", "C05"],
    "compact.rs": ["C13", "C14", "C17"],
    "bencode.rs": ["C14", "C13"],
    "info_hash.rs": ["C20", "C09", "C08", "C13"],
    "timer.rs": ["C04", "C18", "C11"],
    "socket.rs": ["C05", "C14", "C15", "C17", "C19"],
    "mainline_dht.rs": ["C15", "C16", "C14", "C01"],
}

REL = [("<=", "<"), (">=", ">"), ("==", "!="), ("!=", "=="), ("<", "<="), (">", ">=")]

def code_lines(path):
    """(lineno, text) of non-test, non-hook, non-logging code lines"""
    out = []
    lines = open(path).read().split("\n")
    skip_indent = None
    in_tests = False
    for i, l in enumerate(lines):
        s = l.strip()
        if re.match(r"#\[cfg\(test\)\]", s):
            in_tests = True
        if in_tests:
            continue
        if skip_indent is not None:
            ind = len(l) - len(l.lstrip())
            if s and ind <= skip_indent and not s.startswith(("}", ")", "]")) and not s.startswith("#["):
                skip_indent = None
            elif s and ind <= skip_indent and s.startswith("}"):
                skip_indent = None
                continue
            else:
                continue
        if "cfg(btdht_verif)" in s or "cfg(not(btdht_verif))" in s:
            skip_indent = len(l) - len(l.lstrip())
            continue
        if not s or s.startswith("//") or s.startswith("#[") or s.startswith("use ") or s.startswith("pub use "):
            continue
        if "vtrace!" in s or "tracing::" in s or "debug_assert" in s or s.startswith("log::"):
            continue
        out.append((i, l))
    return out

def mutations_of_line(l):
    """list of (op, new line)"""
    res = []
    code = l.split("//")[0]
    if '"' in code and ("format!" in code or "write!" in code or "panic!" in code or "expect(" in code):
        return res
    # relational operators (not generics / arrows / shifts)
    for m in re.finditer(r"(?<![<>=!\-&|])(<=|>=|==|!=|<|>)(?![<>=])", code):
        a, b = m.span()
        tok = m.group(1)
        before, after = code[:a], code[b:]
        if tok in ("<", ">"):
            # skip generics and arrows: need spaces around a comparison
            if not (before.endswith(" ") and after.startswith(" ")):
                continue
            if before.rstrip().endswith(("-", "=")):
                continue
        for (x, y) in REL:
            if x == tok:
                res.append((f"rel {x}->{y}", before + y + after + l[len(code):]))
    for m in re.finditer(r" (&&|\|\|) ", code):
        a, b = m.span()
        y = "||" if m.group(1) == "&&" else "&&"
        res.append((f"bool {m.group(1)}->{y}", code[:a] + f" {y} " + code[b:] + l[len(code):]))
    for m in re.finditer(r"(?<![\w.])(\d+)(?![\w.]|\s*\.\.)", code):
        a, b = m.span()
        n = int(m.group(1))
        if "const " in code or "take(" in code or "from_millis" in code or "from_secs" in code or "Duration" in code \
           or re.search(r"[<>=!+\-*/%] *$", code[:a]) or re.search(r"^ *[<>=!+\-*/%]", code[b:]):
            res.append((f"lit {n}->{n+1}", code[:a] + str(n + 1) + code[b:] + l[len(code):]))
            if n > 0:
                res.append((f"lit {n}->{n-1}", code[:a] + str(n - 1) + code[b:] + l[len(code):]))
    for m in re.finditer(r" (\+|-) (?=[\w(])", code):
        a, b = m.span()
        y = "-" if m.group(1) == "+" else "+"
        if "'" in code[:a][-3:]:
            continue
        res.append((f"arith {m.group(1)}->{y}", code[:a] + f" {y} " + code[b:] + l[len(code):]))
    for m in re.finditer(r"\b(true|false)\b", code):
        a, b = m.span()
        y = "false" if m.group(1) == "true" else "true"
        res.append((f"const {m.group(1)}->{y}", code[:a] + y + code[b:] + l[len(code):]))
    m = re.match(r"^(\s*)if !(.*)$", code)
    if m and "let " not in code:
        res.append(("neg if !x->x", m.group(1) + "if " + m.group(2) + l[len(code):]))
    s = code.strip()
    # statement deletion: a lone call statement
    if re.match(r"^[a-z_][\w.]*(\(\))?(\.[a-z_]\w*\(.*\))+;$", s) and "unwrap" not in s and "lock()" not in s.split(".")[-1]:
        res.append(("del stmt", re.sub(r"\S.*$", "();", code, count=1) + l[len(code):]))
    if s in ("continue;", "break;"):
        y = "break;" if s == "continue;" else "continue;"
        res.append((f"ctl {s}->{y}", code.replace(s, y)))
    if re.match(r"^return (true|false);$", s):
        pass  # covered by const
    m = re.search(r"\.(min|max)\(", code)
    if m:
        y = "max" if m.group(1) == "min" else "min"
        res.append((f"fn {m.group(1)}->{y}", code[:m.start(1)] + y + code[m.end(1):] + l[len(code):]))
    return res

def gen(out, per_file, seed, repo="/repo"):
    rnd = random.Random(seed)
    allm = []
    for f in SRC_FILES:
        path = os.path.join(repo, "src", f)
        ms = []
        for (i, l) in code_lines(path):
            for (op, nl) in mutations_of_line(l):
                if nl != l:
                    ms.append(dict(file=f, line=i + 1, op=op, orig=l, new=nl))
        rnd.shuffle(ms)
        # spread over lines: at most one mutant per line first
        seen, pick, rest = set(), [], []
        for m in ms:
            (pick if m["line"] not in seen else rest).append(m)
            seen.add(m["line"])
        chosen = (pick + rest)[:per_file]
        print(f"{f}: {len(ms)} candidates, {len(chosen)} chosen", file=sys.stderr)
        allm += chosen
    for k, m in enumerate(allm):
        m["id"] = k
    json.dump(allm, open(out, "w"), indent=0)
    print(f"{len(allm)} mutants -> {out}", file=sys.stderr)

def sh(cmd, cwd=None, timeout=900, env=None):
    e = dict(os.environ); e["CARGO_NET_OFFLINE"] = "true"
    if env: e.update(env)
    try:
        r = subprocess.run(cmd, cwd=cwd, env=e, stdout=subprocess.PIPE, stderr=subprocess.STDOUT, text=True, timeout=timeout, shell=isinstance(cmd, str))
        return r.returncode, r.stdout
    except subprocess.TimeoutExpired as ex:
        return 124, (ex.stdout or "") if isinstance(ex.stdout, str) else ""

def setup_worker(w):
    base = f"/tmp/mut/w{w}"
    os.makedirs(base, exist_ok=True)
    sh(f"rsync -a --delete --exclude .git /repo/ {base}/repo/")
    sh(f"rsync -a --delete --exclude .git --exclude work --exclude replays --exclude mutants /verif/ {base}/verif/")
    ct = f"{base}/verif/harness/Cargo.toml"
    s = open(ct).read().replace('path = "/repo"', f'path = "{base}/repo"')
    open(ct, "w").write(s)
    return base

def run_slice(inp, results, w, of, props_override=None):
    ms = [m for m in json.load(open(inp)) if m["id"] % of == w]
    done = set()
    if os.path.exists(results):
        for l in open(results):
            try: done.add(json.loads(l)["id"])
            except Exception: pass
    base = setup_worker(w)
    repo, verif = f"{base}/repo", f"{base}/verif"
    env = {"BTDHT_REPO": repo}
    for m in ms:
        if m["id"] in done:
            continue
        path = os.path.join(repo, "src", m["file"])
        orig_text = open(path).read()
        lines = orig_text.split("\n")
        if lines[m["line"] - 1] != m["orig"]:
            continue
        lines[m["line"] - 1] = m["new"]
        open(path, "w").write("\n".join(lines))
        rec = dict(m); t0 = time.time()
        try:
            rc, out = sh(["cargo", "test", "--offline"], cwd=repo, timeout=600)
            if rc != 0:
                rec["verdict"] = "stillborn" if ("error[" in out or "error:" in out and "test result" not in out) else "killed-by-tests"
            else:
                caught = []
                outputs = {}
                for p in (props_override or FILE_PROPS[m["file"]]):
                    rc2, out2 = sh([f"{verif}/bin/check", p, "--tier", "quick"], cwd=verif, timeout=1200, env=env)
                    v = [l for l in out2.splitlines() if l.startswith("VIOLATION")]
                    outputs[p] = (rc2, (v[0] if v else "")[:200])
                    if rc2 != 0:
                        caught.append(p)
                        break
                rec["checks"] = outputs
                rec["verdict"] = "caught" if caught else "missed"
                rec["caught_by"] = caught
        finally:
            open(path, "w").write(orig_text)
        rec["wall_s"] = round(time.time() - t0, 1)
        with open(results, "a") as f:
            f.write(json.dumps(rec) + "\n")
        print(f"w{w} #{m['id']} {m['file']}:{m['line']} {m['op']} -> {rec['verdict']} {rec.get('caught_by','')} {rec['wall_s']}s", flush=True)

def summary(results):
    rs = [json.loads(l) for l in open(results)]
    by = {}
    for r in rs:
        by.setdefault(r["file"], {}).setdefault(r["verdict"], []).append(r)
    tot = {}
    print(f"{'file':22} stillborn tests caught missed")
    for f, d in sorted(by.items()):
        c = {k: len(v) for k, v in d.items()}
        for k, v in c.items(): tot[k] = tot.get(k, 0) + v
        print(f"{f:22} {c.get('stillborn',0):9} {c.get('killed-by-tests',0):5} {c.get('caught',0):6} {c.get('missed',0):6}")
    print("total", tot)
    for r in rs:
        if r["verdict"] == "missed":
            print(f"MISSED #{r['id']} {r['file']}:{r['line']} [{r['op']}]  {r['orig'].strip()[:110]}")

if __name__ == "__main__":
    a = sys.argv[1:]
    if a[0] == "gen":
        per = int(a[a.index("--per-file") + 1]) if "--per-file" in a else 12
        seed = int(a[a.index("--seed") + 1]) if "--seed" in a else 1
        gen(a[1], per, seed)
    elif a[0] == "run":
        run_slice(a[1], a[2], int(a[a.index("--worker") + 1]), int(a[a.index("--of") + 1]))
    elif a[0] == "sum":
        summary(a[1])
