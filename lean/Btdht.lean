import Btdht.Model.Common
import Btdht.Model.Crc32c
import Btdht.Model.Bep42
