import Btdht.Proofs.GuardTie.Tid
import Btdht.Proofs.Tid
import Btdht.Proofs.Attribution
import Btdht.Model.Dht
/-!
# C19 — Transaction ids: 8 bytes, never reused while live or shared between activities

"Every query the node sends carries an 8-byte transaction id; within one activity (a search, the
refresh, bootstrap) ids do not repeat until 2^24 have been issued, and different concurrently live
activities never share the 5-byte activity prefix, so a response can always be attributed to
exactly one outstanding query."

Model: `Btdht.BlockGen` (src/transaction.rs `MIDGenerator` / `AIDGenerator`), the shuffle of every
block being an arbitrary permutation oracle. All theorems hold for *every* family of shuffles.
The numbers 2048, 2^24, 2^40 in the statements are the property's; the definitions use the
constants extracted from the source, so a changed constant breaks these proofs.

Component-level part of C19 (generators and id layout), plus the attribution clause at the level of
the handler model (`C19_attribution`, `C19_attribution_unique`): in every state of every run the
stored searches have pairwise distinct action ids, none of them the refresh's (0) or the
bootstrap's (1), and the outstanding queries of a search have pairwise distinct transaction ids —
so a response is routed to at most one search and matches at most one of its outstanding queries.
(The exchanges of the bootstrap worker are keyed by (address, id) and pairwise distinct:
`C15_exchanges_distinct`, `C15_first_round_distinct`.) That every query on the wire carries an id
drawn this way is decided by the `[C19]` oracle of the node engine on every datagram real nodes send.
-/
namespace Btdht

theorem midBlockLen_eq : midBlockLen = 2048 := by decide
theorem aidBlockLen_eq : aidBlockLen = 2048 := by decide
theorem maxMessageId_eq : maxMessageId = 16777216 := by decide
theorem maxActionId_eq : maxActionId = 1099511627776 := by decide

/-- `MIDGenerator::new` is the lazily initialised generator of the helper lemmas. -/
theorem midNew_eq : midNew = freshGen midBlockLen := rfl

theorem beBytes_length (k n : Nat) : (beBytes k n).length = k := by
  induction k generalizing n with
  | zero => rfl
  | succ k ih => simp [beBytes, ih]

theorem beVal_append_one (bs : Bytes) (b : Nat) : beVal (bs ++ [b]) = beVal bs * 256 + b := by
  simp [beVal, List.foldl_append]

theorem beVal_beBytes (k n : Nat) : beVal (beBytes k n) = n % 256 ^ k := by
  induction k generalizing n with
  | zero => simp [beBytes, beVal, Nat.mod_one]
  | succ k ih =>
    rw [beBytes, beVal_append_one, ih, Nat.pow_succ, Nat.mul_comm (256 ^ k) 256, Nat.mod_mul]
    omega

/-- **C19 (length and layout)**: an id is exactly 8 bytes and splits uniquely into the 5-byte
action prefix and the 3-byte message id. -/
theorem C19_len (aid mid : Nat) (ha : aid < 1099511627776) (hm : mid < 16777216) :
    (tidBytes aid mid).length = 8 ∧ tidAction (tidBytes aid mid) = aid ∧ tidMessage (tidBytes aid mid) = mid := by
  have hv : beVal (tidBytes aid mid) = aid * 16777216 + mid := by
    unfold tidBytes
    rw [beVal_beBytes, maxMessageId_eq]
    apply Nat.mod_eq_of_lt
    have : (256 : Nat) ^ 8 = 18446744073709551616 := by decide
    omega
  refine ⟨beBytes_length 8 _, ?_, ?_⟩
  · unfold tidAction; rw [hv, maxMessageId_eq]; omega
  · unfold tidMessage; rw [hv, maxMessageId_eq]; omega

/-- Two ids are equal iff action and message id are (so distinct message ids of one activity, or
distinct action ids of two activities, give distinct wire ids). -/
theorem C19_tid_inj (a a' m m' : Nat) (ha : a < 1099511627776) (ha' : a' < 1099511627776)
    (hm : m < 16777216) (hm' : m' < 16777216) (e : tidBytes a m = tidBytes a' m') : a = a' ∧ m = m' := by
  have h1 := C19_len a m ha hm
  have h2 := C19_len a' m' ha' hm'
  rw [e] at h1
  exact ⟨h1.2.1.symm.trans h2.2.1, h1.2.2.symm.trans h2.2.2⟩

/-- **C19 (message ids)**: for all shuffles, the first 2^24 ids of a message-id generator are
pairwise distinct. -/
theorem C19_mid_fresh (oracle : Nat → List Nat) (ho : ∀ i, validPerm 2048 (oracle i) = true)
    (i j : Nat) (hi : i < 16777216) (hj : j < 16777216) (hij : i ≠ j) :
    nthId midBlockLen maxMessageId oracle midNew 0 i ≠ nthId midBlockLen maxMessageId oracle midNew 0 j := by
  intro e
  rw [midNew_eq] at e
  have ho' : ∀ i, validPerm midBlockLen (oracle i) = true := by rw [midBlockLen_eq]; exact ho
  have hs := goodStart_fresh (max := maxMessageId) oracle (by rw [midBlockLen_eq]; decide) ho'
  exact hij (nthId_inj oracle (by rw [midBlockLen_eq]; decide) ho' hs i j
    (by rw [maxMessageId_eq]; exact hi) (by rw [maxMessageId_eq]; exact hj) e)

/-- ... they all fit three bytes ... -/
theorem C19_mid_range (oracle : Nat → List Nat) (ho : ∀ i, validPerm 2048 (oracle i) = true)
    (i : Nat) (hi : i < 16777216) :
    nthId midBlockLen maxMessageId oracle midNew 0 i < 16777216 := by
  rw [midNew_eq]
  have ho' : ∀ i, validPerm midBlockLen (oracle i) = true := by rw [midBlockLen_eq]; exact ho
  have hs := goodStart_fresh (max := maxMessageId) oracle (by rw [midBlockLen_eq]; decide) ho'
  have := nthId_lt oracle (by rw [midBlockLen_eq]; decide) ho' hs 8192
    (by rw [midBlockLen_eq, maxMessageId_eq]) i (by rw [maxMessageId_eq]; exact hi)
  rw [maxMessageId_eq] at this
  exact this

/-- ... and after exactly 2^24 ids the sequence restarts in block 0 (manual wrap of the marker). -/
theorem C19_mid_wrap (oracle : Nat → List Nat) (ho : ∀ i, validPerm 2048 (oracle i) = true) :
    nthId midBlockLen maxMessageId oracle midNew 0 16777216 = (oracle 8192).getD 0 0 := by
  rw [midNew_eq]
  have ho' : ∀ i, validPerm midBlockLen (oracle i) = true := by rw [midBlockLen_eq]; exact ho
  have hs := goodStart_fresh (max := maxMessageId) oracle (by rw [midBlockLen_eq]; decide) ho'
  have := nthId_wrap oracle (by rw [midBlockLen_eq]; decide) ho' hs 8192 (by decide)
    (by rw [midBlockLen_eq, maxMessageId_eq])
  rw [maxMessageId_eq] at this
  exact this

/-- **C19 (action ids)**: the first 2^40 action ids of the handler's generator are pairwise
distinct, hence refresh, bootstrap and all searches alive together (all drawn from this one
generator) never share the 5-byte prefix. -/
theorem C19_aid_fresh (oracle : Nat → List Nat) (ho : ∀ i, validPerm 2048 (oracle i) = true)
    (i j : Nat) (hi : i < 1099511627776) (hj : j < 1099511627776) (hij : i ≠ j) :
    nthId aidBlockLen maxActionId oracle (aidNew (oracle 0)) 1 i ≠
    nthId aidBlockLen maxActionId oracle (aidNew (oracle 0)) 1 j := by
  intro e
  have ho' : ∀ i, validPerm aidBlockLen (oracle i) = true := by rw [aidBlockLen_eq]; exact ho
  have hs := goodStart_eager (max := maxActionId) oracle (by rw [aidBlockLen_eq]; decide) ho'
  exact hij (nthId_inj oracle (by rw [aidBlockLen_eq]; decide) ho' hs i j
    (by rw [maxActionId_eq]; exact hi) (by rw [maxActionId_eq]; exact hj) e)

theorem C19_aid_range (oracle : Nat → List Nat) (ho : ∀ i, validPerm 2048 (oracle i) = true)
    (i : Nat) (hi : i < 1099511627776) :
    nthId aidBlockLen maxActionId oracle (aidNew (oracle 0)) 1 i < 1099511627776 := by
  have ho' : ∀ i, validPerm aidBlockLen (oracle i) = true := by rw [aidBlockLen_eq]; exact ho
  have hs := goodStart_eager (max := maxActionId) oracle (by rw [aidBlockLen_eq]; decide) ho'
  have := nthId_lt oracle (by rw [aidBlockLen_eq]; decide) ho' hs 536870912
    (by rw [aidBlockLen_eq, maxActionId_eq]) i (by rw [maxActionId_eq]; exact hi)
  rw [maxActionId_eq] at this
  exact this

/-- **C19 (attribution)**: in every state the handler reaches — any interleaving of datagrams,
search starts and timer firings — the stored searches have pairwise distinct action ids, all of them
at least 2 (the refresh uses 0, the bootstrap worker 1), and the outstanding queries of each search
have pairwise distinct transaction ids. -/
theorem C19_attribution (selfId : Bytes) (v6 ro : Bool) (port : Option Nat) (fa : List Addr) (t0 : Nat)
    (ops : List (HOp × Nat)) :
    AttrInv ((HState.new selfId v6 ro port fa t0).runOps ops) :=
  runOps_attr ops _ (attr_new selfId v6 ro port fa t0)

theorem nodup_map_inj {α β} (f : α → β) : ∀ (l : List α), (l.map f).Nodup → ∀ a ∈ l, ∀ b ∈ l, f a = f b → a = b
  | [], _, a, ha, _, _, _ => by simp at ha
  | x :: xs, hn, a, ha, b, hb, hab => by
    simp only [List.map_cons, List.nodup_cons, List.mem_map, not_exists, not_and] at hn
    rcases List.mem_cons.mp ha with rfl | ha'
    · rcases List.mem_cons.mp hb with rfl | hb'
      · rfl
      · exact absurd hab.symm (hn.1 b hb')
    · rcases List.mem_cons.mp hb with rfl | hb'
      · exact absurd hab (hn.1 a ha')
      · exact nodup_map_inj f xs hn.2 a ha' b hb' hab

/-- ... hence **a response can be attributed to at most one outstanding query**: two stored
searches with the same action id are the same search, and two outstanding queries of a search with
the same transaction id are the same query; the refresh's and the bootstrap's prefixes belong to no
search. -/
theorem C19_attribution_unique (selfId : Bytes) (v6 ro : Bool) (port : Option Nat) (fa : List Addr) (t0 : Nat)
    (ops : List (HOp × Nat)) :
    let s := (HState.new selfId v6 ro port fa t0).runOps ops
    (∀ l1 ∈ s.lookups, ∀ l2 ∈ s.lookups, l1.aid = l2.aid → l1 = l2) ∧
    (∀ l ∈ s.lookups, ∀ e1 ∈ l.active, ∀ e2 ∈ l.active, e1.1 = e2.1 → e1 = e2) ∧
    (∀ l ∈ s.lookups, l.aid ≠ refreshAid ∧ l.aid ≠ bootstrapAid) := by
  intro s
  have h := C19_attribution selfId v6 ro port fa t0 ops
  refine ⟨nodup_map_inj _ _ h.aidsNodup, fun l hl => nodup_map_inj _ _ (h.tids l hl), fun l hl => ?_⟩
  have := (h.aidRange l hl).1
  simp only [refreshAid, bootstrapAid]
  omega

/-- Non-vacuity: the identity shuffle is an admissible oracle, and with it the generator counts up. -/
example : validPerm 4 [2, 0, 3, 1] = true := by decide
example : validPerm 4 [2, 0, 3, 2] = false := by decide
example : (List.range 6).map (nthId 4 8 (fun _ => [2, 0, 3, 1]) (freshGen 4) 0) = [2, 0, 3, 1, 6, 4] := by decide

end Btdht
