import Btdht.Model.Bep42
/-!
# C20 — Node ids derived from an IP address satisfy the BEP42 check for that address

"For every IPv4 and IPv6 address, the id produced by InfoHash::from_ip passes the BEP42 validation
for that address: its first 21 bits equal those of CRC32-C over the masked address octets combined
with the 3 random bits stored in the id's last byte."

`fromIp` is the model of `InfoHash::from_ip` (tied to the code by the `bep42` correspondence
engine, which also ties `crc32c` to the `crc32c` crate); `bep42Valid` is the BEP's check.
The theorem quantifies over every address (any octet list) and every value of the three draws.
-/
namespace Btdht

theorem land_lor_disjoint (a b m n : Nat) (h : m &&& n = 0) :
    ((a &&& m) ||| (b &&& n)) &&& m = a &&& m := by
  apply Nat.eq_of_testBit_eq
  intro i
  have hi : (m &&& n).testBit i = false := by rw [h]; simp
  simp only [Nat.testBit_and, Nat.testBit_or] at hi ⊢
  cases ha : a.testBit i <;> cases hm : m.testBit i <;> cases hb : b.testBit i <;>
    cases hn : n.testBit i <;> simp_all

theorem land_land_self (a m : Nat) : (a &&& m) &&& m = a &&& m := by
  apply Nat.eq_of_testBit_eq
  intro i
  simp only [Nat.testBit_and]
  cases a.testBit i <;> cases m.testBit i <;> rfl

theorem getD_fromIp_19 (o : Bytes) (r r2 : Nat) (rest : Bytes) (h : rest.length = 16) :
    (fromIp o r r2 rest).getD 19 0 = r := by
  match rest, h with
  | [a1,a2,a3,a4,a5,a6,a7,a8,a9,a10,a11,a12,a13,a14,a15,a16], _ => simp [fromIp]

theorem mixR_r (l : Bytes) (r : Nat) : mixR l (r &&& 0x7) = mixR l r := by
  cases l with
  | nil => rfl
  | cons b bs => simp only [mixR]; rw [land_land_self]

theorem crcInput_r (o : Bytes) (r : Nat) : crcInput o (r &&& 0x7) = crcInput o r := by
  simp only [crcInput, mixR_r]

/-- **C20**: for every address (octets of any family), every draw `r`, `r2` and every 16 random
middle bytes, the generated id passes the BEP42 check for that address. -/
theorem C20_valid (o : Bytes) (r r2 : Nat) (rest : Bytes) (hrest : rest.length = 16) :
    bep42Valid o (fromIp o r r2 rest) = true := by
  have h19 := getD_fromIp_19 o r r2 rest hrest
  unfold bep42Valid
  simp only [h19, crcInput_r]
  have hlen : (fromIp o r r2 rest).length = 20 := by simp [fromIp, hrest]
  have h0 : (fromIp o r r2 rest).getD 0 0 = (crc32c (crcInput o r) >>> 24) % 256 := by simp [fromIp]
  have h1 : (fromIp o r r2 rest).getD 1 0 = (crc32c (crcInput o r) >>> 16) % 256 := by simp [fromIp]
  have h2 : (fromIp o r r2 rest).getD 2 0 =
      (((crc32c (crcInput o r) >>> 8) % 256) &&& 0xf8) ||| (r2 &&& 0x7) := by simp [fromIp]
  rw [h0, h1, h2, hlen, land_lor_disjoint _ _ 0xf8 0x7 (by decide)]
  simp

/-- The id keeps the draw `r` in its last byte and is 20 bytes long (shape facts used by callers). -/
theorem C20_shape (o : Bytes) (r r2 : Nat) (rest : Bytes) (hrest : rest.length = 16) :
    (fromIp o r r2 rest).length = 20 ∧ (fromIp o r r2 rest).getD 19 0 = r :=
  ⟨by simp [fromIp, hrest], getD_fromIp_19 o r r2 rest hrest⟩

/-- The check is not vacuous: it rejects an id whose CRC prefix belongs to another address. -/
example : bep42Valid [124, 31, 75, 21] (fromIp [21, 75, 31, 124] 1 0 (List.replicate 16 0)) = false := by
  decide

/-- The published BEP42 test vectors (tests of the CRC model, not the unbounded claim). -/
theorem C20_vectors :
    (fromIp [124, 31, 75, 21] 1 0 (List.replicate 16 0)).take 3 = [0x5f, 0xbf, 0xb8] ∧
    (fromIp [21, 75, 31, 124] 86 0 (List.replicate 16 0)).take 3 = [0x5a, 0x3c, 0xe8] ∧
    (fromIp [65, 23, 51, 170] 22 0 (List.replicate 16 0)).take 3 = [0xa5, 0xd4, 0x30] ∧
    (fromIp [84, 124, 73, 14] 65 0 (List.replicate 16 0)).take 3 = [0x1b, 0x03, 0x20] ∧
    (fromIp [43, 213, 53, 83] 90 0 (List.replicate 16 0)).take 3 = [0xe5, 0x6f, 0x68] := by
  decide

end Btdht
