import Btdht.Proofs.Handler
import Btdht.Proofs.Deadline
/-!
# C04 — Every search ends, neither early nor never

"Every search stream terminates: if nobody answers it closes about 3 s after the first query (one
1.5 s query timeout plus one 1.5 s end-game), and in general no later than 1.5 s per distinct node
it was told about plus 3 s. Provided its datagrams can be sent, a search never closes while one of
its queries is younger than 1.5 s unanswered and no end-game has elapsed ...; a search on a node
that ... knows no good node closes immediately."

Model: `Btdht.Lookup`, `Btdht.Timer`, the lookup dispatch of `Btdht.HState`.
Proved for all event sequences: a search that could query nobody closes in the very step that
starts it (`C04_immediate`); a stored search is never finished by an answer or by a query timeout
— those steps leave it waiting for answers or for its end-game timer — so only the end-game timer,
scheduled 1.5 s after the moment nothing was outstanding any more, ends it
(`C04_not_ended_by_response`, `C04_not_ended_by_timeout`, `C04_endgame_delay`,
`C04_query_timeout_delay`); the timer hands out entries in deadline order and `cancel` removes
exactly the cancelled entry (`C04_timer_order`, `C04_timer_cancel`).
NOT proved in Lean: the quantitative upper bound "1.5 s per distinct node + 3 s" (it needs the
timer contract of tokio and a counting argument over the whole run); it is decided by the tie (the
`[C04]` oracles of the `handler` engine on silent, lossy, chain and hostile networks). C04 is
**partial** in this sense.
-/
namespace Btdht

theorem lookupTimeout_eq : Constants.LOOKUP_TIMEOUT_ns = 1500000000 := by decide
theorem endgameTimeout_eq : Constants.ENDGAME_TIMEOUT_ns = 1500000000 := by decide

/-- **C04 (immediate)**: on a node that knows no good node, starting a search closes its stream in
the same step and leaves no search behind. -/
theorem C04_immediate (s : HState) (target : Bytes) (announce : Bool) (now : Nat)
    (hnone : (s.table.closestNodes target now).filter (fun n => n.status now = .good) = []) :
    (s.startLookup target announce now).2.1 = [.close s.nextStream] ∧
    (s.startLookup target announce now).1.lookups = s.lookups := by
  have hnew : ∀ (env : LEnv), env.table = s.table → env.now = now →
      Lookup.new s.nextAid s.nextStream s.selfId s.v6 target announce env =
        ({ aid := s.nextAid, nextSeq := 0, selfId := s.selfId, v6 := s.v6, target := target, inEndgame := false,
           willAnnounce := announce, active := [], tokens := [], requested := [], sorted := [],
           stream := s.nextStream }, env, []) := by
    intro env ht hn
    unfold Lookup.new
    rw [ht, hn, hnone]
    simp [Lookup.requestRound]
  unfold HState.startLookup HState.afterNew
  simp only [hnew (s.env now) rfl rfl]
  simp [Lookup.completedNow, Lookup.recvFinished, Lookup.announceTargets, liftEffects, HState.withEnv, HState.env]

/-- **C04 (an answer never ends a search)**: after handling a response with an outstanding id the
lookup is waiting for further answers or for its end-game timer. -/
theorem C04_not_ended_by_response (l : Lookup) (env : LEnv) (fr : Handle) (tid : Tid) (rsp : Resp)
    (entry : Tid × Bytes × (Nat × Nat)) (h : l.active.find? (·.1 = tid) = some entry) :
    (l.recvResponse env fr tid rsp).1.completedNow = false ∧
    ∀ st, Effect.close st ∉ (l.recvResponse env fr tid rsp).2.2 := by
  obtain ⟨sends, hs, heq, _, hc, _⟩ := recvResponse_accepted env.table l env fr tid rsp entry h (.refl _)
  refine ⟨hc, fun st hm => ?_⟩
  rw [heq] at hm
  rcases List.mem_append.mp hm with h1 | h1
  · have := hs _ h1; simp [Effect.isSend] at this
  · simp at h1

/-- **C04 (a query timeout never ends a search)**: when the last outstanding query times out the
end-game starts instead. -/
theorem C04_not_ended_by_timeout (l : Lookup) (env : LEnv) (tid : Tid)
    (h : l.active.find? (·.1 = tid) ≠ none) :
    (l.recvTimeout env tid).1.completedNow = false ∧ ∀ st, Effect.close st ∉ (l.recvTimeout env tid).2.2 := by
  obtain ⟨hs, _, _, _, _, _, hc⟩ := recvTimeout_spec env.table l env tid (.refl _)
  refine ⟨hc h, fun st hm => ?_⟩
  have := hs _ hm; simp [Effect.isSend] at this

theorem scheduleAt_mem {τ} (t : Timer τ) (d : Nat) (task : τ) :
    ∃ e ∈ (t.scheduleAt d task).1.entries, e.deadline = d ∧ e.id = t.nextId ∧ (t.scheduleAt d task).2 = (d, t.nextId) := by
  exact ⟨⟨d, t.nextId, task⟩, by simp [Timer.scheduleAt], rfl, rfl, rfl⟩

/-- **C04 (the end-game lasts a full 1.5 s)**: the end-game timer is scheduled for exactly
1.5 s after the moment the end-game started. -/
theorem C04_endgame_delay (l : Lookup) (env : LEnv) :
    (l.endgameRound env).1.inEndgame = true ∧
    ∃ e ∈ (l.endgameRound env).2.1.timer.entries,
      e.deadline = env.now + 1500000000 ∧ e.task = .lookupEndGame ⟨l.aid, l.nextSeq⟩ := by
  refine ⟨(endgameRound_keeps env.table l env (.refl _)).2, ?_⟩
  unfold Lookup.endgameRound
  simp only
  -- the fold only changes the table of the environment, never its timer
  have key := foldl_pred
    (fun (acc : EndAcc) => acc.env.timer = (env.timer.scheduleAt (env.now + Constants.ENDGAME_TIMEOUT_ns)
        (.lookupEndGame ⟨l.aid, l.nextSeq⟩)).1)
    (endgameStep (env.timer.scheduleAt (env.now + Constants.ENDGAME_TIMEOUT_ns) (.lookupEndGame ⟨l.aid, l.nextSeq⟩)).2)
    (fun b a hb => by
      unfold endgameStep
      split
      · exact hb
      · simp only; split <;> exact hb)
    l.sorted
    { l := { l with inEndgame := true, nextSeq := l.nextSeq + 1 },
      env := { env with timer := (env.timer.scheduleAt (env.now + Constants.ENDGAME_TIMEOUT_ns)
        (.lookupEndGame ⟨l.aid, l.nextSeq⟩)).1 }, effs := [], out := [] } rfl
  rw [key]
  refine ⟨⟨env.now + Constants.ENDGAME_TIMEOUT_ns, env.timer.nextId, .lookupEndGame ⟨l.aid, l.nextSeq⟩⟩,
    by simp [Timer.scheduleAt], by rw [endgameTimeout_eq], rfl⟩

/-- **C04 (every regular query gets its own 1.5 s)**: each query of a request round is entered as
outstanding together with a timeout entry scheduled 1.5 s after it was sent. -/
theorem C04_query_timeout_delay (acc : RoundAcc) (hd : Handle × Bytes) :
    ∃ e ∈ (requestStep acc hd).env.timer.entries,
      e.deadline = acc.env.now + 1500000000 ∧ e.task = .lookupTimeout ⟨acc.l.aid, acc.l.nextSeq⟩ ∧
      (⟨acc.l.aid, acc.l.nextSeq⟩, hd.2, (e.deadline, e.id)) ∈ (requestStep acc hd).l.active := by
  refine ⟨⟨acc.env.now + Constants.LOOKUP_TIMEOUT_ns, acc.env.timer.nextId, .lookupTimeout ⟨acc.l.aid, acc.l.nextSeq⟩⟩, ?_,
    by rw [lookupTimeout_eq], rfl, ?_⟩
  · unfold requestStep; simp only; split <;> simp [Timer.scheduleAt]
  · unfold requestStep; simp only; split <;> simp [Timer.scheduleAt]

/-- **C04 (timer order)**: the entry the timer hands out is one of its entries and no other entry
has an earlier deadline (ties broken by scheduling order). -/
theorem C04_timer_order {τ} (t t' : Timer τ) (m : TimerEntry τ) (h : t.pop = some (t', m)) :
    m ∈ t.entries ∧ ∀ e ∈ t.entries, keyLe (m.deadline, m.id) (e.deadline, e.id) = true := by
  unfold Timer.pop at h
  cases he : t.earliest with
  | none => simp [he] at h
  | some m' =>
    simp only [he, Option.some.injEq, Prod.mk.injEq] at h
    obtain ⟨_, rfl⟩ := h
    unfold Timer.earliest at he
    obtain ⟨_, h2, h3⟩ := earliest_min t.entries none m' he
    exact ⟨by rcases h3 with h3 | h3; exact h3; exact absurd h3 (by simp), h2⟩

/-- **C04 (cancel)** removes exactly the entries with the cancelled key and nothing else. -/
theorem C04_timer_cancel {τ} (t : Timer τ) (key : Nat × Nat) (e : TimerEntry τ) :
    e ∈ (t.cancel key).1.entries ↔ (e ∈ t.entries ∧ ¬ (e.deadline = key.1 ∧ e.id = key.2)) := by
  simp only [Timer.cancel, List.mem_filter, Bool.not_eq_true', Bool.and_eq_false_iff, decide_eq_false_iff_not,
    Bool.and_eq_true, decide_eq_true_eq, Bool.not_eq_eq_eq_not, Bool.not_true]
  constructor
  · rintro ⟨h1, h2⟩
    refine ⟨h1, fun ⟨a, b⟩ => ?_⟩
    rcases h2 with h2 | h2
    · exact h2 a
    · exact h2 b
  · rintro ⟨h1, h2⟩
    refine ⟨h1, ?_⟩
    by_cases a : e.deadline = key.1
    · exact Or.inr (fun b => h2 ⟨a, b⟩)
    · exact Or.inl a

end Btdht
