import Btdht.Proofs.Handler
import Btdht.Proofs.Deadline
/-!
# C04 — Every search ends, neither early nor never

"Every search stream terminates: if nobody answers it closes about 3 s after the first query (one
1.5 s query timeout plus one 1.5 s end-game), and in general no later than 1.5 s per distinct node
it was told about plus 3 s. Provided its datagrams can be sent, a search never closes while one of
its queries is younger than 1.5 s unanswered and no end-game has elapsed ...; a search on a node
that ... knows no good node closes immediately."

Model: `Btdht.Lookup`, `Btdht.Timer`, the lookup dispatch of `Btdht.HState`.
Proved for all event sequences: a search that could query nobody closes in the very step that
starts it (`C04_immediate`); a stored search is never finished by an answer or by a query timeout
— those steps leave it waiting for answers or for its end-game timer — so only the end-game timer,
scheduled 1.5 s after the moment nothing was outstanding any more, ends it
(`C04_not_ended_by_response`, `C04_not_ended_by_timeout`, `C04_endgame_delay`,
`C04_query_timeout_delay`); the timer hands out entries in deadline order and `cancel` removes
exactly the cancelled entry (`C04_timer_order`, `C04_timer_cancel`).
The quantitative upper bound is proved under the timer contract stated as a hypothesis of the run
(`PunctualRun J`: whenever the handler runs, no pending timer entry is overdue by more than `J` —
tokio's timers fire within 1 ms of their deadline; with `J = 0` the bound is the property's):
`C04_deadline_invariant` — in every punctual run every stored search has, outside the end-game,
something outstanding and a pending timeout entry for every outstanding query, due by
`T0 + (1.5 s + J)·(1 + k)`, and in the end-game a pending end-game entry due 1.5 s (+ J) later,
where `k` is the number of nodes queried after the first round (each such node was named in an
answer: `C04_later_rounds_query_named_nodes`; each round after the first is started by an answer
that beat its own timeout and queries a node never queried before); `C04_upper` — hence a search
that is still open at `now` satisfies `now ≤ T0 + (1.5 s + J)·(1 + k) + 1.5 s + 2·J`, i.e. it
closes no later than 1.5 s per node it was told about (and queried) plus 3 s; `C04_silent` — if
nobody answers, `k = 0`: about 3 s. The timer contract itself (tokio) is assumed, not proved.
-/
namespace Btdht

theorem lookupTimeout_eq : Constants.LOOKUP_TIMEOUT_ns = 1500000000 := by decide
theorem endgameTimeout_eq : Constants.ENDGAME_TIMEOUT_ns = 1500000000 := by decide

/-- **C04 (immediate)**: on a node that knows no good node, starting a search closes its stream in
the same step and leaves no search behind. -/
theorem C04_immediate (s : HState) (target : Bytes) (announce : Bool) (now : Nat)
    (hnone : (s.table.closestNodes target now).filter (fun n => n.status now = .good) = []) :
    (s.startLookup target announce now).2.1 = [.close s.nextStream] ∧
    (s.startLookup target announce now).1.lookups = s.lookups := by
  have hnew : ∀ (env : LEnv), env.table = s.table → env.now = now →
      Lookup.new s.nextAid s.nextStream s.selfId s.v6 target announce env =
        ({ aid := s.nextAid, nextSeq := 0, selfId := s.selfId, v6 := s.v6, target := target, inEndgame := false,
           willAnnounce := announce, active := [], tokens := [], requested := [], sorted := [],
           stream := s.nextStream }, env, []) := by
    intro env ht hn
    unfold Lookup.new
    rw [ht, hn, hnone]
    simp [Lookup.requestRound]
  unfold HState.startLookup HState.afterNew
  simp only [hnew (s.env now) rfl rfl]
  simp [Lookup.completedNow, Lookup.recvFinished, Lookup.announceTargets, liftEffects, HState.withEnv, HState.env]

/-- **C04 (an answer never ends a search)**: after handling a response with an outstanding id the
lookup is waiting for further answers or for its end-game timer. -/
theorem C04_not_ended_by_response (l : Lookup) (env : LEnv) (fr : Handle) (tid : Tid) (rsp : Resp)
    (entry : Tid × Bytes × (Nat × Nat)) (h : l.active.find? (·.1 = tid) = some entry) :
    (l.recvResponse env fr tid rsp).1.completedNow = false ∧
    ∀ st, Effect.close st ∉ (l.recvResponse env fr tid rsp).2.2 := by
  obtain ⟨sends, hs, heq, _, hc, _⟩ := recvResponse_accepted env.table l env fr tid rsp entry h (.refl _)
  refine ⟨hc, fun st hm => ?_⟩
  rw [heq] at hm
  rcases List.mem_append.mp hm with h1 | h1
  · have := hs _ h1; simp [Effect.isSend] at this
  · simp at h1

/-- **C04 (a query timeout never ends a search)**: when the last outstanding query times out the
end-game starts instead. -/
theorem C04_not_ended_by_timeout (l : Lookup) (env : LEnv) (tid : Tid)
    (h : l.active.find? (·.1 = tid) ≠ none) :
    (l.recvTimeout env tid).1.completedNow = false ∧ ∀ st, Effect.close st ∉ (l.recvTimeout env tid).2.2 := by
  obtain ⟨hs, _, _, _, _, _, hc⟩ := recvTimeout_spec env.table l env tid (.refl _)
  refine ⟨hc h, fun st hm => ?_⟩
  have := hs _ hm; simp [Effect.isSend] at this

theorem scheduleAt_mem {τ} (t : Timer τ) (d : Nat) (task : τ) :
    ∃ e ∈ (t.scheduleAt d task).1.entries, e.deadline = d ∧ e.id = t.nextId ∧ (t.scheduleAt d task).2 = (d, t.nextId) := by
  exact ⟨⟨d, t.nextId, task⟩, by simp [Timer.scheduleAt], rfl, rfl, rfl⟩

/-- **C04 (the end-game lasts a full 1.5 s)**: the end-game timer is scheduled for exactly
1.5 s after the moment the end-game started. -/
theorem C04_endgame_delay (l : Lookup) (env : LEnv) :
    (l.endgameRound env).1.inEndgame = true ∧
    ∃ e ∈ (l.endgameRound env).2.1.timer.entries,
      e.deadline = env.now + 1500000000 ∧ e.task = .lookupEndGame ⟨l.aid, l.nextSeq⟩ := by
  refine ⟨(endgameRound_keeps env.table l env (.refl _)).2, ?_⟩
  unfold Lookup.endgameRound
  simp only
  -- the fold only changes the table of the environment, never its timer
  have key := foldl_pred
    (fun (acc : EndAcc) => acc.env.timer = (env.timer.scheduleAt (env.now + Constants.ENDGAME_TIMEOUT_ns)
        (.lookupEndGame ⟨l.aid, l.nextSeq⟩)).1)
    (endgameStep (env.timer.scheduleAt (env.now + Constants.ENDGAME_TIMEOUT_ns) (.lookupEndGame ⟨l.aid, l.nextSeq⟩)).2)
    (fun b a hb => by
      unfold endgameStep
      split
      · exact hb
      · simp only; split <;> exact hb)
    l.sorted
    { l := { l with inEndgame := true, nextSeq := l.nextSeq + 1 },
      env := { env with timer := (env.timer.scheduleAt (env.now + Constants.ENDGAME_TIMEOUT_ns)
        (.lookupEndGame ⟨l.aid, l.nextSeq⟩)).1 }, effs := [], out := [] } rfl
  rw [key]
  refine ⟨⟨env.now + Constants.ENDGAME_TIMEOUT_ns, env.timer.nextId, .lookupEndGame ⟨l.aid, l.nextSeq⟩⟩,
    by simp [Timer.scheduleAt], by rw [endgameTimeout_eq], rfl⟩

/-- **C04 (every regular query gets its own 1.5 s)**: each query of a request round is entered as
outstanding together with a timeout entry scheduled 1.5 s after it was sent. -/
theorem C04_query_timeout_delay (acc : RoundAcc) (hd : Handle × Bytes) :
    ∃ e ∈ (requestStep acc hd).env.timer.entries,
      e.deadline = acc.env.now + 1500000000 ∧ e.task = .lookupTimeout ⟨acc.l.aid, acc.l.nextSeq⟩ ∧
      (⟨acc.l.aid, acc.l.nextSeq⟩, hd.2, (e.deadline, e.id)) ∈ (requestStep acc hd).l.active := by
  refine ⟨⟨acc.env.now + Constants.LOOKUP_TIMEOUT_ns, acc.env.timer.nextId, .lookupTimeout ⟨acc.l.aid, acc.l.nextSeq⟩⟩, ?_,
    by rw [lookupTimeout_eq], rfl, ?_⟩
  · unfold requestStep; simp only; split <;> simp [Timer.scheduleAt]
  · unfold requestStep; simp only; split <;> simp [Timer.scheduleAt]

/-- **C04 (timer order)**: the entry the timer hands out is one of its entries and no other entry
has an earlier deadline (ties broken by scheduling order). -/
theorem C04_timer_order {τ} (t t' : Timer τ) (m : TimerEntry τ) (h : t.pop = some (t', m)) :
    m ∈ t.entries ∧ ∀ e ∈ t.entries, keyLe (m.deadline, m.id) (e.deadline, e.id) = true := by
  unfold Timer.pop at h
  cases he : t.earliest with
  | none => simp [he] at h
  | some m' =>
    simp only [he, Option.some.injEq, Prod.mk.injEq] at h
    obtain ⟨_, rfl⟩ := h
    unfold Timer.earliest at he
    obtain ⟨_, h2, h3⟩ := earliest_min t.entries none m' he
    exact ⟨by rcases h3 with h3 | h3; exact h3; exact absurd h3 (by simp), h2⟩

/-- **C04 (cancel)** removes exactly the entries with the cancelled key and nothing else. -/
theorem C04_timer_cancel {τ} (t : Timer τ) (key : Nat × Nat) (e : TimerEntry τ) :
    e ∈ (t.cancel key).1.entries ↔ (e ∈ t.entries ∧ ¬ (e.deadline = key.1 ∧ e.id = key.2)) := by
  simp only [Timer.cancel, List.mem_filter, Bool.not_eq_true', Bool.and_eq_false_iff, decide_eq_false_iff_not,
    Bool.and_eq_true, decide_eq_true_eq, Bool.not_eq_eq_eq_not, Bool.not_true]
  constructor
  · rintro ⟨h1, h2⟩
    refine ⟨h1, fun ⟨a, b⟩ => ?_⟩
    rcases h2 with h2 | h2
    · exact h2 a
    · exact h2 b
  · rintro ⟨h1, h2⟩
    refine ⟨h1, ?_⟩
    by_cases a : e.deadline = key.1
    · exact Or.inr (fun b => h2 ⟨a, b⟩)
    · exact Or.inl a

/-! ### the quantitative bound -/

/-- the ghost bookkeeping along a run: start instant and first-round size of every search started -/
def ghostRun (g : Nat → Nat × Nat) (s : HState) : List (HOp × Nat) → (Nat → Nat × Nat)
  | [] => g
  | (op, now) :: rest => ghostRun (ghostStep g s op now) (s.hstep op now) rest

/-- the timer contract along a run: whenever the handler runs, nothing pending is overdue by more
than `J` -/
def PunctualRun (J : Nat) (s : HState) : List (HOp × Nat) → Prop
  | [] => True
  | (op, now) :: rest => Punctual J s now ∧ PunctualRun J (s.hstep op now) rest

theorem runOps_dl (J : Nat) : ∀ (ops : List (HOp × Nat)) (g : Nat → Nat × Nat) (s : HState), HDl J g s → PunctualRun J s ops →
    HDl J (ghostRun g s ops) (s.runOps ops)
  | [], _, _, h, _ => h
  | (op, now) :: rest, g, s, h, hp => runOps_dl J rest _ _ (hstep_dl J g s op now h hp.1) hp.2

/-- **C04 (deadline invariant)**: in every punctual run of the handler — any interleaving of
queries, answers (solicited or not, from anybody), search starts and timer firings, any number of
concurrent searches — every stored search satisfies `LInv`: outside the end-game something is
outstanding and every outstanding query has a pending timeout entry due by
`T0 + (1.5 s + J)·(1 + k)`; in the end-game its end-game entry is pending and due by that
`+ J + 1.5 s`; `k` = nodes queried after the first round. -/
theorem C04_deadline_invariant (J : Nat) (selfId : Bytes) (v6 ro : Bool) (port : Option Nat) (fa : List Addr) (t0 : Nat)
    (ops : List (HOp × Nat)) (hp : PunctualRun J (HState.new selfId v6 ro port fa t0) ops)
    (l : Lookup) (hl : l ∈ ((HState.new selfId v6 ro port fa t0).runOps ops).lookups) :
    let g := ghostRun (fun _ => (0, 0)) (HState.new selfId v6 ro port fa t0) ops
    LInv J (g l.aid).1 (g l.aid).2 ((HState.new selfId v6 ro port fa t0).runOps ops).timer l :=
  (runOps_dl J ops _ _ (hdl_new J _ selfId v6 ro port fa t0) hp).inv l hl

/-- **C04 (upper bound)**: a search that is still open at an instant `now` at which the timer
contract holds was started at most `(1.5 s + J)·(1 + k) + 1.5 s + 2·J` ago, `k` being the number of
nodes it queried after its first round. With exact timers (`J = 0`): `3 s + 1.5 s · k` — "no later
than 1.5 s per distinct node it was told about plus 3 s". -/
theorem C04_upper (J : Nat) (selfId : Bytes) (v6 ro : Bool) (port : Option Nat) (fa : List Addr) (t0 : Nat)
    (ops : List (HOp × Nat)) (hp : PunctualRun J (HState.new selfId v6 ro port fa t0) ops)
    (l : Lookup) (hl : l ∈ ((HState.new selfId v6 ro port fa t0).runOps ops).lookups)
    (now : Nat) (hnow : Punctual J ((HState.new selfId v6 ro port fa t0).runOps ops) now) :
    let g := ghostRun (fun _ => (0, 0)) (HState.new selfId v6 ro port fa t0) ops
    now ≤ (g l.aid).1 + (1500000000 + J) * (1 + (l.requested.length - (g l.aid).2)) + 1500000000 + 2 * J := by
  intro g
  have hinv := C04_deadline_invariant J selfId v6 ro port fa t0 ops hp l hl
  have hb : roundBound (g l.aid).1 J (l.requested.length - (g l.aid).2) =
      (g l.aid).1 + (1500000000 + J) * (1 + (l.requested.length - (g l.aid).2)) := by
    simp only [roundBound, lookupNs, lookupTimeout_eq]
  cases hE : l.inEndgame with
  | false =>
    obtain ⟨hne, hreg⟩ := hinv.reg hE
    obtain ⟨e0, he0⟩ := List.exists_mem_of_ne_nil _ hne
    obtain ⟨te, h1, _, _, h4⟩ := hreg e0 he0
    have := hnow te h1
    rw [hb] at h4
    omega
  | true =>
    obtain ⟨te, h1, _, _, h3⟩ := hinv.eg hE
    have := hnow te h1
    rw [hb] at h3
    simp only [endgameNs, endgameTimeout_eq] at h3
    omega

/-- **C04 (nobody answers)**: a search none of whose queries was answered queried nobody after its
first round, so it is closed about 3 s after it started (one 1.5 s query timeout plus one 1.5 s
end-game, plus the timers' lateness). -/
theorem C04_silent (J : Nat) (selfId : Bytes) (v6 ro : Bool) (port : Option Nat) (fa : List Addr) (t0 : Nat)
    (ops : List (HOp × Nat)) (hp : PunctualRun J (HState.new selfId v6 ro port fa t0) ops)
    (l : Lookup) (hl : l ∈ ((HState.new selfId v6 ro port fa t0).runOps ops).lookups)
    (now : Nat) (hnow : Punctual J ((HState.new selfId v6 ro port fa t0).runOps ops) now)
    (hsilent : l.requested.length = ((ghostRun (fun _ => (0, 0)) (HState.new selfId v6 ro port fa t0) ops) l.aid).2) :
    now ≤ ((ghostRun (fun _ => (0, 0)) (HState.new selfId v6 ro port fa t0) ops) l.aid).1 + 3000000000 + 3 * J := by
  have := C04_upper J selfId v6 ro port fa t0 ops hp l hl now hnow
  simp only [hsilent, Nat.sub_self] at this
  omega

/-- **C04 (whom the later rounds query)**: handling an answer, a search only ever queries — beyond
those it had queried already — nodes that this very answer names (for the node's address family);
query timeouts and the end-game round add nobody. So `k` in `C04_upper` counts distinct nodes the
search was told about. -/
theorem C04_later_rounds_query_named_nodes (l : Lookup) (env : LEnv) (fr : Handle) (tid : Tid) (rsp : Resp) :
    (∀ h ∈ (l.recvResponse env fr tid rsp).1.requested,
      h ∈ l.requested ∨ h ∈ (if l.v6 then rsp.nodes6 else rsp.nodes4)) ∧
    (l.endgameRound env).1.requested = l.requested :=
  ⟨recvResponse_requested l env fr tid rsp, endgameRound_requested l env⟩

/-- the ghost value of a search is the instant it was started and the size of its first round ... -/
theorem C04_ghost_start (g : Nat → Nat × Nat) (s : HState) (target : Bytes) (ann : Bool) (now : Nat) :
    (ghostStep g s (.start target ann) now) s.nextAid =
      (now, (Lookup.new s.nextAid s.nextStream s.selfId s.v6 target ann (s.env now)).1.requested.length) := by
  simp [ghostStep]

/-- ... and is never changed afterwards (action ids are handed out in increasing order) -/
theorem C04_ghost_stable (g : Nat → Nat × Nat) (s : HState) (op : HOp) (now a : Nat) (ha : a < s.nextAid) :
    (ghostStep g s op now) a = g a := by
  cases op with
  | start target ann => simp only [ghostStep]; rw [if_neg (Nat.ne_of_lt ha)]
  | incoming tid body src => rfl
  | fire => rfl

/-- Non-vacuity: the premises are satisfiable — e.g. a node that only ever takes in unsolicited
answers has nothing pending, so the timer contract holds at every instant (runs with searches in
which every entry fires within 1 ms of its deadline are produced by the `handler` engine on the
real `DhtHandler` and the model in lockstep). -/
example : PunctualRun 0 (HState.new (List.replicate 20 0) false false none [] 0)
    [(.incoming (.raw [1, 2]) (.resp { id := List.replicate 20 2, values := [], nodes4 := [], nodes6 := [], token := none })
        ⟨false, [10, 0, 0, 1], 1⟩, 7),
     (.incoming (.raw [3]) (.err 201 [110, 111]) ⟨false, [10, 0, 0, 1], 1⟩, 9)] := by
  simp [PunctualRun, Punctual, HState.new, Timer.new, HState.hstep, HState.handleIncoming, HState.handleResponse, InTid.route]

end Btdht
