import Btdht.Proofs.GuardTie.Storage
import Btdht.Props.C03
import Btdht.Props.C05
import Btdht.Props.C06
import Btdht.Props.C07
import Btdht.Proofs.NetServer
import Btdht.Proofs.NetRun
import Btdht.Proofs.NetCheck
/-!
# C01 — Announced peers are found by every other node's search (end to end)

"In a loss-free network of serving nodes that all know each other (at most 9 nodes ...), once one
node's announcing search for an info-hash has ended, a search for that info-hash from any other
bootstrapped node yields the announcer's IP with its configured announce port (or its UDP source
port when none is configured). This keeps holding for 24 hours after the last announce and stops
holding once 24 hours have passed without a re-announce."

PROVED as a composition over a network of handler models (second half of this file; network layer
`Proofs/Net.lean`, invariant `Proofs/NetInv.lean`, client side `Proofs/ReachG.lean`):
* `C01_server_contract`: a serving node whose table lists exactly the other nodes keeps doing so
  through any queries and answers `get_peers` with its token, all the other nodes, the stored contacts;
* `C01_announce_reaches_all`: in every loss-free run with latencies ≤ D (2·D < 1.5 s, finding F01) of
  such a network, once an announcing search has ended at T1, each of the 8 nodes closest to the
  info-hash (every node when there are at most 8) holds (info-hash, announcer's IP : announce port or
  source port) with an insertion time in [T1, T1 + D] — or its announce is still in flight, which is
  impossible after T1 + D;
* `C01_search_finds`: a search in such a network yields every contact that some node holds alive;
* `C01_expired_not_found`: and yields nothing but contacts some node held less than 24 h before it started;
* `C01_end_to_end`: announce by one node, then a search from any node ending less than 24 h after the
  announcing search: the searcher's stream yields the announcer's contact.
What is ASSUMED (hypotheses, see the doc comments): the network is as in C01's premise when each
search starts (`Ready`: serving nodes, tables listing exactly all the others as good — hence ≤ 9
nodes —, at most 39 other stored pairs, nothing in flight, one search at a time, the searching node
has no stale timer entries); each search lies within a 10-minute window (token validity, C06);
timer entries do not fire early; ids differ within 160 bits. What happens *between* two searches
more than 10 minutes apart (table refresh) is not modelled: `Ready` for the second search is a
hypothesis there (`ready_next` derives it when both lie in one window).
A finding of this proof: a reply names the requester itself (every other node lists it), the search
then queries its own address and — the node serving — announces to itself too; so with exactly 9
serving nodes the announces go to the 8 closest of the 9 *including the announcer*, and the farthest
other node may get none: "every other node stores it" holds for ≤ 8 nodes, "some 8 nodes store it and
every later search finds it" for 9.
The links used, each proved for all inputs/histories at model level:
* `C01_token_accepted` (C06), `C01_contact`, `C01_announce_stores`,
  `C01_found_iff_announced_within_24h` (C07), `C01_served`, `C01_served_mem`, `C01_yielded` (C03).
-/
namespace Btdht

/-- **C01 (token link)** = C06: a token checked out for an IP at `ti` is accepted from that IP at
any time up to `ti + 10 min`, whatever else the token store served in between. -/
theorem C01_token_accepted (r0 : TokRun) (ip : Bytes) (ti : Nat) (es : List TokEvent) (t : Nat)
    (hclock : r0.store.lastRefresh ≤ ti) (hmono : monoFrom ti es) (hlast : lastTime ti es ≤ t) (ht : t ≤ ti + 600000000000) :
    let issue := r0.store.checkout ip ti
    let r1 : TokRun := { store := issue.1, log := r0.log }
    ((r1.run es).store.checkin ip (some issue.2) t).2 = true :=
  C06_min_validity r0 ip ti es t hclock hmono hlast ht

/-- **C01 (the contact)**: what an announce stores is the announcer's IP with the announced port,
or with the UDP source port when the port is implied. -/
theorem C01_contact (src : Addr) (port : Option Nat) :
    (connectAddr port src).ip = src.ip ∧ (connectAddr port src).v6 = src.v6 ∧
    (connectAddr port src).port = port.getD src.port := by
  cases port <;> simp [connectAddr]

/-- **C01 (announce link)**: on a serving node, an announce whose token is accepted and for which
the store has room is acknowledged and stores exactly (info-hash, contact) with the time `now`. -/
theorem C01_announce_stores (s : HState) (tid : InTid) (id ih : Bytes) (port : Option Nat) (token : Bytes) (src : Addr) (now : Nat)
    (hserve : s.readOnly = false)
    (htok : ((s.markRemote id src now).checkToken token src now).2 = true)
    (hroom : (((s.markRemote id src now).checkToken token src now).1.store.add ⟨ih, connectAddr port src⟩ now).2 = true) :
    (s.handleRequest tid (.announce id ih port token) src now).2 =
        [.send src tid (.resp (emptyResp s.selfId)) (!s.failAddrs.contains src)] ∧
    (s.handleRequest tid (.announce id ih port token) src now).1.store =
        (((s.markRemote id src now).checkToken token src now).1.store.add ⟨ih, connectAddr port src⟩ now).1 := by
  unfold HState.handleRequest
  simp only [hserve, Bool.false_eq_true, if_false, htok, Bool.not_true, hroom, if_true]
  exact ⟨by first | rfl | trivial, by first | rfl | trivial⟩

/-- **C01 (storage link)** = C07: after any history of announces (`add`) and look-ups (`find`) with
non-decreasing times, the addresses a node returns for `ih` at `now` are exactly those whose last
successful announce is less than 24 hours old: found for 24 h after the last announce, not found
once 24 h have passed without a re-announce. -/
theorem C01_found_iff_announced_within_24h (ops : List StOp) (hm : stMono 0 ops) (ih : Bytes) (now : Nat)
    (hn : stLast 0 ops ≤ now) :
    let fin := specTrack [] (fun _ => none) ops
    ∀ a, a ∈ (sFind fin.1 ih now).2 ↔ ∃ t, fin.2 { ih := ih, addr := a } = some t ∧ now - t < 86400000000000 :=
  (C07_exact ops hm ih now hn).1

/-- **C01 (reply link)**: the `values` of a get_peers reply are the addresses the store returns for
the info-hash, restricted to the requester's address family and to the reply cap (100 / 40). -/
theorem C01_served (s : HState) (tid : InTid) (id ih : Bytes) (want : Option Want) (src : Addr) (now : Nat)
    (hserve : s.readOnly = false) :
    ∃ rs, (s.handleRequest tid (.getPeers id ih want) src now).2 = [.send src tid (.resp rs) (!s.failAddrs.contains src)] ∧
      rs.values = ((((s.markRemote id src now).store.find ih now).2.filter (fun a => a.v6 = src.v6)).take
        (if src.v6 then 40 else 100)) := by
  have c4 : Constants.MAX_VALUES_V4 = 100 := by decide
  have c6 : Constants.MAX_VALUES_V6 = 40 := by decide
  unfold HState.handleRequest
  simp only [hserve, Bool.false_eq_true, if_false, c4, c6]
  exact ⟨_, rfl, rfl⟩

/-- ... so a stored address of the requester's family is in the reply whenever fewer addresses
than the cap are stored for the info-hash. -/
theorem C01_served_mem (s : HState) (tid : InTid) (id ih : Bytes) (want : Option Want) (src : Addr) (now : Nat) (a : Addr)
    (hserve : s.readOnly = false) (ha : a ∈ ((s.markRemote id src now).store.find ih now).2) (hfam : a.v6 = src.v6)
    (hfew : ((s.markRemote id src now).store.find ih now).2.length ≤ (if src.v6 then 40 else 100)) :
    ∃ rs, (s.handleRequest tid (.getPeers id ih want) src now).2 = [.send src tid (.resp rs) (!s.failAddrs.contains src)] ∧
      a ∈ rs.values := by
  obtain ⟨rs, h1, h2⟩ := C01_served s tid id ih want src now hserve
  refine ⟨rs, h1, ?_⟩
  rw [h2, List.take_of_length_le (Nat.le_trans (List.length_filter_le _ _) hfew)]
  exact List.mem_filter.mpr ⟨ha, by simp [hfam]⟩

/-- **C01 (searcher link)** = C03: the searcher's stream yields every value of an accepted answer. -/
theorem C01_yielded (l : Lookup) (env : LEnv) (fr : Handle) (tid : Tid) (rsp : Resp)
    (entry : Tid × Bytes × (Nat × Nat)) (hf : l.active.find? (·.1 = tid) = some entry) (a : Addr) (ha : a ∈ rsp.values) :
    Effect.yield l.stream a ∈ (l.recvResponse env fr tid rsp).2.2 := by
  obtain ⟨sends, _, heq⟩ := C03_yields_exactly l env fr tid rsp entry hf
  rw [heq]
  exact List.mem_append_right _ (List.mem_map.mpr ⟨a, ha, rfl⟩)

/-! ## The composition over a network -/

/-- **C01 (server contract)**. A node that serves queries (`readOnly = false`), whose sends succeed
and whose routing table lists exactly the handles `M` — all of its own address family, at most 8,
in its single initial bucket, each with an answer recent enough to be `Good` until the instant `G`
(`Serves M G s`, `Knows`) — keeps all that through any run of queries (`ping`, `find_node`,
`get_peers`, `announce_peer`, from anybody, with any content, at any instants), and answers every
`get_peers` for `ih` from `src` handled at `now ≤ G` with exactly one datagram to `src`, echoing the
transaction id: a response carrying its own id, the token made for `src`'s IP with the current
secret of its token store (after the rotation check at `now`), as `values` the stored contacts of
`ih` of the requester's family (up to the cap 100 / 40, C17), and as node list of its own family
exactly the handles `M` (every one of them, and nothing else). -/
theorem C01_server_contract (M : List Handle) (G : Nat) (s : HState) (h : Serves M G s) (ops : List (HOp × Nat))
    (hops : ∀ p ∈ ops, ∃ tid r src, p.1 = HOp.incoming tid (.req r) src) :
    Serves M G (s.runOps ops) ∧
    ∀ (tid : InTid) (id ih : Bytes) (src : Addr) (now : Nat), now ≤ G →
      ∃ rs, ((s.runOps ops).handleRequest tid (.getPeers id ih none) src now).2 = [.send src tid (.resp rs) true] ∧
        rs.id = s.selfId ∧
        rs.token = some (tokEnc ⟨src.ip, ((s.runOps ops).tokens.refreshCheck now).curr⟩) ∧
        rs.values = ((((s.runOps ops).store.find ih now).2.filter (fun a => a.v6 = src.v6)).take (if src.v6 then 40 else 100)) ∧
        (∀ x ∈ (if s.v6 then rs.nodes6 else rs.nodes4), x ∈ M) ∧ (∀ x ∈ M, x ∈ (if s.v6 then rs.nodes6 else rs.nodes4)) := by
  have key : ∀ (ops : List (HOp × Nat)) (s : HState), Serves M G s →
      (∀ p ∈ ops, ∃ tid r src, p.1 = HOp.incoming tid (.req r) src) →
      Serves M G (s.runOps ops) ∧ (s.runOps ops).selfId = s.selfId ∧ (s.runOps ops).v6 = s.v6 := by
    intro ops
    induction ops with
    | nil => intro s h _; exact ⟨h, rfl, rfl⟩
    | cons p rest ih =>
      intro s h hops
      obtain ⟨op, now⟩ := p
      obtain ⟨tid, r, src, hop⟩ := hops (op, now) List.mem_cons_self
      simp only at hop
      subst hop
      obtain ⟨e1, e2, _⟩ := handleRequest_static s tid r src now
      obtain ⟨a, b, c⟩ := ih (s.hstep (.incoming tid (.req r) src) now) (serves_request h tid r src now)
        (fun p hp => hops p (List.mem_cons_of_mem _ hp))
      exact ⟨a, b.trans e1, c.trans e2⟩
  obtain ⟨hs, e1, e2⟩ := key ops s h hops
  refine ⟨hs, fun tid id ih src now hn => ?_⟩
  obtain ⟨rs, r1, r2, r3, r4, r5, r6⟩ := serves_getPeers hs tid id ih src now hn
  rw [e2] at r5 r6
  exact ⟨rs, by rw [r1], r2.trans e1, r3, r4, r5, r6⟩

/-- the whole run of one search: started at `T0`, some steps, the end-game entry fires at `T1`, some more steps -/
def Phase.ops (P : Phase) (ops1 : List (NOp × Nat)) (T1 : Nat) (ops2 : List (NOp × Nat)) : List (NOp × Nat) :=
  (.start P.ia P.ih P.ann, P.T0) :: (ops1 ++ (.fire P.ia, T1) :: ops2)

/-- **C01 (the announces reach the storing nodes)**. `P` describes a network (`Proofs/NetInv.lean`):
the handles `P.N` of its nodes — ids pairwise distinct, of 20 bytes and differing from each other
within the first 160 bits, addresses pairwise distinct and of one family, none the placeholder
handles (`NetWF`) — a one-way latency bound `P.D` with `2·D < 1.5 s` (known finding F01), and one
announcing search: node `P.ia` (handle `P.a`, announce port `P.port`) searches `P.ih` from `T0`,
everything considered lies before `P.G ≤ T0 + 10 min` (the token validity of C06).
`Ready P cfg0`: just before, every node serves (`readOnly = false`), its sends succeed, its routing
table lists exactly all the other nodes as good until `P.G` (`Knows`: hence at most 9 nodes, no
bucket ever overflows), stores hold at most 39 other pairs (room, C17 cap), no search runs, nothing
is in flight, the searching node has no pending timer entry.
`NetRun P.D cfg0 (P.ops ops1 T1 ops2)`: a loss-free run with latencies ≤ `D` (`Proofs/Net.lean`) in
which the search is started at `T0`, and — after any steps `ops1`: deliveries and timer firings at
any node — the step at `T1` pops the search's end-game timer entry (`SearchEnds`: "the search has
ended at `T1`"), followed by any steps `ops2`; all steps happen by `P.G` and start no other search
(`RunOk`). Then, at the end of the run, **each of the 8 nodes closest to the info-hash** (all nodes,
the announcer included, when there are at most 8: `closest8_all`) **holds the pair (info-hash,
announcer's IP with the announce port — or the UDP source port when none is configured) with an
insertion time between `T1` and `T1 + D`** — or, as long as `T1 + D` has not passed, its
`announce_peer` is still in flight. -/
theorem C01_announce_reaches_all (P : Phase) (hW : NetWF P) (hann : P.ann = true) (cfg0 : NetCfg) (hR : Ready P cfg0)
    (hTG : P.T0 ≤ P.G) (ops1 ops2 : List (NOp × Nat)) (T1 : Nat)
    (hrun : NetRun P.D cfg0 (P.ops ops1 T1 ops2)) (hok1 : RunOk P ops1) (hT1 : T1 ≤ P.G) (hok2 : RunOk P ops2)
    (hends : SearchEnds (cfg0.run ((.start P.ia P.ih P.ann, P.T0) :: ops1)) P.ia) :
    ∀ x ∈ closest8 P.ih P.N,
      ((cfg0.run (P.ops ops1 T1 ops2)).now ≤ T1 + P.D ∧ ∃ p ∈ (cfg0.run (P.ops ops1 T1 ops2)).flight, IsAnnTo P x p) ∨
      ∃ (k : Nat) (n : NNode) (t : Nat), (cfg0.run (P.ops ops1 T1 ops2)).nodes[k]? = some n ∧ n.handle = x ∧
        Held n.st.store ⟨P.ih, connectAddr P.port P.a.addr⟩ t ∧ T1 ≤ t ∧ t ≤ T1 + P.D := by
  obtain ⟨c, h, _⟩ := phase_run hW hR hTG ops1 ops2 T1 hrun hok1 hT1 hok2 hends
  exact ann_result h hann (run_flight_timely P.D _ cfg0 (by simp [Phase.ops]) hrun)

/-- **C01 (a search finds what the nodes hold)**. Same setting, for any search (announcing or
not). `P.Must` marks nodes that hold the pair `(P.ih, P.x)` — `P.x` of the network's address family
— with an insertion time that keeps it alive until `P.G` (part of `Ready`: `NodeOk.storeMust`). If
there is such a node, then by the time the search has ended its stream `(P.ia, P.stream)` has
yielded `P.x`. -/
theorem C01_search_finds (P : Phase) (hW : NetWF P) (cfg0 : NetCfg) (hR : Ready P cfg0)
    (hTG : P.T0 ≤ P.G) (ops1 ops2 : List (NOp × Nat)) (T1 : Nat)
    (hrun : NetRun P.D cfg0 (P.ops ops1 T1 ops2)) (hok1 : RunOk P ops1) (hT1 : T1 ≤ P.G) (hok2 : RunOk P ops2)
    (hends : SearchEnds (cfg0.run ((.start P.ia P.ih P.ann, P.T0) :: ops1)) P.ia)
    (x : Handle) (hx : x ∈ P.N) (hm : P.Must x) :
    (P.ia, P.stream, P.x) ∈ (cfg0.run (P.ops ops1 T1 ops2)).yields := by
  obtain ⟨c, _, hy⟩ := phase_run hW hR hTG ops1 ops2 T1 hrun hok1 hT1 hok2 hends
  exact hy x hx hm

/-- **C01 (nothing else is found: expiry)**. Same setting. `P.Src h y` is any property such that,
when the search starts, every contact `y` a node `h` holds for `P.ih` with an insertion time less
than 24 h before `T0` satisfies it (`Ready.stores`). Then every address yielded during the run —
the history `P.Y0` of earlier yields aside — is yielded on the search's stream and satisfies `Src`
for some node: a contact whose last announce, at every node, is 24 h old or older when the search
starts is not found (take `Src h y := y ≠ that contact`, or the set of live contacts). -/
theorem C01_expired_not_found (P : Phase) (hW : NetWF P) (cfg0 : NetCfg) (hR : Ready P cfg0)
    (hTG : P.T0 ≤ P.G) (ops1 ops2 : List (NOp × Nat)) (T1 : Nat)
    (hrun : NetRun P.D cfg0 (P.ops ops1 T1 ops2)) (hok1 : RunOk P ops1) (hT1 : T1 ≤ P.G) (hok2 : RunOk P ops2)
    (hends : SearchEnds (cfg0.run ((.start P.ia P.ih P.ann, P.T0) :: ops1)) P.ia) :
    ∀ e ∈ (cfg0.run (P.ops ops1 T1 ops2)).yields,
      e ∈ P.Y0 ∨ (e.1 = P.ia ∧ e.2.1 = P.stream ∧ ∃ h ∈ P.N, P.Src h e.2.2) := by
  obtain ⟨c, h, _⟩ := phase_run hW hR hTG ops1 ops2 T1 hrun hok1 hT1 hok2 hends
  exact h.ysound

/-- **C01 (end to end: announce, then search from another node)**. Phase `P1`: node `P1.ia` runs an
announcing search for `ih`, ended at `T1` (hypotheses of `C01_announce_reaches_all`); let `cfg1` be
the network at the end of that run, more than `D` after `T1`. Phase `P2`, on the same nodes and for
the same info-hash, started in `cfg1` by any node `P2.ia`: any search whose window ends less than 24 h
after `T1` (`P2.G < T1 + 24 h`; the window itself spans at most 10 minutes) — provided the network
is `Ready` for it: still serving, tables still listing everybody as good until `P2.G`, nothing in
flight (what happens between the two searches — refresh traffic, clock — is not modelled: this is
a hypothesis; `ready_next` discharges it when both searches lie in one window). `P2.Must` is *defined*
as "the nodes holding the announcer's contact alive until `P2.G`" (`HoldsLive`), so the store part
of `Ready P2 cfg1` is no assumption. Then the second search **yields the announcer's IP with its
announce port (or its UDP source port when none is configured)**. -/
theorem C01_end_to_end (P1 P2 : Phase) (hW1 : NetWF P1) (hW2 : NetWF P2) (hann : P1.ann = true)
    (cfg0 : NetCfg) (hR1 : Ready P1 cfg0) (hTG1 : P1.T0 ≤ P1.G) (ops1 ops2 : List (NOp × Nat)) (T1 : Nat)
    (hrun1 : NetRun P1.D cfg0 (P1.ops ops1 T1 ops2)) (hok1 : RunOk P1 ops1) (hT1 : T1 ≤ P1.G) (hok2 : RunOk P1 ops2)
    (hends1 : SearchEnds (cfg0.run ((.start P1.ia P1.ih P1.ann, P1.T0) :: ops1)) P1.ia)
    (hlate : T1 + P1.D < (cfg0.run (P1.ops ops1 T1 ops2)).now)
    (hN : P2.N = P1.N) (hih : P2.ih = P1.ih) (hx : P2.x = connectAddr P1.port P1.a.addr)
    (hMust : P2.Must = HoldsLive (cfg0.run (P1.ops ops1 T1 ops2)) P2.ih P2.x P2.G) (hlife : P2.G < T1 + 86400000000000)
    (hR2 : Ready P2 (cfg0.run (P1.ops ops1 T1 ops2))) (hTG2 : P2.T0 ≤ P2.G) (ops3 ops4 : List (NOp × Nat)) (T2 : Nat)
    (hrun2 : NetRun P2.D (cfg0.run (P1.ops ops1 T1 ops2)) (P2.ops ops3 T2 ops4)) (hok3 : RunOk P2 ops3) (hT2 : T2 ≤ P2.G)
    (hok4 : RunOk P2 ops4)
    (hends2 : SearchEnds ((cfg0.run (P1.ops ops1 T1 ops2)).run ((.start P2.ia P2.ih P2.ann, P2.T0) :: ops3)) P2.ia) :
    (P2.ia, P2.stream, connectAddr P1.port P1.a.addr) ∈ ((cfg0.run (P1.ops ops1 T1 ops2)).run (P2.ops ops3 T2 ops4)).yields := by
  -- some node is among the 8 closest, and it holds the pair
  obtain ⟨y, hy⟩ := List.exists_mem_of_ne_nil _ (closest8_ne_nil P1.ih (a_mem hW1))
  have hyN : y ∈ P1.N := mem_closestK hy
  rcases C01_announce_reaches_all P1 hW1 hann cfg0 hR1 hTG1 ops1 ops2 T1 hrun1 hok1 hT1 hok2 hends1 y hy with ⟨h1, _⟩ | ⟨k, n, t, hk, hn, ht, h1, _⟩
  · omega
  · have hm : P2.Must y := by
      rw [hMust]
      exact ⟨k, n, t, hk, hn, by rw [hih, hx]; exact ht, by omega⟩
    have := C01_search_finds P2 hW2 _ hR2 hTG2 ops3 ops4 T2 hrun2 hok3 hT2 hok4 hends2 y (by rw [hN]; exact hyN) hm
    rw [hx] at this
    exact this

/-! ## Non-vacuity: a concrete network of three nodes

Nodes 1, 2, 3 (ids `0…0k`, addresses `10.0.0.k:6881`, announce port 7000), each serving, with a
routing table holding the two others as good nodes and six free slots; info-hash `0…09`; latency
bound 5 ms. Node 1 announces from instant 1000 s (phase `c01P1`); every datagram is delivered 1 ms
after the previous step; the end-game entry fires at 1001.506 s. Then node 3 searches (phase `c01P2`).
All hypotheses of the theorems hold on this run (`Table.addNode` is not kernel-evaluable, so the run
is evaluated through the shadow step of `Proofs/NetCheck.lean`, proved equal to the real one). -/

def c01H (k : Nat) : Handle := ⟨List.replicate 19 0 ++ [k], ⟨false, [10, 0, 0, k], 6881⟩⟩
def c01Ih : Bytes := List.replicate 19 0 ++ [9]
def c01T0 : Nat := 1000000000000
def c01N : List Handle := [c01H 1, c01H 2, c01H 3]
def c01Slots (k : Nat) : List Node :=
  (([1, 2, 3].filter (· ≠ k)).map fun j => Node.asGood (c01H j) c01T0) ++ List.replicate 6 (Node.asBad placeholderHandle)
def c01Table (k : Nat) : Table := { selfId := (c01H k).id, routers := [], buckets := [⟨c01Slots k⟩] }
def c01Node (k : Nat) : NNode :=
  ⟨(c01H k).addr, { HState.new (c01H k).id false false (some 7000) [] c01T0 with table := c01Table k }⟩
def c01Cfg0 : NetCfg := { nodes := [c01Node 1, c01Node 2, c01Node 3], flight := [], now := c01T0, yields := [] }
/-- the contact node 1 announces: its IP with its announce port -/
def c01X : Addr := ⟨false, [10, 0, 0, 1], 7000⟩

def c01P1 : Phase :=
  { N := c01N, G := 1600000000000, D := 5000000, ia := 0, a := c01H 1, A := 2, ih := c01Ih,
    ann := true, stream := 0, port := some 7000, T0 := c01T0, x := c01X, Must := fun _ => False, Src := fun _ _ => True, Y0 := [] }

def c01Ops1 : List (NOp × Nat) :=
  [(.deliver 0, 1000001000000), (.deliver 0, 1000002000000), (.deliver 0, 1000003000000),
   (.deliver 0, 1000004000000), (.deliver 0, 1000005000000), (.deliver 0, 1000006000000)]
def c01T1 : Nat := 1001506000000
def c01Ops2 : List (NOp × Nat) :=
  [(.deliver 0, 1001507000000), (.deliver 0, 1001508000000), (.deliver 0, 1001509000000),
   (.deliver 0, 1001510000000), (.deliver 0, 1001511000000), (.deliver 0, 1001512000000)]

theorem c01_netOk : NetOk c01N c01Ih := ⟨by decide, by decide, by decide, by decide⟩

theorem c01_wf1 : NetWF c01P1 :=
  ⟨c01_netOk, by decide, by decide, by decide, by decide, by decide, by decide, by decide, by decide, by decide, by decide,
   by decide, rfl⟩

theorem c01_knows (k : Nat) (hk : k = 1 ∨ k = 2 ∨ k = 3) :
    Knows (c01H k).id (c01N.filter (· ≠ c01H k)) 1600000000000 (c01Table k) := by
  rcases hk with rfl | rfl | rfl <;>
    exact ⟨rfl, rfl, by decide +kernel, _, rfl, by decide, by decide, by decide, by unfold HandlesOk; decide⟩

theorem c01_nodeOk (P : Phase) (hN : P.N = c01N) (hG : P.G = 1600000000000) (hM : ∀ x, ¬ P.Must x)
    (k : Nat) (hk : k = 1 ∨ k = 2 ∨ k = 3) : NodeOk P c01T0 (k - 1) (c01Node k) := by
  refine ⟨by rw [hN]; rcases hk with rfl | rfl | rfl <;> rfl, ?_, Nat.le_refl _, stWF_empty _,
    by unfold othersCount; simp [c01Node, HState.new, Storage.empty], fun hm => absurd hm (hM _),
    fun te hte => by simp [c01Node, HState.new, Timer.new] at hte⟩
  rw [hN, hG]
  exact ⟨rfl, rfl, by rcases hk with rfl | rfl | rfl <;> decide, c01_knows k hk,
    by rcases hk with rfl | rfl | rfl <;> decide, by rcases hk with rfl | rfl | rfl <;> decide⟩

theorem c01_nodes (P : Phase) (hN : P.N = c01N) (hG : P.G = 1600000000000) (hM : ∀ x, ¬ P.Must x) :
    ∀ (k : Nat) (n : NNode), c01Cfg0.nodes[k]? = some n → NodeOk P c01Cfg0.now k n := by
  intro k n hk
  match k, hk with
  | 0, hk => cases hk; exact c01_nodeOk P hN hG hM 1 (Or.inl rfl)
  | 1, hk => cases hk; exact c01_nodeOk P hN hG hM 2 (Or.inr (Or.inl rfl))
  | 2, hk => cases hk; exact c01_nodeOk P hN hG hM 3 (Or.inr (Or.inr rfl))
  | k + 3, hk => simp [c01Cfg0] at hk

theorem c01_ready1 : Ready c01P1 c01Cfg0 :=
  ⟨rfl, c01_nodes c01P1 rfl rfl (fun _ h => h), fun k n hk => by
      match k, hk with
      | 0, hk => cases hk; rfl
      | 1, hk => cases hk; rfl
      | 2, hk => cases hk; rfl
      | k + 3, hk => simp [c01Cfg0] at hk,
   rfl, Nat.le_refl _, fun _ _ _ _ _ _ _ => trivial, rfl, ⟨c01Node 1, rfl, rfl, rfl, rfl, rfl⟩⟩

theorem c01_check1 : checkS c01P1.D c01Cfg0 (c01P1.ops c01Ops1 c01T1 c01Ops2) = true := by decide +kernel
theorem c01_run1 : NetRun c01P1.D c01Cfg0 (c01P1.ops c01Ops1 c01T1 c01Ops2) := (run_of_checkS _ _ _ c01_check1).1
theorem c01_eq1 : c01Cfg0.run (c01P1.ops c01Ops1 c01T1 c01Ops2) = c01Cfg0.runS (c01P1.ops c01Ops1 c01T1 c01Ops2) :=
  (run_of_checkS _ _ _ c01_check1).2
theorem c01_ok1 : RunOk c01P1 c01Ops1 := runOk_of_all _ _ (by decide)
theorem c01_ok2 : RunOk c01P1 c01Ops2 := runOk_of_all _ _ (by decide)
theorem c01_ends1 : SearchEnds (c01Cfg0.run ((.start c01P1.ia c01P1.ih c01P1.ann, c01P1.T0) :: c01Ops1)) c01P1.ia := by
  rw [(run_of_checkS c01P1.D _ c01Cfg0 (by decide +kernel)).2]
  exact searchEnds_of_B _ _ (by decide +kernel)

/-- Non-vacuity of `C01_announce_reaches_all`: all hypotheses hold on the concrete run; the theorem
gives, for each of the three nodes (the 8 closest of three), the stored pair or the announce in
flight — and evaluation confirms that at the end each node holds `(0…09, 10.0.0.1:7000)`, inserted
1, 3 and 2 ms after the search ended. -/
example :
    (∀ x ∈ c01N, ((c01Cfg0.run (c01P1.ops c01Ops1 c01T1 c01Ops2)).now ≤ c01T1 + c01P1.D ∧
        ∃ p ∈ (c01Cfg0.run (c01P1.ops c01Ops1 c01T1 c01Ops2)).flight, IsAnnTo c01P1 x p) ∨
      ∃ (k : Nat) (n : NNode) (t : Nat), (c01Cfg0.run (c01P1.ops c01Ops1 c01T1 c01Ops2)).nodes[k]? = some n ∧ n.handle = x ∧
        Held n.st.store ⟨c01Ih, c01X⟩ t ∧ c01T1 ≤ t ∧ t ≤ c01T1 + c01P1.D) ∧
    (c01Cfg0.run (c01P1.ops c01Ops1 c01T1 c01Ops2)).nodes.map (fun n => n.st.store.expires) =
      [[⟨⟨c01Ih, c01X⟩, 1001507000000⟩], [⟨⟨c01Ih, c01X⟩, 1001509000000⟩], [⟨⟨c01Ih, c01X⟩, 1001508000000⟩]] := by
  refine ⟨fun x hx => ?_, by rw [c01_eq1]; decide +kernel⟩
  exact C01_announce_reaches_all c01P1 c01_wf1 rfl c01Cfg0 c01_ready1 (by decide) c01Ops1 c01Ops2 c01T1 c01_run1 c01_ok1 (by decide)
    c01_ok2 c01_ends1 x (closest8_all _ _ (by decide) x hx)

/-! the second phase: node 3 searches the same info-hash in the network the first phase left behind -/

/-- the network at the end of the first phase -/
def c01Cfg1 : NetCfg := c01Cfg0.run (c01P1.ops c01Ops1 c01T1 c01Ops2)
def c01Cfg1S : NetCfg := c01Cfg0.runS (c01P1.ops c01Ops1 c01T1 c01Ops2)
theorem c01_cfg1 : c01Cfg1 = c01Cfg1S := c01_eq1

def c01P2 : Phase :=
  { N := c01N, G := 1600000000000, D := 5000000, ia := 2, a := c01H 3, A := 2, ih := c01Ih,
    ann := false, stream := 0, port := some 7000, T0 := 1001513000000, x := c01X,
    Must := HoldsLive c01Cfg1 c01Ih c01X 1600000000000, Src := fun _ _ => True, Y0 := c01Cfg1.yields }

def c01Ops3 : List (NOp × Nat) :=
  [(.deliver 0, 1001514000000), (.deliver 0, 1001515000000), (.deliver 0, 1001516000000), (.deliver 0, 1001517000000),
   (.deliver 0, 1001518000000), (.deliver 0, 1001519000000), (.deliver 0, 1001520000000), (.deliver 0, 1001521000000)]
def c01T2 : Nat := 1003019000000

theorem c01_wf2 : NetWF c01P2 :=
  ⟨c01_netOk, by decide, by decide, by decide, by decide, by decide, by decide, by decide, by decide, by decide, by decide,
   by decide, rfl⟩

theorem c01P2_must : c01P2.Must = HoldsLive c01Cfg1 c01P2.ih c01P2.x c01P2.G := by
  simp only [c01P2]
theorem c01P2_y0 : c01P2.Y0 = c01Cfg1.yields := by
  simp only [c01P2]

theorem c01_ready2 : Ready c01P2 c01Cfg1 := by
  obtain ⟨c, h, _⟩ := phase_run c01_wf1 c01_ready1 (by decide) c01Ops1 c01Ops2 c01T1 c01_run1 c01_ok1 (by decide) c01_ok2 c01_ends1
  have h' : SInv c01P1 c01Cfg1 c (some c01T1) := h
  clear h
  refine ready_next (P2 := c01P2) (cfg := c01Cfg1) c01_wf1 h' ?_ (Eq.refl c01N) (Eq.refl 1600000000000) c01P2_must
    (fun _ _ => trivial) c01P2_y0 (fun k n hk => ?_) ?_ ?_
  · show c01Cfg1.flight = []
    rw [c01_cfg1]; decide +kernel
  · have hall : c01Cfg1.nodes.all (fun n => decide (othersCount n.st.store c01P2.item ≤ 39)) = true := by
      rw [c01_cfg1]; decide +kernel
    have := List.all_eq_true.mp hall n (List.mem_of_getElem? hk)
    simpa using this
  · show c01Cfg1.now ≤ c01P2.T0
    rw [c01_cfg1]; decide +kernel
  · exact client_of_B c01Cfg1 2 2 0 (some 7000) (by rw [c01_cfg1]; decide +kernel)

theorem c01_check2 : checkS c01P2.D c01Cfg1S (c01P2.ops c01Ops3 c01T2 []) = true := by decide +kernel
theorem c01_run2 : NetRun c01P2.D c01Cfg1 (c01P2.ops c01Ops3 c01T2 []) := by
  rw [c01_cfg1]; exact (run_of_checkS _ _ _ c01_check2).1
theorem c01_ok3 : RunOk c01P2 c01Ops3 := runOk_of_all _ _ (by decide)
theorem c01_ends2 : SearchEnds (c01Cfg1.run ((.start c01P2.ia c01P2.ih c01P2.ann, c01P2.T0) :: c01Ops3)) c01P2.ia := by
  rw [c01_cfg1, (run_of_checkS c01P2.D _ c01Cfg1S (by decide +kernel)).2]
  exact searchEnds_of_B _ _ (by decide +kernel)

/-- Non-vacuity of `C01_search_finds`, `C01_expired_not_found` and `C01_end_to_end`: all their
hypotheses hold on the concrete two-phase run — node 1 announces, then node 3 searches — and the
composition theorem yields that node 3's stream 0 yields node 1's contact `10.0.0.1:7000`
(its IP with its configured announce port). -/
example : (2, 0, c01X) ∈ (c01Cfg1.run (c01P2.ops c01Ops3 c01T2 [])).yields := by
  have hlate : c01T1 + c01P1.D < (c01Cfg0.run (c01P1.ops c01Ops1 c01T1 c01Ops2)).now := by
    rw [c01_eq1]; decide +kernel
  exact C01_end_to_end c01P1 c01P2 c01_wf1 c01_wf2 rfl c01Cfg0 c01_ready1 (by decide) c01Ops1 c01Ops2 c01T1 c01_run1 c01_ok1
    (by decide) c01_ok2 c01_ends1 hlate rfl rfl rfl c01P2_must (by decide) c01_ready2 (by decide) c01Ops3 [] c01T2 c01_run2 c01_ok3
    (by decide) (fun _ h => by cases h) c01_ends2

/-- … and every yield of that run is one of node 3's stream 0 (`C01_expired_not_found` with the
trivial `Src`; the earlier history `Y0` is empty) -/
example : ∀ e ∈ (c01Cfg1.run (c01P2.ops c01Ops3 c01T2 [])).yields,
    e ∈ c01P2.Y0 ∨ (e.1 = 2 ∧ e.2.1 = 0 ∧ ∃ h ∈ c01N, True) :=
  C01_expired_not_found c01P2 c01_wf2 c01Cfg1 c01_ready2 (by decide) c01Ops3 [] c01T2 c01_run2 c01_ok3 (by decide)
    (fun _ h => by cases h) c01_ends2

/-- Non-vacuity of `C01_server_contract`: node 1 of the network above serves and knows exactly
nodes 2 and 3; after a `ping` and a `get_peers` from strangers it still does, and answers a
`get_peers` with the node list `{node 2, node 3}`. -/
example :
    let s := ((c01Node 1).st.runOps
      [(.incoming (.raw [1]) (.req (.ping (List.replicate 20 7))) ⟨false, [172, 16, 0, 1], 4000⟩, c01T0),
       (.incoming (.raw [2]) (.req (.getPeers (List.replicate 20 7) c01Ih none)) ⟨false, [172, 16, 0, 1], 4000⟩, c01T0 + 5)])
    Serves (c01N.filter (· ≠ c01H 1)) 1600000000000 s ∧
    ∃ rs, (s.handleRequest (.raw [3]) (.getPeers [] c01Ih none) ⟨false, [172, 16, 0, 9], 1⟩ (c01T0 + 9)).2 =
        [.send ⟨false, [172, 16, 0, 9], 1⟩ (.raw [3]) (.resp rs) true] ∧
      (∀ x ∈ rs.nodes4, x = c01H 2 ∨ x = c01H 3) ∧ c01H 2 ∈ rs.nodes4 ∧ c01H 3 ∈ rs.nodes4 := by
  intro s
  have hs : Serves (c01N.filter (· ≠ c01H 1)) 1600000000000 (c01Node 1).st :=
    (c01_nodeOk c01P1 rfl rfl (fun _ h => h) 1 (Or.inl rfl)).serves
  obtain ⟨h1, h2⟩ := C01_server_contract _ _ _ hs
    [(.incoming (.raw [1]) (.req (.ping (List.replicate 20 7))) ⟨false, [172, 16, 0, 1], 4000⟩, c01T0),
     (.incoming (.raw [2]) (.req (.getPeers (List.replicate 20 7) c01Ih none)) ⟨false, [172, 16, 0, 1], 4000⟩, c01T0 + 5)]
    (by intro p hp; simp only [List.mem_cons, List.mem_nil_iff, or_false] at hp; rcases hp with rfl | rfl <;> exact ⟨_, _, _, rfl⟩)
  refine ⟨h1, ?_⟩
  obtain ⟨rs, r1, _, _, _, r5, r6⟩ := h2 (.raw [3]) [] c01Ih ⟨false, [172, 16, 0, 9], 1⟩ (c01T0 + 9) (by decide)
  refine ⟨rs, r1, fun x hx => ?_, r6 _ (by decide), r6 _ (by decide)⟩
  obtain ⟨hm, hne⟩ := List.mem_filter.mp (r5 x hx)
  have hne' : x ≠ c01H 1 := by simpa using hne
  simp only [c01N, List.mem_cons, List.mem_nil_iff, or_false] at hm
  rcases hm with h | h | h
  · exact absurd h hne'
  · exact Or.inl h
  · exact Or.inr h

end Btdht
