import Btdht.Proofs.GuardTie.Storage
import Btdht.Props.C03
import Btdht.Props.C05
import Btdht.Props.C06
import Btdht.Props.C07
/-!
# C01 — Announced peers are found by every other node's search (end to end)

"In a loss-free network of serving nodes that all know each other (at most 9 nodes ...), once one
node's announcing search for an info-hash has ended, a search for that info-hash from any other
bootstrapped node yields the announcer's IP with its configured announce port (or its UDP source
port when none is configured). This keeps holding for 24 hours after the last announce and stops
holding once 24 hours have passed without a re-announce."

PARTIAL. The end-to-end statement is a composition along the path
announcer's search → token → announce_peer → storing node's peer store → get_peers reply → searcher's
stream. Each link is proved for all inputs/histories at model level:
* `C01_token_accepted` (C06): the token a node hands out in a get_peers reply is accepted from the
  same IP for at least 10 minutes — an announce that follows its search within seconds is accepted;
* `C01_announce_stores`: an accepted announce on a serving node with room stores exactly the pair
  (info-hash, announcer's IP with the announced port, or the UDP source port when implied) — the
  contact C01 speaks of (`C01_contact`) — and is acknowledged;
* `C01_found_iff_announced_within_24h` (C07): after any history of announces and look-ups a node
  returns an address for an info-hash iff its last successful announce is less than 24 h old — the
  "keeps holding for 24 hours ... stops holding" clause, per storing node;
* `C01_served`: a get_peers reply lists the stored addresses of the requester's family (up to the
  reply cap of C17), in particular the announcer's;
* `C01_yielded` (C03): the searcher's stream yields every value of every answer it accepts.
Not proved in Lean: that in every network of 2..9 mutually known nodes with latencies below 1 s the
announcer's search reaches (and gets tokens from) the nodes the searcher's search later queries —
i.e. the routing/liveness part (C02's E1-E4 on real tables). That composition is decided by the
[C01] oracle of the node engine on networks of real `MainlineDht` instances (2..9 nodes, IPv4/IPv6,
announce port set or implied, offsets from seconds to beyond 24 h), in lockstep with the node model.
-/
namespace Btdht

/-- **C01 (token link)** = C06: a token checked out for an IP at `ti` is accepted from that IP at
any time up to `ti + 10 min`, whatever else the token store served in between. -/
theorem C01_token_accepted (r0 : TokRun) (ip : Bytes) (ti : Nat) (es : List TokEvent) (t : Nat)
    (hclock : r0.store.lastRefresh ≤ ti) (hmono : monoFrom ti es) (hlast : lastTime ti es ≤ t) (ht : t ≤ ti + 600000000000) :
    let issue := r0.store.checkout ip ti
    let r1 : TokRun := { store := issue.1, log := r0.log }
    ((r1.run es).store.checkin ip (some issue.2) t).2 = true :=
  C06_min_validity r0 ip ti es t hclock hmono hlast ht

/-- **C01 (the contact)**: what an announce stores is the announcer's IP with the announced port,
or with the UDP source port when the port is implied. -/
theorem C01_contact (src : Addr) (port : Option Nat) :
    (connectAddr port src).ip = src.ip ∧ (connectAddr port src).v6 = src.v6 ∧
    (connectAddr port src).port = port.getD src.port := by
  cases port <;> simp [connectAddr]

/-- **C01 (announce link)**: on a serving node, an announce whose token is accepted and for which
the store has room is acknowledged and stores exactly (info-hash, contact) with the time `now`. -/
theorem C01_announce_stores (s : HState) (tid : InTid) (id ih : Bytes) (port : Option Nat) (token : Bytes) (src : Addr) (now : Nat)
    (hserve : s.readOnly = false)
    (htok : ((s.markRemote id src now).checkToken token src now).2 = true)
    (hroom : (((s.markRemote id src now).checkToken token src now).1.store.add ⟨ih, connectAddr port src⟩ now).2 = true) :
    (s.handleRequest tid (.announce id ih port token) src now).2 =
        [.send src tid (.resp (emptyResp s.selfId)) (!s.failAddrs.contains src)] ∧
    (s.handleRequest tid (.announce id ih port token) src now).1.store =
        (((s.markRemote id src now).checkToken token src now).1.store.add ⟨ih, connectAddr port src⟩ now).1 := by
  unfold HState.handleRequest
  simp only [hserve, Bool.false_eq_true, if_false, htok, Bool.not_true, hroom, if_true]
  exact ⟨by first | rfl | trivial, by first | rfl | trivial⟩

/-- **C01 (storage link)** = C07: after any history of announces (`add`) and look-ups (`find`) with
non-decreasing times, the addresses a node returns for `ih` at `now` are exactly those whose last
successful announce is less than 24 hours old: found for 24 h after the last announce, not found
once 24 h have passed without a re-announce. -/
theorem C01_found_iff_announced_within_24h (ops : List StOp) (hm : stMono 0 ops) (ih : Bytes) (now : Nat)
    (hn : stLast 0 ops ≤ now) :
    let fin := specTrack [] (fun _ => none) ops
    ∀ a, a ∈ (sFind fin.1 ih now).2 ↔ ∃ t, fin.2 { ih := ih, addr := a } = some t ∧ now - t < 86400000000000 :=
  (C07_exact ops hm ih now hn).1

/-- **C01 (reply link)**: the `values` of a get_peers reply are the addresses the store returns for
the info-hash, restricted to the requester's address family and to the reply cap (100 / 40). -/
theorem C01_served (s : HState) (tid : InTid) (id ih : Bytes) (want : Option Want) (src : Addr) (now : Nat)
    (hserve : s.readOnly = false) :
    ∃ rs, (s.handleRequest tid (.getPeers id ih want) src now).2 = [.send src tid (.resp rs) (!s.failAddrs.contains src)] ∧
      rs.values = ((((s.markRemote id src now).store.find ih now).2.filter (fun a => a.v6 = src.v6)).take
        (if src.v6 then 40 else 100)) := by
  have c4 : Constants.MAX_VALUES_V4 = 100 := by decide
  have c6 : Constants.MAX_VALUES_V6 = 40 := by decide
  unfold HState.handleRequest
  simp only [hserve, Bool.false_eq_true, if_false, c4, c6]
  exact ⟨_, rfl, rfl⟩

/-- ... so a stored address of the requester's family is in the reply whenever fewer addresses
than the cap are stored for the info-hash. -/
theorem C01_served_mem (s : HState) (tid : InTid) (id ih : Bytes) (want : Option Want) (src : Addr) (now : Nat) (a : Addr)
    (hserve : s.readOnly = false) (ha : a ∈ ((s.markRemote id src now).store.find ih now).2) (hfam : a.v6 = src.v6)
    (hfew : ((s.markRemote id src now).store.find ih now).2.length ≤ (if src.v6 then 40 else 100)) :
    ∃ rs, (s.handleRequest tid (.getPeers id ih want) src now).2 = [.send src tid (.resp rs) (!s.failAddrs.contains src)] ∧
      a ∈ rs.values := by
  obtain ⟨rs, h1, h2⟩ := C01_served s tid id ih want src now hserve
  refine ⟨rs, h1, ?_⟩
  rw [h2, List.take_of_length_le (Nat.le_trans (List.length_filter_le _ _) hfew)]
  exact List.mem_filter.mpr ⟨ha, by simp [hfam]⟩

/-- **C01 (searcher link)** = C03: the searcher's stream yields every value of an accepted answer. -/
theorem C01_yielded (l : Lookup) (env : LEnv) (fr : Handle) (tid : Tid) (rsp : Resp)
    (entry : Tid × Bytes × (Nat × Nat)) (hf : l.active.find? (·.1 = tid) = some entry) (a : Addr) (ha : a ∈ rsp.values) :
    Effect.yield l.stream a ∈ (l.recvResponse env fr tid rsp).2.2 := by
  obtain ⟨sends, _, heq⟩ := C03_yields_exactly l env fr tid rsp entry hf
  rw [heq]
  exact List.mem_append_right _ (List.mem_map.mpr ⟨a, ha, rfl⟩)

end Btdht
