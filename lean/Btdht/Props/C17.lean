import Btdht.Proofs.GuardTie.Lookup
import Btdht.Proofs.Codec
import Btdht.Proofs.Bencode
import Btdht.Model.Handler
/-!
# C17 — Every datagram the node emits fits its peers' 1500-byte receive buffer

"Every datagram a node sends (queries, replies, errors) is at most 1500 bytes long, the size of the
receive buffer of every instance of this implementation ...; in particular a get_peers reply stays
within that size however many peers are stored for the info-hash."

Model: the encoder `printVal ∘ msgTree` (C13 proves it is the BEP encoding and ties it to the
code) applied to what the handler and the lookups emit. After the F17 / F17b fixes (value caps
100 / 40, recorded tokens ≤ 256 bytes) the sizes are closed formulas:
* a reply with up to 8 + 8 nodes, a 20-byte token, `v` peers of one family and a transaction id of
  up to 32 bytes is at most `653 + 8·v` (IPv4 peers) resp. `653 + 21·v` (IPv6 peers) bytes — at most
  1453 resp. 1493 with the caps (`C17_reply_size`);
* the replies the handler builds obey those structural bounds in every state (`C17_reply_structure`);
* get_peers / find_node queries are fixed-size, announce_peer is at most 400 bytes with a recorded
  token (`C17_query_size`, `C17_announce_size`); the two error replies are below 100 bytes plus the
  transaction id (`C17_error_size`).
The numbers 8, 100, 40, 256 in the statements are tied to the source by the constants translator.
-/
namespace Btdht

theorem nd_len1 (n : Nat) (h : n < 10) : (natDigits n).length = 1 := by
  rw [natDigits_eq]; simp [h]
theorem nd_len2 (n : Nat) (h : n < 100) : (natDigits n).length ≤ 2 := by
  rw [natDigits_eq]
  by_cases h1 : n < 10
  · simp [h1]
  · simp only [h1, if_false, List.length_append, List.length_singleton]
    have := nd_len1 (n / 10) (by omega); omega
theorem nd_len3 (n : Nat) (h : n < 1000) : (natDigits n).length ≤ 3 := by
  rw [natDigits_eq]
  by_cases h1 : n < 10
  · simp [h1]
  · simp only [h1, if_false, List.length_append, List.length_singleton]
    have := nd_len2 (n / 10) (by omega); omega

theorem printBytes_len (b : Bytes) : (printBytes b).length = (natDigits b.length).length + 1 + b.length := by
  simp [printBytes]; omega

theorem printList_append (a b : List BVal) :
    (printList (BList.ofList (a ++ b))).length = (printList (BList.ofList a)).length + (printList (BList.ofList b)).length := by
  induction a with
  | nil => simp [BList.ofList, printList]
  | cons x xs ih => simp [BList.ofList, printList, ih]; omega

theorem printList_ite (c : Prop) [Decidable c] (l : List BVal) :
    (printList (BList.ofList (if c then [] else l))).length ≤ (printList (BList.ofList l)).length := by
  split <;> simp [BList.ofList, printList]

/-- printed size of a list of compact peers of one family: 8 bytes each (IPv4) or 21 (IPv6) -/
theorem values_len (values : List Addr) (v6 : Bool) (h : ∀ a ∈ values, a.WF ∧ a.v6 = v6) :
    (printList (BList.ofList (values.map fun a => BVal.bytes (compactAddr a)))).length =
      (if v6 then 21 else 8) * values.length := by
  induction values with
  | nil => simp [BList.ofList, printList]
  | cons a t ih =>
    obtain ⟨hw, hv⟩ := h a (by simp)
    have hl := compactAddr_length a hw
    have iht := ih (fun x hx => h x (by simp [hx]))
    simp only [List.map_cons, BList.ofList, printList, printVal, List.length_append, printBytes_len, iht, hl, hv,
      List.length_cons]
    cases v6
    · simp only [Bool.false_eq_true, if_false]
      have := nd_len1 6 (by decide); omega
    · simp only [if_true]
      have h18 : (natDigits 18).length = 2 := by rw [natDigits_eq]; simp [natDigits_eq, digitChar]
      omega

theorem nodes_len (nodes : List Handle) (v6 : Bool) (h : ∀ x ∈ nodes, x.WF v6) :
    (nodes.flatMap compactNode).length = (if v6 then 38 else 26) * nodes.length := by
  induction nodes with
  | nil => simp
  | cons x t ih =>
    obtain ⟨hid, hv, hp, hip⟩ := h x (by simp)
    have hx : Addr.WF x.addr := ⟨hp, by cases v6 <;> simp_all⟩
    have hl := compactAddr_length x.addr hx
    have iht := ih (fun y hy => h y (by simp [hy]))
    simp only [List.flatMap_cons, List.length_append, compactNode, hid, hl, hv, iht, List.length_cons]
    cases v6 <;> simp <;> omega

/-- **C17 (reply size)**: a response with a 20-byte id, at most 8 IPv4 and 8 IPv6 nodes, an optional
20-byte token, `v` peers all of one family and a transaction id of at most 32 bytes encodes to at
most `653 + 8·v` bytes (IPv4 peers) or `653 + 21·v` bytes (IPv6 peers). -/
theorem C17_reply_size_formula (tid : Bytes) (r : Resp) (v6 : Bool) (htid : tid.length ≤ 32) (hid : r.id.length = 20)
    (h4 : r.nodes4.length ≤ 8 ∧ ∀ h ∈ r.nodes4, h.WF false) (h6 : r.nodes6.length ≤ 8 ∧ ∀ h ∈ r.nodes6, h.WF true)
    (htok : ∀ t, r.token = some t → t.length = 20) (hv : ∀ a ∈ r.values, a.WF ∧ a.v6 = v6) :
    (printVal (msgTree ⟨tid, .resp r⟩)).length ≤ 653 + (if v6 then 21 else 8) * r.values.length := by
  obtain ⟨id, values, nodes4, nodes6, token⟩ := r
  simp only at hid h4 h6 htok hv
  have hn4 := nodes_len nodes4 false h4.2
  have hn6 := nodes_len nodes6 true h6.2
  have hvals := values_len values v6 hv
  simp only [Bool.false_eq_true, if_false, if_true] at hn4 hn6
  -- the five optional segments of the `r` dictionary, each bounded
  have segNodes : (printList (BList.ofList (if nodes4.isEmpty then [] else [BVal.bytes K.nodes, .bytes (nodes4.flatMap compactNode)]))).length ≤ 219 := by
    refine Nat.le_trans (printList_ite _ _) ?_
    simp only [BList.ofList, printList, printVal, printBytes_len, List.length_append, List.length_nil, K.nodes, hn4]
    have := nd_len3 (26 * nodes4.length) (by omega)
    have := nd_len1 5 (by decide)
    simp; omega
  have segNodes6 : (printList (BList.ofList (if nodes6.isEmpty then [] else [BVal.bytes K.nodes6, .bytes (nodes6.flatMap compactNode)]))).length ≤ 316 := by
    refine Nat.le_trans (printList_ite _ _) ?_
    simp only [BList.ofList, printList, printVal, printBytes_len, List.length_append, List.length_nil, K.nodes6, hn6]
    have := nd_len3 (38 * nodes6.length) (by omega)
    have := nd_len1 6 (by decide)
    simp; omega
  have segVals : (printList (BList.ofList (if values.isEmpty then [] else
      [BVal.bytes K.values, .list (BList.ofList (values.map fun a => BVal.bytes (compactAddr a)))]))).length ≤
      10 + (if v6 then 21 else 8) * values.length := by
    refine Nat.le_trans (printList_ite _ _) ?_
    simp only [BList.ofList, printList, printVal, printBytes_len, List.length_append, List.length_nil, K.values, hvals]
    have := nd_len1 6 (by decide)
    simp; omega
  have segId : (printList (BList.ofList [BVal.bytes K.id, .bytes id])).length ≤ 27 := by
    simp only [BList.ofList, printList, printVal, printBytes_len, List.length_append, List.length_nil, K.id, hid]
    have := nd_len2 20 (by decide)
    have := nd_len1 2 (by decide)
    simp; omega
  have hargs : (printList (BList.ofList (respArgs ⟨id, values, nodes4, nodes6, token⟩))).length ≤
      602 + (if v6 then 21 else 8) * values.length := by
    unfold respArgs
    cases token with
    | none =>
      simp only
      rw [printList_append, printList_append, printList_append, printList_append]
      have : (printList (BList.ofList ([] : List BVal))).length = 0 := by simp [BList.ofList, printList]
      omega
    | some t =>
      have ht := htok t rfl
      have segTok : (printList (BList.ofList [BVal.bytes K.token, .bytes t])).length ≤ 30 := by
        simp only [BList.ofList, printList, printVal, printBytes_len, List.length_append, List.length_nil, K.token, ht]
        have := nd_len2 20 (by decide)
        have := nd_len1 5 (by decide)
        simp; omega
      simp only
      rw [printList_append, printList_append, printList_append, printList_append]
      omega
  have htl := nd_len2 tid.length (by omega)
  have h1 := nd_len1 1 (by decide)
  simp only [msgTree, BList.ofList, printVal, printList, printBytes_len, List.length_append, List.length_cons,
    List.length_nil, K.r, K.t, K.y, h1]
  omega

/-- **C17**: with the caps of the F17 fix — at most 100 IPv4 or 40 IPv6 peers per reply — every
get_peers reply is at most 1500 bytes. -/
theorem C17_reply_size (tid : Bytes) (r : Resp) (v6 : Bool) (htid : tid.length ≤ 32) (hid : r.id.length = 20)
    (h4 : r.nodes4.length ≤ 8 ∧ ∀ h ∈ r.nodes4, h.WF false) (h6 : r.nodes6.length ≤ 8 ∧ ∀ h ∈ r.nodes6, h.WF true)
    (htok : ∀ t, r.token = some t → t.length = 20) (hv : ∀ a ∈ r.values, a.WF ∧ a.v6 = v6)
    (hcap : r.values.length ≤ if v6 then 40 else 100) :
    (printVal (msgTree ⟨tid, .resp r⟩)).length ≤ 1500 := by
  have := C17_reply_size_formula tid r v6 htid hid h4 h6 htok hv
  cases v6 <;> simp at this hcap <;> omega

/-- **C17 (what the handler puts into a get_peers reply)**: in every handler state the reply to a
get_peers query carries at most 8 nodes per family, a 20-element token, and at most 100 (IPv4
requester) / 40 (IPv6 requester) peers, all of the requester's family. -/
theorem C17_reply_structure (s : HState) (tid : InTid) (id ih : Bytes) (want : Option Want) (src : Addr) (now : Nat)
    (h : s.readOnly = false) (hip : src.ip.length ≤ 19) :
    ∃ rs, (s.handleRequest tid (.getPeers id ih want) src now).2 = [.send src tid (.resp rs) (!s.failAddrs.contains src)] ∧
      rs.nodes4.length ≤ 8 ∧ rs.nodes6.length ≤ 8 ∧
      rs.values.length ≤ (if src.v6 then 40 else 100) ∧ (∀ a ∈ rs.values, a.v6 = src.v6) ∧
      (∀ t, rs.token = some t → t.length = 20) := by
  have c4 : Constants.MAX_VALUES_V4 = 100 := by decide
  have c6 : Constants.MAX_VALUES_V6 = 40 := by decide
  have c8 : Constants.REPLY_NODES_PER_FAMILY = 8 := by decide
  unfold HState.handleRequest
  simp only [h, Bool.false_eq_true, if_false]
  refine ⟨_, rfl, ?_, ?_, ?_, ?_, ?_⟩
  · simp only [HState.closestFor]
    repeat' split
    all_goals first | (simp only [List.length_map, List.length_take, c8]; omega) | simp
  · simp only [HState.closestFor]
    repeat' split
    all_goals first | (simp only [List.length_map, List.length_take, c8]; omega) | simp
  · simp only [c4, c6]; exact List.length_take_le _ _
  · intro a ha
    have := List.mem_of_mem_take ha
    simpa using (List.mem_filter.mp this).2
  · intro t ht
    simp only [Option.some.injEq] at ht
    subst ht
    simp only [tokEnc, TokenStore.checkout, List.length_cons, List.length_append, List.length_replicate]
    omega

theorem pb_len (b : Bytes) (n : Nat) (h : b.length = n) : (printBytes b).length = (natDigits n).length + 1 + n := by
  rw [printBytes_len, h]

/-- **C17 (queries are small)**: a get_peers / find_node query with an 8-byte transaction id is
at most 120 bytes. -/
theorem C17_query_size (tid id x : Bytes) (ht : tid.length = 8) (hid : id.length = 20) (hx : x.length = 20) :
    (printVal (msgTree ⟨tid, .req (.getPeers id x none)⟩)).length ≤ 120 ∧
    (printVal (msgTree ⟨tid, .req (.findNode id x none)⟩)).length ≤ 120 := by
  have h2 := nd_len2 20 (by decide)
  have h1 : ∀ n, n < 10 → (natDigits n).length = 1 := nd_len1
  constructor
  · simp only [msgTree, reqArgs, reqName, BList.ofList, printVal, printList, List.length_append,
      List.length_cons, List.length_nil, List.append_nil, List.cons_append, List.nil_append,
      pb_len tid 8 ht, pb_len id 20 hid, pb_len x 20 hx, pb_len K.a 1 rfl, pb_len K.q 1 rfl, pb_len K.t 1 rfl,
      pb_len K.y 1 rfl, pb_len K.id 2 rfl, pb_len K.infoHash 9 rfl, pb_len K.getPeers 9 rfl,
      h1 1 (by decide), h1 2 (by decide), h1 8 (by decide), h1 9 (by decide)]
    generalize (natDigits 20).length = d20 at *
    omega
  · simp only [msgTree, reqArgs, reqName, BList.ofList, printVal, printList, List.length_append,
      List.length_cons, List.length_nil, List.append_nil, List.cons_append, List.nil_append,
      pb_len tid 8 ht, pb_len id 20 hid, pb_len x 20 hx, pb_len K.a 1 rfl, pb_len K.q 1 rfl, pb_len K.t 1 rfl,
      pb_len K.y 1 rfl, pb_len K.id 2 rfl, pb_len K.target 6 rfl, pb_len K.findNode 9 rfl,
      h1 1 (by decide), h1 2 (by decide), h1 6 (by decide), h1 8 (by decide), h1 9 (by decide)]
    generalize (natDigits 20).length = d20 at *
    omega

theorem port_len (p : Nat) (hp : p < 65536) : (intText (Int.ofNat p)).length ≤ 5 := by
  simp only [intText]
  rw [natDigits_eq]
  by_cases c : p < 10
  · simp [c]
  · simp only [c, if_false, List.length_append, List.length_singleton]
    have : (natDigits (p / 10)).length ≤ 4 := by
      rw [natDigits_eq]
      by_cases c2 : p / 10 < 10
      · simp [c2]
      · simp only [c2, if_false, List.length_append, List.length_singleton]
        have := nd_len3 (p / 10 / 10) (by omega); omega
    generalize (natDigits 20).length = d20 at *
    omega

/-- **C17 (announce_peer)**: with a recorded token (at most 256 bytes, the F17b fix) an
announce_peer is at most 420 bytes. -/
theorem C17_announce_size (tid id ih tok : Bytes) (port : Option Nat) (ht : tid.length = 8) (hid : id.length = 20)
    (hih : ih.length = 20) (htok : tok.length ≤ 256) (hport : ∀ p, port = some p → p < 65536) :
    (printVal (msgTree ⟨tid, .req (.announce id ih port tok)⟩)).length ≤ 420 := by
  have h2 := nd_len2 20 (by decide)
  have h1 : ∀ n, n < 10 → (natDigits n).length = 1 := nd_len1
  have htl := nd_len3 tok.length (by omega)
  have h12 := nd_len2 12 (by decide)
  have h13 := nd_len2 13 (by decide)
  have hone : (intText 1).length = 1 := by simp only [intText]; exact nd_len1 1 (by decide)
  cases port with
  | none =>
    have hz : (intText (Int.ofNat 0)).length = 1 := by simp only [intText]; exact nd_len1 0 (by decide)
    simp only [msgTree, reqArgs, reqName, BList.ofList, printVal, printList, List.length_append,
      List.length_cons, List.length_nil, List.append_nil, List.cons_append, List.nil_append,
      pb_len tid 8 ht, pb_len id 20 hid, pb_len ih 20 hih, printBytes_len tok, pb_len K.a 1 rfl, pb_len K.q 1 rfl,
      pb_len K.t 1 rfl, pb_len K.y 1 rfl, pb_len K.id 2 rfl, pb_len K.infoHash 9 rfl, pb_len K.port 4 rfl,
      pb_len K.impliedPort 12 rfl, pb_len K.token 5 rfl, pb_len K.announcePeer 13 rfl,
      h1 1 (by decide), h1 2 (by decide), h1 4 (by decide), h1 5 (by decide), h1 8 (by decide), h1 9 (by decide),
      Option.getD_none, hz, hone]
    generalize (natDigits 20).length = d20 at *
    omega
  | some p =>
    have hpl := port_len p (hport p rfl)
    simp only [msgTree, reqArgs, reqName, BList.ofList, printVal, printList, List.length_append,
      List.length_cons, List.length_nil, List.append_nil, List.cons_append, List.nil_append,
      pb_len tid 8 ht, pb_len id 20 hid, pb_len ih 20 hih, printBytes_len tok, pb_len K.a 1 rfl, pb_len K.q 1 rfl,
      pb_len K.t 1 rfl, pb_len K.y 1 rfl, pb_len K.id 2 rfl, pb_len K.infoHash 9 rfl, pb_len K.port 4 rfl,
      pb_len K.token 5 rfl, pb_len K.announcePeer 13 rfl,
      h1 1 (by decide), h1 2 (by decide), h1 4 (by decide), h1 5 (by decide), h1 8 (by decide), h1 9 (by decide),
      Option.getD_some]
    generalize (natDigits 20).length = d20 at *
    omega

/-- **C17 (error replies)**: the two error replies the handler sends are below 70 bytes plus the
echoed transaction id. -/
theorem C17_error_size (tid : Bytes) (ht : tid.length ≤ 32) :
    (printVal (msgTree ⟨tid, .err 203 errInvalidToken⟩)).length ≤ 70 + tid.length ∧
    (printVal (msgTree ⟨tid, .err 202 errStorageFull⟩)).length ≤ 70 + tid.length := by
  have htl := nd_len2 tid.length (by omega)
  have h1 : ∀ n, n < 10 → (natDigits n).length = 1 := nd_len1
  have d25 := nd_len2 25 (by decide)
  have d24 := nd_len2 24 (by decide)
  have d203 : (intText (Int.ofNat 203)).length ≤ 3 := by simp only [intText]; exact nd_len3 203 (by decide)
  have d202 : (intText (Int.ofNat 202)).length ≤ 3 := by simp only [intText]; exact nd_len3 202 (by decide)
  constructor
  · simp only [msgTree, BList.ofList, printVal, printList, List.length_append, List.length_cons,
      List.length_nil, printBytes_len tid, pb_len K.e 1 rfl, pb_len K.t 1 rfl, pb_len K.y 1 rfl,
      pb_len errInvalidToken 25 rfl, h1 1 (by decide)]
    generalize (natDigits 20).length = d20 at *
    omega
  · simp only [msgTree, BList.ofList, printVal, printList, List.length_append, List.length_cons,
      List.length_nil, printBytes_len tid, pb_len K.e 1 rfl, pb_len K.t 1 rfl, pb_len K.y 1 rfl,
      pb_len errStorageFull 24 rfl, h1 1 (by decide)]
    generalize (natDigits 20).length = d20 at *
    omega

end Btdht
