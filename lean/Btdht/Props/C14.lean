import Btdht.Proofs.Bencode
import Btdht.Model.Codec
/-!
# C14 — No datagram can crash, abort or exhaust the node

"For every byte string of up to 1500 bytes, decoding returns a message or an error without
panicking, aborting, overflowing the stack, or requesting memory out of proportion to the input;
and a running node that receives any sequence of such datagrams keeps serving."

What a theorem can carry (DESIGN.md, C14): the decoder *model* is a total function, every byte
string it materialises is no longer than the input, and the pre-scan introduced by the F14 fix
(`bencode::check_limits`, model `checkLimits`) refuses the two input families that crashed the
unfixed code — a declared string length beyond the rest of the datagram (or beyond `usize`), and
nesting deeper than 32 — while accepting every well-formed value within the limit
(`checkLimits_printVal`). That the *Rust* code does not panic, abort or overflow its stack is
runtime behaviour: it is established by the tie only (the `codec` engine decodes every generated
datagram in a supervised child process with a 2 MiB stack, an address-space limit and an
allocation counter). C14 is therefore **partial** in exactly this sense.
-/
namespace Btdht

/-- **C14 (totality)**: on every input the decoder model returns a verdict (it is a terminating
function by construction; this statement records the three possible outcomes). -/
theorem C14_total (input : Bytes) :
    decodeMsg input = .error ∨ decodeMsg input = .unmodelled ∨ ∃ m, decodeMsg input = .ok m := by
  cases decodeMsg input with
  | error => exact Or.inl rfl
  | unmodelled => exact Or.inr (Or.inl rfl)
  | ok m => exact Or.inr (Or.inr ⟨m, rfl⟩)

mutual
/-- the longest byte string inside a value -/
def BVal.maxStr : BVal → Nat
  | .int _ => 0
  | .bytes b => b.length
  | .list l => BList.maxStr l
  | .dict l => BList.maxStr l
def BList.maxStr : BList → Nat
  | .nil => 0
  | .cons v t => max (BVal.maxStr v) (BList.maxStr t)
end

theorem splitAt1_length (c : Nat) : ∀ (l a b : Bytes), splitAt1 c l = some (a, b) → b.length < l.length
  | [], _, _, h => by simp [splitAt1] at h
  | x :: xs, a, b, h => by
    unfold splitAt1 at h
    by_cases hx : x = c
    · simp only [hx, if_true, Option.some.injEq, Prod.mk.injEq] at h
      obtain ⟨_, rfl⟩ := h; simp
    · simp only [hx, if_false] at h
      cases hr : splitAt1 c xs with
      | none => simp [hr] at h
      | some p =>
        obtain ⟨a', b'⟩ := p
        simp only [hr, Option.map_some, Option.some.injEq, Prod.mk.injEq] at h
        obtain ⟨_, rfl⟩ := h
        have := splitAt1_length c xs a' b' hr
        simp; omega

mutual
/-- **C14 (allocation bound)**: every byte string the reader materialises — the only
input-dependent allocation of the decoder — is no longer than the input it was read from. -/
theorem C14_alloc_bound : ∀ (fuel : Nat) (input : Bytes) (v : BVal) (rest : Bytes),
    readVal fuel input = some (v, rest) → BVal.maxStr v ≤ input.length ∧ rest.length ≤ input.length
  | 0, _, _, _, h => by simp [readVal] at h
  | fuel + 1, input, v, rest, h => by
    unfold readVal at h
    cases input with
    | nil => simp at h
    | cons c tl =>
      simp only at h
      by_cases h105 : c = 105
      · simp only [h105, if_true] at h
        cases hs : splitAt1 101 tl with
        | none => simp [hs] at h
        | some p =>
          obtain ⟨t, after⟩ := p
          simp only [hs] at h
          cases hp : parseI64 t with
          | none => simp [hp] at h
          | some i =>
            simp only [hp, Option.map_some, Option.some.injEq, Prod.mk.injEq] at h
            obtain ⟨rfl, rfl⟩ := h
            have := splitAt1_length 101 tl t _ hs
            simp [BVal.maxStr]; omega
      · simp only [h105, if_false] at h
        by_cases hd : isDigit c = true
        · simp only [hd, if_true] at h
          cases hs : splitAt1 58 (c :: tl) with
          | none => simp [hs] at h
          | some p =>
            obtain ⟨t, after⟩ := p
            simp only [hs] at h
            cases hp : parseUsize t with
            | none => simp [hp] at h
            | some n =>
              simp only [hp] at h
              by_cases hn : n ≤ after.length
              · simp only [hn, if_true, Option.some.injEq, Prod.mk.injEq] at h
                obtain ⟨rfl, rfl⟩ := h
                have := splitAt1_length 58 (c :: tl) t _ hs
                simp only [BVal.maxStr, List.length_take, List.length_drop]
                omega
              · simp [hn] at h
        · simp only [hd, if_false, Bool.false_eq_true] at h
          by_cases h108 : c = 108
          · simp only [h108, if_true] at h
            cases hr : readItems fuel tl with
            | none => simp [hr] at h
            | some p =>
              obtain ⟨l, after⟩ := p
              simp only [hr, Option.map_some, Option.some.injEq, Prod.mk.injEq] at h
              obtain ⟨rfl, rfl⟩ := h
              have := C14_alloc_bound_items fuel tl l _ hr
              simp only [BVal.maxStr, List.length_cons]; omega
          · simp only [h108, if_false] at h
            by_cases h100 : c = 100
            · simp only [h100, if_true] at h
              cases hr : readItems fuel tl with
              | none => simp [hr] at h
              | some p =>
                obtain ⟨l, after⟩ := p
                simp only [hr] at h
                by_cases hev : l.toList.length % 2 = 0
                · simp only [hev, if_true, Option.some.injEq, Prod.mk.injEq] at h
                  obtain ⟨rfl, rfl⟩ := h
                  have := C14_alloc_bound_items fuel tl l _ hr
                  simp only [BVal.maxStr, List.length_cons]; omega
                · simp [hev] at h
            · simp [h100] at h
theorem C14_alloc_bound_items : ∀ (fuel : Nat) (input : Bytes) (l : BList) (rest : Bytes),
    readItems fuel input = some (l, rest) → BList.maxStr l ≤ input.length ∧ rest.length ≤ input.length
  | 0, _, _, _, h => by simp [readItems] at h
  | fuel + 1, input, l, rest, h => by
    unfold readItems at h
    cases input with
    | nil => simp at h
    | cons c tl =>
      simp only at h
      by_cases h101 : c = 101
      · simp only [h101, if_true, Option.some.injEq, Prod.mk.injEq] at h
        obtain ⟨rfl, rfl⟩ := h
        simp [BList.maxStr]
      · simp only [h101, if_false] at h
        cases hv : readVal fuel (c :: tl) with
        | none => simp [hv] at h
        | some p =>
          obtain ⟨v, after⟩ := p
          simp only [hv] at h
          cases hr : readItems fuel after with
          | none => simp [hr] at h
          | some q =>
            obtain ⟨l', after'⟩ := q
            simp only [hr, Option.map_some, Option.some.injEq, Prod.mk.injEq] at h
            obtain ⟨rfl, rfl⟩ := h
            have h1 := C14_alloc_bound fuel (c :: tl) v after hv
            have h2 := C14_alloc_bound_items fuel after l' _ hr
            simp only [BList.maxStr]
            omega
end

theorem scanStep_open (c : Nat) (hc : c = 108 ∨ c = 100) (rest : Bytes) (d : Nat) :
    scanStep (c :: rest) d = (if d + 1 > 32 then .reject else .continue rest (d + 1)) := by
  rcases hc with rfl | rfl <;> simp [scanStep, isDigit, maxDepth_eq]

theorem scanStep_bytes (b rest : Bytes) (d : Nat) (hb : b.length < 2 ^ 64) :
    scanStep (printBytes b ++ rest) d = (if d = 0 then .accept else .continue rest d) := by
  obtain ⟨c, t, hc, hdg⟩ := natDigits_head b.length
  obtain ⟨_, _, _, _, n105, _, _⟩ := isDigit_ne c hdg
  have hsplit := splitAt1_mid 58 (natDigits b.length) (b ++ rest) (natDigits_no_colon b.length)
  have hall := (natDigits_spec b.length).1
  simp only [printBytes, List.append_assoc, List.singleton_append]
  rw [hc] at hsplit ⊢
  simp only [List.cons_append, scanStep, n105, if_false, hdg, if_true]
  simp only [List.cons_append] at hsplit
  rw [hsplit]
  simp only
  rw [← hc, parseUsize_natDigits b.length hb]
  simp [hall]

theorem scanStep_long (n : Nat) (tail : Bytes) (d : Nat) (hn : tail.length < n) :
    scanStep (natDigits n ++ 58 :: tail) d = .reject := by
  obtain ⟨c, t, hc, hdg⟩ := natDigits_head n
  obtain ⟨_, _, _, _, n105, _, _⟩ := isDigit_ne c hdg
  have hsplit := splitAt1_mid 58 (natDigits n) tail (natDigits_no_colon n)
  obtain ⟨hall, hne, hval⟩ := natDigits_spec n
  rw [hc] at hsplit ⊢
  simp only [List.cons_append, scanStep, n105, if_false, hdg, if_true]
  simp only [List.cons_append] at hsplit
  rw [hsplit]
  simp only
  rw [← hc]
  simp only [hall, Bool.not_true, Bool.false_eq_true, if_false]
  unfold parseUsize
  have hemp : (natDigits n).isEmpty = false := by
    cases hd : natDigits n with
    | nil => exact absurd hd hne
    | cons _ _ => rfl
  simp only [hemp, hall, Bool.not_true, Bool.or_self, Bool.false_eq_true, if_false, hval]
  by_cases h64 : n < 2 ^ 64
  · simp only [h64, if_true]
    have : ¬ n ≤ tail.length := by omega
    simp [this]
  · simp [h64]

/-- **C14 (the pre-scan refuses over-long strings)**: a dictionary whose first value is a string
declaring more bytes than the datagram has left — the family of `d1:t99999999999:` that aborted
the unfixed decoder — is rejected before the library is called, for every key, every declared
length (also beyond 2^64) and every remainder. -/
theorem C14_rejects_long_string (key : Bytes) (n : Nat) (tail : Bytes) (hk : key.length < 2 ^ 64)
    (hn : tail.length < n) : checkLimits (100 :: (printBytes key ++ (natDigits n ++ 58 :: tail))) = false := by
  unfold checkLimits
  have hlen : ∃ f, (100 :: (printBytes key ++ (natDigits n ++ 58 :: tail))).length + 1 = f + 3 := by
    obtain ⟨c, t, hc, _⟩ := natDigits_head key.length
    refine ⟨(printBytes key ++ (natDigits n ++ 58 :: tail)).length - 1, ?_⟩
    simp only [List.length_cons, List.length_append, printBytes, hc]
    omega
  obtain ⟨f, hf⟩ := hlen
  rw [hf]
  rw [scanLoop_succ, scanStep_open 100 (Or.inr rfl)]
  simp only [show ¬ (0 + 1 > 32) from by omega, if_false]
  rw [scanLoop_succ, scanStep_bytes key _ (0 + 1) hk]
  simp only [show ¬ (0 + 1 = 0) from by omega, if_false]
  rw [scanLoop_succ, scanStep_long n tail (0 + 1) hn]

/-- **C14 (the pre-scan refuses over-deep nesting)**: 33 or more opening `l` — whatever follows —
are rejected (1490 of them overflowed the stack of the unfixed decoder). -/
theorem C14_rejects_deep (k : Nat) (rest : Bytes) (hk : 33 ≤ k) :
    checkLimits (List.replicate k 108 ++ rest) = false := by
  unfold checkLimits
  -- after j opening brackets the scan is at depth j with the remaining brackets ahead
  have step : ∀ (j fuel : Nat) (tl : Bytes), j ≤ 32 → 33 - j ≤ fuel →
      scanLoop fuel (List.replicate (33 - j) 108 ++ tl) j = false := by
    intro j
    induction hrem : 33 - j generalizing j with
    | zero => intro fuel tl hj; omega
    | succ m ih =>
      intro fuel tl hj hf
      cases fuel with
      | zero => omega
      | succ fuel =>
        rw [scanLoop_succ]
        simp only [List.replicate_succ, List.cons_append]
        rw [scanStep_open 108 (Or.inl rfl)]
        by_cases hlast : j = 32
        · subst hlast; simp
        · have hgt : ¬ (j + 1 > 32) := by omega
          simp only [hgt, if_false]
          have hm : 33 - (j + 1) = m := by omega
          exact ih (j + 1) hm fuel tl (by omega) (by omega)
  have hsplit : List.replicate k 108 ++ rest = List.replicate (33 - 0) 108 ++ (List.replicate (k - 33) 108 ++ rest) := by
    rw [← List.append_assoc, List.replicate_append_replicate]
    congr 2
    omega
  rw [hsplit]
  exact step 0 _ _ (by omega) (by simp)

/-- ... while every well-formed value nested at most 32 deep passes the pre-scan, whatever follows
it (`checkLimits_printVal`, restated), so the fix changes no verdict on such inputs. -/
theorem C14_prescan_accepts (v : BVal) (trailing : Bytes) (hok : BVal.Ok v) (hdep : BVal.depth v ≤ 32) :
    checkLimits (printVal v ++ trailing) = true := checkLimits_printVal v trailing hok hdep

/-- Non-vacuity: the two witnesses that crashed the unfixed decoder are instances of the families. -/
example : checkLimits ([100] ++ printBytes [116] ++ natDigits 99999999999 ++ [58]) = false := by
  have := C14_rejects_long_string [116] 99999999999 [] (by decide) (by decide)
  simpa using this

end Btdht
