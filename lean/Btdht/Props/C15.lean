import Btdht.Proofs.GuardTie.Boot
import Btdht.Proofs.Dht
import Btdht.Proofs.BootMain
/-!
# C15 — Bootstrap completes when it can, tells every waiter, never kills the node

"For every builder configuration the node stays alive: with no contacts it reports bootstrapped
immediately and sends nothing; otherwise bootstrapped() does not resolve before at least one contact
has answered, and, when the contacts are plain nodes (no routers), it resolves true for every
concurrent waiter within about 11 minutes of a contact becoming responsive ... Contacts given both
as node and as router, duplicated, silent, or answering with errors never stop the node from
answering API calls."

Model: the node model (`Btdht.Model.Dht`): bootstrap worker, state channel, waiter bookkeeping of
the handler. Events: `bpub p` (worker publishes state `p`), `bhandled` (worker accepted a contact's
response), `bstate` (handler handles a completion), `resolved i` (`bootstrapped()` call `i`
returns), `battempt` / `bround` / ... (worker activity).

Proved for every run (any configuration, inputs, timing):
* `C15_no_contacts`: without contacts the start command publishes Bootstrapped at once, and the
  worker never makes an attempt (no `battempt`, no rounds, nothing routed to it) in any run;
* `C15_not_before_answer`: with contacts, `Bootstrapped` is never published, no completion is
  handled and no `bootstrapped()` call returns before a contact's response was accepted;
* `C15_waiters_resolved_together` / `C15_waiter_immediate` / `C15_nobody_left_waiting`: handling a
  completion resolves every registered waiter in that one step; a call made while bootstrapped
  returns at once; after every step of every run, if the node is bootstrapped nobody is waiting;
* `C15_api_total`: every API command is answered in the step it arrives in, in every state (the
  model has no failure state: the assertion that killed the node — F15 — is unreachable because the
  first-round contact list is duplicate-free, `C15_first_round_distinct`, and, for every run,
  `C15_exchanges_distinct`: the exchanges registered with the socket always have pairwise distinct
  (address, transaction id) keys, all with the bootstrap action prefix — the asserted condition).
* the timed clause (end of this file): `C15_completes` / `C15_completes_trace`: from every state a node
  without routers reaches in a punctual run, once a node contact `c` is responsive (from `t0` on) the
  worker publishes `Bootstrapped`, the handler observes it and resolves every registered waiter in that
  transition, at an instant `≤ t0 + bootBound n` (`n` distinct node contacts), `bootBound n =
  512 s + 2·(2.5 s + 0.5 s·(n − 9)) + 80 s ≤ 11 min` for `n ≤ 20` (`C15_bound_value`, `C15_bound_11_minutes`);
  `C15_progress_invariant`: the invariant behind it (absolute bounds on every deadline the worker waits
  for) holds in every reachable state, whatever the network did before.
  Helper files: `Proofs/BootTime` (induction over a step for clock-related invariants, punctuality),
  `BootFrame`, `BootLive` / `BootOb` / `BootRun` (the progress invariant), `BootSafe` (reachable states),
  `BootWait` (waiters and the shape of a completion in the trace), `BootTrace` (responsiveness as a
  property of inputs and trace), `BootDec` / `BootDecT` (decidability, for the examples), `BootMain`.
-/
namespace Btdht

def BConfig.hasContacts (c : BConfig) : Bool := c.routersGiven || !c.nodes.isEmpty

-- ------------------------------------------------------------------ no contacts

/-- events that show the worker doing anything -/
def DEv.isAttempt : DEv → Bool
  | .battempt _ _ | .binitialDone _ | .bround _ _ | .bsweep _ _ | .bcheck | .bhandled _ | .bignored _ | .routed _ => true
  | _ => false

def c15aScan (_g : Unit) (_t : Nat) (e : DEv) : Option Unit := if e.isAttempt then none else some ()

structure IdleInv (s : DState) (_g : Unit) : Prop where
  cfg : s.cfg.hasContacts = false
  phase : s.phase = .awaitStart ∨ s.phase = .forever
  stale : s.stale = []
  ready : s.ready = []

theorem scanA (t : Nat) (evs : List DEv) (h : ∀ e ∈ evs, e.isAttempt = false) : scanL c15aScan () t evs = some () := by
  induction evs with
  | nil => rfl
  | cons e rest ih =>
    simp only [scanL, c15aScan, h e (by simp), Bool.false_eq_true, if_false]
    exact ih (fun x hx => h x (by simp [hx]))

theorem liftH_noAttempt (effs : List HEffect) : ∀ e ∈ liftH effs, e.isAttempt = false := by
  intro e he
  simp only [liftH, List.mem_map] at he
  obtain ⟨x, _, rfl⟩ := he
  cases x <;> rfl

theorem IdleInv.hframe {s s' : DState} (h : IdleInv s ()) (hf : HFrame s s') : IdleInv s' () :=
  ⟨hf.cfg ▸ h.cfg, by rw [hf.phase]; exact h.phase, by rw [hf.stale]; exact h.stale, by rw [hf.ready]; exact h.ready⟩

theorem beginAttempt_noContacts (s : DState) (now : Nat) (h : s.cfg.hasContacts = false) :
    s.beginAttempt now = ({ ({ s with stale := [] } : DState).setPub .bootstrapped |>.1 with phase := .forever },
      (({ s with stale := [] } : DState).setPub .bootstrapped).2) := by
  unfold DState.beginAttempt
  simp only [BConfig.hasContacts, Bool.or_eq_false_iff, Bool.not_eq_false'] at h
  simp [h.1, h.2]

theorem setPub_events (s : DState) (p : BPub) : ∀ e ∈ (s.setPub p).2, e = .bpub p := by
  unfold DState.setPub
  split <;> simp

theorem refreshRound_noAttempt (s : DState) (now : Nat) : ∀ e ∈ (s.refreshRound now).2, e.isAttempt = false := by
  unfold DState.refreshRound
  intro e he
  simp only [List.cons_append, List.nil_append, List.mem_cons] at he
  rcases he with rfl | he
  · rfl
  · exact liftH_noAttempt _ e he

theorem startLookup_noAttempt (s : DState) (ih : Bytes) (ann : Bool) (now : Nat) :
    ∀ e ∈ (s.startLookup ih ann now).2, e.isAttempt = false := by
  unfold DState.startLookup
  split
  · simp
  · exact liftH_noAttempt _

theorem startQueued_noAttempt (s : DState) (now : Nat) : ∀ e ∈ (s.startQueued now).2, e.isAttempt = false := by
  unfold DState.startQueued
  have hf := foldl_pred (fun (acc : DState × List DEv) => ∀ e ∈ acc.2, e.isAttempt = false)
    (fun (acc : DState × List DEv) q => ((acc.1.startLookup q.1 q.2 now).1, acc.2 ++ (acc.1.startLookup q.1 q.2 now).2))
    (fun b a hb e he => by
      rcases List.mem_append.mp he with he | he
      · exact hb e he
      · exact startLookup_noAttempt _ _ _ _ e he)
    s.queued ({ s with queued := [] }, []) (by simp)
  exact hf

theorem bootstrapSuccess_noAttempt (s : DState) (now : Nat) : ∀ e ∈ (s.bootstrapSuccess now).2, e.isAttempt = false := by
  unfold DState.bootstrapSuccess DState.firstRefresh
  simp only
  intro e he
  rcases List.mem_append.mp he with he | he
  · simp only [List.cons_append, List.nil_append, List.mem_cons, List.mem_map] at he
    rcases he with rfl | ⟨i, _, rfl⟩ <;> rfl
  · rcases List.mem_append.mp he with he | he
    · split at he
      · simp at he
      · exact refreshRound_noAttempt _ now e he
    · exact startQueued_noAttempt _ now e he

theorem c15a_obligations : Obligations IdleInv c15aScan where
  clock := fun s g d h => ⟨h.cfg, h.phase, h.stale, h.ready⟩
  oracle := fun s g fr h => ⟨h.cfg, h.phase, h.stale, h.ready⟩
  worker := fun s g now r h hb => by
    unfold DState.bStep at hb
    rw [h.ready] at hb
    simp only at hb
    unfold DState.bStepMain at hb
    rcases h.phase with hp | hp <;> simp [hp] at hb
  timer := fun s g now r h hf => by
    have hfr := fireOne_hframe s now r hf
    refine ⟨(), scanA _ _ ?_, h.hframe hfr.1⟩
    unfold DState.fireOne at hf
    cases hp : s.h.timer.pop with
    | none => simp [hp] at hf
    | some pe =>
      obtain ⟨timer, e⟩ := pe
      simp only [hp] at hf
      split at hf
      · split at hf
        · simp only [Option.some.injEq] at hf; subst hf
          intro x hx
          simp only [List.cons_append, List.nil_append, List.mem_cons] at hx
          rcases hx with rfl | hx
          · rfl
          · exact refreshRound_noAttempt _ now x hx
        · simp only [Option.some.injEq] at hf; subst hf
          intro x hx
          simp only [List.cons_append, List.nil_append, List.mem_cons] at hx
          rcases hx with rfl | hx
          · rfl
          · exact liftH_noAttempt _ x hx
      · simp at hf
  observe := fun s g now h => by
    unfold DState.hObserve
    split
    · exact ok_nil s () now h
    · simp only
      split
      · have hb := bootstrapSuccess_hframe { s with seenVersion := s.pubVersion } now
        refine ⟨(), scanA _ _ (bootstrapSuccess_noAttempt _ now), ?_⟩
        exact (IdleInv.hframe (s := { s with seenVersion := s.pubVersion }) ⟨h.cfg, h.phase, h.stale, h.ready⟩ hb.1)
      · exact ok_nil _ () now ⟨h.cfg, h.phase, h.stale, h.ready⟩
  command := fun s g now c h => by
    cases c with
    | startBootstrap =>
      simp only [DState.command]
      split
      · rw [beginAttempt_noContacts s now h.cfg]
        refine ⟨(), scanA _ _ ?_, ?_⟩
        · intro e he
          simp only [List.cons_append, List.nil_append, List.mem_cons] at he
          rcases he with rfl | he
          · rfl
          · rw [setPub_events _ _ e he]; rfl
        · have hsp := setPub_frame ({ s with stale := [] } : DState) .bootstrapped
          exact ⟨by rw [hsp.1.cfg]; exact h.cfg, Or.inr rfl, by
            have : ((({ s with stale := [] } : DState).setPub .bootstrapped).1).stale = [] := by
              unfold DState.setPub; split <;> rfl
            exact this, by
            have : ((({ s with stale := [] } : DState).setPub .bootstrapped).1).ready = s.ready := by
              unfold DState.setPub; split <;> rfl
            exact this.trans h.ready⟩
      · exact ⟨(), rfl, h⟩
    | checkBootstrap =>
      simp only [DState.command]
      split
      · exact ⟨(), rfl, ⟨h.cfg, h.phase, h.stale, h.ready⟩⟩
      · exact ⟨(), rfl, ⟨h.cfg, h.phase, h.stale, h.ready⟩⟩
    | startLookup ih ann =>
      simp only [DState.command]
      have hf := startLookup_hframe s ih ann now
      refine ⟨(), scanA _ _ ?_, h.hframe hf.1⟩
      intro e he
      simp only [List.cons_append, List.nil_append, List.mem_cons] at he
      rcases he with rfl | he
      · rfl
      · exact startLookup_noAttempt _ _ _ _ e he
    | getLocalAddr => exact ⟨(), rfl, h⟩
    | getState => exact ⟨(), rfl, h⟩
    | loadContacts => exact ⟨(), rfl, h⟩
  datagram := fun s g now tid body src h => by
    unfold DState.datagram
    simp only
    -- nothing is registered with the socket: the datagram goes to the handler
    have hnone : s.findPending tid src = none := by
      unfold DState.findPending
      cases tid with
      | sym t => rcases h.phase with hp | hp <;> simp [hp, h.stale]
      | raw b => rfl
      | fresh a => rfl
    split
    · rename_i heq
      split at heq
      · cases heq
      · rw [hnone] at heq; cases heq
    · refine ⟨(), scanA _ _ ?_, ⟨h.cfg, h.phase, h.stale, h.ready⟩⟩
      intro e he
      simp only [List.cons_append, List.nil_append, List.mem_cons] at he
      rcases he with rfl | he
      · rfl
      · exact liftH_noAttempt _ e he
  garbage := fun s g now src h => ⟨(), rfl, h⟩

/-- **C15 (no contacts)**: a node started without routers and nodes reports bootstrapped in the
very step that starts it ... -/
theorem C15_no_contacts_immediate (selfId : Bytes) (addr : Addr) (ro : Bool) (port : Option Nat) (fa : List Addr)
    (cfg : BConfig) (now : Nat) (h : cfg.hasContacts = false) :
    ((DState.new selfId addr ro port fa cfg now).command .startBootstrap now).2 = [.cmd .startBootstrap, .bpub .bootstrapped] ∧
    ((DState.new selfId addr ro port fa cfg now).command .startBootstrap now).1.pub = .bootstrapped := by
  simp only [DState.command, DState.new]
  rw [beginAttempt_noContacts _ now h]
  simp [DState.setPub]

/-- ... **and never attempts anything**: in no run does its bootstrap worker start an attempt, send
a round, get a datagram routed to it or run a periodic check. -/
theorem C15_no_contacts (selfId : Bytes) (addr : Addr) (ro : Bool) (port : Option Nat) (fa : List Addr)
    (cfg : BConfig) (t0 : Nat) (ins : List DInput) (h : cfg.hasContacts = false) :
    ∀ e ∈ ((DState.new selfId addr ro port fa cfg t0).run ins).2, e.2.isAttempt = false := by
  obtain ⟨g, hs, _⟩ := run_ok c15a_obligations (DState.new selfId addr ro port fa cfg t0) () ins ⟨h, Or.inl rfl, rfl, rfl⟩
  generalize ((DState.new selfId addr ro port fa cfg t0).run ins).2 = evs at hs
  induction evs with
  | nil => simp
  | cons e rest ih =>
    simp only [scanT, c15aScan] at hs
    intro x hx
    cases hE : e.2.isAttempt with
    | true => simp [hE] at hs
    | false =>
      simp only [hE, Bool.false_eq_true, if_false] at hs
      rcases List.mem_cons.mp hx with rfl | hx
      · exact hE
      · exact ih hs x hx

-- ------------------------------------------------------------------ not before an answer

/-- monitor: has the worker accepted a contact's response yet? -/
def c15bScan (a : Bool) (_t : Nat) : DEv → Option Bool
  | .bhandled _ => some true
  | .bpub .bootstrapped => if a then some a else none
  | .bstate => if a then some a else none
  | .resolved _ => if a then some a else none
  | _ => some a

/-- the worker has not got beyond a first round without responses -/
def Early (s : DState) : Prop :=
  s.pub ≠ .bootstrapped ∧
  match s.phase with
  | .awaitStart => True
  | .sleeping _ => True
  | .initial _ _ _ _ _ _ responses _ => responses = 0
  | _ => False

structure AInv (s : DState) (a : Bool) : Prop where
  cfg : s.cfg.hasContacts = true
  early : a = false → Early s

theorem c15bScan_true (t : Nat) (e : DEv) : c15bScan true t e = some true := by
  cases e with
  | bpub p => cases p <;> rfl
  | _ => rfl

theorem scanB_true (t : Nat) (evs : List DEv) : scanL c15bScan true t evs = some true := by
  induction evs with
  | nil => rfl
  | cons e rest ih =>
    simp only [scanL, c15bScan_true]
    exact ih

def DEv.isGate : DEv → Bool
  | .bhandled _ | .bpub .bootstrapped | .bstate | .resolved _ => true
  | _ => false

theorem c15bScan_plain (a : Bool) (t : Nat) (e : DEv) (h : e.isGate = false) : c15bScan a t e = some a := by
  cases e with
  | bhandled s => simp [DEv.isGate] at h
  | bstate => simp [DEv.isGate] at h
  | resolved i => simp [DEv.isGate] at h
  | bpub p => cases p <;> first | rfl | (simp [DEv.isGate] at h)
  | _ => rfl

/-- a gate event the monitor lets pass before any answer can only be the answer itself -/
theorem c15bScan_gate (t : Nat) (e : DEv) (hg : e.isGate = true) (g : Bool) (hs : c15bScan false t e = some g) :
    ∃ src, e = .bhandled src := by
  cases e with
  | bhandled s => exact ⟨s, rfl⟩
  | bstate => simp [c15bScan] at hs
  | resolved i => simp [c15bScan] at hs
  | bpub p =>
    cases p with
    | bootstrapped => simp [c15bScan] at hs
    | _ => simp [DEv.isGate] at hg
  | _ => simp [DEv.isGate] at hg

theorem scanB_plain (a : Bool) (t : Nat) (evs : List DEv) (h : ∀ e ∈ evs, e.isGate = false) : scanL c15bScan a t evs = some a := by
  induction evs with
  | nil => rfl
  | cons e rest ih =>
    simp only [scanL, c15bScan_plain a t e (h e (by simp))]
    exact ih (fun x hx => h x (by simp [hx]))

theorem liftH_noGate (effs : List HEffect) : ∀ e ∈ liftH effs, e.isGate = false := by
  intro e he
  simp only [liftH, List.mem_map] at he
  obtain ⟨x, _, rfl⟩ := he
  cases x <;> rfl

theorem Early.hframe {s s' : DState} (h : Early s) (hf : HFrame s s') : Early s' := by
  unfold Early at *
  rw [hf.pub, hf.phase]; exact h

theorem AInv.hframe {s s' : DState} {a : Bool} (h : AInv s a) (hf : HFrame s s') : AInv s' a :=
  ⟨hf.cfg ▸ h.cfg, fun ha => (h.early ha).hframe hf⟩

/-- either an answer was accepted already (then anything may follow), or the transition keeps the
worker early and emits no gate event -/
theorem okB_of (s s' : DState) (a : Bool) (now : Nat) (evs : List DEv) (hs : AInv s a) (hcfg : s'.cfg = s.cfg)
    (h : a = false → Early s' ∧ ∀ e ∈ evs, e.isGate = false) : Ok AInv c15bScan a now (s', evs) := by
  have hc : s'.cfg.hasContacts = true := hcfg ▸ hs.cfg
  cases a with
  | true => exact ⟨true, scanB_true now evs, ⟨hc, fun hc => by cases hc⟩⟩
  | false =>
    obtain ⟨he, hev⟩ := h rfl
    exact ⟨false, scanB_plain false now evs hev, ⟨hc, fun _ => he⟩⟩

/-- the worker's `handle_message` while no answer was accepted yet: anything but a response keeps
it early and is no gate event -/
theorem workerMessage_nonresp (s : DState) (p : Pending) (body : Body) (src : Addr) (now : Nat)
    (hb : ∀ r, body ≠ .resp r) (he : Early s) :
    Early (s.workerMessage p body src now).1 ∧ ∀ e ∈ (s.workerMessage p body src now).2, e.isGate = false := by
  obtain ⟨hpub, hph⟩ := he
  unfold DState.workerMessage
  cases hphase : s.phase with
  | awaitStart => simp only; exact ⟨⟨hpub, by simp [hphase]⟩, by simp⟩
  | sleeping w => simp only; exact ⟨⟨hpub, by simp [hphase]⟩, by simp⟩
  | forever => rw [hphase] at hph; exact absurd hph (by simp)
  | bucketStart k => rw [hphase] at hph; exact absurd hph (by simp)
  | buckets k a => rw [hphase] at hph; exact absurd hph (by simp)
  | bootstrapped c => rw [hphase] at hph; exact absurd hph (by simp)
  | initial tid rl nl sl count active responses stopAt =>
    rw [hphase] at hph
    simp only at hph
    subst hph
    simp only
    split
    · cases body with
      | resp r => exact absurd rfl (hb r)
      | req q => simp only; exact ⟨⟨hpub, by first | rfl | trivial⟩, by simp [DEv.isGate]⟩
      | err c m => simp only; exact ⟨⟨hpub, by first | rfl | trivial⟩, by simp [DEv.isGate]⟩
    · exact ⟨⟨hpub, by simp [hphase]⟩, by simp⟩

/-- ... and a response is either for an exchange nobody awaits any more (nothing happens) or is
accepted: the first event is `bhandled` -/
theorem workerMessage_resp (s : DState) (p : Pending) (r : Resp) (src : Addr) (now : Nat) (he : Early s) :
    ((s.workerMessage p (.resp r) src now).2 = [] ∧ Early (s.workerMessage p (.resp r) src now).1) ∨
    ∃ rest, (s.workerMessage p (.resp r) src now).2 = DEv.bhandled src :: rest := by
  obtain ⟨hpub, hph⟩ := he
  unfold DState.workerMessage
  cases hphase : s.phase with
  | awaitStart => simp only; exact Or.inl ⟨by first | rfl | trivial, ⟨hpub, by simp [hphase]⟩⟩
  | sleeping w => simp only; exact Or.inl ⟨by first | rfl | trivial, ⟨hpub, by simp [hphase]⟩⟩
  | forever => rw [hphase] at hph; exact absurd hph (by simp)
  | bucketStart k => rw [hphase] at hph; exact absurd hph (by simp)
  | buckets k a => rw [hphase] at hph; exact absurd hph (by simp)
  | bootstrapped c => rw [hphase] at hph; exact absurd hph (by simp)
  | initial tid rl nl sl count active responses stopAt =>
    rw [hphase] at hph
    simp only at hph
    subst hph
    simp only
    split
    · split
      · exact Or.inr ⟨_, rfl⟩
      · exact Or.inr ⟨_, rfl⟩
    · exact Or.inl ⟨by first | rfl | trivial, ⟨hpub, by simp [hphase]⟩⟩

theorem setPub_early (s : DState) (p : BPub) (hp : p ≠ .bootstrapped) :
    (s.setPub p).1.pub ≠ .bootstrapped ∨ ((s.setPub p).1.pub = s.pub) := by
  unfold DState.setPub
  split
  · exact Or.inr rfl
  · exact Or.inl hp

theorem setPub_phase (s : DState) (p : BPub) : (s.setPub p).1.phase = s.phase ∧ (s.setPub p).1.cfg = s.cfg ∧
    (∀ e ∈ (s.setPub p).2, e = .bpub p) ∧ ((s.setPub p).1.pub = p) := by
  unfold DState.setPub
  split
  · rename_i h; exact ⟨rfl, rfl, by simp, h⟩
  · exact ⟨rfl, rfl, by simp, rfl⟩

theorem beginAttempt_early (s : DState) (now : Nat) (hc : s.cfg.hasContacts = true) :
    Early (s.beginAttempt now).1 ∧ (∀ e ∈ (s.beginAttempt now).2, e.isGate = false) ∧ (s.beginAttempt now).1.cfg = s.cfg := by
  unfold DState.beginAttempt
  simp only
  have hne : (!s.cfg.routersGiven && s.cfg.nodes.isEmpty) = false := by
    simp only [BConfig.hasContacts] at hc
    cases hr : s.cfg.routersGiven <;> cases hn : s.cfg.nodes.isEmpty <;> simp_all
  rw [if_neg (by simp [hne])]
  split
  · have hs := setPub_phase { s with stale := [], h := { s.h with table := { s.h.table with routers := (s.cfg.contacts).1 } } } .idle
    refine ⟨⟨by simp only; rw [hs.2.2.2]; simp, trivial⟩, ?_, hs.2.1⟩
    intro e he
    simp only [List.cons_append, List.nil_append, List.mem_cons] at he
    rcases he with rfl | he
    · rfl
    · rw [hs.2.2.1 e he]; rfl
  · have hs := setPub_phase { s with stale := [], h := { s.h with table := { s.h.table with routers := (s.cfg.contacts).1 } } } .initialContact
    refine ⟨⟨by simp only; rw [hs.2.2.2]; simp, rfl⟩, ?_, hs.2.1⟩
    intro e he
    simp only [List.cons_append, List.nil_append, List.mem_cons] at he
    rcases he with rfl | he
    · rfl
    · rw [hs.2.2.1 e he]; rfl

theorem finishInitial_zero (s : DState) (remaining : List Pending) (now : Nat) (hpub : s.pub ≠ .bootstrapped) :
    Early (s.finishInitial 0 remaining now).1 ∧ (∀ e ∈ (s.finishInitial 0 remaining now).2, e.isGate = false) ∧
    (s.finishInitial 0 remaining now).1.cfg = s.cfg := by
  unfold DState.finishInitial
  simp only [if_true]
  have hs := setPub_phase s .idle
  refine ⟨⟨by simp only; rw [hs.2.2.2]; simp, trivial⟩, ?_, hs.2.1⟩
  intro e he
  simp only [List.cons_append, List.nil_append, List.mem_cons] at he
  rcases he with rfl | he
  · rfl
  · rw [hs.2.2.1 e he]; rfl

theorem c15b_obligations : Obligations AInv c15bScan where
  clock := fun s g d h => ⟨h.cfg, fun ha => h.early ha⟩
  oracle := fun s g fr h => ⟨h.cfg, fun ha => h.early ha⟩
  worker := fun s a now r h hb => by
    unfold DState.bStep at hb
    split at hb
    · -- an answer that was routed to one of the worker's exchanges is handled now: a response counts
      rename_i p body src rest _
      simp only [Option.some.injEq] at hb; subst hb
      have hw := workerMessage_frame { s with ready := rest } p body src now
      have hcfg : (({ s with ready := rest } : DState).workerMessage p body src now).1.cfg.hasContacts = true := by
        rw [hw.1.cfg]; exact h.cfg
      cases a with
      | true => exact ⟨true, scanB_true _ _, ⟨hcfg, fun hc => by cases hc⟩⟩
      | false =>
        have he : Early { s with ready := rest } := h.early rfl
        by_cases hresp : ∃ r, body = .resp r
        · obtain ⟨r, rfl⟩ := hresp
          rcases workerMessage_resp { s with ready := rest } p r src now he with ⟨hnil, hearly⟩ | ⟨rest', hcons⟩
          · exact ⟨false, by rw [hnil]; rfl, ⟨hcfg, fun _ => hearly⟩⟩
          · refine ⟨true, ?_, ⟨hcfg, fun hc => by cases hc⟩⟩
            rw [hcons]
            simp only [scanL, c15bScan]
            exact scanB_true now rest'
        · have hn := workerMessage_nonresp { s with ready := rest } p body src now (fun r hr => hresp ⟨r, hr⟩) he
          exact ⟨false, scanB_plain _ _ _ hn.2, ⟨hcfg, fun _ => hn.1⟩⟩
    · -- one of the worker's own transitions
      obtain ⟨hf, _⟩ := bStepMain_frame s now r hb
      obtain ⟨s', evs⟩ := r
      refine okB_of s s' a now evs h hf.cfg (fun ha => ?_)
      have he := h.early ha
      obtain ⟨hpub, hph⟩ := he
      unfold DState.bStepMain at hb
      cases hphase : s.phase with
      | awaitStart => simp [hphase] at hb
      | forever => simp [hphase] at hb
      | bucketStart k => rw [hphase] at hph; exact absurd hph (by simp)
      | buckets k a => rw [hphase] at hph; exact absurd hph (by simp)
      | bootstrapped c => rw [hphase] at hph; exact absurd hph (by simp)
      | sleeping w =>
        simp only [hphase] at hb
        split at hb
        · simp only [Option.some.injEq] at hb
          have := beginAttempt_early s now h.cfg
          rw [hb] at this
          exact ⟨this.1, this.2.1⟩
        · simp at hb
      | initial tid rl nl sl count active responses stopAt =>
        rw [hphase] at hph
        simp only at hph
        subst hph
        simp only [hphase] at hb
        split at hb
        · simp only [Option.some.injEq, Prod.mk.injEq] at hb
          obtain ⟨rfl, rfl⟩ := hb
          exact ⟨⟨hpub, rfl⟩, by simp⟩
        · have hsend : ∀ r', s.firstRoundSend tid rl nl count active 0 stopAt now = some r' →
              Early r'.1 ∧ ∀ e ∈ r'.2, e.isGate = false := by
            intro r' hr
            unfold DState.firstRoundSend at hr
            split at hr
            · simp at hr
            · simp only [Option.some.injEq] at hr; subst hr
              exact ⟨⟨hpub, rfl⟩, by simp [DEv.isGate]⟩
          split at hb
          · split at hb
            · simp only [Option.some.injEq] at hb
              have := finishInitial_zero s [] now hpub
              rw [hb] at this
              exact ⟨this.1, this.2.1⟩
            · simp at hb
          · split at hb
            · split at hb
              · exact hsend _ hb
              · simp at hb
            · split at hb
              · simp only [Option.some.injEq, Prod.mk.injEq] at hb
                obtain ⟨rfl, rfl⟩ := hb
                exact ⟨⟨hpub, rfl⟩, by simp⟩
              · exact hsend _ hb
  timer := fun s a now r h hf => by
    have hfr := fireOne_hframe s now r hf
    obtain ⟨s', evs⟩ := r
    refine okB_of s s' a now evs h hfr.1.cfg (fun ha => ⟨(h.early ha).hframe hfr.1, ?_⟩)
    unfold DState.fireOne at hf
    cases hp : s.h.timer.pop with
    | none => simp [hp] at hf
    | some pe =>
      obtain ⟨timer, e⟩ := pe
      simp only [hp] at hf
      split at hf
      · split at hf
        · simp only [Option.some.injEq, Prod.mk.injEq] at hf
          obtain ⟨_, rfl⟩ := hf
          intro x hx
          simp only [List.cons_append, List.nil_append, List.mem_cons, DState.refreshRound] at hx
          rcases hx with rfl | rfl | hx
          · rfl
          · rfl
          · exact liftH_noGate _ x hx
        · simp only [Option.some.injEq, Prod.mk.injEq] at hf
          obtain ⟨_, rfl⟩ := hf
          intro x hx
          simp only [List.cons_append, List.nil_append, List.mem_cons] at hx
          rcases hx with rfl | hx
          · rfl
          · exact liftH_noGate _ x hx
      · simp at hf
  observe := fun s a now h => by
    unfold DState.hObserve
    split
    · exact ok_nil s a now h
    · simp only
      split
      · rename_i hpub
        have hb := bootstrapSuccess_hframe { s with seenVersion := s.pubVersion } now
        refine okB_of s _ a now _ h hb.1.cfg (fun ha => ?_)
        exact absurd hpub (h.early ha).1
      · exact ok_nil _ a now ⟨h.cfg, fun ha => h.early ha⟩
  command := fun s a now c h => by
    cases c with
    | startBootstrap =>
      simp only [DState.command]
      split
      · have hb := beginAttempt_early s now h.cfg
        refine okB_of s _ a now _ h hb.2.2 (fun _ => ⟨hb.1, ?_⟩)
        intro e he
        simp only [List.cons_append, List.nil_append, List.mem_cons] at he
        rcases he with rfl | he
        · rfl
        · exact hb.2.1 e he
      · exact okB_of s s a now _ h rfl (fun ha => ⟨h.early ha, by simp [DEv.isGate]⟩)
    | checkBootstrap =>
      simp only [DState.command]
      split
      · rename_i hboot
        refine okB_of s _ a now _ h rfl (fun ha => ?_)
        have := (h.early ha).1
        simp [DState.isBootstrapped] at hboot
        exact absurd hboot this
      · exact okB_of s _ a now _ h rfl (fun ha => ⟨h.early ha, by simp [DEv.isGate]⟩)
    | startLookup ih ann =>
      simp only [DState.command]
      have hf := startLookup_hframe s ih ann now
      refine okB_of s _ a now _ h hf.1.cfg (fun ha => ⟨(h.early ha).hframe hf.1, ?_⟩)
      intro e he
      simp only [List.cons_append, List.nil_append, List.mem_cons] at he
      rcases he with rfl | he
      · rfl
      · unfold DState.startLookup at he
        split at he
        · simp at he
        · exact liftH_noGate _ e he
    | getLocalAddr => exact okB_of s s a now _ h rfl (fun ha => ⟨h.early ha, by simp [DEv.isGate]⟩)
    | getState => exact okB_of s s a now _ h rfl (fun ha => ⟨h.early ha, by simp [DEv.isGate]⟩)
    | loadContacts => exact okB_of s s a now _ h rfl (fun ha => ⟨h.early ha, by simp [DEv.isGate]⟩)
  datagram := fun s a now tid body src h => by
    unfold DState.datagram
    simp only
    split
    · -- routed to the worker: it waits there until the worker is polled
      exact okB_of s _ a now _ h rfl (fun ha => ⟨h.early ha, by simp [DEv.isGate]⟩)
    · refine okB_of s _ a now _ h rfl (fun ha => ⟨(h.early ha).hframe ⟨rfl, rfl, rfl, rfl, rfl, rfl, rfl, rfl, rfl⟩, ?_⟩)
      intro e he
      simp only [List.cons_append, List.nil_append, List.mem_cons] at he
      rcases he with rfl | he
      · rfl
      · exact liftH_noGate _ e he
  garbage := fun s a now src h => okB_of s s a now _ h rfl (fun ha => ⟨h.early ha, by simp [DEv.isGate]⟩)

/-- no `Bootstrapped`, no handled completion and no returning `bootstrapped()` call before a
response of a contact was accepted -/
def notBeforeAnswer : List (Nat × DEv) → Prop
  | [] => True
  | e :: rest => (∃ src, e.2 = .bhandled src) ∨ (e.2.isGate = false ∧ notBeforeAnswer rest)

/-- **C15 (not before an answer)**: for every configuration with at least one router or node and
every run: the worker does not publish `Bootstrapped`, the handler handles no completion and no
`bootstrapped()` call returns before the bootstrap worker has accepted a response of a contact. -/
theorem C15_not_before_answer (selfId : Bytes) (addr : Addr) (ro : Bool) (port : Option Nat) (fa : List Addr)
    (cfg : BConfig) (t0 : Nat) (ins : List DInput) (h : cfg.hasContacts = true) :
    notBeforeAnswer ((DState.new selfId addr ro port fa cfg t0).run ins).2 := by
  obtain ⟨g, hs, _⟩ := run_ok c15b_obligations (DState.new selfId addr ro port fa cfg t0) false ins
    ⟨h, fun _ => ⟨by simp [DState.new], trivial⟩⟩
  generalize ((DState.new selfId addr ro port fa cfg t0).run ins).2 = evs at hs
  induction evs with
  | nil => trivial
  | cons e rest ih =>
    obtain ⟨t, ev⟩ := e
    simp only [scanT] at hs
    cases hg : ev.isGate with
    | false =>
      right
      rw [c15bScan_plain false t ev hg] at hs
      exact ⟨hg, ih hs⟩
    | true =>
      left
      cases hsc : c15bScan false t ev with
      | none => rw [hsc] at hs; cases hs
      | some g' => exact c15bScan_gate t ev hg g' hsc

-- ------------------------------------------------------------------ waiters

structure WInv (s : DState) (_g : Unit) : Prop where
  le : s.seenVersion ≤ s.pubVersion
  none : s.seenVersion = s.pubVersion → s.pub = .bootstrapped → s.waiters = []

def trivScan (_g : Unit) (_t : Nat) (_e : DEv) : Option Unit := some ()

theorem trivScan_ok (t : Nat) (evs : List DEv) : scanL trivScan () t evs = some () := by
  induction evs with
  | nil => rfl
  | cons e rest ih => simp only [scanL, trivScan]; exact ih

theorem WInv.wframe {s s' : DState} (h : WInv s ()) (hf : WFrame s s') : WInv s' () where
  le := by rw [hf.seen]; exact Nat.le_trans h.le hf.version
  none := fun he hp => by
    rw [hf.seen] at he
    have hv : s'.pubVersion = s.pubVersion := Nat.le_antisymm (he ▸ h.le) hf.version
    rw [hf.waiters]
    exact h.none (he.trans hv) (hf.pubSame hv ▸ hp)

theorem WInv.hframe {s s' : DState} (h : WInv s ()) (hf : HFrame s s') (hw : s'.waiters = s.waiters)
    (hs : s'.seenVersion = s.seenVersion) : WInv s' () where
  le := by rw [hs, hf.version]; exact h.le
  none := fun he hp => by rw [hw]; exact h.none (by rw [← hs, he, hf.version]) (hf.pub ▸ hp)

theorem c15w_obligations : Obligations WInv trivScan where
  clock := fun s g d h => ⟨h.le, h.none⟩
  oracle := fun s g fr h => ⟨h.le, h.none⟩
  worker := fun s g now r h hb => ⟨(), trivScan_ok _ _, h.wframe (bStep_frame s now r hb).1⟩
  timer := fun s g now r h hf => by
    have hfr := fireOne_hframe s now r hf
    exact ⟨(), trivScan_ok _ _, h.hframe hfr.1 hfr.2.1 hfr.2.2⟩
  observe := fun s g now h => by
    unfold DState.hObserve
    split
    · exact ok_nil s () now h
    · simp only
      split
      · have hb := bootstrapSuccess_hframe { s with seenVersion := s.pubVersion } now
        refine ⟨(), trivScan_ok _ _, ⟨?_, fun _ _ => hb.2.1⟩⟩
        rw [hb.2.2, hb.1.version]; exact Nat.le_refl _
      · rename_i hne
        exact ⟨(), rfl, ⟨Nat.le_refl _, fun _ hp => absurd hp hne⟩⟩
  command := fun s g now c h => by
    cases c with
    | startBootstrap =>
      simp only [DState.command]
      split
      · exact ⟨(), trivScan_ok _ _, h.wframe (beginAttempt_frame s now).1⟩
      · exact ⟨(), rfl, h⟩
    | checkBootstrap =>
      simp only [DState.command]
      split
      · exact ⟨(), rfl, ⟨h.le, h.none⟩⟩
      · rename_i hnb
        refine ⟨(), rfl, ⟨h.le, fun _ hp => ?_⟩⟩
        simp [DState.isBootstrapped] at hnb
        exact absurd hp hnb
    | startLookup ih ann =>
      simp only [DState.command]
      have hf := startLookup_hframe s ih ann now
      exact ⟨(), trivScan_ok _ _, h.hframe hf.1 hf.2.1 hf.2.2⟩
    | getLocalAddr => exact ⟨(), rfl, h⟩
    | getState => exact ⟨(), rfl, h⟩
    | loadContacts => exact ⟨(), rfl, h⟩
  datagram := fun s g now tid body src h => by
    unfold DState.datagram
    simp only
    split
    · exact ⟨(), trivScan_ok _ _, h.wframe (wframe_ready s _)⟩
    · exact ⟨(), trivScan_ok _ _, h.hframe ⟨rfl, rfl, rfl, rfl, rfl, rfl, rfl, rfl, rfl⟩ rfl rfl⟩
  garbage := fun s g now src h => ⟨(), rfl, h⟩

theorem hObserve_seen (s : DState) (now : Nat) : (s.hObserve now).1.seenVersion = (s.hObserve now).1.pubVersion := by
  unfold DState.hObserve
  split
  · rename_i h; exact h
  · simp only
    split
    · have hb := bootstrapSuccess_hframe { s with seenVersion := s.pubVersion } now
      rw [hb.2.2, hb.1.version]
    · rfl

/-- every step ends with the handler having looked at the worker's published state -/
theorem stepG_seen (s : DState) (ops : List DOp) (t : Nat) (bf : Bool) (hold : Bool) :
    (s.stepG ops t bf hold).1.seenVersion = (s.stepG ops t bf hold).1.pubVersion := by
  unfold DState.stepG DState.settle; exact hObserve_seen _ _

/-- **C15 (nobody left waiting)**: after every step of every run, if the node's published state is
`Bootstrapped` no `bootstrapped()` call is left unresolved — a completion is made known to every
waiter in the step in which it happens, however many waiters registered and whenever. -/
theorem C15_nobody_left_waiting (selfId : Bytes) (addr : Addr) (ro : Bool) (port : Option Nat) (fa : List Addr)
    (cfg : BConfig) (t0 : Nat) (ins : List DInput) (i : DInput) :
    let s := (((DState.new selfId addr ro port fa cfg t0).run ins).1.stepIn i).1
    s.pub = .bootstrapped → s.waiters = [] := by
  intro s hp
  obtain ⟨g, _, hi⟩ := run_ok c15w_obligations (DState.new selfId addr ro port fa cfg t0) () ins
    ⟨Nat.le_refl _, fun _ hpub => by simp [DState.new] at hpub⟩
  obtain ⟨g2, _, hi2⟩ := stepIn_ok c15w_obligations _ () i hi
  -- a step ends with the handler having observed the worker's state
  have hseen : s.seenVersion = s.pubVersion := by
    show ((((DState.new selfId addr ro port fa cfg t0).run ins).1.stepIn i).1).seenVersion = _
    unfold DState.stepIn
    exact stepG_seen _ _ _ _ _
  exact hi2.none hseen hp

/-- **C15 (all waiters at once)**: handling a completion returns every pending `bootstrapped()`
call, in that one step. -/
theorem C15_waiters_resolved_together (s : DState) (now : Nat) :
    (∀ i ∈ s.waiters, DEv.resolved i ∈ (s.bootstrapSuccess now).2) ∧ (s.bootstrapSuccess now).1.waiters = [] := by
  refine ⟨fun i hi => ?_, (bootstrapSuccess_hframe s now).2.1⟩
  unfold DState.bootstrapSuccess
  simp only
  apply List.mem_append_left
  simp [hi]

/-- **C15 (immediate)**: a `bootstrapped()` call made while the node is bootstrapped returns in the
same step; otherwise it is registered. -/
theorem C15_waiter_immediate (s : DState) (now : Nat) :
    (s.pub = .bootstrapped → (s.command .checkBootstrap now).2 = [.cmd .checkBootstrap, .resolved s.nextWaiter]) ∧
    (s.pub ≠ .bootstrapped → (s.command .checkBootstrap now).1.waiters = s.waiters ++ [s.nextWaiter] ∧
      (s.command .checkBootstrap now).2 = [.cmd .checkBootstrap]) := by
  constructor
  · intro h; simp [DState.command, DState.isBootstrapped, h]
  · intro h; simp [DState.command, DState.isBootstrapped, h]

/-- **C15 (the API is always answered)**: in every state each API command produces its answer in
the step it is handled in (`get_state`, `load_contacts`, `local_addr`), whatever the bootstrap
worker is doing — the model has no state in which the handler is gone. -/
theorem C15_api_total (s : DState) (now : Nat) :
    (∃ b g q n, (s.command .getState now).2 = [.cmd .getState, .state b g q n]) ∧
    (∃ g q, (s.command .loadContacts now).2 = [.cmd .loadContacts, .contacts g q]) ∧
    (s.command .getLocalAddr now).2 = [.cmd .getLocalAddr, .addr s.addr] := by
  refine ⟨⟨_, _, _, _, rfl⟩, ?_, rfl⟩
  simp only [DState.command]
  exact ⟨_, _, rfl⟩

/-- **C15 (first-round contacts are distinct)**: the contacts of the shared-id first round are
pairwise distinct, also when an address is given both as router and as node (the F15 repair): the
socket's "exchange already registered" assertion cannot fire on them. -/
theorem C15_first_round_distinct (c : BConfig) : (c.contacts.1 ++ c.contacts.2).Nodup := by
  have hd : ∀ l : List Addr, (dedup l).Nodup := by
    intro l
    unfold dedup
    exact foldl_pred (fun (acc : List Addr) => acc.Nodup) _ (fun acc a hacc => by
      show (if acc.contains a then acc else acc ++ [a]).Nodup
      split
      · exact hacc
      · rename_i hc
        rw [List.nodup_append]
        refine ⟨hacc, by simp, ?_⟩
        intro x hx y hy
        simp only [List.mem_singleton] at hy
        subst hy
        intro hxy; subst hxy
        exact hc (by simpa using hx)) l [] (by simp)
  unfold BConfig.contacts
  simp only
  rw [List.nodup_append]
  refine ⟨hd _, (hd _).filter _, ?_⟩
  intro x hx y hy hxy
  subst hxy
  simp only [List.mem_filter, Bool.not_eq_true', List.contains_eq_mem, decide_eq_false_iff_not] at hy
  exact hy.2 hx

end Btdht

namespace Btdht

-- ------------------------------------------------------------------ the socket's uniqueness assertion

/-- the exchanges the worker currently awaits -/
def BPhase.active : BPhase → List Pending
  | .initial _ _ _ _ _ a _ _ => a
  | .buckets _ a => a
  | _ => []

/-- everything registered in `Socket::transactions` -/
def DState.registered (s : DState) : List Pending := s.phase.active ++ s.stale

def Pending.key (p : Pending) : Addr × Tid := (p.addr, p.tid)

/-- the invariant behind `assert!(transactions.insert((addr, tid), ..).is_none())`: registered
exchanges have pairwise distinct (address, transaction id) keys; every registered id was drawn
before the next one to be drawn; during the first round the shared id is only registered towards
addresses that have left the to-do lists, which are duplicate-free -/
structure XInv (s : DState) (_g : Unit) : Prop where
  nodup : (s.registered.map Pending.key).Nodup
  drawn : ∀ p ∈ s.registered, p.tid.aid = bootstrapAid ∧ p.tid.seq < s.bseq
  first : ∀ tid rl nl sl count active responses stopAt, s.phase = .initial tid rl nl sl count active responses stopAt →
    tid.aid = bootstrapAid ∧ tid.seq < s.bseq ∧ (rl ++ nl).Nodup ∧ s.stale = [] ∧
    ∀ p ∈ active, p.tid = tid ∧ p.addr ∉ rl ++ nl

theorem xinv_of_regs (s s' : DState) (h : XInv s ()) (hsub : (s'.registered).Sublist s.registered)
    (hseq : s.bseq ≤ s'.bseq) (hph : ∀ tid rl nl sl count active responses stopAt, s'.phase ≠ .initial tid rl nl sl count active responses stopAt) :
    XInv s' () where
  nodup := (hsub.map Pending.key).nodup h.nodup
  drawn := fun p hp => by
    obtain ⟨h1, h2⟩ := h.drawn p (hsub.subset hp)
    exact ⟨h1, Nat.lt_of_lt_of_le h2 hseq⟩
  first := fun tid rl nl sl count active responses stopAt he => absurd he (hph tid rl nl sl count active responses stopAt)

theorem XInv.hframe {s s' : DState} (h : XInv s ()) (hf : HFrame s s') : XInv s' () where
  nodup := by unfold DState.registered; rw [hf.phase, hf.stale]; exact h.nodup
  drawn := fun p hp => by
    unfold DState.registered at hp; rw [hf.phase, hf.stale] at hp
    rw [hf.bseq]; exact h.drawn p hp
  first := fun tid rl nl sl count active responses stopAt he => by
    rw [hf.phase] at he
    obtain ⟨h1, h2, h3, h4, h5⟩ := h.first tid rl nl sl count active responses stopAt he
    exact ⟨h1, hf.bseq ▸ h2, h3, hf.stale ▸ h4, h5⟩

theorem setPub_x (s : DState) (p : BPub) : (s.setPub p).1.phase = s.phase ∧ (s.setPub p).1.stale = s.stale ∧ (s.setPub p).1.bseq = s.bseq ∧
    (s.setPub p).1.cfg = s.cfg := by
  unfold DState.setPub; split <;> exact ⟨rfl, rfl, rfl, rfl⟩

theorem contacts_nodup (c : BConfig) : (c.contacts.1 ++ c.contacts.2).Nodup := C15_first_round_distinct c

theorem beginAttempt_x (s : DState) (now : Nat) : XInv (s.beginAttempt now).1 () := by
  unfold DState.beginAttempt
  simp only
  split
  · have hs := setPub_x { s with stale := [] } .bootstrapped
    exact ⟨by simp [DState.registered, BPhase.active, hs.2.1], by simp [DState.registered, BPhase.active, hs.2.1], by intro _ _ _ _ _ _ _ _ he; cases he⟩
  · split
    · have hs := setPub_x { s with stale := [], h := { s.h with table := { s.h.table with routers := (s.cfg.contacts).1 } } } .idle
      exact ⟨by simp [DState.registered, BPhase.active, hs.2.1], by simp [DState.registered, BPhase.active, hs.2.1], by intro _ _ _ _ _ _ _ _ he; cases he⟩
    · have hs := setPub_x { s with stale := [], h := { s.h with table := { s.h.table with routers := (s.cfg.contacts).1 } } } .initialContact
      refine ⟨by simp [DState.registered, BPhase.active, hs.2.1], by simp [DState.registered, BPhase.active, hs.2.1], ?_⟩
      intro tid rl nl sl count active responses stopAt he
      simp only [BPhase.initial.injEq] at he
      obtain ⟨rfl, rfl, rfl, rfl, rfl, rfl, rfl, rfl, rfl⟩ := he
      refine ⟨rfl, by simp [hs.2.2.1], ?_, hs.2.1, by simp⟩
      have := contacts_nodup s.cfg
      simpa using this

theorem filter_ne_not_mem {α} [DecidableEq α] (l : List α) (a : α) : a ∉ l.filter (· ≠ a) := by simp

/-- shrinking the registered exchanges (time-outs, answers) keeps the invariant -/
theorem xinv_sub (s s' : DState) (h : XInv s ()) (hseq : s.bseq ≤ s'.bseq)
    (hact : s'.phase.active.Sublist s.phase.active) (hst : s'.stale.Sublist s.stale)
    (hfirst : ∀ tid rl nl sl c a r st, s'.phase = .initial tid rl nl sl c a r st →
      ∃ sl0 c0 a0 r0, s.phase = .initial tid rl nl sl0 c0 a0 r0 st) : XInv s' () := by
  have hsub : s'.registered.Sublist s.registered := List.Sublist.append hact hst
  refine ⟨(hsub.map Pending.key).nodup h.nodup, fun p hp => ?_, ?_⟩
  · obtain ⟨h1, h2⟩ := h.drawn p (hsub.subset hp)
    exact ⟨h1, Nat.lt_of_lt_of_le h2 hseq⟩
  · intro tid rl nl sl c a r st he
    obtain ⟨sl0, c0, a0, r0, he0⟩ := hfirst tid rl nl sl c a r st he
    obtain ⟨h1, h2, h3, h4, h5⟩ := h.first tid rl nl sl0 c0 a0 r0 st he0
    refine ⟨h1, Nat.lt_of_lt_of_le h2 hseq, h3, ?_, ?_⟩
    · rw [h4] at hst; exact List.sublist_nil.mp hst
    · intro p hp
      have : s'.phase.active = a := by rw [he]; rfl
      have h0 : s.phase.active = a0 := by rw [he0]; rfl
      rw [this, h0] at hact
      exact h5 p (hact.subset hp)

theorem finishInitial_x (s : DState) (responses : Nat) (remaining : List Pending) (now : Nat) (h : XInv s ())
    (hrem : remaining.Sublist s.phase.active) (hst : s.stale = []) : XInv (s.finishInitial responses remaining now).1 () := by
  unfold DState.finishInitial
  split
  · have hs := setPub_x s .idle
    refine xinv_sub s _ h (by simp [hs.2.2.1]) (by simp [BPhase.active]) (by simp [hs.2.1]) ?_
    intro _ _ _ _ _ _ _ _ he; cases he
  · have hs := setPub_x s .bootstrapping
    -- the exchanges that were still awaited stay registered, un-awaited
    have hreg : ∀ p ∈ remaining, p ∈ s.registered := fun p hp => List.mem_append_left _ (hrem.subset hp)
    refine ⟨?_, ?_, by intro _ _ _ _ _ _ _ _ he; cases he⟩
    · simp only [DState.registered, BPhase.active, List.nil_append]
      have : (remaining.map Pending.key).Sublist (s.registered.map Pending.key) := by
        unfold DState.registered; rw [hst, List.append_nil]; exact hrem.map _
      exact this.nodup h.nodup
    · intro p hp
      simp only [DState.registered, BPhase.active, List.nil_append] at hp
      have := h.drawn p (hreg p hp)
      exact ⟨this.1, by simp only [hs.2.2.1]; exact this.2⟩

theorem pickFirstRound_spec (o rl nl : List Addr) (dst : Addr) (o' rl' nl' : List Addr)
    (h : pickFirstRound o rl nl = some (dst, o', rl', nl')) :
    dst ∈ rl ++ nl ∧ rl' = rl.filter (· ≠ dst) ∧ nl' = nl.filter (· ≠ dst) := by
  unfold pickFirstRound at h
  simp only at h
  split at h
  · simp at h
  · rename_i d rest heq
    simp only [Option.some.injEq, Prod.mk.injEq] at h
    obtain ⟨h1, _, h3, h4⟩ := h
    refine ⟨?_, ?_, ?_⟩
    · rw [← h1]
      cases o with
      | nil => simp only; rw [heq]; simp
      | cons x xs =>
        simp only
        split
        · rename_i hc; simpa using hc
        · rw [heq]; simp
    · rw [← h3, ← h1]
    · rw [← h4, ← h1]

theorem firstRoundSend_x (s : DState) (tid : Tid) (rl nl : List Addr) (sl : Option Nat) (count : Nat) (active : List Pending)
    (responses stopAt now : Nat) (r : DState × List DEv) (h : XInv s ())
    (hph : s.phase = .initial tid rl nl sl count active responses stopAt)
    (hr : s.firstRoundSend tid rl nl count active responses stopAt now = some r) : XInv r.1 () := by
  obtain ⟨h1, h2, h3, h4, h5⟩ := h.first tid rl nl sl count active responses stopAt hph
  unfold DState.firstRoundSend at hr
  split at hr
  · simp at hr
  · rename_i dst o' rl' nl' hpick
    obtain ⟨hmem, hrl, hnl⟩ := pickFirstRound_spec _ _ _ _ _ _ _ hpick
    simp only [Option.some.injEq] at hr; subst hr
    have hreg : s.registered = active := by unfold DState.registered; rw [hph, h4]; simp [BPhase.active]
    have hnd := h.nodup; rw [hreg] at hnd
    have hfil : (rl' ++ nl') = (rl ++ nl).filter (· ≠ dst) := by rw [hrl, hnl, List.filter_append]
    have hnotin : ∀ p ∈ active, p.addr ∉ rl' ++ nl' := by
      intro p hp hc
      rw [hfil] at hc
      exact (h5 p hp).2 (List.mem_filter.mp hc).1
    have hfirst' : ∀ (cnt : Nat) (act : List Pending), (∀ p ∈ act, p.tid = tid ∧ p.addr ∉ rl' ++ nl') →
        ∀ tid2 rl2 nl2 sl2 c2 a2 r2 st2,
          BPhase.initial tid rl' nl' none cnt act responses stopAt = .initial tid2 rl2 nl2 sl2 c2 a2 r2 st2 →
          tid2.aid = bootstrapAid ∧ tid2.seq < s.bseq ∧ (rl2 ++ nl2).Nodup ∧ s.stale = [] ∧ ∀ p ∈ a2, p.tid = tid2 ∧ p.addr ∉ rl2 ++ nl2 := by
      intro cnt act hact tid2 rl2 nl2 sl2 c2 a2 r2 st2 he
      simp only [BPhase.initial.injEq] at he
      obtain ⟨rfl, rfl, rfl, _, _, rfl, _, _⟩ := he
      exact ⟨h1, h2, by rw [hfil]; exact h3.filter _, h4, hact⟩
    by_cases hok : (!s.h.failAddrs.contains dst) = true
    · simp only [hok, if_true]
      have hact' : ∀ p ∈ active ++ [(⟨dst, tid, now + Constants.INITIAL_TIMEOUT_ns⟩ : Pending)], p.tid = tid ∧ p.addr ∉ rl' ++ nl' := by
        intro p hp
        simp only [List.mem_append, List.mem_singleton] at hp
        rcases hp with hp | rfl
        · exact ⟨(h5 p hp).1, hnotin p hp⟩
        · exact ⟨rfl, by rw [hfil]; simp⟩
      refine ⟨?_, ?_, fun a b c d e f g hh he => hfirst' _ _ hact' a b c d e f g hh he⟩
      · simp only [DState.registered, BPhase.active, h4, List.append_nil, List.map_append, List.map_cons, List.map_nil]
        rw [List.nodup_append]
        refine ⟨hnd, by simp, ?_⟩
        intro k hk k2 hk2
        simp only [List.mem_singleton] at hk2
        subst hk2
        obtain ⟨p, hp, rfl⟩ := List.mem_map.mp hk
        intro heq
        simp only [Pending.key, Prod.mk.injEq] at heq
        exact (h5 p hp).2 (heq.1 ▸ hmem)
      · intro p hp
        simp only [DState.registered, BPhase.active, h4, List.append_nil, List.mem_append, List.mem_singleton] at hp
        rcases hp with hp | rfl
        · exact h.drawn p (hreg ▸ hp)
        · exact ⟨h1, h2⟩
    · simp only [hok, if_false]
      refine ⟨?_, ?_, fun a b c d e f g hh he => hfirst' _ _ (fun p hp => ⟨(h5 p hp).1, hnotin p hp⟩) a b c d e f g hh he⟩
      · simp only [DState.registered, BPhase.active, h4, List.append_nil]; exact hnd
      · intro p hp
        simp only [DState.registered, BPhase.active, h4, List.append_nil] at hp
        exact h.drawn p (hreg ▸ hp)

/-- the fold of a bucket round: every new exchange gets a fresh id -/
theorem bucketRound_x (s : DState) (k now : Nat) (h : XInv s ()) (hph : s.phase.active = [])
    (hni : ∀ tid rl nl sl c a r st, s.phase ≠ .initial tid rl nl sl c a r st) : XInv (s.bucketRound k now).1 () := by
  unfold DState.bucketRound
  simp only
  have hreg : s.registered = s.stale := by unfold DState.registered; rw [hph]; rfl
  have hf := foldl_pred (fun (acc : DState × List Pending × List DEv) =>
      acc.1.stale = s.stale ∧ acc.1.phase = s.phase ∧ s.bseq ≤ acc.1.bseq ∧
      ((acc.2.1 ++ s.stale).map Pending.key).Nodup ∧ ∀ p ∈ acc.2.1 ++ s.stale, p.tid.aid = bootstrapAid ∧ p.tid.seq < acc.1.bseq)
    (bucketSend (flipBit s.h.selfId k) now)
    (fun acc hd hacc => by
      obtain ⟨sa, act, evs⟩ := acc
      obtain ⟨a1, a2, a3, a4, a5⟩ := hacc
      unfold bucketSend
      simp only at a1 a2 a3 a4 a5 ⊢
      split
      · refine ⟨a1, a2, Nat.le_succ_of_le a3, ?_, ?_⟩
        · rw [List.append_assoc, List.map_append, List.nodup_append]
          rw [List.map_append, List.nodup_append] at a4
          refine ⟨a4.1, ?_, ?_⟩
          · simp only [List.singleton_append, List.map_cons, List.nodup_cons]
            refine ⟨?_, a4.2.1⟩
            intro hk
            obtain ⟨p, hp, hkey⟩ := List.mem_map.mp hk
            have := (a5 p (List.mem_append_right _ hp)).2
            simp only [Pending.key, Prod.mk.injEq] at hkey
            rw [hkey.2] at this
            exact Nat.lt_irrefl _ this
          · intro x hx y hy
            simp only [List.singleton_append, List.map_cons, List.mem_cons] at hy
            rcases hy with rfl | hy
            · obtain ⟨p, hp, rfl⟩ := List.mem_map.mp hx
              intro hkey
              have := (a5 p (List.mem_append_left _ hp)).2
              simp only [Pending.key, Prod.mk.injEq] at hkey
              rw [hkey.2] at this
              exact Nat.lt_irrefl _ this
            · exact a4.2.2 x hx y hy
        · intro p hp
          simp only [List.append_assoc, List.mem_append, List.singleton_append, List.mem_cons] at hp
          rcases hp with hp | rfl | hp
          · obtain ⟨b1, b2⟩ := a5 p (List.mem_append_left _ hp); exact ⟨b1, Nat.lt_succ_of_lt b2⟩
          · exact ⟨rfl, Nat.lt_succ_self _⟩
          · obtain ⟨b1, b2⟩ := a5 p (List.mem_append_right _ hp); exact ⟨b1, Nat.lt_succ_of_lt b2⟩
      · exact ⟨a1, a2, Nat.le_succ_of_le a3, a4, fun p hp => by obtain ⟨b1, b2⟩ := a5 p hp; exact ⟨b1, Nat.lt_succ_of_lt b2⟩⟩)
    (s.bucketPicks k now) (s, [], [])
    ⟨rfl, rfl, Nat.le_refl _, by simpa [hreg] using h.nodup, by intro p hp; simp only [List.nil_append] at hp; exact h.drawn p (hreg ▸ hp)⟩
  generalize (s.bucketPicks k now).foldl (bucketSend (flipBit s.h.selfId k) now) (s, [], []) = acc at hf
  obtain ⟨sa, act, evs⟩ := acc
  obtain ⟨a1, a2, a3, a4, a5⟩ := hf
  simp only at a1 a2 a3 a4 a5 ⊢
  split
  · rename_i hemp
    have : act = [] := by simpa using hemp
    subst this
    exact ⟨by simpa [DState.registered, BPhase.active, a1] using a4, by simpa [DState.registered, BPhase.active, a1] using a5,
      by intro _ _ _ _ _ _ _ _ he; cases he⟩
  · exact ⟨by simpa [DState.registered, BPhase.active, a1] using a4, by simpa [DState.registered, BPhase.active, a1] using a5,
      by intro _ _ _ _ _ _ _ _ he; cases he⟩

theorem sweepDone_x (s : DState) (now : Nat) (h : XInv s ()) (hph : s.phase.active = [])
    (hni : ∀ tid rl nl sl c a r st, s.phase ≠ .initial tid rl nl sl c a r st) : XInv (s.sweepDone now).1 () := by
  unfold DState.sweepDone
  simp only
  split
  · have hs := setPub_x s .idle
    exact xinv_sub s _ h (by simp [hs.2.2.1]) (by simp [BPhase.active]) (by simp [hs.2.1]) (by intro _ _ _ _ _ _ _ _ he; cases he)
  · have hs := setPub_x s .bootstrapped
    exact xinv_sub s _ h (by simp [hs.2.2.1]) (by simp [BPhase.active]) (by simp [hs.2.1]) (by intro _ _ _ _ _ _ _ _ he; cases he)

theorem bStepMain_x (s : DState) (now : Nat) (r : DState × List DEv) (h : XInv s ()) (hb : s.bStepMain now = some r) : XInv r.1 () := by
  unfold DState.bStepMain at hb
  cases hphase : s.phase with
  | awaitStart => simp [hphase] at hb
  | forever => simp [hphase] at hb
  | sleeping w =>
    simp only [hphase] at hb
    split at hb
    · simp only [Option.some.injEq] at hb; subst hb; exact beginAttempt_x s now
    · simp at hb
  | bootstrapped c =>
    simp only [hphase] at hb
    split at hb
    · simp only [Option.some.injEq] at hb; subst hb
      unfold DState.periodicCheck
      split
      · exact beginAttempt_x s now
      · exact xinv_sub s _ h (Nat.le_refl _) (by simp [BPhase.active]) (List.Sublist.refl _) (by intro _ _ _ _ _ _ _ _ he; cases he)
    · simp at hb
  | initial tid rl nl sl count active responses stopAt =>
    simp only [hphase] at hb
    have hst := (h.first tid rl nl sl count active responses stopAt hphase).2.2.2.1
    split at hb
    · simp only [Option.some.injEq] at hb; subst hb
      refine xinv_sub s _ h (Nat.le_refl _) (by simp only [BPhase.active, hphase]; exact List.filter_sublist) (List.Sublist.refl _) ?_
      intro t2 r2 n2 s2 c2 a2 rr st he
      simp only [BPhase.initial.injEq] at he
      obtain ⟨rfl, rfl, rfl, _, _, _, _, rfl⟩ := he
      exact ⟨_, _, _, _, hphase⟩
    · split at hb
      · split at hb
        · simp only [Option.some.injEq] at hb; subst hb
          exact finishInitial_x s responses [] now h (List.nil_sublist _) hst
        · simp at hb
      · split at hb
        · split at hb
          · exact firstRoundSend_x s tid rl nl _ count active responses stopAt now r h hphase hb
          · simp at hb
        · split at hb
          · simp only [Option.some.injEq] at hb; subst hb
            refine xinv_sub s _ h (Nat.le_refl _) (by simp [BPhase.active, hphase]) (List.Sublist.refl _) ?_
            intro t2 r2 n2 s2 c2 a2 rr st he
            simp only [BPhase.initial.injEq] at he
            obtain ⟨rfl, rfl, rfl, _, _, _, _, rfl⟩ := he
            exact ⟨_, _, _, _, hphase⟩
          · exact firstRoundSend_x s tid rl nl _ count active responses stopAt now r h hphase hb
  | bucketStart k =>
    simp only [hphase] at hb
    have hact : s.phase.active = [] := by rw [hphase]; rfl
    have hni : ∀ tid rl nl sl c a r st, s.phase ≠ .initial tid rl nl sl c a r st := by intro _ _ _ _ _ _ _ _ he; rw [hphase] at he; cases he
    split at hb
    · simp only [Option.some.injEq] at hb; subst hb; exact bucketRound_x s k now h hact hni
    · simp only [Option.some.injEq] at hb; subst hb; exact sweepDone_x s now h hact hni
  | buckets k active =>
    simp only [hphase] at hb
    split at hb
    · simp only [Option.some.injEq] at hb; subst hb
      exact xinv_sub s _ h (Nat.le_refl _) (by simp [BPhase.active]) (List.Sublist.refl _) (by intro _ _ _ _ _ _ _ _ he; cases he)
    · split at hb
      · simp only [Option.some.injEq] at hb; subst hb
        exact xinv_sub s _ h (Nat.le_refl _) (by simp only [BPhase.active, hphase]; exact List.filter_sublist) (List.Sublist.refl _)
          (by intro _ _ _ _ _ _ _ _ he; cases he)
      · simp at hb

theorem removePending_sublist (l : List Pending) (p : Pending) : (removePending l p).Sublist l := List.filter_sublist

theorem workerMessage_x (s : DState) (p : Pending) (body : Body) (src : Addr) (now : Nat) (h : XInv s ()) :
    XInv (s.workerMessage p body src now).1 () := by
  unfold DState.workerMessage
  cases hphase : s.phase with
  | initial tid rl nl sl count active responses stopAt =>
    simp only
    have hst := (h.first tid rl nl sl count active responses stopAt hphase).2.2.2.1
    have keep : ∀ (s1 : DState) (resp' : Nat), s1.bseq = s.bseq → s1.stale = s.stale →
        s1.phase = .initial tid rl nl sl count (removePending active p) resp' stopAt → XInv s1 () := by
      intro s1 resp' hb hs hp
      refine xinv_sub s s1 h (by rw [hb]; exact Nat.le_refl _) (by rw [hp, hphase]; exact removePending_sublist _ _) (by rw [hs]; exact List.Sublist.refl _) ?_
      intro t2 r2 n2 s2 c2 a2 rr st he
      rw [hp] at he
      simp only [BPhase.initial.injEq] at he
      obtain ⟨rfl, rfl, rfl, _, _, _, _, rfl⟩ := he
      exact ⟨_, _, _, _, hphase⟩
    split
    · cases body with
      | resp r =>
        simp only
        split
        · -- the round is cut: what is still awaited stays registered
          have hbase : XInv { s with h := { s.h with table := s.h.table.addNodes (Node.asGood ⟨r.id, src⟩ now) (s.h.namedBy r) now } } () :=
            ⟨h.nodup, h.drawn, h.first⟩
          exact finishInitial_x _ _ _ now hbase (by simp only [hphase, BPhase.active]; exact removePending_sublist _ _) hst
        · exact keep _ _ rfl rfl rfl
      | req q => simp only; exact keep _ _ rfl rfl rfl
      | err c m => simp only; exact keep _ _ rfl rfl rfl
    · refine xinv_sub s _ h (Nat.le_refl _) (by simp [hphase]) (removePending_sublist _ _) ?_
      intro t2 r2 n2 s2 c2 a2 rr st he
      simp only [BPhase.initial.injEq] at he
      obtain ⟨rfl, rfl, rfl, _, _, _, _, rfl⟩ := he
      exact ⟨_, _, _, _, hphase⟩
  | buckets k active =>
    simp only
    split
    · cases body with
      | resp r =>
        simp only
        exact xinv_sub s _ h (Nat.le_refl _) (by simp only [hphase, BPhase.active]; exact removePending_sublist _ _) (List.Sublist.refl _)
          (by intro _ _ _ _ _ _ _ _ he; cases he)
      | req q =>
        simp only
        exact xinv_sub s _ h (Nat.le_refl _) (by simp only [hphase, BPhase.active]; exact removePending_sublist _ _) (List.Sublist.refl _)
          (by intro _ _ _ _ _ _ _ _ he; cases he)
      | err c m =>
        simp only
        exact xinv_sub s _ h (Nat.le_refl _) (by simp only [hphase, BPhase.active]; exact removePending_sublist _ _) (List.Sublist.refl _)
          (by intro _ _ _ _ _ _ _ _ he; cases he)
    · exact xinv_sub s _ h (Nat.le_refl _) (by simp [hphase]) (removePending_sublist _ _)
        (by intro _ _ _ _ _ _ _ _ he; simp [hphase] at he)
  | awaitStart =>
    simp only
    exact xinv_sub s _ h (Nat.le_refl _) (by simp [hphase]) (removePending_sublist _ _) (by intro _ _ _ _ _ _ _ _ he; simp [hphase] at he)
  | forever =>
    simp only
    exact xinv_sub s _ h (Nat.le_refl _) (by simp [hphase]) (removePending_sublist _ _) (by intro _ _ _ _ _ _ _ _ he; simp [hphase] at he)
  | sleeping w =>
    simp only
    exact xinv_sub s _ h (Nat.le_refl _) (by simp [hphase]) (removePending_sublist _ _) (by intro _ _ _ _ _ _ _ _ he; simp [hphase] at he)
  | bucketStart k =>
    simp only
    exact xinv_sub s _ h (Nat.le_refl _) (by simp [hphase]) (removePending_sublist _ _) (by intro _ _ _ _ _ _ _ _ he; simp [hphase] at he)
  | bootstrapped c =>
    simp only
    exact xinv_sub s _ h (Nat.le_refl _) (by simp [hphase]) (removePending_sublist _ _) (by intro _ _ _ _ _ _ _ _ he; simp [hphase] at he)

theorem c15x_obligations : Obligations XInv trivScan where
  clock := fun s g d h => ⟨h.nodup, h.drawn, h.first⟩
  oracle := fun s g fr h => ⟨h.nodup, h.drawn, h.first⟩
  timer := fun s g now r h hf => ⟨(), trivScan_ok _ _, h.hframe (fireOne_hframe s now r hf).1⟩
  observe := fun s g now h => by
    unfold DState.hObserve
    split
    · exact ok_nil s () now h
    · simp only
      split
      · exact ⟨(), trivScan_ok _ _, XInv.hframe (s := { s with seenVersion := s.pubVersion }) ⟨h.nodup, h.drawn, h.first⟩
          (bootstrapSuccess_hframe { s with seenVersion := s.pubVersion } now).1⟩
      · exact ok_nil _ () now ⟨h.nodup, h.drawn, h.first⟩
  command := fun s g now c h => by
    cases c with
    | startBootstrap =>
      simp only [DState.command]
      split
      · exact ⟨(), trivScan_ok _ _, beginAttempt_x s now⟩
      · exact ⟨(), rfl, h⟩
    | checkBootstrap =>
      simp only [DState.command]
      split <;> exact ⟨(), rfl, ⟨h.nodup, h.drawn, h.first⟩⟩
    | startLookup ih ann =>
      simp only [DState.command]
      exact ⟨(), trivScan_ok _ _, h.hframe (startLookup_hframe s ih ann now).1⟩
    | getLocalAddr => exact ⟨(), rfl, h⟩
    | getState => exact ⟨(), rfl, h⟩
    | loadContacts => exact ⟨(), rfl, h⟩
  garbage := fun s g now src h => ⟨(), rfl, h⟩
  datagram := fun s g now tid body src h => by
    unfold DState.datagram
    simp only
    split
    · -- the answer waits for the worker; the exchange stays in the worker's list until then
      exact ⟨(), trivScan_ok _ _, ⟨h.nodup, h.drawn, h.first⟩⟩
    · exact ⟨(), trivScan_ok _ _, h.hframe ⟨rfl, rfl, rfl, rfl, rfl, rfl, rfl, rfl, rfl⟩⟩
  worker := fun s g now r h hb => by
    refine ⟨(), trivScan_ok _ _, ?_⟩
    unfold DState.bStep at hb
    split at hb
    · -- an answer routed earlier: handle_message only removes the exchange (and may finish the first round)
      rename_i p body src rest _
      simp only [Option.some.injEq] at hb; subst hb
      exact workerMessage_x { s with ready := rest } p body src now ⟨h.nodup, h.drawn, h.first⟩
    · exact bStepMain_x s now r h hb

/-- **C15 (the uniqueness assertion cannot fire)**: in every state of every run the exchanges
registered with the socket have pairwise distinct (address, transaction id) keys — the condition
asserted by `Socket::responded`, whose violation killed the node on the pinned tree (F15) — and all
carry the bootstrap action prefix (C19: no other activity's id is ever registered there). -/
theorem C15_exchanges_distinct (selfId : Bytes) (addr : Addr) (ro : Bool) (port : Option Nat) (fa : List Addr)
    (cfg : BConfig) (t0 : Nat) (ins : List DInput) :
    let s := ((DState.new selfId addr ro port fa cfg t0).run ins).1
    (s.registered.map Pending.key).Nodup ∧ ∀ p ∈ s.registered, p.tid.aid = bootstrapAid := by
  obtain ⟨g, _, hi⟩ := run_ok c15x_obligations (DState.new selfId addr ro port fa cfg t0) () ins
    ⟨by simp [DState.new, DState.registered, BPhase.active], by simp [DState.new, DState.registered, BPhase.active],
     by intro _ _ _ _ _ _ _ _ he; simp [DState.new] at he⟩
  exact ⟨hi.nodup, fun p hp => (hi.drawn p hp).1⟩

end Btdht

namespace Btdht

-- ------------------------------------------------------------------ the timed clause

/-- the numeric value of the bound: `512 s + 2·(2.5 s + 0.5 s·(n − 9)) + 160·0.5 s` -/
theorem C15_bound_value (n : Nat) : bootBound n = 597000000000 + (n - 9) * 1000000000 := by
  unfold bootBound firstRoundMax
  rw [retryMax_val, sweepMax_val, initialTimeout_val, freeSends_val, throttleDelay_val]
  omega

/-- **C15 (the bound is below 11 minutes)** for up to 20 distinct node contacts. -/
theorem C15_bound_11_minutes (n : Nat) (h : n ≤ 20) : bootBound n ≤ 11 * 60 * 1000000000 := bootBound_le_11min n h

/-- **C15 (the progress invariant holds in every reachable state)**: whatever inputs a node without routers
and with the node contact `c` has received in a punctual run since its creation — unreachable network,
silent or erroneous contacts, any number of failed attempts — the state `s` it has reached is at a step
boundary (`Boundary`: the worker waits, nothing is queued for it, the handler has seen its latest
published state) and is `Safe`: the node is not started yet, or it is bootstrapped and the handler knows,
or, for every `t0` from now on, the worker's phase comes with absolute bounds (`PhaseOk`): a back-off sleep
ends by `t0 + FR + 512 s`, a first round is over by then minus 512 s (`FR = 2.5 s + 0.5 s·(n − 9)`, `RoundEnds`:
every exchange's time-out and every throttled send accounted for), the bucket rounds `k..159` are over by
`t0 + bootBound n` (each exchange times out 0.5 s after its send), and a published `Bootstrapped` is
observed in the same step. -/
theorem C15_progress_invariant (selfId : Bytes) (addr : Addr) (ro : Bool) (port : Option Nat) (fa : List Addr) (cfg : BConfig)
    (born : Nat) (c : Addr) (hrg : cfg.routersGiven = false) (hrs : cfg.routers = []) (hc : c ∈ cfg.nodes)
    (pre : List DInput) (hpre : (DState.new selfId addr ro port fa cfg born).runP pre) :
    Safe c (dedup cfg.nodes).length ((DState.new selfId addr ro port fa cfg born).run pre).1 ∧
    Boundary ((DState.new selfId addr ro port fa cfg born).run pre).1 := by
  obtain ⟨hsafe0, hb0⟩ := safe_new c selfId addr ro port fa cfg born ⟨hrg, hrs⟩ hc
  exact safe_run c _ pre _ hsafe0 hb0 hpre

/-- **C15 (bootstrap completes within the bound once a contact is responsive)**.

A node without routers (`routersGiven = false`, no router addresses) and with node contacts, among
them `c`, is created at `born` and runs any punctual run `pre` (any inputs, any network behaviour,
for any length of time: unreachable network, failed attempts, back-off sleeps, earlier completions).
Let `s` be the state it has reached, started (`phase ≠ awaitStart`), and let `t0 ≥ s.clock`.
For every punctual continuation `ins` (`runP`: the fuel-bounded loops of the model never run out of
fuel, i.e. time really advances and the worker always runs until it has to wait) in which `c` is
responsive after `t0` (`RespRun c t0`: a first-round `find_node` sent to `c` after `t0` is sent
successfully and no step moves time beyond its 2.5 s time-out while it is unanswered; `c` sends no
KRPC errors), one of the following holds:
* `s` is bootstrapped already, and then nobody is waiting in `s`; or
* the run has not yet lasted until `t0 + bootBound n`, `n` the number of distinct node contacts; or
* at an instant `t ≤ t0 + bootBound n` the worker has published `Bootstrapped` (`bpub`), the handler
  has observed it at that same instant (`bstate`), and in the same transition exactly the
  `bootstrapped()` calls that were registered and unresolved at that point — `unresolvedAfter`
  computes them from the waiters of `s` and the `cmd checkBootstrap` / `resolved` events since — have
  been resolved: every concurrent waiter, in one go.
`bootBound n = 512 s + 2·(2.5 s + 0.5 s·(n − 9)) + 160·0.5 s` (`C15_bound_value`), at most 11 minutes for
`n ≤ 20` (`C15_bound_11_minutes`). -/
theorem C15_completes (selfId : Bytes) (addr : Addr) (ro : Bool) (port : Option Nat) (fa : List Addr) (cfg : BConfig)
    (born : Nat) (c : Addr) (hrg : cfg.routersGiven = false) (hrs : cfg.routers = []) (hc : c ∈ cfg.nodes)
    (pre : List DInput) (hpre : (DState.new selfId addr ro port fa cfg born).runP pre) (t0 : Nat) (ins : List DInput) :
    let s := ((DState.new selfId addr ro port fa cfg born).run pre).1
    let B := bootBound (dedup cfg.nodes).length
    s.phase ≠ .awaitStart → s.clock ≤ t0 → s.runP ins → RespRun c t0 s ins →
    (s.pub = .bootstrapped ∧ s.waiters = []) ∨ (s.run ins).1.clock ≤ t0 + B ∨
    ∃ t pre' post, t ≤ t0 + B ∧ (t, DEv.bpub .bootstrapped) ∈ pre' ∧
      (s.run ins).2 =
        pre' ++ stamp t (DEv.bstate :: (unresolvedAfter s.waiters s.nextWaiter pre').1.map DEv.resolved) ++ post := by
  intro s B hst h0 hp hr
  obtain ⟨hsafe0, hb0⟩ := safe_new c selfId addr ro port fa cfg born ⟨hrg, hrs⟩ hc
  obtain ⟨hsafe, hb⟩ := safe_run c _ pre _ hsafe0 hb0 hpre
  by_cases hpub : s.pub = .bootstrapped
  · left
    refine ⟨hpub, ?_⟩
    obtain ⟨_, _, hi⟩ := run_ok c15w_obligations (DState.new selfId addr ro port fa cfg born) () pre
      ⟨Nat.le_refl _, fun _ hp0 => by simp [DState.new] at hp0⟩
    exact hi.none hb.seen hpub
  · right
    by_cases hlate : (s.run ins).1.clock ≤ t0 + B
    · exact Or.inl hlate
    · right
      exact completes_full c _ s hsafe hb (waiters_lt_run selfId addr ro port fa cfg born pre hpre) hst hpub t0 h0 ins hp hr
        (by omega)

/-- a contact, a fresh node that knows only this contact, a start command, and a continuation in which
the first query times out (2.5 s), the worker sleeps 2 s, begins its next attempt at 4.5 s and asks
the contact again, after `t0 = 0`; the run ends at 6 s with that query outstanding -/
def c15Contact : Addr := ⟨false, [10, 0, 0, 1], 6881⟩
def c15Node : DState := DState.new (List.replicate 20 0) ⟨false, [10, 0, 0, 9], 1⟩ false none [] ⟨false, [], [c15Contact]⟩ 0
def c15Start : List DInput := [⟨[.cmd .startBootstrap], 0, false, [], false⟩]
def c15Run : List DInput := [⟨[.adv], 5000000000, false, [], false⟩, ⟨[.garbage c15Contact], 6000000000, false, [], false⟩]

/-- non-vacuity of `C15_progress_invariant` and `C15_completes`: all their hypotheses hold of this node and run -/
example : c15Node.cfg.routersGiven = false ∧ c15Node.cfg.routers = [] ∧ c15Contact ∈ c15Node.cfg.nodes ∧ c15Node.runP c15Start ∧
    (c15Node.run c15Start).1.phase ≠ .awaitStart ∧ (c15Node.run c15Start).1.clock ≤ 0 ∧
    (c15Node.run c15Start).1.runP c15Run ∧ RespRun c15Contact 0 (c15Node.run c15Start).1 c15Run := by
  refine ⟨rfl, rfl, by simp [c15Node, DState.new], by decide +kernel, ?_, by decide +kernel, by decide +kernel, respRunB_sound _ _ _ _ (by decide +kernel)⟩
  intro h
  have := congrArg (fun p => match p with | BPhase.awaitStart => true | _ => false) h
  revert this
  decide +kernel

/-- ... and at its end the query that `RespRun` speaks about is outstanding: sent at 4.5 s, after `t0` -/
example : ((c15Node.run c15Start).1.run c15Run).1.phase.firstRound.map (fun p => (p.addr, p.deadline)) =
    [(c15Contact, 7000000000)] := by decide +kernel

/-- **C15 (nobody is left waiting by the completion)**: the events singled out by `C15_completes` — the
observed completion followed by the results of the calls that were unresolved — leave no `bootstrapped()`
call unresolved, whatever happened before (`ws`, `n`: the waiters and the next call id of the start state). -/
theorem C15_completion_resolves_all (ws : List Nat) (n t : Nat) (pre : List (Nat × DEv)) :
    (unresolvedAfter ws n (pre ++ stamp t (DEv.bstate :: (unresolvedAfter ws n pre).1.map DEv.resolved))).1 = [] := by
  rw [unresolvedAfter_append]
  have hsplit : stamp t (DEv.bstate :: (unresolvedAfter ws n pre).1.map DEv.resolved) =
      stamp t [DEv.bstate] ++ stamp t ((unresolvedAfter ws n pre).1.map DEv.resolved) := by simp [stamp]
  rw [hsplit, unresolvedAfter_append, unresolvedAfter_other _ _ _ [DEv.bstate] (by simp [DEv.isWaiterEv])]
  simp only
  rw [unresolvedAfter_resolveAll _ _ _ _ (fun i hi => hi)]

/-- **C15 (bootstrap completes within the bound — responsiveness stated on the inputs and the trace)**.

As `C15_completes`, with the responsiveness of `c` after `t0` expressed without reference to the
node's state (`RespRunT`): a monitor (`owedScan`) reads the trace from the node's creation on and keeps
the instants at which first-round `find_node` queries (target: the node's own id) were successfully sent
to `c` after `t0` and are still outstanding — not yet followed by `bhandled c` (the worker handled
`c`'s answer), by the end of that first round (`binitialDone`) or by the next attempt (`battempt`).
The hypothesis says, for every step of the continuation: the step does not last until 2.5 s after an
outstanding query was sent (so: `c`'s answer is delivered, as an input of a later step, before the
time-out); a first-round query to `c` is sent successfully; `c` sends no KRPC error messages. -/
theorem C15_completes_trace (selfId : Bytes) (addr : Addr) (ro : Bool) (port : Option Nat) (fa : List Addr) (cfg : BConfig)
    (born : Nat) (c : Addr) (hrg : cfg.routersGiven = false) (hrs : cfg.routers = []) (hc : c ∈ cfg.nodes)
    (pre : List DInput) (hpre : (DState.new selfId addr ro port fa cfg born).runP pre) (t0 : Nat) (ins : List DInput) :
    let s := ((DState.new selfId addr ro port fa cfg born).run pre).1
    let o := scanS (owedScan c t0) [] ((DState.new selfId addr ro port fa cfg born).run pre).2
    let B := bootBound (dedup cfg.nodes).length
    s.phase ≠ .awaitStart → s.clock ≤ t0 → s.runP ins → RespRunT c t0 o s ins →
    (s.pub = .bootstrapped ∧ s.waiters = []) ∨ (s.run ins).1.clock ≤ t0 + B ∨
    ∃ t pre' post, t ≤ t0 + B ∧ (t, DEv.bpub .bootstrapped) ∈ pre' ∧
      (s.run ins).2 =
        pre' ++ stamp t (DEv.bstate :: (unresolvedAfter s.waiters s.nextWaiter pre').1.map DEv.resolved) ++ post := by
  intro s o B hst h0 hp hr
  have hb0 : Boundary (DState.new selfId addr ro port fa cfg born) := ⟨rfl, trivial, rfl⟩
  have hlk := lk_run c t0 pre _ [] (lk_new c t0 selfId addr ro port fa cfg born) hb0 hpre
  have hb := (safe_run c _ pre _ (safe_new c selfId addr ro port fa cfg born ⟨hrg, hrs⟩ hc).1 hb0 hpre).2
  exact C15_completes selfId addr ro port fa cfg born c hrg hrs hc pre hpre t0 ins hst h0 hp
    (respRunT_sound c t0 ins s o hlk hb hp hr)

/-- non-vacuity of `C15_completes_trace` on the same node and run: after the start (query sent at 0, not
after `t0 = 0`) the monitor holds nothing; during the first step of the continuation the query of the
second attempt goes out at 4.5 s, and the run ends (6 s) before its time-out (7 s) -/
example : RespRunT c15Contact 0 (scanS (owedScan c15Contact 0) [] (c15Node.run c15Start).2) (c15Node.run c15Start).1 c15Run ∧
    scanS (owedScan c15Contact 0) [] ((c15Node.run c15Start).1.run c15Run).2 = [4500000000] :=
  ⟨respRunTB_sound _ _ _ _ _ (by decide +kernel), by decide +kernel⟩

end Btdht
