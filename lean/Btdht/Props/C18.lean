import Btdht.Proofs.GuardTie.Boot
import Btdht.Proofs.Dht
import Btdht.Props.C04
/-!
# C18 — Table refresh keeps one steady cadence however often the node re-bootstraps

"Routing-table refresh rounds happen at most once per 6-second interval plus once per bootstrap
completion; the rate does not grow with the number of times the node has lost and regained its
bootstrapped state ..."

Model: the node model `Btdht.Model.Dht` (run loop, handler, bootstrap worker), tied to the real
`MainlineDht` by the node engine. A refresh round is the trace event `round` (the `vtrace!` point at
the head of `TableRefresh::continue_refresh`).

* `C18_single_chain`: in every state of every run at most one `TableRefresh` timer entry is pending
  (none before the first bootstrap completion) — re-bootstrapping never adds a second chain;
* `C18_round_spacing`: in every run consecutive refresh rounds are at least 6 s apart;
* `C18_rate`: hence the `k`-th round after any round comes at least `6·k` s later: any window of
  length `w` contains at most `w / 6 s + 1` rounds, whatever the number of re-bootstraps, searches,
  datagrams or API calls in the run. (The statement's allowance "plus once per bootstrap completion"
  is not needed after the F18 repair.)
On the pinned tree the negation held (F18: one more chain per completion), demonstrated by the node
engine; repaired in /repo.
-/
namespace Btdht

def sixS : Nat := Constants.REFRESH_INTERVAL_TIMEOUT_ns
theorem sixS_eq : sixS = 6000000000 := by decide

/-- the monitor: a round must come at least 6 s after the previous one (`lr`) -/
def c18scan (lr : Option Nat) (t : Nat) : DEv → Option (Option Nat)
  | .round _ => match lr with
    | none => some (some t)
    | some p => if p + sixS ≤ t then some (some t) else none
  | _ => some lr

def DEv.isRound : DEv → Bool
  | .round _ => true
  | _ => false

theorem scan_noRound (lr : Option Nat) (t : Nat) (evs : List DEv) (h : ∀ e ∈ evs, e.isRound = false) :
    scanL c18scan lr t evs = some lr := by
  induction evs with
  | nil => rfl
  | cons e rest ih =>
    have he := h e (by simp)
    have : c18scan lr t e = some lr := by cases e <;> simp_all [c18scan, DEv.isRound]
    simp only [scanL, this]
    exact ih (fun x hx => h x (by simp [hx]))

theorem liftH_noRound (effs : List HEffect) : ∀ e ∈ liftH effs, e.isRound = false := by
  intro e he
  simp only [liftH, List.mem_map] at he
  obtain ⟨x, _, rfl⟩ := he
  cases x <;> rfl

theorem worker_noRound (e : DEv) (h : e.isWorker = true) : e.isRound = false := by
  cases e <;> simp_all [DEv.isWorker, DEv.isRound]

/-- the invariant: no refresh entry before the chain was started, never more than one, and the
pending one is due exactly 6 s after the last round -/
structure RInv (s : DState) (lr : Option Nat) : Prop where
  notStarted : s.refreshStarted = false → refreshEntries s.h.timer = [] ∧ lr = none
  atMostOne : (refreshEntries s.h.timer).length ≤ 1
  deadline : ∀ e ∈ refreshEntries s.h.timer, ∃ r, lr = some r ∧ e.deadline = r + sixS

theorem RInv.mono {s s' : DState} {lr : Option Nat} (h : RInv s lr) (hle : RLe s.h.timer s'.h.timer)
    (hs : s'.refreshStarted = s.refreshStarted) : RInv s' lr where
  notStarted := fun hn => by
    obtain ⟨h1, h2⟩ := h.notStarted (hs ▸ hn)
    unfold RLe at hle
    rw [h1] at hle
    exact ⟨List.sublist_nil.mp hle, h2⟩
  atMostOne := Nat.le_trans hle.length_le h.atMostOne
  deadline := fun e he => h.deadline e (hle.subset he)

theorem RInv.frame {s s' : DState} {lr : Option Nat} (h : RInv s lr) (hf : WFrame s s') : RInv s' lr :=
  h.mono (RLe.of_eq (by rw [hf.h])) hf.started

theorem filter_comm' {α} (p q : α → Bool) (l : List α) : List.filter p (List.filter q l) = List.filter q (List.filter p l) := by
  simp only [List.filter_filter]
  congr 1
  funext a
  exact Bool.and_comm _ _

theorem pop_refresh (t t' : Timer Task) (e : TimerEntry Task) (hp : t.pop = some (t', e)) :
    RLe t t' ∧ e ∈ t.entries ∧ (e.task = .tableRefresh → (refreshEntries t).length ≤ 1 → refreshEntries t' = []) := by
  have hmem := (C04_timer_order t t' e hp).1
  unfold Timer.pop at hp
  cases he : t.earliest with
  | none => simp [he] at hp
  | some m =>
    simp only [he, Option.some.injEq, Prod.mk.injEq] at hp
    obtain ⟨rfl, rfl⟩ := hp
    refine ⟨List.Sublist.filter _ List.filter_sublist, hmem, fun htask hlen => ?_⟩
    have hin : m ∈ refreshEntries t := by simp [refreshEntries, hmem, htask]
    have hall : refreshEntries t = [m] := by
      match hre : refreshEntries t, hin, hlen with
      | [x], hin, _ => simp at hin; rw [hin]
      | _ :: _ :: _, _, hlen => simp at hlen
    show List.filter _ (List.filter _ t.entries) = []
    rw [filter_comm']
    show List.filter _ (refreshEntries t) = []
    rw [hall]
    simp

theorem refreshRound_ok (s : DState) (lr : Option Nat) (now : Nat) (hst : s.refreshStarted = true)
    (hempty : refreshEntries s.h.timer = []) (hsp : ∀ p, lr = some p → p + sixS ≤ now) :
    Ok RInv c18scan lr now (s.refreshRound now) := by
  unfold DState.refreshRound
  simp only
  refine ⟨some now, ?_, ?_⟩
  · simp only [List.cons_append, List.nil_append, scanL]
    have : c18scan lr now (DEv.round (if s.h.refreshBucket = maxBuckets then 0 else s.h.refreshBucket)) = some (some now) := by
      cases lr with
      | none => rfl
      | some p => simp [c18scan, hsp p rfl]
    rw [this]
    exact scan_noRound _ _ _ (liftH_noRound _)
  · have hre := refresh_entries s.h now
    rw [hempty] at hre
    constructor
    · intro h; simp [hst] at h
    · simp only; rw [hre]; simp
    · intro e he
      simp only at he
      rw [hre] at he
      simp only [List.nil_append, List.mem_singleton] at he
      subst he
      exact ⟨now, rfl, rfl⟩

theorem firstRefresh_ok (s : DState) (g : Option Nat) (now : Nat) (h : RInv s g) :
    Ok RInv c18scan g now (s.firstRefresh now) := by
  unfold DState.firstRefresh
  cases hst : s.refreshStarted with
  | true => simp only [if_true]; exact ok_nil s g now h
  | false =>
    simp only [Bool.false_eq_true, if_false]
    obtain ⟨hempty, hnone⟩ := h.notStarted hst
    exact refreshRound_ok { s with refreshStarted := true } g now rfl hempty (by intro p hp; rw [hnone] at hp; cases hp)

theorem startQueued_ok (s : DState) (lr : Option Nat) (now : Nat) (h : RInv s lr) (ho : s.bootstrappedOnce = true) :
    Ok RInv c18scan lr now (s.startQueued now) := by
  unfold DState.startQueued
  have hf := foldl_pred (fun (acc : DState × List DEv) => acc.1.bootstrappedOnce = true ∧ RInv acc.1 lr ∧ ∀ e ∈ acc.2, e.isRound = false)
    (fun (acc : DState × List DEv) q => ((acc.1.startLookup q.1 q.2 now).1, acc.2 ++ (acc.1.startLookup q.1 q.2 now).2))
    (fun b a hb => by
      obtain ⟨h1, h2, h3⟩ := hb
      rw [startLookup_once b.1 a.1 a.2 now h1]
      refine ⟨h1, h2.mono (startLookup_rle _ _ _ _) rfl, ?_⟩
      intro e he
      rcases List.mem_append.mp he with he | he
      · exact h3 e he
      · exact liftH_noRound _ e he)
    s.queued ({ s with queued := [] }, []) ⟨ho, h.mono (RLe.refl _) rfl, by simp⟩
  exact ⟨lr, scan_noRound _ _ _ hf.2.2, hf.2.1⟩

theorem bootstrapSuccess_ok (s : DState) (g : Option Nat) (now : Nat) (h : RInv s g) :
    Ok RInv c18scan g now (s.bootstrapSuccess now) := by
  unfold DState.bootstrapSuccess
  simp only
  have hpre : Ok RInv c18scan g now ({ s with waiters := [] }, [DEv.bstate] ++ s.waiters.map DEv.resolved) := by
    refine ⟨g, ?_, h.mono (RLe.refl _) rfl⟩
    apply scan_noRound
    intro e he
    simp only [List.cons_append, List.nil_append, List.mem_cons, List.mem_map] at he
    rcases he with rfl | ⟨i, _, rfl⟩ <;> rfl
  refine Ok.seq hpre (fun g1 h1 => ?_)
  refine Ok.seq (s1 := (({ s with waiters := [] } : DState).firstRefresh now).1) (e1 := (({ s with waiters := [] } : DState).firstRefresh now).2)
    (firstRefresh_ok _ g1 now h1) (fun g2 h2 => ?_)
  exact startQueued_ok _ g2 now (h2.mono (RLe.refl _) rfl) rfl

theorem c18_obligations : Obligations RInv c18scan where
  clock := fun s g d h => h.mono (RLe.refl _) rfl
  oracle := fun s g fr h => h.mono (RLe.refl _) rfl
  worker := fun s g now r h hb => by
    obtain ⟨hf, hev⟩ := bStep_frame s now r hb
    exact ⟨g, scan_noRound _ _ _ (fun e he => by
      have := hev e he; cases e <;> simp_all [DEv.isWorkerMsg, DEv.isWorker, DEv.isRound]), h.frame hf⟩
  timer := fun s g now r h hf => by
    unfold DState.fireOne at hf
    cases hp : s.h.timer.pop with
    | none => simp [hp] at hf
    | some pe =>
      obtain ⟨timer, e⟩ := pe
      simp only [hp] at hf
      obtain ⟨hle, hmem, hone⟩ := pop_refresh _ _ _ hp
      split at hf
      · rename_i hdue
        have hpop : RInv { s with h := { s.h with timer := timer } } g := h.mono hle rfl
        split at hf
        · -- the refresh entry fires
          rename_i htask
          simp only [Option.some.injEq] at hf; subst hf
          have hempty := hone htask h.atMostOne
          have hin : e ∈ refreshEntries s.h.timer := by simp [refreshEntries, hmem, htask]
          obtain ⟨r0, hr0, hd0⟩ := h.deadline e hin
          have hstarted : s.refreshStarted = true := by
            cases hs : s.refreshStarted with
            | true => rfl
            | false => have := (h.notStarted hs).1; rw [this] at hin; simp at hin
          have hsp : ∀ p, g = some p → p + sixS ≤ now := by
            intro p hp'; rw [hr0] at hp'; cases hp'; omega
          have hok := refreshRound_ok { s with h := { s.h with timer := timer } } g now hstarted hempty hsp
          obtain ⟨g', hs', hi'⟩ := hok
          refine ⟨g', ?_, hi'⟩
          simp only [List.cons_append, List.nil_append, scanL]
          have : c18scan g now (DEv.timer e.task) = some g := rfl
          rw [this]; exact hs'
        · rename_i task hne
          simp only [Option.some.injEq] at hf; subst hf
          refine ⟨g, ?_, ?_⟩
          · simp only [List.cons_append, List.nil_append, scanL]
            have : c18scan g now (DEv.timer e.task) = some g := rfl
            rw [this]; exact scan_noRound _ _ _ (liftH_noRound _)
          · exact hpop.mono (handleTask_rle { s.h with timer := timer } e.task now (by intro hc; exact hne hc)) rfl
      · simp at hf
  observe := fun s g now h => by
    unfold DState.hObserve
    split
    · exact ok_nil s g now h
    · simp only
      split
      · exact bootstrapSuccess_ok _ g now (h.mono (RLe.refl _) rfl)
      · exact ok_nil _ g now (h.mono (RLe.refl _) rfl)
  command := fun s g now c h => by
    cases c with
    | startBootstrap =>
      simp only [DState.command]
      split
      · obtain ⟨hf, hev⟩ := beginAttempt_frame s now
        refine ⟨g, ?_, h.frame hf⟩
        apply scan_noRound
        intro e he
        simp only [List.cons_append, List.nil_append, List.mem_cons] at he
        rcases he with rfl | he
        · rfl
        · exact worker_noRound e (hev e he)
      · exact ⟨g, rfl, h⟩
    | checkBootstrap =>
      simp only [DState.command]
      split
      · exact ⟨g, rfl, h.mono (RLe.refl _) rfl⟩
      · exact ⟨g, rfl, h.mono (RLe.refl _) rfl⟩
    | startLookup ih ann =>
      simp only [DState.command, DState.startLookup]
      split
      · exact ⟨g, rfl, h.mono (RLe.refl _) rfl⟩
      · refine ⟨g, ?_, h.mono (startLookup_rle _ _ _ _) rfl⟩
        apply scan_noRound
        intro e he
        simp only [List.cons_append, List.nil_append, List.mem_cons] at he
        rcases he with rfl | he
        · rfl
        · exact liftH_noRound _ e he
    | getLocalAddr => exact ⟨g, rfl, h⟩
    | getState => exact ⟨g, rfl, h⟩
    | loadContacts => exact ⟨g, rfl, h⟩
  datagram := fun s g now tid body src h => by
    unfold DState.datagram
    simp only
    split
    · -- completes a pending exchange of the worker: the answer waits for the worker
      exact ⟨g, rfl, h.frame (wframe_ready s _)⟩
    · refine ⟨g, ?_, h.mono (handleIncoming_rle _ _ _ _ _) rfl⟩
      apply scan_noRound
      intro e he
      simp only [List.cons_append, List.nil_append, List.mem_cons] at he
      rcases he with rfl | he
      · rfl
      · exact liftH_noRound _ e he
  garbage := fun s g now src h => ⟨g, rfl, h⟩

/-- a fresh node satisfies the invariant -/
theorem rinv_new (selfId : Bytes) (addr : Addr) (ro : Bool) (port : Option Nat) (fa : List Addr) (cfg : BConfig) (now : Nat) :
    RInv (DState.new selfId addr ro port fa cfg now) none :=
  ⟨fun _ => ⟨rfl, rfl⟩, by simp [DState.new, HState.new, refreshEntries, Timer.new], by simp [DState.new, HState.new, refreshEntries, Timer.new]⟩

/-- the times of the refresh rounds of a run, in order -/
def roundTime? (e : Nat × DEv) : Option Nat :=
  match e.2 with
  | .round _ => some e.1
  | _ => none

def roundTimes (evs : List (Nat × DEv)) : List Nat := evs.filterMap roundTime?

/-- each round at least 6 s after the one before (`lr`: the last round before the list) -/
def spaced : Option Nat → List Nat → Prop
  | _, [] => True
  | lr, r :: rest => (∀ p, lr = some p → p + sixS ≤ r) ∧ spaced (some r) rest

theorem c18scan_other (lr : Option Nat) (t : Nat) (ev : DEv) (h : ev.isRound = false) : c18scan lr t ev = some lr := by
  cases ev <;> first | rfl | (simp [DEv.isRound] at h)

theorem roundTime_other (t : Nat) (ev : DEv) (h : ev.isRound = false) : roundTime? (t, ev) = none := by
  cases ev <;> first | rfl | (simp [DEv.isRound] at h)

theorem isRound_round (ev : DEv) (h : ev.isRound = true) : ∃ b, ev = .round b := by
  cases ev <;> first | exact ⟨_, rfl⟩ | (simp [DEv.isRound] at h)

theorem spaced_cons (lr : Option Nat) (r : Nat) (rest : List Nat) :
    spaced lr (r :: rest) ↔ ((∀ p, lr = some p → p + sixS ≤ r) ∧ spaced (some r) rest) := Iff.rfl

theorem scan_spaced (lr lr' : Option Nat) (evs : List (Nat × DEv)) (h : scanT c18scan lr evs = some lr') :
    spaced lr (roundTimes evs) := by
  induction evs generalizing lr with
  | nil => trivial
  | cons e rest ih =>
    obtain ⟨t, ev⟩ := e
    simp only [scanT] at h
    cases hr : ev.isRound with
    | true =>
      obtain ⟨b, rfl⟩ := isRound_round ev hr
      have h2 : roundTimes ((t, DEv.round b) :: rest) = t :: roundTimes rest := rfl
      rw [h2, spaced_cons]
      cases lr with
      | none =>
        have h3 : c18scan none t (DEv.round b) = some (some t) := rfl
        rw [h3] at h
        exact ⟨(by intro p hp; cases hp), ih (some t) h⟩
      | some p =>
        have h3 : c18scan (some p) t (DEv.round b) = if p + sixS ≤ t then some (some t) else none := rfl
        rw [h3] at h
        by_cases hle : p + sixS ≤ t
        · rw [if_pos hle] at h
          exact ⟨(by intro q hq; cases hq; exact hle), ih (some t) h⟩
        · rw [if_neg hle] at h
          cases h
    | false =>
      rw [c18scan_other lr t ev hr] at h
      have h2 : roundTimes ((t, ev) :: rest) = roundTimes rest := by
        simp only [roundTimes, List.filterMap_cons, roundTime_other t ev hr]
      rw [h2]
      exact ih lr h

/-- **C18 (single chain)**: in every state of every run of a node at most one `TableRefresh` entry
is pending, and none before the first refresh round. -/
theorem C18_single_chain (selfId : Bytes) (addr : Addr) (ro : Bool) (port : Option Nat) (fa : List Addr) (cfg : BConfig)
    (t0 : Nat) (ins : List DInput) :
    (refreshEntries ((DState.new selfId addr ro port fa cfg t0).run ins).1.h.timer).length ≤ 1 ∧
    (((DState.new selfId addr ro port fa cfg t0).run ins).1.refreshStarted = false →
      refreshEntries ((DState.new selfId addr ro port fa cfg t0).run ins).1.h.timer = []) := by
  obtain ⟨g, _, hi⟩ := run_ok c18_obligations _ none ins (rinv_new selfId addr ro port fa cfg t0)
  exact ⟨hi.atMostOne, fun h => (hi.notStarted h).1⟩

/-- **C18 (spacing)**: in every run consecutive refresh rounds are at least 6 seconds apart,
whatever the inputs: re-bootstraps, outages, searches, datagrams, API calls. -/
theorem C18_round_spacing (selfId : Bytes) (addr : Addr) (ro : Bool) (port : Option Nat) (fa : List Addr) (cfg : BConfig)
    (t0 : Nat) (ins : List DInput) :
    spaced none (roundTimes ((DState.new selfId addr ro port fa cfg t0).run ins).2) := by
  obtain ⟨g, hs, _⟩ := run_ok c18_obligations _ none ins (rinv_new selfId addr ro port fa cfg t0)
  exact scan_spaced none g _ hs

theorem spaced_get (lr : Option Nat) (rs : List Nat) (h : spaced lr rs) (i j : Nat) (hij : i ≤ j) (hj : j < rs.length) :
    rs[i]'(by omega) + (j - i) * sixS ≤ rs[j] := by
  induction rs generalizing lr i j with
  | nil => simp at hj
  | cons r rest ih =>
    obtain ⟨h1, h2⟩ := h
    cases i with
    | zero =>
      cases j with
      | zero => simp
      | succ j' =>
        simp only [List.getElem_cons_zero, List.getElem_cons_succ, Nat.sub_zero]
        -- rest[0] ≥ r + 6s and rest[j'] ≥ rest[0] + j'·6s
        have hj' : j' < rest.length := by simpa using hj
        have hstep := ih (some r) h2 0 j' (Nat.zero_le _) hj'
        have hfirst : r + sixS ≤ rest[0]'(by omega) := by
          match rest, h2 with
          | x :: _, ⟨hx, _⟩ => exact hx r rfl
        simp only [Nat.sub_zero] at hstep
        have : (j' + 1) * sixS = j' * sixS + sixS := Nat.succ_mul j' sixS
        omega
    | succ i' =>
      cases j with
      | zero => omega
      | succ j' =>
        simp only [List.getElem_cons_succ]
        have := ih (some r) h2 i' j' (by omega) (by simpa using hj)
        have he : j' + 1 - (i' + 1) = j' - i' := by omega
        rw [he]; exact this

/-- **C18 (rate)**: the `k`-th refresh round after any round of a run comes at least `6·k` seconds
later; equivalently the rounds `i..j` of a run (`j − i + 1` of them) need a window of at least
`6·(j − i)` seconds — the rate never exceeds one round per 6 s plus one, however often the node
re-bootstrapped before or during the window. -/
theorem C18_rate (selfId : Bytes) (addr : Addr) (ro : Bool) (port : Option Nat) (fa : List Addr) (cfg : BConfig)
    (t0 : Nat) (ins : List DInput) (i j : Nat) (hij : i ≤ j)
    (hj : j < (roundTimes ((DState.new selfId addr ro port fa cfg t0).run ins).2).length) :
    (roundTimes ((DState.new selfId addr ro port fa cfg t0).run ins).2)[i]'(by omega) + (j - i) * 6000000000 ≤
      (roundTimes ((DState.new selfId addr ro port fa cfg t0).run ins).2)[j] := by
  have := spaced_get none _ (C18_round_spacing selfId addr ro port fa cfg t0 ins) i j hij hj
  rw [sixS_eq] at this
  exact this

end Btdht
