import Btdht.Proofs.Table
import Btdht.Proofs.Split
/-!
# C08 — Routing table keeps its shape; a node is only traded for a strictly better one

"At all times the live (good or questionable) part of the routing table never lists the node's own
id, a router address, or a node in bad standing; no (id, address) pair appears twice; every node
sits in the bucket matching the length of the id prefix it shares with the local id and no bucket
holds more than 8 nodes. Offering a node removes at most one other node, never one of equal or
better standing (good > questionable > bad), and never any live node while its bucket still has a
free or bad slot. A full bucket of good nodes rejects newcomers, and when room or a worse node
exists (splitting only the bucket that covers the local id) the offered node is admitted."

Model: `Btdht.Bucket`, `Btdht.Table` (src/bucket.rs, src/table.rs), tied by the `table` engine
(every slot of every bucket compared at dumps; shape and trade rule evaluated on the real table).
The router set is fixed before the first offer (as in each bootstrap attempt).

Proved for all operation sequences: the shape invariant (`C08_inv`, `C08_live_shape`,
`C08_live_distinct`, `C08_bucket_size`). Proved for every single offer at bucket level: the trade
rule, rejection by a full bucket of good nodes, admission when room or a worse node exists
(`C08_trade`, `C08_full_good_rejects`, `C08_admit`), and at table level that an offer which does
not split touches only the placement bucket (`C08_offer_local`) and that an unsplittable full
bucket leaves the table unchanged (`C08_offer_rejected`).
Proved at table level for every offer to every table satisfying the invariant (so after any
operation sequence), across any number of bucket splits: `split_bucket` re-adds every live node of
the split bucket and touches no other bucket (`C08_split_lossless`); an offer removes at most one
other live node, of strictly lower standing, and only from a bucket whose 8 slots are all live
(`C08_table_trade`); an admissible newcomer is admitted unless its final placement bucket — after
all the splits the code may perform — holds 8 live nodes none of which ranks below it
(`C08_table_admit`); an inadmissible one (router address, bad standing, own id) changes nothing
(`C08_offer_filtered`).
-/
namespace Btdht

/-- what the handler, bootstrap, lookups and refresh do to the table -/
inductive TOp where
  | offer (n : Node) (now : Nat)                 -- `add_node` with any node value (responder, hearsay, ...)
  | localRequest (h : Handle) (now : Nat)        -- `find_node_mut(h).local_request()`
  | remoteRequest (h : Handle) (now : Nat)       -- `find_node_mut(h).remote_request()`

def Table.applyOp (t : Table) : TOp → Table
  | .offer n now => t.addNode n now
  | .localRequest h now => (t.modifyNode h now (fun m => m.localRequest now)).1
  | .remoteRequest h now => (t.modifyNode h now (fun m => m.remoteRequest now)).1

def Table.runOps (t : Table) : List TOp → Table
  | [] => t
  | o :: os => Table.runOps (t.applyOp o) os

/-- a fresh table with its router set installed -/
def Table.init (selfId : Bytes) (routers : List Addr) : Table := { Table.new selfId with routers := routers }

theorem tinv_init (selfId : Bytes) (routers : List Addr) : TInv (Table.init selfId routers) := by
  have h := tinv_new selfId
  exact ⟨h.len_pos, h.len_le, h.slots, fun i hi m hm => by
    have hi' : i < (Table.new selfId).buckets.length := hi
    simp only [Table.new, List.length_singleton] at hi'
    have : i = 0 := by omega
    subst this
    exact Or.inl (bucketNew_dead m (by simpa [Table.init, Table.new] using hm)), h.handles⟩

theorem applyOp_inv (t : Table) (o : TOp) (h : TInv t) : TInv (t.applyOp o) ∧ SameEnv t (t.applyOp o) := by
  cases o with
  | offer n now => exact tinv_addNode t n now h
  | localRequest hd now =>
    refine tinv_modifyNode t hd now _ h (fun m => ?_)
    unfold Node.localRequest; simp only; split <;> exact ⟨rfl, rfl⟩
  | remoteRequest hd now => exact tinv_modifyNode t hd now _ h (fun m => ⟨rfl, rfl⟩)

/-- **C08 (shape invariant)**: after every sequence of offers (any node values: responders,
hearsay, repeats, own id, router addresses, bad nodes), request marks and passage of time, the
table satisfies `TInv`, keeps its own id and its router set. -/
theorem C08_inv (selfId : Bytes) (routers : List Addr) (ops : List TOp) :
    TInv ((Table.init selfId routers).runOps ops) ∧
    SameEnv (Table.init selfId routers) ((Table.init selfId routers).runOps ops) := by
  suffices ∀ (ops : List TOp) (t : Table), TInv t → TInv (t.runOps ops) ∧ SameEnv t (t.runOps ops) from
    this ops _ (tinv_init selfId routers)
  intro ops
  induction ops with
  | nil => intro t h; exact ⟨h, sameEnv_refl t⟩
  | cons o os ih =>
    intro t h
    obtain ⟨h1, e1⟩ := applyOp_inv t o h
    obtain ⟨h2, e2⟩ := ih _ h1
    exact ⟨h2, sameEnv_trans e1 e2⟩

theorem status_live_answered (n : Node) (now : Nat) (h : n.status now ≠ .bad) : n.lastResponse ≠ none := by
  intro hn; apply h; simp [Node.status, hn]

/-- **C08 (shape of the live part)**: in a table satisfying the invariant, a node that is good or
questionable at any time `now` does not carry the local id (20 bytes), is not at a router address,
and sits in bucket `i` where `i` is its shared-prefix length — or, in the last bucket, at least
that — and the table has between 1 and 160 buckets. -/
theorem C08_live_shape (t : Table) (h : TInv t) (hself : t.selfId.length = 20)
    (i : Nat) (hi : i < t.buckets.length) (m : Node) (hm : m ∈ t.buckets[i].nodes) (now : Nat)
    (hlive : m.status now ≠ .bad) :
    m.handle.id ≠ t.selfId ∧ t.routers.contains m.handle.addr = false ∧
    (i + 1 < t.buckets.length → lcp t.selfId m.handle.id = i) ∧
    (i + 1 = t.buckets.length → i ≤ lcp t.selfId m.handle.id) ∧
    1 ≤ t.buckets.length ∧ t.buckets.length ≤ 160 := by
  rcases h.placed i hi m hm with hnone | ⟨h1, h2, h3⟩
  · exact absurd hnone (status_live_answered m now hlive)
  · refine ⟨?_, h2, h3.1, h3.2, h.len_pos, h.len_le⟩
    intro heq
    apply h1
    rw [heq]
    unfold lcp
    rw [commonPrefix_self, idBits_length, hself]
    decide

/-- **C08 (no pair twice)**: two different slots of the table never hold live nodes with the same
(id, address) pair. -/
theorem C08_live_distinct (t : Table) (h : TInv t)
    (i j : Nat) (hi : i < t.buckets.length) (hj : j < t.buckets.length)
    (a c : Nat) (ha : a < t.buckets[i].nodes.length) (hc : c < t.buckets[j].nodes.length)
    (hne : (i, a) ≠ (j, c)) (now : Nat)
    (hla : (t.buckets[i].nodes[a]).status now ≠ .bad) (hlc : (t.buckets[j].nodes[c]).status now ≠ .bad) :
    (t.buckets[i].nodes[a]).handle ≠ (t.buckets[j].nodes[c]).handle := by
  intro heq
  have hra := status_live_answered _ now hla
  have hrc := status_live_answered _ now hlc
  by_cases hij : i = j
  · subst hij
    have hac : a ≠ c := fun e => hne (by rw [e])
    have hh := h.handles t.buckets[i] (List.getElem_mem hi)
    unfold HandlesOk at hh
    rw [List.pairwise_iff_getElem] at hh
    rcases Nat.lt_or_gt_of_ne hac with hlt | hgt
    · exact hrc (hh a c ha hc hlt heq)
    · exact hra (hh c a hc ha hgt heq.symm)
  · -- different buckets: the shared-prefix lengths differ, so the ids differ
    have pa := h.placed i hi _ (List.getElem_mem ha)
    have pc := h.placed j hj _ (List.getElem_mem hc)
    rcases pa with hn | ⟨_, _, p1⟩
    · exact hra hn
    · rcases pc with hn | ⟨_, _, p2⟩
      · exact hrc hn
      · have hid : lcp t.selfId (t.buckets[i].nodes[a]).handle.id = lcp t.selfId (t.buckets[j].nodes[c]).handle.id := by
          rw [heq]
        unfold Placed at p1 p2
        rcases Nat.lt_or_gt_of_ne hij with hlt | hgt
        · have e1 := p1.1 (by omega)
          by_cases hlast : j + 1 = t.buckets.length
          · have := p2.2 hlast; omega
          · have := p2.1 (by omega); omega
        · have e2 := p2.1 (by omega)
          by_cases hlast : i + 1 = t.buckets.length
          · have := p1.2 hlast; omega
          · have := p1.1 (by omega); omega

/-- **C08 (bucket size)**: every bucket has exactly 8 slots, so never more than 8 nodes. -/
theorem C08_bucket_size (t : Table) (h : TInv t) (b : Bucket) (hb : b ∈ t.buckets) : b.nodes.length = 8 :=
  h.slots b hb

/-- **C08 (trade rule)**: one offer to a bucket changes at most one slot; a live node with another
handle disappears only if the bucket had no free/bad slot at all and the node's standing is
strictly below the newcomer's. -/
theorem C08_trade (b : Bucket) (n : Node) (now : Nat) :
    ∃ i, (∀ j, j ≠ i → (b.addNode n now).1.nodes[j]? = b.nodes[j]?) ∧
      ∀ (hi : i < b.nodes.length), b.nodes[i].status now ≠ .bad → b.nodes[i].handle ≠ n.handle →
        (b.addNode n now).1.nodes[i]? ≠ some b.nodes[i] →
        b.nodes[i].status now < n.status now ∧ ∀ x ∈ b.nodes, x.status now ≠ .bad := by
  have ho := addNode_outcome b n now
  generalize b.addNode n now = r at ho
  cases ho with
  | offeredBad _ => exact ⟨0, fun _ _ => rfl, fun hi _ _ hch => absurd (List.getElem?_eq_getElem hi) hch⟩
  | rejected _ _ _ _ => exact ⟨0, fun _ _ => rfl, fun hi _ _ hch => absurd (List.getElem?_eq_getElem hi) hch⟩
  | updated i hi _ heq _ =>
    refine ⟨i, fun j hj => ?_, fun _ _ hne _ => absurd heq hne⟩
    simp only [List.getElem?_modify]
    simp [Ne.symm hj]
  | tookFree i hi _ _ hbad =>
    refine ⟨i, fun j hj => ?_, fun _ hlive _ _ => absurd hbad hlive⟩
    simp only [List.getElem?_set]
    simp [Ne.symm hj]
  | evicted i hi _ _ hnobad hlt =>
    refine ⟨i, fun j hj => ?_, fun _ _ _ _ => ⟨hlt, hnobad⟩⟩
    simp only [List.getElem?_set]
    simp [Ne.symm hj]

/-- **C08 (a full bucket of good nodes rejects newcomers)** -/
theorem C08_full_good_rejects (b : Bucket) (n : Node) (now : Nat)
    (hgood : ∀ x ∈ b.nodes, x.status now = .good) (hnew : ∀ x ∈ b.nodes, x.handle ≠ n.handle)
    (hlive : n.status now ≠ .bad) : b.addNode n now = (b, false) := by
  have ho := addNode_outcome b n now
  generalize b.addNode n now = r at ho
  cases ho with
  | offeredBad hb => exact absurd hb hlive
  | rejected _ _ _ _ => rfl
  | updated i hi _ heq _ => exact absurd heq (hnew _ (List.getElem_mem hi))
  | tookFree i hi _ _ hbad => rw [hgood _ (List.getElem_mem hi)] at hbad; exact absurd hbad (by decide)
  | evicted i hi _ _ _ hlt =>
    rw [hgood _ (List.getElem_mem hi)] at hlt
    have : n.status now = .bad ∨ n.status now = .questionable ∨ n.status now = .good := by
      cases n.status now <;> simp
    rcases this with h | h | h <;> rw [h] at hlt <;> exact absurd hlt (by decide)

/-- **C08 (admission)**: a live newcomer is in the bucket afterwards whenever the bucket has a
free/bad slot or a node of strictly lower standing. -/
theorem C08_admit (b : Bucket) (n : Node) (now : Nat) (hlive : n.status now ≠ .bad)
    (hnew : ∀ x ∈ b.nodes, x.handle ≠ n.handle)
    (hroom : ∃ x ∈ b.nodes, x.status now = .bad ∨ x.status now < n.status now) :
    (b.addNode n now).2 = true ∧ n ∈ (b.addNode n now).1.nodes := by
  have ho := addNode_outcome b n now
  generalize b.addNode n now = r at ho
  cases ho with
  | offeredBad hb => exact absurd hb hlive
  | updated i hi _ heq _ => exact absurd heq (hnew _ (List.getElem_mem hi))
  | tookFree i hi _ _ _ => exact ⟨rfl, List.mem_set hi _⟩
  | evicted i hi _ _ _ _ => exact ⟨rfl, List.mem_set hi _⟩
  | rejected _ _ hnobad hnoworse =>
    obtain ⟨x, hx, hbad | hlt⟩ := hroom
    · exact absurd hbad (hnobad x hx)
    · exact absurd hlt (hnoworse x hx)

/-- **C08 (re-offering a listed node)** touches only that node's slot and keeps its handle. -/
theorem C08_update_in_place (b : Bucket) (n : Node) (now : Nat) (hlive : n.status now ≠ .bad)
    (i : Nat) (hi : i < b.nodes.length) (hhere : b.nodes[i].handle = n.handle)
    (hfirst : ∀ j (hj : j < i), (b.nodes[j]'(Nat.lt_trans hj hi)).handle ≠ n.handle) :
    b.addNode n now = ({ nodes := b.nodes.modify i (fun m => m.update n now) }, true) := by
  have ho := addNode_outcome b n now
  generalize b.addNode n now = r at ho
  cases ho with
  | offeredBad hb => exact absurd hb hlive
  | updated k hk _ heq hfk =>
    have : k = i := by
      rcases Nat.lt_trichotomy k i with h | h | h
      · exact absurd heq (hfirst k h)
      · exact h
      · exact absurd hhere (hfk i h)
    subst this; rfl
  | tookFree _ _ _ hno _ => exact absurd hhere (hno _ (List.getElem_mem hi))
  | evicted _ _ _ hno _ _ => exact absurd hhere (hno _ (List.getElem_mem hi))
  | rejected _ hno _ _ => exact absurd hhere (hno _ (List.getElem_mem hi))

theorem maxBuckets_succ : maxBuckets = 159 + 1 := by decide

/-- **C08 (an offer that needs no split touches one bucket only)**: for an admissible node (not a
router address, not bad, not the own id) whose placement bucket accepts it, the table changes in
that bucket only, by the bucket-level rule above. -/
theorem C08_offer_local (t : Table) (n : Node) (now : Nat) (b : Bucket)
    (hr : t.routers.contains n.handle.addr = false) (hlive : n.status now ≠ .bad)
    (hk : lcp t.selfId n.handle.id ≠ maxBuckets)
    (hb : t.buckets[bucketPlacement (lcp t.selfId n.handle.id) t.buckets.length]? = some b)
    (hok : (b.addNode n now).2 = true) :
    t.addNode n now = { t with buckets := t.buckets.set (bucketPlacement (lcp t.selfId n.handle.id) t.buckets.length)
                                            (b.addNode n now).1 } := by
  unfold Table.addNode
  rw [Table.addNodeF.eq_1]
  simp only [hr, Bool.false_eq_true, if_false, hlive, hk]
  rw [maxBuckets_succ, Table.addNodeF.bucketNodeF.eq_2]
  simp only [hb]
  cases hres : b.addNode n now with
  | mk b' ok =>
    rw [hres] at hok
    simp only at hok
    simp only [hok, if_true]

/-- **C08 (a full bucket that cannot be split leaves the table unchanged)** -/
theorem C08_offer_rejected (t : Table) (n : Node) (now : Nat) (b : Bucket)
    (hb : t.buckets[bucketPlacement (lcp t.selfId n.handle.id) t.buckets.length]? = some b)
    (hfull : (b.addNode n now).2 = false)
    (hnosplit : canSplitBucket t.buckets.length (bucketPlacement (lcp t.selfId n.handle.id) t.buckets.length) = false) :
    t.addNode n now = t := by
  unfold Table.addNode
  rw [Table.addNodeF.eq_1]
  by_cases hr : t.routers.contains n.handle.addr = true
  · simp only [hr, if_true]
  · simp only [hr, Bool.false_eq_true, if_false]
    by_cases hbad : n.status now = .bad
    · simp only [hbad, if_true]
    · simp only [hbad, if_false]
      by_cases hk : lcp t.selfId n.handle.id = maxBuckets
      · simp only [hk, if_true]
      · simp only [hk, if_false]
        rw [maxBuckets_succ, Table.addNodeF.bucketNodeF.eq_2]
        simp only [hb]
        cases hres : b.addNode n now with
        | mk b' ok =>
          rw [hres] at hfull
          simp only at hfull
          simp only [hfull, Bool.false_eq_true, if_false, hnosplit]

/-- an offer is *admissible* when it passes the three filters of `RoutingTable::add_node` -/
def Admissible (t : Table) (n : Node) (now : Nat) : Prop :=
  t.routers.contains n.handle.addr = false ∧ n.status now ≠ .bad ∧ lcp t.selfId n.handle.id ≠ maxBuckets

/-- **C08 (router addresses, bad nodes and the own id are never admitted)**: such an offer leaves
the table as it is. -/
theorem C08_offer_filtered (t : Table) (n : Node) (now : Nat) (h : ¬ Admissible t n now) :
    t.addNode n now = t := by
  unfold Table.addNode
  rw [Table.addNodeF.eq_1]
  by_cases hr : t.routers.contains n.handle.addr = true
  · simp only [hr, if_true]
  · by_cases hb : n.status now = .bad
    · simp only [hr, hb, if_true, Bool.false_eq_true, if_false]
    · by_cases hk : lcp t.selfId n.handle.id = maxBuckets
      · simp only [hr, hb, hk, if_true, Bool.false_eq_true, if_false]
      · exact absurd ⟨by simpa using hr, hb, hk⟩ h

/-- **C08 (`split_bucket` loses nothing; only the bucket covering the local id is split)**: for
every table satisfying the invariant and every admissible offer, `add_node` is: zero or more
splits leading to a table `tm` that (i) still satisfies the invariant, (ii) holds every node of
`t` that is live at `now` (same `Node` value), (iii) holds nothing but slots of `t` and
placeholders, (iv) agrees with `t` on every bucket but the last; followed by exactly one
bucket-level `Bucket::add_node` on the placement bucket `b` of `tm` (to which `C08_trade`,
`C08_full_good_rejects`, `C08_admit` apply). A split happens only when the placement bucket is the
last one, is not bucket 159 and refused the node; if the node is refused in the end, no further
split is possible. -/
theorem C08_split_lossless (t : Table) (ht : TInv t) (n : Node) (now : Nat) (hadm : Admissible t n now) :
    ∃ tm b, OfferShape t n (lcp t.selfId n.handle.id) now (t.addNode n now) tm b := by
  obtain ⟨hr, hb, hk⟩ := hadm
  have hshape := bucketNodeF_shape maxBuckets t n (lcp t.selfId n.handle.id) now ht rfl hk hr
    (by have := ht.len_pos; omega)
  unfold Table.addNode
  rw [Table.addNodeF.eq_1]
  simp only [hr, hb, hk, Bool.false_eq_true, if_false]
  exact hshape

/-- **C08 (table-level trade rule)**: whatever is offered to a table satisfying the invariant, every
node that was live before and carries another (id, address) pair is still in the table afterwards
(possibly in another bucket, after splits), with at most one exception — the victim — whose
standing is strictly below the newcomer's and whose bucket consisted of 8 live nodes of `t` (no
free or bad slot). -/
theorem C08_table_trade (t : Table) (ht : TInv t) (n : Node) (now : Nat) :
    ∃ victim : Option Node,
      (∀ m ∈ t.allNodes, m.status now ≠ .bad → m.handle ≠ n.handle →
        m ∈ (t.addNode n now).allNodes ∨ victim = some m) ∧
      (∀ v, victim = some v → v.status now < n.status now ∧
        ∃ b : Bucket, v ∈ b.nodes ∧ b.nodes.length = 8 ∧ ∀ x ∈ b.nodes, x.status now ≠ .bad ∧ x ∈ t.allNodes) := by
  by_cases hadm : Admissible t n now
  · obtain ⟨tm, b, sh⟩ := C08_split_lossless t ht n now hadm
    obtain ⟨victim, hkeep, hvic⟩ := addNode_keeps b n now
    refine ⟨victim, fun m hm hl hne => ?_, fun v hv => ?_⟩
    · by_cases hv : victim = some m
      · exact Or.inr hv
      · left
        rw [sh.result]
        refine mem_allNodes_set tm _ b _ sh.bucket m (sh.lossless m hm hl) (fun hmb => ?_)
        rcases hkeep m hmb hl hne with h | h
        · exact h
        · exact absurd h hv
    · obtain ⟨hvb, hlt, hnobad⟩ := hvic v hv
      have hbmem : b ∈ tm.buckets := List.mem_of_getElem? sh.bucket
      refine ⟨hlt, b, hvb, sh.inv.slots b hbmem, fun x hx => ⟨hnobad x hx, ?_⟩⟩
      rcases sh.noNew x ((mem_allNodes tm x).mpr ⟨b, hbmem, hx⟩) with h | h
      · exact h
      · exact absurd (status_bad_of_none x now h) (hnobad x hx)
  · rw [C08_offer_filtered t n now hadm]
    exact ⟨none, fun m hm _ _ => Or.inl hm, fun v hv => by simp at hv⟩

/-- **C08 (table-level admission)**: an admissible newcomer whose (id, address) pair is not live in
the table is in the table afterwards — unless the bucket it finally belongs to, after every split
the code may perform, consists of 8 live nodes of `t` none of which ranks below the newcomer, and
that bucket cannot be split (it is not the bucket covering the local id, or it is bucket 159). -/
theorem C08_table_admit (t : Table) (ht : TInv t) (n : Node) (now : Nat) (hadm : Admissible t n now)
    (hnew : ∀ x ∈ t.allNodes, x.status now ≠ .bad → x.handle ≠ n.handle) :
    n ∈ (t.addNode n now).allNodes ∨
    ∃ (tm : Table) (b : Bucket), Lossless t tm now ∧ t.addNode n now = tm ∧
      tm.buckets[bucketPlacement (lcp t.selfId n.handle.id) tm.buckets.length]? = some b ∧
      canSplitBucket tm.buckets.length (bucketPlacement (lcp t.selfId n.handle.id) tm.buckets.length) = false ∧
      b.nodes.length = 8 ∧
      ∀ x ∈ b.nodes, x ∈ t.allNodes ∧ x.status now ≠ .bad ∧ ¬ (x.status now < n.status now) := by
  obtain ⟨tm, b, sh⟩ := C08_split_lossless t ht n now hadm
  have hbmem : b ∈ tm.buckets := List.mem_of_getElem? sh.bucket
  obtain ⟨hidx, hbe⟩ := List.getElem?_eq_some_iff.mp sh.bucket
  have hin : ∀ x ∈ (b.addNode n now).1.nodes, x ∈ (t.addNode n now).allNodes := by
    intro x hx
    rw [sh.result, mem_allNodes]
    exact ⟨_, List.mem_set hidx _, hx⟩
  have hsameb : ∀ x ∈ b.nodes, x.handle = n.handle → x.status now = .bad := by
    intro x hx he
    refine Classical.byContradiction fun hl => ?_
    rcases sh.noNew x ((mem_allNodes tm x).mpr ⟨b, hbmem, hx⟩) with h | h
    · exact hnew x h hl he
    · exact hl (status_bad_of_none x now h)
  have ho := addNode_outcome b n now
  generalize hres : b.addNode n now = r at ho hin
  cases ho with
  | offeredBad hb => exact absurd hb hadm.2.1
  | updated i hi _ heq _ =>
    left
    apply hin
    have hbad := hsameb _ (List.getElem_mem hi) heq
    simp only
    rw [modify_eq_set' _ _ _ hi, update_of_bad _ _ _ hbad hadm.2.1]
    exact List.mem_set hi _
  | tookFree i hi _ _ _ => exact Or.inl (hin _ (List.mem_set hi _))
  | evicted i hi _ _ _ _ => exact Or.inl (hin _ (List.mem_set hi _))
  | rejected _ _ hnobad hnoworse =>
    right
    refine ⟨tm, b, sh.lossless, ?_, sh.bucket, sh.final (by rw [hres]), sh.inv.slots b hbmem, fun x hx => ⟨?_, hnobad x hx, hnoworse x hx⟩⟩
    · rw [sh.result, hres]
      exact table_set_self tm _ b sh.bucket
    · rcases sh.noNew x ((mem_allNodes tm x).mpr ⟨b, hbmem, hx⟩) with h | h
      · exact h
      · exact absurd (status_bad_of_none x now h) (hnobad x hx)

/-- Non-vacuity of the table-level theorems: a fresh table with a router set satisfies the
invariant and a responder with another id is admissible (tables that split are produced by the
`table` engine on the real code and the model in lockstep: 160-bucket tables occur in every run). -/
example :
    let t := Table.init (List.replicate 20 0) [⟨false, [10, 0, 0, 9], 1⟩]
    let n := Node.asGood ⟨1 :: List.replicate 19 0, ⟨false, [10, 0, 0, 1], 1⟩⟩ 1000
    TInv t ∧ Admissible t n 1000 ∧ ¬ Admissible t (Node.asGood ⟨[1], ⟨false, [10, 0, 0, 9], 1⟩⟩ 1000) 1000 :=
  ⟨tinv_init _ _, by unfold Admissible; decide, by unfold Admissible; decide⟩

/-- Non-vacuity / regression for defect F08 (fixed in /repo): a questionable node followed by a
good one into an empty bucket — both are kept. -/
example :
    let q := Node.asQuestionable ⟨[1], ⟨false, [10,0,0,1], 1⟩⟩ 1000000000000
    let g := Node.asGood ⟨[2], ⟨false, [10,0,0,2], 2⟩⟩ 1000000000000
    let b := ((Bucket.new.addNode q 1000000000000).1.addNode g 1000000000000).1
    b.nodes.take 2 = [q, g] := by
  decide

end Btdht
