import Btdht.Proofs.GuardTie.Lookup
import Btdht.Proofs.Handler
/-!
# C03 — Searches never fabricate peers, tokens or announce targets on hostile networks

"Whatever remote parties send (loss, delay, duplication, reordering, forged or malformed
datagrams), every address a search stream yields was contained in the values of a response whose
transaction id equals that of a still-outstanding get_peers query of that same search. Every
announce_peer goes only to a node (id and address) that answered this search with a token, carries
the latest token from that node and the searched info-hash, is sent at most 8 times per search, and
never when announcing was not requested."

Model: `Btdht.Lookup` (src/action/lookup.rs) and the response routing of `Btdht.HState`
(src/handler.rs), tied to the code by the `handler` engine (lockstep on hostile network scenarios;
provenance oracle on the real node). Events are universally quantified: any response, from any
source, with any transaction id, in any order.
-/
namespace Btdht

/-- **C03 (yield provenance)**: a lookup yields an address only while handling a response whose
transaction id is one of its outstanding ids, only on its own stream, and only addresses contained
in that response's values. -/
theorem C03_yield_provenance (l : Lookup) (env : LEnv) (fr : Handle) (tid : Tid) (rsp : Resp) (st : Nat) (a : Addr)
    (h : Effect.yield st a ∈ (l.recvResponse env fr tid rsp).2.2) :
    (∃ entry, l.active.find? (·.1 = tid) = some entry) ∧ st = l.stream ∧ a ∈ rsp.values := by
  cases hf : l.active.find? (·.1 = tid) with
  | none => rw [recvResponse_unknown l env fr tid rsp hf] at h; simp at h
  | some entry =>
    obtain ⟨sends, hs, heq, _⟩ := recvResponse_accepted env.table l env fr tid rsp entry hf (.refl _)
    rw [heq] at h
    rcases List.mem_append.mp h with h1 | h1
    · have := hs _ h1; simp [Effect.isSend] at this
    · simp only [List.mem_map] at h1
      obtain ⟨b, hb, e⟩ := h1
      injection e with e1 e2
      exact ⟨⟨entry, rfl⟩, e1.symm, e2 ▸ hb⟩

/-- ... and it yields *every* value of an accepted response, once per occurrence, in order
(this is also the second sentence of C02). -/
theorem C03_yields_exactly (l : Lookup) (env : LEnv) (fr : Handle) (tid : Tid) (rsp : Resp)
    (entry : Tid × Bytes × (Nat × Nat)) (hf : l.active.find? (·.1 = tid) = some entry) :
    ∃ sends, (∀ e ∈ sends, e.isSend = true) ∧
      (l.recvResponse env fr tid rsp).2.2 = sends ++ rsp.values.map (fun a => .yield l.stream a) := by
  obtain ⟨sends, hs, heq, _⟩ := recvResponse_accepted env.table l env fr tid rsp entry hf (.refl _)
  exact ⟨sends, hs, heq⟩

/-- no other step of a lookup yields anything: timeouts only send queries, ... -/
theorem C03_timeout_no_yield (l : Lookup) (env : LEnv) (tid : Tid) (st : Nat) (a : Addr) :
    Effect.yield st a ∉ (l.recvTimeout env tid).2.2 := by
  intro h
  have := (recvTimeout_spec env.table l env tid (.refl _)).1 _ h
  simp [Effect.isSend] at this

/-- **C03 (announce discipline)**: `announce_peer` is sent only when the search finishes, never
when announcing was not requested, at most 8 times, each to the address of a handle (id, address)
recorded with a token, carrying that token, the searched info-hash, the own id and the configured
port; nothing else but the closing of the stream happens. -/
theorem C03_announce_discipline (l : Lookup) (env : LEnv) (port : Option Nat) :
    ∃ anns : List Effect, (l.recvFinished env port).2.2 = anns ++ [.close l.stream] ∧
      anns.length ≤ 8 ∧ (l.willAnnounce = false → anns = []) ∧
      ∀ x ∈ anns, ∃ dst tid ok h tok, x = .send dst tid (.announce l.selfId l.target port tok) ok ∧
        (h, tok) ∈ l.tokens ∧ dst = h.addr := by
  obtain ⟨anns, h1, h2, h3, h4, _⟩ := recvFinished_spec env.table l env port (.refl _)
  refine ⟨anns, h1, h3, h4, ?_⟩
  intro x hx
  have := h2 x hx
  cases x with
  | send dst tid req ok =>
    obtain ⟨h, tok, hm, hd, hr⟩ := this
    exact ⟨dst, tid, ok, h, tok, by rw [hr], hm, hd⟩
  | yield _ _ => exact absurd this (by simp [IsAnnounceOf])
  | close _ => exact absurd this (by simp [IsAnnounceOf])

/-- **C03 (token provenance)**: the token map changes only when a response with an outstanding id
is handled, and then only by recording that response's token for its sender (id claimed in the
response, source address) — replacing an earlier token of the same sender, so the latest wins. -/
theorem C03_token_provenance (l : Lookup) (env : LEnv) (fr : Handle) (tid : Tid) (rsp : Resp) :
    (l.active.find? (·.1 = tid) = none → (l.recvResponse env fr tid rsp).1.tokens = l.tokens) ∧
    (∀ entry, l.active.find? (·.1 = tid) = some entry →
      (l.recvResponse env fr tid rsp).1.tokens = (l.recordToken fr rsp.token).tokens) ∧
    (∀ p ∈ (l.recordToken fr rsp.token).tokens, p ∈ l.tokens ∨ (p.1 = fr ∧ rsp.token = some p.2)) := by
  refine ⟨fun h => by rw [recvResponse_unknown l env fr tid rsp h], fun entry h => ?_, ?_⟩
  · obtain ⟨_, _, _, _, _, _, _, _, ht⟩ := recvResponse_accepted env.table l env fr tid rsp entry h (.refl _)
    exact ht
  · intro p hp
    unfold Lookup.recordToken at hp
    cases ht : rsp.token with
    | none => rw [ht] at hp; exact Or.inl hp
    | some tok =>
      rw [ht] at hp
      simp only at hp
      split at hp
      · simp only [List.mem_append, List.mem_filter, List.mem_singleton] at hp
        rcases hp with ⟨hm, _⟩ | rfl
        · exact Or.inl hm
        · exact Or.inr ⟨rfl, rfl⟩
      · exact Or.inl hp

theorem C03_latest_token (l : Lookup) (fr : Handle) (tok : Bytes) (h : tok.length ≤ 256) :
    (l.recordToken fr (some tok)).tokens.find? (·.1 = fr) = some (fr, tok) := by
  have h256 : Constants.MAX_TOKEN_LEN = 256 := by decide
  unfold Lookup.recordToken
  simp only [h256, h, if_true]
  have hnone : (l.tokens.filter (·.1 ≠ fr)).find? (·.1 = fr) = none := by
    apply List.find?_eq_none.mpr
    intro x hx
    have := (List.mem_filter.mp hx).2
    simpa using this
  rw [List.find?_append, hnone]
  simp

/-- **C03 (routing)**: a response reaches a lookup only through that lookup's own action prefix.
A response whose id routes to no live lookup and not to the refresh activity — arbitrary bytes of
any length, the id of a finished search, of bootstrap — changes nothing and causes no traffic. -/
theorem C03_routing (s : HState) (tid : InTid) (rsp : Resp) (src : Addr) (now : Nat)
    (h : match tid.route with
      | none => True
      | some (aid, _) => (s.lookups.find? (·.aid = aid)).isNone ∧ aid ≠ refreshAid) :
    s.handleResponse tid rsp src now = (s, []) := by
  unfold HState.handleResponse
  cases hr : tid.route with
  | none => rfl
  | some p =>
    obtain ⟨aid, t⟩ := p
    rw [hr] at h
    obtain ⟨h1, h2⟩ := h
    simp only [Option.isNone_iff_eq_none] at h1
    simp [h1, h2]

/-- arbitrary bytes (wrong length, or a prefix this node never used) route nowhere -/
theorem C03_routing_raw (s : HState) (b : Bytes) (rsp : Resp) (src : Addr) (now : Nat) :
    s.handleResponse (.raw b) rsp src now = (s, []) := rfl

/-- **C03 (once)**: finishing a search removes it, so its announces cannot be sent twice. -/
theorem C03_once (s : HState) (aid now : Nat) :
    ∀ l ∈ (s.completeLookup aid now).1.lookups, l.aid ≠ aid := by
  intro l hl
  unfold HState.completeLookup at hl
  cases hf : s.lookups.find? (·.aid = aid) with
  | none =>
    simp only [hf] at hl
    intro e
    have := List.find?_eq_none.mp hf l hl
    simp [e] at this
  | some l0 =>
    simp only [hf, HState.withEnv] at hl
    have := (List.mem_filter.mp hl).2
    simpa using this

/-- a one-node search used as the non-vacuity witness -/
def exHandle : Handle := ⟨List.replicate 20 1, ⟨false, [10,0,0,2], 1⟩⟩
def exLookup : Lookup where
  aid := 2
  nextSeq := 1
  selfId := List.replicate 20 0
  v6 := false
  target := List.replicate 20 9
  inEndgame := false
  willAnnounce := true
  active := [(⟨2, 0⟩, List.replicate 20 8, (1500, 0))]
  tokens := []
  requested := [exHandle]
  sorted := [(List.replicate 20 8, exHandle, true)]
  stream := 0
def exEnv : LEnv where
  table := Table.new (List.replicate 20 0)
  timer := Timer.new
  now := 0
  sendFails := fun _ => false
def exResp : Resp where
  id := exHandle.id
  values := [⟨false, [1,2,3,4], 5⟩, ⟨false, [1,2,3,4], 6⟩]
  nodes4 := []
  nodes6 := []
  token := some [7]

/-- Non-vacuity: the answer with the outstanding id is accepted, yields its two values and records
the token; the same answer replayed (id no longer outstanding) yields nothing. -/
example :
    ((exLookup.recvResponse exEnv exHandle ⟨2, 0⟩ exResp).2.2.filterMap
        fun e => match e with | .yield _ a => some a.port | _ => none) = [5, 6] ∧
    (exLookup.recvResponse exEnv exHandle ⟨2, 0⟩ exResp).1.tokens = [(exHandle, [7])] ∧
    (((exLookup.recvResponse exEnv exHandle ⟨2, 0⟩ exResp).1.recvResponse
        (exLookup.recvResponse exEnv exHandle ⟨2, 0⟩ exResp).2.1 exHandle ⟨2, 0⟩ exResp).2.2.length = 0) := by
  decide

end Btdht
