import Btdht.Proofs.Closest
/-!
# C09 — find_node/get_peers list up to 8 distinct live table nodes, nearest bucket first

"The node list in a find_node or get_peers reply consists of distinct nodes that are currently in
the routing table as good or questionable, of the requested family; it has exactly min(8, number
of such nodes) entries, and it contains every such node that shares a longer id prefix with the
target than the local node does (those are the only ones guaranteed closer to the target).
Enumerating the nearest nodes for any target visits every live table node exactly once."

Model: `Table.closestNodes` (src/table.rs `ClosestNodes`), `replyNodes` (src/handler.rs
`find_closest_nodes`: filter by family, take 8). All theorems hold for every table satisfying the
invariant `TInv` — which `C08_inv` proves for every reachable table — with 20-byte ids, for every
target (including the local id itself) and every time.
-/
namespace Btdht

/-- **C09 (walk)**: from any start index ≤ 160 the iterator's bucket walk begins at the start
index and visits each of the 160 bucket indices exactly once. -/
theorem C09_walk (s : Nat) (hs : s ≤ 160) :
    (walkFrom 160 s 161 s).head? = some s ∧
    ((walkFrom 160 s 161 s).filter (· < 160)).Perm (List.range 160) := by
  obtain ⟨hh, hp⟩ := walk_perm s (by omega)
  refine ⟨hh, ?_⟩
  rcases hp with ⟨_, p⟩ | ⟨_, p⟩
  · have hall : ∀ x ∈ walkFrom 160 s 161 s, decide (x < 160) = true := by
      intro x hx; have := List.mem_range.mp (p.mem_iff.mp hx); simpa using this
    rw [List.filter_eq_self.mpr hall]; exact p
  · have := p.filter (· < 160)
    refine this.trans ?_
    rw [List.filter_cons_of_neg (by decide)]
    apply List.Perm.of_eq
    apply List.filter_eq_self.mpr
    intro x hx; simpa using List.mem_range.mp hx

/-- **C09 (every live node exactly once)**: for every target, the enumeration of closest nodes is
a permutation of the table's good and questionable nodes. -/
theorem C09_perm (t : Table) (h : TInv t) (hself : t.selfId.length = 20) (target : Bytes) (now : Nat) :
    (t.closestNodes target now).Perm (t.liveNodes now) := by
  have hstart : lcp t.selfId target < 161 := by have := lcp_le_of_len t.selfId target hself; omega
  obtain ⟨_, hp⟩ := walk_perm (lcp t.selfId target) hstart
  have hwalk_nodup : (walkFrom 160 (lcp t.selfId target) 161 (lcp t.selfId target)).Nodup := by
    rcases hp with ⟨_, p⟩ | ⟨_, p⟩
    · exact p.nodup_iff.mpr List.nodup_range
    · refine p.nodup_iff.mpr (List.nodup_cons.mpr ⟨?_, List.nodup_range⟩)
      simp
  have hwalk_mem : ∀ i, i < 160 → i ∈ walkFrom 160 (lcp t.selfId target) 161 (lcp t.selfId target) := by
    intro i hi
    rcases hp with ⟨_, p⟩ | ⟨_, p⟩
    · exact p.mem_iff.mpr (List.mem_range.mpr hi)
    · exact p.mem_iff.mpr (List.mem_cons_of_mem _ (List.mem_range.mpr hi))
  rw [closestNodes_eq, maxBuckets_eq]
  apply (List.perm_ext_iff_of_nodup ?_ (liveNodes_nodup t h now)).mpr
  · intro m
    simp only [List.mem_flatMap, mem_chunk t h hself]
    constructor
    · rintro ⟨_, _, hm, _⟩; exact hm
    · intro hm
      refine ⟨lcp t.selfId m.handle.id, hwalk_mem _ ?_, hm, rfl⟩
      -- a live node shares fewer than 160 bits with the local id
      simp only [Table.liveNodes, List.mem_flatMap, Bucket.pingable, List.mem_filter] at hm
      obtain ⟨b, hb, hmb, hping⟩ := hm
      obtain ⟨i, hi, rfl⟩ := List.mem_iff_getElem.mp hb
      obtain ⟨h160, _⟩ := live_placed t h i hi m hmb now hping
      have := lcp_le_of_len t.selfId m.handle.id hself
      rw [maxBuckets_eq] at h160
      omega
  · unfold List.Nodup
    rw [List.pairwise_flatMap]
    refine ⟨fun idx _ => chunk_nodup t h now idx, ?_⟩
    refine List.Pairwise.imp ?_ hwalk_nodup
    intro i j hij x hx y hy e
    subst e
    have h1 := ((mem_chunk t h hself now i x).mp hx).2
    have h2 := ((mem_chunk t h hself now j x).mp hy).2
    exact hij (h1.symm.trans h2)

/-- **C09 (closer nodes first)**: the enumeration splits into a first part of at most 8 nodes —
exactly the live nodes that share a longer id prefix with the target than the local id does —
followed by all the others. -/
theorem C09_prefix (t : Table) (h : TInv t) (hself : t.selfId.length = 20) (target : Bytes)
    (htarget : target.length = 20) (now : Nat)
    (hids : ∀ m ∈ t.liveNodes now, m.handle.id.length = 20) :
    ∃ pre post, t.closestNodes target now = pre ++ post ∧ pre.length ≤ 8 ∧
      (∀ m ∈ pre, lcp m.handle.id target > lcp t.selfId target) ∧
      (∀ m ∈ post, ¬ lcp m.handle.id target > lcp t.selfId target) := by
  have hL : lcp t.selfId target < 161 := by have := lcp_le_of_len t.selfId target hself; omega
  obtain ⟨hhead, hp⟩ := walk_perm (lcp t.selfId target) hL
  have hperm := C09_perm t h hself target now
  rw [closestNodes_eq, maxBuckets_eq] at hperm ⊢
  -- bit-level facts about the three ids
  have bits : ∀ (id : Bytes), id.length = 20 → (idBits id).length = 160 := by
    intro id hid; rw [idBits_length, hid]
  have lcp_symm : ∀ (a b : List Bool), commonPrefix a b = commonPrefix b a := by
    intro a
    induction a with
    | nil => intro b; cases b <;> rfl
    | cons x a ih =>
      intro b
      cases b with
      | nil => rfl
      | cons y b =>
        simp only [commonPrefix]
        by_cases e : x = y
        · subst e; simp [ih b]
        · have e' : ¬ y = x := fun c => e c.symm
          simp [e, e']
  have closer : ∀ m : Node, m.handle.id.length = 20 → lcp t.selfId target < 160 →
      (lcp m.handle.id target > lcp t.selfId target ↔ lcp t.selfId m.handle.id = lcp t.selfId target) := by
    intro m hm hlt
    unfold lcp at hlt ⊢
    exact closer_iff (idBits t.selfId) (idBits target) (idBits m.handle.id)
      (by rw [bits _ hself, bits _ htarget]) (by rw [bits _ hself, bits _ hm]) (by rw [bits _ hself]; exact hlt)
  cases hw : walkFrom 160 (lcp t.selfId target) 161 (lcp t.selfId target) with
  | nil => simp [hw] at hhead
  | cons s rest =>
    have hs : s = lcp t.selfId target := by simpa [hw] using hhead
    subst hs
    rw [hw] at hperm hp
    have hnodup : (lcp t.selfId target :: rest).Nodup := by
      rcases hp with ⟨_, p⟩ | ⟨_, p⟩
      · exact p.nodup_iff.mpr List.nodup_range
      · exact p.nodup_iff.mpr (List.nodup_cons.mpr ⟨by simp, List.nodup_range⟩)
    refine ⟨t.chunk now (lcp t.selfId target), rest.flatMap (t.chunk now), by simp [List.flatMap_cons],
      chunk_length t h now _, ?_, ?_⟩
    · intro m hm
      obtain ⟨hlive, hk⟩ := (mem_chunk t h hself now _ m).mp hm
      have hlt : lcp t.selfId target < 160 := by
        -- a live node has fewer than 160 shared bits
        simp only [Table.liveNodes, List.mem_flatMap, Bucket.pingable, List.mem_filter] at hlive
        obtain ⟨b, hb, hmb, hping⟩ := hlive
        obtain ⟨i, hi, rfl⟩ := List.mem_iff_getElem.mp hb
        obtain ⟨h160, _⟩ := live_placed t h i hi m hmb now hping
        have := lcp_le_of_len t.selfId m.handle.id hself
        rw [maxBuckets_eq] at h160
        omega
      exact (closer m (hids m ((mem_chunk t h hself now _ m).mp hm).1) hlt).mpr hk
    · intro m hm hgt
      simp only [List.mem_flatMap] at hm
      obtain ⟨idx, hidx, hmc⟩ := hm
      obtain ⟨hlive, hk⟩ := (mem_chunk t h hself now idx m).mp hmc
      have hne : idx ≠ lcp t.selfId target := by
        intro e; subst e
        exact (List.nodup_cons.mp hnodup).1 hidx
      by_cases hlt : lcp t.selfId target < 160
      · exact hne (hk.symm.trans ((closer m (hids m hlive) hlt).mp hgt))
      · -- target = local id: nothing can share more than 160 bits
        have h1 := lcp_le_of_len m.handle.id target (hids m hlive)
        omega

/-- `find_closest_nodes` for one address family: filter, take 8, hand out the handles -/
def replyNodes (t : Table) (target : Bytes) (v6 : Bool) (now : Nat) : List Handle :=
  (((t.closestNodes target now).filter (fun n => n.handle.addr.v6 = v6)).take
    Constants.REPLY_NODES_PER_FAMILY).map (·.handle)

/-- **C09 (the reply)**: the node list of a reply for one family consists of pairwise distinct
live nodes of that family, has exactly min(8, number of live nodes of that family) entries. -/
theorem C09_reply (t : Table) (h : TInv t) (hself : t.selfId.length = 20) (target : Bytes) (v6 : Bool) (now : Nat) :
    (replyNodes t target v6 now).length = min 8 (((t.liveNodes now).filter (fun n => n.handle.addr.v6 = v6)).length) ∧
    (∀ hd ∈ replyNodes t target v6 now, ∃ m ∈ t.liveNodes now, m.handle = hd ∧ m.handle.addr.v6 = v6) ∧
    (replyNodes t target v6 now).Nodup := by
  have hperm := C09_perm t h hself target now
  have h8 : Constants.REPLY_NODES_PER_FAMILY = 8 := by decide
  unfold replyNodes
  rw [h8]
  refine ⟨?_, ?_, ?_⟩
  · rw [List.length_map, List.length_take, (hperm.filter _).length_eq]
  · intro hd hhd
    simp only [List.mem_map] at hhd
    obtain ⟨m, hm, rfl⟩ := hhd
    have hm' := List.mem_filter.mp (List.mem_of_mem_take hm)
    exact ⟨m, hperm.mem_iff.mp hm'.1, rfl, by simpa using hm'.2⟩
  · -- distinct nodes of the enumeration have distinct handles
    have hnd : (t.closestNodes target now).Nodup := hperm.nodup_iff.mpr (liveNodes_nodup t h now)
    have hsub : (((t.closestNodes target now).filter (fun n => n.handle.addr.v6 = v6)).take 8).Sublist
        (t.closestNodes target now) := (List.take_sublist _ _).trans List.filter_sublist
    have hnd2 := List.Nodup.sublist hsub hnd
    unfold List.Nodup at hnd2 ⊢
    rw [List.pairwise_map]
    refine List.Pairwise.imp_of_mem ?_ hnd2
    intro a b ha hb hab e
    -- same handle, both live: same slot by `C08_live_distinct`-style reasoning on the invariant
    have ha' := hperm.mem_iff.mp (hsub.subset ha)
    have hb' := hperm.mem_iff.mp (hsub.subset hb)
    simp only [Table.liveNodes, List.mem_flatMap, Bucket.pingable, List.mem_filter] at ha' hb'
    obtain ⟨ba, hba, hma, hpa⟩ := ha'
    obtain ⟨bb, hbb, hmb, hpb⟩ := hb'
    obtain ⟨i, hi, rfl⟩ := List.mem_iff_getElem.mp hba
    obtain ⟨j, hj, rfl⟩ := List.mem_iff_getElem.mp hbb
    obtain ⟨_, p1⟩ := live_placed t h i hi a hma now hpa
    obtain ⟨_, p2⟩ := live_placed t h j hj b hmb now hpb
    have hij : i = j := by
      unfold Placed at p1 p2
      rw [e] at p1
      rcases Nat.lt_trichotomy i j with hlt | heq | hgt
      · have e1 := p1.1 (by omega)
        by_cases hl : j + 1 = t.buckets.length
        · have := p2.2 hl; omega
        · have := p2.1 (by omega); omega
      · exact heq
      · have e2 := p2.1 (by omega)
        by_cases hl : i + 1 = t.buckets.length
        · have := p1.2 hl; omega
        · have := p1.1 (by omega); omega
    subst hij
    have hh := h.handles t.buckets[i] (List.getElem_mem hi)
    unfold HandlesOk at hh
    obtain ⟨x, hx, rfl⟩ := List.mem_iff_getElem.mp hma
    obtain ⟨y, hy, rfl⟩ := List.mem_iff_getElem.mp hmb
    rw [List.pairwise_iff_getElem] at hh
    rcases Nat.lt_trichotomy x y with hlt | heq | hgt
    · exact absurd (hh x y hx hy hlt e) (pingable_answered _ now hpb)
    · subst heq; exact hab rfl
    · exact absurd (hh y x hy hx hgt e.symm) (pingable_answered _ now hpa)

/-- Non-vacuity: a two-bucket table; the target lies beyond the last bucket, so the closer node
(7 shared bits, held in the assorted last bucket) comes before the far one. -/
example :
    let me : Bytes := List.replicate 20 0
    let mk (b0 : Nat) (p : Nat) : Node := Node.asGood ⟨b0 :: List.replicate 19 0, ⟨false, [10,0,0,1], p⟩⟩ 1000000000000
    let free := Node.asBad placeholderHandle
    let t : Table := { selfId := me, routers := [],
                       buckets := [⟨mk 128 1 :: List.replicate 7 free⟩, ⟨mk 1 2 :: List.replicate 7 free⟩] }
    ((t.closestNodes (2 :: List.replicate 19 0) 1000000000000).map (·.handle.addr.port)) = [2, 1] ∧
    (replyNodes t (2 :: List.replicate 19 0) false 1000000000000).length = 2 := by
  decide +kernel

end Btdht
