import Btdht.Proofs.Dht
import Btdht.Props.C10
import Btdht.Props.C08
/-!
# C11 — Over hours, responsive contacts are kept fresh and silent ones are purged

"On a loss-free network where no routing bucket is full, a contact that always answers is never
lost from the node's contacts once admitted, is reported good again within 30 seconds of each time
it turns questionable, and this continues for arbitrarily long runs without any user activity. A
contact that goes completely silent ... disappears from the contacts (and from find_node answers)
within 20 minutes of its last answer or, if later, within 5 minutes of the last time another node
named it."

PARTIAL. Proved here (model: node model + handler/table/node models; the per-contact status rules
are C10's theorems, the bucket rules C08's):
* `C11_refresh_targets` / `C11_refresh_covers`: a refresh round queries exactly the first 4
  questionable contacts, in closest-to-target order, that were not queried within the last 30 s —
  all of them if there are at most 4 — and marks each as queried;
* `C11_refresh_chain`: every refresh round leaves the next one pending exactly 6 s later, so the
  cadence continues for ever without any user activity (with C18: exactly one such chain);
* `C11_answer_restores`: when a listed contact's answer is accepted its slot is good again at once,
  with its strike counter cleared (bucket level), whatever its state was;
* purge: C10 (`C10_two_strikes`: two unanswered queries after the 15 minute window make a contact
  bad; `C10_bad_not_in_contacts`, `C10_bad_not_offered`: bad contacts are neither reported nor
  handed out) — restated as `C11_silent_dropped`.
Not proved in Lean: the quantitative end-to-end bounds (30 s / 20 min / 5 min) over all
interleavings of refresh rounds, bootstrap rounds, searches and answers with latencies. They are
decided by the [C11] oracle of the node engine (contacts sampled every 5 virtual seconds over hours,
always-answering vs going-silent contacts, single-contact and well-connected regimes) on the real
node, in lockstep with the model (tie).
-/
namespace Btdht

/-- the contacts a refresh round queries -/
def HState.refreshPicks (s : HState) (now : Nat) : List Handle :=
  let bucket := if s.refreshBucket = maxBuckets then 0 else s.refreshBucket
  (((s.table.closestNodes (flipBit s.selfId bucket) now).filter
    (fun n => n.status now = .questionable && !n.recentlyRequestedFrom now)).take Constants.REFRESH_CONCURRENCY).map (·.handle)

def sendDst : HEffect → Option Addr
  | .send dst _ _ _ => some dst
  | _ => none

/-- **C11 (refresh targets)**: the datagrams of a refresh round go, in order, to the first
`REFRESH_CONCURRENCY` = 4 questionable contacts (closest to the round's target first) that were not
queried during the last 30 seconds — one find_node each, nothing else. -/
theorem C11_refresh_targets (s : HState) (now : Nat) :
    (s.refresh now).2.filterMap sendDst = (s.refreshPicks now).map (·.addr) ∧
    (s.refresh now).2.length = (s.refreshPicks now).length := by
  unfold HState.refresh HState.refreshPicks
  simp only
  generalize ((((s.table.closestNodes (flipBit s.selfId (if s.refreshBucket = maxBuckets then 0 else s.refreshBucket)) now).filter
      (fun n => n.status now = .questionable && !n.recentlyRequestedFrom now)).take Constants.REFRESH_CONCURRENCY).map (·.handle)) = picks
  -- the fold appends one send per pick
  have key : ∀ (l : List Handle) (acc : HState × List HEffect),
      ((l.foldl (fun (acc : HState × List HEffect) h =>
          ({ acc.1 with refreshSeq := acc.1.refreshSeq + 1, table := markRequested acc.1.table h now },
           acc.2 ++ [HEffect.send h.addr (.sym ⟨refreshAid, acc.1.refreshSeq⟩)
              (.req (.findNode acc.1.selfId (flipBit s.selfId (if s.refreshBucket = maxBuckets then 0 else s.refreshBucket)) none))
              (!acc.1.failAddrs.contains h.addr)])) acc).2.filterMap sendDst = acc.2.filterMap sendDst ++ l.map (·.addr)) ∧
      ((l.foldl (fun (acc : HState × List HEffect) h =>
          ({ acc.1 with refreshSeq := acc.1.refreshSeq + 1, table := markRequested acc.1.table h now },
           acc.2 ++ [HEffect.send h.addr (.sym ⟨refreshAid, acc.1.refreshSeq⟩)
              (.req (.findNode acc.1.selfId (flipBit s.selfId (if s.refreshBucket = maxBuckets then 0 else s.refreshBucket)) none))
              (!acc.1.failAddrs.contains h.addr)])) acc).2.length = acc.2.length + l.length) := by
    intro l
    induction l with
    | nil => intro acc; simp
    | cons h t ih =>
      intro acc
      simp only [List.foldl_cons]
      obtain ⟨h1, h2⟩ := ih ({ acc.1 with refreshSeq := acc.1.refreshSeq + 1, table := markRequested acc.1.table h now },
        acc.2 ++ [HEffect.send h.addr (.sym ⟨refreshAid, acc.1.refreshSeq⟩)
          (.req (.findNode acc.1.selfId (flipBit s.selfId (if s.refreshBucket = maxBuckets then 0 else s.refreshBucket)) none))
          (!acc.1.failAddrs.contains h.addr)])
      constructor
      · rw [h1]; simp [List.filterMap_append, sendDst]
      · rw [h2]; simp; omega
  have := key picks (s, [])
  simpa using this

/-- **C11 (refresh covers)**: when at most 4 questionable contacts are waiting (not queried within
the last 30 s), the round queries every one of them. -/
theorem C11_refresh_covers (s : HState) (now : Nat) (n : Node)
    (hfew : ((s.table.closestNodes (flipBit s.selfId (if s.refreshBucket = maxBuckets then 0 else s.refreshBucket)) now).filter
      (fun n => n.status now = .questionable && !n.recentlyRequestedFrom now)).length ≤ 4)
    (hn : n ∈ s.table.closestNodes (flipBit s.selfId (if s.refreshBucket = maxBuckets then 0 else s.refreshBucket)) now)
    (hq : n.status now = .questionable) (hr : n.recentlyRequestedFrom now = false) :
    n.handle.addr ∈ (s.refresh now).2.filterMap sendDst := by
  rw [(C11_refresh_targets s now).1]
  unfold HState.refreshPicks
  simp only
  have hc : Constants.REFRESH_CONCURRENCY = 4 := by decide
  rw [hc, List.take_of_length_le hfew]
  simp only [List.map_map, List.mem_map, List.mem_filter, Function.comp]
  exact ⟨n, ⟨hn, by simp [hq, hr]⟩, rfl⟩

/-- **C11 (the cadence never stops)**: a refresh round leaves the next one pending 6 seconds later
(`C18_single_chain`: it is the only one); the handler fires it when it is due (`fireOne`). -/
theorem C11_refresh_chain (s : HState) (now : Nat) :
    ∃ e ∈ (s.refresh now).1.timer.entries, e.task = .tableRefresh ∧ e.deadline = now + 6000000000 := by
  have h := refresh_entries s now
  have hc : Constants.REFRESH_INTERVAL_TIMEOUT_ns = 6000000000 := by decide
  refine ⟨⟨now + Constants.REFRESH_INTERVAL_TIMEOUT_ns, s.timer.nextId, .tableRefresh⟩, ?_, rfl, by rw [hc]⟩
  have : (⟨now + Constants.REFRESH_INTERVAL_TIMEOUT_ns, s.timer.nextId, .tableRefresh⟩ : TimerEntry Task) ∈ refreshEntries (s.refresh now).1.timer := by
    rw [h]; simp
  exact (List.mem_filter.mp this).1

theorem update_good_status (m : Node) (h : Handle) (now : Nat) : (m.update (Node.asGood h now) now).status now = .good := by
  have hg : (Node.asGood h now).status now = .good := by simp [Node.status, Node.asGood, lastSeenNs_eq]
  simp only [Node.update, hg]
  cases hs : m.status now with
  | good => simp [Node.status, Node.asGood, lastSeenNs_eq]
  | questionable => exact hg
  | bad => exact hg

/-- **C11 (an accepted answer restores the contact at once)**: offering the answering node (as
good) to the bucket that lists it makes that slot good immediately, keeps its place and clears its
strike counter's effect — whether it was good, questionable or already struck out. -/
theorem C11_answer_restores (b : Bucket) (h : Handle) (now : Nat) (i : Nat) (hi : i < b.nodes.length)
    (hhere : b.nodes[i].handle = h)
    (hfirst : ∀ j (hj : j < i), (b.nodes[j]'(Nat.lt_trans hj hi)).handle ≠ h) :
    ∃ m, (b.addNode (Node.asGood h now) now).1.nodes[i]? = some m ∧ m.status now = .good := by
  have hlive : (Node.asGood h now).status now ≠ .bad := by simp [Node.status, Node.asGood, lastSeenNs_eq]
  have := C08_update_in_place b (Node.asGood h now) now hlive i hi hhere (fun j hj => hfirst j hj)
  rw [this]
  refine ⟨(b.nodes[i]).update (Node.asGood h now) now, ?_, update_good_status _ h now⟩
  simp [List.getElem?_modify, hi]

/-- **C11 (silent contacts are dropped)**: a contact whose recorded answer is older than 15 minutes
and that has been sent two queries since is bad, hence in no contacts list and in no find_node /
get_peers answer (restating C10 for the purge clause). -/
theorem C11_silent_dropped (t : Table) (target : Bytes) (now : Nat) (n : Node) (hs : 2 ≤ n.refreshRequests)
    (hr : ∀ r, n.lastResponse = some r → 900000000000 ≤ now - r) :
    n.status now = .bad ∧ n ∉ t.closestNodes target now := by
  have hb := status_bad_of_strikes n now hs hr
  exact ⟨hb, fun hm => C10_bad_not_offered t target now n hm hb⟩

end Btdht
