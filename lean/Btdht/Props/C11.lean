import Btdht.Proofs.Dht
import Btdht.Props.C10
import Btdht.Props.C08
import Btdht.Proofs.RefreshBound
import Btdht.Proofs.RefreshRun
import Btdht.Proofs.RefreshFresh
import Btdht.Proofs.RefreshPurge
/-!
# C11 — Over hours, responsive contacts are kept fresh and silent ones are purged

"On a loss-free network where no routing bucket is full, a contact that always answers is never
lost from the node's contacts once admitted, is reported good again within 30 seconds of each time
it turns questionable, and this continues for arbitrarily long runs without any user activity. A
contact that goes completely silent ... disappears from the contacts (and from find_node answers)
within 20 minutes of its last answer or, if later, within 5 minutes of the last time another node
named it."

PARTIAL. Proved here (model: node model + handler/table/node models; the per-contact status rules
are C10's theorems, the bucket rules C08's):
* `C11_refresh_targets` / `C11_refresh_covers`: a refresh round queries exactly the first 4
  questionable contacts, in closest-to-target order, that were not queried within the last 30 s —
  all of them if there are at most 4 — and marks each as queried;
* `C11_refresh_chain`: every refresh round leaves the next one pending exactly 6 s later, so the
  cadence continues for ever without any user activity (with C18: exactly one such chain);
* `C11_answer_restores`: when a listed contact's answer is accepted its slot is good again at once,
  with its strike counter cleared (bucket level), whatever its state was;
* purge: C10 (`C10_two_strikes`: two unanswered queries after the 15 minute window make a contact
  bad; `C10_bad_not_in_contacts`, `C10_bad_not_offered`: bad contacts are neither reported nor
  handed out) — restated as `C11_silent_dropped`.
Quantitative bounds (second half of this file; helpers in Proofs/RefreshBound, RefreshFair,
RefreshRely, RefreshStep, RefreshRun, RefreshAnswer, RefreshFresh, RefreshPurge), for punctual runs
`NRun J` of the handler + the bootstrap worker's table accesses (timers at most `J` late):
* `C11_round_every_6s`, `C11_rounds_in_window`: once the chain is started, a refresh round at least
  every `6 s + J` (the pending `TableRefresh` entry is never cancelled);
* `C11_pick_fair`: the pigeonhole — with at most `m` other eligible contacts a waiting contact is
  picked at the latest in round `⌈(m+1)/4⌉` of a 30 s window, under the rely "shields survive";
  `C11_rely_step`, `C11_rely_hearsay`: the rely holds for every step of the node except a hearsay
  mention of a contact whose entry is bad or gone (counter-example computed on the model);
* `C11_fresh_within`, `C11_refresh_answer_good`: a waiting contact is queried by
  `lr + R·(6 s + J)`, `R = m/4 + 1`, runs of any length; its answer is accepted whenever it arrives
  and makes it good at once;
* `C11_purged_within`: a silent contact is bad — in no find_node answer, not reported — by
  `t0 + 2·(30 s + R·(6 s + J))`, `t0` the instant its record went stale (and it was last named).
Hypotheses that stay explicit: the timer contract (`Punctual`), the bound `m` on competing eligible
contacts at refresh rounds (`R·(6 s + J) < 30 s`, i.e. `m ≤ 15`; for `m ≥ 20` the 30 s figure of the
property is not met: `R·6 s ≥ 36 s`), the rely for hearsay mentions of competitors whose entry is
bad or gone, and — for the "never lost" clause — that the contact is still listed when its answer
arrives (no bucket full of good nodes evicts a questionable contact in between). The [C11] oracle
of the node engine checks the end-to-end figures on the real node in lockstep with the model.
-/
namespace Btdht

/-- the contacts a refresh round queries -/
def HState.refreshPicks (s : HState) (now : Nat) : List Handle :=
  let bucket := if s.refreshBucket = maxBuckets then 0 else s.refreshBucket
  (((s.table.closestNodes (flipBit s.selfId bucket) now).filter
    (fun n => n.status now = .questionable && !n.recentlyRequestedFrom now)).take Constants.REFRESH_CONCURRENCY).map (·.handle)

def sendDst : HEffect → Option Addr
  | .send dst _ _ _ => some dst
  | _ => none

/-- **C11 (refresh targets)**: the datagrams of a refresh round go, in order, to the first
`REFRESH_CONCURRENCY` = 4 questionable contacts (closest to the round's target first) that were not
queried during the last 30 seconds — one find_node each, nothing else. -/
theorem C11_refresh_targets (s : HState) (now : Nat) :
    (s.refresh now).2.filterMap sendDst = (s.refreshPicks now).map (·.addr) ∧
    (s.refresh now).2.length = (s.refreshPicks now).length := by
  unfold HState.refresh HState.refreshPicks
  simp only
  generalize ((((s.table.closestNodes (flipBit s.selfId (if s.refreshBucket = maxBuckets then 0 else s.refreshBucket)) now).filter
      (fun n => n.status now = .questionable && !n.recentlyRequestedFrom now)).take Constants.REFRESH_CONCURRENCY).map (·.handle)) = picks
  -- the fold appends one send per pick
  have key : ∀ (l : List Handle) (acc : HState × List HEffect),
      ((l.foldl (fun (acc : HState × List HEffect) h =>
          ({ acc.1 with refreshSeq := acc.1.refreshSeq + 1, table := markRequested acc.1.table h now },
           acc.2 ++ [HEffect.send h.addr (.sym ⟨refreshAid, acc.1.refreshSeq⟩)
              (.req (.findNode acc.1.selfId (flipBit s.selfId (if s.refreshBucket = maxBuckets then 0 else s.refreshBucket)) none))
              (!acc.1.failAddrs.contains h.addr)])) acc).2.filterMap sendDst = acc.2.filterMap sendDst ++ l.map (·.addr)) ∧
      ((l.foldl (fun (acc : HState × List HEffect) h =>
          ({ acc.1 with refreshSeq := acc.1.refreshSeq + 1, table := markRequested acc.1.table h now },
           acc.2 ++ [HEffect.send h.addr (.sym ⟨refreshAid, acc.1.refreshSeq⟩)
              (.req (.findNode acc.1.selfId (flipBit s.selfId (if s.refreshBucket = maxBuckets then 0 else s.refreshBucket)) none))
              (!acc.1.failAddrs.contains h.addr)])) acc).2.length = acc.2.length + l.length) := by
    intro l
    induction l with
    | nil => intro acc; simp
    | cons h t ih =>
      intro acc
      simp only [List.foldl_cons]
      obtain ⟨h1, h2⟩ := ih ({ acc.1 with refreshSeq := acc.1.refreshSeq + 1, table := markRequested acc.1.table h now },
        acc.2 ++ [HEffect.send h.addr (.sym ⟨refreshAid, acc.1.refreshSeq⟩)
          (.req (.findNode acc.1.selfId (flipBit s.selfId (if s.refreshBucket = maxBuckets then 0 else s.refreshBucket)) none))
          (!acc.1.failAddrs.contains h.addr)])
      constructor
      · rw [h1]; simp [List.filterMap_append, sendDst]
      · rw [h2]; simp; omega
  have := key picks (s, [])
  simpa using this

/-- **C11 (refresh covers)**: when at most 4 questionable contacts are waiting (not queried within
the last 30 s), the round queries every one of them. -/
theorem C11_refresh_covers (s : HState) (now : Nat) (n : Node)
    (hfew : ((s.table.closestNodes (flipBit s.selfId (if s.refreshBucket = maxBuckets then 0 else s.refreshBucket)) now).filter
      (fun n => n.status now = .questionable && !n.recentlyRequestedFrom now)).length ≤ 4)
    (hn : n ∈ s.table.closestNodes (flipBit s.selfId (if s.refreshBucket = maxBuckets then 0 else s.refreshBucket)) now)
    (hq : n.status now = .questionable) (hr : n.recentlyRequestedFrom now = false) :
    n.handle.addr ∈ (s.refresh now).2.filterMap sendDst := by
  rw [(C11_refresh_targets s now).1]
  unfold HState.refreshPicks
  simp only
  have hc : Constants.REFRESH_CONCURRENCY = 4 := by decide
  rw [hc, List.take_of_length_le hfew]
  simp only [List.map_map, List.mem_map, List.mem_filter, Function.comp]
  exact ⟨n, ⟨hn, by simp [hq, hr]⟩, rfl⟩

/-- **C11 (the cadence never stops)**: a refresh round leaves the next one pending 6 seconds later
(`C18_single_chain`: it is the only one); the handler fires it when it is due (`fireOne`). -/
theorem C11_refresh_chain (s : HState) (now : Nat) :
    ∃ e ∈ (s.refresh now).1.timer.entries, e.task = .tableRefresh ∧ e.deadline = now + 6000000000 := by
  have h := refresh_entries s now
  have hc : Constants.REFRESH_INTERVAL_TIMEOUT_ns = 6000000000 := by decide
  refine ⟨⟨now + Constants.REFRESH_INTERVAL_TIMEOUT_ns, s.timer.nextId, .tableRefresh⟩, ?_, rfl, by rw [hc]⟩
  have : (⟨now + Constants.REFRESH_INTERVAL_TIMEOUT_ns, s.timer.nextId, .tableRefresh⟩ : TimerEntry Task) ∈ refreshEntries (s.refresh now).1.timer := by
    rw [h]; simp
  exact (List.mem_filter.mp this).1

theorem update_good_status (m : Node) (h : Handle) (now : Nat) : (m.update (Node.asGood h now) now).status now = .good := by
  have hg : (Node.asGood h now).status now = .good := by simp [Node.status, Node.asGood, lastSeenNs_eq]
  simp only [Node.update, hg]
  cases hs : m.status now with
  | good => simp [Node.status, Node.asGood, lastSeenNs_eq]
  | questionable => exact hg
  | bad => exact hg

/-- **C11 (an accepted answer restores the contact at once)**: offering the answering node (as
good) to the bucket that lists it makes that slot good immediately, keeps its place and clears its
strike counter's effect — whether it was good, questionable or already struck out. -/
theorem C11_answer_restores (b : Bucket) (h : Handle) (now : Nat) (i : Nat) (hi : i < b.nodes.length)
    (hhere : b.nodes[i].handle = h)
    (hfirst : ∀ j (hj : j < i), (b.nodes[j]'(Nat.lt_trans hj hi)).handle ≠ h) :
    ∃ m, (b.addNode (Node.asGood h now) now).1.nodes[i]? = some m ∧ m.status now = .good := by
  have hlive : (Node.asGood h now).status now ≠ .bad := by simp [Node.status, Node.asGood, lastSeenNs_eq]
  have := C08_update_in_place b (Node.asGood h now) now hlive i hi hhere (fun j hj => hfirst j hj)
  rw [this]
  refine ⟨(b.nodes[i]).update (Node.asGood h now) now, ?_, update_good_status _ h now⟩
  simp [List.getElem?_modify, hi]

/-- **C11 (silent contacts are dropped)**: a contact whose recorded answer is older than 15 minutes
and that has been sent two queries since is bad, hence in no contacts list and in no find_node /
get_peers answer (restating C10 for the purge clause). -/
theorem C11_silent_dropped (t : Table) (target : Bytes) (now : Nat) (n : Node) (hs : 2 ≤ n.refreshRequests)
    (hr : ∀ r, n.lastResponse = some r → 900000000000 ≤ now - r) :
    n.status now = .bad ∧ n ∉ t.closestNodes target now := by
  have hb := status_bad_of_strikes n now hs hr
  exact ⟨hb, fun hm => C10_bad_not_offered t target now n hm hb⟩

/-! ## Quantitative bounds (P1–P4)

Runs: `NRun J s t0 ops` (Proofs/RefreshBound.lean) — a list of reactions of the handler (`HOp`:
datagram, search start, timer firing), of the first refresh round (`kick`) and of the bootstrap
worker's two accesses to the routing table, each with its instant; instants do not decrease, no
pending timer entry is ever overdue by more than `J` when something runs (the timer contract of
C04, tokio: about 1 ms), and the refresh chain is started at most once. -/

/-- **C11 (a refresh round at least every 6 s + J)**: in every punctual run of a node, once the
refresh chain has been started, whenever anything runs at an instant `now` the latest refresh round
`r` happened at most `6 s + J` before — in particular the next round comes at most `6 s + J` after
the previous one (`C18_round_spacing`: and at least 6 s after it). Hypotheses: `hrun` the run is a
run in the above sense; `hsplit` singles out one step of it; `hstarted` a round happened before that
step (`r`: the latest one). -/
theorem C11_round_every_6s (J : Nat) (selfId : Bytes) (v6 ro : Bool) (port : Option Nat) (fa : List Addr) (t0 : Nat)
    (ops pre post : List (NOp × Nat)) (op : NOp) (now r : Nat)
    (hrun : NRun J (HState.new selfId v6 ro port fa t0) t0 ops)
    (hsplit : ops = pre ++ (op, now) :: post)
    (hstarted : lrRun none (HState.new selfId v6 ro port fa t0) pre = some r) :
    now ≤ r + 6000000000 + J := by
  subst hsplit
  obtain ⟨h1, h2⟩ := nrun_split J _ t0 pre _ hrun
  have hinv := (nrun_inv J pre (fun _ => (0, 0)) _ none t0 (hdl_new J _ selfId v6 ro port fa t0)
    (by simp [ChainInv, HState.new, Timer.new, refreshEntries]) h1).2
  rw [hstarted] at hinv
  have := chain_bound J _ r now hinv h2.2.1
  rw [sixS_eq] at this
  exact this

/-- ... and `k` rounds after a round at `lr` everything still happens by `lr + (k + 1)·(6 s + J)`:
a window of length `(k + 1)·(6 s + J)` that starts at a round contains at least `k` further rounds
unless the run ends in it. Hypotheses: `hd` the timer bookkeeping of the searches (C04's invariant,
true in every run: `nrun_inv`); `hc` the chain is started and its latest round was at `lr`; `hrun` a
punctual run from there; `h0` its first instant is not later than `lr + 6 s + J`. -/
theorem C11_rounds_in_window (J : Nat) (g : Nat → Nat × Nat) (s : HState) (lr t0 : Nat) (ops : List (NOp × Nat))
    (hd : HDl J g s) (hc : ChainInv s (some lr)) (hrun : NRun J s t0 ops) (h0 : t0 ≤ lr + (6000000000 + J)) :
    lastTime t0 ops ≤ lr + ((roundsOf s ops).length + 1) * (6000000000 + J) := by
  have := rounds_time J ops g s lr t0 hd hc hrun (by rw [sixS_eq]; exact h0)
  rw [sixS_eq] at this
  exact this

/-- **C11 (fairness of the picks — the pigeonhole)**. A window of consecutive refresh rounds
`w = [(t₁, target₁, now₁), …]` (routing table just before the round, the round's target, its
instant), all within `[τ, τ + 30 s)`. Hypotheses: `hlink` — between two rounds the table evolves
under the rely `Rely C τ`: every handle of `C` that is *shielded* (its entry was queried, or credited
with an answer, at or after `τ`) stays shielded (proved for all table operations but one:
`C11_rely_step`, `C11_rely_hearsay`); `hall` — at every round the table satisfies the C08 invariant
(true in every reachable state), the own id has 20 bytes, the instant lies in the window, every
eligible contact (questionable, not queried within 30 s) other than `X` is one of `C`, and `X` is
listed and eligible; `hm` — `C` has fewer than `4·(number of rounds)` members. Conclusion: one of the
rounds picks `X`. So with at most `m` competitors `X` is queried at the latest in round
`⌈(m+1)/4⌉`: `m ≤ 3` — the very next round; `m ≤ 12` — within 4 rounds. -/
theorem C11_pick_fair (X : Handle) (C : List Handle) (τ : Nat) (w : List (Table × Bytes × Nat))
    (hlink : Linked C τ w)
    (hall : ∀ r ∈ w, TInv r.1 ∧ r.1.selfId.length = 20 ∧ τ ≤ r.2.2 ∧ r.2.2 < τ + 30000000000 ∧
      (∀ n ∈ r.1.allNodes, eligB r.2.2 n = true → n.handle ≠ X → n.handle ∈ C) ∧
      (∃ n ∈ r.1.allNodes, n.handle = X ∧ eligB r.2.2 n = true))
    (hm : C.length < 4 * w.length) :
    ∃ r ∈ w, X ∈ (r.1.refreshPicks r.2.1 r.2.2).map (·.handle) := by
  refine Classical.byContradiction fun hno => ?_
  have hok : ∀ r ∈ w, RoundOk X C τ r := fun r hr => by
    obtain ⟨a, b, c, d, e, f⟩ := hall r hr
    exact ⟨a, b, c, by rw [thirtyS_eq]; exact d, e, f, fun hx => hno ⟨r, hr, hx⟩⟩
  have := unpicked_rounds X C τ w [] List.nodup_nil (by simp) (by simp) hlink hok
  simp only [List.length_nil, Nat.zero_add] at this
  omega

/-- the picks of `C11_pick_fair` are the contacts the handler's round queries (`C11_refresh_targets`),
and the table after the handler's round is the table-level round -/
theorem C11_round_is_table_round (s : HState) (now : Nat) :
    s.refreshPicks now = (s.table.refreshPicks s.roundTarget now).map (·.handle) ∧
    (s.refresh now).1.table = s.table.afterRound s.roundTarget now :=
  ⟨rfl, refresh_table s now⟩

/-- **C11 (the rely, proved)**: every step of the node — a datagram (query, answer, error), a search
start, a timer firing (query timeout, end-game, refresh round), the first refresh round, an answer
accepted or a query sent by the bootstrap worker — taken at an instant `now ≥ τ` (clock ≥ 15 min, as
in the implementation) on a table satisfying the C08 invariant keeps the shield of every handle of
`C`, provided the step names no handle of `C` by hearsay (`op.named s`: the nodes listed in an
accepted answer). Queries sent and received, accepted answers (the responder is offered as good)
and mentions of other handles never break a shield. -/
theorem C11_rely_step (s : HState) (op : NOp) (now : Nat) (C : List Handle) (τ : Nat) (ht : TInv s.table) (hle : τ ≤ now)
    (hnow : 900000000000 ≤ now) (hC : ∀ h ∈ C, h ∉ op.named s) : Rely C τ s.table (s.nstep op now).table :=
  nstep_rely s op now C τ ht hle hnow hC

/-- **C11 (the rely for hearsay, and where it fails)**: a mention of `h` itself by another node keeps
the shield of `h` as long as `h` still has an entry that is not bad (the offer is then ignored:
`Node::update` keeps a good or questionable entry). The remaining case is NOT true in general and
stays a hypothesis of the bounds below: a contact that went bad (two strikes) or was evicted, and is
then named by another node, is re-admitted as a fresh questionable entry with no record of the
earlier query (see the example after this theorem). -/
theorem C11_rely_hearsay (t : Table) (ht : TInv t) (h : Handle) (now : Nat) (hnow : 900000000000 ≤ now) (τ : Nat)
    (hs : Shielded t h τ) (hlisted : ∃ e ∈ t.allNodes, e.handle = h ∧ e.status now ≠ .bad) :
    Shielded (t.addNode (Node.asQuestionable h now) now) h τ :=
  shielded_offer_hearsay t ht h now hnow h τ hs (fun _ => hlisted)

/-! concrete data for the examples: own id 00…0, a contact `exX` with id 80 00…0 (bucket 0), clock
1000 s (the implementation's clock starts a week in) -/
def exSelf : Bytes := List.replicate 20 0
def exX : Handle := ⟨128 :: List.replicate 19 0, ⟨false, [10, 0, 0, 1], 1⟩⟩
def exT : Nat := 1000000000000
def exFill : List Node := List.replicate 7 (Node.asBad placeholderHandle)
/-- a one-bucket table whose only entry is `n` -/
def exTab (n : Node) : Table := { selfId := exSelf, buckets := [⟨n :: exFill⟩], routers := [] }
/-- `exX` after two unanswered queries (at 1000 s and 1 ns later): struck out -/
def exStruck : Node :=
  { handle := exX, lastRequest := none, lastResponse := some (exT - 900000000000), lastLocalRequest := some (exT + 1), refreshRequests := 2 }

theorem exTab_nodes (n : Node) (m : Node) (hm : m ∈ (exTab n).allNodes) (hl : m.lastResponse ≠ none) : m = n := by
  simp only [exTab, Table.allNodes, List.flatMap_cons, List.flatMap_nil, List.append_nil, List.mem_cons, exFill,
    List.mem_replicate] at hm
  rcases hm with h | ⟨_, h⟩
  · exact h
  · rw [h] at hl; exact absurd rfl hl

/-- **The exception to the rely, computed on the model**: `exX` is named (admitted as questionable),
queried twice without answering — it is bad, and its shield (queried at `exT + 1 ≥ exT`) holds; a
third node names it again 1 ns later: the entry is replaced by a fresh questionable one, the shield
is gone and `exX` is eligible for a refresh ping at once (30 s have not passed). -/
example :
    markRequested (markRequested ((Table.new exSelf).addNode (Node.asQuestionable exX exT) exT) exX exT) exX (exT + 1)
      = exTab exStruck ∧
    exStruck.status (exT + 1) = .bad ∧ Shielded (exTab exStruck) exX exT ∧
    (exTab exStruck).addNode (Node.asQuestionable exX (exT + 2)) (exT + 2) = exTab (Node.asQuestionable exX (exT + 2)) ∧
    ¬ Shielded (exTab (Node.asQuestionable exX (exT + 2))) exX exT ∧
    eligB (exT + 2) (Node.asQuestionable exX (exT + 2)) = true := by
  refine ⟨?_, by decide, ?_, ?_, ?_, by decide⟩
  · rw [C08_offer_local (Table.new exSelf) _ exT Bucket.new (by decide) (by decide) (by decide) (by decide) (by decide)]
    rfl
  · intro m hm _ hl
    rw [exTab_nodes _ m hm hl]
    exact Or.inl ⟨exT + 1, rfl, Nat.le_succ _⟩
  · rw [C08_offer_local (exTab exStruck) _ (exT + 2) ⟨exStruck :: exFill⟩ (by decide) (by decide) (by decide) (by decide) (by decide)]
    rfl
  · intro hs
    have hm : Node.asQuestionable exX (exT + 2) ∈ (exTab (Node.asQuestionable exX (exT + 2))).allNodes := by
      simp [exTab, Table.allNodes]
    rcases hs _ hm rfl (by simp [Node.asQuestionable]) with ⟨q, hq, _⟩ | ⟨r, hr, hle⟩
    · simp [Node.asQuestionable] at hq
    · simp only [Node.asQuestionable, Option.some.injEq] at hr
      subst hr
      revert hle
      decide

/-- a fresh node at clock 1000 s -/
def exS0 : HState := HState.new exSelf false false none [] exT
/-- the chain is started, the first timer entry fires on time, the second 1 ms late -/
def exOps : List (NOp × Nat) := [(.kick, exT), (.h .fire, exT + 6000000000), (.h .fire, exT + 12001000000)]

set_option maxRecDepth 8000 in
/-- Non-vacuity of `C11_round_every_6s` (and of `NRun`): a punctual run with `J` = 1 ms ... -/
theorem exRun : NRun 1000000 exS0 exT exOps := by
  refine ⟨Nat.le_refl _, by unfold Punctual; decide, fun _ => by decide, ?_⟩
  refine ⟨by decide, by unfold Punctual; decide, (fun h => by cases h), ?_⟩
  exact ⟨by decide, by unfold Punctual; decide, (fun h => by cases h), trivial⟩

set_option maxRecDepth 8000 in
/-- ... in which the second firing comes exactly `6 s + J` after the round before it: the bound is attained. -/
example : exOps = exOps.take 2 ++ (.h .fire, exT + 12001000000) :: [] ∧
    lrRun none exS0 (exOps.take 2) = some (exT + 6000000000) ∧
    exT + 12001000000 = (exT + 6000000000) + 6000000000 + 1000000 := by
  refine ⟨rfl, by decide, by decide⟩

theorem exTab_hearsay : (Table.new exSelf).addNode (Node.asQuestionable exX exT) exT = exTab (Node.asQuestionable exX exT) := by
  rw [C08_offer_local (Table.new exSelf) _ exT Bucket.new (by decide) (by decide) (by decide) (by decide) (by decide)]
  rfl

theorem exTab_inv : TInv (exTab (Node.asQuestionable exX exT)) := by
  rw [← exTab_hearsay]
  exact (tinv_addNode _ _ _ (tinv_new exSelf)).1

/-- Non-vacuity of `C11_pick_fair`: a window of one round on a table whose only contact `exX` was
just named by another node — no competitor (`C = []`), so the round picks it. -/
example : ∃ r ∈ [(exTab (Node.asQuestionable exX exT), flipBit exSelf 0, exT)],
    exX ∈ (r.1.refreshPicks r.2.1 r.2.2).map (·.handle) := by
  refine C11_pick_fair exX [] exT _ trivial (fun r hr => ?_) (by decide)
  simp only [List.mem_singleton] at hr
  subst hr
  refine ⟨exTab_inv, by decide, Nat.le_refl _, by decide, fun n hn he hne => ?_, Node.asQuestionable exX exT, ?_, rfl, by decide⟩
  · exact absurd (by rw [exTab_nodes _ n hn (elig_live _ n he)]; rfl) hne
  · simp [exTab, Table.allNodes]

/-- **C11 (freshness: a waiting contact is queried within `R = ⌈(m+1)/4⌉ = m/4 + 1` rounds, i.e.
by `lr + R·(6 s + J)`)**. A punctual run `pre ++ [(op, u)]` from a state `s` at `t0`. Hypotheses:
`hd`, `hc` — the timer bookkeeping of the searches and the started refresh chain with its latest
round at `lr ≤ t0` (invariants of every run: `nrun_inv`); `ht`, `hself` — the C08 table invariant
and a 20-byte own id; `hw` — at every refresh round of `pre` the contact `X` *waits*: it is listed,
questionable and was not queried within the last 30 s, and every other such contact is one of the
`m = C.length` handles of `C`; `hun` — none of these rounds picks `X`; `hR` — `R·(6 s + J) < 30 s`
(`m ≤ 15` for `J` < 1.5 s); `hrely` — the steps of `pre` keep the shields of `C` (`C11_rely_step`
proves it for every step that names no handle of `C`; see `C11_rely_hearsay` for the exception).
Conclusion: whatever runs after `pre` — in particular the round that finally picks `X` — runs at
`u ≤ lr + R·(6 s + J)`; the length of `pre` is not restricted. When the query goes out, `X`'s answer
is accepted whenever it arrives (`C11_refresh_answer_good`): `X` is good again by
`lr + R·(6 s + J) + rtt`. If `X` was queried less than 30 s before it turned questionable (e.g. by a
bootstrap bucket round) it starts waiting only 30 s after that query (`C11_eligible_after`) — unless
the answer to that query has made it good already. -/
theorem C11_fresh_within (J : Nat) (g : Nat → Nat × Nat) (X : Handle) (C : List Handle) (s : HState) (lr t0 : Nat)
    (pre : List (NOp × Nat)) (op : NOp) (u : Nat) (hrun : NRun J s t0 (pre ++ [(op, u)]))
    (hd : HDl J g s) (hc : ChainInv s (some lr)) (hlr : lr ≤ t0) (ht : TInv s.table) (hself : s.table.selfId.length = 20)
    (hR : (C.length / 4 + 1) * (6000000000 + J) < 30000000000)
    (hrely : ∀ q op' now post, pre = q ++ (op', now) :: post → Rely C t0 (s.nrun q).table ((s.nrun q).nstep op' now).table)
    (hw : ∀ r ∈ roundsOf s pre, Waits X C r.1 r.2.2)
    (hun : ∀ r ∈ roundsOf s pre, X ∉ (r.1.refreshPicks r.2.1 r.2.2).map (·.handle)) :
    u ≤ lr + (C.length / 4 + 1) * (6000000000 + J) := by
  have := fresh_within J g X C s lr t0 pre op u hrun hd hc hlr ht hself (by rw [sixS_eq, thirtyS_eq]; exact hR) hrely hw hun
  rw [sixS_eq] at this
  exact this

/-- **C11 (the answer to a refresh query makes the contact good, whenever it arrives)**: in every
reachable state (`ha`: search action ids are ≥ 2 — `nrun_attr`; `ht`: C08 invariant) in which `X` is
still listed (an entry that is not bad), a response from `X`'s address carrying `X`'s id and any
transaction id of the refresh action is accepted — no timeout applies — and afterwards `X` is
listed as good, whatever nodes the response names. -/
theorem C11_refresh_answer_good (s : HState) (ha : AttrInv s) (ht : TInv s.table) (X : Handle) (q : Nat) (rsp : Resp)
    (now : Nat) (hnow : 900000000000 ≤ now) (hid : rsp.id = X.id)
    (hl : ∃ e ∈ s.table.allNodes, e.handle = X ∧ e.status now ≠ .bad) :
    ∃ n ∈ (s.handleIncoming (.sym ⟨refreshAid, q⟩) (.resp rsp) X.addr now).1.table.allNodes,
      n.handle = X ∧ n.status now = .good := by
  rw [refresh_answer_accepted s ha q rsp X.addr now]
  have hx : (⟨rsp.id, X.addr⟩ : Handle) = X := by rw [hid]
  rw [hx]
  exact answer_makes_good s.table ht X _ now hnow hl

/-- a questionable contact is eligible for the refresh 30 s after it was last queried (at once if never) -/
theorem C11_eligible_after (n : Node) (now : Nat) (hq : n.status now = .questionable)
    (h30 : ∀ q, n.lastLocalRequest = some q → q + 30000000000 ≤ now) : eligB now n = true := by
  have hc : Constants.RECENTLY_REQUESTED_SECS * 1000000000 = 30000000000 := by decide
  simp only [eligB, hq, decide_true, Bool.true_and, Bool.not_eq_true', Node.recentlyRequestedFrom, hc]
  cases hl : n.lastLocalRequest with
  | none => rfl
  | some q => have := h30 q hl; simp only [decide_eq_false_iff_not]; omega

/-- The numbers: with at most 12 competitors (`R` = 4), timers at most 1 ms late and answers within
2 s the contact is good again within 26.004 s < 30 s of the round before it started waiting; with
at most 3 competitors within one round; with 20 competitors `R` = 6 and `R·6 s` = 36 s: the 30 s
figure of the property is NOT met by 4 picks per 6 s — `R·(6 s + J)` is what holds (for `R ≥ 6` the
30 s exclusion of the first picks has expired, so the pigeonhole no longer applies either). -/
example : (12 / 4 + 1) * (6000000000 + 1000000) + 2000000000 < 30000000000 ∧ 3 / 4 + 1 = 1 ∧
    (20 / 4 + 1) * 6000000000 = 36000000000 := by decide

/-- Non-vacuity of `C11_refresh_answer_good`: a node whose only contact `exX` is questionable (it
was named 2 s ago); its answer to a refresh query arrives — whatever its transaction id `q`. -/
example (q : Nat) :
    let s : HState := { exS0 with table := exTab (Node.asQuestionable exX exT) }
    ∃ n ∈ (s.handleIncoming (.sym ⟨refreshAid, q⟩) (.resp (emptyResp exX.id)) exX.addr (exT + 2000000000)).1.table.allNodes,
      n.handle = exX ∧ n.status (exT + 2000000000) = .good := by
  intro s
  refine C11_refresh_answer_good s ⟨by decide, (fun l hl => by cases hl), (fun l hl => by cases hl), by decide⟩ exTab_inv exX q _ _
    (by decide) rfl ⟨Node.asQuestionable exX exT, by simp [s, exTab, Table.allNodes], rfl, by decide⟩

/-- **C11 (purge: a silent contact is gone within `2·(30 s + R·(6 s + J))` of the instant its record
went stale)**. A punctual run `ops ++ [(op, u)]` from a state `s` at `t0`, with the invariants of
every run (`hd`, `hc` with the latest refresh round at `lr ≤ t0`, `ht`, `hself`). The contact `X`:
`hst` — at `e0 ≤ t0` the answer and the query recorded for it are at least 15 minutes old (`e0` =
`max(a, last query from it) + 15 min`, `a` its last accepted answer), so it is not good from `e0`
on (C10); `hllr0` — it was not queried in the future; `henv.silent` — during `ops` it is completely
silent: no accepted answer comes from it, no query from it is recorded, and no accepted answer names
it (`t0` is at or after the last time another node named it: the property's `h`); `henv.comp` — at
every refresh round at most the `m = C.length` contacts of `C` compete with it; `henv.rely` — the
steps keep the shields of `C` (`purgeEnv_mk`: proved for every step naming no handle of `C`);
`hR` — `R·(6 s + J) < 30 s` with `R = m/4 + 1`. Conclusion: if anything runs later than
`t0 + 2·(30 s + R·(6 s + J))`, every entry of `X` is bad by then — two strikes: each time, at most
30 s until it may be queried again and at most `R` rounds until a round picks it (`C11_fresh_within`),
unless a search or the bootstrap worker queries it earlier, which is a strike as well — so `X` is in
no closest-node enumeration (find_node / get_peers answers) and not among the contacts reported
(`C10_bad_not_in_contacts`). With `m ≤ 12`, `J ≤ 1 ms`: 108.008 s after `t0 = max(a + 15 min, h)` —
well within the property's 20 min after `a` / 5 min after `h`. -/
theorem C11_purged_within (J : Nat) (g : Nat → Nat × Nat) (X : Handle) (C : List Handle) (e0 : Nat) (s : HState) (lr t0 : Nat)
    (ops : List (NOp × Nat)) (op : NOp) (u : Nat) (hrun : NRun J s t0 (ops ++ [(op, u)]))
    (hd : HDl J g s) (hc : ChainInv s (some lr)) (hlr : lr ≤ t0) (ht : TInv s.table) (hself : s.table.selfId.length = 20)
    (hle : e0 ≤ t0) (henv : PurgeEnv J X C s ops) (hst : XStale X e0 s.table)
    (hllr0 : ∀ a ∈ s.table.allNodes, a.handle = X → a.lastResponse ≠ none → ∀ x, a.lastLocalRequest = some x → x ≤ t0)
    (hR : (C.length / 4 + 1) * (6000000000 + J) < 30000000000)
    (hlate : t0 + 2 * (30000000000 + (C.length / 4 + 1) * (6000000000 + J)) < u) :
    ∀ n ∈ (s.nrun ops).table.allNodes, n.handle = X →
      n.status u = .bad ∧ ∀ target, n ∉ (s.nrun ops).table.closestNodes target u := by
  intro n hn hnh
  have hbad : n.status u = .bad := by
    refine Classical.byContradiction fun hlive => ?_
    have := purged_within J g X C e0 s lr t0 ops op u hrun hd hc hlr ht hself hle henv hst hllr0
      (by rw [sixS_eq, thirtyS_eq]; exact hR) n hn hnh hlive
    rw [sixS_eq, thirtyS_eq] at this
    omega
  exact ⟨hbad, fun target hm => C10_bad_not_offered _ target u n hm hbad⟩

/-- the purge figure for `m ≤ 12` competitors and timers at most 1 ms late: 108.008 s < 5 min -/
example : 2 * (30000000000 + (12 / 4 + 1) * (6000000000 + 1000000)) = 108008000000 ∧ 108008000000 < 300000000000 := by decide

/-! ### a concrete long run (non-vacuity of `C11_fresh_within` and `C11_purged_within`) -/

/-- executable check of `NRun` -/
def punctualB (J : Nat) (s : HState) (now : Nat) : Bool := s.timer.entries.all (fun te => decide (now ≤ te.deadline + J))
def kickOkB (s : HState) (op : NOp) : Bool :=
  match op with
  | .kick => (refreshEntries s.timer).isEmpty
  | _ => true
def nrunB (J : Nat) : HState → Nat → List (NOp × Nat) → Bool
  | _, _, [] => true
  | s, t0, (op, now) :: rest => decide (t0 ≤ now) && punctualB J s now && kickOkB s op && nrunB J (s.nstep op now) now rest

theorem nrunB_sound (J : Nat) : ∀ (ops : List (NOp × Nat)) (s : HState) (t0 : Nat), nrunB J s t0 ops = true → NRun J s t0 ops
  | [], _, _, _ => trivial
  | (op, now) :: rest, s, t0, h => by
    simp only [nrunB, Bool.and_eq_true, decide_eq_true_eq] at h
    obtain ⟨⟨⟨h1, h2⟩, h3⟩, h4⟩ := h
    refine ⟨h1, ?_, ?_, nrunB_sound J rest _ now h4⟩
    · intro te hte
      have := List.all_eq_true.mp h2 te hte
      simpa using this
    · intro hk
      subst hk
      simpa [kickOkB] using h3

/-- a node whose only contact `exX` was named at 1000 s, before the refresh chain is started -/
def exBase : HState := { exS0 with table := exTab (Node.asQuestionable exX exT) }
/-- ... and just after the first refresh round, at 1000 s: `exX` has been queried once -/
def exP : HState := exBase.nstep .kick exT
/-- the refresh timer fires every 6 s, exactly on time -/
def exFires (k : Nat) : List (NOp × Nat) := (List.range k).map (fun i => (NOp.h .fire, exT + 6000000000 * (i + 1)))

set_option maxRecDepth 100000 in
theorem exLongRun : NRun 1000000 exBase exT ((.kick, exT) :: exFires 13) :=
  nrunB_sound _ _ _ _ (by decide +kernel)

theorem exFires_only (k : Nat) : OnlyFires (exFires k) := by
  intro x hx
  simp only [exFires, List.mem_map] at hx
  obtain ⟨i, _, rfl⟩ := hx
  rfl

theorem exBase_hdl : HDl 1000000 (fun _ => (0, 0)) exBase := ⟨timerOk_new, (fun l hl => by cases hl), (fun l hl => by cases hl)⟩

theorem exBase_stale : XStale exX exT exBase.table := by
  intro m hm _ hl
  have : m = Node.asQuestionable exX exT := exTab_nodes _ m hm hl
  subst this
  refine ⟨fun r hr => ?_, fun q hq => by simp [Node.asQuestionable] at hq⟩
  simp only [Node.asQuestionable, Option.some.injEq] at hr
  subst hr
  decide

theorem exBase_punctual : Punctual 1000000 exBase exT := fun te hte => by cases hte

theorem exP_self : exP.table.selfId.length = 20 := by
  have h := (nstep_tinv exBase .kick exT exTab_inv).2.1
  unfold exP
  rw [h]
  decide

theorem exP_facts : HDl 1000000 (fun _ => (0, 0)) exP ∧ ChainInv exP (some exT) ∧ TInv exP.table ∧
    exP.table.selfId.length = 20 ∧ XStale exX exT exP.table ∧
    (∀ a ∈ exP.table.allNodes, a.handle = exX → a.lastResponse ≠ none → ∀ x, a.lastLocalRequest = some x → x ≤ exT) ∧
    (∀ m ∈ exP.table.allNodes, m.lastResponse ≠ none → m.handle = exX) := by
  have hprov := nstep_prov exBase .kick exT exX exT exTab_inv (Nat.le_refl _) (fun k hk => by simp [NOp.marks] at hk) exBase_stale
  obtain ⟨hti, henv⟩ := nstep_tinv exBase .kick exT exTab_inv
  refine ⟨nstep_dl _ _ exBase .kick exT exBase_hdl exBase_punctual,
    nstep_chain 1000000 _ exBase none .kick exT exBase_hdl (by show refreshEntries exBase.timer = []; rfl) exBase_punctual (fun _ => rfl),
    hti, exP_self, hprov.2, fun a ha hah hal x hx => ?_, fun m hm hl => ?_⟩
  · obtain ⟨m, hm, _, hml, lin⟩ := hprov.1 a ha hah hal
    have : m = Node.asQuestionable exX exT := exTab_nodes _ m hm hml
    subst this
    by_cases hj : (Node.asQuestionable exX exT).refreshRequests < a.refreshRequests
    · rw [lin.hit hj] at hx; cases hx; exact Nat.le_refl _
    · have := lin.same (by have := lin.rr; omega)
      rw [this] at hx
      simp [Node.asQuestionable] at hx
  · have hev : TEv exT [] exBase.table exP.table := nstep_tev exBase .kick exT
    obtain ⟨m0, hm0, hh0, hl0⟩ := hev.nil_handles m hm hl
    rw [← hh0, exTab_nodes _ m0 hm0 hl0]
    rfl

/-- in the concrete run no contact but `exX` is ever listed -/
theorem exP_comp (k : Nat) : ∀ r ∈ roundsOf exP (exFires k), ∀ n ∈ r.1.allNodes, eligB r.2.2 n = true → n.handle ≠ exX → n.handle ∈ ([] : List Handle) := by
  intro r hr n hn he hne
  exfalso
  obtain ⟨q, o, now, post, e, hr', _⟩ := mem_roundsOf _ _ r hr
  subst hr'
  have hq : OnlyFires q := fun x hx => exFires_only k x (by rw [e]; exact List.mem_append_left _ hx)
  obtain ⟨m, hm, hh, hl⟩ := onlyFires_handles q exP hq n hn (elig_live _ n he)
  exact hne (hh ▸ exP_facts.2.2.2.2.2.2 m hm hl)

theorem exP_env (k : Nat) (hrun : NRun 1000000 exP exT (exFires k)) : PurgeEnv 1000000 exX [] exP (exFires k) :=
  purgeEnv_mk 1000000 exX [] exP exT (exFires k) hrun exP_facts.2.2.1 (by decide) (onlyFires_silent exX _ exP (exFires_only k))
    (exP_comp k) (fun _ _ _ _ _ hn => by obtain ⟨h, hc, _⟩ := hn; cases hc)

/-- **Non-vacuity of `C11_purged_within`**: the contact `exX`, named once at 1000 s, never answers,
never queries, is never named again; the refresh timer fires every 6 s (13 times, `J` = 1 ms, no
competitor: `C = []`, `R` = 1). All hypotheses hold with `e0 = t0 = lr` = 1000 s, and the 13th
firing comes at 1078 s, after `t0 + 2·(30 s + 6.001 s)` = 1072.002 s: `exX` is bad by then. -/
example : ∀ n ∈ (exP.nrun (exFires 12)).table.allNodes, n.handle = exX →
    n.status (exT + 78000000000) = .bad ∧ ∀ target, n ∉ (exP.nrun (exFires 12)).table.closestNodes target (exT + 78000000000) := by
  have hrun : NRun 1000000 exP exT (exFires 12 ++ [(NOp.h .fire, exT + 78000000000)]) := exLongRun.2.2.2
  obtain ⟨hd, hc, ht, hself, hst, hllr, _⟩ := exP_facts
  exact C11_purged_within 1000000 _ exX [] exT exP exT exT (exFires 12) (NOp.h .fire) (exT + 78000000000) hrun hd hc
    (Nat.le_refl _) ht hself (Nat.le_refl _) (exP_env 12 (nrun_split _ _ _ _ _ hrun).1) hst hllr (by decide) (by decide)

/-! ### five contacts: one of them has to wait a round -/

def exH (i : Nat) : Handle := ⟨(128 + i) :: List.replicate 19 0, ⟨false, [10, 0, 0, 1 + i], 1⟩⟩
def exQ (i : Nat) : Node := Node.asQuestionable (exH i) exT
/-- a one-bucket table listing the nodes `l` -/
def exTabL (l : List Node) : Table :=
  { selfId := exSelf, buckets := [⟨l ++ List.replicate (8 - l.length) (Node.asBad placeholderHandle)⟩], routers := [] }

theorem bucketPlacement_one (k : Nat) : bucketPlacement k 1 = 0 := by
  unfold bucketPlacement; split <;> omega

theorem exTabL_step (l : List Node) (i : Nat) (h1 : (exQ i).status exT ≠ .bad := by decide)
    (h2 : lcp exSelf (exH i).id ≠ maxBuckets := by decide)
    (h3 : ((⟨l ++ List.replicate (8 - l.length) (Node.asBad placeholderHandle)⟩ : Bucket).addNode (exQ i) exT).2 = true := by decide) :
    (exTabL l).addNode (exQ i) exT =
      { exTabL l with buckets := [((⟨l ++ List.replicate (8 - l.length) (Node.asBad placeholderHandle)⟩ : Bucket).addNode (exQ i) exT).1] } := by
  have hb : (exTabL l).buckets[bucketPlacement (lcp (exTabL l).selfId (exQ i).handle.id) (exTabL l).buckets.length]? =
      some ⟨l ++ List.replicate (8 - l.length) (Node.asBad placeholderHandle)⟩ := by
    simp [exTabL, bucketPlacement_one]
  rw [C08_offer_local (exTabL l) (exQ i) exT ⟨l ++ List.replicate (8 - l.length) (Node.asBad placeholderHandle)⟩ rfl h1 h2 hb h3]
  simp [exTabL, bucketPlacement_one]

/-- five contacts named at 1000 s, all in bucket 0 -/
def exTab5 : Table := exTabL [exQ 0, exQ 1, exQ 2, exQ 3, exQ 4]

theorem exTab5_inv : TInv exTab5 := by
  have e0 : exTabL [] = Table.new exSelf := rfl
  have e1 : (exTabL []).addNode (exQ 0) exT = exTabL [exQ 0] := by rw [exTabL_step [] 0]; rfl
  have e2 : (exTabL [exQ 0]).addNode (exQ 1) exT = exTabL [exQ 0, exQ 1] := by rw [exTabL_step _ 1]; rfl
  have e3 : (exTabL [exQ 0, exQ 1]).addNode (exQ 2) exT = exTabL [exQ 0, exQ 1, exQ 2] := by rw [exTabL_step _ 2]; rfl
  have e4 : (exTabL [exQ 0, exQ 1, exQ 2]).addNode (exQ 3) exT = exTabL [exQ 0, exQ 1, exQ 2, exQ 3] := by rw [exTabL_step _ 3]; rfl
  have e5 : (exTabL [exQ 0, exQ 1, exQ 2, exQ 3]).addNode (exQ 4) exT = exTab5 := by rw [exTabL_step _ 4]; rfl
  have t0 : TInv (exTabL []) := e0 ▸ tinv_new exSelf
  have t1 := (tinv_addNode _ (exQ 0) exT t0).1; rw [e1] at t1
  have t2 := (tinv_addNode _ (exQ 1) exT t1).1; rw [e2] at t2
  have t3 := (tinv_addNode _ (exQ 2) exT t2).1; rw [e3] at t3
  have t4 := (tinv_addNode _ (exQ 3) exT t3).1; rw [e4] at t4
  have t5 := (tinv_addNode _ (exQ 4) exT t4).1; rw [e5] at t5
  exact t5

theorem hdl_with_table (J : Nat) (g : Nat → Nat × Nat) (s : HState) (t : Table) (h : HDl J g s) : HDl J g { s with table := t } :=
  ⟨h.timerOk, h.aidLt, h.inv⟩
theorem chain_with_table (s : HState) (t : Table) (lr : Option Nat) (h : ChainInv s lr) : ChainInv { s with table := t } lr := h

/-- the node of `exP` (chain started at 1000 s) with the five contacts listed -/
def exW : HState := { exP with table := exTab5 }
def exC : List Handle := [exH 0, exH 1, exH 2, exH 3]

set_option maxRecDepth 100000 in
theorem exW_run : NRun 1000000 exW exT ([(NOp.h .fire, exT + 6000000000)] ++ [(NOp.h .fire, exT + 12000000000)]) :=
  nrunB_sound _ _ _ _ (by decide +kernel)

set_option maxRecDepth 100000 in
theorem exW_round : roundsOf exW [(NOp.h .fire, exT + 6000000000)] = [(exTab5, exW.roundTarget, exT + 6000000000)] ∧
    Waits (exH 4) exC exTab5 (exT + 6000000000) ∧
    exH 4 ∉ (exTab5.refreshPicks exW.roundTarget (exT + 6000000000)).map (·.handle) := by
  refine ⟨?_, ⟨by decide +kernel, exQ 4, by decide +kernel, rfl, by decide +kernel⟩, by decide +kernel⟩
  have hr : exW.isRound (NOp.h .fire) = true := by decide +kernel
  simp only [roundsOf, hr, if_true, List.append_nil]
  rfl

/-- **Non-vacuity of `C11_fresh_within` (and of `Waits`, `Rely`)**: five contacts were named at
1000 s; the round at 1006 s picks the first four and leaves `exH 4` waiting — `m` = 4 competitors,
`R` = 2; all hypotheses hold, and the next round (1012 s) indeed comes by `lr + 2·(6 s + J)`. -/
example : exT + 12000000000 ≤ exT + (exC.length / 4 + 1) * (6000000000 + 1000000) := by
  obtain ⟨hd, hc, _, _, _, _, _⟩ := exP_facts
  obtain ⟨hro, hw, hun⟩ := exW_round
  have hdW : HDl 1000000 (fun _ => (0, 0)) exW := hdl_with_table _ _ exP exTab5 hd
  have hcW : ChainInv exW (some exT) := chain_with_table exP exTab5 _ hc
  have hselfW : exW.table.selfId.length = 20 := by show exTab5.selfId.length = 20; decide
  have hR : (exC.length / 4 + 1) * (6000000000 + 1000000) < 30000000000 := by decide
  refine C11_fresh_within 1000000 _ (exH 4) exC exW exT exT [(NOp.h .fire, exT + 6000000000)] (NOp.h .fire)
    (exT + 12000000000) exW_run hdW hcW (Nat.le_refl _) exTab5_inv hselfW hR ?_ ?_ ?_
  · intro q op' now post e
    cases q with
    | nil =>
      simp only [List.nil_append, List.cons.injEq, Prod.mk.injEq] at e
      obtain ⟨⟨rfl, rfl⟩, _⟩ := e
      exact C11_rely_step exW (NOp.h .fire) _ exC exT exTab5_inv (by decide) (by decide) (fun h _ hm => by cases hm)
    | cons x q => simp at e
  · intro r hr; rw [hro] at hr; simp only [List.mem_singleton] at hr; subst hr
    dsimp only
    exact hw
  · intro r hr; rw [hro] at hr; simp only [List.mem_singleton] at hr; subst hr
    dsimp only
    exact hun

set_option maxRecDepth 100000 in
/-- **Non-vacuity of `C11_pick_fair` with competitors**: two consecutive rounds (1000 s, 1006 s) on
the five-contact table, nothing else happening in between (`Rely.refl`); `exH 4` is eligible at
both, the other eligible contacts are the `m` = 4 handles of `exC`, `4 < 4·2`: one of the two rounds
picks `exH 4` (the second one: the first picks `exH 0 … exH 3`, which are then excluded for 30 s). -/
example : ∃ r ∈ [(exTab5, flipBit exSelf 0, exT), (exTab5.afterRound (flipBit exSelf 0) exT, flipBit exSelf 1, exT + 6000000000)],
    exH 4 ∈ (r.1.refreshPicks r.2.1 r.2.2).map (·.handle) := by
  refine C11_pick_fair (exH 4) exC exT _ ⟨Rely.refl _ _ _, trivial⟩ (fun r hr => ?_) (by decide)
  simp only [List.mem_cons, List.not_mem_nil, or_false] at hr
  rcases hr with rfl | rfl
  · exact ⟨exTab5_inv, by decide, Nat.le_refl _, by decide, by decide +kernel, exQ 4, by decide +kernel, rfl, by decide +kernel⟩
  · refine ⟨(markAll_inv _ _ _ exTab5_inv).1, ?_, by decide, by decide, by decide +kernel, ?_⟩
    · have e : (exTab5.afterRound (flipBit exSelf 0) exT).selfId = exTab5.selfId := (markAll_inv _ _ _ exTab5_inv).2.1
      show (exTab5.afterRound (flipBit exSelf 0) exT).selfId.length = 20
      rw [e]; decide
    · exact ⟨exQ 4, by decide +kernel, rfl, by decide +kernel⟩

/-- Non-vacuity of `C11_rounds_in_window`: the 13 firings of the concrete run, from the state after the first round. -/
example : lastTime exT (exFires 13) ≤ exT + ((roundsOf exP (exFires 13)).length + 1) * (6000000000 + 1000000) :=
  C11_rounds_in_window 1000000 _ exP exT exT (exFires 13) exP_facts.1 exP_facts.2.1 exLongRun.2.2.2 (by decide)

/-- Non-vacuity of `C11_rely_hearsay`: `exX` is listed as questionable (named at 1000 s, credited
with an answer at 100 s, which shields it for `τ` = 100 s); a second mention 1 s later changes nothing. -/
example : Shielded ((exTab (Node.asQuestionable exX exT)).addNode (Node.asQuestionable exX (exT + 1000000000)) (exT + 1000000000))
    exX 100000000000 := by
  refine C11_rely_hearsay _ exTab_inv exX _ (by decide) _ (fun m hm _ hl => ?_)
    ⟨Node.asQuestionable exX exT, by simp [exTab, Table.allNodes], rfl, by decide⟩
  rw [exTab_nodes _ m hm hl]
  exact Or.inr ⟨100000000000, by decide, Nat.le_refl _⟩

end Btdht
