import Btdht.Proofs.GuardTie.Token
import Btdht.Proofs.Token
/-!
# C06 — Announce tokens: bound to the requester IP, valid ≥ 10 min, dead by 30 min

"A peer is stored by announce_peer only if the request carries a token that this node handed out,
in a get_peers reply, to the same IP address. Such a token is accepted from that IP (any port) for
at least 10 minutes after it was issued no matter what other traffic the node handles, is never
accepted once 30 minutes have passed, is never accepted from a different IP, and tokens the node
never issued (including those of a previous run or of wrong length) are refused."

Model: `Btdht.TokenStore` (src/token.rs). Secrets are symbolic (the k-th draw is the number k), a
token is the term (ip, secret); the address handed to `checkout`/`checkin` is an IP (no port), so
"any port" is built into the types. Histories are arbitrary event lists with a monotone clock.
600 s / 1800 s below are the property's numbers; the model uses the constant extracted from
src/token.rs, so these proofs break if `REFRESH_INTERVAL` changes.
The handler-level clause (the store changes only when `checkin` accepts; wrong-length tokens never
reach `checkin`; error 203) is `C06_gate` in `Props/C05.lean`'s handler model.
-/
namespace Btdht

/-- **C06 (≥ 10 minutes)**: a token checked out at `ti` (clock monotone: the store was last
rotated no later than `ti`) is accepted from the same IP at every `t ≤ ti + 600 s`, whatever
other store operations `es` (any IPs, any tokens, any times in between) happen meanwhile. -/
theorem C06_min_validity (r0 : TokRun) (ip : Bytes) (ti : Nat) (es : List TokEvent) (t : Nat)
    (hclock : r0.store.lastRefresh ≤ ti)
    (hmono : monoFrom ti es) (hlast : lastTime ti es ≤ t) (ht : t ≤ ti + 600000000000) :
    let issue := r0.store.checkout ip ti
    let r1 : TokRun := { store := issue.1, log := r0.log }
    ((r1.run es).store.checkin ip (some issue.2) t).2 = true := by
  intro issue r1
  have hbefore : allBefore (ti + 600000000000) es := by
    -- every event time is ≤ the last time ≤ t ≤ ti + 600 s
    have key : ∀ (es : List TokEvent) (t0 : Nat), monoFrom t0 es → ∀ e ∈ es, e.time ≤ lastTime t0 es := by
      intro es
      induction es with
      | nil => intro _ _ e he; simp at he
      | cons a as ih =>
        intro t0 hm e he
        have hmono_last : ∀ (l : List TokEvent) (u : Nat), monoFrom u l → u ≤ lastTime u l := by
          intro l
          induction l with
          | nil => intro u _; exact Nat.le_refl _
          | cons b bs ihb => intro u hu; exact Nat.le_trans hu.1 (ihb b.time hu.2)
        rcases List.mem_cons.mp he with h | h
        · subst h; exact hmono_last as e.time hm.2
        · exact ih a.time hm.2 e h
    intro e he
    exact Nat.le_trans (key es ti hmono e he) (Nat.le_trans hlast ht)
  have hv0 : Valid issue.2.secret ti r1.store := by
    left
    refine ⟨rfl, refreshCheck_lastRefresh_le _ _ hclock, refreshCheck_fresh_interval _ _ hclock⟩
  have hl0 : r1.store.lastRefresh ≤ ti := refreshCheck_lastRefresh_le _ _ hclock
  obtain ⟨hv, hl⟩ := valid_run issue.2.secret ti es r1 ti hv0 hl0 hmono hbefore
  have hv' := valid_refresh _ _ _ t hv (Nat.le_trans hl hlast) ht
  exact valid_accept ip issue.2.secret ti _ hv'

/-- **C06 (dead by 30 minutes, only issued tokens, only the same IP)**: in every history from a
fresh store, if presenting the token of checkout number `ref` from `ip` at time `t` is accepted,
then that checkout exists, was made for the same `ip`, and is less than 1800 s old. -/
theorem C06_max_validity (t0 : Nat) (es : List TokEvent) (ip : Bytes) (ref t : Nat)
    (hmono : monoFrom t0 es) (hlast : lastTime t0 es ≤ t)
    (hacc : (((TokRun.init t0).run es).step (.checkin ip ref t)).2 = .verdict true) :
    ∃ e, ((TokRun.init t0).run es).log[ref]? = some e ∧ e.tok.ip = ip ∧ e.at_ ≤ t ∧
      t < e.at_ + 1800000000000 := by
  have hi := tokInv_run es (TokRun.init t0) t0 (tokInv_init t0) hmono
  generalize (TokRun.init t0).run es = r at hi hacc
  have hr := tokInv_refresh r _ t hi hlast
  simp only [TokRun.step, TokenStore.checkin, TokOut.verdict.injEq] at hacc
  cases hlog : r.log[ref]? with
  | none => simp [hlog] at hacc
  | some e =>
    simp only [hlog, Option.map_some, Bool.and_eq_true, Bool.or_eq_true, decide_eq_true_eq] at hacc
    obtain ⟨hip, hsec⟩ := hacc
    have hmem : e ∈ r.log := List.mem_of_getElem? hlog
    have hle := (hr.log_lt e hmem).2
    refine ⟨e, rfl, hip, hle, ?_⟩
    have hint := hr.in_interval
    rcases hsec with hc | hl
    · have := hr.log_curr e hmem hc
      simp only at this hint; omega
    · have := hr.log_last e hmem hl
      simp only at this hint; omega

/-- **C06 (IP binding)**: a token made for one IP is refused from any other IP, at any time, in
any store state. -/
theorem C06_ip_binding (s : TokenStore) (ip ip' : Bytes) (sec t : Nat) (h : ip' ≠ ip) :
    (s.checkin ip' (some { ip := ip, secret := sec }) t).2 = false := by
  simp [TokenStore.checkin, Ne.symm h]

/-- **C06 (never issued)**: a token that is not one of this store's terms is refused. -/
theorem C06_unissued (s : TokenStore) (ip : Bytes) (t : Nat) : (s.checkin ip none t).2 = false := rfl

/-- A token made with a secret this store has not drawn (e.g. one of a previous run: symbolic
secrets of different stores are different numbers) is refused in every reachable state. -/
theorem C06_foreign_secret (r : TokRun) (now t : Nat) (hi : TokInv r now) (ht : now ≤ t)
    (ip ip' : Bytes) (sec : Nat) (hforeign : (r.store.refreshCheck t).next ≤ sec) :
    (r.store.checkin ip (some { ip := ip', secret := sec }) t).2 = false := by
  have hr := tokInv_refresh r now t hi ht
  have h1 := hr.curr_lt
  have h2 := hr.last_lt
  simp only at h1 h2
  simp only [TokenStore.checkin, Bool.and_eq_false_iff, Bool.or_eq_false_iff, decide_eq_false_iff_not]
  right
  constructor <;> omega

/-- Non-vacuity of `C06_min_validity`: a token issued at t = 599 s, presented again at exactly
ti + 600 s = 1199 s after a rotation at 600 s, is accepted (hypotheses satisfiable, conclusion
computed). -/
example : monoFrom 599000000000 [TokEvent.checkout [10,0,0,9] 600000000000] ∧
    lastTime 599000000000 [TokEvent.checkout [10,0,0,9] 600000000000] ≤ 1199000000000 := by
  simp [monoFrom, lastTime, TokEvent.time]
example :
    (({ store := ((TokRun.init 0).store.checkout [10,0,0,1] 599000000000).1, log := [] } : TokRun).run
        [TokEvent.checkout [10,0,0,9] 600000000000]).store.checkin
        [10,0,0,1] (some ((TokRun.init 0).store.checkout [10,0,0,1] 599000000000).2) 1199000000000 =
      ({ curr := 2, last := 0, lastRefresh := 600000000000, next := 3 }, true) := by
  decide

/-- Non-vacuity of `C06_max_validity`: an accepted token of age 1799 s exists (issued at 599.5 s,
rotation at 1199 s, presented at 1798.9 s) — and the same token is refused at 1800 s. -/
example :
    (((TokRun.init 0).run [TokEvent.checkout [10,0,0,1] 599500000000, TokEvent.checkout [10,0,0,2] 1199000000000]).step
        (.checkin [10,0,0,1] 0 1798900000000)).2 = .verdict true ∧
    (((TokRun.init 0).run [TokEvent.checkout [10,0,0,1] 599500000000, TokEvent.checkout [10,0,0,2] 1199000000000]).step
        (.checkin [10,0,0,1] 0 1800000000000)).2 = .verdict false := by
  decide

end Btdht
