import Btdht.Proofs.GuardTie.Storage
import Btdht.Proofs.Storage
/-!
# C07 — Peer store: exact, duplicate-free, 24-hour, capacity-bounded answers

"The peers a node returns for an info-hash are exactly the distinct contact addresses successfully
announced for that info-hash within the last 24 hours ...; re-announcing a pair restarts its 24
hours and never duplicates it. The node holds at most 500 pairs in total: a new pair beyond that is
refused without evicting or altering any live pair, re-announcing an existing pair still succeeds,
and expiry frees capacity."

Model: `Btdht.Storage` (src/storage.rs), tied to the code by the `storage` engine.
`C07_refine` shows that for every operation sequence with a monotone clock the model behaves like
the specification `sAdd`/`sFind` (Proofs/Storage.lean); the remaining theorems are about that
specification, for all histories. 86400000000000 ns = 24 h and 500 are the property's numbers; the
definitions use the constants extracted from src/storage.rs.
The handler-level clauses (which address is stored: source IP with the announced or the source
port; family filter of the reply; error 202) are in the handler model (`Props/C05.lean`).
-/
namespace Btdht

inductive StOp where
  | add (it : Item) (t : Nat)
  | find (ih : Bytes) (t : Nat)

def StOp.time : StOp → Nat
  | .add _ t => t
  | .find _ t => t

inductive StOut where
  | added (ok : Bool)
  | found (l : List Addr)

def Storage.step (s : Storage) : StOp → Storage × StOut
  | .add it t => let r := s.add it t; (r.1, .added r.2)
  | .find ih t => let r := s.find ih t; (r.1, .found r.2)

def specStep (l : List Expiration) : StOp → List Expiration × StOut
  | .add it t => let r := sAdd l it t; (r.1, .added r.2)
  | .find ih t => let r := sFind l ih t; (r.1, .found r.2)

/-- same verdict for an announce, same set of addresses (as a permutation) for a query -/
def StOut.equiv : StOut → StOut → Prop
  | .added a, .added b => a = b
  | .found a, .found b => a.Perm b
  | _, _ => False

/-- monotone clock along an operation sequence -/
def stMono (t : Nat) : List StOp → Prop
  | [] => True
  | o :: os => t ≤ o.time ∧ stMono o.time os

def stLast (t : Nat) : List StOp → Nat
  | [] => t
  | o :: os => stLast o.time os

def Storage.runOps (s : Storage) : List StOp → Storage × List StOut
  | [] => (s, [])
  | o :: os => let r := s.step o; let rest := Storage.runOps r.1 os; (rest.1, r.2 :: rest.2)

def specRun (l : List Expiration) : List StOp → List Expiration × List StOut
  | [] => (l, [])
  | o :: os => let r := specStep l o; let rest := specRun r.1 os; (rest.1, r.2 :: rest.2)

def outsEquiv : List StOut → List StOut → Prop
  | [], [] => True
  | a :: as, b :: bs => a.equiv b ∧ outsEquiv as bs
  | _, _ => False

/-- **C07 (refinement)**: along every operation sequence with a monotone clock, starting from any
well-formed store (in particular the empty one), the store's expiry queue equals the
specification's state and every output agrees with the specification's (announce verdicts are
equal, query answers are equal as sets: permutations of each other). -/
theorem C07_refine (ops : List StOp) : ∀ (s : Storage) (t0 : Nat), StWF s t0 → stMono t0 ops →
    (s.runOps ops).1.expires = (specRun s.expires ops).1 ∧
    outsEquiv (s.runOps ops).2 (specRun s.expires ops).2 ∧
    StWF (s.runOps ops).1 (stLast t0 ops) := by
  induction ops with
  | nil => intro s t0 hw _; exact ⟨rfl, trivial, hw⟩
  | cons o os ih =>
    intro s t0 hw hm
    have key : ((s.step o).1.expires = (specStep s.expires o).1) ∧
        ((s.step o).2.equiv (specStep s.expires o).2) ∧ StWF (s.step o).1 o.time := by
      cases o with
      | add it t =>
        obtain ⟨h1, h2, h3⟩ := add_refines s t0 t hw hm.1 it
        exact ⟨h1, h2, h3⟩
      | find ih' t =>
        obtain ⟨h1, h2, h3⟩ := find_refines s t0 t hw hm.1 ih'
        exact ⟨h1, h2, h3⟩
    obtain ⟨k1, k2, k3⟩ := key
    obtain ⟨r1, r2, r3⟩ := ih (s.step o).1 o.time k3 hm.2
    simp only [Storage.runOps, specRun, stLast]
    rw [← k1]
    exact ⟨r1, ⟨k2, r2⟩, r3⟩

/-- Answers of the store itself never contain an address twice. -/
theorem C07_no_duplicates (s : Storage) (t0 now : Nat) (hw : StWF s t0) (hn : t0 ≤ now) (ih : Bytes) :
    (s.find ih now).2.Nodup := by
  have hw' := removeExpired_wf s t0 now hw hn
  unfold Storage.find
  simp only
  have hnd : (s.removeExpired now).items.Nodup := hw'.perm.nodup_iff.mpr hw'.nodup
  have hf : ((s.removeExpired now).items.filter (fun it => decide (it.ih = ih))).Nodup :=
    List.Nodup.sublist List.filter_sublist hnd
  -- within one info-hash, distinct items have distinct addresses
  unfold List.Nodup
  rw [List.pairwise_map]
  refine List.Pairwise.imp_of_mem ?_ hf
  intro a b ha hb hne hab
  have ha' := (List.mem_filter.mp ha).2
  have hb' := (List.mem_filter.mp hb).2
  simp only [decide_eq_true_eq] at ha' hb'
  apply hne
  cases a; cases b; simp_all

/-! ### The specification, for all histories -/

/-- 24 h in ns / capacity, as the property states them -/
theorem expiration_eq : Constants.EXPIRATION_TIME_ns = 86400000000000 := by decide
theorem capacity_eq : Constants.MAX_ITEMS_STORED = 500 := by decide

/-- **C07 (boundary)**: a pair survives a purge at `now` iff its last announce is less than 24 h old. -/
theorem C07_boundary (l : List Expiration) (now : Nat) (e : Expiration) :
    e ∈ sPurge l now ↔ e ∈ l ∧ now - e.inserted < 86400000000000 := by
  simp only [sPurge, List.mem_filter, Expiration.isExpired, expiration_eq]
  simp only [Bool.not_eq_true', decide_eq_false_iff_not, Nat.not_le]

/-- **C07 (capacity, refusal)**: an announce is refused only if the pair is not stored and 500
live pairs are; a refused announce leaves exactly the live pairs, with their clocks. -/
theorem C07_refused (l : List Expiration) (it : Item) (now : Nat) (h : (sAdd l it now).2 = false) :
    (sAdd l it now).1 = sPurge l now ∧ 500 ≤ (sPurge l now).length ∧
    ∀ e ∈ sPurge l now, e.item ≠ it := by
  unfold sAdd at h ⊢
  simp only at h ⊢
  by_cases hany : (sPurge l now).any (fun e => decide (e.item = it)) = true
  · simp [hany] at h
  · by_cases hroom : (sPurge l now).length < Constants.MAX_ITEMS_STORED
    · simp [hany, hroom] at h
    · simp only [hany, hroom, if_false, Bool.false_eq_true, true_and]
      refine ⟨by rw [capacity_eq] at hroom; omega, ?_⟩
      intro e he heq
      apply hany
      rw [List.any_eq_true]
      exact ⟨e, he, by simp [heq]⟩

/-- **C07 (re-announce at capacity)**: announcing a pair that is still live always succeeds, and
restarts its clock without duplicating it. -/
theorem C07_renew (l : List Expiration) (it : Item) (now : Nat)
    (h : ∃ e ∈ sPurge l now, e.item = it) :
    (sAdd l it now).2 = true ∧
    (sAdd l it now).1 = (sPurge l now).filter (fun e => e.item ≠ it) ++ [{ item := it, inserted := now }] := by
  obtain ⟨e, he, heq⟩ := h
  have hany : (sPurge l now).any (fun e => decide (e.item = it)) = true := by
    rw [List.any_eq_true]; exact ⟨e, he, by simp [heq]⟩
  unfold sAdd
  simp [hany]

/-- **C07 (admission, expiry frees capacity)**: a new pair is admitted exactly when fewer than 500
pairs are live *after* the purge at that instant. -/
theorem C07_admit (l : List Expiration) (it : Item) (now : Nat)
    (hnew : ∀ e ∈ sPurge l now, e.item ≠ it) :
    ((sAdd l it now).2 = true ↔ (sPurge l now).length < 500) ∧
    ((sPurge l now).length < 500 → (sAdd l it now).1 = sPurge l now ++ [{ item := it, inserted := now }]) := by
  have hany : ¬ (sPurge l now).any (fun e => decide (e.item = it)) = true := by
    rw [List.any_eq_true]; rintro ⟨e, he, hd⟩; exact hnew e he (by simpa using hd)
  unfold sAdd
  simp only [hany, if_false, Bool.false_eq_true, capacity_eq]
  by_cases hroom : (sPurge l now).length < 500 <;> simp [hroom]

/-! ### Exactness over whole histories -/

/-- The specification run, recording for every pair the time of its last *successful* announce. -/
def specTrack (l : List Expiration) (tr : Item → Option Nat) : List StOp → List Expiration × (Item → Option Nat)
  | [] => (l, tr)
  | .add it t :: os =>
    specTrack (sAdd l it t).1 (if (sAdd l it t).2 then (fun x => if x = it then some t else tr x) else tr) os
  | .find ih t :: os => specTrack (sFind l ih t).1 tr os

/-- the stored pairs are exactly the pairs whose last successful announce is younger than 24 h -/
structure Exact (l : List Expiration) (tr : Item → Option Nat) (now : Nat) : Prop where
  nodup : (l.map (·.item)).Nodup
  le_now : ∀ it t, tr it = some t → t ≤ now
  iff : ∀ it t, ({ item := it, inserted := t } : Expiration) ∈ l ↔ (tr it = some t ∧ now - t < 86400000000000)
  cap : l.length ≤ 500

theorem filter_length_lt {α} (p : α → Bool) (l : List α) (h : ∃ x ∈ l, p x = false) :
    (l.filter p).length < l.length := by
  induction l with
  | nil => obtain ⟨x, hx, _⟩ := h; simp at hx
  | cons a l ih =>
    obtain ⟨x, hx, hpx⟩ := h
    by_cases hpa : p a = true
    · rcases List.mem_cons.mp hx with rfl | hx'
      · rw [hpa] at hpx; exact absurd hpx (by simp)
      · have := ih ⟨x, hx', hpx⟩
        rw [List.filter_cons_of_pos hpa]; simp only [List.length_cons]; omega
    · have := List.length_filter_le p l
      rw [List.filter_cons_of_neg hpa]; simp only [List.length_cons]; omega

theorem exact_purge (l : List Expiration) (tr : Item → Option Nat) (now now' : Nat)
    (h : Exact l tr now) (hn : now ≤ now') : Exact (sPurge l now') tr now' := by
  refine ⟨?_, ?_, ?_, ?_⟩
  · exact List.Nodup.sublist (List.Sublist.map _ List.filter_sublist) h.nodup
  · intro it t ht; have := h.le_now it t ht; omega
  · intro it t
    rw [C07_boundary, h.iff]
    simp only
    constructor
    · rintro ⟨⟨h1, _⟩, h3⟩; exact ⟨h1, h3⟩
    · rintro ⟨h1, h3⟩; exact ⟨⟨h1, by omega⟩, h3⟩
  · exact Nat.le_trans (List.length_filter_le _ _) h.cap

theorem exact_add (l : List Expiration) (tr : Item → Option Nat) (now now' : Nat) (it : Item)
    (h : Exact l tr now) (hn : now ≤ now') :
    Exact (sAdd l it now').1 (if (sAdd l it now').2 then (fun x => if x = it then some now' else tr x) else tr) now' := by
  have hp := exact_purge l tr now now' h hn
  unfold sAdd
  simp only
  generalize sPurge l now' = q at hp
  by_cases hany : q.any (fun e => decide (e.item = it)) = true
  · simp only [hany, if_true]
    have hmem : ∃ e ∈ q, e.item = it := by
      rw [List.any_eq_true] at hany; obtain ⟨e, he, hd⟩ := hany; exact ⟨e, he, by simpa using hd⟩
    refine ⟨?_, ?_, ?_, ?_⟩
    · rw [List.map_append, List.nodup_append]
      refine ⟨List.Nodup.sublist (List.Sublist.map _ List.filter_sublist) hp.nodup, by simp, ?_⟩
      intro a ha b hb
      simp only [List.map_cons, List.map_nil, List.mem_singleton] at hb; subst hb
      simp only [List.mem_map, List.mem_filter] at ha
      obtain ⟨e, ⟨_, hne⟩, rfl⟩ := ha
      simpa using hne
    · intro x t ht
      by_cases hx : x = it
      · simp [hx] at ht; omega
      · simp only [hx, if_false] at ht; exact hp.le_now x t ht
    · intro x t
      simp only [List.mem_append, List.mem_filter, List.mem_singleton, decide_eq_true_eq]
      by_cases hx : x = it
      · subst hx
        simp only [ne_eq, not_true_eq_false, and_false, false_or, if_true, Option.some.injEq,
          Expiration.mk.injEq, true_and]
        constructor
        · intro e; subst e; exact ⟨rfl, by omega⟩
        · rintro ⟨e, _⟩; exact e.symm
      · simp only [hx, if_false, ne_eq, not_false_eq_true, and_true, Expiration.mk.injEq, false_and, or_false]
        exact hp.iff x t
    · obtain ⟨e, he, heq⟩ := hmem
      have := filter_length_lt (fun e => decide (e.item ≠ it)) q ⟨e, he, by simp [heq]⟩
      have := hp.cap
      simp only [List.length_append, List.length_singleton]; omega
  · simp only [hany, if_false, Bool.false_eq_true]
    have hnot : ∀ e ∈ q, e.item ≠ it := by
      intro e he heq; apply hany; rw [List.any_eq_true]; exact ⟨e, he, by simp [heq]⟩
    by_cases hroom : q.length < Constants.MAX_ITEMS_STORED
    · simp only [hroom, if_true]
      refine ⟨?_, ?_, ?_, ?_⟩
      · rw [List.map_append, List.nodup_append]
        refine ⟨hp.nodup, by simp, ?_⟩
        intro a ha b hb
        simp only [List.map_cons, List.map_nil, List.mem_singleton] at hb; subst hb
        obtain ⟨e, he, rfl⟩ := List.mem_map.mp ha
        exact hnot e he
      · intro x t ht
        by_cases hx : x = it
        · simp [hx] at ht; omega
        · simp only [hx, if_false] at ht; exact hp.le_now x t ht
      · intro x t
        simp only [List.mem_append, List.mem_singleton]
        by_cases hx : x = it
        · subst hx
          simp only [if_true, Option.some.injEq, Expiration.mk.injEq, true_and]
          constructor
          · rintro (hm | e)
            · exact absurd rfl (hnot _ hm)
            · subst e; exact ⟨rfl, by omega⟩
          · rintro ⟨e, _⟩; exact Or.inr e.symm
        · simp only [hx, if_false, Expiration.mk.injEq, false_and, or_false]
          exact hp.iff x t
      · rw [capacity_eq] at hroom
        simp only [List.length_append, List.length_singleton]; omega
    · simp only [hroom, if_false, Bool.false_eq_true]
      exact hp

theorem exact_run (ops : List StOp) : ∀ (l : List Expiration) (tr : Item → Option Nat) (now : Nat),
    Exact l tr now → stMono now ops → Exact (specTrack l tr ops).1 (specTrack l tr ops).2 (stLast now ops) := by
  induction ops with
  | nil => intro l tr now h _; exact h
  | cons o os ih =>
    intro l tr now h hm
    cases o with
    | add it t => exact ih _ _ t (exact_add l tr now t it h hm.1) hm.2
    | find ih' t => exact ih _ _ t (exact_purge l tr now t h hm.1) hm.2

/-- **C07 (exactness)**: after *any* history of announces and queries (monotone clock) starting
from the empty store, a query for `ih` at any later time `now` returns exactly the addresses `a`
whose pair `(ih, a)` was last successfully announced less than 24 h before `now` — each once —
and the store never holds more than 500 pairs. -/
theorem C07_exact (ops : List StOp) (hm : stMono 0 ops) (ih : Bytes) (now : Nat) (hn : stLast 0 ops ≤ now) :
    let fin := specTrack [] (fun _ => none) ops
    (∀ a, a ∈ (sFind fin.1 ih now).2 ↔
        ∃ t, fin.2 { ih := ih, addr := a } = some t ∧ now - t < 86400000000000) ∧
    (sFind fin.1 ih now).2.Nodup ∧ fin.1.length ≤ 500 := by
  intro fin
  have h0 : Exact [] (fun _ => none) 0 := ⟨by simp, by simp, by simp, by simp⟩
  have hfin := exact_run ops [] (fun _ => none) 0 h0 hm
  have hp := exact_purge _ _ _ now hfin hn
  refine ⟨?_, ?_, hfin.cap⟩
  · intro a
    simp only [sFind, List.mem_map, List.mem_filter, decide_eq_true_eq]
    constructor
    · rintro ⟨e, ⟨he, hih⟩, rfl⟩
      obtain ⟨⟨eih, ea⟩, et⟩ := e
      simp only at hih; subst hih
      exact ⟨et, (hp.iff _ _).mp he⟩
    · rintro ⟨t, ht⟩
      exact ⟨{ item := { ih := ih, addr := a }, inserted := t }, ⟨(hp.iff _ _).mpr ht, rfl⟩, rfl⟩
  · simp only [sFind]
    unfold List.Nodup
    rw [List.pairwise_map]
    have hq : ((sPurge fin.1 now).filter (fun e => decide (e.item.ih = ih))).Pairwise
        (fun a b => a.item ≠ b.item) := by
      have := hp.nodup
      unfold List.Nodup at this
      rw [List.pairwise_map] at this
      exact List.Pairwise.sublist List.filter_sublist this
    refine List.Pairwise.imp_of_mem ?_ hq
    intro a b ha hb hne hab
    have ha' := (List.mem_filter.mp ha).2
    have hb' := (List.mem_filter.mp hb).2
    simp only [decide_eq_true_eq] at ha' hb'
    apply hne
    obtain ⟨⟨_, _⟩, _⟩ := a; obtain ⟨⟨_, _⟩, _⟩ := b; simp_all

/-- Non-vacuity: a concrete history crossing the 24 h boundary with a renewal. Pair X announced at
0 and renewed at 23 h; pair Y announced at 1 h. At 24 h X is still returned (renewed) and Y too;
at 25 h only X (renewed at 23 h) is. -/
example :
    let x : Item := ⟨[1], ⟨false, [10,0,0,1], 1⟩⟩
    let y : Item := ⟨[1], ⟨false, [10,0,0,2], 2⟩⟩
    let h : Nat := 3600000000000
    let s := (Storage.empty.runOps [.add x 0, .add y h, .add x (23*h)]).1
    (s.find [1] (24*h)).2 = [x.addr, y.addr] ∧ (s.find [1] (25*h)).2 = [x.addr] ∧
    (s.find [1] (47*h)).2 = [] := by
  decide

end Btdht
