import Btdht.Props.C03
import Btdht.Props.C08
import Btdht.Props.C10
/-!
# C12 — Routing table cannot be filled by parties the node did not ask

"Receiving a query never adds its sender to the node's contacts, and a response whose transaction
id does not derive from a request this node actually sent (wrong length, or an action prefix the
node never used) changes neither the contacts nor any search result. Nodes merely named inside a
response are admitted at most as questionable and are never reported good until they themselves
answer or query this node; router addresses and the node's own id are never admitted whoever names
them."

Model: `HState.handleIncoming` (src/handler.rs) over `Table` (src/table.rs).
Known finding F12 (DESIGN.md, known_findings.json): a response carrying the *refresh* activity's
action prefix is accepted whatever its message id (refresh keeps no outstanding set) — the clause
"an action prefix the node never used" is therefore proved for ids that route to no activity
(`C12_bad_tid`); the forged-refresh-prefix case is the listed finding, and an id with a live
search's prefix but an undrawn message id still offers its sender to the table (it matches no
outstanding query, so it yields nothing: `C03_yield_provenance`).
-/
namespace Btdht

/-- the (id, address) pairs in every slot of every bucket -/
def Table.handles (t : Table) : List (List Handle) := t.buckets.map fun b => b.nodes.map (·.handle)

theorem modifyNode_handles (t : Table) (h : Handle) (now : Nat) (f : Node → Node) (hf : ∀ m, (f m).handle = m.handle) :
    (t.modifyNode h now f).1.handles = t.handles := by
  unfold Table.modifyNode
  simp only
  cases hb : t.buckets[t.bucketIndexFor h.id]? with
  | none => rfl
  | some b =>
    simp only
    cases hp : positionOf (fun m => m.isPingable now && decide (m.handle = h)) b.nodes with
    | none => rfl
    | some i =>
      simp only [Table.handles]
      apply List.ext_getElem
      · simp
      · intro j h1 h2
        simp only [List.getElem_map, List.getElem_set]
        by_cases hj : t.bucketIndexFor h.id = j
        · subst hj
          simp only [if_true]
          have hbj : t.buckets[t.bucketIndexFor h.id]'(by simpa using h2) = b := by
            have := List.getElem?_eq_some_iff.mp hb
            obtain ⟨_, e⟩ := this; exact e
          rw [hbj]
          apply List.ext_getElem
          · simp
          · intro k k1 k2
            simp only [List.getElem_map, List.getElem_modify]
            split
            · exact hf _
            · rfl
        · simp [hj]

/-- **C12 (a query never adds its sender)**: handling any query — from anybody, of any kind —
leaves the (id, address) pair of every slot of the routing table as it was; only the "queried us"
mark of an already listed sender may change. -/
theorem C12_query_no_admit (s : HState) (tid : InTid) (r : Req) (src : Addr) (now : Nat) :
    (s.handleRequest tid r src now).1.table.handles = s.table.handles := by
  have hm : ∀ id, (s.markRemote id src now).table.handles = s.table.handles := by
    intro id
    exact modifyNode_handles s.table ⟨id, src⟩ now _ (fun _ => rfl)
  unfold HState.handleRequest
  split
  · rfl
  · cases r with
    | ping id => exact hm id
    | findNode id target want => exact hm id
    | getPeers id ih want => exact hm id
    | announce id ih port token =>
      simp only
      have hc : ((s.markRemote id src now).checkToken token src now).1.table = (s.markRemote id src now).table := by
        unfold HState.checkToken; split <;> rfl
      split
      · rw [hc]; exact hm id
      · split <;> (simp only; rw [hc]; exact hm id)

/-- **C12 (a response that derives from no request changes nothing)**: bytes that are no id of
this node — wrong length, or a prefix this node never used — route nowhere; neither the contacts
nor any search, timer, store or datagram is affected. -/
theorem C12_bad_tid (s : HState) (b : Bytes) (rsp : Resp) (src : Addr) (now : Nat) :
    s.handleIncoming (.raw b) (.resp rsp) src now = (s, []) := rfl

/-- ... and so does an id whose prefix belongs to no live activity (e.g. a finished search). -/
theorem C12_dead_prefix (s : HState) (tid : InTid) (rsp : Resp) (src : Addr) (now : Nat) (aid : Nat) (t : Option Tid)
    (hr : tid.route = some (aid, t)) (hdead : (s.lookups.find? (·.aid = aid)).isNone) (hnr : aid ≠ refreshAid) :
    s.handleIncoming tid (.resp rsp) src now = (s, []) := by
  have := C03_routing s tid rsp src now (by rw [hr]; exact ⟨hdead, hnr⟩)
  exact this

/-- **C12 (named nodes are admitted at most as questionable)**: the nodes named in an accepted
response are offered to the table as hearsay, i.e. questionable at that instant and (C10) never
good before they answer or query this node themselves. -/
theorem C12_named_questionable (t : Table) (responder : Node) (named : List Handle) (now : Nat)
    (h15 : 900000000000 ≤ now) :
    t.addNodes responder named now =
      named.foldl (fun acc h => acc.addNode (Node.asQuestionable h now) now) (t.addNode responder now) ∧
    ∀ h ∈ named, (Node.asQuestionable h now).status now = .questionable := by
  refine ⟨rfl, fun h _ => C10_hearsay h now now h15 (Nat.le_refl _)⟩

/-- **C12 (the own id and router addresses are never admitted, whoever names them)**: whatever
sequence of offers and request marks led to the table — in particular every handler step — no
slot holds a live node with the local id or a router address (C08's invariant is preserved). -/
theorem C12_filters (t0 t : Table) (h0 : TInv t0) (hreach : TReach t0 t) (hself : t0.selfId.length = 20)
    (i : Nat) (hi : i < t.buckets.length) (m : Node) (hm : m ∈ t.buckets[i].nodes) (now : Nat)
    (hlive : m.status now ≠ .bad) :
    m.handle.id ≠ t0.selfId ∧ t0.routers.contains m.handle.addr = false := by
  obtain ⟨hinv, henv⟩ := hreach.inv h0
  obtain ⟨h1, h2, _⟩ := C08_live_shape t hinv (by rw [henv.1]; exact hself) i hi m hm now hlive
  rw [henv.1] at h1
  rw [henv.2] at h2
  exact ⟨h1, h2⟩

/-- every request step moves the table along `TReach` (so `C12_filters` applies after it) -/
theorem handleRequest_reach (s : HState) (tid : InTid) (r : Req) (src : Addr) (now : Nat) :
    TReach s.table (s.handleRequest tid r src now).1.table := by
  have hm : ∀ id, TReach s.table (s.markRemote id src now).table := fun id => .markRemote _ _ _ now (.refl _)
  unfold HState.handleRequest
  split
  · exact .refl _
  · cases r with
    | ping id => exact hm id
    | findNode id target want => exact hm id
    | getPeers id ih want => exact hm id
    | announce id ih port token =>
      simp only
      have hc : ((s.markRemote id src now).checkToken token src now).1.table = (s.markRemote id src now).table := by
        unfold HState.checkToken; split <;> rfl
      split
      · rw [hc]; exact hm id
      · split <;> (simp only; rw [hc]; exact hm id)

end Btdht
