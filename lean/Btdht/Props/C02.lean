import Btdht.Props.C03
import Btdht.Proofs.Sorted
import Btdht.Proofs.Reach
import Btdht.Proofs.ReachHandler
/-!
# C02 — A search reaches the 8 closest nodes, announces to them, yields every peer found

"When every queried node answers within one second and get_peers answers list the nodes truly
closest to the info-hash, an announcing search ends having sent announce_peer to exactly the 8
nodes closest to the info-hash (all nodes if fewer than 8 exist), each carrying the token that very
node issued, the searched info-hash, the node's own id, and either the configured port or
implied_port=1. The search stream delivers every peer address contained in every answer to its
get_peers queries, once per occurrence."

Model: `Btdht.Lookup`. Proved for all runs:
* the stream delivers every peer of every accepted answer, once per occurrence, in order
  (`C02_yields`);
* the announces at the end of a search go to the first `ANNOUNCE_PICK_NUM = 8` candidates — in the
  order of the candidate list, which is kept sorted by distance to the info-hash — among those that
  answered with a token, each carrying the latest token of that very node, the searched info-hash,
  the own id and the configured port (`none` = implied_port) (`C02_announce_content`,
  `C02_announce_targets`).
* the candidate list of every stored search is sorted by XOR distance to the info-hash in every
  state of every run — the binary search of `insert_sorted_node` is proved to return a correct
  insertion point (`C02_candidates_sorted`) — hence the announce targets are the **closest** token
  holders: every candidate that answered with a token and is not announced to is at least as far
  from the info-hash as every announce target (`C02_announce_closest`).
* the reachability part under the environment hypotheses E1–E4 (`C02_announce_targets_reach`, helpers in
  `Proofs/Reach.lean`): a search started by `TableLookup::new` on a node whose good routing-table
  nodes belong to a network `N` (distinct 20-byte ids, distinct addresses), driven by any event
  sequence in which every send succeeds, every query to a node of `N` is answered within `D < 1.5 s`
  by that very node with its token and exactly the 8 nodes of `N` closest to the info-hash, and no
  timer fires early, sends — when its end-game timer fires — exactly one `announce_peer` to each of
  `closest8 target N` (all of `N` if fewer than 8), closest first, each with the token that node
  issued. The proof keeps an invariant (`RInv`) over every such run: every candidate is a node of
  `N`, once only; a candidate marked as queried was sent a query; every logged query is outstanding
  or answered with its token recorded; in the end-game the 8 closest are candidates and every
  candidate was queried. The search is never `Completed` before the end-game timer
  (`C02_reach_not_completed_early`), and the handler's steps are the `Lookup` steps of the run
  (`C02_handler_response`, `C02_handler_timeout`, `C02_handler_finish`).
  One hypothesis is forced by the code: the all-zero placeholder handle `0…0 @ 0.0.0.0:0` must not
  be a node of `N` — `recv_response` marks a named node as "queried" when it equals any slot of the
  pick array, including unused slots, which still hold that placeholder.
`C02_announce_targets_reach` is stated for one `Lookup` driven by an explicit event sequence;
`C02_announce_targets_reach_handler` lifts it to runs of the handler (`HState.runOps`: any
interleaving of datagrams, other searches and timer firings): every handler step either leaves a
stored search alone or feeds it exactly one such event (`hstep_sim`, `Proofs/ReachHandler.lean`), so
the contract is stated on the projection `projectRun` of the handler run to the search. That the
end-game timer does fire is `C04_upper`.
-/
namespace Btdht

/-- **C02 (every peer found is delivered)**: restated from `C03_yields_exactly`. -/
theorem C02_yields (l : Lookup) (env : LEnv) (fr : Handle) (tid : Tid) (rsp : Resp)
    (entry : Tid × Bytes × (Nat × Nat)) (hf : l.active.find? (·.1 = tid) = some entry) :
    ((l.recvResponse env fr tid rsp).2.2.filterMap fun e => match e with
      | .yield st a => some (st, a)
      | _ => none) = rsp.values.map fun a => (l.stream, a) := by
  obtain ⟨sends, hs, heq⟩ := C03_yields_exactly l env fr tid rsp entry hf
  rw [heq, List.filterMap_append]
  have h1 : (sends.filterMap fun e => match e with
      | .yield st a => some (st, a)
      | _ => none) = [] := by
    apply List.filterMap_eq_nil_iff.mpr
    intro e he
    have := hs e he
    cases e <;> simp_all [Effect.isSend]
  rw [h1, List.nil_append, List.filterMap_map]
  induction rsp.values with
  | nil => rfl
  | cons a t ih => simp [List.filterMap_cons, ih]

/-- **C02 (what is announced, and to whom)**: the announce targets are the first 8 candidates (in
candidate-list order) that hold a token; the i-th announce goes to the i-th target's address and
carries its recorded token, the searched info-hash, the own id and the configured port. -/
theorem C02_announce_content (l : Lookup) (env : LEnv) (port : Option Nat) (hw : l.willAnnounce = true) :
    ((l.recvFinished env port).2.2.filterMap fun e => match e with
      | .send dst _ req _ => some (dst, req)
      | _ => none) =
    l.announceTargets.map fun e =>
      (e.2.1.addr, Req.announce l.selfId l.target port (((l.tokens.find? (·.1 = e.2.1)).map (·.2)).getD [])) := by
  unfold Lookup.recvFinished
  simp only [hw, if_true]
  -- generalise the fold: the accumulator keeps selfId/target/tokens and appends one send per target
  have key : ∀ (ts : List (Bytes × Handle × Bool)) (acc : Lookup × LEnv × List Effect),
      acc.1.selfId = l.selfId → acc.1.target = l.target → acc.1.tokens = l.tokens →
      ((ts.foldl (announceStep port) acc).2.2.filterMap fun e => match e with
        | .send dst _ req _ => some (dst, req)
        | _ => none) =
      (acc.2.2.filterMap fun e => match e with
        | .send dst _ req _ => some (dst, req)
        | _ => none) ++ ts.map fun e =>
          (e.2.1.addr, Req.announce l.selfId l.target port (((l.tokens.find? (·.1 = e.2.1)).map (·.2)).getD [])) := by
    intro ts
    induction ts with
    | nil => intro acc _ _ _; simp
    | cons e ts ih =>
      intro acc h1 h2 h3
      simp only [List.foldl_cons, List.map_cons]
      have hstep : (announceStep port acc e).1.selfId = l.selfId ∧ (announceStep port acc e).1.target = l.target ∧
          (announceStep port acc e).1.tokens = l.tokens ∧
          ((announceStep port acc e).2.2.filterMap fun e => match e with
            | .send dst _ req _ => some (dst, req)
            | _ => none) =
          (acc.2.2.filterMap fun e => match e with
            | .send dst _ req _ => some (dst, req)
            | _ => none) ++ [(e.2.1.addr, Req.announce l.selfId l.target port (((l.tokens.find? (·.1 = e.2.1)).map (·.2)).getD []))] := by
        unfold announceStep
        simp only
        split <;> simp [h1, h2, h3, List.filterMap_append]
      obtain ⟨a1, a2, a3, a4⟩ := hstep
      rw [ih _ a1 a2 a3, a4]
      simp
  have := key l.announceTargets (l, env, []) rfl rfl rfl
  rw [List.filterMap_append]
  simp only [List.filterMap_nil, List.nil_append] at this
  rw [this]
  simp

/-- the announce targets: at most 8, all holding a token, taken in candidate-list order -/
theorem C02_announce_targets (l : Lookup) :
    l.announceTargets.length ≤ 8 ∧ (∀ e ∈ l.announceTargets, l.tokens.any (·.1 = e.2.1) = true) ∧
    l.announceTargets.Sublist l.sorted := by
  have h8 : Constants.ANNOUNCE_PICK_NUM = 8 := by decide
  unfold Lookup.announceTargets
  refine ⟨by rw [h8]; exact List.length_take_le _ _, fun e he => (List.mem_filter.mp (List.mem_of_mem_take he)).2, ?_⟩
  exact (List.take_sublist _ _).trans List.filter_sublist

/-- **C02 (the candidate list is sorted)**: in every state the handler reaches, the candidate list
of every stored search is sorted by its distance field (lexicographic order of the 20-byte XOR
distance: `bytesCmp`), and that field is the XOR distance of the node's id to the info-hash. -/
theorem C02_candidates_sorted (selfId : Bytes) (v6 ro : Bool) (port : Option Nat) (fa : List Addr) (t0 : Nat)
    (ops : List (HOp × Nat)) (l : Lookup) (hl : l ∈ ((HState.new selfId v6 ro port fa t0).runOps ops).lookups) :
    (l.sorted.map (·.1)).Pairwise (fun a b => bytesCmp a b ≠ .gt) ∧
    ∀ e ∈ l.sorted, e.1 = xorBytes l.target e.2.1.id := by
  have h := runOps_sort ops (HState.new selfId v6 ro port fa t0) (by intro m hm; simp [HState.new] at hm) l hl
  exact ⟨h.sorted, h.dist⟩

/-- **C02 (the announces go to the closest token holders)**: with a sorted candidate list, every
candidate that answered with a token but is not among the announce targets is at least as far from
the info-hash as every announce target; and there are such left-over candidates only when 8
announces are made. -/
theorem C02_announce_closest (l : Lookup) (h : LookupSorted l) :
    (∀ e ∈ l.announceTargets, ∀ c ∈ (l.sorted.filter (fun e => l.tokens.any (·.1 = e.2.1))).drop Constants.ANNOUNCE_PICK_NUM,
      bytesCmp (xorBytes l.target e.2.1.id) (xorBytes l.target c.2.1.id) ≠ .gt) ∧
    (l.announceTargets.length < 8 → (l.sorted.filter (fun e => l.tokens.any (·.1 = e.2.1))).drop Constants.ANNOUNCE_PICK_NUM = []) := by
  have h8 : Constants.ANNOUNCE_PICK_NUM = 8 := by decide
  constructor
  · intro e he c hc
    have hsub : (l.sorted.filter (fun e => l.tokens.any (·.1 = e.2.1))).Sublist l.sorted := List.filter_sublist
    have hpw : (l.sorted.filter (fun e => l.tokens.any (·.1 = e.2.1))).Pairwise (fun a b => bLe a.1 b.1) := by
      have := h.sorted
      unfold SortedKeys at this
      rw [List.pairwise_map] at this
      exact this.sublist hsub
    rw [← List.take_append_drop Constants.ANNOUNCE_PICK_NUM (l.sorted.filter (fun e => l.tokens.any (·.1 = e.2.1))),
      List.pairwise_append] at hpw
    have := hpw.2.2 e he c hc
    rw [h.dist e (hsub.subset (List.mem_of_mem_take he)), h.dist c (hsub.subset (List.mem_of_mem_drop hc))] at this
    exact this
  · intro hlt
    unfold Lookup.announceTargets at hlt
    rw [List.length_take] at hlt
    apply List.drop_eq_nil_of_le
    rw [h8] at hlt ⊢
    omega

/-! ### C02, reachability: the announces go to exactly the 8 closest nodes of the network -/

/-- **C02 (the announces reach exactly the 8 closest nodes)**. An announcing search is started by
`TableLookup::new` at instant `env0.now` and then driven by the events `evs` (answers and query
timeouts, each with the environment `LEnv` — clock, routing table, timer — the handler passes along);
finally its end-game timer fires in the environment `envF` and `recv_finished(port)` runs. Then the
datagrams `recv_finished` sends are exactly one `announce_peer` to each of the 8 nodes of the
network closest to the info-hash (all nodes if there are fewer than 8), closest first, each carrying
the token that very node issued, the searched info-hash, the own id, and the configured port
(`none` = `implied_port=1`), and each of them goes out.

Hypotheses (the environment contract E1–E4 of the property):
* `hnet` (E4): the network `N` is a finite set of nodes with pairwise distinct ids of the length of
  the info-hash (20 bytes) and pairwise distinct addresses, none of them the all-zero placeholder
  `0…0 @ 0.0.0.0:0` (which no real node can be: nothing answers from the unspecified address);
* `htok`: the tokens the nodes issue are at most `MAX_TOKEN_LEN = 256` bytes long;
* `hD`: `D` is the bound on the answer delay; it is below the 1.5 s query timeout and end-game
  duration (the property says 1 s);
* `hsend0`, and `sends` inside `hrun` / `hfin` (E1): every send succeeds;
* `hgood`, `hsome` (E4): the good nodes of the routing table the search starts from are nodes of the
  network, and there is at least one;
* `hrun` (E2, E3): every event of the run is admissible (`Admissible`): time does not run backwards;
  whenever the node handles an event, no query to a node of `N` has been unanswered for more than
  `D` (`Timely`); an answer is an answer to a query that went out (a duplicated datagram may be
  handled again), comes from the queried node itself, carries its token and names exactly the 8
  nodes of `N` closest to the info-hash, in any order (`Truthful`; peer values and the list for the other address family are arbitrary); a query
  timeout does not fire before its deadline (it may fire late, or never — when cancelled);
* `hfin` (E2, E3): the end-game timer fires not before its deadline, 1.5 s after the end-game
  round (it does fire: `C04_upper`), and the answers are timely up to that instant too. -/
theorem C02_announce_targets_reach (N : List Handle) (tok : Handle → Bytes) (D : Nat)
    (aid stream : Nat) (selfId : Bytes) (v6 : Bool) (target : Bytes) (port : Option Nat)
    (env0 : LEnv) (evs : List (LEnv × ReachEv)) (envF : LEnv)
    (hnet : NetOk N target)
    (htok : ∀ h ∈ N, (tok h).length ≤ Constants.MAX_TOKEN_LEN)
    (hD : D < Constants.LOOKUP_TIMEOUT_ns ∧ D < Constants.ENDGAME_TIMEOUT_ns)
    (hsend0 : ∀ a, env0.sendFails a = false)
    (hgood : ∀ h ∈ goodHandles env0 target, h ∈ N) (hsome : goodHandles env0 target ≠ [])
    (hrun : TruthfulRun N tok target D (RCfg.start (Lookup.new aid stream selfId v6 target true env0) env0.now) evs)
    (hfin : FinishOk N D ((RCfg.start (Lookup.new aid stream selfId v6 target true env0) env0.now).run evs) envF) :
    sendsOf (((RCfg.start (Lookup.new aid stream selfId v6 target true env0) env0.now).run evs).l.recvFinished envF port).2.2 =
      (closest8 target N).map fun h => (h.addr, Req.announce selfId target port (tok h), true) := by
  obtain ⟨h0, _, s2, _, s4, _⟩ := start_inv (tok := tok) hnet aid stream selfId v6 true env0 hsend0 hgood hsome
  obtain ⟨hinv, hst⟩ := run_inv hnet htok hD.1 evs _ h0 hrun
  generalize (RCfg.start (Lookup.new aid stream selfId v6 target true env0) env0.now).run evs = c at hinv hst hfin
  simp only [RCfg.start] at hst
  obtain ⟨ht1, ht2⟩ := finish_targets hnet hD.2 c envF hinv hfin
  rw [recvFinished_sends c.l envF port (hst.ann.trans s4) hfin.sends, hst.selfId, s2, hinv.tgt, ← ht1, List.map_map]
  apply List.map_congr_left
  intro e he
  have hes : e ∈ c.l.sorted := (C02_announce_targets c.l).2.2.subset he
  simp only [Function.comp_def]
  rw [ht2 e hes]

/-! Non-vacuity of `C02_announce_targets_reach`: a network of 10 nodes (ids `0…0k`, `k = 1..10`, info-hash
`0…0`, so node `k` is at distance `k`); the searching node knows the two farthest ones (9 and 10) as
good nodes. The run: both answer, naming nodes 1..8; the search queries 1, 2, 3, then 4, 5, 6, which
answer too; the end-game round (at instant 8000 ns) queries 4..8 (4, 5, 6 a second time), all
answer within microseconds; node 9's first answer arrives a second time and the (cancelled) timeout
of the first query fires late — both change nothing; the end-game timer fires 1.5 s later. All hypotheses hold, and the
theorem yields the 8 announces to the nodes 1..8. -/

def c02xH (k : Nat) : Handle := ⟨List.replicate 19 0 ++ [k], ⟨false, [10, 0, 0, k], 6881⟩⟩
def c02xN : List Handle := [c02xH 1, c02xH 2, c02xH 3, c02xH 4, c02xH 5, c02xH 6, c02xH 7, c02xH 8, c02xH 9, c02xH 10]
def c02xTarget : Bytes := List.replicate 20 0
def c02xSelf : Bytes := List.replicate 20 255
def c02xTok (h : Handle) : Bytes := 7 :: h.addr.ip
def c02xTable : Table :=
  { selfId := c02xSelf, buckets := [{ nodes := [Node.asGood (c02xH 9) 0, Node.asGood (c02xH 10) 0] }], routers := [] }
def c02xEnv (now : Nat) : LEnv := { table := c02xTable, timer := Timer.new, now := now, sendFails := fun _ => false }
def c02xResp (h : Handle) : Resp :=
  { id := h.id, values := [⟨false, [192, 168, 0, 1], 51413⟩], nodes4 := closest8 c02xTarget c02xN, nodes6 := [], token := some (c02xTok h) }
def c02xStart : RCfg := RCfg.start (Lookup.new 2 0 c02xSelf false c02xTarget true (c02xEnv 0)) 0
def c02xEv (now k seq : Nat) : Nat × ReachEv := (now, .resp (c02xH k) ⟨2, seq⟩ (c02xResp (c02xH k)))
def c02xEvs : List (LEnv × ReachEv) :=
  [c02xEv 1000 9 0, c02xEv 2000 10 1, c02xEv 3000 1 2, c02xEv 4000 2 3, c02xEv 5000 3 4, c02xEv 6000 4 5, c02xEv 7000 5 6,
   c02xEv 8000 6 7, c02xEv 9000 4 9, c02xEv 10000 5 10, c02xEv 11000 6 11, c02xEv 12000 7 12, c02xEv 13000 8 13,
   c02xEv 14000 9 0, (1500001000, .timeout ⟨2, 0⟩)].map fun x => (c02xEnv x.1, x.2)

theorem c02x_net : NetOk c02xN c02xTarget := ⟨by decide, by decide, by decide, by decide⟩
theorem c02x_tok : ∀ h ∈ c02xN, (c02xTok h).length ≤ Constants.MAX_TOKEN_LEN := by decide
theorem c02x_good : goodHandles (c02xEnv 0) c02xTarget = [c02xH 9, c02xH 10] := by decide +kernel
theorem c02x_run : TruthfulRun c02xN c02xTok c02xTarget 1000000000 c02xStart c02xEvs :=
  truthfulRun_of_check _ _ _ _ _ _ (fun p hp a => by obtain ⟨x, _, rfl⟩ := List.mem_map.mp hp; rfl) (by decide +kernel)
theorem c02x_fin : FinishOk c02xN 1000000000 (c02xStart.run c02xEvs) (c02xEnv 1500008000) :=
  ⟨fun _ => rfl, by decide +kernel, 8000, by decide +kernel, by decide⟩

example : sendsOf ((c02xStart.run c02xEvs).l.recvFinished (c02xEnv 1500008000) (some 6881)).2.2 =
    [c02xH 1, c02xH 2, c02xH 3, c02xH 4, c02xH 5, c02xH 6, c02xH 7, c02xH 8].map fun h =>
      (h.addr, Req.announce c02xSelf c02xTarget (some 6881) (7 :: h.addr.ip), true) := by
  have h := C02_announce_targets_reach c02xN c02xTok 1000000000 2 0 c02xSelf false c02xTarget (some 6881) (c02xEnv 0) c02xEvs
    (c02xEnv 1500008000) c02x_net c02x_tok (by decide) (fun _ => rfl) (by rw [c02x_good]; decide) (by rw [c02x_good]; simp)
    c02x_run c02x_fin
  rw [show c02xStart = RCfg.start (Lookup.new 2 0 c02xSelf false c02xTarget true (c02xEnv 0)) (c02xEnv 0).now from rfl, h]
  decide

/-- **C02 (nothing ends the search before its end-game timer)**: in every state of such a run —
the hypotheses are those of `C02_announce_targets_reach`, and every prefix of an admissible run is
an admissible run — the search is not `Completed` (`current_lookup_status`), so the handler never
calls `recv_finished` from `HState.lookupResponse` / `HState.lookupTimeout`; only the end-game timer
(`HState.handleTask (.lookupEndGame _)`) does. Moreover outside the end-game a query is outstanding
and the network owes an answer (a logged query to a node of `N` whose answer was not handled yet: by
E2 that answer comes within `D`, so the run cannot stall before the end-game), and once the end-game round has run, its starting instant is recorded: `egAt = some t`, every
candidate has been queried and the 8 closest nodes of the network are candidates. -/
theorem C02_reach_not_completed_early (N : List Handle) (tok : Handle → Bytes) (D : Nat)
    (aid stream : Nat) (selfId : Bytes) (v6 : Bool) (target : Bytes)
    (env0 : LEnv) (evs : List (LEnv × ReachEv))
    (hnet : NetOk N target)
    (htok : ∀ h ∈ N, (tok h).length ≤ Constants.MAX_TOKEN_LEN)
    (hD : D < Constants.LOOKUP_TIMEOUT_ns)
    (hsend0 : ∀ a, env0.sendFails a = false)
    (hgood : ∀ h ∈ goodHandles env0 target, h ∈ N) (hsome : goodHandles env0 target ≠ [])
    (hrun : TruthfulRun N tok target D (RCfg.start (Lookup.new aid stream selfId v6 target true env0) env0.now) evs) :
    let c := (RCfg.start (Lookup.new aid stream selfId v6 target true env0) env0.now).run evs
    c.l.completedNow = false ∧
    (c.l.inEndgame = false → c.egAt = none ∧ c.l.active ≠ [] ∧
      ∃ q ∈ c.log, q.1 ∉ c.answered ∧ ∃ h ∈ N, h.addr = q.2.1) ∧
    (c.l.inEndgame = true → (∃ t, c.egAt = some t) ∧ (∀ e ∈ c.l.sorted, e.2.2 = true) ∧
      ∀ x ∈ closest8 target N, x ∈ c.l.sorted.map (·.2.1)) := by
  intro c
  obtain ⟨h0, _⟩ := start_inv (tok := tok) hnet aid stream selfId v6 true env0 hsend0 hgood hsome
  obtain ⟨hinv, _⟩ := run_inv hnet htok hD evs _ h0 hrun
  refine ⟨?_, fun hreg => ⟨(hinv.reg hreg).1, (hinv.reg hreg).2, rinv_pending hinv hreg⟩, fun heg => ?_⟩
  · unfold Lookup.completedNow
    cases heg : c.l.inEndgame with
    | true => simp
    | false =>
      have := (hinv.reg heg).2
      cases hact : c.l.active with
      | nil => exact absurd hact this
      | cons a t => simp
  · obtain ⟨⟨t, ht, _⟩, h2, h3⟩ := hinv.eg heg
    exact ⟨⟨t, ht⟩, h3, h2⟩

/-- **C02 (the handler's end-game step is `recv_finished`)**: on a node whose sends succeed
(`failAddrs = []`, E1), when the end-game timer entry of the stored search `l` fires at `now`, the
handler emits exactly the effects of `l.recvFinished env announcePort` for an environment `env`
with clock `now` in which every send succeeds — the step `C02_announce_targets_reach` speaks about
(with `envF := env`, `port := s.announcePort`). -/
theorem C02_handler_finish (s : HState) (l : Lookup) (q now : Nat) (hfa : s.failAddrs = [])
    (hfind : s.lookups.find? (·.aid = l.aid) = some l) :
    ∃ env : LEnv, env.now = now ∧ (∀ a, env.sendFails a = false) ∧
      (s.handleTask (.lookupEndGame ⟨l.aid, q⟩) now).2 = liftEffects (l.recvFinished env s.announcePort).2.2 := by
  refine ⟨({ s with lookups := s.lookups.filter (·.aid ≠ l.aid) } : HState).env now, rfl, fun a => ?_, ?_⟩
  · simp [HState.env, hfa]
  · unfold HState.handleTask HState.completeLookup
    simp only [hfind]

/-- **C02 (the handler's answer step is `recv_response`)**: an answer whose transaction id routes
to the stored search `l` makes the handler run `l.recvResponse env ⟨rsp.id, src⟩ t rsp` — the
responder's handle is the claimed id with the datagram's source address — in an environment with
clock `now` in which every send succeeds when `failAddrs = []`; the search stored afterwards is
its result (unless that is `Completed`, which `C02_reach_not_completed_early` excludes). -/
theorem C02_handler_response (s : HState) (l : Lookup) (t : Tid) (rsp : Resp) (src : Addr) (now : Nat) (hfa : s.failAddrs = []) :
    ∃ env : LEnv, env.now = now ∧ (∀ a, env.sendFails a = false) ∧
      ((l.recvResponse env ⟨rsp.id, src⟩ t rsp).1.completedNow = false →
        (s.lookupResponse l (some t) rsp src now).2 = liftEffects (l.recvResponse env ⟨rsp.id, src⟩ t rsp).2.2 ∧
        (s.lookupResponse l (some t) rsp src now).1.lookups =
          s.lookups.map (fun x => if x.aid = l.aid then (l.recvResponse env ⟨rsp.id, src⟩ t rsp).1 else x)) := by
  refine ⟨({ s with table := s.table.addNodes (Node.asGood ⟨rsp.id, src⟩ now) (s.namedBy rsp) now } : HState).env now, rfl,
    fun a => by simp [HState.env, hfa], fun hc => ?_⟩
  unfold HState.lookupResponse
  simp only [hc]
  exact ⟨rfl, rfl⟩

/-- **C02 (the handler's query-timeout step is `recv_timeout`)**, as above. -/
theorem C02_handler_timeout (s : HState) (l : Lookup) (t : Tid) (now : Nat) (hfa : s.failAddrs = []) :
    ∃ env : LEnv, env.now = now ∧ (∀ a, env.sendFails a = false) ∧
      ((l.recvTimeout env t).1.completedNow = false →
        (s.lookupTimeout l t now).2 = liftEffects (l.recvTimeout env t).2.2 ∧
        (s.lookupTimeout l t now).1.lookups = s.lookups.map (fun x => if x.aid = l.aid then (l.recvTimeout env t).1 else x)) := by
  refine ⟨s.env now, rfl, fun a => by simp [HState.env, hfa], fun hc => ?_⟩
  unfold HState.lookupTimeout
  simp only [hc]
  exact ⟨rfl, rfl⟩

/-- Non-vacuity of `C02_reach_not_completed_early`: the same 10-node run. -/
example := C02_reach_not_completed_early c02xN c02xTok 1000000000 2 0 c02xSelf false c02xTarget (c02xEnv 0) c02xEvs
  c02x_net c02x_tok (by decide) (fun _ => rfl) (by rw [c02x_good]; decide) (by rw [c02x_good]; simp) c02x_run

/-- Non-vacuity of the handler bridges: a node whose sends succeed, storing the search of the run
above in its end-game. -/
example : ∃ (s : HState) (l : Lookup), s.failAddrs = [] ∧ s.lookups.find? (·.aid = l.aid) = some l ∧ l.inEndgame = true :=
  ⟨{ HState.new c02xSelf false false (some 6881) [] 0 with lookups := [(c02xStart.run c02xEvs).l] },
    (c02xStart.run c02xEvs).l, rfl, by simp, by decide +kernel⟩

/-! The hypothesis `NetOk.noDummy` of `C02_announce_targets_reach` cannot be dropped: a 3-node
network containing the placeholder handle `0…0 @ 0.0.0.0:0` (info-hash `0…01`; nodes `0…01`, the
placeholder, `0…02`, at distances 0, 1, 3). Every other hypothesis holds on the run below, yet the
placeholder — the second closest node — is never queried (naming it next to a closer, not yet
queried node evicts it from the pick array while unused slots, which hold the same placeholder,
remain; `recv_response` then marks it as "queried") and gets no announce. -/

def c02yTarget : Bytes := List.replicate 19 0 ++ [1]
def c02yN : List Handle := [dummyHandle, c02xH 1, c02xH 2]
def c02yTable : Table := { selfId := c02xSelf, buckets := [{ nodes := [Node.asGood (c02xH 2) 0] }], routers := [] }
def c02yEnv (now : Nat) : LEnv := { table := c02yTable, timer := Timer.new, now := now, sendFails := fun _ => false }
def c02yResp (h : Handle) : Resp :=
  { id := h.id, values := [], nodes4 := [dummyHandle, c02xH 1, c02xH 2], nodes6 := [], token := some (c02xTok h) }
def c02yStart : RCfg := RCfg.start (Lookup.new 2 0 c02xSelf false c02yTarget true (c02yEnv 0)) 0
def c02yEvs : List (LEnv × ReachEv) :=
  [(1000, ReachEv.resp (c02xH 2) ⟨2, 0⟩ (c02yResp (c02xH 2))), (2000, ReachEv.resp (c02xH 1) ⟨2, 1⟩ (c02yResp (c02xH 1)))].map
    fun x => (c02yEnv x.1, x.2)

example :
    -- the network is as required, except that it contains the placeholder handle
    ((∀ h ∈ c02yN, h.id.length = c02yTarget.length) ∧ (c02yN.map (·.id)).Nodup ∧ (c02yN.map (·.addr)).Nodup) ∧
    (∀ h ∈ c02yN, (c02xTok h).length ≤ Constants.MAX_TOKEN_LEN) ∧
    goodHandles (c02yEnv 0) c02yTarget = [c02xH 2] ∧
    TruthfulRun c02yN c02xTok c02yTarget 1000000000 c02yStart c02yEvs ∧
    FinishOk c02yN 1000000000 (c02yStart.run c02yEvs) (c02yEnv 1500002000) ∧
    -- the three nodes, closest first
    closest8 c02yTarget c02yN = [c02xH 1, dummyHandle, c02xH 2] ∧
    -- but only two announces
    (sendsOf ((c02yStart.run c02yEvs).l.recvFinished (c02yEnv 1500002000) none).2.2).map (·.1) = [(c02xH 1).addr, (c02xH 2).addr] :=
  ⟨by decide, by decide, by decide +kernel,
   truthfulRun_of_check _ _ _ _ _ _ (fun p hp a => by obtain ⟨x, _, rfl⟩ := List.mem_map.mp hp; rfl) (by decide +kernel),
   ⟨fun _ => rfl, by decide +kernel, 2000, by decide +kernel, by decide⟩,
   by decide +kernel, by decide +kernel⟩

/-- **what `closest8 target N` is**: nodes of `N`, each once, `min 8 |N|` of them, listed closest
first, and every other node of `N` is strictly farther from the target than each of them. -/
theorem C02_closest8_spec (N : List Handle) (target : Bytes) (hn : NetOk N target) :
    (∀ h ∈ closest8 target N, h ∈ N) ∧ (closest8 target N).Nodup ∧ (closest8 target N).length = min 8 N.length ∧
    (closest8 target N).Pairwise (Closer target) ∧
    ∀ h ∈ closest8 target N, ∀ n ∈ N, n ∉ closest8 target N → Closer target h n := by
  have hperm := sortDist_perm target N
  have hMnd : (sortDist target N).Nodup := hperm.nodup_iff.mpr hn.nodup
  have hMs : (sortDist target N).Pairwise (Closer target) :=
    hn.strict (fun x hx => hperm.subset hx) hMnd (sortDist_sorted target N)
  refine ⟨fun h hh => mem_closestK hh, hMnd.sublist (List.take_sublist _ _), ?_, hMs.sublist (List.take_sublist _ _), ?_⟩
  · simp [closest8, closestK, List.length_take, hperm.length_eq]
  · intro h hh n hn' hnot
    have hnM : n ∈ sortDist target N := hperm.symm.subset hn'
    rw [← List.take_append_drop 8 (sortDist target N)] at hnM hMs
    rcases List.mem_append.mp hnM with h1 | h1
    · exact absurd h1 hnot
    · exact (List.pairwise_append.mp hMs).2.2 h hh n h1

/-- e.g. of ten nodes at distances 1..10 the eight closest are those at distances 1..8 -/
example : closest8 c02xTarget c02xN = [c02xH 1, c02xH 2, c02xH 3, c02xH 4, c02xH 5, c02xH 6, c02xH 7, c02xH 8] := by
  decide +kernel

/-! ### C02, reachability at handler level -/

/-- **C02 (handler level: the announces reach exactly the 8 closest nodes)**. A node whose sends
succeed (`failAddrs = []`, E1) starts an announcing search for `target` at instant `T0`
(`handle_start_lookup`; the search gets the action id `A = s0.nextAid`), then runs through any
sequence `ops` of steps — datagrams of any kind from anybody, starts of other searches, timer
firings, any number of concurrent searches — and finally pops the end-game entry of the search at
instant `TF`. The datagrams of that last step are exactly one `announce_peer` to each of the 8
nodes of the network closest to the info-hash, closest first, each with that node's token, the
info-hash, the own id and the configured announce port, and each goes out.

The environment contract is stated on the *projection* of the handler run to the search `A`
(`projectRun`: the answers whose transaction id carries the prefix `A`, handled through
`HState.lookupResponse`, and the firings of `A`'s query-timeout entries, handled through
`HState.lookupTimeout`, each with the very environment the handler passes; `hstep_sim` proves that
this is all a handler step can do to the stored search): `hrun` says that projection is a truthful,
timely run (`TruthfulRun`, as in `C02_announce_targets_reach`); `hno` (E3) that no end-game entry of
`A` is popped during `ops`; `htimely`, `hdue` (E2, E3) that at `TF` the answers are timely and the
end-game deadline has passed. `hfree`: no stored search already uses the next action id (true in
every reachable state: `AttrInv.aidRange`, `runOps_attr`). The other hypotheses are those of
`C02_announce_targets_reach`, with the routing table of the node at `T0`. -/
theorem C02_announce_targets_reach_handler (N : List Handle) (tok : Handle → Bytes) (D : Nat)
    (s0 : HState) (target : Bytes) (T0 : Nat) (ops : List (HOp × Nat)) (TF : Nat)
    (timer : Timer Task) (e : TimerEntry Task) (q : Nat)
    (hnet : NetOk N target)
    (htok : ∀ h ∈ N, (tok h).length ≤ Constants.MAX_TOKEN_LEN)
    (hD : D < Constants.LOOKUP_TIMEOUT_ns ∧ D < Constants.ENDGAME_TIMEOUT_ns)
    (hfa : s0.failAddrs = [])
    (hfree : ∀ l ∈ s0.lookups, l.aid ≠ s0.nextAid)
    (hgood : ∀ h ∈ goodHandles (s0.env T0) target, h ∈ N) (hsome : goodHandles (s0.env T0) target ≠ [])
    (hno : NoEndgameFire (s0.startLookup target true T0).1 s0.nextAid ops)
    (hrun : TruthfulRun N tok target D
      (RCfg.start (Lookup.new s0.nextAid s0.nextStream s0.selfId s0.v6 target true (s0.env T0)) T0)
      (projectRun (s0.startLookup target true T0).1 s0.nextAid ops))
    (hpop : ((s0.startLookup target true T0).1.runOps ops).timer.pop = some (timer, e))
    (htask : e.task = .lookupEndGame ⟨s0.nextAid, q⟩)
    (htimely : Timely N D ((RCfg.start (Lookup.new s0.nextAid s0.nextStream s0.selfId s0.v6 target true (s0.env T0)) T0).run
      (projectRun (s0.startLookup target true T0).1 s0.nextAid ops)) TF)
    (hdue : ∃ t, ((RCfg.start (Lookup.new s0.nextAid s0.nextStream s0.selfId s0.v6 target true (s0.env T0)) T0).run
      (projectRun (s0.startLookup target true T0).1 s0.nextAid ops)).egAt = some t ∧ t + Constants.ENDGAME_TIMEOUT_ns ≤ TF) :
    hsendsOf (((s0.startLookup target true T0).1.runOps ops).fireTimer TF).2.1 =
      (closest8 target N).map fun h => (h.addr, Body.req (Req.announce s0.selfId target s0.announcePort (tok h)), true) := by
  have hsend0 : ∀ a, (s0.env T0).sendFails a = false := fun a => by simp [HState.env, hfa]
  obtain ⟨h0, s1, s2, _, s4, _⟩ := start_inv (tok := tok) hnet s0.nextAid s0.nextStream s0.selfId s0.v6 true (s0.env T0) hsend0 hgood hsome
  have hc0 := rinv_not_completed h0
  simp only [RCfg.start] at hc0
  have hstored := startLookup_stored s0 target true T0 hfree s1 hc0
  have hfa1 : (s0.startLookup target true T0).1.failAddrs = [] := (hstep_fa s0 (.start target true) T0).trans hfa
  have hap1 : (s0.startLookup target true T0).1.announcePort = s0.announcePort := hstep_ap s0 (.start target true) T0
  obtain ⟨r1, r2, r3, r4⟩ := runOps_sim hnet htok hD.1 s0.nextAid ops _
    (RCfg.start (Lookup.new s0.nextAid s0.nextStream s0.selfId s0.v6 target true (s0.env T0)) T0) hfa1 hstored h0 hno hrun
  generalize (RCfg.start (Lookup.new s0.nextAid s0.nextStream s0.selfId s0.v6 target true (s0.env T0)) T0).run
    (projectRun (s0.startLookup target true T0).1 s0.nextAid ops) = c at r2 r3 r4 htimely hdue
  simp only [RCfg.start] at r4
  obtain ⟨env, henv, hfs, heffs⟩ := fireTimer_finish _ s0.nextAid q TF timer e c.l hpop htask r2 r1
  have hfin : FinishOk N D c env := ⟨hfs, by rw [henv]; exact htimely, by rw [henv]; exact hdue⟩
  obtain ⟨ht1, ht2⟩ := finish_targets hnet hD.2 c env r3 hfin
  rw [heffs, hsendsOf_lift, recvFinished_sends c.l env _ (r4.ann.trans s4) hfs, r4.selfId, s2, r3.tgt, ← ht1,
    runOps_ap, hap1, List.map_map, List.map_map]
  apply List.map_congr_left
  intro x hx
  have hes : x ∈ c.l.sorted := (C02_announce_targets c.l).2.2.subset hx
  simp only [Function.comp_def]
  rw [ht2 x hes]

/-! Non-vacuity of `C02_announce_targets_reach_handler`: the same 10-node network, now as a run of the
handler. The node (routing table: the good nodes 9 and 10) starts the announcing search at instant 0
— it gets the action id 2 —, then handles the 13 answers of the run above as datagrams, a `ping`
from a stranger and an answer with an id it never drew in between; the only timer entry left is
the search's end-game entry, popped at 1.500008 s. All hypotheses hold and the theorem yields the 8
announces. -/

def c02zS0 : HState := { HState.new c02xSelf false false (some 6881) [] 0 with table := c02xTable }
def c02zOp (now k seq : Nat) : HOp × Nat := (.incoming (.sym ⟨2, seq⟩) (.resp (c02xResp (c02xH k))) (c02xH k).addr, now)
def c02zOps : List (HOp × Nat) :=
  [c02zOp 1000 9 0, c02zOp 2000 10 1, c02zOp 3000 1 2,
   (.incoming (.raw [1, 2]) (.req (.ping (List.replicate 20 77))) ⟨false, [172, 16, 0, 1], 4000⟩, 3500),
   c02zOp 4000 2 3, c02zOp 5000 3 4, c02zOp 6000 4 5,
   (.incoming (.raw [9, 9, 9]) (.resp (c02xResp (c02xH 3))) (c02xH 3).addr, 6500),
   c02zOp 7000 5 6, c02zOp 8000 6 7, c02zOp 9000 4 9, c02zOp 10000 5 10, c02zOp 11000 6 11, c02zOp 12000 7 12,
   c02zOp 13000 8 13]

example : hsendsOf (((c02zS0.startLookup c02xTarget true 0).1.runOps c02zOps).fireTimer 1500008000).2.1 =
    [c02xH 1, c02xH 2, c02xH 3, c02xH 4, c02xH 5, c02xH 6, c02xH 7, c02xH 8].map fun h =>
      (h.addr, Body.req (Req.announce c02xSelf c02xTarget (some 6881) (7 :: h.addr.ip)), true) := by
  have hg : goodHandles (c02zS0.env 0) c02xTarget = [c02xH 9, c02xH 10] := by decide +kernel
  have hm : (((c02zS0.startLookup c02xTarget true 0).1.runOps c02zOps).timer.pop).map (·.2.task) =
      some (.lookupEndGame ⟨2, 8⟩) := by decide +kernel
  cases hpop : ((c02zS0.startLookup c02xTarget true 0).1.runOps c02zOps).timer.pop with
  | none => rw [hpop] at hm; cases hm
  | some x =>
    rw [hpop] at hm
    have htask : x.2.task = .lookupEndGame ⟨c02zS0.nextAid, 8⟩ := by
      have : c02zS0.nextAid = 2 := rfl
      rw [this]; simpa using hm
    have h := C02_announce_targets_reach_handler c02xN c02xTok 1000000000 c02zS0 c02xTarget 0 c02zOps 1500008000 x.1 x.2 8
      c02x_net c02x_tok (by decide) rfl (by simp [c02zS0, HState.new]) (by rw [hg]; decide) (by rw [hg]; simp)
      (noEndgameFire_of_no_fire _ _ _ (by decide +kernel))
      (truthfulRun_of_check _ _ _ _ _ _ (projectRun_sends _ _ _ (by decide +kernel)) (by decide +kernel))
      hpop htask (by decide +kernel) ⟨8000, by decide +kernel, by decide⟩
    rw [h]
    decide +kernel

end Btdht
