import Btdht.Props.C03
import Btdht.Proofs.Sorted
/-!
# C02 — A search reaches the 8 closest nodes, announces to them, yields every peer found

"When every queried node answers within one second and get_peers answers list the nodes truly
closest to the info-hash, an announcing search ends having sent announce_peer to exactly the 8
nodes closest to the info-hash (all nodes if fewer than 8 exist), each carrying the token that very
node issued, the searched info-hash, the node's own id, and either the configured port or
implied_port=1. The search stream delivers every peer address contained in every answer to its
get_peers queries, once per occurrence."

Model: `Btdht.Lookup`. Proved for all runs:
* the stream delivers every peer of every accepted answer, once per occurrence, in order
  (`C02_yields`);
* the announces at the end of a search go to the first `ANNOUNCE_PICK_NUM = 8` candidates — in the
  order of the candidate list, which is kept sorted by distance to the info-hash — among those that
  answered with a token, each carrying the latest token of that very node, the searched info-hash,
  the own id and the configured port (`none` = implied_port) (`C02_announce_content`,
  `C02_announce_targets`).
* the candidate list of every stored search is sorted by XOR distance to the info-hash in every
  state of every run — the binary search of `insert_sorted_node` is proved to return a correct
  insertion point (`C02_candidates_sorted`) — hence the announce targets are the **closest** token
  holders: every candidate that answered with a token and is not announced to is at least as far
  from the info-hash as every announce target (`C02_announce_closest`).
NOT proved in Lean: the liveness part under the environment hypotheses E1–E4 of DESIGN.md (that
every one of the 8 closest nodes of the *network* becomes a candidate, is queried and answers
before the end-game elapses). The end-to-end statement "announce targets = the 8 closest nodes of
the network" is decided by the tie: the `[C02]` oracle of the `handler` engine on truthful
simulated networks of 1..300 nodes (uniform and clustered ids). C02 is **partial** in this sense.
-/
namespace Btdht

/-- **C02 (every peer found is delivered)**: restated from `C03_yields_exactly`. -/
theorem C02_yields (l : Lookup) (env : LEnv) (fr : Handle) (tid : Tid) (rsp : Resp)
    (entry : Tid × Bytes × (Nat × Nat)) (hf : l.active.find? (·.1 = tid) = some entry) :
    ((l.recvResponse env fr tid rsp).2.2.filterMap fun e => match e with
      | .yield st a => some (st, a)
      | _ => none) = rsp.values.map fun a => (l.stream, a) := by
  obtain ⟨sends, hs, heq⟩ := C03_yields_exactly l env fr tid rsp entry hf
  rw [heq, List.filterMap_append]
  have h1 : (sends.filterMap fun e => match e with
      | .yield st a => some (st, a)
      | _ => none) = [] := by
    apply List.filterMap_eq_nil_iff.mpr
    intro e he
    have := hs e he
    cases e <;> simp_all [Effect.isSend]
  rw [h1, List.nil_append, List.filterMap_map]
  induction rsp.values with
  | nil => rfl
  | cons a t ih => simp [List.filterMap_cons, ih]

/-- **C02 (what is announced, and to whom)**: the announce targets are the first 8 candidates (in
candidate-list order) that hold a token; the i-th announce goes to the i-th target's address and
carries its recorded token, the searched info-hash, the own id and the configured port. -/
theorem C02_announce_content (l : Lookup) (env : LEnv) (port : Option Nat) (hw : l.willAnnounce = true) :
    ((l.recvFinished env port).2.2.filterMap fun e => match e with
      | .send dst _ req _ => some (dst, req)
      | _ => none) =
    l.announceTargets.map fun e =>
      (e.2.1.addr, Req.announce l.selfId l.target port (((l.tokens.find? (·.1 = e.2.1)).map (·.2)).getD [])) := by
  unfold Lookup.recvFinished
  simp only [hw, if_true]
  -- generalise the fold: the accumulator keeps selfId/target/tokens and appends one send per target
  have key : ∀ (ts : List (Bytes × Handle × Bool)) (acc : Lookup × LEnv × List Effect),
      acc.1.selfId = l.selfId → acc.1.target = l.target → acc.1.tokens = l.tokens →
      ((ts.foldl (announceStep port) acc).2.2.filterMap fun e => match e with
        | .send dst _ req _ => some (dst, req)
        | _ => none) =
      (acc.2.2.filterMap fun e => match e with
        | .send dst _ req _ => some (dst, req)
        | _ => none) ++ ts.map fun e =>
          (e.2.1.addr, Req.announce l.selfId l.target port (((l.tokens.find? (·.1 = e.2.1)).map (·.2)).getD [])) := by
    intro ts
    induction ts with
    | nil => intro acc _ _ _; simp
    | cons e ts ih =>
      intro acc h1 h2 h3
      simp only [List.foldl_cons, List.map_cons]
      have hstep : (announceStep port acc e).1.selfId = l.selfId ∧ (announceStep port acc e).1.target = l.target ∧
          (announceStep port acc e).1.tokens = l.tokens ∧
          ((announceStep port acc e).2.2.filterMap fun e => match e with
            | .send dst _ req _ => some (dst, req)
            | _ => none) =
          (acc.2.2.filterMap fun e => match e with
            | .send dst _ req _ => some (dst, req)
            | _ => none) ++ [(e.2.1.addr, Req.announce l.selfId l.target port (((l.tokens.find? (·.1 = e.2.1)).map (·.2)).getD []))] := by
        unfold announceStep
        simp only
        split <;> simp [h1, h2, h3, List.filterMap_append]
      obtain ⟨a1, a2, a3, a4⟩ := hstep
      rw [ih _ a1 a2 a3, a4]
      simp
  have := key l.announceTargets (l, env, []) rfl rfl rfl
  rw [List.filterMap_append]
  simp only [List.filterMap_nil, List.nil_append] at this
  rw [this]
  simp

/-- the announce targets: at most 8, all holding a token, taken in candidate-list order -/
theorem C02_announce_targets (l : Lookup) :
    l.announceTargets.length ≤ 8 ∧ (∀ e ∈ l.announceTargets, l.tokens.any (·.1 = e.2.1) = true) ∧
    l.announceTargets.Sublist l.sorted := by
  have h8 : Constants.ANNOUNCE_PICK_NUM = 8 := by decide
  unfold Lookup.announceTargets
  refine ⟨by rw [h8]; exact List.length_take_le _ _, fun e he => (List.mem_filter.mp (List.mem_of_mem_take he)).2, ?_⟩
  exact (List.take_sublist _ _).trans List.filter_sublist

/-- **C02 (the candidate list is sorted)**: in every state the handler reaches, the candidate list
of every stored search is sorted by its distance field (lexicographic order of the 20-byte XOR
distance: `bytesCmp`), and that field is the XOR distance of the node's id to the info-hash. -/
theorem C02_candidates_sorted (selfId : Bytes) (v6 ro : Bool) (port : Option Nat) (fa : List Addr) (t0 : Nat)
    (ops : List (HOp × Nat)) (l : Lookup) (hl : l ∈ ((HState.new selfId v6 ro port fa t0).runOps ops).lookups) :
    (l.sorted.map (·.1)).Pairwise (fun a b => bytesCmp a b ≠ .gt) ∧
    ∀ e ∈ l.sorted, e.1 = xorBytes l.target e.2.1.id := by
  have h := runOps_sort ops (HState.new selfId v6 ro port fa t0) (by intro m hm; simp [HState.new] at hm) l hl
  exact ⟨h.sorted, h.dist⟩

/-- **C02 (the announces go to the closest token holders)**: with a sorted candidate list, every
candidate that answered with a token but is not among the announce targets is at least as far from
the info-hash as every announce target; and there are such left-over candidates only when 8
announces are made. -/
theorem C02_announce_closest (l : Lookup) (h : LookupSorted l) :
    (∀ e ∈ l.announceTargets, ∀ c ∈ (l.sorted.filter (fun e => l.tokens.any (·.1 = e.2.1))).drop Constants.ANNOUNCE_PICK_NUM,
      bytesCmp (xorBytes l.target e.2.1.id) (xorBytes l.target c.2.1.id) ≠ .gt) ∧
    (l.announceTargets.length < 8 → (l.sorted.filter (fun e => l.tokens.any (·.1 = e.2.1))).drop Constants.ANNOUNCE_PICK_NUM = []) := by
  have h8 : Constants.ANNOUNCE_PICK_NUM = 8 := by decide
  constructor
  · intro e he c hc
    have hsub : (l.sorted.filter (fun e => l.tokens.any (·.1 = e.2.1))).Sublist l.sorted := List.filter_sublist
    have hpw : (l.sorted.filter (fun e => l.tokens.any (·.1 = e.2.1))).Pairwise (fun a b => bLe a.1 b.1) := by
      have := h.sorted
      unfold SortedKeys at this
      rw [List.pairwise_map] at this
      exact this.sublist hsub
    rw [← List.take_append_drop Constants.ANNOUNCE_PICK_NUM (l.sorted.filter (fun e => l.tokens.any (·.1 = e.2.1))),
      List.pairwise_append] at hpw
    have := hpw.2.2 e he c hc
    rw [h.dist e (hsub.subset (List.mem_of_mem_take he)), h.dist c (hsub.subset (List.mem_of_mem_drop hc))] at this
    exact this
  · intro hlt
    unfold Lookup.announceTargets at hlt
    rw [List.length_take] at hlt
    apply List.drop_eq_nil_of_le
    rw [h8] at hlt ⊢
    omega

end Btdht
