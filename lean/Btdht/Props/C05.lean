import Btdht.Proofs.Handler
/-!
# C05 — Each well-formed query gets exactly one correct reply; nothing else is answered

"A serving (non read-only) node answers every well-formed ping, find_node, get_peers and
announce_peer with exactly one datagram sent to the query's source address, echoing the transaction
id bytes unchanged and carrying the node's own id: ping/find_node replies carry no token or values,
get_peers replies carry a 20-byte token, nodes only of the requested families (want, else the
node's own family), and only peers of the requester's address family; announce_peer is
acknowledged, or refused with error 203 for a bad token and 202 when the store is full. The node
sends response or error messages only as such replies to queries: errors and undecodable datagrams
cause no traffic at all, responses are never answered, and a read-only node never replies."

Model: `HState.handleIncoming` (src/handler.rs), tied by the `handler` engine (lockstep over all
query kinds, argument combinations, transaction ids of length 0..32, both families, read-only
on/off, interleaved with responses, errors and garbage). The theorems hold in *every* handler
state (no reachability assumption) and for every transaction id.
This file also holds the handler-level clauses of C06 (`C06_gate`) and C07 (`C07_stored_address`).
Finding F5 (a query swallowed by `Socket::recv` when it reuses a pending bootstrap id) concerns the
socket layer in front of the handler; see DESIGN.md.
-/
namespace Btdht

/-- **C05 (a read-only node never replies to a query)** and does not change at all. -/
theorem C05_readonly (s : HState) (tid : InTid) (r : Req) (src : Addr) (now : Nat) (h : s.readOnly = true) :
    s.handleRequest tid r src now = (s, []) := by
  unfold HState.handleRequest; simp [h]

/-- **C05 (exactly one reply)**: a serving node answers every query with exactly one datagram, to
the query's source, echoing the transaction id, and the reply is a response carrying the node's own
id or an error. -/
theorem C05_one_reply (s : HState) (tid : InTid) (r : Req) (src : Addr) (now : Nat) (h : s.readOnly = false) :
    ∃ body, (s.handleRequest tid r src now).2 = [.send src tid body (!s.failAddrs.contains src)] ∧
      ((∃ rs, body = .resp rs ∧ rs.id = s.selfId) ∨ (∃ c m, body = .err c m)) := by
  unfold HState.handleRequest
  simp only [h, Bool.false_eq_true, if_false]
  cases r with
  | ping id => exact ⟨_, rfl, Or.inl ⟨_, rfl, rfl⟩⟩
  | findNode id target want => exact ⟨_, rfl, Or.inl ⟨_, rfl, rfl⟩⟩
  | getPeers id ih want => exact ⟨_, rfl, Or.inl ⟨_, rfl, rfl⟩⟩
  | announce id ih port token =>
    simp only
    split
    · exact ⟨_, rfl, Or.inr ⟨_, _, rfl⟩⟩
    · split
      · exact ⟨.resp (emptyResp s.selfId), rfl, Or.inl ⟨_, rfl, rfl⟩⟩
      · exact ⟨_, rfl, Or.inr ⟨_, _, rfl⟩⟩

/-- **C05 (ping / find_node replies carry no token and no values; ping carries no nodes)** -/
theorem C05_shape_ping (s : HState) (tid : InTid) (id : Bytes) (src : Addr) (now : Nat) (h : s.readOnly = false) :
    (s.handleRequest tid (.ping id) src now).2 =
      [.send src tid (.resp { id := s.selfId, values := [], nodes4 := [], nodes6 := [], token := none })
        (!s.failAddrs.contains src)] := by
  unfold HState.handleRequest; simp [h, emptyResp, HState.markRemote]

theorem C05_shape_find_node (s : HState) (tid : InTid) (id target : Bytes) (want : Option Want) (src : Addr) (now : Nat)
    (h : s.readOnly = false) :
    ∃ n4 n6, (s.handleRequest tid (.findNode id target want) src now).2 =
      [.send src tid (.resp { id := s.selfId, values := [], nodes4 := n4, nodes6 := n6, token := none })
        (!s.failAddrs.contains src)] ∧
      (n4, n6) = (s.markRemote id src now).closestFor target want now := by
  unfold HState.handleRequest
  simp only [h, Bool.false_eq_true, if_false]
  exact ⟨_, _, rfl, rfl⟩

/-- the node lists of a reply: only the requested families (`want`, else the node's own family),
each `replyNodes`-shaped (at most 8 distinct live contacts of that family, C09) -/
theorem C05_families (s : HState) (target : Bytes) (want : Option Want) (now : Nat) :
    let w : Want := want.getD (if s.v6 then .n6 else .n4)
    ((s.closestFor target want now).1 = if w = .n4 ∨ w = .both then
        (((s.table.closestNodes target now).filter (fun n => n.handle.addr.v6 = false)).take Constants.REPLY_NODES_PER_FAMILY).map (·.handle)
      else []) ∧
    ((s.closestFor target want now).2 = if w = .n6 ∨ w = .both then
        (((s.table.closestNodes target now).filter (fun n => n.handle.addr.v6 = true)).take Constants.REPLY_NODES_PER_FAMILY).map (·.handle)
      else []) := by
  unfold HState.closestFor
  cases want <;> simp

theorem tokEnc_length (t : TokTerm) (h : t.ip.length ≤ 19) : (tokEnc t).length = 20 := by
  simp [tokEnc]; omega

/-- **C05 (get_peers reply)**: own id, a token made for the requester's IP (20 bytes), only peers
of the requester's address family. -/
theorem C05_shape_get_peers (s : HState) (tid : InTid) (id ih : Bytes) (want : Option Want) (src : Addr) (now : Nat)
    (h : s.readOnly = false) :
    ∃ rs, (s.handleRequest tid (.getPeers id ih want) src now).2 =
        [.send src tid (.resp rs) (!s.failAddrs.contains src)] ∧
      rs.id = s.selfId ∧ (∀ a ∈ rs.values, a.v6 = src.v6) ∧
      (∃ tok : TokTerm, rs.token = some (tokEnc tok) ∧ tok.ip = src.ip) := by
  unfold HState.handleRequest
  simp only [h, Bool.false_eq_true, if_false]
  refine ⟨_, rfl, rfl, ?_, ⟨_, rfl, rfl⟩⟩
  intro a ha
  have := List.mem_of_mem_take ha
  simpa using (List.mem_filter.mp this).2

/-- **C05 (announce_peer)**: refused with error 203 exactly when the token is not accepted (wrong
length, or the token store refuses it for the source IP); otherwise acknowledged, or refused with
202 exactly when the peer store refuses the pair. -/
theorem C05_shape_announce (s : HState) (tid : InTid) (id ih : Bytes) (port : Option Nat) (token : Bytes) (src : Addr)
    (now : Nat) (h : s.readOnly = false) :
    let c := (s.markRemote id src now).checkToken token src now
    let a := c.1.store.add ⟨ih, connectAddr port src⟩ now
    (s.handleRequest tid (.announce id ih port token) src now).2 =
      [.send src tid
        (if !c.2 then .err 203 errInvalidToken
         else if a.2 then .resp (emptyResp s.selfId) else .err 202 errStorageFull)
        (!s.failAddrs.contains src)] := by
  have e203 : Constants.PROTOCOL_ERROR = 203 := by decide
  have e202 : Constants.SERVER_ERROR = 202 := by decide
  unfold HState.handleRequest
  simp only [h, Bool.false_eq_true, if_false, e203, e202]
  split
  · rfl
  · split <;> rfl

/-- what "the token is accepted" means: exactly 20 bytes and accepted by the token store for the
source IP (C06's theorems characterise the store) -/
theorem checkToken_spec (s : HState) (token : Bytes) (src : Addr) (now : Nat) :
    (s.checkToken token src now).2 =
      (decide (token.length = 20) && (s.tokens.checkin src.ip (tokDec? token) now).2) ∧
    (s.checkToken token src now).1.store = s.store := by
  have h20 : Constants.INFO_HASH_LEN = 20 := by decide
  unfold HState.checkToken
  rw [h20]
  split <;> simp_all

/-- **C06 (gate)**: an announce_peer whose token is not accepted stores nothing: the peer store is
exactly as before. -/
theorem C06_gate (s : HState) (tid : InTid) (id ih : Bytes) (port : Option Nat) (token : Bytes) (src : Addr) (now : Nat)
    (hbad : ((s.markRemote id src now).checkToken token src now).2 = false) :
    (s.handleRequest tid (.announce id ih port token) src now).1.store = s.store := by
  unfold HState.handleRequest
  split
  · rfl
  · simp only [hbad, Bool.not_false, if_true]
    rw [(checkToken_spec _ token src now).2]
    rfl

/-- **C07 (which address is stored)**: with an accepted token the pair handed to the peer store is
(info-hash, source IP with the announced port) — the source address itself for implied port. -/
theorem C07_stored_address (s : HState) (tid : InTid) (id ih : Bytes) (port : Option Nat) (token : Bytes) (src : Addr)
    (now : Nat) (hro : s.readOnly = false)
    (hv : ((s.markRemote id src now).checkToken token src now).2 = true) :
    (s.handleRequest tid (.announce id ih port token) src now).1.store =
      (s.store.add ⟨ih, connectAddr port src⟩ now).1 ∧
    (connectAddr none src = src) ∧ (∀ p, connectAddr (some p) src = { src with port := p }) := by
  refine ⟨?_, rfl, fun _ => rfl⟩
  unfold HState.handleRequest
  simp only [hro, Bool.false_eq_true, if_false, hv, Bool.not_true]
  have hs : ((s.markRemote id src now).checkToken token src now).1.store = s.store := by
    rw [(checkToken_spec _ token src now).2]; rfl
  split <;> simp [hs]

/-- effects of lookups lifted to the handler are queries, yields and closes — never responses or errors -/
theorem liftEffects_queries (effs : List Effect) :
    ∀ e ∈ liftEffects effs, match e with
      | .send _ _ body _ => ∃ r, body = .req r
      | _ => True := by
  intro e he
  simp only [liftEffects, List.mem_map] at he
  obtain ⟨x, _, rfl⟩ := he
  cases x <;> simp

/-- **C05 (silence)**: an error message causes nothing at all; a response never causes a response
or an error to be sent (only queries of a search, its yields and the closing of its stream). -/
theorem C05_silence_error (s : HState) (tid : InTid) (c : Nat) (m : Bytes) (src : Addr) (now : Nat) :
    s.handleIncoming tid (.err c m) src now = (s, []) := rfl

theorem completeLookup_queries (s : HState) (aid now : Nat) :
    ∀ e ∈ (s.completeLookup aid now).2, match e with
      | .send _ _ body _ => ∃ r, body = .req r
      | _ => True := by
  intro e he
  unfold HState.completeLookup at he
  split at he
  · simp at he
  · exact liftEffects_queries _ e he

theorem lookupResponse_queries (s : HState) (l : Lookup) (t : Option Tid) (rsp : Resp) (src : Addr) (now : Nat) :
    ∀ e ∈ (s.lookupResponse l t rsp src now).2, match e with
      | .send _ _ body _ => ∃ r, body = .req r
      | _ => True := by
  intro e he
  unfold HState.lookupResponse at he
  cases t with
  | none =>
    simp only at he
    split at he
    · rcases List.mem_append.mp he with h1 | h1
      · exact liftEffects_queries _ e h1
      · exact completeLookup_queries _ _ _ e h1
    · exact liftEffects_queries _ e he
  | some t =>
    simp only at he
    split at he
    · rcases List.mem_append.mp he with h1 | h1
      · exact liftEffects_queries _ e h1
      · exact completeLookup_queries _ _ _ e h1
    · exact liftEffects_queries _ e he

theorem C05_silence_response (s : HState) (tid : InTid) (rsp : Resp) (src : Addr) (now : Nat) :
    ∀ e ∈ (s.handleIncoming tid (.resp rsp) src now).2, match e with
      | .send _ _ body _ => ∃ r, body = .req r
      | _ => True := by
  intro e he
  simp only [HState.handleIncoming, HState.handleResponse] at he
  split at he
  · simp at he
  · split at he
    · exact lookupResponse_queries _ _ _ _ _ _ e he
    · split at he <;> simp at he

/-- a serving v4 node with one stored v4 peer, used as the non-vacuity witness -/
def exState : HState :=
  let s0 := HState.new (List.replicate 20 0) false false none [] 1000000000000
  { s0 with store := (s0.store.add ⟨List.replicate 20 7, ⟨false, [10,0,0,5], 6881⟩⟩ 1000000000000).1 }

def replyValues (effs : List HEffect) : List (List Nat × Option Nat) :=
  effs.filterMap fun e => match e with
    | .send _ _ (.resp rs) _ => some (rs.values.map (·.port), rs.token.map List.length)
    | _ => none

/-- Non-vacuity: it answers get_peers from a v4 source with exactly one reply listing that peer and
a 20-element token. -/
example :
    (exState.handleRequest (.raw [1,2]) (.getPeers (List.replicate 20 3) (List.replicate 20 7) none)
        ⟨false, [10,0,0,9], 4000⟩ 1000000000001).2.length = 1 ∧
    replyValues (exState.handleRequest (.raw [1,2]) (.getPeers (List.replicate 20 3) (List.replicate 20 7) none)
        ⟨false, [10,0,0,9], 4000⟩ 1000000000001).2 = [([6881], some 20)] := by
  decide +kernel

end Btdht
