import Btdht.Proofs.GuardTie.Node
import Btdht.Model.Table
/-!
# C10 — Contacts are classified good / questionable / bad exactly per BEP5 timing

"A contact is reported good only if within the last 15 minutes it either answered one of this
node's queries or (being already known) sent this node a query; a contact that did neither for 15
minutes is not reported good; a contact known only by hearsay is questionable until it answers or
queries. A contact that is not good and leaves two consecutive queries unanswered is no longer
reported at all (and is not offered to others) until it answers again, and any accepted answer
makes it good immediately."

Model: `Btdht.Node` (src/node.rs), tied by the `table` engine. A contact's life is a list of
events applied the way the routing table applies them: an accepted answer and a hearsay mention go
through `Node::update` with a fresh good / questionable node; queries sent and received are
recorded only while the contact is listed (`find_node_mut` sees pingable nodes only).
900000000000 ns = 15 min is the property's number; the model uses the constant from src/node.rs.
-/
namespace Btdht

notation "min15" => (900000000000 : Nat)

theorem lastSeenNs_eq : lastSeenNs = 900000000000 := by decide
theorem maxRefresh_eq : Constants.MAX_REFRESH_REQUESTS = 2 := by decide

/-- what can happen to a listed contact -/
inductive CEv where
  | answer (t : Nat)          -- it answered one of our queries (accepted response)
  | hearsay (t : Nat)         -- another node named it
  | queryReceived (t : Nat)   -- it sent us a query
  | querySent (t : Nat)       -- we sent it a query
  deriving Repr

def CEv.time : CEv → Nat
  | .answer t => t
  | .hearsay t => t
  | .queryReceived t => t
  | .querySent t => t

/-- the routing table's treatment of each event (`Bucket::add_node` → `Node::update`;
`find_node_mut` → `remote_request` / `local_request` on pingable nodes only) -/
def Node.apply (n : Node) : CEv → Node
  | .answer t => n.update (Node.asGood n.handle t) t
  | .hearsay t => n.update (Node.asQuestionable n.handle t) t
  | .queryReceived t => if n.isPingable t then n.remoteRequest t else n
  | .querySent t => if n.isPingable t then n.localRequest t else n

def Node.run (n : Node) : List CEv → Node
  | [] => n
  | e :: es => Node.run (n.apply e) es

/-- no answer and no hearsay among the events -/
def onlyQueries : List CEv → Prop
  | [] => True
  | .queryReceived _ :: es => onlyQueries es
  | .querySent _ :: es => onlyQueries es
  | _ :: _ => False

/-- **C10 (good only if)**: a contact reported good at `now` answered (or was credited with an
answer) less than 15 minutes ago, or — having answered or been named before and with fewer than
two strikes — sent us a query less than 15 minutes ago. -/
theorem C10_good_only_if (n : Node) (now : Nat) (h : n.status now = .good) :
    (∃ r, n.lastResponse = some r ∧ now - r < 900000000000) ∨
    (∃ r q, n.lastResponse = some r ∧ n.lastRequest = some q ∧ now - q < 900000000000 ∧
      n.refreshRequests < 2) := by
  unfold Node.status at h
  rw [lastSeenNs_eq, maxRefresh_eq] at h
  cases hr : n.lastResponse with
  | none => simp [hr] at h
  | some r =>
    simp only [hr] at h
    by_cases h1 : now - r < 900000000000
    · exact Or.inl ⟨r, rfl, h1⟩
    · simp only [h1, if_false] at h
      by_cases h2 : n.refreshRequests ≥ 2
      · simp [h2] at h
      · simp only [h2, if_false] at h
        cases hq : n.lastRequest with
        | none => simp [hq] at h
        | some q =>
          simp only [hq] at h
          by_cases h3 : now - q < 900000000000
          · exact Or.inr ⟨r, q, rfl, rfl, h3, by omega⟩
          · simp [h3] at h

/-- **C10 (stale is not good)**: neither an answer nor a query from it within 15 minutes ⇒ not good. -/
theorem C10_stale_not_good (n : Node) (now : Nat)
    (hr : ∀ r, n.lastResponse = some r → 900000000000 ≤ now - r)
    (hq : ∀ q, n.lastRequest = some q → 900000000000 ≤ now - q) : n.status now ≠ .good := by
  intro h
  rcases C10_good_only_if n now h with ⟨r, h1, h2⟩ | ⟨r, q, _, h2, h3, _⟩
  · have := hr r h1; omega
  · have := hq q h2; omega

/-- **C10 (hearsay)**: a contact known only by hearsay (named at `t`, clock ≥ 15 min as in the
implementation) is questionable at every later time, as long as it neither answers nor queries us
and we have sent it fewer than two queries. -/
theorem C10_hearsay (h : Handle) (t now : Nat) (ht : 900000000000 ≤ t) (hn : t ≤ now) :
    (Node.asQuestionable h t).status now = .questionable := by
  simp only [Node.status, Node.asQuestionable, lastSeenNs_eq, maxRefresh_eq]
  have : ¬ (now - (t - 900000000000) < 900000000000) := by omega
  simp [this]

/-- ... one unanswered query leaves it questionable, ... -/
theorem C10_hearsay_one_strike (h : Handle) (t t1 now : Nat) (ht : 900000000000 ≤ t) (h1 : t ≤ t1) (hn : t1 ≤ now) :
    ((Node.asQuestionable h t).localRequest t1).status now = .questionable := by
  have hq : (Node.asQuestionable h t).status t1 = .questionable := C10_hearsay h t t1 ht h1
  have hs : ({ Node.asQuestionable h t with lastLocalRequest := some t1 } : Node).status t1 = .questionable := hq
  unfold Node.localRequest
  simp only [hs]
  simp only [Node.status, Node.asQuestionable, lastSeenNs_eq, maxRefresh_eq]
  have : ¬ (now - (t - 900000000000) < 900000000000) := by omega
  simp [this]

/-- **C10 (any accepted answer makes it good immediately)**, whatever the contact's state. -/
theorem C10_answer_makes_good (n : Node) (t : Nat) : (n.apply (.answer t)).status t = .good := by
  have hg : (Node.asGood n.handle t).status t = .good := by
    simp [Node.status, Node.asGood, lastSeenNs_eq]
  simp only [Node.apply, Node.update, hg]
  cases hs : n.status t with
  | good =>
    simp only [Node.status, Node.asGood, lastSeenNs_eq]
    simp
  | questionable => exact hg
  | bad => exact hg

/-- while the recorded answer is older than 15 minutes and two strikes are recorded, the contact is bad -/
theorem status_bad_of_strikes (n : Node) (now : Nat) (hs : 2 ≤ n.refreshRequests)
    (hr : ∀ r, n.lastResponse = some r → 900000000000 ≤ now - r) : n.status now = .bad := by
  unfold Node.status
  rw [lastSeenNs_eq, maxRefresh_eq]
  cases h : n.lastResponse with
  | none => rfl
  | some r =>
    have := hr r h
    have h1 : ¬ (now - r < 900000000000) := by omega
    simp [h1, hs]

/-- a bad contact ignores queries (it is not listed, so they cannot be recorded) -/
theorem apply_query_of_bad (n : Node) (e : CEv) (hq : onlyQueries [e]) (hb : n.status e.time = .bad) :
    n.apply e = n := by
  cases e with
  | answer t => simp [onlyQueries] at hq
  | hearsay t => simp [onlyQueries] at hq
  | queryReceived t => simp [Node.apply, Node.isPingable, CEv.time] at hb ⊢; simp [hb]
  | querySent t => simp [Node.apply, Node.isPingable, CEv.time] at hb ⊢; simp [hb]

def evMono (t : Nat) : List CEv → Prop
  | [] => True
  | e :: es => t ≤ e.time ∧ evMono e.time es

def evLast (t : Nat) : List CEv → Nat
  | [] => t
  | e :: es => evLast e.time es

/-- **C10 (two strikes)**: a contact that is not good when we query it at `t1`, is still not good
when we query it again at `t2` (no answer in between; other queries in either direction allowed),
is bad from `t2` on — not pingable, hence absent from contacts and from answers to others — and
stays bad whatever queries are sent or received and however much time passes, until an answer
(which makes it good at once, `C10_answer_makes_good`) or a new mention by another node. -/
theorem C10_two_strikes (n : Node) (t1 t2 : Nat) (mid later : List CEv) (now : Nat)
    (h1 : n.status t1 ≠ .good) (hp1 : n.isPingable t1 = true)
    (hmid : onlyQueries mid) (hmono1 : evMono t1 mid) (hle : evLast t1 mid ≤ t2)
    (h2 : ((n.apply (.querySent t1)).run mid).status t2 ≠ .good)
    (hp2 : ((n.apply (.querySent t1)).run mid).isPingable t2 = true)
    (hlater : onlyQueries later) (hmono2 : evMono t2 later) (hnow : evLast t2 later ≤ now) :
    ((((n.apply (.querySent t1)).run mid).apply (.querySent t2)).run later).status now = .bad := by
  -- strikes only grow and the recorded answer does not change under query events
  have keep : ∀ (es : List CEv) (m : Node), onlyQueries es →
      (m.run es).lastResponse = m.lastResponse ∧ m.refreshRequests ≤ (m.run es).refreshRequests := by
    intro es
    induction es with
    | nil => intro m _; exact ⟨rfl, Nat.le_refl _⟩
    | cons e es ih =>
      intro m hq
      cases e with
      | answer t => simp [onlyQueries] at hq
      | hearsay t => simp [onlyQueries] at hq
      | queryReceived t =>
        obtain ⟨a, b⟩ := ih (m.apply (.queryReceived t)) hq
        refine ⟨a.trans ?_, Nat.le_trans ?_ b⟩
        · simp only [Node.apply]; split <;> rfl
        · simp only [Node.apply]; split <;> simp [Node.remoteRequest]
      | querySent t =>
        obtain ⟨a, b⟩ := ih (m.apply (.querySent t)) hq
        refine ⟨a.trans ?_, Nat.le_trans ?_ b⟩
        · simp only [Node.apply, Node.localRequest]; split <;> (try split) <;> rfl
        · simp only [Node.apply, Node.localRequest]; split <;> (try split) <;> simp
  -- a strike is recorded by a query sent to a listed contact that is not good
  have strike : ∀ (m : Node) (t : Nat), m.status t ≠ .good → m.isPingable t = true →
      (m.apply (.querySent t)).refreshRequests = m.refreshRequests + 1 ∧
      (m.apply (.querySent t)).lastResponse = m.lastResponse := by
    intro m t hng hp
    have hs : ({ m with lastLocalRequest := some t } : Node).status t ≠ .good := hng
    simp only [Node.apply, hp, if_true, Node.localRequest]
    rw [if_pos hs]
    exact ⟨rfl, rfl⟩
  obtain ⟨s1, r1⟩ := strike n t1 h1 hp1
  obtain ⟨rm, sm⟩ := keep mid (n.apply (.querySent t1)) hmid
  obtain ⟨s2, r2⟩ := strike _ t2 h2 hp2
  obtain ⟨rl, sl⟩ := keep later (((n.apply (.querySent t1)).run mid).apply (.querySent t2)) hlater
  apply status_bad_of_strikes
  · omega
  · intro r hr
    rw [rl, r2] at hr
    -- not good at t2 with this recorded answer ⇒ the answer is at least 15 min old at t2 ≤ now
    have hng := h2
    have ht2now : t2 ≤ now := by
      have : ∀ (es : List CEv) (t : Nat), evMono t es → t ≤ evLast t es := by
        intro es
        induction es with
        | nil => intro t _; exact Nat.le_refl _
        | cons e es ih => intro t h; exact Nat.le_trans h.1 (ih e.time h.2)
      exact Nat.le_trans (this later t2 hmono2) hnow
    unfold Node.status at hng
    rw [lastSeenNs_eq] at hng
    simp only [hr] at hng
    by_cases hlt : t2 - r < 900000000000
    · simp [hlt] at hng
    · omega

/-- Bad contacts are never reported: not in the contacts lists, ... -/
theorem C10_bad_not_in_contacts (t : Table) (now : Nat) (a : Addr) :
    (a ∈ (t.loadContacts now).1 → ∃ n ∈ t.buckets.flatMap (·.nodes), n.handle.addr = a ∧ n.status now = .good) ∧
    (a ∈ (t.loadContacts now).2 → ∃ n ∈ t.buckets.flatMap (·.nodes), n.handle.addr = a ∧ n.status now = .questionable) := by
  simp only [Table.loadContacts, List.mem_map, List.mem_filter, decide_eq_true_eq]
  constructor
  · rintro ⟨n, ⟨hn, hs⟩, rfl⟩; exact ⟨n, hn, rfl, hs⟩
  · rintro ⟨n, ⟨hn, hs⟩, rfl⟩; exact ⟨n, hn, rfl, hs⟩

/-- ... and not in any closest-node enumeration (what find_node / get_peers answers are built from). -/
theorem C10_bad_not_offered (t : Table) (target : Bytes) (now : Nat) (n : Node)
    (h : n ∈ t.closestNodes target now) : n.status now ≠ .bad := by
  simp only [Table.closestNodes, List.mem_flatMap, List.mem_append, List.mem_map, List.mem_filter,
    Bool.and_eq_true, decide_eq_true_eq] at h
  obtain ⟨idx, _, h⟩ := h
  rcases h with h | ⟨p, ⟨_, _, hp⟩, rfl⟩
  · split at h
    · simp only [Bucket.pingable, List.mem_filter] at h
      simpa [Node.isPingable] using h.2
    · simp at h
  · simpa [Node.isPingable] using hp

/-- Non-vacuity of `C10_two_strikes` (a questionable contact, two queries 12 s apart, a query from
it in between that cannot rescue it later) and of the 15-minute boundary. -/
example :
    let n := Node.asQuestionable ⟨[1], ⟨false, [10,0,0,1], 1⟩⟩ 1000000000000
    n.status 1000000000000 = .questionable ∧ n.isPingable 1000000000000 = true ∧
    ((n.apply (.querySent 1000000000000)).apply (.querySent 1012000000000)).status 1012000000000 = .bad ∧
    (Node.asGood ⟨[1], ⟨false, [10,0,0,1], 1⟩⟩ 0).status 899999999999 = .good ∧
    (Node.asGood ⟨[1], ⟨false, [10,0,0,1], 1⟩⟩ 0).status 900000000000 = .questionable := by
  decide

end Btdht
