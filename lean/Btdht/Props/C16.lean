import Btdht.Proofs.Dht
/-!
# C16 — A search requested before bootstrap finishes is carried out, not dropped

"As documented for search(), a search issued while the initial bootstrap is still in progress is
executed once bootstrap has completed: it yields the peers that the same search issued right after
bootstrap would yield, instead of ending empty because the routing table was still empty at the time
of the call."

Model: the node model (`Btdht.Model.Dht`), after the F16 repair. Trace events: `cmd (startLookup ..)`
(the API call reaches the handler), `bstate` (the handler handles a bootstrap completion), `yield` /
`closed` (an item / the end of a search stream).

* `C16_queued`: before the first completion a search request changes nothing but the queue, and
  emits nothing (its stream stays open);
* `C16_started_at_completion`: handling the first completion starts every queued search, in arrival
  order, each by exactly the function a search issued at that moment goes through
  (`C16_same_as_late`), and leaves the queue empty;
* `C16_no_result_before_bootstrap`: in every run, no search stream yields an item or ends before
  the first bootstrap completion has been handled — in particular none "ends empty because the
  routing table was still empty";
* `C16_after`: in every reachable state, once a completion was handled the queue is empty and
  stays unused: searches start immediately (also during later re-bootstraps).
What the started search then yields is C02/C03's subject; that it equals the late search's yield on
the real code is decided by the node engine (scenario `early`).
-/
namespace Btdht

/-- monitor: has a bootstrap completion been handled? no stream item / stream end before that -/
def c16scan (g : Bool) (_t : Nat) : DEv → Option Bool
  | .bstate => some true
  | .yield _ _ => if g then some g else none
  | .closed _ => if g then some g else none
  | _ => some g

def DEv.isResult : DEv → Bool
  | .yield _ _ | .closed _ => true
  | _ => false

def DEv.isBstate : DEv → Bool
  | .bstate => true
  | _ => false

structure QInv (s : DState) (g : Bool) : Prop where
  flag : g = s.bootstrappedOnce
  drained : s.bootstrappedOnce = true → s.queued = []
  noLookups : s.bootstrappedOnce = false → s.h.lookups = []

theorem c16scan_plain (g : Bool) (t : Nat) (ev : DEv) (h1 : ev.isResult = false) (h2 : ev.isBstate = false) :
    c16scan g t ev = some g := by
  cases ev <;> simp_all [c16scan, DEv.isResult, DEv.isBstate]

theorem scan_plain (g : Bool) (t : Nat) (evs : List DEv) (h : ∀ e ∈ evs, e.isResult = false ∧ e.isBstate = false) :
    scanL c16scan g t evs = some g := by
  induction evs with
  | nil => rfl
  | cons e rest ih =>
    have he := h e (by simp)
    simp only [scanL, c16scan_plain g t e he.1 he.2]
    exact ih (fun x hx => h x (by simp [hx]))

/-- once a completion was handled results are allowed: everything but `bstate` keeps the monitor -/
theorem scan_after (t : Nat) (evs : List DEv) (h : ∀ e ∈ evs, e.isBstate = false) :
    scanL c16scan true t evs = some true := by
  induction evs with
  | nil => rfl
  | cons e rest ih =>
    have he := h e (by simp)
    have : c16scan true t e = some true := by cases e <;> simp_all [c16scan, DEv.isBstate]
    simp only [scanL, this]
    exact ih (fun x hx => h x (by simp [hx]))

theorem worker_plain (e : DEv) (h : e.isWorkerMsg = true) : e.isResult = false ∧ e.isBstate = false := by
  cases e <;> simp_all [DEv.isWorkerMsg, DEv.isWorker, DEv.isResult, DEv.isBstate]

theorem liftH_noBstate (effs : List HEffect) : ∀ e ∈ liftH effs, e.isBstate = false := by
  intro e he
  simp only [liftH, List.mem_map] at he
  obtain ⟨x, _, rfl⟩ := he
  cases x <;> rfl

/-- the effects of a handler step on a node without searches are datagrams only -/
def HEffect.isSend : HEffect → Bool
  | .send .. => true
  | _ => false

theorem liftH_sends (effs : List HEffect) (h : ∀ x ∈ effs, x.isSend = true) :
    ∀ e ∈ liftH effs, e.isResult = false ∧ e.isBstate = false := by
  intro e he
  simp only [liftH, List.mem_map] at he
  obtain ⟨x, hx, rfl⟩ := he
  have := h x hx
  cases x <;> simp_all [HEffect.isSend, DEv.isResult, DEv.isBstate]

theorem QInv.frame {s s' : DState} {g : Bool} (h : QInv s g) (hf : WFrame s s') : QInv s' g where
  flag := by rw [hf.once]; exact h.flag
  drained := fun ho => by rw [hf.queued]; exact h.drained (hf.once ▸ ho)
  noLookups := fun ho => by rw [hf.h]; exact h.noLookups (hf.once ▸ ho)

theorem QInv.of {s s' : DState} {g : Bool} (h : QInv s g) (h1 : s'.bootstrappedOnce = s.bootstrappedOnce)
    (h2 : s'.queued = s.queued) (h3 : s.bootstrappedOnce = false → s'.h.lookups = []) : QInv s' g :=
  ⟨h1 ▸ h.flag, fun ho => h2 ▸ h.drained (h1 ▸ ho), fun ho => h3 (h1 ▸ ho)⟩

theorem refresh_lookups (s : HState) (now : Nat) : (s.refresh now).1.lookups = s.lookups ∧ ∀ x ∈ (s.refresh now).2, x.isSend = true := by
  unfold HState.refresh
  simp only
  have h := foldl_pred (fun (acc : HState × List HEffect) => acc.1.lookups = s.lookups ∧ ∀ x ∈ acc.2, x.isSend = true)
    (fun (acc : HState × List HEffect) h =>
      ({ acc.1 with refreshSeq := acc.1.refreshSeq + 1, table := markRequested acc.1.table h now },
       acc.2 ++ [HEffect.send h.addr (.sym ⟨refreshAid, acc.1.refreshSeq⟩) (.req (.findNode acc.1.selfId (flipBit s.selfId (if s.refreshBucket = maxBuckets then 0 else s.refreshBucket)) none)) (!acc.1.failAddrs.contains h.addr)]))
    (fun b a hb => ⟨hb.1, by
      intro x hx
      rcases List.mem_append.mp hx with hx | hx
      · exact hb.2 x hx
      · simp only [List.mem_singleton] at hx; subst hx; rfl⟩)
    ((((s.table.closestNodes (flipBit s.selfId (if s.refreshBucket = maxBuckets then 0 else s.refreshBucket)) now).filter
      (fun n => n.status now = .questionable && !n.recentlyRequestedFrom now)).take Constants.REFRESH_CONCURRENCY).map (·.handle)) (s, [])
    ⟨rfl, by simp⟩
  exact h

theorem handleTask_noLookups (s : HState) (task : Task) (now : Nat) (hl : s.lookups = []) (hne : task ≠ .tableRefresh) :
    s.handleTask task now = (s, []) := by
  cases task with
  | tableRefresh => exact absurd rfl hne
  | lookupTimeout t => simp [HState.handleTask, hl]
  | lookupEndGame t => simp [HState.handleTask, HState.completeLookup, hl]

theorem handleRequest_sends (s : HState) (tid : InTid) (r : Req) (src : Addr) (now : Nat) :
    (s.handleRequest tid r src now).1.lookups = s.lookups ∧ ∀ x ∈ (s.handleRequest tid r src now).2, x.isSend = true := by
  unfold HState.handleRequest
  split
  · exact ⟨rfl, by simp⟩
  · cases r with
    | ping id => exact ⟨rfl, by simp [HEffect.isSend]⟩
    | findNode id tg w => exact ⟨rfl, by simp [HEffect.isSend]⟩
    | getPeers id ih w => exact ⟨rfl, by simp [HEffect.isSend]⟩
    | announce id ih p tok =>
      simp only
      split
      · simp only [HState.checkToken, HState.markRemote]; split <;> exact ⟨rfl, by simp [HEffect.isSend]⟩
      · split
        · simp only [HState.checkToken, HState.markRemote]; split <;> exact ⟨rfl, by simp [HEffect.isSend]⟩
        · simp only [HState.checkToken, HState.markRemote]; split <;> exact ⟨rfl, by simp [HEffect.isSend]⟩

theorem handleIncoming_noLookups (s : HState) (tid : InTid) (body : Body) (src : Addr) (now : Nat) (hl : s.lookups = []) :
    (s.handleIncoming tid body src now).1.lookups = [] ∧ ∀ x ∈ (s.handleIncoming tid body src now).2, x.isSend = true := by
  unfold HState.handleIncoming
  cases body with
  | req r => have := handleRequest_sends s tid r src now; exact ⟨by rw [this.1]; exact hl, this.2⟩
  | err c m => exact ⟨hl, by simp⟩
  | resp r =>
    simp only [HState.handleResponse]
    split
    · exact ⟨hl, by simp⟩
    · simp only [hl, List.find?_nil]
      split <;> simp_all

/-- starting the queued searches: the flag stays, the queue is empty, no completion event -/
theorem startQueued_spec (s : DState) (now : Nat) (ho : s.bootstrappedOnce = true) :
    (s.startQueued now).1.bootstrappedOnce = true ∧ (s.startQueued now).1.queued = [] ∧
    ∀ e ∈ (s.startQueued now).2, e.isBstate = false := by
  unfold DState.startQueued
  have hf := foldl_pred (fun (acc : DState × List DEv) => acc.1.bootstrappedOnce = true ∧ acc.1.queued = [] ∧ ∀ e ∈ acc.2, e.isBstate = false)
    (fun (acc : DState × List DEv) q => ((acc.1.startLookup q.1 q.2 now).1, acc.2 ++ (acc.1.startLookup q.1 q.2 now).2))
    (fun b a hb => by
      obtain ⟨h1, h2, h3⟩ := hb
      rw [startLookup_once b.1 a.1 a.2 now h1]
      refine ⟨h1, h2, ?_⟩
      intro e he
      rcases List.mem_append.mp he with he | he
      · exact h3 e he
      · exact liftH_noBstate _ e he)
    s.queued ({ s with queued := [] }, []) ⟨ho, rfl, by simp⟩
  exact hf

theorem refreshRound_plain (s : DState) (now : Nat) :
    (s.refreshRound now).1.h.lookups = s.h.lookups ∧ (s.refreshRound now).1.queued = s.queued ∧
    (s.refreshRound now).1.bootstrappedOnce = s.bootstrappedOnce ∧
    ∀ e ∈ (s.refreshRound now).2, e.isResult = false ∧ e.isBstate = false := by
  unfold DState.refreshRound
  have h := refresh_lookups s.h now
  refine ⟨h.1, rfl, rfl, ?_⟩
  intro e he
  simp only [List.cons_append, List.nil_append, List.mem_cons] at he
  rcases he with rfl | he
  · exact ⟨rfl, rfl⟩
  · exact liftH_sends _ h.2 e he

theorem firstRefresh_plain (s : DState) (now : Nat) :
    (s.firstRefresh now).1.h.lookups = s.h.lookups ∧ (s.firstRefresh now).1.queued = s.queued ∧
    (s.firstRefresh now).1.bootstrappedOnce = s.bootstrappedOnce ∧
    ∀ e ∈ (s.firstRefresh now).2, e.isResult = false ∧ e.isBstate = false := by
  unfold DState.firstRefresh
  split
  · exact ⟨rfl, rfl, rfl, by simp⟩
  · exact refreshRound_plain _ now

theorem bootstrapSuccess_ok16 (s : DState) (g : Bool) (now : Nat) (h : QInv s g) :
    Ok QInv c16scan g now (s.bootstrapSuccess now) := by
  unfold DState.bootstrapSuccess
  simp only
  have hfr := firstRefresh_plain { s with waiters := [] } now
  have hq := startQueued_spec { (({ s with waiters := [] } : DState).firstRefresh now).1 with bootstrappedOnce := true } now rfl
  refine ⟨true, ?_, ⟨hq.1.symm, fun _ => hq.2.1, fun ho => by rw [hq.1] at ho; cases ho⟩⟩
  -- the events: bstate first, then nothing that un-sets the monitor
  simp only [List.cons_append, List.nil_append, scanL]
  have h0 : c16scan g now DEv.bstate = some true := rfl
  rw [h0]
  apply scan_after
  intro e he
  rcases List.mem_append.mp he with he | he
  · simp only [List.mem_map] at he; obtain ⟨i, _, rfl⟩ := he; rfl
  · rcases List.mem_append.mp he with he | he
    · exact (hfr.2.2.2 e he).2
    · exact hq.2.2 e he

theorem c16_obligations : Obligations QInv c16scan where
  clock := fun s g d h => ⟨h.flag, h.drained, h.noLookups⟩
  oracle := fun s g fr h => ⟨h.flag, h.drained, h.noLookups⟩
  worker := fun s g now r h hb => by
    obtain ⟨hf, hev⟩ := bStep_frame s now r hb
    refine ⟨g, scan_plain _ _ _ (fun e he => worker_plain e ?_), h.frame hf⟩
    have := hev e he; cases e <;> simp_all [DEv.isWorkerMsg, DEv.isWorker]
  timer := fun s g now r h hf => by
    unfold DState.fireOne at hf
    cases hp : s.h.timer.pop with
    | none => simp [hp] at hf
    | some pe =>
      obtain ⟨timer, e⟩ := pe
      simp only [hp] at hf
      split at hf
      · split at hf
        · simp only [Option.some.injEq] at hf; subst hf
          have hr := refreshRound_plain { s with h := { s.h with timer := timer } } now
          refine ⟨g, ?_, h.of hr.2.2.1 hr.2.1 (fun ho => by rw [hr.1]; exact h.noLookups ho)⟩
          apply scan_plain
          intro x hx
          simp only [List.cons_append, List.nil_append, List.mem_cons] at hx
          rcases hx with rfl | hx
          · exact ⟨rfl, rfl⟩
          · exact hr.2.2.2 x hx
        · rename_i task hne
          simp only [Option.some.injEq] at hf; subst hf
          by_cases ho : s.bootstrappedOnce = true
          · have hg : g = true := h.flag.trans ho
            subst hg
            refine ⟨true, ?_, h.of rfl rfl (fun hc => by rw [ho] at hc; cases hc)⟩
            apply scan_after
            intro x hx
            simp only [List.cons_append, List.nil_append, List.mem_cons] at hx
            rcases hx with rfl | hx
            · rfl
            · exact liftH_noBstate _ x hx
          · have ho' : s.bootstrappedOnce = false := by simpa using ho
            have hl : ({ s.h with timer := timer } : HState).lookups = [] := h.noLookups ho'
            have ht := handleTask_noLookups { s.h with timer := timer } e.task now hl (by intro hc; exact hne hc)
            rw [ht]
            refine ⟨g, ?_, h.of rfl rfl (fun _ => hl)⟩
            exact scan_plain _ _ _ (by intro x hx; simp [liftH] at hx; subst hx; exact ⟨rfl, rfl⟩)
      · simp at hf
  observe := fun s g now h => by
    unfold DState.hObserve
    split
    · exact ok_nil s g now h
    · simp only
      split
      · exact bootstrapSuccess_ok16 _ g now ⟨h.flag, h.drained, h.noLookups⟩
      · exact ok_nil _ g now ⟨h.flag, h.drained, h.noLookups⟩
  command := fun s g now c h => by
    cases c with
    | startBootstrap =>
      simp only [DState.command]
      split
      · obtain ⟨hf, hev⟩ := beginAttempt_frame s now
        refine ⟨g, ?_, h.frame hf⟩
        apply scan_plain
        intro e he
        simp only [List.cons_append, List.nil_append, List.mem_cons] at he
        rcases he with rfl | he
        · exact ⟨rfl, rfl⟩
        · have := hev e he; exact worker_plain e (by cases e <;> simp_all [DEv.isWorkerMsg, DEv.isWorker])
      · exact ⟨g, rfl, h⟩
    | checkBootstrap =>
      simp only [DState.command]
      split
      · exact ⟨g, rfl, ⟨h.flag, h.drained, h.noLookups⟩⟩
      · exact ⟨g, rfl, ⟨h.flag, h.drained, h.noLookups⟩⟩
    | startLookup ih ann =>
      simp only [DState.command]
      by_cases ho : s.bootstrappedOnce = true
      · rw [startLookup_once s ih ann now ho]
        have hg : g = true := h.flag.trans ho
        subst hg
        refine ⟨true, ?_, h.of rfl rfl (fun hc => by rw [ho] at hc; cases hc)⟩
        apply scan_after
        intro x hx
        simp only [List.cons_append, List.nil_append, List.mem_cons] at hx
        rcases hx with rfl | hx
        · rfl
        · exact liftH_noBstate _ x hx
      · have ho' : s.bootstrappedOnce = false := by simpa using ho
        unfold DState.startLookup
        rw [if_pos (by simp [ho'])]
        have hd : s.bootstrappedOnce = true → s.queued ++ [(ih, ann)] = [] := fun hc => by rw [ho'] at hc; cases hc
        exact ⟨g, rfl, ⟨h.flag, hd, fun _ => h.noLookups ho'⟩⟩
    | getLocalAddr => exact ⟨g, rfl, h⟩
    | getState => exact ⟨g, rfl, h⟩
    | loadContacts => exact ⟨g, rfl, h⟩
  datagram := fun s g now tid body src h => by
    unfold DState.datagram
    simp only
    split
    · -- completes a pending exchange of the worker: the answer waits for the worker
      refine ⟨g, ?_, h.frame (wframe_ready s _)⟩
      apply scan_plain
      intro e he
      simp only [List.mem_singleton] at he
      subst he
      exact ⟨rfl, rfl⟩
    · by_cases ho : s.bootstrappedOnce = true
      · have hg : g = true := h.flag.trans ho
        subst hg
        refine ⟨true, ?_, h.of rfl rfl (fun hc => by rw [ho] at hc; cases hc)⟩
        apply scan_after
        intro x hx
        simp only [List.cons_append, List.nil_append, List.mem_cons] at hx
        rcases hx with rfl | hx
        · rfl
        · exact liftH_noBstate _ x hx
      · have ho' : s.bootstrappedOnce = false := by simpa using ho
        have hi := handleIncoming_noLookups s.h tid body src now (h.noLookups ho')
        refine ⟨g, ?_, h.of rfl rfl (fun _ => hi.1)⟩
        apply scan_plain
        intro e he
        simp only [List.cons_append, List.nil_append, List.mem_cons] at he
        rcases he with rfl | he
        · exact ⟨rfl, rfl⟩
        · exact liftH_sends _ hi.2 e he
  garbage := fun s g now src h => ⟨g, rfl, h⟩

theorem qinv_new (selfId : Bytes) (addr : Addr) (ro : Bool) (port : Option Nat) (fa : List Addr) (cfg : BConfig) (now : Nat) :
    QInv (DState.new selfId addr ro port fa cfg now) false :=
  ⟨rfl, fun h => by simp [DState.new] at h, fun _ => rfl⟩

/-- **C16 (queued)**: a search requested before the first bootstrap completion only joins the
queue: no datagram, no stream item, the stream is not closed. -/
theorem C16_queued (s : DState) (ih : Bytes) (ann : Bool) (now : Nat) (h : s.bootstrappedOnce = false) :
    s.command (.startLookup ih ann) now = ({ s with queued := s.queued ++ [(ih, ann)] }, [.cmd (.startLookup ih ann)]) := by
  simp [DState.command, DState.startLookup, h]

/-- **C16 (same as late)**: once the initial bootstrap has completed, a search request is handed to
the handler's `start_lookup` at once; the queued searches go through exactly this function when
the completion is handled (`C16_started_at_completion`). -/
theorem C16_same_as_late (s : DState) (ih : Bytes) (ann : Bool) (now : Nat) (h : s.bootstrappedOnce = true) :
    s.startLookup ih ann now = ({ s with h := (s.h.startLookup ih ann now).1 }, liftH (s.h.startLookup ih ann now).2.1) :=
  startLookup_once s ih ann now h

/-- **C16 (started at completion)**: handling a bootstrap completion resolves the waiters, starts
the refresh chain if need be and then starts every queued search in arrival order — each one by
`startLookup` in the state its predecessors left (`startQueued` is that fold) — and leaves the queue
empty with the flag set. -/
theorem C16_started_at_completion (s : DState) (now : Nat) :
    (s.bootstrapSuccess now).1.queued = [] ∧ (s.bootstrapSuccess now).1.bootstrappedOnce = true ∧
    s.bootstrapSuccess now =
      (let r1 := ({ s with waiters := [] } : DState).firstRefresh now
       let r2 := s.queued.foldl (fun (acc : DState × List DEv) q =>
            ((acc.1.startLookup q.1 q.2 now).1, acc.2 ++ (acc.1.startLookup q.1 q.2 now).2))
          ({ r1.1 with bootstrappedOnce := true, queued := [] }, [])
       (r2.1, [DEv.bstate] ++ s.waiters.map DEv.resolved ++ (r1.2 ++ r2.2))) := by
  have hq := startQueued_spec { (({ s with waiters := [] } : DState).firstRefresh now).1 with bootstrappedOnce := true } now rfl
  have hfr := firstRefresh_plain { s with waiters := [] } now
  refine ⟨hq.2.1, hq.1, ?_⟩
  unfold DState.bootstrapSuccess DState.startQueued
  simp only
  rw [hfr.2.1]

/-- no stream item and no stream end before the first handled completion -/
def noResultBefore : List (Nat × DEv) → Prop
  | [] => True
  | e :: rest => e.2.isBstate = true ∨ (e.2.isResult = false ∧ noResultBefore rest)

theorem scan_noResultBefore (g' : Bool) (evs : List (Nat × DEv)) (h : scanT c16scan false evs = some g') :
    noResultBefore evs := by
  induction evs with
  | nil => trivial
  | cons e rest ih =>
    obtain ⟨t, ev⟩ := e
    simp only [scanT] at h
    cases hb : ev.isBstate with
    | true => exact Or.inl hb
    | false =>
      right
      cases hr : ev.isResult with
      | false =>
        rw [c16scan_plain false t ev hr hb] at h
        exact ⟨rfl, ih h⟩
      | true =>
        have : c16scan false t ev = none := by cases ev <;> simp_all [c16scan, DEv.isResult]
        rw [this] at h
        cases h

/-- **C16 (nothing ends early)**: in every run of a node no search stream yields an item or is
closed before the first bootstrap completion has been handled: a search requested early is never
answered from the still empty routing table. -/
theorem C16_no_result_before_bootstrap (selfId : Bytes) (addr : Addr) (ro : Bool) (port : Option Nat) (fa : List Addr)
    (cfg : BConfig) (t0 : Nat) (ins : List DInput) :
    noResultBefore ((DState.new selfId addr ro port fa cfg t0).run ins).2 := by
  obtain ⟨g, hs, _⟩ := run_ok c16_obligations _ false ins (qinv_new selfId addr ro port fa cfg t0)
  exact scan_noResultBefore g _ hs

/-- **C16 (after)**: in every state of every run: if a completion was handled the queue is empty
(every early search was started), otherwise no search has been started yet. -/
theorem C16_after (selfId : Bytes) (addr : Addr) (ro : Bool) (port : Option Nat) (fa : List Addr)
    (cfg : BConfig) (t0 : Nat) (ins : List DInput) :
    let s := ((DState.new selfId addr ro port fa cfg t0).run ins).1
    (s.bootstrappedOnce = true → s.queued = []) ∧ (s.bootstrappedOnce = false → s.h.lookups = []) := by
  obtain ⟨g, _, hi⟩ := run_ok c16_obligations _ false ins (qinv_new selfId addr ro port fa cfg t0)
  exact ⟨hi.drained, hi.noLookups⟩

end Btdht
