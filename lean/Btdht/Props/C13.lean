import Btdht.Proofs.Codec
import Btdht.Proofs.Reorder
import Btdht.Proofs.Bencode
/-!
# C13 — KRPC wire codec conforms to BEP5/BEP32 and round-trips every message

"For every well-formed KRPC message ... the encoder emits exactly the canonical bencoding
prescribed by BEP3/5/32 (sorted keys, compact 6/18-byte peers, 26/38-byte nodes, big-endian ports,
implied_port with port 0) and the decoder maps that encoding back to the same message. The decoder
yields the same message when keys are reordered or keys unknown to BEP5/32 are present at any
level, and it rejects queries whose arguments do not fit the named method, ids that are not 20
bytes and node lists whose length is not a multiple of the entry size."

Model: `encodeMsg` / `decodeMsg` (src/message.rs, src/compact.rs, src/bencode.rs over
torrust-serde-bencode 0.2.3 and serde's derive semantics), tied to the code by the `codec` engine
(encoder bytes and decoder verdicts compared on structured, respelled and malformed inputs).
Proved here for the whole message space: byte-level round trip (with any trailing bytes),
totality of the encoder on well-formed messages, sorted keys at every level, the literal BEP
templates of ping and announce_peer, and the rejections. The invariance under key reordering and
unknown keys is proved at every level (`C13_reorder_unknown_tree`, `C13_reorder_unknown`): any
dictionary that holds the encoder's pairs of the top level, of `a` and of `r` in any order, with any
further pairs under keys that are not field names of that level (UTF-8 strings such as `v`, `ip`,
`ro`, `noseed`, `scrape`, `name`; arbitrary well-formed values nested no deeper than the pre-scan's
32 levels) decodes to the same message. The class of variants is `MsgVariant`.
-/
namespace Btdht

/-- no byte string of the message is 2^64 bytes long or longer (every datagram is ≤ 64 KiB) -/
def Msg.Sized (m : Msg) : Prop :=
  m.tid.length < 2 ^ 64 ∧
  match m.body with
  | .req (.announce _ _ _ token) => token.length < 2 ^ 64
  | .req _ => True
  | .resp r => (r.nodes4.flatMap compactNode).length < 2 ^ 64 ∧ (r.nodes6.flatMap compactNode).length < 2 ^ 64 ∧
      (∀ t, r.token = some t → t.length < 2 ^ 64)
  | .err _ msg => msg.length < 2 ^ 64

theorem ok_ofList_bytes (l : List Bytes) (h : ∀ b ∈ l, b.length < 2 ^ 64) :
    BList.Ok (BList.ofList (l.map BVal.bytes)) := by
  induction l with
  | nil => simp [BList.ofList, BList.Ok]
  | cons b l ih =>
    simp only [List.map_cons, BList.ofList, BList.Ok, BVal.Ok]
    exact ⟨h b (by simp), ih (fun x hx => h x (by simp [hx]))⟩

theorem depth_ofList_bytes (l : List Bytes) : BList.depth (BList.ofList (l.map BVal.bytes)) = 0 := by
  induction l with
  | nil => rfl
  | cons b l ih => simp [BList.ofList, BList.depth, BVal.depth, ih]

theorem len20_lt (b : Bytes) (h : b.length = 20) : b.length < 2 ^ 64 := by rw [h]; decide

theorem wantVal_ok (w : Want) : BVal.Ok (wantVal w) ∧ BVal.depth (wantVal w) = 1 := by
  cases w <;> simp [wantVal, BList.ofList, BVal.Ok, BList.Ok, BVal.depth, BList.depth, K.n4, K.n6]

/-- the encoder's tree is well-formed and at most three levels deep -/
theorem msgTree_ok (m : Msg) (h : m.WF) (hs : m.Sized) : BVal.Ok (msgTree m) ∧ BVal.depth (msgTree m) ≤ 3 := by
  obtain ⟨tid, body⟩ := m
  obtain ⟨htid, hbody⟩ := hs
  simp only at htid hbody
  cases body with
  | req r =>
    cases r with
    | ping id =>
      simp only [Msg.WF, Req.WF] at h
      simp [msgTree, reqArgs, reqName, BList.ofList, BList.Ok, BVal.Ok, BList.toList, BVal.depth, BList.depth,
        K.a, K.q, K.t, K.y, K.id, K.ping, htid, len20_lt id h]
    | findNode id target w =>
      simp only [Msg.WF, Req.WF] at h
      cases w with
      | none =>
        simp [msgTree, reqArgs, reqName, BList.ofList, BList.Ok, BVal.Ok, BList.toList, BVal.depth, BList.depth,
          K.a, K.q, K.t, K.y, K.id, K.target, K.findNode, htid, len20_lt id h.1, len20_lt target h.2]
      | some w =>
        obtain ⟨w1, w2⟩ := wantVal_ok w
        simp [msgTree, reqArgs, reqName, BList.ofList, BList.Ok, BVal.Ok, BList.toList, BVal.depth, BList.depth,
          K.a, K.q, K.t, K.y, K.id, K.target, K.want, K.findNode, htid, len20_lt id h.1, len20_lt target h.2, w1, w2]
    | getPeers id ih w =>
      simp only [Msg.WF, Req.WF] at h
      cases w with
      | none =>
        simp [msgTree, reqArgs, reqName, BList.ofList, BList.Ok, BVal.Ok, BList.toList, BVal.depth, BList.depth,
          K.a, K.q, K.t, K.y, K.id, K.infoHash, K.getPeers, htid, len20_lt id h.1, len20_lt ih h.2]
      | some w =>
        obtain ⟨w1, w2⟩ := wantVal_ok w
        simp [msgTree, reqArgs, reqName, BList.ofList, BList.Ok, BVal.Ok, BList.toList, BVal.depth, BList.depth,
          K.a, K.q, K.t, K.y, K.id, K.infoHash, K.want, K.getPeers, htid, len20_lt id h.1, len20_lt ih h.2, w1, w2]
    | announce id ih port token =>
      simp only [Msg.WF, Req.WF] at h
      obtain ⟨h1, h2, h3⟩ := h
      cases port with
      | none =>
        simp [msgTree, reqArgs, reqName, BList.ofList, BList.Ok, BVal.Ok, BList.toList, BVal.depth, BList.depth,
          K.a, K.q, K.t, K.y, K.id, K.infoHash, K.port, K.impliedPort, K.token, K.announcePeer, htid, hbody,
          len20_lt id h1, len20_lt ih h2]
      | some p =>
        have hp := h3 p rfl
        have hi : (p : Int) < 9223372036854775808 := by omega
        have hi2 : -(9223372036854775808 : Int) ≤ (p : Int) := by omega
        simp [msgTree, reqArgs, reqName, BList.ofList, BList.Ok, BVal.Ok, BList.toList, BVal.depth, BList.depth,
          K.a, K.q, K.t, K.y, K.id, K.infoHash, K.port, K.impliedPort, K.token, K.announcePeer, htid, hbody,
          len20_lt id h1, len20_lt ih h2, hi, hi2]
  | resp r =>
    obtain ⟨hid, hv, _, _⟩ := h
    obtain ⟨hn4, hn6, htok⟩ := hbody
    obtain ⟨id, values, nodes4, nodes6, token⟩ := r
    simp only at hid hv hn4 hn6 htok
    have hvals : BList.Ok (BList.ofList (values.map fun a => BVal.bytes (compactAddr a))) := by
      have := ok_ofList_bytes (values.map compactAddr) (by
        intro b hb
        obtain ⟨a, ha, rfl⟩ := List.mem_map.mp hb
        rw [compactAddr_length a (hv a ha)]; split <;> decide)
      have e : (values.map fun a => BVal.bytes (compactAddr a)) = (values.map compactAddr).map BVal.bytes := by
        rw [List.map_map]; rfl
      rw [e]; exact this
    have hvd : BList.depth (BList.ofList (values.map fun a => BVal.bytes (compactAddr a))) = 0 := by
      have e : (values.map fun a => BVal.bytes (compactAddr a)) = (values.map compactAddr).map BVal.bytes := by
        rw [List.map_map]; rfl
      rw [e]; exact depth_ofList_bytes (values.map compactAddr)
    by_cases c4 : nodes4.isEmpty <;> by_cases c6 : nodes6.isEmpty <;> by_cases cv : values.isEmpty <;>
      cases token <;>
      simp_all [msgTree, respArgs, BList.ofList, BList.Ok, BVal.Ok, BList.toList, BVal.depth, BList.depth,
        K.r, K.t, K.y, K.id, K.nodes, K.nodes6, K.token, K.values, len20_lt]
  | err code msg =>
    obtain ⟨hc, _⟩ := h
    have hi : (code : Int) < 9223372036854775808 := by omega
    have hi2 : -(9223372036854775808 : Int) ≤ (code : Int) := by omega
    simp [msgTree, BList.ofList, BList.Ok, BVal.Ok, BList.toList, BVal.depth, BList.depth,
      K.e, K.t, K.y, htid, hbody, hi, hi2]

/-- **C13 (round trip)**: for every well-formed message, decoding the encoder's output — followed
by any trailing bytes — yields the message again. -/
theorem C13_roundtrip (m : Msg) (h : m.WF) (hs : m.Sized) (trailing : Bytes) :
    decodeMsg (printVal (msgTree m) ++ trailing) = .ok m := by
  obtain ⟨hok, hdep⟩ := msgTree_ok m h hs
  unfold decodeMsg
  rw [checkLimits_printVal _ _ hok (by omega), readTop_printVal _ _ hok]
  simp [decodeTree_msgTree m h]

/-- **C13 (the encoder is total on well-formed messages)** and emits the printed template. -/
theorem C13_encode_total (m : Msg) (h : m.WF) : encodeMsg m = some (printVal (msgTree m)) := by
  have : encodable m = true := by
    obtain ⟨tid, body⟩ := m
    cases body with
    | req r => rfl
    | err c t => rfl
    | resp r =>
      obtain ⟨_, _, h4, h6⟩ := h
      simp only [encodable, Bool.and_eq_true, List.all_eq_true]
      constructor
      · intro x hx; obtain ⟨_, hv, _, hl⟩ := h4 x hx; simp [hv] at hl ⊢; exact hl
      · intro x hx; obtain ⟨_, hv, _, hl⟩ := h6 x hx; simp [hv] at hl ⊢; exact hl
  simp [encodeMsg, this]

/-- ... and a response holding a node of the wrong family in `nodes` is not encodable at all. -/
theorem C13_encode_rejects_family (tid : Bytes) (r : Resp) (x : Handle) (hx : x ∈ r.nodes4) (h6 : x.addr.v6 = true) :
    encodeMsg ⟨tid, .resp r⟩ = none := by
  have : encodable ⟨tid, .resp r⟩ = false := by
    simp only [encodable, Bool.and_eq_false_iff]
    left
    rw [List.all_eq_false]
    exact ⟨x, hx, by simp [h6]⟩
  simp [encodeMsg, this]

/-- lexicographic order on byte strings -/
def bytesLt : Bytes → Bytes → Bool
  | [], [] => false
  | [], _ :: _ => true
  | _ :: _, [] => false
  | a :: as, b :: bs => a < b || (a = b && bytesLt as bs)

/-- the keys of a dictionary's items are strictly increasing -/
def keysSorted : List BVal → Bool
  | .bytes k1 :: v1 :: .bytes k2 :: rest => bytesLt k1 k2 && keysSorted (.bytes k2 :: rest)
  | [.bytes _, _] => true
  | [] => true
  | _ => false

/-- **C13 (sorted keys at every level)** of every encoded message. -/
theorem C13_sorted_keys (m : Msg) :
    (match msgTree m with | .dict l => keysSorted l.toList | _ => false) = true ∧
    (match m.body with
     | .req r => keysSorted (reqArgs r)
     | .resp r => keysSorted (respArgs r)
     | .err _ _ => true) = true := by
  obtain ⟨tid, body⟩ := m
  cases body with
  | req r =>
    refine ⟨by simp [msgTree, toList_ofList, keysSorted, bytesLt, K.a, K.q, K.t, K.y], ?_⟩
    cases r with
    | ping id => simp [reqArgs, keysSorted]
    | findNode id target w => cases w <;> simp [reqArgs, keysSorted, bytesLt, K.id, K.target, K.want]
    | getPeers id ih w => cases w <;> simp [reqArgs, keysSorted, bytesLt, K.id, K.infoHash, K.want]
    | announce id ih port token =>
      cases port <;> simp [reqArgs, keysSorted, bytesLt, K.id, K.infoHash, K.port, K.impliedPort, K.token]
  | resp r =>
    refine ⟨by simp [msgTree, toList_ofList, keysSorted, bytesLt, K.r, K.t, K.y], ?_⟩
    obtain ⟨id, values, nodes4, nodes6, token⟩ := r
    by_cases c4 : nodes4.isEmpty <;> by_cases c6 : nodes6.isEmpty <;> by_cases cv : values.isEmpty <;>
      cases token <;>
      simp_all [respArgs, keysSorted, bytesLt, K.id, K.nodes, K.nodes6, K.token, K.values]
  | err code msg =>
    exact ⟨by simp [msgTree, toList_ofList, keysSorted, bytesLt, K.e, K.t, K.y], rfl⟩

theorem nd1 : natDigits 1 = [49] := by rw [natDigits_eq]; rfl
theorem nd2 : natDigits 2 = [50] := by rw [natDigits_eq]; rfl
theorem nd4 : natDigits 4 = [52] := by rw [natDigits_eq]; rfl
theorem nd5 : natDigits 5 = [53] := by rw [natDigits_eq]; rfl
theorem nd9 : natDigits 9 = [57] := by rw [natDigits_eq]; rfl
theorem nd0 : natDigits 0 = [48] := by rw [natDigits_eq]; rfl
theorem nd12 : natDigits 12 = [49, 50] := by rw [natDigits_eq]; simp [nd1, digitChar]
theorem nd13 : natDigits 13 = [49, 51] := by rw [natDigits_eq]; simp [nd1, digitChar]

/-- `"…"` as bytes, for the templates below -/
def ascii (s : List Char) : Bytes := s.map (·.toNat)

/-- **C13 (literal template, ping)**: `d1:ad2:id20:<id>e1:q4:ping1:t<len>:<tid>1:y1:qe` -/
theorem C13_canonical_ping (tid id : Bytes) :
    printVal (msgTree ⟨tid, .req (.ping id)⟩) =
      ascii "d1:ad2:id".toList ++ printBytes id ++ ascii "e1:q4:ping1:t".toList ++ printBytes tid ++
      ascii "1:y1:qe".toList := by
  simp [msgTree, reqArgs, reqName, BList.ofList, printVal, printList, printBytes, ascii, K.a, K.q, K.t, K.y, K.id,
    K.ping, nd1, nd2, nd4]

/-- **C13 (literal template, announce_peer with implied port)**: `implied_port` is `i1e` and the
mandatory `port` is `i0e`. -/
theorem C13_canonical_announce_implied (tid id ih token : Bytes) :
    printVal (msgTree ⟨tid, .req (.announce id ih none token)⟩) =
      ascii "d1:ad2:id".toList ++ printBytes id ++ ascii "12:implied_porti1e9:info_hash".toList ++ printBytes ih ++
      ascii "4:porti0e5:token".toList ++ printBytes token ++ ascii "e1:q13:announce_peer1:t".toList ++
      printBytes tid ++ ascii "1:y1:qe".toList := by
  simp [msgTree, reqArgs, reqName, BList.ofList, printVal, printList, printBytes, ascii, K.a, K.q, K.t, K.y, K.id,
    K.infoHash, K.port, K.impliedPort, K.token, K.announcePeer, nd0, nd1, nd2, nd4, nd5, nd9, nd12, nd13, intText]

/-- **C13 (compact forms)**: peers are 6 or 18 bytes, nodes 26 or 38, ports big-endian. -/
theorem C13_compact_sizes (a : Addr) (h : a.WF) (hd : Handle) (hh : hd.WF a.v6) :
    (compactAddr a).length = (if a.v6 then 18 else 6) ∧
    (compactNode hd).length = (if a.v6 then 38 else 26) ∧
    (compactAddr a).drop a.ip.length = [a.port / 256 % 256, a.port % 256] := by
  refine ⟨compactAddr_length a h, ?_, by simp [compactAddr, portBytes]⟩
  obtain ⟨hid, hv, hp, hl⟩ := hh
  have hx : Addr.WF hd.addr := ⟨hp, by cases hv6 : a.v6 <;> simp_all⟩
  simp only [compactNode, List.length_append, hid, compactAddr_length _ hx, hv]
  split <;> rfl

/-- **C13 (rejections)**: an accepted id has 20 bytes; an accepted node list is a whole number of
26-byte (38-byte) entries; an accepted peer is 6 or 18 bytes. -/
theorem C13_rejects_id (v : BVal) (b : Bytes) (h : idLike v = some b) : b.length = 20 := by
  unfold idLike at h
  split at h
  · split at h
    · rename_i hl; simp at h; subst h; rw [infoHashLen_eq] at hl; exact hl
    · simp at h
  · simp at h

theorem C13_rejects_peer (b : Bytes) (a : Addr) (h : decodeAddr b = some a) : b.length = 6 ∨ b.length = 18 := by
  unfold decodeAddr at h
  rw [v4Len_eq, v6Len_eq] at h
  by_cases h6 : b.length = 6
  · exact Or.inl h6
  · by_cases h18 : b.length = 18
    · exact Or.inr h18
    · simp [h6, h18] at h

theorem C13_rejects_nodes (addrLen : Nat) : ∀ (fuel : Nat) (b : Bytes) (l : List Handle),
    decodeNodes addrLen fuel b = some l → b.length = l.length * (20 + addrLen)
  | 0, _, _, h => by simp [decodeNodes] at h
  | fuel + 1, b, l, h => by
    unfold decodeNodes at h
    rw [infoHashLen_eq] at h
    by_cases he : b.isEmpty = true
    · simp only [he, if_true, Option.some.injEq] at h
      subst h
      simp [List.isEmpty_iff.mp he]
    · simp only [he, if_false, Bool.false_eq_true] at h
      by_cases hl : b.length < 20 + addrLen
      · simp [hl] at h
      · simp only [hl, if_false] at h
        cases ha : decodeAddr ((b.take (20 + addrLen)).drop 20) with
        | none => simp [ha] at h
        | some a =>
          cases hr : decodeNodes addrLen fuel (b.drop (20 + addrLen)) with
          | none => simp [ha, hr] at h
          | some rest =>
            simp only [ha, hr, Option.some.injEq] at h
            subst h
            have ih := C13_rejects_nodes addrLen fuel _ rest hr
            simp only [List.length_drop] at ih
            simp only [List.length_cons]
            have : (rest.length + 1) * (20 + addrLen) = rest.length * (20 + addrLen) + (20 + addrLen) := by
              rw [Nat.add_mul]; simp
            omega

theorem assemble_req (tid y : Option Bytes) (q : Option (Option Bytes)) (a : Option (Option Req))
    (r : Option (Option Resp)) (e : Option (Option (Nat × Bytes))) (t : Bytes) (req : Req)
    (h : assemble tid y q a r e = .ok ⟨t, .req req⟩) : y = some K.q ∧ q = some (some (reqName req)) ∧ a = some (some req) := by
  unfold assemble at h
  split at h
  · rename_i tid' y' q' a' r' e'
    by_cases hy : y' = K.q
    · simp only [hy, if_true] at h
      split at h
      · rename_i name req'
        by_cases hn : reqName req' = name
        · simp only [hn, if_true, Verdict.ok.injEq, Msg.mk.injEq, Body.req.injEq] at h
          obtain ⟨_, rfl⟩ := h
          exact ⟨by rw [hy], by rw [← hn], rfl⟩
        · simp [hn] at h
      · simp at h
    · simp only [hy, if_false] at h
      split at h
      · split at h <;> simp at h
      · split at h
        · split at h <;> simp at h
        · simp at h
  · simp at h

theorem decodeQ_some (f : Option BVal) (n : Bytes) (h : decodeQ f = some (some n)) : f = some (.bytes n) := by
  cases f with
  | none => simp [decodeQ] at h
  | some v =>
    cases v with
    | bytes b =>
      simp only [decodeQ, reqNameOf?] at h
      split at h
      · simp at h; rw [h]
      · simp at h
    | int _ => simp [decodeQ] at h
    | list _ => simp [decodeQ] at h
    | dict _ => simp [decodeQ] at h

/-- **C13 (arguments must fit the named method)**: a query is accepted only if its `q` field is
exactly the method name belonging to the argument shape that was recognised in `a`. -/
theorem C13_rejects_mismatch (l : BList) (tid : Bytes) (r : Req) (h : decodeTree (.dict l) = .ok ⟨tid, .req r⟩) :
    (fieldOf K.q l.toList).bind id = some (.bytes (reqName r)) := by
  unfold decodeTree at h
  simp only at h
  split at h
  · simp at h
  · split at h
    · simp at h
    · split at h
      · simp at h
      · exact decodeQ_some _ _ (assemble_req _ _ _ _ _ _ _ _ h).2.1

/-! ### reordered keys, unknown keys -/

theorem flatten_append (a b : List (BVal × BVal)) : flatten (a ++ b) = flatten a ++ flatten b := by
  induction a with
  | nil => rfl
  | cons p rest ih => simp [flatten, ih]

/-- the arguments of a query as key/value pairs -/
def reqPairs : Req → List (BVal × BVal)
  | .ping id => [(.bytes K.id, .bytes id)]
  | .findNode id target w =>
    [(.bytes K.id, .bytes id), (.bytes K.target, .bytes target)] ++ (match w with | some w => [(.bytes K.want, wantVal w)] | none => [])
  | .getPeers id ih w =>
    [(.bytes K.id, .bytes id), (.bytes K.infoHash, .bytes ih)] ++ (match w with | some w => [(.bytes K.want, wantVal w)] | none => [])
  | .announce id ih port token =>
    [(.bytes K.id, .bytes id)] ++ (match port with | none => [(.bytes K.impliedPort, .int 1)] | some _ => []) ++
    [(.bytes K.infoHash, .bytes ih), (.bytes K.port, .int (Int.ofNat (port.getD 0))), (.bytes K.token, .bytes token)]

theorem flatten_reqPairs (r : Req) : flatten (reqPairs r) = reqArgs r := by
  cases r with
  | ping id => rfl
  | findNode id target w => cases w <;> rfl
  | getPeers id ih w => cases w <;> rfl
  | announce id ih port token => cases port <;> rfl

/-- the body of a response as key/value pairs -/
def respPairs (r : Resp) : List (BVal × BVal) :=
  [(.bytes K.id, .bytes r.id)] ++
  (if r.nodes4.isEmpty then [] else [(.bytes K.nodes, .bytes (r.nodes4.flatMap compactNode))]) ++
  (if r.nodes6.isEmpty then [] else [(.bytes K.nodes6, .bytes (r.nodes6.flatMap compactNode))]) ++
  (match r.token with | some t => [(.bytes K.token, .bytes t)] | none => []) ++
  (if r.values.isEmpty then [] else [(.bytes K.values, .list (BList.ofList (r.values.map fun a => .bytes (compactAddr a))))])

theorem flatten_respPairs (r : Resp) : flatten (respPairs r) = respArgs r := by
  obtain ⟨id, values, n4, n6, token⟩ := r
  simp only [respPairs, respArgs, flatten_append]
  cases token <;> by_cases h4 : n4.isEmpty = true <;> by_cases h6 : n6.isEmpty = true <;>
    by_cases hv : values.isEmpty = true <;> simp [h4, h6, hv, flatten]

/-- **the variants of a message's encoding**: a dictionary holding the encoder's top-level pairs in
any order plus pairs under keys that are no top-level field names, the value of `a` / `r` being in
turn such a variant of the encoder's argument / response dictionary. -/
inductive MsgVariant : Msg → BVal → Prop where
  | req (tid : Bytes) (r : Req) (aps' tps' : List (BVal × BVal)) :
      IsVariantOf argKeys (reqPairs r) aps' →
      IsVariantOf topKeys [(.bytes K.a, .dict (BList.ofList (flatten aps'))), (.bytes K.q, .bytes (reqName r)),
                           (.bytes K.t, .bytes tid), (.bytes K.y, .bytes K.q)] tps' →
      MsgVariant ⟨tid, .req r⟩ (.dict (BList.ofList (flatten tps')))
  | resp (tid : Bytes) (r : Resp) (rps' tps' : List (BVal × BVal)) :
      IsVariantOf respKeys (respPairs r) rps' →
      IsVariantOf topKeys [(.bytes K.r, .dict (BList.ofList (flatten rps'))), (.bytes K.t, .bytes tid),
                           (.bytes K.y, .bytes K.r)] tps' →
      MsgVariant ⟨tid, .resp r⟩ (.dict (BList.ofList (flatten tps')))
  | err (tid : Bytes) (code : Nat) (msg : Bytes) (tps' : List (BVal × BVal)) :
      IsVariantOf topKeys [(.bytes K.e, .list (BList.ofList [.int (Int.ofNat code), .bytes msg])), (.bytes K.t, .bytes tid),
                           (.bytes K.y, .bytes K.e)] tps' →
      MsgVariant ⟨tid, .err code msg⟩ (.dict (BList.ofList (flatten tps')))

theorem keysBytes_reqArgs (r : Req) : keysBytes (reqArgs r) = true := by
  cases r with
  | ping id => rfl
  | findNode id target w => cases w <;> rfl
  | getPeers id ih w => cases w <;> rfl
  | announce id ih port token => cases port <;> rfl

theorem keysUtf8_respArgs (r : Resp) : keysUtf8 (respArgs r) = true := by
  rw [← flatten_respPairs]
  apply keysUtf8_flatten
  intro p hp
  unfold respPairs at hp
  simp only [List.mem_append, List.mem_singleton] at hp
  rcases hp with (((hp | hp) | hp) | hp) | hp
  · exact ⟨K.id, by rw [hp], by decide⟩
  · split at hp
    · simp at hp
    · simp only [List.mem_singleton] at hp; exact ⟨K.nodes, by rw [hp], by decide⟩
  · split at hp
    · simp at hp
    · simp only [List.mem_singleton] at hp; exact ⟨K.nodes6, by rw [hp], by decide⟩
  · split at hp
    · simp only [List.mem_singleton] at hp; exact ⟨K.token, by rw [hp], by decide⟩
    · simp at hp
  · split at hp
    · simp at hp
    · simp only [List.mem_singleton] at hp; exact ⟨K.values, by rw [hp], by decide⟩

/-- **C13 (reordered keys, unknown keys — tree level)**: every variant of the encoder's tree of a
well-formed message is interpreted as that message. -/
theorem C13_reorder_unknown_tree (m : Msg) (v' : BVal) (hv : MsgVariant m v') (h : m.WF) : decodeTree v' = .ok m := by
  cases hv with
  | req tid r aps' tps' ha ht =>
    -- the argument dictionary
    have hargs : decodeArgs (flatten aps') = some r := by
      rw [decodeArgs_congr (flatten (reqPairs r)) (flatten aps')
        (by rw [keysBytes_flatten aps' ha.keys, flatten_reqPairs, keysBytes_reqArgs])
        (fun key hk => variant_field argKeys _ _ ha key hk), flatten_reqPairs]
      exact decodeArgs_reqArgs r h
    have hname : reqNameOf? (reqName r) = some (reqName r) := by cases r <;> simp [reqNameOf?, reqName]
    rw [decodeTree_congr (flatten [(BVal.bytes K.a, BVal.dict (BList.ofList (flatten aps'))), (.bytes K.q, .bytes (reqName r)),
        (.bytes K.t, .bytes tid), (.bytes K.y, .bytes K.q)]) (flatten tps')
      (by rw [keysUtf8_flatten tps' ht.keys]; simp [flatten, keysUtf8, validUtf8, K.a, K.q, K.t, K.y])
      (fun key hk => variant_field topKeys _ _ ht key hk)]
    simp only [flatten, decodeTree, toList_ofList]
    simp [keysUtf8, validUtf8, fieldOf, isKey, K.a, K.e, K.q, K.r, K.t, K.y, isDict, isList, isDup, decodeQ, assemble, bytesLike, toList_ofList, hargs, hname]
  | resp tid r rps' tps' hr ht =>
    have hresp : decodeResp (flatten rps') = some r := by
      rw [decodeResp_congr (flatten (respPairs r)) (flatten rps')
        (by rw [keysUtf8_flatten rps' hr.keys, flatten_respPairs, keysUtf8_respArgs])
        (fun key hk => variant_field respKeys _ _ hr key hk), flatten_respPairs]
      exact decodeResp_respArgs r h
    rw [decodeTree_congr (flatten [(BVal.bytes K.r, BVal.dict (BList.ofList (flatten rps'))), (.bytes K.t, .bytes tid),
        (.bytes K.y, .bytes K.r)]) (flatten tps')
      (by rw [keysUtf8_flatten tps' ht.keys]; simp [flatten, keysUtf8, validUtf8, K.r, K.t, K.y])
      (fun key hk => variant_field topKeys _ _ ht key hk)]
    simp only [flatten, decodeTree, toList_ofList]
    simp [keysUtf8, validUtf8, fieldOf, isKey, K.a, K.e, K.q, K.r, K.t, K.y, isDict, isList, isDup, decodeQ, assemble, bytesLike, toList_ofList, hresp]
  | err tid code msg tps' ht =>
    have he := decodeErr_ok code msg h.1 h.2
    simp only [Int.ofNat_eq_natCast] at he
    rw [decodeTree_congr (flatten [(BVal.bytes K.e, BVal.list (BList.ofList [.int (Int.ofNat code), .bytes msg])), (.bytes K.t, .bytes tid),
        (.bytes K.y, .bytes K.e)]) (flatten tps')
      (by rw [keysUtf8_flatten tps' ht.keys]; simp [flatten, keysUtf8, validUtf8, K.e, K.t, K.y])
      (fun key hk => variant_field topKeys _ _ ht key hk)]
    simp only [flatten, decodeTree, toList_ofList]
    simp [keysUtf8, validUtf8, fieldOf, isKey, K.a, K.e, K.q, K.r, K.t, K.y, isDict, isList, isDup, decodeQ, assemble, bytesLike, toList_ofList, he]

/-- **C13 (reordered keys, unknown keys — byte level)**: the bytes of any variant of a well-formed
message's encoding — keys in any order at every level, further keys that are no field names of
their level, with arbitrary well-formed values nested no deeper than the pre-scan's limit —
followed by any trailing bytes, decode to that message. -/
theorem C13_reorder_unknown (m : Msg) (v' : BVal) (hv : MsgVariant m v') (h : m.WF)
    (hok : BVal.Ok v') (hdep : BVal.depth v' ≤ 32) (trailing : Bytes) :
    decodeMsg (printVal v' ++ trailing) = .ok m := by
  unfold decodeMsg
  rw [checkLimits_printVal _ _ hok hdep, readTop_printVal _ _ hok]
  simp [C13_reorder_unknown_tree m v' hv h]

/-- Non-vacuity: `d1:y1:q1:v2:UT1:t2:aa1:q4:ping1:ad2:roi1e2:id20:<id>ee` (keys out of order,
`v` at the top level, `ro` inside the arguments) is a variant of the ping it spells. -/
example (id : Bytes) :
    MsgVariant ⟨[97, 97], .req (.ping id)⟩
      (.dict (BList.ofList (flatten
        [(.bytes K.y, .bytes K.q), (.bytes [118], .bytes [85, 84]), (.bytes K.t, .bytes [97, 97]), (.bytes K.q, .bytes K.ping),
         (.bytes K.a, .dict (BList.ofList (flatten [(.bytes [114, 111], .int 1), (.bytes K.id, .bytes id)])))]))) := by
  refine MsgVariant.req [97, 97] (.ping id) [(.bytes [114, 111], .int 1), (.bytes K.id, .bytes id)] _ ⟨?_, ?_, ?_⟩ ⟨?_, ?_, ?_⟩
  · simp [argKeys, keyIs, isKey, K.id, K.target, K.want, K.infoHash, K.token, K.port, K.impliedPort, reqPairs]
  · simp [argKeys, keyIs, isKey, K.id, reqPairs]
  · intro p hp
    simp only [List.mem_cons, List.not_mem_nil, or_false] at hp
    rcases hp with rfl | rfl
    · exact ⟨[114, 111], rfl, by decide⟩
    · exact ⟨K.id, rfl, by decide⟩
  · -- the known pairs  y, t, q, a  are the encoder's  a, q, t, y  in reverse order
    have hf : (List.filter (fun p => topKeys.any (fun k => keyIs k p))
        [(BVal.bytes K.y, BVal.bytes K.q), (.bytes [118], .bytes [85, 84]), (.bytes K.t, .bytes [97, 97]), (.bytes K.q, .bytes K.ping),
         (.bytes K.a, .dict (BList.ofList (flatten [(.bytes [114, 111], .int 1), (.bytes K.id, .bytes id)])))]) =
        [(BVal.bytes K.y, BVal.bytes K.q), (.bytes K.t, .bytes [97, 97]), (.bytes K.q, .bytes K.ping),
         (.bytes K.a, .dict (BList.ofList (flatten [(.bytes [114, 111], .int 1), (.bytes K.id, .bytes id)])))] := by
      simp [topKeys, keyIs, isKey, K.t, K.y, K.q, K.a, K.r, K.e]
    rw [hf]
    exact List.reverse_perm [(BVal.bytes K.a, BVal.dict (BList.ofList (flatten [(.bytes [114, 111], .int 1), (.bytes K.id, .bytes id)]))),
      (.bytes K.q, .bytes (reqName (.ping id))), (.bytes K.t, .bytes [97, 97]), (.bytes K.y, .bytes K.q)]
  · simp [topKeys, keyIs, isKey, K.t, K.y, K.q, K.a, K.r, K.e]
  · intro p hp
    simp only [List.mem_cons, List.not_mem_nil, or_false] at hp
    rcases hp with rfl | rfl | rfl | rfl | rfl
    · exact ⟨K.y, rfl, by decide⟩
    · exact ⟨[118], rfl, by decide⟩
    · exact ⟨K.t, rfl, by decide⟩
    · exact ⟨K.q, rfl, by decide⟩
    · exact ⟨K.a, rfl, by decide⟩

end Btdht
