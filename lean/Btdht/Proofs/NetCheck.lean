import Btdht.Proofs.NetRun
/-!
C01 helpers: Boolean checkers for the run predicates, used to evaluate concrete runs (non-vacuity).
-/
namespace Btdht

def okStepB (D : Nat) (cfg : NetCfg) (op : NOp) (now : Nat) : Bool :=
  decide (cfg.now ≤ now) && cfg.flight.all (fun p => decide (now ≤ p.sent + D)) &&
  match op with
  | .deliver i => decide (i < cfg.flight.length)
  | .start k _ _ => decide (k < cfg.nodes.length)
  | .fire k =>
    match cfg.nodes[k]? with
    | some n =>
      match n.st.timer.pop with
      | some (_, e) => decide (e.deadline ≤ now)
      | none => false
    | none => false

theorem okStep_of_B (D : Nat) (cfg : NetCfg) (op : NOp) (now : Nat) (h : okStepB D cfg op now = true) : cfg.okStep D op now := by
  unfold okStepB at h
  simp only [Bool.and_eq_true, decide_eq_true_eq, List.all_eq_true] at h
  obtain ⟨⟨h1, h2⟩, h3⟩ := h
  refine ⟨h1, h2, ?_⟩
  cases op with
  | deliver i => simpa using h3
  | start k tg an => simpa using h3
  | fire k =>
    simp only at h3 ⊢
    cases hk : cfg.nodes[k]? with
    | none => rw [hk] at h3; cases h3
    | some n =>
      rw [hk] at h3
      simp only at h3
      cases hp : n.st.timer.pop with
      | none => rw [hp] at h3; cases h3
      | some te =>
        obtain ⟨t, e⟩ := te
        rw [hp] at h3
        exact ⟨n, rfl, t, e, hp, by simpa using h3⟩

def checkNetRun (D : Nat) : NetCfg → List (NOp × Nat) → Bool
  | _, [] => true
  | cfg, (op, now) :: rest => okStepB D cfg op now && checkNetRun D (cfg.step op now) rest

theorem netRun_of_check (D : Nat) : ∀ (ops : List (NOp × Nat)) (cfg : NetCfg), checkNetRun D cfg ops = true → NetRun D cfg ops
  | [], _, _ => trivial
  | (op, now) :: rest, cfg, h => by
    simp only [checkNetRun, Bool.and_eq_true] at h
    exact ⟨okStep_of_B D cfg op now h.1, netRun_of_check D rest _ h.2⟩

def searchEndsB (cfg : NetCfg) (k : Nat) : Bool :=
  match cfg.nodes[k]? with
  | some n =>
    !n.st.lookups.isEmpty && match n.st.timer.pop with
      | some (_, e) => (match e.task with | .lookupEndGame _ => true | _ => false)
      | none => false
  | none => false

theorem searchEnds_of_B (cfg : NetCfg) (k : Nat) (h : searchEndsB cfg k = true) : SearchEnds cfg k := by
  unfold searchEndsB at h
  cases hk : cfg.nodes[k]? with
  | none => rw [hk] at h; cases h
  | some n =>
    rw [hk] at h
    simp only [Bool.and_eq_true, Bool.not_eq_eq_eq_not, Bool.not_true] at h
    obtain ⟨h1, h2⟩ := h
    cases hp : n.st.timer.pop with
    | none => rw [hp] at h2; cases h2
    | some te =>
      obtain ⟨t, e⟩ := te
      rw [hp] at h2
      simp only at h2
      cases ht : e.task with
      | lookupEndGame q => exact ⟨n, t, e, q, hk, (by intro hc; rw [hc] at h1; cases h1), hp, ht⟩
      | tableRefresh => rw [ht] at h2; cases h2
      | lookupTimeout q => rw [ht] at h2; cases h2

theorem runOk_of_all (P : Phase) (ops : List (NOp × Nat)) (h : ops.all (fun p => decide (p.2 ≤ P.G) && !p.1.isStart) = true) :
    RunOk P ops := by
  intro p hp
  have := List.all_eq_true.mp h p hp
  simp only [Bool.and_eq_true, decide_eq_true_eq, Bool.not_eq_eq_eq_not, Bool.not_true] at this
  exact this

def clientB (cfg : NetCfg) (k A stream : Nat) (port : Option Nat) : Bool :=
  match cfg.nodes[k]? with
  | some n => decide (n.st.nextAid = A) && decide (n.st.nextStream = stream) && decide (n.st.announcePort = port) &&
      n.st.timer.entries.isEmpty
  | none => false

theorem client_of_B (cfg : NetCfg) (k A stream : Nat) (port : Option Nat) (h : clientB cfg k A stream port = true) :
    ∃ n, cfg.nodes[k]? = some n ∧ n.st.nextAid = A ∧ n.st.nextStream = stream ∧ n.st.announcePort = port ∧ n.st.timer.entries = [] := by
  unfold clientB at h
  cases hk : cfg.nodes[k]? with
  | none => rw [hk] at h; cases h
  | some n =>
    rw [hk] at h
    simp only [Bool.and_eq_true, decide_eq_true_eq, List.isEmpty_iff] at h
    exact ⟨n, rfl, h.1.1.1, h.1.1.2, h.1.2, h.2⟩

end Btdht

namespace Btdht

/-! ### an evaluable shadow of the network step

`Table.addNode` is defined by well-founded recursion (bucket splitting), which the kernel cannot
evaluate. On the tables of a small network — one bucket, the offered node finds a slot — no split
happens and `add_node` is the non-recursive `addNode1`; the shadow step `stepS` uses it, and
`checkS` verifies along a concrete run that this is justified, so that `cfg.run ops = cfg.runS ops`. -/

def addNode1 (t : Table) (n : Node) (now : Nat) : Table :=
  if t.routers.contains n.handle.addr then t
  else if n.status now = .bad then t
  else if lcp t.selfId n.handle.id = maxBuckets then t
  else match t.buckets with
    | [b] => { t with buckets := [(b.addNode n now).1] }
    | _ => t

def addNode1Ok (t : Table) (n : Node) (now : Nat) : Bool :=
  match t.buckets with
  | [b] => (b.addNode n now).2
  | _ => false

theorem addNode_eq1 (t : Table) (n : Node) (now : Nat) (h : addNode1Ok t n now = true) : t.addNode n now = addNode1 t n now := by
  unfold addNode1Ok at h
  unfold Table.addNode Table.addNodeF addNode1
  split
  · rfl
  split
  · rfl
  simp only
  split
  · rfl
  unfold Table.addNodeF.bucketNodeF
  match hb : t.buckets, h with
  | [b], h =>
    simp only [List.length_singleton]
    have h0 : bucketPlacement (lcp t.selfId n.handle.id) 1 = 0 := by unfold bucketPlacement; split <;> omega
    rw [h0]
    simp only [List.getElem?_cons_zero, h, if_true, List.set_cons_zero]

def addNodesS (t : Table) (n : Node) (named : List Handle) (now : Nat) : Table :=
  named.foldl (fun acc h => addNode1 acc (Node.asQuestionable h now) now) (addNode1 t n now)

def foldOk (now : Nat) : Table → List Handle → Bool
  | _, [] => true
  | t, h :: rest => addNode1Ok t (Node.asQuestionable h now) now && foldOk now (addNode1 t (Node.asQuestionable h now) now) rest

def addNodesOk (t : Table) (n : Node) (named : List Handle) (now : Nat) : Bool :=
  addNode1Ok t n now && foldOk now (addNode1 t n now) named

theorem addNodes_eqS (t : Table) (n : Node) (named : List Handle) (now : Nat) (h : addNodesOk t n named now = true) :
    t.addNodes n named now = addNodesS t n named now := by
  unfold addNodesOk at h
  simp only [Bool.and_eq_true] at h
  unfold Table.addNodes addNodesS
  rw [addNode_eq1 t n now h.1]
  have key : ∀ (l : List Handle) (acc : Table), foldOk now acc l = true →
      l.foldl (fun acc h => acc.addNode (Node.asQuestionable h now) now) acc =
      l.foldl (fun acc h => addNode1 acc (Node.asQuestionable h now) now) acc := by
    intro l
    induction l with
    | nil => intro acc _; rfl
    | cons x xs ih =>
      intro acc hk
      simp only [foldOk, Bool.and_eq_true] at hk
      simp only [List.foldl_cons]
      rw [addNode_eq1 acc _ now hk.1]
      exact ih _ hk.2
  exact key named _ h.2

end Btdht

namespace Btdht

def HState.lookupResponseS (s : HState) (l : Lookup) (t? : Option Tid) (rsp : Resp) (src : Addr) (now : Nat) :
    HState × List HEffect :=
  let s1 := { s with table := addNodesS s.table (Node.asGood ⟨rsp.id, src⟩ now) (s.namedBy rsp) now }
  let r : Lookup × LEnv × List Effect := match t? with
    | some t => l.recvResponse (s1.env now) ⟨rsp.id, src⟩ t rsp
    | none => (l, s1.env now, [])
  let s2 := { (s1.withEnv r.2.1) with lookups := s1.lookups.map (fun x => if x.aid = l.aid then r.1 else x) }
  if r.1.completedNow then
    let c := s2.completeLookup l.aid now
    (c.1, liftEffects r.2.2 ++ c.2)
  else (s2, liftEffects r.2.2)

def HState.handleResponseS (s : HState) (tid : InTid) (rsp : Resp) (src : Addr) (now : Nat) : HState × List HEffect :=
  match tid.route with
  | none => (s, [])
  | some (aid, t?) =>
    match s.lookups.find? (·.aid = aid) with
    | some l => s.lookupResponseS l t? rsp src now
    | none =>
      if aid = refreshAid then
        ({ s with table := addNodesS s.table (Node.asGood ⟨rsp.id, src⟩ now) (s.namedBy rsp) now }, [])
      else (s, [])

/-- the tables offered nodes by this response have a single bucket with room for them -/
def respOk (s : HState) (tid : InTid) (rsp : Resp) (src : Addr) (now : Nat) : Bool :=
  match tid.route with
  | none => true
  | some _ => addNodesOk s.table (Node.asGood ⟨rsp.id, src⟩ now) (s.namedBy rsp) now

theorem handleResponse_eqS (s : HState) (tid : InTid) (rsp : Resp) (src : Addr) (now : Nat) (h : respOk s tid rsp src now = true) :
    s.handleResponse tid rsp src now = s.handleResponseS tid rsp src now := by
  unfold respOk at h
  unfold HState.handleResponse HState.handleResponseS
  cases hr : tid.route with
  | none => rfl
  | some at_ =>
    rw [hr] at h
    simp only at h
    have he := addNodes_eqS s.table (Node.asGood ⟨rsp.id, src⟩ now) (s.namedBy rsp) now h
    obtain ⟨aid, t?⟩ := at_
    simp only
    cases s.lookups.find? (·.aid = aid) with
    | none => simp only; rw [he]
    | some l =>
      simp only
      unfold HState.lookupResponse HState.lookupResponseS
      rw [he]
      rfl

def HState.hstepES (s : HState) (op : HOp) (now : Nat) : HState × List HEffect :=
  match op with
  | .incoming tid (.resp rsp) src => s.handleResponseS tid rsp src now
  | _ => s.hstepE op now

def opOk (s : HState) (op : HOp) (now : Nat) : Bool :=
  match op with
  | .incoming tid (.resp rsp) src => respOk s tid rsp src now
  | _ => true

theorem hstepE_eqS (s : HState) (op : HOp) (now : Nat) (h : opOk s op now = true) : s.hstepE op now = s.hstepES op now := by
  cases op with
  | start tg an => rfl
  | fire => rfl
  | incoming tid body src =>
    cases body with
    | req r => rfl
    | err c m => rfl
    | resp rsp => exact handleResponse_eqS s tid rsp src now h

def NetCfg.nodeStepS (cfg : NetCfg) (k : Nat) (op : HOp) (now : Nat) : NetCfg :=
  match cfg.nodes[k]? with
  | none => { cfg with now := now }
  | some n =>
    { nodes := cfg.nodes.set k { n with st := (n.st.hstepES op now).1 },
      flight := cfg.flight ++ emit cfg.nodes n.addr now (n.st.hstepES op now).2,
      now := now,
      yields := cfg.yields ++ yieldsOf k (n.st.hstepES op now).2 }

def nodeOpOk (cfg : NetCfg) (k : Nat) (op : HOp) (now : Nat) : Bool :=
  match cfg.nodes[k]? with
  | none => true
  | some n => opOk n.st op now

theorem nodeStep_eqS (cfg : NetCfg) (k : Nat) (op : HOp) (now : Nat) (h : nodeOpOk cfg k op now = true) :
    cfg.nodeStep k op now = cfg.nodeStepS k op now := by
  unfold nodeOpOk at h
  unfold NetCfg.nodeStep NetCfg.nodeStepS
  cases hk : cfg.nodes[k]? with
  | none => rfl
  | some n =>
    rw [hk] at h
    simp only at h ⊢
    rw [hstepE_eqS n.st op now h]

def NetCfg.stepS (cfg : NetCfg) (op : NOp) (now : Nat) : NetCfg :=
  match op with
  | .deliver i =>
    match cfg.flight[i]? with
    | none => { cfg with now := now }
    | some p =>
      match cfg.nodes.findIdx? (fun n => n.addr = p.dst) with
      | none => { cfg with flight := cfg.flight.eraseIdx i, now := now }
      | some k => ({ cfg with flight := cfg.flight.eraseIdx i }).nodeStepS k (.incoming p.tid p.body p.src) now
  | .start k target ann => cfg.nodeStepS k (.start target ann) now
  | .fire k => cfg.nodeStepS k .fire now

def stepOk (cfg : NetCfg) (op : NOp) (now : Nat) : Bool :=
  match op with
  | .deliver i =>
    match cfg.flight[i]? with
    | none => true
    | some p =>
      match cfg.nodes.findIdx? (fun n => n.addr = p.dst) with
      | none => true
      | some k => nodeOpOk { cfg with flight := cfg.flight.eraseIdx i } k (.incoming p.tid p.body p.src) now
  | _ => true

theorem step_eqS (cfg : NetCfg) (op : NOp) (now : Nat) (h : stepOk cfg op now = true) : cfg.step op now = cfg.stepS op now := by
  cases op with
  | start k tg an =>
    refine nodeStep_eqS cfg k _ now ?_
    unfold nodeOpOk; cases cfg.nodes[k]? <;> rfl
  | fire k =>
    refine nodeStep_eqS cfg k _ now ?_
    unfold nodeOpOk; cases cfg.nodes[k]? <;> rfl
  | deliver i =>
    unfold stepOk at h
    unfold NetCfg.step NetCfg.stepS
    simp only at h ⊢
    cases hp : cfg.flight[i]? with
    | none => rfl
    | some p =>
      rw [hp] at h
      simp only at h ⊢
      cases hf : cfg.nodes.findIdx? (fun n => n.addr = p.dst) with
      | none => rfl
      | some k =>
        rw [hf] at h
        simp only at h ⊢
        exact nodeStep_eqS _ k _ now h

def NetCfg.runS (cfg : NetCfg) : List (NOp × Nat) → NetCfg
  | [] => cfg
  | (op, now) :: rest => NetCfg.runS (cfg.stepS op now) rest

/-- along the shadow run: every step is allowed (`okStepB`) and the shadow is faithful (`stepOk`) -/
def checkS (D : Nat) : NetCfg → List (NOp × Nat) → Bool
  | _, [] => true
  | cfg, (op, now) :: rest => okStepB D cfg op now && stepOk cfg op now && checkS D (cfg.stepS op now) rest

theorem run_of_checkS (D : Nat) : ∀ (ops : List (NOp × Nat)) (cfg : NetCfg), checkS D cfg ops = true →
    NetRun D cfg ops ∧ cfg.run ops = cfg.runS ops
  | [], _, _ => ⟨trivial, rfl⟩
  | (op, now) :: rest, cfg, h => by
    simp only [checkS, Bool.and_eq_true] at h
    obtain ⟨⟨h1, h2⟩, h3⟩ := h
    have he := step_eqS cfg op now h2
    obtain ⟨r1, r2⟩ := run_of_checkS D rest _ h3
    refine ⟨⟨okStep_of_B D cfg op now h1, by rw [he]; exact r1⟩, ?_⟩
    show (cfg.step op now).run rest = (cfg.stepS op now).runS rest
    rw [he]; exact r2

end Btdht
