import Btdht.Proofs.BootOb
/-
C15 timed clause, part 9: what an observed completion looks like in the trace of a run: it follows a
`bpub .bootstrapped` of the same instant and is followed by the `resolved` events of exactly the
`bootstrapped()` calls that were registered and unresolved at that point.
-/
namespace Btdht

/-- monitor of the waiter bookkeeping: the calls not yet resolved, and the id of the next call -/
def wScan (g : List Nat × Nat) (e : DEv) : List Nat × Nat :=
  match e with
  | .cmd .checkBootstrap => (g.1 ++ [g.2], g.2 + 1)
  | .resolved i => (g.1.filter (· ≠ i), g.2)
  | _ => g

/-- the `bootstrapped()` calls unresolved after the events `tr` (and the id of the next call), when
`ws` were unresolved before and `n` was the next id -/
def unresolvedAfter (ws : List Nat) (n : Nat) (tr : List (Nat × DEv)) : List Nat × Nat :=
  tr.foldl (fun g e => wScan g e.2) (ws, n)

theorem unresolvedAfter_append (ws : List Nat) (n : Nat) (a b : List (Nat × DEv)) :
    unresolvedAfter ws n (a ++ b) = unresolvedAfter (unresolvedAfter ws n a).1 (unresolvedAfter ws n a).2 b := by
  simp [unresolvedAfter, List.foldl_append]

def DEv.isWaiterEv : DEv → Bool
  | .cmd .checkBootstrap | .resolved _ => true
  | _ => false

theorem wScan_other (g : List Nat × Nat) (e : DEv) (h : e.isWaiterEv = false) : wScan g e = g := by
  unfold wScan
  cases e with
  | cmd c => cases c <;> first | rfl | simp [DEv.isWaiterEv] at h
  | resolved i => simp [DEv.isWaiterEv] at h
  | _ => rfl

theorem unresolvedAfter_other (ws : List Nat) (n t : Nat) (evs : List DEv) (h : ∀ e ∈ evs, e.isWaiterEv = false) :
    unresolvedAfter ws n (stamp t evs) = (ws, n) := by
  induction evs with
  | nil => rfl
  | cons e rest ih =>
    simp only [unresolvedAfter, stamp, List.map_cons, List.foldl_cons]
    rw [wScan_other _ e (h e (by simp))]
    exact ih (fun x hx => h x (by simp [hx]))

/-- resolving every unresolved call leaves none -/
theorem unresolvedAfter_resolveAll (ws : List Nat) (n t : Nat) (l : List Nat) (h : ∀ i ∈ ws, i ∈ l) :
    unresolvedAfter ws n (stamp t (l.map DEv.resolved)) = ([], n) := by
  induction l generalizing ws with
  | nil =>
    cases ws with
    | nil => rfl
    | cons a b => exact absurd (h a (by simp)) (by simp)
  | cons x xs ih =>
    simp only [unresolvedAfter, stamp, List.map_cons, List.foldl_cons, wScan]
    apply ih
    intro i hi
    have hm := (List.mem_filter.mp hi)
    rcases List.mem_cons.mp (h i hm.1) with h1 | h1
    · simp [h1] at hm
    · exact h1

/-- every observed completion in the history follows a `bpub .bootstrapped` of the same instant and
is followed by the `resolved` events of the calls that were unresolved -/
def GoodHist (ws0 : List Nat) (n0 : Nat) (hist : List (Nat × DEv)) : Prop :=
  ∀ pre t post', hist = pre ++ (t, DEv.bstate) :: post' →
    (t, DEv.bpub .bootstrapped) ∈ pre ∧
    ∃ post, post' = stamp t ((unresolvedAfter ws0 n0 pre).1.map DEv.resolved) ++ post

theorem goodHist_append (ws0 : List Nat) (n0 : Nat) (hist E : List (Nat × DEv)) (h : GoodHist ws0 n0 hist)
    (hE : ∀ e ∈ E, e.2 ≠ .bstate) : GoodHist ws0 n0 (hist ++ E) := by
  intro pre t post' heq
  rcases List.append_eq_append_iff.mp heq with ⟨a', _, h2⟩ | ⟨c', h1, h2⟩
  · exact absurd rfl (hE (t, .bstate) (by rw [h2]; simp))
  · cases c' with
    | nil =>
      simp only [List.nil_append] at h2
      exact absurd rfl (hE (t, .bstate) (by rw [← h2]; simp))
    | cons x c'' =>
      simp only [List.cons_append, List.cons.injEq] at h2
      obtain ⟨hx, h2⟩ := h2
      subst hx
      obtain ⟨hb, post, hp⟩ := h pre t c'' h1
      exact ⟨hb, post ++ E, by rw [h2, hp, List.append_assoc]⟩

theorem goodHist_bstate (ws0 : List Nat) (n0 t : Nat) (hist : List (Nat × DEv)) (rest : List DEv) (h : GoodHist ws0 n0 hist)
    (hb : (t, DEv.bpub .bootstrapped) ∈ hist) (hr : ∀ e ∈ rest, e ≠ .bstate) :
    GoodHist ws0 n0 (hist ++ stamp t (DEv.bstate :: (unresolvedAfter ws0 n0 hist).1.map DEv.resolved ++ rest)) := by
  intro pre t' post' heq
  have htail : ∀ e ∈ stamp t ((unresolvedAfter ws0 n0 hist).1.map DEv.resolved ++ rest), e.2 ≠ .bstate := by
    intro e he
    simp only [stamp, List.mem_map, List.mem_append] at he
    obtain ⟨x, hx, rfl⟩ := he
    rcases hx with ⟨i, _, rfl⟩ | hx
    · simp
    · exact hr x hx
  rcases List.append_eq_append_iff.mp heq with ⟨a', h1, h2⟩ | ⟨c', h1, h2⟩
  · cases a' with
    | nil =>
      simp only [List.append_nil] at h1
      simp only [stamp, List.map_cons, List.nil_append, List.cons.injEq, Prod.mk.injEq, List.cons_append] at h2
      obtain ⟨⟨ht, _⟩, h2⟩ := h2
      subst ht h1
      refine ⟨hb, stamp t rest, ?_⟩
      rw [← h2]
      simp [stamp]
    | cons y a'' =>
      simp only [stamp, List.map_cons, List.cons_append, List.cons.injEq] at h2
      exact absurd rfl (htail (t', .bstate) (by simp only [stamp]; rw [h2.2]; simp))
  · cases c' with
    | nil =>
      simp only [List.append_nil, List.nil_append] at h1 h2
      simp only [stamp, List.map_cons, List.cons_append, List.cons.injEq, Prod.mk.injEq] at h2
      obtain ⟨⟨ht, _⟩, h2⟩ := h2
      subst ht h1
      refine ⟨hb, stamp t' rest, ?_⟩
      rw [h2]
      simp [stamp]
    | cons x c'' =>
      simp only [List.cons_append, List.cons.injEq] at h2
      obtain ⟨hx, h2⟩ := h2
      subst hx
      obtain ⟨hb', post, hp⟩ := h pre t' c'' h1
      exact ⟨hb', post ++ _, by rw [h2, hp, List.append_assoc]⟩

/-- the published state is unchanged, or its new value was announced among the events -/
def PubStep (s s' : DState) (evs : List DEv) : Prop :=
  (s'.pub = s.pub ∧ s'.pubVersion = s.pubVersion) ∨ DEv.bpub s'.pub ∈ evs

theorem pubStep_same (s s' : DState) (evs : List DEv) (h1 : s'.pub = s.pub) (h2 : s'.pubVersion = s.pubVersion) :
    PubStep s s' evs := Or.inl ⟨h1, h2⟩

theorem pubStep_wrap {s s1 s2 s3 : DState} {e evs : List DEv} (h : PubStep s1 s2 e)
    (hpre : s1.pub = s.pub ∧ s1.pubVersion = s.pubVersion) (hpost : s3.pub = s2.pub ∧ s3.pubVersion = s2.pubVersion)
    (hsub : ∀ x ∈ e, x ∈ evs) : PubStep s s3 evs := by
  rcases h with ⟨h1, h2⟩ | h
  · exact Or.inl ⟨hpost.1.trans (h1.trans hpre.1), hpost.2.trans (h2.trans hpre.2)⟩
  · exact Or.inr (by rw [hpost.1]; exact hsub _ h)

theorem setPub_pubStep (s : DState) (p : BPub) : PubStep s (s.setPub p).1 (s.setPub p).2 := by
  unfold DState.setPub
  split
  · exact Or.inl ⟨rfl, rfl⟩
  · exact Or.inr (by simp)

theorem beginAttempt_pubStep (s : DState) (now : Nat) : PubStep s (s.beginAttempt now).1 (s.beginAttempt now).2 := by
  unfold DState.beginAttempt
  simp only
  split
  · exact pubStep_wrap (setPub_pubStep { s with stale := [] } .bootstrapped) ⟨rfl, rfl⟩ ⟨rfl, rfl⟩ (fun x hx => hx)
  · split
    · exact pubStep_wrap (setPub_pubStep { s with stale := [], h := { s.h with table := { s.h.table with routers := (s.cfg.contacts).1 } } } .idle)
        ⟨rfl, rfl⟩ ⟨rfl, rfl⟩ (fun x hx => List.mem_append_right _ hx)
    · exact pubStep_wrap (setPub_pubStep { s with stale := [], h := { s.h with table := { s.h.table with routers := (s.cfg.contacts).1 } } } .initialContact)
        ⟨rfl, rfl⟩ ⟨rfl, rfl⟩ (fun x hx => List.mem_append_right _ hx)

theorem finishInitial_pubStep (s : DState) (r : Nat) (rem : List Pending) (now : Nat) :
    PubStep s (s.finishInitial r rem now).1 (s.finishInitial r rem now).2 := by
  unfold DState.finishInitial
  split
  · exact pubStep_wrap (setPub_pubStep s .idle) ⟨rfl, rfl⟩ ⟨rfl, rfl⟩ (fun x hx => List.mem_append_right _ hx)
  · exact pubStep_wrap (setPub_pubStep s .bootstrapping) ⟨rfl, rfl⟩ ⟨rfl, rfl⟩ (fun x hx => List.mem_append_right _ hx)

theorem sweepDone_pubStep (s : DState) (now : Nat) : PubStep s (s.sweepDone now).1 (s.sweepDone now).2 := by
  unfold DState.sweepDone
  simp only
  split
  · exact pubStep_wrap (setPub_pubStep s .idle) ⟨rfl, rfl⟩ ⟨rfl, rfl⟩ (fun x hx => List.mem_append_right _ hx)
  · exact pubStep_wrap (setPub_pubStep s .bootstrapped) ⟨rfl, rfl⟩ ⟨rfl, rfl⟩ (fun x hx => List.mem_append_right _ hx)

theorem periodicCheck_pubStep (s : DState) (now : Nat) : PubStep s (s.periodicCheck now).1 (s.periodicCheck now).2 := by
  unfold DState.periodicCheck
  split
  · exact pubStep_wrap (beginAttempt_pubStep s now) ⟨rfl, rfl⟩ ⟨rfl, rfl⟩ (fun x hx => List.mem_append_right _ hx)
  · exact Or.inl ⟨rfl, rfl⟩

theorem bucketSend_pub (target : Bytes) (now : Nat) (acc : DState × List Pending × List DEv) (hd : Handle) :
    (bucketSend target now acc hd).1.pub = acc.1.pub ∧ (bucketSend target now acc hd).1.pubVersion = acc.1.pubVersion := by
  obtain ⟨s, active, evs⟩ := acc
  unfold bucketSend
  simp only
  split <;> exact ⟨rfl, rfl⟩

theorem bucketRound_pubStep (s : DState) (k now : Nat) : PubStep s (s.bucketRound k now).1 (s.bucketRound k now).2 := by
  unfold DState.bucketRound
  have hf := foldl_pred (fun (acc : DState × List Pending × List DEv) => acc.1.pub = s.pub ∧ acc.1.pubVersion = s.pubVersion)
    (bucketSend (flipBit s.h.selfId k) now)
    (fun b a hb => by
      have h := bucketSend_pub (flipBit s.h.selfId k) now b a
      exact ⟨h.1.trans hb.1, h.2.trans hb.2⟩)
    (s.bucketPicks k now) (s, [], []) ⟨rfl, rfl⟩
  simp only
  split
  · exact Or.inl hf
  · exact Or.inl hf

theorem firstRoundSend_pubStep (s : DState) (tid : Tid) (rl nl : List Addr) (count : Nat) (active : List Pending)
    (responses stopAt now : Nat) (r : DState × List DEv) (hr : s.firstRoundSend tid rl nl count active responses stopAt now = some r) :
    PubStep s r.1 r.2 := by
  unfold DState.firstRoundSend at hr
  split at hr
  · simp at hr
  · simp only [Option.some.injEq] at hr; subst hr; exact Or.inl ⟨rfl, rfl⟩

theorem bStepMain_pubStep (s : DState) (now : Nat) (r : DState × List DEv) (hb : s.bStepMain now = some r) : PubStep s r.1 r.2 := by
  unfold DState.bStepMain at hb
  split at hb
  · simp at hb
  · simp at hb
  · split at hb
    · simp only [Option.some.injEq] at hb; subst hb; exact beginAttempt_pubStep s now
    · simp at hb
  · split at hb
    · simp only [Option.some.injEq] at hb; subst hb; exact periodicCheck_pubStep s now
    · simp at hb
  · simp only at hb
    split at hb
    · simp only [Option.some.injEq] at hb; subst hb; exact Or.inl ⟨rfl, rfl⟩
    · split at hb
      · split at hb
        · simp only [Option.some.injEq] at hb; subst hb; exact finishInitial_pubStep s _ [] now
        · simp at hb
      · split at hb
        · split at hb
          · exact firstRoundSend_pubStep s _ _ _ _ _ _ _ now r hb
          · simp at hb
        · split at hb
          · simp only [Option.some.injEq] at hb; subst hb; exact Or.inl ⟨rfl, rfl⟩
          · exact firstRoundSend_pubStep s _ _ _ _ _ _ _ now r hb
  · split at hb
    · simp only [Option.some.injEq] at hb; subst hb; exact bucketRound_pubStep s _ now
    · simp only [Option.some.injEq] at hb; subst hb; exact sweepDone_pubStep s now
  · simp only at hb
    split at hb
    · simp only [Option.some.injEq] at hb; subst hb; exact Or.inl ⟨rfl, rfl⟩
    · split at hb
      · simp only [Option.some.injEq] at hb; subst hb; exact Or.inl ⟨rfl, rfl⟩
      · simp at hb

theorem finishInitial_pubStep' (s sa : DState) (h : sa.pub = s.pub ∧ sa.pubVersion = s.pubVersion) (r : Nat)
    (rem : List Pending) (now : Nat) (pre : List DEv) :
    PubStep s (sa.finishInitial r rem now).1 (pre ++ (sa.finishInitial r rem now).2) :=
  pubStep_wrap (finishInitial_pubStep sa r rem now) h ⟨rfl, rfl⟩ (fun x hx => List.mem_append_right _ hx)

theorem workerMessage_pubStep (s : DState) (p : Pending) (body : Body) (src : Addr) (now : Nat) :
    PubStep s (s.workerMessage p body src now).1 (s.workerMessage p body src now).2 := by
  unfold DState.workerMessage
  cases body with
  | resp r =>
    simp only
    split
    · split
      · split
        · refine finishInitial_pubStep' s _ ?_ _ _ now _
          exact ⟨rfl, rfl⟩
        · exact Or.inl ⟨rfl, rfl⟩
      · exact Or.inl ⟨rfl, rfl⟩
    · split <;> exact Or.inl ⟨rfl, rfl⟩
    · exact Or.inl ⟨rfl, rfl⟩
  | req r =>
    simp only
    split
    · split <;> exact Or.inl ⟨rfl, rfl⟩
    · split <;> exact Or.inl ⟨rfl, rfl⟩
    · exact Or.inl ⟨rfl, rfl⟩
  | err c m =>
    simp only
    split
    · split <;> exact Or.inl ⟨rfl, rfl⟩
    · split <;> exact Or.inl ⟨rfl, rfl⟩
    · exact Or.inl ⟨rfl, rfl⟩

theorem bStep_pubStep (s : DState) (now : Nat) (r : DState × List DEv) (hb : s.bStep now = some r) : PubStep s r.1 r.2 := by
  unfold DState.bStep at hb
  split at hb
  · rename_i p body src rest _
    simp only [Option.some.injEq] at hb; subst hb
    exact pubStep_wrap (workerMessage_pubStep { s with ready := rest } p body src now) ⟨rfl, rfl⟩ ⟨rfl, rfl⟩ (fun x hx => hx)
  · exact bStepMain_pubStep s now r hb

/-- ghost state: the events so far -/
def histScan (h : List (Nat × DEv)) (t : Nat) (e : DEv) : List (Nat × DEv) := h ++ [(t, e)]

theorem scanE_hist (h : List (Nat × DEv)) (t : Nat) (evs : List DEv) : scanE histScan h t evs = h ++ stamp t evs := by
  induction evs generalizing h with
  | nil => simp [scanE, stamp]
  | cons e rest ih =>
    simp only [scanE, List.foldl_cons] at ih ⊢
    rw [ih]
    simp [histScan, stamp]

theorem scanS_hist (h : List (Nat × DEv)) (tr : List (Nat × DEv)) : scanS histScan h tr = h ++ tr := by
  induction tr generalizing h with
  | nil => simp [scanS]
  | cons e rest ih =>
    simp only [scanS, List.foldl_cons] at ih ⊢
    rw [ih]
    simp [histScan]

/-- neither a waiter event nor an observed completion -/
def DEv.isQuiet (e : DEv) : Bool := !e.isWaiterEv && (match e with | .bstate => false | _ => true)

theorem isQuiet_not_waiter {e : DEv} (h : e.isQuiet = true) : e.isWaiterEv = false := by
  unfold DEv.isQuiet at h; simp at h; exact h.1

theorem isQuiet_not_bstate {e : DEv} (h : e.isQuiet = true) : e ≠ .bstate := by
  intro he; subst he; simp [DEv.isQuiet] at h

/-- the invariant of the waiter bookkeeping, with the history of events as ghost state -/
structure WH (ws0 : List Nat) (n0 : Nat) (s : DState) (hist : List (Nat × DEv)) : Prop where
  ws : s.waiters = (unresolvedAfter ws0 n0 hist).1
  nx : s.nextWaiter = (unresolvedAfter ws0 n0 hist).2
  lt : ∀ i ∈ s.waiters, i < s.nextWaiter
  pub : s.seenVersion ≠ s.pubVersion → s.pub = .bootstrapped → (s.clock, DEv.bpub .bootstrapped) ∈ hist
  good : GoodHist ws0 n0 hist

/-- a transition that neither touches the waiters nor emits waiter events or completions -/
theorem wh_quiet (ws0 : List Nat) (n0 : Nat) (s s' : DState) (hist : List (Nat × DEv)) (evs : List DEv) (h : WH ws0 n0 s hist)
    (hw : s'.waiters = s.waiters) (hn : s'.nextWaiter = s.nextWaiter) (hq : ∀ e ∈ evs, e.isQuiet = true)
    (hp : s'.seenVersion ≠ s'.pubVersion → s'.pub = .bootstrapped → (s'.clock, DEv.bpub .bootstrapped) ∈ hist ++ stamp s.clock evs) :
    WH ws0 n0 s' (hist ++ stamp s.clock evs) := by
  have hu : unresolvedAfter ws0 n0 (hist ++ stamp s.clock evs) = unresolvedAfter ws0 n0 hist := by
    rw [unresolvedAfter_append, unresolvedAfter_other _ _ _ _ (fun e he => isQuiet_not_waiter (hq e he))]
  refine ⟨by rw [hu, hw]; exact h.ws, by rw [hu, hn]; exact h.nx, by rw [hw, hn]; exact h.lt, hp, ?_⟩
  refine goodHist_append ws0 n0 hist _ h.good (fun e he => ?_)
  simp only [stamp, List.mem_map] at he
  obtain ⟨x, hx, rfl⟩ := he
  exact isQuiet_not_bstate (hq x hx)

theorem isQuiet_of_workerMsg (e : DEv) (h : e.isWorkerMsg = true) : e.isQuiet = true := by
  cases e <;> simp_all [DEv.isWorkerMsg, DEv.isWorker, DEv.isQuiet, DEv.isWaiterEv]

theorem isQuiet_of_worker (e : DEv) (h : e.isWorker = true) : e.isQuiet = true :=
  isQuiet_of_workerMsg e (isWorkerMsg_of_isWorker e h)

theorem wh_worker (ws0 : List Nat) (n0 : Nat) (s : DState) (hist : List (Nat × DEv)) (r : DState × List DEv)
    (h : WH ws0 n0 s hist) (hb : s.bStep s.clock = some r) :
    WH ws0 n0 r.1 (hist ++ stamp s.clock r.2) ∧ r.1.clock = s.clock := by
  obtain ⟨hf, hev⟩ := bStep_frame s s.clock r hb
  refine ⟨wh_quiet ws0 n0 s r.1 hist r.2 h hf.waiters hf.nextWaiter (fun e he => isQuiet_of_workerMsg e (hev e he)) ?_, hf.clock⟩
  intro hne hpb
  rcases bStep_pubStep s s.clock r hb with ⟨h1, h2⟩ | h1
  · rw [hf.seen, h2] at hne
    rw [hf.clock]
    exact List.mem_append_left _ (h.pub hne (h1 ▸ hpb))
  · rw [hpb] at h1
    rw [hf.clock]
    exact List.mem_append_right _ (mem_stamp _ _ _ h1)

theorem liftH_quiet (effs : List HEffect) : ∀ e ∈ liftH effs, e.isQuiet = true := by
  intro e he
  simp only [liftH, List.mem_map] at he
  obtain ⟨x, _, rfl⟩ := he
  cases x <;> rfl

theorem refreshRound_quiet (s : DState) (now : Nat) : ∀ e ∈ (s.refreshRound now).2, e.isQuiet = true := by
  unfold DState.refreshRound
  intro e he
  simp only [List.cons_append, List.nil_append, List.mem_cons] at he
  rcases he with rfl | he
  · rfl
  · exact liftH_quiet _ e he

theorem fireOne_quiet (s : DState) (now : Nat) (r : DState × List DEv) (hf : s.fireOne now = some r) :
    ∀ e ∈ r.2, e.isQuiet = true := by
  unfold DState.fireOne at hf
  cases hp : s.h.timer.pop with
  | none => simp [hp] at hf
  | some pe =>
    obtain ⟨timer, e⟩ := pe
    simp only [hp] at hf
    split at hf
    · split at hf
      · simp only [Option.some.injEq] at hf; subst hf
        intro x hx
        simp only [List.cons_append, List.nil_append, List.mem_cons] at hx
        rcases hx with rfl | hx
        · rfl
        · exact refreshRound_quiet _ now x hx
      · simp only [Option.some.injEq] at hf; subst hf
        intro x hx
        simp only [List.cons_append, List.nil_append, List.mem_cons] at hx
        rcases hx with rfl | hx
        · rfl
        · exact liftH_quiet _ x hx
    · simp at hf

/-- a handler-side transition that leaves the waiters alone and is quiet -/
theorem wh_hquiet (ws0 : List Nat) (n0 : Nat) (s s' : DState) (hist : List (Nat × DEv)) (evs : List DEv) (h : WH ws0 n0 s hist)
    (hf : HFrame s s') (hw : s'.waiters = s.waiters) (hn : s'.nextWaiter = s.nextWaiter) (hs : s'.seenVersion = s.seenVersion)
    (hc : s'.clock = s.clock) (hq : ∀ e ∈ evs, e.isQuiet = true) : WH ws0 n0 s' (hist ++ stamp s.clock evs) :=
  wh_quiet ws0 n0 s s' hist evs h hw hn hq (fun hne hpb => by
    rw [hs, hf.version] at hne
    rw [hf.pub] at hpb
    rw [hc]
    exact List.mem_append_left _ (h.pub hne hpb))

theorem refreshRound_nw (s : DState) (now : Nat) : (s.refreshRound now).1.nextWaiter = s.nextWaiter := by
  unfold DState.refreshRound
  simp only

theorem startLookup_nw (s : DState) (ih : Bytes) (ann : Bool) (now : Nat) : (s.startLookup ih ann now).1.nextWaiter = s.nextWaiter := by
  unfold DState.startLookup; split <;> rfl

theorem startQueued_nw (s : DState) (now : Nat) : (s.startQueued now).1.nextWaiter = s.nextWaiter := by
  unfold DState.startQueued
  have hf := foldl_pred (fun (acc : DState × List DEv) => acc.1.nextWaiter = s.nextWaiter)
    (fun (acc : DState × List DEv) q => ((acc.1.startLookup q.1 q.2 now).1, acc.2 ++ (acc.1.startLookup q.1 q.2 now).2))
    (fun b a hb => by
      have h := startLookup_nw b.1 a.1 a.2 now
      exact h.trans hb)
    s.queued ({ s with queued := [] }, []) rfl
  exact hf

theorem firstRefresh_nw (s : DState) (now : Nat) : (s.firstRefresh now).1.nextWaiter = s.nextWaiter := by
  unfold DState.firstRefresh
  split
  · rfl
  · exact refreshRound_nw _ now

theorem bootstrapSuccess_nw (s : DState) (now : Nat) : (s.bootstrapSuccess now).1.nextWaiter = s.nextWaiter := by
  unfold DState.bootstrapSuccess
  simp only
  rw [startQueued_nw]
  exact firstRefresh_nw _ now

theorem fireOne_nw (s : DState) (now : Nat) (r : DState × List DEv) (hf : s.fireOne now = some r) : r.1.nextWaiter = s.nextWaiter := by
  unfold DState.fireOne at hf
  cases hp : s.h.timer.pop with
  | none => simp [hp] at hf
  | some pe =>
    obtain ⟨timer, e⟩ := pe
    simp only [hp] at hf
    split at hf
    · split at hf
      · simp only [Option.some.injEq] at hf; subst hf; exact refreshRound_nw _ now
      · simp only [Option.some.injEq] at hf; subst hf; rfl
    · simp at hf

theorem wh_timer (ws0 : List Nat) (n0 : Nat) (s : DState) (hist : List (Nat × DEv)) (r : DState × List DEv)
    (h : WH ws0 n0 s hist) (hf : s.fireOne s.clock = some r) :
    WH ws0 n0 r.1 (hist ++ stamp s.clock r.2) ∧ r.1.clock = s.clock := by
  have hfr := fireOne_hframe s s.clock r hf
  have hc := fireOne_clock s s.clock r hf
  exact ⟨wh_hquiet ws0 n0 s r.1 hist r.2 h hfr.1 hfr.2.1 (fireOne_nw s s.clock r hf) hfr.2.2 hc (fireOne_quiet s s.clock r hf), hc⟩

theorem startLookup_quiet (s : DState) (ih : Bytes) (ann : Bool) (now : Nat) :
    ∀ e ∈ (s.startLookup ih ann now).2, e.isQuiet = true := by
  unfold DState.startLookup
  split
  · simp
  · exact liftH_quiet _

theorem wh_datagram (ws0 : List Nat) (n0 : Nat) (s : DState) (hist : List (Nat × DEv)) (tid : InTid) (body : Body) (src : Addr)
    (h : WH ws0 n0 s hist) :
    WH ws0 n0 (s.datagram tid body src s.clock).1 (hist ++ stamp s.clock (s.datagram tid body src s.clock).2) ∧
    (s.datagram tid body src s.clock).1.clock = s.clock := by
  refine ⟨?_, datagram_clock s tid body src s.clock⟩
  unfold DState.datagram
  simp only
  split
  · exact wh_quiet ws0 n0 s _ hist _ h rfl rfl (by simp [DEv.isQuiet, DEv.isWaiterEv]) (fun hne hpb => List.mem_append_left _ (h.pub hne hpb))
  · refine wh_quiet ws0 n0 s _ hist _ h rfl rfl ?_ (fun hne hpb => List.mem_append_left _ (h.pub hne hpb))
    intro e he
    simp only [List.cons_append, List.nil_append, List.mem_cons] at he
    rcases he with rfl | he
    · rfl
    · exact liftH_quiet _ e he

theorem filter_ne_of_lt (ws : List Nat) (i : Nat) (h : ∀ x ∈ ws, x < i) : (ws ++ [i]).filter (· ≠ i) = ws := by
  rw [List.filter_append]
  have h1 : ws.filter (· ≠ i) = ws := List.filter_eq_self.mpr (fun x hx => by have := h x hx; simp; omega)
  rw [h1]
  simp

theorem wh_check (ws0 : List Nat) (n0 : Nat) (s : DState) (hist : List (Nat × DEv)) (h : WH ws0 n0 s hist) :
    WH ws0 n0 (s.command .checkBootstrap s.clock).1 (hist ++ stamp s.clock (s.command .checkBootstrap s.clock).2) := by
  simp only [DState.command]
  split
  · -- bootstrapped: the call returns at once
    have hu : unresolvedAfter ws0 n0 (hist ++ stamp s.clock [.cmd .checkBootstrap, .resolved s.nextWaiter]) =
        (s.waiters, s.nextWaiter + 1) := by
      rw [unresolvedAfter_append]
      have h1 := h.ws
      have h2 := h.nx
      have h3 := h.lt
      generalize unresolvedAfter ws0 n0 hist = g at h1 h2 ⊢
      obtain ⟨a, b⟩ := g
      simp only at h1 h2
      rw [h1, h2] at h3
      simp only [unresolvedAfter, stamp, List.map_cons, List.map_nil, List.foldl_cons, List.foldl_nil, wScan]
      rw [h1, h2, filter_ne_of_lt _ _ h3]
    refine ⟨by rw [hu], by rw [hu], fun i hi => Nat.lt_succ_of_lt (h.lt i hi),
      fun hne hpb => List.mem_append_left _ (h.pub hne hpb), ?_⟩
    exact goodHist_append ws0 n0 hist _ h.good (by simp [stamp])
  · have hu : unresolvedAfter ws0 n0 (hist ++ stamp s.clock [.cmd .checkBootstrap]) =
        (s.waiters ++ [s.nextWaiter], s.nextWaiter + 1) := by
      rw [unresolvedAfter_append]
      have h1 := h.ws
      have h2 := h.nx
      generalize unresolvedAfter ws0 n0 hist = g at h1 h2 ⊢
      obtain ⟨a, b⟩ := g
      simp only at h1 h2
      simp only [unresolvedAfter, stamp, List.map_cons, List.map_nil, List.foldl_cons, List.foldl_nil, wScan]
      rw [h1, h2]
    refine ⟨by rw [hu], by rw [hu], ?_, fun hne hpb => List.mem_append_left _ (h.pub hne hpb), ?_⟩
    · intro i hi
      rcases List.mem_append.mp hi with hi | hi
      · exact Nat.lt_succ_of_lt (h.lt i hi)
      · simp only [List.mem_singleton] at hi; subst hi; exact Nat.lt_succ_self _
    · exact goodHist_append ws0 n0 hist _ h.good (by simp [stamp])

theorem wh_command (ws0 : List Nat) (n0 : Nat) (s : DState) (hist : List (Nat × DEv)) (c : Cmd) (h : WH ws0 n0 s hist) :
    WH ws0 n0 (s.command c s.clock).1 (hist ++ stamp s.clock (s.command c s.clock).2) ∧
    (s.command c s.clock).1.clock = s.clock := by
  refine ⟨?_, command_clock s c s.clock⟩
  have hsame : ∀ evs : List DEv, (∀ e ∈ evs, e.isQuiet = true) → WH ws0 n0 s (hist ++ stamp s.clock evs) :=
    fun evs hq => wh_quiet ws0 n0 s s hist evs h rfl rfl hq (fun hne hpb => List.mem_append_left _ (h.pub hne hpb))
  cases c with
  | startBootstrap =>
    simp only [DState.command]
    split
    · have hfr := beginAttempt_frame s s.clock
      have hcr := beginAttempt_cr s s.clock
      refine wh_quiet ws0 n0 s _ hist _ h hfr.1.waiters hfr.1.nextWaiter ?_ ?_
      · intro e he
        simp only [List.cons_append, List.nil_append, List.mem_cons] at he
        rcases he with rfl | he
        · rfl
        · exact isQuiet_of_worker e (hfr.2 e he)
      · intro hne hpb
        rw [hcr.1]
        rcases beginAttempt_pubStep s s.clock with ⟨h1, h2⟩ | h1
        · rw [hfr.1.seen, h2] at hne
          exact List.mem_append_left _ (h.pub hne (h1 ▸ hpb))
        · rw [hpb] at h1
          exact List.mem_append_right _ (mem_stamp _ _ _ (List.mem_append_right _ h1))
    · exact hsame _ (by simp [DEv.isQuiet, DEv.isWaiterEv])
  | checkBootstrap => exact wh_check ws0 n0 s hist h
  | startLookup ih ann =>
    simp only [DState.command]
    have hf := startLookup_hframe s ih ann s.clock
    refine wh_hquiet ws0 n0 s _ hist _ h hf.1 hf.2.1 (startLookup_nw s ih ann s.clock) hf.2.2 (startLookup_clock s ih ann s.clock) ?_
    intro e he
    simp only [List.cons_append, List.nil_append, List.mem_cons] at he
    rcases he with rfl | he
    · rfl
    · exact startLookup_quiet _ _ _ _ e he
  | getLocalAddr => simp only [DState.command]; exact hsame _ (by simp [DEv.isQuiet, DEv.isWaiterEv])
  | getState => simp only [DState.command]; exact hsame _ (by simp [DEv.isQuiet, DEv.isWaiterEv])
  | loadContacts => simp only [DState.command]; exact hsame _ (by simp [DEv.isQuiet, DEv.isWaiterEv])

theorem startQueued_quiet (s : DState) (now : Nat) : ∀ e ∈ (s.startQueued now).2, e.isQuiet = true := by
  unfold DState.startQueued
  have hf := foldl_pred (fun (acc : DState × List DEv) => ∀ e ∈ acc.2, e.isQuiet = true)
    (fun (acc : DState × List DEv) q => ((acc.1.startLookup q.1 q.2 now).1, acc.2 ++ (acc.1.startLookup q.1 q.2 now).2))
    (fun b a hb e he => by
      rcases List.mem_append.mp he with he | he
      · exact hb e he
      · exact startLookup_quiet _ _ _ _ e he)
    s.queued ({ s with queued := [] }, []) (by simp)
  exact hf

theorem firstRefresh_quiet (s : DState) (now : Nat) : ∀ e ∈ (s.firstRefresh now).2, e.isQuiet = true := by
  unfold DState.firstRefresh
  split
  · simp
  · exact refreshRound_quiet _ now

/-- the events of `handle_bootstrap_success`: the completion, the waiters' results, then quiet events -/
theorem bootstrapSuccess_events (s : DState) (now : Nat) :
    ∃ rest, (s.bootstrapSuccess now).2 = DEv.bstate :: s.waiters.map DEv.resolved ++ rest ∧ ∀ e ∈ rest, e.isQuiet = true := by
  unfold DState.bootstrapSuccess
  simp only
  refine ⟨_, by simp only [List.cons_append, List.nil_append]; rfl, ?_⟩
  intro e he
  rcases List.mem_append.mp he with he | he
  · exact firstRefresh_quiet _ now e he
  · exact startQueued_quiet _ now e he

theorem goodHist_bstate' (ws0 : List Nat) (n0 t : Nat) (hist : List (Nat × DEv)) (rest : List DEv) (ws : List Nat)
    (hws : ws = (unresolvedAfter ws0 n0 hist).1) (h : GoodHist ws0 n0 hist)
    (hb : (t, DEv.bpub .bootstrapped) ∈ hist) (hr : ∀ e ∈ rest, e ≠ .bstate) :
    GoodHist ws0 n0 (hist ++ stamp t (DEv.bstate :: ws.map DEv.resolved ++ rest)) := by
  subst hws; exact goodHist_bstate ws0 n0 t hist rest h hb hr

theorem wh_observe (ws0 : List Nat) (n0 : Nat) (s : DState) (hist : List (Nat × DEv)) (h : WH ws0 n0 s hist) :
    WH ws0 n0 (s.hObserve s.clock).1 (hist ++ stamp s.clock (s.hObserve s.clock).2) ∧
    (s.hObserve s.clock).1.clock = s.clock := by
  refine ⟨?_, hObserve_clock s s.clock⟩
  unfold DState.hObserve
  split
  · simp only [stamp, List.map_nil, List.append_nil]; exact h
  · rename_i hne
    simp only
    split
    · rename_i hpub
      have hpub' : s.pub = .bootstrapped := hpub
      have hb := bootstrapSuccess_hframe { s with seenVersion := s.pubVersion } s.clock
      have hnw := bootstrapSuccess_nw { s with seenVersion := s.pubVersion } s.clock
      obtain ⟨rest, hev, hq⟩ := bootstrapSuccess_events { s with seenVersion := s.pubVersion } s.clock
      have hws : ({ s with seenVersion := s.pubVersion } : DState).waiters = s.waiters := rfl
      rw [hev, hws]
      have hmem := h.pub hne hpub'
      have hu : unresolvedAfter ws0 n0 (hist ++ stamp s.clock (DEv.bstate :: s.waiters.map DEv.resolved ++ rest)) =
          ([], s.nextWaiter) := by
        rw [unresolvedAfter_append]
        have hsplit : stamp s.clock (DEv.bstate :: s.waiters.map DEv.resolved ++ rest) =
            stamp s.clock [DEv.bstate] ++ (stamp s.clock (s.waiters.map DEv.resolved) ++ stamp s.clock rest) := by
          simp [stamp]
        rw [hsplit, unresolvedAfter_append, unresolvedAfter_append]
        rw [unresolvedAfter_other _ _ _ [DEv.bstate] (by simp [DEv.isWaiterEv])]
        simp only
        rw [unresolvedAfter_resolveAll _ _ _ _ (fun i hi => by rw [h.ws]; exact hi)]
        simp only
        rw [unresolvedAfter_other _ _ _ rest (fun e he => isQuiet_not_waiter (hq e he)), h.nx]
      refine ⟨by rw [hu, hb.2.1], by rw [hu, hnw], by rw [hb.2.1]; simp, ?_, ?_⟩
      · intro hne2
        exact absurd (by rw [hb.2.2, hb.1.version]) hne2
      · exact goodHist_bstate' ws0 n0 s.clock hist rest s.waiters h.ws h.good hmem (fun e he => isQuiet_not_bstate (hq e he))
    · simp only [stamp, List.map_nil, List.append_nil]
      exact ⟨h.ws, h.nx, h.lt, fun hne2 => absurd rfl hne2, h.good⟩

theorem wh_clock (ws0 : List Nat) (n0 : Nat) (s : DState) (hist : List (Nat × DEv)) (d : Nat) (h : WH ws0 n0 s hist)
    (hb : Boundary s) : WH ws0 n0 { s with clock := d } hist :=
  ⟨h.ws, h.nx, h.lt, fun hne => absurd hb.seen hne, h.good⟩

/-- the waiter bookkeeping invariant is kept by every transition of a step -/
theorem wh_obs (ws0 : List Nat) (n0 T : Nat) : ObS (WH ws0 n0) histScan (fun _ _ => True) (fun _ _ _ => True) T where
  clock := fun s g d h hb _ _ _ => wh_clock ws0 n0 s g d h hb
  oracle := fun s g _ h => ⟨h.ws, h.nx, h.lt, h.pub, h.good⟩
  worker := fun s g r h hb _ => by rw [scanE_hist]; exact wh_worker ws0 n0 s g r h hb
  timer := fun s g r h hf => by rw [scanE_hist]; exact wh_timer ws0 n0 s g r h hf
  observe := fun s g h => by rw [scanE_hist]; exact wh_observe ws0 n0 s g h
  command := fun s g c h => by rw [scanE_hist]; exact wh_command ws0 n0 s g c h
  datagram := fun s g tid body src h _ => by rw [scanE_hist]; exact wh_datagram ws0 n0 s g tid body src h
  garbage := fun s g src h => by
    have := wh_quiet ws0 n0 s s g [.undecodable src] h rfl rfl (by simp [DEv.isQuiet, DEv.isWaiterEv])
      (fun hne hpb => List.mem_append_left _ (h.pub hne hpb))
    simpa [histScan, stamp] using this

theorem wh_stepIn (ws0 : List Nat) (n0 : Nat) (s : DState) (hist : List (Nat × DEv)) (i : DInput) (h : WH ws0 n0 s hist)
    (hb : Boundary s) (hp : s.stepInP i) :
    WH ws0 n0 (s.stepIn i).1 (hist ++ (s.stepIn i).2) ∧ Boundary (s.stepIn i).1 := by
  have h2 : WH ws0 n0 { s with frOracle := i.fr } hist := ⟨h.ws, h.nx, h.lt, h.pub, h.good⟩
  have hb2 : Boundary { s with frOracle := i.fr } := ⟨hb.ready, hb.waits, hb.seen⟩
  have := stepG_s { s with frOracle := i.fr } i.t (wh_obs ws0 n0 _) hist i.ops i.bFirst i.hold h2 hb2 hp
    (fun _ _ _ _ => trivial) (fun _ _ => trivial)
  rw [scanS_hist] at this
  exact ⟨this.1, this.2.1⟩

theorem wh_run (ws0 : List Nat) (n0 : Nat) (ins : List DInput) : ∀ (s : DState) (hist : List (Nat × DEv)),
    WH ws0 n0 s hist → Boundary s → s.runP ins → WH ws0 n0 (s.run ins).1 (hist ++ (s.run ins).2) := by
  induction ins with
  | nil => intro s hist h _ _; simpa [DState.run] using h
  | cons i rest ih =>
    intro s hist h hb hp
    obtain ⟨h1, b1⟩ := wh_stepIn ws0 n0 s hist i h hb hp.1
    have := ih _ _ h1 b1 hp.2
    unfold DState.run
    simp only
    rw [← List.append_assoc]
    exact this

/-- **every observed completion of a punctual run, in the trace**: it follows a `bpub .bootstrapped`
of the same instant and is followed by the `resolved` events of exactly the `bootstrapped()` calls
that were registered and unresolved at that point -/
theorem run_goodHist (s : DState) (ins : List DInput) (hb : Boundary s) (hlt : ∀ i ∈ s.waiters, i < s.nextWaiter)
    (hp : s.runP ins) : GoodHist s.waiters s.nextWaiter (s.run ins).2 := by
  have h0 : WH s.waiters s.nextWaiter s [] := ⟨rfl, rfl, hlt, fun hne => absurd hb.seen hne, by
    intro pre t post' heq
    cases pre <;> simp at heq⟩
  have := wh_run s.waiters s.nextWaiter ins s [] h0 hb hp
  simpa using this.good

end Btdht
