import Btdht.Model.Handler
import Btdht.Proofs.Table
/-!
Helper lemmas for the handler-level properties (C02–C05, C12): the routing table only ever changes
by `add_node` offers and by request marks, so the table invariant of C08 holds in every reachable
handler state; effects of lookups are queries, yields and closes only.
-/
namespace Btdht

/-- the table evolves by offers (`add_node`) and request marks (`find_node_mut(..).local/remote_request`) -/
inductive TReach : Table → Table → Prop where
  | refl (t : Table) : TReach t t
  | offer (t t' : Table) (n : Node) (now : Nat) : TReach t t' → TReach t (t'.addNode n now)
  | markLocal (t t' : Table) (h : Handle) (now : Nat) : TReach t t' → TReach t (t'.modifyNode h now (fun m => m.localRequest now)).1
  | markRemote (t t' : Table) (h : Handle) (now : Nat) : TReach t t' → TReach t (t'.modifyNode h now (fun m => m.remoteRequest now)).1

theorem TReach.trans {a b c : Table} (h1 : TReach a b) (h2 : TReach b c) : TReach a c := by
  induction h2 with
  | refl => exact h1
  | offer t' n now _ ih => exact .offer _ _ n now ih
  | markLocal t' h now _ ih => exact .markLocal _ _ h now ih
  | markRemote t' h now _ ih => exact .markRemote _ _ h now ih

theorem localRequest_keeps (m : Node) (now : Nat) :
    (m.localRequest now).handle = m.handle ∧ (m.localRequest now).lastResponse = m.lastResponse := by
  unfold Node.localRequest; simp only; split <;> exact ⟨rfl, rfl⟩

/-- everything reachable from a table satisfying the invariant satisfies it, with the same id and routers -/
theorem TReach.inv {t t' : Table} (h : TReach t t') (hi : TInv t) : TInv t' ∧ SameEnv t t' := by
  induction h with
  | refl => exact ⟨hi, sameEnv_refl t⟩
  | offer t' n now _ ih =>
    obtain ⟨h1, e1⟩ := ih
    obtain ⟨h2, e2⟩ := tinv_addNode t' n now h1
    exact ⟨h2, sameEnv_trans e1 e2⟩
  | markLocal t' hd now _ ih =>
    obtain ⟨h1, e1⟩ := ih
    obtain ⟨h2, e2⟩ := tinv_modifyNode t' hd now _ h1 (fun m => localRequest_keeps m now)
    exact ⟨h2, sameEnv_trans e1 e2⟩
  | markRemote t' hd now _ ih =>
    obtain ⟨h1, e1⟩ := ih
    obtain ⟨h2, e2⟩ := tinv_modifyNode t' hd now (fun m => m.remoteRequest now) h1 (fun m => ⟨rfl, rfl⟩)
    exact ⟨h2, sameEnv_trans e1 e2⟩

theorem foldl_pred {α β} (P : β → Prop) (f : β → α → β) (hstep : ∀ b a, P b → P (f b a)) :
    ∀ (l : List α) (b : β), P b → P (l.foldl f b)
  | [], b, h => h
  | a :: l, b, h => foldl_pred P f hstep l (f b a) (hstep b a h)

theorem markRequested_reach (t0 t : Table) (h : Handle) (now : Nat) (hr : TReach t0 t) :
    TReach t0 (markRequested t h now) := .markLocal _ _ h now hr

theorem addNodes_reach (t0 t : Table) (n : Node) (named : List Handle) (now : Nat) (hr : TReach t0 t) :
    TReach t0 (t.addNodes n named now) := by
  unfold Table.addNodes
  exact foldl_pred (fun acc => TReach t0 acc) _ (fun b a hb => .offer _ _ _ now hb) named _ (.offer _ _ n now hr)

/-- only queries, yields and closes: what a lookup can do to the world -/
def Effect.isSend : Effect → Bool
  | .send .. => true
  | _ => false

/-- what the sending loops of a lookup leave untouched, and how they change the table -/
structure Keeps (t0 : Table) (l0 : Lookup) (env0 : LEnv) (l : Lookup) (env : LEnv) (effs : List Effect) : Prop where
  reach : TReach t0 env.table
  now : env.now = env0.now
  fails : env.sendFails = env0.sendFails
  sends : ∀ e ∈ effs, e.isSend = true
  tokens : l.tokens = l0.tokens
  stream : l.stream = l0.stream
  aid : l.aid = l0.aid
  ann : l.willAnnounce = l0.willAnnounce
  selfId : l.selfId = l0.selfId
  target : l.target = l0.target

theorem keeps_refl (t0 : Table) (l : Lookup) (env : LEnv) (h : TReach t0 env.table) : Keeps t0 l env l env [] :=
  ⟨h, rfl, rfl, by simp, rfl, rfl, rfl, rfl, rfl, rfl⟩

theorem mem_snoc_send {effs : List Effect} {x : Effect} (h : ∀ e ∈ effs, e.isSend = true) (hx : x.isSend = true) :
    ∀ e ∈ effs ++ [x], e.isSend = true := by
  intro e he
  rcases List.mem_append.mp he with he | he
  · exact h e he
  · simp at he; subst he; exact hx

theorem requestStep_keeps (t0 : Table) (l0 : Lookup) (env0 : LEnv) (acc : RoundAcc) (hd : Handle × Bytes)
    (h : Keeps t0 l0 env0 acc.l acc.env acc.effs) :
    Keeps t0 l0 env0 (requestStep acc hd).l (requestStep acc hd).env (requestStep acc hd).effs := by
  unfold requestStep
  simp only
  split
  · exact ⟨h.reach, h.now, h.fails, mem_snoc_send h.sends rfl, h.tokens, h.stream, h.aid, h.ann, h.selfId, h.target⟩
  · exact ⟨markRequested_reach _ _ _ _ h.reach, h.now, h.fails, mem_snoc_send h.sends rfl, h.tokens, h.stream, h.aid,
      h.ann, h.selfId, h.target⟩

theorem requestRound_keeps (t0 : Table) (l : Lookup) (env : LEnv) (nodes : List (Handle × Bytes))
    (hr : TReach t0 env.table) :
    Keeps t0 l env (l.requestRound env nodes).1 (l.requestRound env nodes).2.1 (l.requestRound env nodes).2.2 ∧
    (l.requestRound env nodes).1.inEndgame = l.inEndgame := by
  unfold Lookup.requestRound
  have key := foldl_pred (fun (acc : RoundAcc) => Keeps t0 l env acc.l acc.env acc.effs ∧ acc.l.inEndgame = l.inEndgame)
    requestStep (fun b a hb => ⟨requestStep_keeps t0 l env b a hb.1, by
      have := hb.2; unfold requestStep; simp only; split <;> exact this⟩)
    nodes { l := l, env := env, effs := [], sent := 0 } ⟨keeps_refl t0 l env hr, rfl⟩
  simp only
  split
  · obtain ⟨k, e⟩ := key
    exact ⟨⟨k.reach, k.now, k.fails, k.sends, k.tokens, k.stream, k.aid, k.ann, k.selfId, k.target⟩, e⟩
  · exact key

theorem endgameStep_keeps (t0 : Table) (l0 : Lookup) (env0 : LEnv) (key : Nat × Nat) (acc : EndAcc)
    (e : Bytes × Handle × Bool) (h : Keeps t0 l0 env0 acc.l acc.env acc.effs ∧ acc.l.inEndgame = true) :
    Keeps t0 l0 env0 (endgameStep key acc e).l (endgameStep key acc e).env (endgameStep key acc e).effs ∧
    (endgameStep key acc e).l.inEndgame = true := by
  obtain ⟨h, hi⟩ := h
  unfold endgameStep
  split
  · exact ⟨h, hi⟩
  · simp only
    split
    · exact ⟨⟨h.reach, h.now, h.fails, mem_snoc_send h.sends rfl, h.tokens, h.stream, h.aid, h.ann, h.selfId, h.target⟩, hi⟩
    · exact ⟨⟨markRequested_reach _ _ _ _ h.reach, h.now, h.fails, mem_snoc_send h.sends rfl, h.tokens, h.stream, h.aid,
        h.ann, h.selfId, h.target⟩, hi⟩

theorem endgameRound_keeps (t0 : Table) (l : Lookup) (env : LEnv) (hr : TReach t0 env.table) :
    Keeps t0 l env (l.endgameRound env).1 (l.endgameRound env).2.1 (l.endgameRound env).2.2 ∧
    (l.endgameRound env).1.inEndgame = true := by
  unfold Lookup.endgameRound
  simp only
  have start : Keeps t0 l env { l with inEndgame := true, nextSeq := l.nextSeq + 1 }
      { env with timer := (env.timer.scheduleAt (env.now + Constants.ENDGAME_TIMEOUT_ns)
        (.lookupEndGame ⟨l.aid, l.nextSeq⟩)).1 } [] :=
    ⟨hr, rfl, rfl, by simp, rfl, rfl, rfl, rfl, rfl, rfl⟩
  have key := foldl_pred
    (fun (acc : EndAcc) => Keeps t0 l env acc.l acc.env acc.effs ∧ acc.l.inEndgame = true)
    (endgameStep (env.timer.scheduleAt (env.now + Constants.ENDGAME_TIMEOUT_ns) (.lookupEndGame ⟨l.aid, l.nextSeq⟩)).2)
    (fun b a hb => endgameStep_keeps t0 l env _ b a hb) l.sorted
    { l := { l with inEndgame := true, nextSeq := l.nextSeq + 1 },
      env := { env with timer := (env.timer.scheduleAt (env.now + Constants.ENDGAME_TIMEOUT_ns)
        (.lookupEndGame ⟨l.aid, l.nextSeq⟩)).1 }, effs := [], out := [] } ⟨start, rfl⟩
  obtain ⟨k, e⟩ := key
  exact ⟨⟨k.reach, k.now, k.fails, k.sends, k.tokens, k.stream, k.aid, k.ann, k.selfId, k.target⟩, e⟩

end Btdht

namespace Btdht

/-- fields that the bookkeeping steps of `recv_response` leave alone -/
structure SameCore (l l' : Lookup) : Prop where
  stream : l'.stream = l.stream
  aid : l'.aid = l.aid
  ann : l'.willAnnounce = l.willAnnounce
  eg : l'.inEndgame = l.inEndgame
  selfId : l'.selfId = l.selfId
  target : l'.target = l.target

theorem sameCore_refl (l : Lookup) : SameCore l l := ⟨rfl, rfl, rfl, rfl, rfl, rfl⟩
theorem SameCore.trans {a b c : Lookup} (h1 : SameCore a b) (h2 : SameCore b c) : SameCore a c :=
  ⟨h2.stream.trans h1.stream, h2.aid.trans h1.aid, h2.ann.trans h1.ann, h2.eg.trans h1.eg,
   h2.selfId.trans h1.selfId, h2.target.trans h1.target⟩

theorem recordToken_core (l : Lookup) (fr : Handle) (tok : Option Bytes) : SameCore l (l.recordToken fr tok) := by
  unfold Lookup.recordToken
  cases tok with
  | none => exact sameCore_refl l
  | some t => simp only; split <;> exact ⟨rfl, rfl, rfl, rfl, rfl, rfl⟩

theorem absorbNodes_core (l : Lookup) (nodes : List Handle) (d : Bytes) :
    SameCore l (l.absorbNodes nodes d).1 ∧ (l.absorbNodes nodes d).1.tokens = l.tokens ∧
    (l.absorbNodes nodes d).1.active = l.active := by
  unfold Lookup.absorbNodes
  split
  · exact ⟨sameCore_refl l, rfl, rfl⟩
  · simp only
    split <;> exact ⟨⟨rfl, rfl, rfl, rfl, rfl, rfl⟩, rfl, rfl⟩

/-- `continue_search`: queries only; never leaves the lookup complete -/
theorem continueSearch_spec (t0 : Table) (l : Lookup) (env : LEnv) (it : Option (List (Handle × Bool))) (nd : Bytes)
    (hr : TReach t0 env.table) :
    Keeps t0 l env (l.continueSearch env it nd).1 (l.continueSearch env it nd).2.1 (l.continueSearch env it nd).2.2 ∧
    ((l.continueSearch env it nd).1.inEndgame = true ∨ (l.continueSearch env it nd).1.active.isEmpty = false) := by
  have k1 : Keeps t0 l env (l.iterRound env it nd).1 (l.iterRound env it nd).2.1 (l.iterRound env it nd).2.2 := by
    unfold Lookup.iterRound
    cases it with
    | none => exact keeps_refl t0 l env hr
    | some picks => exact (requestRound_keeps t0 l env _ hr).1
  unfold Lookup.continueSearch
  generalize l.iterRound env it nd = r1 at k1
  by_cases heg : (!l.inEndgame) = true
  · rw [if_pos heg]
    simp only
    by_cases hemp : r1.1.active.isEmpty = true
    · rw [if_pos hemp]
      obtain ⟨k2, e2⟩ := endgameRound_keeps t0 r1.1 r1.2.1 k1.reach
      refine ⟨⟨k2.reach, k2.now.trans k1.now, k2.fails.trans k1.fails, ?_, k2.tokens.trans k1.tokens,
        k2.stream.trans k1.stream, k2.aid.trans k1.aid, k2.ann.trans k1.ann, k2.selfId.trans k1.selfId,
        k2.target.trans k1.target⟩, Or.inl e2⟩
      intro e he
      rcases List.mem_append.mp he with he | he
      · exact k1.sends e he
      · exact k2.sends e he
    · rw [if_neg hemp]
      exact ⟨k1, Or.inr (by simpa using hemp)⟩
  · rw [if_neg heg]
    have : l.inEndgame = true := by simpa using heg
    exact ⟨keeps_refl t0 l env hr, Or.inl this⟩

/-- result of `recv_response` when the id is none of the lookup's outstanding ids: nothing at all -/
theorem recvResponse_unknown (l : Lookup) (env : LEnv) (fr : Handle) (tid : Tid) (rsp : Resp)
    (h : l.active.find? (·.1 = tid) = none) : l.recvResponse env fr tid rsp = (l, env, []) := by
  unfold Lookup.recvResponse
  simp [h]

/-- the part of `recv_response` after the id was found outstanding and removed -/
theorem accepted_core (t0 : Table) (l l1 : Lookup) (env1 : LEnv) (fr : Handle) (rsp : Resp) (d : Bytes)
    (c1 : SameCore l l1) (ht : l1.tokens = l.tokens) (hr1 : TReach t0 env1.table) :
    ∃ sends : List Effect, (∀ e ∈ sends, e.isSend = true) ∧
      (((l1.recordToken fr rsp.token).absorbNodes (if (l1.recordToken fr rsp.token).v6 then rsp.nodes6 else rsp.nodes4) d).1.continueSearch env1
        ((l1.recordToken fr rsp.token).absorbNodes (if (l1.recordToken fr rsp.token).v6 then rsp.nodes6 else rsp.nodes4) d).2.1
        ((l1.recordToken fr rsp.token).absorbNodes (if (l1.recordToken fr rsp.token).v6 then rsp.nodes6 else rsp.nodes4) d).2.2).2.2 = sends ∧
      TReach t0 (((l1.recordToken fr rsp.token).absorbNodes (if (l1.recordToken fr rsp.token).v6 then rsp.nodes6 else rsp.nodes4) d).1.continueSearch env1
        ((l1.recordToken fr rsp.token).absorbNodes (if (l1.recordToken fr rsp.token).v6 then rsp.nodes6 else rsp.nodes4) d).2.1
        ((l1.recordToken fr rsp.token).absorbNodes (if (l1.recordToken fr rsp.token).v6 then rsp.nodes6 else rsp.nodes4) d).2.2).2.1.table ∧
      (let fin := (((l1.recordToken fr rsp.token).absorbNodes (if (l1.recordToken fr rsp.token).v6 then rsp.nodes6 else rsp.nodes4) d).1.continueSearch env1
        ((l1.recordToken fr rsp.token).absorbNodes (if (l1.recordToken fr rsp.token).v6 then rsp.nodes6 else rsp.nodes4) d).2.1
        ((l1.recordToken fr rsp.token).absorbNodes (if (l1.recordToken fr rsp.token).v6 then rsp.nodes6 else rsp.nodes4) d).2.2).1
       fin.completedNow = false ∧ fin.aid = l.aid ∧ fin.stream = l.stream ∧ fin.willAnnounce = l.willAnnounce ∧
       fin.tokens = (l.recordToken fr rsp.token).tokens) := by
  have c2 := recordToken_core l1 fr rsp.token
  obtain ⟨c3, t3, _⟩ := absorbNodes_core (l1.recordToken fr rsp.token)
    (if (l1.recordToken fr rsp.token).v6 = true then rsp.nodes6 else rsp.nodes4) d
  obtain ⟨k, hcomp⟩ := continueSearch_spec t0
    ((l1.recordToken fr rsp.token).absorbNodes (if (l1.recordToken fr rsp.token).v6 then rsp.nodes6 else rsp.nodes4) d).1 env1
    ((l1.recordToken fr rsp.token).absorbNodes (if (l1.recordToken fr rsp.token).v6 then rsp.nodes6 else rsp.nodes4) d).2.1
    ((l1.recordToken fr rsp.token).absorbNodes (if (l1.recordToken fr rsp.token).v6 then rsp.nodes6 else rsp.nodes4) d).2.2 hr1
  have core := (c1.trans c2).trans c3
  refine ⟨_, k.sends, rfl, k.reach, ?_, k.aid.trans core.aid, k.stream.trans core.stream, k.ann.trans core.ann, ?_⟩
  · rcases hcomp with h1 | h1 <;> simp [Lookup.completedNow, h1]
  · rw [k.tokens, t3]
    unfold Lookup.recordToken
    cases rsp.token with
    | none => exact ht
    | some t => simp only; split <;> simp [ht]

/-- `recv_response` on an outstanding id: the effects are queries followed by exactly the
response's values as yields on the lookup's stream; the table changes by request marks only; the
lookup is not complete afterwards (it is waiting for answers or for its end-game timer); its token
map gains at most the responder's token. -/
theorem recvResponse_accepted (t0 : Table) (l : Lookup) (env : LEnv) (fr : Handle) (tid : Tid) (rsp : Resp)
    (entry : Tid × Bytes × (Nat × Nat)) (h : l.active.find? (·.1 = tid) = some entry)
    (hr : TReach t0 env.table) :
    ∃ sends : List Effect, (∀ e ∈ sends, e.isSend = true) ∧
      (l.recvResponse env fr tid rsp).2.2 = sends ++ rsp.values.map (fun a => .yield l.stream a) ∧
      TReach t0 (l.recvResponse env fr tid rsp).2.1.table ∧
      (l.recvResponse env fr tid rsp).1.completedNow = false ∧
      (l.recvResponse env fr tid rsp).1.aid = l.aid ∧ (l.recvResponse env fr tid rsp).1.stream = l.stream ∧
      (l.recvResponse env fr tid rsp).1.willAnnounce = l.willAnnounce ∧
      (l.recvResponse env fr tid rsp).1.tokens = (l.recordToken fr rsp.token).tokens := by
  have hr1 : TReach t0 (if !({ l with active := l.active.filter (·.1 ≠ tid) } : Lookup).inEndgame
      then { env with timer := (env.timer.cancel entry.2.2).1 } else env).table := by
    split <;> exact hr
  obtain ⟨sends, h1, h2, h3, h4⟩ := accepted_core t0 l { l with active := l.active.filter (·.1 ≠ tid) } _ fr rsp entry.2.1
    ⟨rfl, rfl, rfl, rfl, rfl, rfl⟩ rfl hr1
  unfold Lookup.recvResponse
  simp only [h]
  exact ⟨sends, h1, by rw [h2], h3, h4⟩

/-- `recv_timeout`: queries only; the lookup is never complete afterwards -/
theorem recvTimeout_spec (t0 : Table) (l : Lookup) (env : LEnv) (tid : Tid) (hr : TReach t0 env.table) :
    (∀ e ∈ (l.recvTimeout env tid).2.2, e.isSend = true) ∧ TReach t0 (l.recvTimeout env tid).2.1.table ∧
    (l.recvTimeout env tid).1.aid = l.aid ∧ (l.recvTimeout env tid).1.tokens = l.tokens ∧
    (l.recvTimeout env tid).1.stream = l.stream ∧ (l.recvTimeout env tid).1.willAnnounce = l.willAnnounce ∧
    (l.active.find? (·.1 = tid) ≠ none → (l.recvTimeout env tid).1.completedNow = false) := by
  unfold Lookup.recvTimeout
  cases hf : l.active.find? (·.1 = tid) with
  | none => exact ⟨by simp, hr, rfl, rfl, rfl, rfl, fun h => absurd rfl h⟩
  | some e =>
    simp only
    split
    · obtain ⟨k, e2⟩ := endgameRound_keeps t0 { l with active := l.active.filter (·.1 ≠ tid) } env hr
      refine ⟨k.sends, k.reach, k.aid, k.tokens, k.stream, k.ann, fun _ => ?_⟩
      unfold Lookup.completedNow
      rw [e2]; rfl
    · rename_i hc
      refine ⟨by simp, hr, rfl, rfl, rfl, rfl, fun _ => ?_⟩
      simp only [Lookup.completedNow]
      simpa using hc

end Btdht

namespace Btdht

/-- an `announce_peer` of this lookup: to a candidate that holds a token, carrying that token, the
searched info-hash, the own id and the configured port -/
def IsAnnounceOf (l : Lookup) (port : Option Nat) : Effect → Prop
  | .send dst _ req _ => ∃ h tok, (h, tok) ∈ l.tokens ∧ dst = h.addr ∧ req = .announce l.selfId l.target port tok
  | _ => False

theorem announceStep_spec (t0 : Table) (l0 : Lookup) (port : Option Nat) (acc : Lookup × LEnv × List Effect)
    (e : Bytes × Handle × Bool) (he : l0.tokens.any (·.1 = e.2.1) = true)
    (h : TReach t0 acc.2.1.table ∧ acc.1.tokens = l0.tokens ∧ acc.1.selfId = l0.selfId ∧ acc.1.target = l0.target ∧
      acc.1.stream = l0.stream ∧ ∀ x ∈ acc.2.2, IsAnnounceOf l0 port x) :
    TReach t0 (announceStep port acc e).2.1.table ∧ (announceStep port acc e).1.tokens = l0.tokens ∧
    (announceStep port acc e).1.selfId = l0.selfId ∧ (announceStep port acc e).1.target = l0.target ∧
    (announceStep port acc e).1.stream = l0.stream ∧
    (∀ x ∈ (announceStep port acc e).2.2, IsAnnounceOf l0 port x) ∧
    (announceStep port acc e).2.2.length = acc.2.2.length + 1 := by
  obtain ⟨hr, ht, hs, htg, hst, hx⟩ := h
  -- the token found for this candidate is one of the recorded ones
  have hfind : ∃ tok, (acc.1.tokens.find? (·.1 = e.2.1)) = some (e.2.1, tok) ∧ (e.2.1, tok) ∈ l0.tokens := by
    rw [ht]
    rw [List.any_eq_true] at he
    obtain ⟨p, hp, hpe⟩ := he
    cases hf : l0.tokens.find? (·.1 = e.2.1) with
    | none =>
      have := List.find?_eq_none.mp hf p hp
      simp at hpe; simp [hpe] at this
    | some q =>
      have hq := List.find?_some hf
      have hm := List.mem_of_find?_eq_some hf
      simp only [decide_eq_true_eq] at hq
      obtain ⟨qh, qt⟩ := q
      simp only at hq; subst hq
      exact ⟨qt, rfl, hm⟩
  obtain ⟨tok, hf, hmem⟩ := hfind
  have hnew : ∀ (ok : Bool), IsAnnounceOf l0 port
      (.send e.2.1.addr ⟨acc.1.aid, acc.1.nextSeq⟩ (Req.announce acc.1.selfId acc.1.target port tok) ok) := by
    intro ok
    exact ⟨e.2.1, tok, hmem, rfl, by rw [hs, htg]⟩
  unfold announceStep
  simp only [hf, Option.map_some, Option.getD_some]
  split
  · refine ⟨hr, ht, hs, htg, hst, ?_, by simp⟩
    intro x hxm
    rcases List.mem_append.mp hxm with h1 | h1
    · exact hx x h1
    · simp at h1; subst h1; exact hnew false
  · refine ⟨markRequested_reach _ _ _ _ hr, ht, hs, htg, hst, ?_, by simp⟩
    intro x hxm
    rcases List.mem_append.mp hxm with h1 | h1
    · exact hx x h1
    · simp at h1; subst h1; exact hnew true

/-- `recv_finished`: at most 8 announces, each an `IsAnnounceOf`, none unless announcing was
requested; then exactly one `close` of the lookup's stream -/
theorem recvFinished_spec (t0 : Table) (l : Lookup) (env : LEnv) (port : Option Nat) (hr : TReach t0 env.table) :
    ∃ anns : List Effect, (l.recvFinished env port).2.2 = anns ++ [.close l.stream] ∧
      (∀ x ∈ anns, IsAnnounceOf l port x) ∧ anns.length ≤ 8 ∧ (l.willAnnounce = false → anns = []) ∧
      TReach t0 (l.recvFinished env port).2.1.table := by
  unfold Lookup.recvFinished
  by_cases hw : l.willAnnounce = true
  · simp only [hw, if_true]
    -- fold over the announce targets
    have key : ∀ (ts : List (Bytes × Handle × Bool)) (acc : Lookup × LEnv × List Effect),
        (∀ e ∈ ts, l.tokens.any (·.1 = e.2.1) = true) →
        (TReach t0 acc.2.1.table ∧ acc.1.tokens = l.tokens ∧ acc.1.selfId = l.selfId ∧ acc.1.target = l.target ∧
          acc.1.stream = l.stream ∧ ∀ x ∈ acc.2.2, IsAnnounceOf l port x) →
        (TReach t0 (ts.foldl (announceStep port) acc).2.1.table ∧
          (∀ x ∈ (ts.foldl (announceStep port) acc).2.2, IsAnnounceOf l port x) ∧
          (ts.foldl (announceStep port) acc).2.2.length = acc.2.2.length + ts.length) := by
      intro ts
      induction ts with
      | nil => intro acc _ h; exact ⟨h.1, h.2.2.2.2.2, by simp⟩
      | cons e ts ih =>
        intro acc hts h
        obtain ⟨a1, a2, a3, a4, a5, a6, a7⟩ := announceStep_spec t0 l port acc e (hts e (by simp)) h
        obtain ⟨b1, b2, b3⟩ := ih (announceStep port acc e) (fun x hx => hts x (by simp [hx])) ⟨a1, a2, a3, a4, a5, a6⟩
        refine ⟨b1, b2, ?_⟩
        simp only [List.foldl_cons, List.length_cons]
        rw [b3, a7]; omega
    have htargets : ∀ e ∈ l.announceTargets, l.tokens.any (·.1 = e.2.1) = true := by
      intro e he
      unfold Lookup.announceTargets at he
      exact (List.mem_filter.mp (List.mem_of_mem_take he)).2
    obtain ⟨k1, k2, k3⟩ := key l.announceTargets (l, env, []) htargets ⟨hr, rfl, rfl, rfl, rfl, by simp⟩
    refine ⟨_, rfl, k2, ?_, fun h => absurd h (by simp), k1⟩
    rw [k3]
    have : l.announceTargets.length ≤ Constants.ANNOUNCE_PICK_NUM := by
      unfold Lookup.announceTargets; exact List.length_take_le _ _
    have h8 : Constants.ANNOUNCE_PICK_NUM = 8 := by decide
    simp only [List.length_nil]; omega
  · simp only [hw, if_false, Bool.false_eq_true]
    exact ⟨[], rfl, by simp, by simp, fun _ => rfl, hr⟩

end Btdht
