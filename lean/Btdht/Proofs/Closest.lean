import Btdht.Proofs.Table
import Btdht.Proofs.Walk
/-!
C09 helpers: the binary ultrametric law for shared-prefix lengths, and the chunks of the
closest-node enumeration.
-/
namespace Btdht

/-! ### shared prefixes -/

theorem commonPrefix_le_left : ∀ (a b : List Bool), commonPrefix a b ≤ a.length
  | [], _ => by simp [commonPrefix]
  | _ :: _, [] => by simp [commonPrefix]
  | x :: a, y :: b => by
    unfold commonPrefix
    split
    · have := commonPrefix_le_left a b; simp; omega
    · simp

/-- Binary ultrametric law: `n` shares a longer prefix with `t` than `s` does iff `n` and `s`
part ways exactly where `t` and `s` do (ids are bit strings, so two ids that both differ from `s`
at a position agree with each other there). -/
theorem closer_iff : ∀ (s t n : List Bool), s.length = t.length → s.length = n.length →
    commonPrefix s t < s.length →
    (commonPrefix n t > commonPrefix s t ↔ commonPrefix s n = commonPrefix s t)
  | [], _, _, _, _, h => by simp at h
  | _ :: _, [], _, h, _, _ => by simp at h
  | _ :: _, _ :: _, [], _, h, _ => by simp at h
  | x :: s, y :: t, z :: n, h1, h2, h3 => by
    simp only [List.length_cons, Nat.add_right_cancel_iff] at h1 h2
    by_cases hxy : x = y
    · subst hxy
      have h3' : commonPrefix s t < s.length := by
        simp only [commonPrefix, if_true, List.length_cons] at h3; omega
      have ih := closer_iff s t n h1 h2 h3'
      by_cases hz : z = x
      · subst hz
        simp only [commonPrefix, if_true]
        constructor
        · intro h; have := ih.mp (by omega); omega
        · intro h; have := ih.mpr (by omega); omega
      · have hz' : ¬ x = z := fun e => hz e.symm
        simp only [commonPrefix, hz, hz', if_false, if_true]
        omega
    · have key : (z = y) ↔ ¬ (x = z) := by
        cases x <;> cases y <;> cases z <;> simp_all
      simp only [commonPrefix, hxy, if_false]
      by_cases hzy : z = y
      · have := key.mp hzy
        simp [hzy, hxy]
      · have : x = z := by
          by_cases e : x = z
          · exact e
          · exact absurd (key.mpr e) hzy
        simp [hzy, this]

theorem lcp_le_of_len (a b : Bytes) (ha : a.length = 20) : lcp a b ≤ 160 := by
  unfold lcp
  have h1 := commonPrefix_le_left (idBits a) (idBits b)
  have h2 := idBits_length a
  omega

end Btdht

namespace Btdht

theorem maxBuckets_eq : maxBuckets = 160 := by decide

/-! ### the pieces of the enumeration -/

def Table.sortedBuckets (t : Table) : List Bucket :=
  if t.buckets.length = maxBuckets then t.buckets else t.buckets.dropLast

def Table.assorted (t : Table) : List (Nat × Node) :=
  if t.buckets.length = maxBuckets then []
  else (t.buckets.getLast?.getD Bucket.new).nodes.map (fun n => (lcp t.selfId n.handle.id, n))

/-- what the iterator hands out while it is at bucket index `idx` -/
def Table.chunk (t : Table) (now idx : Nat) : List Node :=
  (match t.sortedBuckets[idx]? with
   | some b => b.pingable now
   | none => []) ++
  ((t.assorted.filter (fun p => p.1 = idx && p.2.isPingable now)).map (·.2))

theorem closestNodes_eq (t : Table) (target : Bytes) (now : Nat) :
    t.closestNodes target now =
      (walkFrom maxBuckets (lcp t.selfId target) (maxBuckets + 1) (lcp t.selfId target)).flatMap (t.chunk now) := rfl

/-- all good or questionable nodes of the table, bucket by bucket -/
def Table.liveNodes (t : Table) (now : Nat) : List Node := t.buckets.flatMap (fun b => b.pingable now)

theorem pingable_answered (m : Node) (now : Nat) (h : m.isPingable now = true) : m.lastResponse ≠ none := by
  intro hn
  simp [Node.isPingable, Node.status, hn] at h

/-- a live node of bucket `i` has exactly the prefix length the bucket stands for (last bucket: at least) -/
theorem live_placed (t : Table) (h : TInv t) (i : Nat) (hi : i < t.buckets.length) (m : Node)
    (hm : m ∈ t.buckets[i].nodes) (now : Nat) (hp : m.isPingable now = true) :
    lcp t.selfId m.handle.id ≠ maxBuckets ∧ Placed t.buckets.length i (lcp t.selfId m.handle.id) := by
  rcases h.placed i hi m hm with hn | ⟨h1, _, h3⟩
  · exact absurd hn (pingable_answered m now hp)
  · exact ⟨h1, h3⟩

theorem getLast_eq (t : Table) (h : TInv t) :
    t.buckets.getLast?.getD Bucket.new = t.buckets[t.buckets.length - 1]'(by have := h.len_pos; omega) := by
  have hpos := h.len_pos
  rw [List.getLast?_eq_getElem?]
  rw [List.getElem?_eq_getElem (by omega)]
  rfl

theorem sorted_getElem (t : Table) (idx : Nat) (b : Bucket) (hb : t.sortedBuckets[idx]? = some b) :
    ∃ hi : idx < t.buckets.length, t.buckets[idx] = b ∧
      (t.buckets.length = maxBuckets ∨ idx + 1 < t.buckets.length) := by
  unfold Table.sortedBuckets at hb
  by_cases hfull : t.buckets.length = maxBuckets
  · simp only [hfull, if_true] at hb
    obtain ⟨hi, he⟩ := List.getElem?_eq_some_iff.mp hb
    exact ⟨hi, he, Or.inl hfull⟩
  · simp only [hfull, if_false] at hb
    obtain ⟨hi, he⟩ := List.getElem?_eq_some_iff.mp hb
    simp only [List.length_dropLast] at hi
    rw [List.getElem_dropLast] at he
    exact ⟨by omega, he, Or.inr (by omega)⟩

/-- **Characterisation of a chunk**: under the table invariant the iterator hands out, at index
`idx`, exactly the live nodes sharing `idx` leading bits with the local id. -/
theorem mem_chunk (t : Table) (h : TInv t) (hself : t.selfId.length = 20) (now idx : Nat) (m : Node) :
    m ∈ t.chunk now idx ↔ (m ∈ t.liveNodes now ∧ lcp t.selfId m.handle.id = idx) := by
  have hpos := h.len_pos
  have hle := h.len_le
  rw [maxBuckets_eq] at hle
  unfold Table.chunk Table.liveNodes
  simp only [List.mem_append, List.mem_map, List.mem_filter, Bool.and_eq_true, decide_eq_true_eq,
    List.mem_flatMap]
  constructor
  · rintro (hs | ⟨p, ⟨hp, hkey, hping⟩, rfl⟩)
    · cases hb : t.sortedBuckets[idx]? with
      | none => simp [hb] at hs
      | some b =>
        simp only [hb, Bucket.pingable, List.mem_filter] at hs
        obtain ⟨hi, he, hcase⟩ := sorted_getElem t idx b hb
        obtain ⟨h160, hpl⟩ := live_placed t h idx hi m (he ▸ hs.1) now hs.2
        refine ⟨⟨b, he ▸ List.getElem_mem hi, by simpa [Bucket.pingable] using hs⟩, ?_⟩
        unfold Placed at hpl
        rcases hcase with hfull | hlt
        · by_cases hlast : idx + 1 = t.buckets.length
          · have h1 := hpl.2 hlast
            have h2 := lcp_le_of_len t.selfId m.handle.id hself
            rw [maxBuckets_eq] at h160 hfull
            omega
          · exact hpl.1 (by omega)
        · exact hpl.1 hlt
    · -- an assorted node: it lives in the last bucket and its key is its prefix length
      unfold Table.assorted at hp
      by_cases hfull : t.buckets.length = maxBuckets
      · simp [hfull] at hp
      · simp only [hfull, if_false, List.mem_map] at hp
        obtain ⟨n, hn, rfl⟩ := hp
        rw [getLast_eq t h] at hn
        have hlt : t.buckets.length - 1 < t.buckets.length := by omega
        refine ⟨⟨t.buckets[t.buckets.length - 1], List.getElem_mem hlt, by simpa [Bucket.pingable] using ⟨hn, hping⟩⟩, hkey⟩
  · rintro ⟨⟨b, hb, hm⟩, hkey⟩
    simp only [Bucket.pingable, List.mem_filter] at hm
    obtain ⟨i, hi, rfl⟩ := List.mem_iff_getElem.mp hb
    obtain ⟨h160, hpl⟩ := live_placed t h i hi m hm.1 now hm.2
    unfold Placed at hpl
    by_cases hfull : t.buckets.length = maxBuckets
    · -- full table: every bucket is a sorted one
      left
      have hidx : idx = i := by
        by_cases hlast : i + 1 = t.buckets.length
        · have h1 := hpl.2 hlast
          have h2 := lcp_le_of_len t.selfId m.handle.id hself
          rw [maxBuckets_eq] at h160 hfull
          omega
        · have := hpl.1 (by omega); omega
      subst hidx
      have : t.sortedBuckets[idx]? = some t.buckets[idx] := by
        unfold Table.sortedBuckets
        simp only [hfull, if_true]
        exact List.getElem?_eq_getElem hi
      simp only [this, Bucket.pingable, List.mem_filter]
      exact hm
    · by_cases hlast : i + 1 = t.buckets.length
      · -- the assorted bucket
        right
        refine ⟨(lcp t.selfId m.handle.id, m), ⟨?_, hkey, hm.2⟩, rfl⟩
        unfold Table.assorted
        simp only [hfull, if_false, List.mem_map]
        refine ⟨m, ?_, rfl⟩
        rw [getLast_eq t h]
        have : t.buckets.length - 1 = i := by omega
        simp only [this]
        exact hm.1
      · left
        have hidx : idx = i := by have := hpl.1 (by omega); omega
        subst hidx
        have : t.sortedBuckets[idx]? = some t.buckets[idx] := by
          unfold Table.sortedBuckets
          simp only [hfull, if_false]
          rw [List.getElem?_eq_getElem (by simp; omega), List.getElem_dropLast]
        simp only [this, Bucket.pingable, List.mem_filter]
        exact hm

end Btdht

namespace Btdht

/-- live nodes of one bucket carry pairwise different handles (hence are pairwise different) -/
theorem filter_live_nodup (l : List Node) (hh : HandlesOk l) (p : Node → Bool)
    (hp : ∀ x, p x = true → x.lastResponse ≠ none) : (l.filter p).Nodup := by
  unfold HandlesOk at hh
  have := List.Pairwise.filter p hh
  unfold List.Nodup
  refine List.Pairwise.imp_of_mem ?_ this
  intro a b _ hb hab e
  have hb' := (List.mem_filter.mp hb).2
  exact hp b hb' (hab (by rw [e]))

theorem pingable_nodup (b : Bucket) (hh : HandlesOk b.nodes) (now : Nat) : (b.pingable now).Nodup :=
  filter_live_nodup b.nodes hh _ (fun x hx => pingable_answered x now hx)

theorem assorted_part_eq (self : Bytes) (idx now : Nat) : ∀ (l : List Node),
    ((l.map (fun n => (lcp self n.handle.id, n))).filter (fun p => decide (p.1 = idx) && p.2.isPingable now)).map (·.2)
      = l.filter (fun n => decide (lcp self n.handle.id = idx) && n.isPingable now)
  | [] => rfl
  | a :: l => by
    simp only [List.map_cons, List.filter_cons]
    by_cases h : (decide (lcp self a.handle.id = idx) && a.isPingable now) = true
    · simp only [h, if_true, List.map_cons]; rw [assorted_part_eq self idx now l]
    · simp only [h, if_false, Bool.false_eq_true]; rw [assorted_part_eq self idx now l]

theorem liveNodes_nodup (t : Table) (h : TInv t) (now : Nat) : (t.liveNodes now).Nodup := by
  unfold Table.liveNodes List.Nodup
  rw [List.pairwise_flatMap]
  constructor
  · intro b hb; exact pingable_nodup b (h.handles b hb) now
  · rw [List.pairwise_iff_getElem]
    intro i j hi hj hij x hx y hy e
    subst e
    simp only [Bucket.pingable, List.mem_filter] at hx hy
    obtain ⟨_, p1⟩ := live_placed t h i hi x hx.1 now hx.2
    obtain ⟨_, p2⟩ := live_placed t h j hj x hy.1 now hy.2
    unfold Placed at p1 p2
    have e1 := p1.1 (by omega)
    by_cases hlast : j + 1 = t.buckets.length
    · have := p2.2 hlast; omega
    · have := p2.1 (by omega); omega

theorem chunk_nodup (t : Table) (h : TInv t) (now idx : Nat) : (t.chunk now idx).Nodup := by
  unfold Table.chunk
  rw [List.nodup_append]
  refine ⟨?_, ?_, ?_⟩
  · cases hb : t.sortedBuckets[idx]? with
    | none => simp
    | some b =>
      obtain ⟨hi, he, _⟩ := sorted_getElem t idx b hb
      exact pingable_nodup b (h.handles b (he ▸ List.getElem_mem hi)) now
  · unfold Table.assorted
    by_cases hfull : t.buckets.length = maxBuckets
    · simp [hfull]
    · simp only [hfull, if_false]
      rw [assorted_part_eq]
      have hpos := h.len_pos
      rw [getLast_eq t h]
      exact filter_live_nodup _ (h.handles _ (List.getElem_mem (by omega))) _
        (fun x hx => by
          simp only [Bool.and_eq_true] at hx
          exact pingable_answered x now hx.2)
  · intro a ha b hb e
    subst e
    cases hsb : t.sortedBuckets[idx]? with
    | none => simp [hsb] at ha
    | some bk =>
      simp only [hsb, Bucket.pingable, List.mem_filter] at ha
      obtain ⟨hi, he, hcase⟩ := sorted_getElem t idx bk hsb
      unfold Table.assorted at hb
      by_cases hfull : t.buckets.length = maxBuckets
      · simp [hfull] at hb
      · simp only [hfull, if_false] at hb
        rw [assorted_part_eq] at hb
        simp only [List.mem_filter, Bool.and_eq_true, decide_eq_true_eq] at hb
        have hpos := h.len_pos
        rw [getLast_eq t h] at hb
        obtain ⟨_, p2⟩ := live_placed t h (t.buckets.length - 1) (by omega) a hb.1 now hb.2.2
        unfold Placed at p2
        have := p2.2 (by omega)
        rcases hcase with hf | hlt
        · exact hfull hf
        · omega

/-- at most eight nodes are handed out per bucket index -/
theorem chunk_length (t : Table) (h : TInv t) (now idx : Nat) : (t.chunk now idx).length ≤ 8 := by
  have hpos := h.len_pos
  unfold Table.chunk
  cases hsb : t.sortedBuckets[idx]? with
  | some bk =>
    obtain ⟨hi, he, hcase⟩ := sorted_getElem t idx bk hsb
    -- no live assorted node has this (smaller) prefix length
    have hA : (t.assorted.filter (fun p => decide (p.1 = idx) && p.2.isPingable now)).map (·.2) = [] := by
      unfold Table.assorted
      by_cases hfull : t.buckets.length = maxBuckets
      · simp [hfull]
      · simp only [hfull, if_false]
        rw [assorted_part_eq, List.filter_eq_nil_iff]
        intro a ha hpa
        simp only [Bool.and_eq_true, decide_eq_true_eq] at hpa
        rw [getLast_eq t h] at ha
        obtain ⟨_, p2⟩ := live_placed t h (t.buckets.length - 1) (by omega) a ha now hpa.2
        unfold Placed at p2
        have := p2.2 (by omega)
        rcases hcase with hf | hlt
        · exact hfull hf
        · omega
    simp only [hA, List.append_nil]
    have hlen := h.slots bk (he ▸ List.getElem_mem hi)
    have := List.length_filter_le (fun m : Node => m.isPingable now) bk.nodes
    unfold Bucket.pingable
    have h8 : Constants.MAX_BUCKET_SIZE = 8 := by decide
    omega
  | none =>
    simp only [List.nil_append, List.length_map]
    unfold Table.assorted
    by_cases hfull : t.buckets.length = maxBuckets
    · simp [hfull]
    · simp only [hfull, if_false]
      refine Nat.le_trans (List.length_filter_le _ _) ?_
      rw [List.length_map, getLast_eq t h]
      have hlen := h.slots (t.buckets[t.buckets.length - 1]'(by omega)) (List.getElem_mem (by omega))
      have h8 : Constants.MAX_BUCKET_SIZE = 8 := by decide
      omega

end Btdht
