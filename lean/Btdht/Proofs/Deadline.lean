import Btdht.Proofs.Handler
/-!
C04 helpers: the deadline bookkeeping of a search. Every outstanding query of a search has a
pending timeout entry; each request round after the first is started by an answer that arrived
before its own timeout and queries at least one node never queried before; so the latest timeout
deadline of a search is bounded by its start time plus 1.5 s per round, and the end-game timer by
1.5 s more.
-/
namespace Btdht

def lookupNs : Nat := Constants.LOOKUP_TIMEOUT_ns
def endgameNs : Nat := Constants.ENDGAME_TIMEOUT_ns

/-! ### the timer as a set of entries with distinct ids -/

/-- the minimum of a fold keeps a lower bound -/
theorem earliest_min {τ} (entries : List (TimerEntry τ)) :
    ∀ (acc : Option (TimerEntry τ)) (m : TimerEntry τ),
      entries.foldl (fun acc e => match acc with
        | none => some e
        | some m => if keyLe (m.deadline, m.id) (e.deadline, e.id) then some m else some e) acc = some m →
      (∀ a, acc = some a → keyLe (m.deadline, m.id) (a.deadline, a.id) = true) ∧
      (∀ e ∈ entries, keyLe (m.deadline, m.id) (e.deadline, e.id) = true) ∧
      (m ∈ entries ∨ acc = some m) := by
  have refl : ∀ (a : Nat × Nat), keyLe a a = true := by intro a; simp [keyLe]
  have trans : ∀ (a b c : Nat × Nat), keyLe a b = true → keyLe b c = true → keyLe a c = true := by
    intro a b c h1 h2
    simp only [keyLe, Bool.or_eq_true, Bool.and_eq_true, decide_eq_true_eq] at h1 h2 ⊢
    omega
  have total : ∀ (a b : Nat × Nat), keyLe a b = false → keyLe b a = true := by
    intro a b h
    simp only [keyLe, Bool.or_eq_false_iff, Bool.and_eq_false_iff, decide_eq_false_iff_not] at h
    simp only [keyLe, Bool.or_eq_true, Bool.and_eq_true, decide_eq_true_eq]
    omega
  induction entries with
  | nil =>
    intro acc m h
    simp only [List.foldl_nil] at h
    exact ⟨fun a ha => by rw [h] at ha; cases ha; exact refl _, by simp, Or.inr h⟩
  | cons x xs ih =>
    intro acc m h
    simp only [List.foldl_cons] at h
    cases acc with
    | none =>
      obtain ⟨h1, h2, h3⟩ := ih (some x) m h
      refine ⟨by simp, ?_, ?_⟩
      · intro e he
        rcases List.mem_cons.mp he with rfl | he
        · exact h1 _ rfl
        · exact h2 e he
      · rcases h3 with h3 | h3
        · exact Or.inl (List.mem_cons_of_mem _ h3)
        · cases h3; exact Or.inl (by simp)
    | some a =>
      simp only at h
      by_cases hle : keyLe (a.deadline, a.id) (x.deadline, x.id) = true
      · simp only [hle, if_true] at h
        obtain ⟨h1, h2, h3⟩ := ih (some a) m h
        refine ⟨fun b hb => by cases hb; exact h1 _ rfl, ?_, ?_⟩
        · intro e he
          rcases List.mem_cons.mp he with rfl | he
          · exact trans _ _ _ (h1 _ rfl) hle
          · exact h2 e he
        · rcases h3 with h3 | h3
          · exact Or.inl (List.mem_cons_of_mem _ h3)
          · exact Or.inr h3
      · have hle' : keyLe (a.deadline, a.id) (x.deadline, x.id) = false := by simpa using hle
        simp only [hle', Bool.false_eq_true, if_false] at h
        obtain ⟨h1, h2, h3⟩ := ih (some x) m h
        refine ⟨fun b hb => by cases hb; exact trans _ _ _ (h1 _ rfl) (total _ _ hle'), ?_, ?_⟩
        · intro e he
          rcases List.mem_cons.mp he with rfl | he
          · exact h1 _ rfl
          · exact h2 e he
        · rcases h3 with h3 | h3
          · exact Or.inl (List.mem_cons_of_mem _ h3)
          · cases h3; exact Or.inl (by simp)



/-- ids of pending entries are pairwise distinct and below the next id -/
structure TimerOk {τ} (t : Timer τ) : Prop where
  nodup : (t.entries.map (·.id)).Nodup
  lt : ∀ e ∈ t.entries, e.id < t.nextId

/-- `t'` is `t` after some `schedule_at` calls: old entries kept, new ones have fresh ids -/
structure TimerExt {τ} (t t' : Timer τ) : Prop where
  keep : ∀ e ∈ t.entries, e ∈ t'.entries
  fresh : ∀ e ∈ t'.entries, e ∈ t.entries ∨ t.nextId ≤ e.id
  next : t.nextId ≤ t'.nextId
  ok : TimerOk t → TimerOk t'

theorem timerExt_refl {τ} (t : Timer τ) : TimerExt t t := ⟨fun _ h => h, fun _ h => Or.inl h, Nat.le_refl _, id⟩

theorem timerExt_trans {τ} {a b c : Timer τ} (h1 : TimerExt a b) (h2 : TimerExt b c) : TimerExt a c where
  keep := fun e he => h2.keep e (h1.keep e he)
  fresh := fun e he => by
    rcases h2.fresh e he with h | h
    · exact h1.fresh e h
    · exact Or.inr (Nat.le_trans h1.next h)
  next := Nat.le_trans h1.next h2.next
  ok := fun h => h2.ok (h1.ok h)

theorem timerOk_new {τ} : TimerOk (Timer.new : Timer τ) := ⟨by simp [Timer.new], by simp [Timer.new]⟩

theorem scheduleAt_ext {τ} (t : Timer τ) (d : Nat) (task : τ) : TimerExt t (t.scheduleAt d task).1 where
  keep := fun e he => by simp [Timer.scheduleAt, he]
  fresh := fun e he => by
    simp only [Timer.scheduleAt, List.mem_append, List.mem_singleton] at he
    rcases he with he | rfl
    · exact Or.inl he
    · exact Or.inr (Nat.le_refl _)
  next := by simp [Timer.scheduleAt]
  ok := fun h => by
    refine ⟨?_, ?_⟩
    · simp only [Timer.scheduleAt, List.map_append, List.map_cons, List.map_nil]
      rw [List.nodup_append]
      refine ⟨h.nodup, by simp, ?_⟩
      intro a ha b hb
      simp only [List.mem_singleton] at hb
      subst hb
      obtain ⟨e, he, rfl⟩ := List.mem_map.mp ha
      exact Nat.ne_of_lt (h.lt e he)
    · intro e he
      simp only [Timer.scheduleAt, List.mem_append, List.mem_singleton] at he ⊢
      rcases he with he | rfl
      · exact Nat.lt_succ_of_lt (h.lt e he)
      · exact Nat.lt_succ_self _

theorem scheduleAt_new_mem {τ} (t : Timer τ) (d : Nat) (task : τ) :
    (⟨d, t.nextId, task⟩ : TimerEntry τ) ∈ (t.scheduleAt d task).1.entries ∧ (t.scheduleAt d task).2 = (d, t.nextId) := by
  simp [Timer.scheduleAt]

theorem cancel_ok {τ} (t : Timer τ) (key : Nat × Nat) (h : TimerOk t) : TimerOk (t.cancel key).1 where
  nodup := by
    simp only [Timer.cancel]
    exact (List.Sublist.map _ List.filter_sublist).nodup h.nodup
  lt := fun e he => by
    simp only [Timer.cancel] at he ⊢
    exact h.lt e (List.mem_filter.mp he).1

/-- `cancel` removes the entry with the cancelled id only -/
theorem cancel_keeps {τ} (t : Timer τ) (key : Nat × Nat) (e : TimerEntry τ) (he : e ∈ t.entries) (hid : e.id ≠ key.2) :
    e ∈ (t.cancel key).1.entries := by
  simp only [Timer.cancel, List.mem_filter, he, true_and, Bool.not_eq_true', Bool.and_eq_false_iff,
    decide_eq_false_iff_not]
  exact Or.inr hid

theorem cancel_sub {τ} (t : Timer τ) (key : Nat × Nat) : ∀ e ∈ (t.cancel key).1.entries, e ∈ t.entries := by
  intro e he
  simp only [Timer.cancel] at he
  exact (List.mem_filter.mp he).1

theorem cancel_next {τ} (t : Timer τ) (key : Nat × Nat) : (t.cancel key).1.nextId = t.nextId := rfl

theorem nodup_ids_inj {τ} : ∀ (l : List (TimerEntry τ)), (l.map (·.id)).Nodup → ∀ a ∈ l, ∀ b ∈ l, a.id = b.id → a = b
  | [], _, a, ha, _, _, _ => by simp at ha
  | x :: xs, hn, a, ha, b, hb, hid => by
    simp only [List.map_cons, List.nodup_cons, List.mem_map, not_exists, not_and] at hn
    rcases List.mem_cons.mp ha with rfl | ha'
    · rcases List.mem_cons.mp hb with rfl | hb'
      · rfl
      · exact absurd hid.symm (hn.1 b hb')
    · rcases List.mem_cons.mp hb with rfl | hb'
      · exact absurd hid (hn.1 a ha')
      · exact nodup_ids_inj xs hn.2 a ha' b hb' hid

/-- two entries of a well-formed timer with the same id are the same entry -/
theorem timerOk_inj {τ} {t : Timer τ} (h : TimerOk t) {a b : TimerEntry τ} (ha : a ∈ t.entries) (hb : b ∈ t.entries)
    (hid : a.id = b.id) : a = b := nodup_ids_inj t.entries h.nodup a ha b hb hid

/-! ### request rounds -/

/-- a pending timeout entry for the outstanding query `e` of a search, due by `bound` -/
def HasTimeout (timer : Timer Task) (e : Tid × Bytes × (Nat × Nat)) (bound : Nat) : Prop :=
  ∃ te ∈ timer.entries, (te.deadline, te.id) = e.2.2 ∧ te.task = .lookupTimeout e.1 ∧ te.deadline ≤ bound

theorem hasTimeout_mono {timer : Timer Task} {e : Tid × Bytes × (Nat × Nat)} {b b' : Nat} (h : HasTimeout timer e b)
    (hb : b ≤ b') : HasTimeout timer e b' := by
  obtain ⟨te, h1, h2, h3, h4⟩ := h
  exact ⟨te, h1, h2, h3, Nat.le_trans h4 hb⟩

theorem hasTimeout_ext {t t' : Timer Task} {e : Tid × Bytes × (Nat × Nat)} {b : Nat} (h : HasTimeout t e b)
    (hx : TimerExt t t') : HasTimeout t' e b := by
  obtain ⟨te, h1, h2, h3, h4⟩ := h
  exact ⟨te, hx.keep te h1, h2, h3, h4⟩

/-- what a request round does, as far as deadlines are concerned -/
structure RoundRes (l : Lookup) (env : LEnv) (l' : Lookup) (env' : LEnv) : Prop where
  ext : TimerExt env.timer env'.timer
  now : env'.now = env.now
  aid : l'.aid = l.aid
  eg : l'.inEndgame = l.inEndgame
  reqLen : l.requested.length ≤ l'.requested.length
  act : ∀ e ∈ l'.active, e ∈ l.active ∨
    (e.1.aid = l.aid ∧ HasTimeout env'.timer e (env.now + lookupNs))

structure StepAcc (l : Lookup) (env : LEnv) (acc : RoundAcc) : Prop where
  res : RoundRes l env acc.l acc.env
  zero : acc.sent = 0 → acc.l.requested = l.requested
  pos : 0 < acc.sent → l.requested.length + 1 ≤ acc.l.requested.length

theorem requestStep_acc (l : Lookup) (env : LEnv) (acc : RoundAcc) (hd : Handle × Bytes) (h : StepAcc l env acc)
    (hnew : hd.1 ∉ l.requested) : StepAcc l env (requestStep acc hd) := by
  obtain ⟨res, hz, hp⟩ := h
  have hx := scheduleAt_ext acc.env.timer (acc.env.now + Constants.LOOKUP_TIMEOUT_ns) (.lookupTimeout ⟨acc.l.aid, acc.l.nextSeq⟩)
  have hm := scheduleAt_new_mem acc.env.timer (acc.env.now + Constants.LOOKUP_TIMEOUT_ns) (.lookupTimeout ⟨acc.l.aid, acc.l.nextSeq⟩)
  have hact : ∀ (tm : Timer Task), tm = (acc.env.timer.scheduleAt (acc.env.now + Constants.LOOKUP_TIMEOUT_ns)
        (.lookupTimeout ⟨acc.l.aid, acc.l.nextSeq⟩)).1 →
      ∀ e ∈ (acc.l.active.filter (·.1 ≠ (⟨acc.l.aid, acc.l.nextSeq⟩ : Tid))) ++
        [((⟨acc.l.aid, acc.l.nextSeq⟩ : Tid), hd.2, (acc.env.timer.scheduleAt (acc.env.now + Constants.LOOKUP_TIMEOUT_ns)
          (.lookupTimeout ⟨acc.l.aid, acc.l.nextSeq⟩)).2)],
      e ∈ l.active ∨ (e.1.aid = l.aid ∧ HasTimeout tm e (env.now + lookupNs)) := by
    intro tm htm e he
    rcases List.mem_append.mp he with he | he
    · rcases res.act e (List.mem_filter.mp he).1 with h1 | ⟨h1, h2⟩
      · exact Or.inl h1
      · exact Or.inr ⟨h1, hasTimeout_ext h2 (htm ▸ hx)⟩
    · simp only [List.mem_singleton] at he
      subst he
      refine Or.inr ⟨res.aid, ⟨_, htm ▸ hm.1, ?_, rfl, ?_⟩⟩
      · simp only; rw [hm.2]
      · simp only [lookupNs]; rw [res.now]; exact Nat.le_refl _
  unfold requestStep
  simp only
  split
  · -- the send failed
    refine ⟨⟨timerExt_trans res.ext hx, res.now, res.aid, res.eg, res.reqLen, hact _ rfl⟩, hz, hp⟩
  · -- the query went out
    refine ⟨⟨timerExt_trans res.ext hx, res.now, res.aid, res.eg, ?_, hact _ rfl⟩, fun h0 => by simp at h0, fun _ => ?_⟩
    · simp only
      split
      · exact res.reqLen
      · simp only [List.length_append, List.length_singleton]; exact Nat.le_succ_of_le res.reqLen
    · simp only
      by_cases h0 : acc.sent = 0
      · have hr := hz h0
        rw [hr, if_neg (by simpa using hnew)]
        simp
      · have := hp (Nat.pos_of_ne_zero h0)
        split
        · exact this
        · simp only [List.length_append, List.length_singleton]; omega

/-- **a request round**: the queries that went out got a timeout entry 1.5 s from now; either none
went out (then nothing is outstanding any more) or a node never queried before was queried -/
theorem requestRound_res (l : Lookup) (env : LEnv) (nodes : List (Handle × Bytes)) (hnew : ∀ hd ∈ nodes, hd.1 ∉ l.requested) :
    RoundRes l env (l.requestRound env nodes).1 (l.requestRound env nodes).2.1 ∧
    ((l.requestRound env nodes).1.active = [] ∨ l.requested.length + 1 ≤ (l.requestRound env nodes).1.requested.length) := by
  have key : ∀ (ns : List (Handle × Bytes)) (acc : RoundAcc), (∀ hd ∈ ns, hd.1 ∉ l.requested) → StepAcc l env acc →
      StepAcc l env (ns.foldl requestStep acc) := by
    intro ns
    induction ns with
    | nil => intro acc _ h; exact h
    | cons hd rest ih =>
      intro acc hn h
      exact ih _ (fun x hx => hn x (List.mem_cons_of_mem _ hx)) (requestStep_acc l env acc hd h (hn hd List.mem_cons_self))
  have h0 : StepAcc l env { l := l, env := env, effs := [], sent := 0 } :=
    ⟨⟨timerExt_refl _, rfl, rfl, rfl, Nat.le_refl _, fun e he => Or.inl he⟩, fun _ => rfl, fun h => by simp at h⟩
  have hf := key nodes _ hnew h0
  unfold Lookup.requestRound
  simp only
  split
  · rename_i hs
    refine ⟨⟨hf.res.ext, hf.res.now, hf.res.aid, hf.res.eg, hf.res.reqLen, fun e he => by simp at he⟩, Or.inl rfl⟩
  · rename_i hs
    exact ⟨hf.res, Or.inr (hf.pos (Nat.pos_of_ne_zero hs))⟩

/-! ### the end-game round -/

structure EgAcc (l : Lookup) (tm : Timer Task) (acc : EndAcc) : Prop where
  timer : acc.env.timer = tm
  aid : acc.l.aid = l.aid
  req : acc.l.requested = l.requested
  eg : acc.l.inEndgame = true
  act : ∀ e ∈ acc.l.active, e ∈ l.active ∨ e.1.aid = l.aid

theorem endgameStep_acc (l : Lookup) (tm : Timer Task) (key : Nat × Nat) (acc : EndAcc) (e : Bytes × Handle × Bool)
    (h : EgAcc l tm acc) : EgAcc l tm (endgameStep key acc e) := by
  unfold endgameStep
  split
  · exact ⟨h.timer, h.aid, h.req, h.eg, h.act⟩
  · have hact : ∀ x ∈ (acc.l.active.filter (·.1 ≠ (⟨acc.l.aid, acc.l.nextSeq⟩ : Tid))) ++ [((⟨acc.l.aid, acc.l.nextSeq⟩ : Tid), e.1, key)],
        x ∈ l.active ∨ x.1.aid = l.aid := by
      intro x hx
      rcases List.mem_append.mp hx with hx | hx
      · exact h.act x (List.mem_filter.mp hx).1
      · simp only [List.mem_singleton] at hx; subst hx; exact Or.inr h.aid
    simp only
    split
    · exact ⟨h.timer, h.aid, h.req, h.eg, hact⟩
    · exact ⟨h.timer, h.aid, h.req, h.eg, hact⟩

/-- **the end-game round** schedules exactly one timer entry, 1.5 s from now, and queries the
candidates not yet queried under that entry's key -/
theorem endgameRound_res (l : Lookup) (env : LEnv) :
    (l.endgameRound env).1.inEndgame = true ∧ (l.endgameRound env).1.aid = l.aid ∧
    (l.endgameRound env).1.requested = l.requested ∧
    (l.endgameRound env).2.1.timer = (env.timer.scheduleAt (env.now + Constants.ENDGAME_TIMEOUT_ns) (.lookupEndGame ⟨l.aid, l.nextSeq⟩)).1 ∧
    (∀ e ∈ (l.endgameRound env).1.active, e ∈ l.active ∨ e.1.aid = l.aid) := by
  unfold Lookup.endgameRound
  simp only
  have key := foldl_pred
    (EgAcc l (env.timer.scheduleAt (env.now + Constants.ENDGAME_TIMEOUT_ns) (.lookupEndGame ⟨l.aid, l.nextSeq⟩)).1)
    (endgameStep (env.timer.scheduleAt (env.now + Constants.ENDGAME_TIMEOUT_ns) (.lookupEndGame ⟨l.aid, l.nextSeq⟩)).2)
    (fun b a hb => endgameStep_acc l _ _ b a hb) l.sorted
    { l := { l with inEndgame := true, nextSeq := l.nextSeq + 1 },
      env := { env with timer := (env.timer.scheduleAt (env.now + Constants.ENDGAME_TIMEOUT_ns)
        (.lookupEndGame ⟨l.aid, l.nextSeq⟩)).1 }, effs := [], out := [] }
    ⟨rfl, rfl, rfl, rfl, fun e he => Or.inl he⟩
  exact ⟨key.eg, key.aid, key.req, key.timer, key.act⟩

/-! ### the deadline invariant of one search -/

/-- latest timeout deadline after `k` request rounds that followed the first one -/
def roundBound (T0 J k : Nat) : Nat := T0 + (lookupNs + J) * (1 + k)

theorem roundBound_mono (T0 J : Nat) {k k' : Nat} (h : k ≤ k') : roundBound T0 J k ≤ roundBound T0 J k' := by
  unfold roundBound
  exact Nat.add_le_add_left (Nat.mul_le_mul_left _ (by omega)) _

theorem roundBound_succ (T0 J k : Nat) : roundBound T0 J (k + 1) = roundBound T0 J k + lookupNs + J := by
  unfold roundBound
  rw [show 1 + (k + 1) = (1 + k) + 1 by omega, Nat.mul_succ]
  omega

/-- a pending end-game entry of the search with action id `aid`, due by `bound` -/
def HasEndgame (timer : Timer Task) (aid bound : Nat) : Prop :=
  ∃ te ∈ timer.entries, ∃ q, te.task = .lookupEndGame ⟨aid, q⟩ ∧ te.deadline ≤ bound

/-- the invariant of a stored search started at `T0` with `ic` nodes queried in its first round,
timers firing at most `J` late: outside the end-game something is outstanding and every outstanding
query has a pending timeout entry due by `T0 + (1.5 s + J)·(1 + rounds)`, where the number of
further rounds is at most the number of nodes queried after the first round; in the end-game the
end-game entry is pending and due 1.5 s (+ J) after that -/
structure LInv (J T0 ic : Nat) (timer : Timer Task) (l : Lookup) : Prop where
  ic_le : ic ≤ l.requested.length
  tids : ∀ e ∈ l.active, e.1.aid = l.aid
  reg : l.inEndgame = false → l.active ≠ [] ∧
    ∀ e ∈ l.active, HasTimeout timer e (roundBound T0 J (l.requested.length - ic))
  eg : l.inEndgame = true → HasEndgame timer l.aid (roundBound T0 J (l.requested.length - ic) + J + endgameNs)

/-- after the bookkeeping of an accepted answer: continue the search (a further round and/or the
end-game) -/
theorem continueSearch_dl (J T0 ic : Nat) (l : Lookup) (env : LEnv) (it : Option (List (Handle × Bool))) (nd : Bytes)
    (hne : l.inEndgame = false) (hic : ic ≤ l.requested.length) (htid : ∀ e ∈ l.active, e.1.aid = l.aid)
    (hpicks : ∀ picks, it = some picks → ∀ p ∈ picks, p.2 = true → p.1 ∉ l.requested)
    (hold : ∀ e ∈ l.active, HasTimeout env.timer e (roundBound T0 J (l.requested.length - ic)))
    (hnow : env.now ≤ roundBound T0 J (l.requested.length - ic) + J) :
    TimerExt env.timer (l.continueSearch env it nd).2.1.timer ∧
    LInv J T0 ic (l.continueSearch env it nd).2.1.timer (l.continueSearch env it nd).1 ∧
    (l.continueSearch env it nd).1.aid = l.aid := by
  -- the iterative round
  have h1 : RoundRes l env (l.iterRound env it nd).1 (l.iterRound env it nd).2.1 ∧
      ((l.iterRound env it nd).1.active = [] ∨ (l.iterRound env it nd).1.active = l.active ∧ (l.iterRound env it nd).1.requested = l.requested ∨
        l.requested.length + 1 ≤ (l.iterRound env it nd).1.requested.length) := by
    unfold Lookup.iterRound
    cases it with
    | none => exact ⟨⟨timerExt_refl _, rfl, rfl, rfl, Nat.le_refl _, fun e he => Or.inl he⟩, Or.inr (Or.inl ⟨rfl, rfl⟩)⟩
    | some picks =>
      simp only
      have := requestRound_res l env ((picks.filter (fun (p : Handle × Bool) => p.2)).map fun (p : Handle × Bool) => (p.1, nd))
        (by
          intro hd hhd
          obtain ⟨p, hp, rfl⟩ := List.mem_map.mp hhd
          obtain ⟨hp1, hp2⟩ := List.mem_filter.mp hp
          exact hpicks picks rfl p hp1 hp2)
      exact ⟨this.1, this.2.elim Or.inl (fun h => Or.inr (Or.inr h))⟩
  unfold Lookup.continueSearch
  rw [if_pos (by simp [hne])]
  simp only
  generalize l.iterRound env it nd = r1 at h1
  obtain ⟨res, hcase⟩ := h1
  have hk : l.requested.length - ic ≤ r1.1.requested.length - ic := by have := res.reqLen; omega
  have hic1 : ic ≤ r1.1.requested.length := Nat.le_trans hic res.reqLen
  have hnow1 : r1.2.1.now ≤ roundBound T0 J (r1.1.requested.length - ic) + J := by
    rw [res.now]; exact Nat.le_trans hnow (Nat.add_le_add_right (roundBound_mono T0 J hk) _)
  by_cases hemp : r1.1.active.isEmpty = true
  · -- nothing outstanding: the end-game starts now
    rw [if_pos hemp]
    obtain ⟨e1, e2, e3, e4, e5⟩ := endgameRound_res r1.1 r1.2.1
    have hx := scheduleAt_ext r1.2.1.timer (r1.2.1.now + Constants.ENDGAME_TIMEOUT_ns) (.lookupEndGame ⟨r1.1.aid, r1.1.nextSeq⟩)
    have hm := scheduleAt_new_mem r1.2.1.timer (r1.2.1.now + Constants.ENDGAME_TIMEOUT_ns) (.lookupEndGame ⟨r1.1.aid, r1.1.nextSeq⟩)
    refine ⟨by rw [e4]; exact timerExt_trans res.ext hx, ⟨by rw [e3]; exact hic1, ?_, (fun hc => by rw [e1] at hc; cases hc), fun _ => ?_⟩,
      e2.trans res.aid⟩
    · intro e he
      rw [e2]
      rcases e5 e he with h | h
      · have : r1.1.active = [] := by simpa using hemp
        rw [this] at h; simp at h
      · exact h
    · rw [e4, e3, e2]
      refine ⟨_, hm.1, r1.1.nextSeq, rfl, ?_⟩
      simp only [endgameNs]
      omega
  · -- something is outstanding
    rw [if_neg hemp]
    have hne1 : r1.1.active ≠ [] := by simpa using hemp
    refine ⟨res.ext, ⟨hic1, ?_, fun _ => ⟨hne1, ?_⟩, (fun hc => by rw [res.eg, hne] at hc; cases hc)⟩, res.aid⟩
    · intro e he
      rw [res.aid]
      rcases res.act e he with h | ⟨h, _⟩
      · exact htid e h
      · exact h
    · intro e he
      rcases res.act e he with h | ⟨_, h⟩
      · exact hasTimeout_mono (hasTimeout_ext (hold e h) res.ext) (roundBound_mono T0 J hk)
      · -- a query of this round: a node never queried before was queried, one more round is accounted for
        rcases hcase with hc | ⟨hc, _⟩ | hc
        · exact absurd hc hne1
        · -- no round took place: the entry is an old one
          rw [hc] at he
          exact hasTimeout_mono (hasTimeout_ext (hold e he) res.ext) (roundBound_mono T0 J hk)
        · refine hasTimeout_mono h ?_
          have : (l.requested.length - ic) + 1 ≤ r1.1.requested.length - ic := by omega
          have hb := roundBound_mono T0 J this
          rw [roundBound_succ] at hb
          omega

/-! ### the picks of an iterative round were never queried before -/

theorem insertClosest_used (S : List Handle) (target : Bytes) (h : Handle) (hh : h ∈ S) :
    ∀ (picks : List (Handle × Bool)), (∀ p ∈ picks, p.2 = true → p.1 ∈ S) →
      ∀ p ∈ insertClosest.go target h (xorBytes target h.id) picks, p.2 = true → p.1 ∈ S
  | [], _, p, hp, _ => by simp [insertClosest.go] at hp
  | (old, used) :: rest, hP, p, hp, hu => by
    unfold insertClosest.go at hp
    split at hp
    · rcases List.mem_cons.mp hp with rfl | hp
      · exact hh
      · exact hP p (List.mem_cons_of_mem _ hp) hu
    · split at hp
      · rcases List.mem_cons.mp hp with rfl | hp
        · exact hh
        · exact hP p (List.mem_cons_of_mem _ hp) hu
      · rcases List.mem_cons.mp hp with rfl | hp
        · exact hP _ List.mem_cons_self hu
        · exact insertClosest_used S target h hh rest (fun q hq => hP q (List.mem_cons_of_mem _ hq)) p hp hu

theorem pickIterate_used (nodes : List Handle) (target : Bytes) :
    ∀ p ∈ pickIterate nodes target, p.2 = true → p.1 ∈ nodes := by
  unfold pickIterate
  have key : ∀ (ns : List Handle) (acc : List (Handle × Bool)), (∀ x ∈ ns, x ∈ nodes) →
      (∀ p ∈ acc, p.2 = true → p.1 ∈ nodes) →
      ∀ p ∈ ns.foldl (fun acc h => insertClosest acc target h) acc, p.2 = true → p.1 ∈ nodes := by
    intro ns
    induction ns with
    | nil => intro acc _ h; exact h
    | cons x xs ih =>
      intro acc hsub hacc
      simp only [List.foldl_cons]
      refine ih _ (fun y hy => hsub y (List.mem_cons_of_mem _ hy)) ?_
      unfold insertClosest
      exact insertClosest_used nodes target x (hsub x List.mem_cons_self) acc hacc
  exact key nodes _ (fun x hx => hx) (by
    intro p hp hu
    simp only [List.mem_replicate] at hp
    rw [hp.2] at hu
    cases hu)

theorem absorbNodes_dl (l : Lookup) (nodes : List Handle) (d : Bytes) :
    (l.absorbNodes nodes d).1.requested = l.requested ∧ (l.absorbNodes nodes d).1.active = l.active ∧
    (l.absorbNodes nodes d).1.inEndgame = l.inEndgame ∧ (l.absorbNodes nodes d).1.aid = l.aid ∧
    ∀ picks, (l.absorbNodes nodes d).2.1 = some picks → ∀ p ∈ picks, p.2 = true → p.1 ∉ l.requested := by
  unfold Lookup.absorbNodes
  split
  · exact ⟨rfl, rfl, rfl, rfl, fun picks h => by cases h⟩
  · simp only
    split
    · refine ⟨rfl, rfl, rfl, rfl, fun picks h p hp hu => ?_⟩
      simp only [Option.some.injEq] at h
      subst h
      have := pickIterate_used _ l.target p hp hu
      have := (List.mem_filter.mp this).2
      simpa using this
    · exact ⟨rfl, rfl, rfl, rfl, fun picks h => by cases h⟩

theorem recordToken_dl (l : Lookup) (fr : Handle) (tok : Option Bytes) :
    (l.recordToken fr tok).requested = l.requested ∧ (l.recordToken fr tok).active = l.active ∧
    (l.recordToken fr tok).inEndgame = l.inEndgame ∧ (l.recordToken fr tok).aid = l.aid := by
  unfold Lookup.recordToken
  cases tok with
  | none => exact ⟨rfl, rfl, rfl, rfl⟩
  | some t => simp only; split <;> exact ⟨rfl, rfl, rfl, rfl⟩

theorem find_some_mem {α} (p : α → Bool) (l : List α) (a : α) (h : l.find? p = some a) : a ∈ l ∧ p a = true :=
  ⟨List.mem_of_find?_eq_some h, List.find?_some h⟩

/-- the timer after an accepted answer: the answered query's timeout is cancelled (outside the
end-game), then entries are scheduled -/
def afterAnswer (timer : Timer Task) (eg : Bool) (key : Nat × Nat) : Timer Task :=
  if eg then timer else (timer.cancel key).1

/-- **an accepted answer keeps the deadline invariant** (timers at most `J` late: the answered
query's own timeout entry is still pending, so `now` is at most `J` past its deadline) -/
theorem recvResponse_dl (J T0 ic : Nat) (l : Lookup) (env : LEnv) (fr : Handle) (tid : Tid) (rsp : Resp)
    (entry : Tid × Bytes × (Nat × Nat)) (hfind : l.active.find? (·.1 = tid) = some entry)
    (hinv : LInv J T0 ic env.timer l) (hok : TimerOk env.timer)
    (hpunct : ∀ te ∈ env.timer.entries, env.now ≤ te.deadline + J) :
    TimerExt (afterAnswer env.timer l.inEndgame entry.2.2) (l.recvResponse env fr tid rsp).2.1.timer ∧
    LInv J T0 ic (l.recvResponse env fr tid rsp).2.1.timer (l.recvResponse env fr tid rsp).1 ∧
    (l.recvResponse env fr tid rsp).1.aid = l.aid := by
  obtain ⟨hmem, htid⟩ := find_some_mem _ _ _ hfind
  have htid' : entry.1 = tid := by simpa using htid
  unfold Lookup.recvResponse
  simp only [hfind]
  -- the three bookkeeping steps leave requested / active / inEndgame / aid alone
  have rt := recordToken_dl { l with active := l.active.filter (·.1 ≠ tid) } fr rsp.token
  have ab := absorbNodes_dl (({ l with active := l.active.filter (·.1 ≠ tid) } : Lookup).recordToken fr rsp.token)
    (if (({ l with active := l.active.filter (·.1 ≠ tid) } : Lookup).recordToken fr rsp.token).v6 then rsp.nodes6 else rsp.nodes4) entry.2.1
  generalize hL : ((({ l with active := l.active.filter (·.1 ≠ tid) } : Lookup).recordToken fr rsp.token).absorbNodes
    (if (({ l with active := l.active.filter (·.1 ≠ tid) } : Lookup).recordToken fr rsp.token).v6 then rsp.nodes6 else rsp.nodes4) entry.2.1) = A at ab
  obtain ⟨a1, a2, a3, a4, a5⟩ := ab
  have hreq : A.1.requested = l.requested := a1.trans rt.1
  have hact : A.1.active = l.active.filter (·.1 ≠ tid) := a2.trans rt.2.1
  have heg : A.1.inEndgame = l.inEndgame := a3.trans rt.2.2.1
  have haid : A.1.aid = l.aid := a4.trans rt.2.2.2
  cases hE : l.inEndgame with
  | true =>
    -- in the end-game an answer only removes the query; the end-game entry stays pending
    have : A.1.continueSearch env A.2.1 A.2.2 = (A.1, env, []) := by
      unfold Lookup.continueSearch
      rw [if_neg (by simp [heg, hE])]
    simp only [hE, Bool.not_true, Bool.false_eq_true, if_false, afterAnswer, if_true]
    rw [this]
    refine ⟨timerExt_refl _, ⟨by rw [hreq]; exact hinv.ic_le, ?_, (fun hc => by rw [heg, hE] at hc; cases hc), fun _ => ?_⟩, haid⟩
    · intro e he
      rw [hact] at he
      rw [haid]
      exact hinv.tids e (List.mem_filter.mp he).1
    · rw [hreq, haid]; exact hinv.eg hE
  | false =>
    simp only [hE, Bool.not_false, if_true, afterAnswer, Bool.false_eq_true, if_false]
    obtain ⟨_, hreg⟩ := hinv.reg hE
    -- the answered query's timeout entry
    obtain ⟨te, hte1, hte2, hte3, hte4⟩ := hreg entry hmem
    have hnow : env.now ≤ roundBound T0 J (l.requested.length - ic) + J :=
      Nat.le_trans (hpunct te hte1) (Nat.add_le_add_right hte4 _)
    have hold : ∀ e ∈ A.1.active, HasTimeout (env.timer.cancel entry.2.2).1 e (roundBound T0 J (A.1.requested.length - ic)) := by
      intro e he
      rw [hact] at he
      obtain ⟨he1, he2⟩ := List.mem_filter.mp he
      obtain ⟨te', h1, h2, h3, h4⟩ := hreg e he1
      refine ⟨te', cancel_keeps _ _ te' h1 ?_, h2, h3, by rw [hreq]; exact h4⟩
      -- another query's entry has another id
      intro hid
      have hsame : te'.id = te.id := by
        rw [hid]
        have := congrArg Prod.snd hte2
        simpa using this.symm
      have := timerOk_inj hok h1 hte1 hsame
      rw [this, hte3, htid'] at h3
      simp only [Task.lookupTimeout.injEq] at h3
      exact (by simpa using he2 : ¬ e.1 = tid) h3.symm
    have := continueSearch_dl J T0 ic A.1 { env with timer := (env.timer.cancel entry.2.2).1 } A.2.1 A.2.2
      (heg.trans hE) (by rw [hreq]; exact hinv.ic_le)
      (fun e he => by rw [haid]; rw [hact] at he; exact hinv.tids e (List.mem_filter.mp he).1)
      (fun picks hp p hpm hu => by rw [hreq]; have := a5 picks hp p hpm hu; rw [rt.1] at this; exact this)
      hold (by rw [hreq]; exact hnow)
    exact ⟨this.1, this.2.1, this.2.2.trans haid⟩

/-- **a query timeout keeps the deadline invariant**: the timed-out query is no longer
outstanding; if it was the last one the end-game starts now, at most `J` after that deadline -/
theorem recvTimeout_dl (J T0 ic : Nat) (l : Lookup) (env : LEnv) (tid : Tid)
    (hic : ic ≤ l.requested.length) (htids : ∀ e ∈ l.active, e.1.aid = l.aid)
    (hne : l.inEndgame = false → l.active ≠ [])
    (hreg : l.inEndgame = false → ∀ e ∈ l.active, e.1 ≠ tid →
      HasTimeout env.timer e (roundBound T0 J (l.requested.length - ic)))
    (heg : l.inEndgame = true → HasEndgame env.timer l.aid (roundBound T0 J (l.requested.length - ic) + J + endgameNs))
    (hnow : l.inEndgame = false → env.now ≤ roundBound T0 J (l.requested.length - ic) + J) :
    TimerExt env.timer (l.recvTimeout env tid).2.1.timer ∧
    LInv J T0 ic (l.recvTimeout env tid).2.1.timer (l.recvTimeout env tid).1 ∧
    (l.recvTimeout env tid).1.aid = l.aid := by
  unfold Lookup.recvTimeout
  cases hf : l.active.find? (·.1 = tid) with
  | none =>
    simp only
    have hnot : ∀ e ∈ l.active, e.1 ≠ tid := by
      intro e he hc
      have := List.find?_eq_none.mp hf e he
      simp [hc] at this
    exact ⟨timerExt_refl _, ⟨hic, htids, fun h => ⟨hne h, fun e he => hreg h e he (hnot e he)⟩, heg⟩, trivial⟩
  | some entry =>
    simp only
    split
    · -- the last outstanding query timed out: the end-game starts
      rename_i hc
      simp only [Bool.and_eq_true, Bool.not_eq_true', List.isEmpty_iff] at hc
      obtain ⟨e1, e2, e3, e4, e5⟩ := endgameRound_res { l with active := l.active.filter (·.1 ≠ tid) } env
      have hx := scheduleAt_ext env.timer (env.now + Constants.ENDGAME_TIMEOUT_ns) (.lookupEndGame ⟨l.aid, l.nextSeq⟩)
      have hm := scheduleAt_new_mem env.timer (env.now + Constants.ENDGAME_TIMEOUT_ns) (.lookupEndGame ⟨l.aid, l.nextSeq⟩)
      refine ⟨by rw [e4]; exact hx, ⟨by rw [e3]; exact hic, ?_, (fun h => by rw [e1] at h; cases h), fun _ => ?_⟩, e2⟩
      · intro e he
        rw [e2]
        rcases e5 e he with h | h
        · simp only [hc.2] at h; simp at h
        · exact h
      · rw [e4, e3, e2]
        refine ⟨_, hm.1, l.nextSeq, rfl, ?_⟩
        have := hnow hc.1
        simp only [endgameNs]
        omega
    · rename_i hc
      refine ⟨timerExt_refl _, ⟨hic, fun e he => htids e (List.mem_filter.mp he).1, fun h => ⟨?_, fun e he => ?_⟩, heg⟩, rfl⟩
      · intro hemp
        apply hc
        simp only [Bool.and_eq_true, Bool.not_eq_true', List.isEmpty_iff]
        exact ⟨h, hemp⟩
      · obtain ⟨he1, he2⟩ := List.mem_filter.mp he
        exact hreg h e he1 (by simpa using he2)

/-- the first round of a search -/
theorem firstRound_dl (J : Nat) (l0 : Lookup) (env : LEnv) (nodes : List (Handle × Bytes))
    (hreq0 : l0.requested = []) (hact0 : l0.active = []) (heg0 : l0.inEndgame = false) :
    TimerExt env.timer (l0.requestRound env nodes).2.1.timer ∧ (l0.requestRound env nodes).1.aid = l0.aid ∧
    ((l0.requestRound env nodes).1.completedNow = false →
      LInv J env.now (l0.requestRound env nodes).1.requested.length (l0.requestRound env nodes).2.1.timer
        (l0.requestRound env nodes).1) := by
  obtain ⟨res, _⟩ := requestRound_res l0 env nodes (fun hd _ => by rw [hreq0]; simp)
  refine ⟨res.ext, res.aid, fun hcomp => ⟨Nat.le_refl _, ?_, fun _ => ⟨?_, ?_⟩, (fun h => by rw [res.eg, heg0] at h; cases h)⟩⟩
  · intro e he
    rw [res.aid]
    rcases res.act e he with h | ⟨h, _⟩
    · rw [hact0] at h; simp at h
    · exact h
  · intro hemp
    simp [Lookup.completedNow, hemp, res.eg, heg0] at hcomp
  · intro e he
    rcases res.act e he with h | ⟨_, h⟩
    · rw [hact0] at h; simp at h
    · refine hasTimeout_mono h ?_
      simp only [Nat.sub_self, roundBound]
      omega

/-- **a new search**: if it could query somebody, every query has a timeout entry 1.5 s from now -/
theorem new_dl (J : Nat) (aid stream : Nat) (selfId : Bytes) (v6 : Bool) (target : Bytes) (announce : Bool) (env : LEnv) :
    TimerExt env.timer (Lookup.new aid stream selfId v6 target announce env).2.1.timer ∧
    (Lookup.new aid stream selfId v6 target announce env).1.aid = aid ∧
    ((Lookup.new aid stream selfId v6 target announce env).1.completedNow = false →
      LInv J env.now (Lookup.new aid stream selfId v6 target announce env).1.requested.length
        (Lookup.new aid stream selfId v6 target announce env).2.1.timer (Lookup.new aid stream selfId v6 target announce env).1) := by
  unfold Lookup.new
  simp only
  exact firstRound_dl J _ env _ rfl rfl rfl

/-! ### other searches' timer entries survive a cancel / a pop -/

theorem pop_spec {τ} (t t' : Timer τ) (m : TimerEntry τ) (h : t.pop = some (t', m)) :
    m ∈ t.entries ∧ t'.nextId = t.nextId ∧ (∀ e ∈ t'.entries, e ∈ t.entries) ∧
    (∀ e ∈ t.entries, e.id ≠ m.id → e ∈ t'.entries) ∧
    (∀ e ∈ t.entries, keyLe (m.deadline, m.id) (e.deadline, e.id) = true) := by
  unfold Timer.pop at h
  cases he : t.earliest with
  | none => simp [he] at h
  | some m' =>
    simp only [he, Option.some.injEq, Prod.mk.injEq] at h
    obtain ⟨rfl, rfl⟩ := h
    unfold Timer.earliest at he
    obtain ⟨_, em2, em3⟩ := earliest_min t.entries none m' he
    have hmem : m' ∈ t.entries := by
      rcases em3 with h | h
      · exact h
      · cases h
    refine ⟨hmem, rfl, fun e h => (List.mem_filter.mp h).1, fun e h hid => ?_, em2⟩
    simp only [List.mem_filter, h, true_and, Bool.not_eq_true', Bool.and_eq_false_iff, decide_eq_false_iff_not]
    exact Or.inr hid

theorem pop_ok {τ} (t t' : Timer τ) (m : TimerEntry τ) (h : t.pop = some (t', m)) (hok : TimerOk t) : TimerOk t' := by
  obtain ⟨_, h2, h3, _, _⟩ := pop_spec t t' m h
  refine ⟨?_, fun e he => by rw [h2]; exact hok.lt e (h3 e he)⟩
  unfold Timer.pop at h
  cases he : t.earliest with
  | none => simp [he] at h
  | some m' =>
    simp only [he, Option.some.injEq, Prod.mk.injEq] at h
    obtain ⟨rfl, _⟩ := h
    exact (List.Sublist.map _ List.filter_sublist).nodup hok.nodup

/-- a search's invariant is kept when the timer loses an entry that is not one of its own and
gains scheduled ones -/
theorem linv_frame (J T0 ic : Nat) (t tmid t' : Timer Task) (m : Lookup) (h : LInv J T0 ic t m) (hok : TimerOk t)
    (gone : TimerEntry Task) (hgone : gone ∈ t.entries)
    (hmid : ∀ e ∈ t.entries, e.id ≠ gone.id → e ∈ tmid.entries) (hx : TimerExt tmid t')
    (hnot1 : ∀ q, gone.task = .lookupTimeout q → q.aid ≠ m.aid)
    (hnot2 : ∀ q, gone.task = .lookupEndGame q → q.aid ≠ m.aid) : LInv J T0 ic t' m := by
  refine ⟨h.ic_le, h.tids, fun hr => ⟨(h.reg hr).1, fun e he => ?_⟩, fun he => ?_⟩
  · obtain ⟨te, h1, h2, h3, h4⟩ := (h.reg hr).2 e he
    refine ⟨te, hx.keep te (hmid te h1 ?_), h2, h3, h4⟩
    intro hid
    have := timerOk_inj hok h1 hgone hid
    rw [this] at h3
    exact hnot1 e.1 h3 (h.tids e he)
  · obtain ⟨te, h1, q, h2, h3⟩ := h.eg he
    refine ⟨te, hx.keep te (hmid te h1 ?_), q, h2, h3⟩
    intro hid
    have := timerOk_inj hok h1 hgone hid
    rw [this] at h2
    exact hnot2 _ h2 rfl

theorem linv_ext (J T0 ic : Nat) (t t' : Timer Task) (m : Lookup) (h : LInv J T0 ic t m) (hx : TimerExt t t') :
    LInv J T0 ic t' m :=
  ⟨h.ic_le, h.tids, fun hr => ⟨(h.reg hr).1, fun e he => hasTimeout_ext ((h.reg hr).2 e he) hx⟩,
   fun he => by obtain ⟨te, h1, q, h2, h3⟩ := h.eg he; exact ⟨te, hx.keep te h1, q, h2, h3⟩⟩

/-- the other searches keep their invariant when this one takes an answer (the cancelled entry is
this search's) -/
theorem recvResponse_others (J T0 ic : Nat) (l : Lookup) (timer t' : Timer Task) (tid : Tid)
    (entry : Tid × Bytes × (Nat × Nat)) (hfind : l.active.find? (·.1 = tid) = some entry)
    (hinv : LInv J T0 ic timer l) (hok : TimerOk timer)
    (hx : TimerExt (afterAnswer timer l.inEndgame entry.2.2) t') :
    TimerOk t' ∧ ∀ (T0' ic' : Nat) (m : Lookup), LInv J T0' ic' timer m → m.aid ≠ l.aid → LInv J T0' ic' t' m := by
  obtain ⟨hmem, _⟩ := find_some_mem _ _ _ hfind
  cases hE : l.inEndgame with
  | true =>
    simp only [hE, afterAnswer, if_true] at hx
    exact ⟨hx.ok hok, fun T0' ic' m hm _ => linv_ext J T0' ic' _ _ m hm hx⟩
  | false =>
    simp only [hE, afterAnswer, Bool.false_eq_true, if_false] at hx
    obtain ⟨te, hte1, hte2, hte3, _⟩ := (hinv.reg hE).2 entry hmem
    refine ⟨hx.ok (cancel_ok _ _ hok), fun T0' ic' m hm hne => ?_⟩
    refine linv_frame J T0' ic' timer _ t' m hm hok te hte1 (fun e he hid => cancel_keeps _ _ e he ?_) hx ?_ ?_
    · intro hc
      apply hid
      rw [hc]
      have := congrArg Prod.snd hte2
      simpa using this.symm
    · intro q hq
      rw [hte3] at hq
      simp only [Task.lookupTimeout.injEq] at hq
      rw [← hq, hinv.tids entry hmem]
      exact fun h => hne h.symm
    · intro q hq
      rw [hte3] at hq
      cases hq

/-! ### the handler: all searches at once -/

theorem handleRequest_frame (s : HState) (tid : InTid) (r : Req) (src : Addr) (now : Nat) :
    (s.handleRequest tid r src now).1.timer = s.timer ∧ (s.handleRequest tid r src now).1.lookups = s.lookups ∧
    (s.handleRequest tid r src now).1.nextAid = s.nextAid := by
  unfold HState.handleRequest
  split
  · exact ⟨rfl, rfl, rfl⟩
  · cases r with
    | ping id => exact ⟨rfl, rfl, rfl⟩
    | findNode id target want => exact ⟨rfl, rfl, rfl⟩
    | getPeers id ih want => exact ⟨rfl, rfl, rfl⟩
    | announce id ih port token =>
      simp only [HState.checkToken, HState.markRemote]
      repeat' (first | exact ⟨rfl, rfl, rfl⟩ | split)

theorem announceStep_timer (port : Option Nat) (acc : Lookup × LEnv × List Effect) (e : Bytes × Handle × Bool) :
    (announceStep port acc e).2.1.timer = acc.2.1.timer := by
  unfold announceStep
  simp only
  split <;> rfl

theorem recvFinished_timer (l : Lookup) (env : LEnv) (port : Option Nat) : (l.recvFinished env port).2.1.timer = env.timer := by
  unfold Lookup.recvFinished
  simp only
  split
  · exact foldl_pred (fun (acc : Lookup × LEnv × List Effect) => acc.2.1.timer = env.timer) (announceStep port)
      (fun b a hb => (announceStep_timer port b a).trans hb) _ _ rfl
  · rfl

theorem refresh_frame (s : HState) (now : Nat) :
    (s.refresh now).1.timer = (s.timer.scheduleAt (now + Constants.REFRESH_INTERVAL_TIMEOUT_ns) .tableRefresh).1 ∧
    (s.refresh now).1.lookups = s.lookups ∧ (s.refresh now).1.nextAid = s.nextAid := by
  unfold HState.refresh
  simp only
  have key := foldl_pred (fun (acc : HState × List HEffect) => acc.1.timer = s.timer ∧ acc.1.lookups = s.lookups ∧ acc.1.nextAid = s.nextAid)
    (fun (acc : HState × List HEffect) (h : Handle) =>
      (({ acc.1 with refreshSeq := acc.1.refreshSeq + 1, table := markRequested acc.1.table h now } : HState),
       acc.2 ++ [HEffect.send h.addr (.sym ⟨refreshAid, acc.1.refreshSeq⟩)
         (.req (.findNode acc.1.selfId (flipBit s.selfId (if s.refreshBucket = maxBuckets then 0 else s.refreshBucket)) none))
         (!acc.1.failAddrs.contains h.addr)]))
    (fun b a hb => hb)
    ((((s.table.closestNodes (flipBit s.selfId (if s.refreshBucket = maxBuckets then 0 else s.refreshBucket)) now).filter
      (fun n => n.status now = .questionable && !n.recentlyRequestedFrom now)).take Constants.REFRESH_CONCURRENCY).map (·.handle))
    (s, []) ⟨rfl, rfl, rfl⟩
  obtain ⟨k1, k2, k3⟩ := key
  exact ⟨by rw [k1], k2, k3⟩

/-! ### whom a search queries after its first round -/

theorem requestRound_requested (l : Lookup) (env : LEnv) (nodes : List (Handle × Bytes)) :
    ∀ h ∈ (l.requestRound env nodes).1.requested, h ∈ l.requested ∨ ∃ hd ∈ nodes, hd.1 = h := by
  have key : ∀ (ns : List (Handle × Bytes)) (acc : RoundAcc),
      (∀ h ∈ acc.l.requested, h ∈ l.requested ∨ ∃ hd ∈ nodes, hd.1 = h) → (∀ x ∈ ns, x ∈ nodes) →
      ∀ h ∈ (ns.foldl requestStep acc).l.requested, h ∈ l.requested ∨ ∃ hd ∈ nodes, hd.1 = h := by
    intro ns
    induction ns with
    | nil => intro acc h _; exact h
    | cons x xs ih =>
      intro acc hacc hsub
      simp only [List.foldl_cons]
      refine ih _ ?_ (fun y hy => hsub y (List.mem_cons_of_mem _ hy))
      unfold requestStep
      simp only
      split
      · exact hacc
      · simp only
        split
        · exact hacc
        · intro h hh
          rcases List.mem_append.mp hh with hh | hh
          · exact hacc h hh
          · simp only [List.mem_singleton] at hh
            exact Or.inr ⟨x, hsub x List.mem_cons_self, hh.symm⟩
  have := key nodes { l := l, env := env, effs := [], sent := 0 } (fun h hh => Or.inl hh) (fun x hx => hx)
  unfold Lookup.requestRound
  simp only
  split <;> exact this

theorem endgameRound_requested (l : Lookup) (env : LEnv) : (l.endgameRound env).1.requested = l.requested :=
  (endgameRound_res l env).2.2.1

theorem continueSearch_requested (l : Lookup) (env : LEnv) (it : Option (List (Handle × Bool))) (nd : Bytes) :
    ∀ h ∈ (l.continueSearch env it nd).1.requested, h ∈ (l.iterRound env it nd).1.requested ∨ h ∈ l.requested := by
  intro h hh
  unfold Lookup.continueSearch at hh
  split at hh
  · simp only at hh
    split at hh
    · simp only at hh
      rw [endgameRound_requested] at hh
      exact Or.inl hh
    · exact Or.inl hh
  · exact Or.inr hh

/-- **after its first round a search only queries nodes that an accepted answer named** -/
theorem recvResponse_requested (l : Lookup) (env : LEnv) (fr : Handle) (tid : Tid) (rsp : Resp) :
    ∀ h ∈ (l.recvResponse env fr tid rsp).1.requested,
      h ∈ l.requested ∨ h ∈ (if l.v6 then rsp.nodes6 else rsp.nodes4) := by
  unfold Lookup.recvResponse
  cases hfind : l.active.find? (·.1 = tid) with
  | none => intro h hh; exact Or.inl hh
  | some entry =>
    simp only
    have rt := recordToken_dl { l with active := l.active.filter (·.1 ≠ tid) } fr rsp.token
    have rv : (({ l with active := l.active.filter (·.1 ≠ tid) } : Lookup).recordToken fr rsp.token).v6 = l.v6 := by
      unfold Lookup.recordToken
      cases rsp.token with
      | none => rfl
      | some t => simp only; split <;> rfl
    rw [rv]
    generalize hN : (if l.v6 = true then rsp.nodes6 else rsp.nodes4) = N
    -- the picks of the iterative round are among the named nodes
    have hpk : ∀ picks, ((({ l with active := l.active.filter (·.1 ≠ tid) } : Lookup).recordToken fr rsp.token).absorbNodes N entry.2.1).2.1 = some picks →
        ∀ p ∈ picks, p.2 = true → p.1 ∈ N := by
      intro picks hp p hpm hu
      unfold Lookup.absorbNodes at hp
      split at hp
      · cases hp
      · simp only at hp
        split at hp
        · simp only [Option.some.injEq] at hp
          subst hp
          exact (List.mem_filter.mp (pickIterate_used _ _ p hpm hu)).1
        · cases hp
    have ab := absorbNodes_dl (({ l with active := l.active.filter (·.1 ≠ tid) } : Lookup).recordToken fr rsp.token) N entry.2.1
    generalize (({ l with active := l.active.filter (·.1 ≠ tid) } : Lookup).recordToken fr rsp.token).absorbNodes N entry.2.1 = A at hpk ab
    have hreq : A.1.requested = l.requested := ab.1.trans rt.1
    have hiter : ∀ (env' : LEnv), ∀ x ∈ (A.1.iterRound env' A.2.1 A.2.2).1.requested, x ∈ l.requested ∨ x ∈ N := by
      intro env' x hx
      unfold Lookup.iterRound at hx
      cases hA : A.2.1 with
      | none => rw [hA] at hx; simp only at hx; rw [hreq] at hx; exact Or.inl hx
      | some picks =>
        rw [hA] at hx
        simp only at hx
        rcases requestRound_requested _ _ _ x hx with h1 | ⟨hd, hhd, rfl⟩
        · rw [hreq] at h1; exact Or.inl h1
        · obtain ⟨p, hp, rfl⟩ := List.mem_map.mp hhd
          obtain ⟨hp1, hp2⟩ := List.mem_filter.mp hp
          exact Or.inr (hpk picks hA p hp1 hp2)
    intro h hh
    rcases continueSearch_requested _ _ _ _ h hh with h1 | h1
    · exact hiter _ h h1
    · rw [hreq] at h1; exact Or.inl h1

/-- what the handler's run loop reacts to -/
inductive HOp where
  | incoming (tid : InTid) (body : Body) (src : Addr)
  | start (target : Bytes) (announce : Bool)
  | fire

def HState.hstep (s : HState) (op : HOp) (now : Nat) : HState :=
  match op with
  | .incoming tid body src => (s.handleIncoming tid body src now).1
  | .start target ann => (s.startLookup target ann now).1
  | .fire => (s.fireTimer now).1

/-- ghost bookkeeping: per action id, the instant the search started and the number of nodes
queried in its first round -/
def ghostStep (g : Nat → Nat × Nat) (s : HState) (op : HOp) (now : Nat) : Nat → Nat × Nat :=
  match op with
  | .start target ann =>
    fun a => if a = s.nextAid then
      (now, (Lookup.new s.nextAid s.nextStream s.selfId s.v6 target ann (s.env now)).1.requested.length) else g a
  | _ => g

/-- timers fire at most `J` after their deadline: at `now` nothing pending is overdue by more -/
def Punctual (J : Nat) (s : HState) (now : Nat) : Prop := ∀ te ∈ s.timer.entries, now ≤ te.deadline + J

structure HDl (J : Nat) (g : Nat → Nat × Nat) (s : HState) : Prop where
  timerOk : TimerOk s.timer
  aidLt : ∀ l ∈ s.lookups, l.aid < s.nextAid
  inv : ∀ l ∈ s.lookups, LInv J (g l.aid).1 (g l.aid).2 s.timer l

theorem linv_not_completed {J T0 ic : Nat} {t : Timer Task} {l : Lookup} (h : LInv J T0 ic t l) : l.completedNow = false := by
  unfold Lookup.completedNow
  cases hE : l.inEndgame with
  | true => simp
  | false => have := (h.reg hE).1; simp [this]

theorem hdl_new (J : Nat) (g : Nat → Nat × Nat) (selfId : Bytes) (v6 ro : Bool) (port : Option Nat) (fa : List Addr) (now : Nat) :
    HDl J g (HState.new selfId v6 ro port fa now) :=
  ⟨timerOk_new, by simp [HState.new], by simp [HState.new]⟩

/-- replacing the searches with action id `a` by `l'` -/
theorem hdl_replace (J : Nat) (g : Nat → Nat × Nat) (s : HState) (h : HDl J g s) (l l' : Lookup) (hl : l ∈ s.lookups)
    (t' : Timer Task) (tbl : Table) (hok : TimerOk t') (haid : l'.aid = l.aid)
    (hl' : LInv J (g l.aid).1 (g l.aid).2 t' l')
    (hothers : ∀ m ∈ s.lookups, m.aid ≠ l.aid → LInv J (g m.aid).1 (g m.aid).2 t' m) :
    HDl J g { s with table := tbl, timer := t', lookups := s.lookups.map (fun x => if x.aid = l.aid then l' else x) } := by
  refine ⟨hok, ?_, ?_⟩
  · intro m hm
    obtain ⟨x, hx, rfl⟩ := List.mem_map.mp hm
    split
    · rw [haid]; exact h.aidLt l hl
    · exact h.aidLt x hx
  · intro m hm
    obtain ⟨x, hx, rfl⟩ := List.mem_map.mp hm
    split
    · rw [haid]; exact hl'
    · rename_i hne; exact hothers x hx hne

/-- a response routed to the stored search `l` -/
theorem lookupResponse_dl (J : Nat) (g : Nat → Nat × Nat) (s : HState) (now : Nat) (h : HDl J g s) (hp : Punctual J s now)
    (l : Lookup) (hl : l ∈ s.lookups) (t? : Option Tid) (rsp : Resp) (src : Addr) :
    HDl J g (s.lookupResponse l t? rsp src now).1 := by
  have hlinv := h.inv l hl
  unfold HState.lookupResponse
  extract_lets s1 r s2
  -- the three possibilities: no drawn id, an id that is not outstanding, an accepted answer
  have hcase : r = (l, s1.env now, []) ∨
      ∃ t entry, l.active.find? (·.1 = t) = some entry ∧ r = l.recvResponse (s1.env now) ⟨rsp.id, src⟩ t rsp := by
    cases t? with
    | none => exact Or.inl rfl
    | some t =>
      cases hfind : l.active.find? (·.1 = t) with
      | none => left; exact recvResponse_unknown l _ _ t rsp hfind
      | some entry => exact Or.inr ⟨t, entry, hfind, rfl⟩
  have key : r.1.completedNow = false ∧
      HDl J g { s with table := r.2.1.table, timer := r.2.1.timer,
                       lookups := s.lookups.map (fun x => if x.aid = l.aid then r.1 else x) } := by
    rcases hcase with hr | ⟨t, entry, hfind, hr⟩
    · rw [hr]
      exact ⟨linv_not_completed hlinv, hdl_replace J g s h l l hl s.timer _ h.timerOk rfl hlinv (fun m hm _ => h.inv m hm)⟩
    · rw [hr]
      have d := recvResponse_dl J (g l.aid).1 (g l.aid).2 l (s1.env now) ⟨rsp.id, src⟩ t rsp entry hfind hlinv h.timerOk hp
      have o := recvResponse_others J (g l.aid).1 (g l.aid).2 l s.timer _ t entry hfind hlinv h.timerOk d.1
      exact ⟨linv_not_completed d.2.1,
        hdl_replace J g s h l _ hl _ _ o.1 d.2.2 d.2.1 (fun m hm hne => o.2 _ _ m (h.inv m hm) hne)⟩
  obtain ⟨hnc, hd⟩ := key
  rw [if_neg (by simp [hnc])]
  exact hd

/-- the timeout entry `e` of query `t` of the stored search `l` fired -/
theorem lookupTimeout_dl (J : Nat) (g : Nat → Nat × Nat) (s : HState) (now : Nat) (h : HDl J g s) (hp : Punctual J s now)
    (timer : Timer Task) (e : TimerEntry Task) (hpop : s.timer.pop = some (timer, e)) (t : Tid)
    (htask : e.task = .lookupTimeout t) (l : Lookup) (hl : l ∈ s.lookups) (haid' : l.aid = t.aid) :
    HDl J g (({ s with timer := timer } : HState).lookupTimeout l t now).1 := by
  obtain ⟨p1, _, _, p4, _⟩ := pop_spec s.timer timer e hpop
  have pok := pop_ok s.timer timer e hpop h.timerOk
  have hlinv := h.inv l hl
  -- the other queries' entries and the end-game entry survive the pop
  have own : ∀ te ∈ s.timer.entries, (∀ q, te.task = .lookupTimeout q → q ≠ t) → te ∈ timer.entries := by
    intro te hte hq
    apply p4 te hte
    intro hid
    have := timerOk_inj h.timerOk hte p1 hid
    rw [this, htask] at hq
    exact hq t rfl rfl
  have hreg' : l.inEndgame = false → ∀ e' ∈ l.active, e'.1 ≠ t →
      HasTimeout timer e' (roundBound (g l.aid).1 J (l.requested.length - (g l.aid).2)) := by
    intro hE e' he' hne
    obtain ⟨te, h1, h2, h3, h4⟩ := (hlinv.reg hE).2 e' he'
    have hq : ∀ q, te.task = .lookupTimeout q → q ≠ t := by
      intro q hq
      rw [h3] at hq
      simp only [Task.lookupTimeout.injEq] at hq
      rw [← hq]
      exact hne
    exact ⟨te, own te h1 hq, h2, h3, h4⟩
  have heg' : l.inEndgame = true →
      HasEndgame timer l.aid (roundBound (g l.aid).1 J (l.requested.length - (g l.aid).2) + J + endgameNs) := by
    intro hE
    obtain ⟨te, h1, q, h2, h3⟩ := hlinv.eg hE
    have hq : ∀ q', te.task = .lookupTimeout q' → q' ≠ t := by
      intro q' hq
      rw [h2] at hq
      cases hq
    exact ⟨te, own te h1 hq, q, h2, h3⟩
  have hnow' : l.inEndgame = false → now ≤ roundBound (g l.aid).1 J (l.requested.length - (g l.aid).2) + J := by
    intro hE
    obtain ⟨hne, hreg⟩ := hlinv.reg hE
    obtain ⟨e0, he0⟩ := List.exists_mem_of_ne_nil _ hne
    obtain ⟨te, h1, _, _, h4⟩ := hreg e0 he0
    exact Nat.le_trans (hp te h1) (Nat.add_le_add_right h4 _)
  have d := recvTimeout_dl J (g l.aid).1 (g l.aid).2 l (({ s with timer := timer } : HState).env now) t
    hlinv.ic_le hlinv.tids (fun hE => (hlinv.reg hE).1) hreg' heg' hnow'
  unfold HState.lookupTimeout
  extract_lets r s2
  have hd : HDl J g { s with table := r.2.1.table, timer := r.2.1.timer, lookups := s.lookups.map (fun x => if x.aid = l.aid then r.1 else x) } := by
    refine hdl_replace J g s h l r.1 hl _ _ (d.1.ok pok) d.2.2 d.2.1 (fun m hm hne => ?_)
    refine linv_frame J _ _ s.timer timer _ m (h.inv m hm) h.timerOk e p1 p4 d.1 (fun q hq => ?_)
      (fun q hq => by rw [htask] at hq; cases hq)
    rw [htask] at hq
    simp only [Task.lookupTimeout.injEq] at hq
    subst hq
    rw [← haid']
    exact fun hc => hne hc.symm
  have hnc : r.1.completedNow = false := linv_not_completed d.2.1
  rw [if_neg (by simp [hnc])]
  exact hd

/-- **every step of the handler keeps the deadline invariant of every stored search**, provided
timers fire at most `J` late -/
theorem hstep_dl (J : Nat) (g : Nat → Nat × Nat) (s : HState) (op : HOp) (now : Nat) (h : HDl J g s)
    (hp : Punctual J s now) : HDl J (ghostStep g s op now) (s.hstep op now) := by
  cases op with
  | incoming tid body src =>
    show HDl J g (s.handleIncoming tid body src now).1
    unfold HState.handleIncoming
    cases body with
    | req r =>
      obtain ⟨f1, f2, f3⟩ := handleRequest_frame s tid r src now
      exact ⟨f1 ▸ h.timerOk, fun l hl => by rw [f3]; exact h.aidLt l (f2 ▸ hl), fun l hl => by rw [f1]; exact h.inv l (f2 ▸ hl)⟩
    | err c m => exact h
    | resp rsp =>
      simp only
      unfold HState.handleResponse
      cases hroute : tid.route with
      | none => exact h
      | some at_ =>
        obtain ⟨aid, t?⟩ := at_
        simp only
        cases hfl : s.lookups.find? (·.aid = aid) with
        | none =>
          simp only
          split
          · exact ⟨h.timerOk, h.aidLt, h.inv⟩
          · exact h
        | some l =>
          simp only
          obtain ⟨hl, haid⟩ := find_some_mem _ _ _ hfl
          have hlinv := h.inv l hl
          exact lookupResponse_dl J g s now h hp l hl t? rsp src
  | start target ann =>
    show HDl J _ (s.startLookup target ann now).1
    unfold HState.startLookup HState.afterNew
    simp only
    obtain ⟨nx, naid, ninv⟩ := new_dl J s.nextAid s.nextStream s.selfId s.v6 target ann (s.env now)
    generalize hr : Lookup.new s.nextAid s.nextStream s.selfId s.v6 target ann (s.env now) = r at nx naid ninv
    have hg : ∀ m ∈ s.lookups, (ghostStep g s (.start target ann) now) m.aid = g m.aid := by
      intro m hm
      simp only [ghostStep]
      rw [if_neg (Nat.ne_of_lt (h.aidLt m hm))]
    have hgn : (ghostStep g s (.start target ann) now) s.nextAid = (now, r.1.requested.length) := by
      simp only [ghostStep, if_true, hr]
    have hnx : TimerExt s.timer r.2.1.timer := nx
    split
    · -- it could query nobody: finished at once, nothing stored
      rename_i hc
      refine ⟨?_, ?_, ?_⟩
      · simp only [HState.withEnv, HState.env]
        rw [recvFinished_timer]
        exact hnx.ok h.timerOk
      · intro m hm
        simp only [HState.withEnv] at hm ⊢
        exact Nat.lt_succ_of_lt (h.aidLt m hm)
      · intro m hm
        simp only [HState.withEnv, HState.env] at hm ⊢
        rw [recvFinished_timer, hg m hm]
        exact linv_ext J _ _ _ _ m (h.inv m hm) hnx
    · rename_i hc
      have hc' : r.1.completedNow = false := by simpa using hc
      refine ⟨hnx.ok h.timerOk, ?_, ?_⟩
      · intro m hm
        simp only [HState.withEnv, List.mem_append, List.mem_singleton] at hm ⊢
        rcases hm with hm | rfl
        · exact Nat.lt_succ_of_lt (h.aidLt m hm)
        · rw [naid]; exact Nat.lt_succ_self _
      · intro m hm
        simp only [HState.withEnv, List.mem_append, List.mem_singleton] at hm ⊢
        rcases hm with hm | rfl
        · rw [hg m hm]; exact linv_ext J _ _ _ _ m (h.inv m hm) hnx
        · rw [naid, hgn]
          have := ninv hc'
          simpa [HState.env] using this
  | fire =>
    show HDl J g (s.fireTimer now).1
    unfold HState.fireTimer
    cases hpop : s.timer.pop with
    | none => exact h
    | some pe =>
      obtain ⟨timer, e⟩ := pe
      simp only
      obtain ⟨p1, p2, p3, p4, _⟩ := pop_spec s.timer timer e hpop
      have pok := pop_ok s.timer timer e hpop h.timerOk
      -- a search whose entry it is not keeps its invariant over the pop
      have frame : ∀ m ∈ s.lookups, (∀ q, e.task = .lookupTimeout q → q.aid ≠ m.aid) →
          (∀ q, e.task = .lookupEndGame q → q.aid ≠ m.aid) → ∀ t', TimerExt timer t' →
          LInv J (g m.aid).1 (g m.aid).2 t' m :=
        fun m hm h1 h2 t' hx => linv_frame J _ _ s.timer timer t' m (h.inv m hm) h.timerOk e p1 p4 hx h1 h2
      unfold HState.handleTask
      cases htask : e.task with
      | tableRefresh =>
        simp only
        obtain ⟨r1, r2, r3⟩ := refresh_frame { s with timer := timer } now
        have hx := scheduleAt_ext timer (now + Constants.REFRESH_INTERVAL_TIMEOUT_ns) Task.tableRefresh
        refine ⟨by rw [r1]; exact hx.ok pok, fun l hl => by rw [r3]; exact h.aidLt l (r2 ▸ hl), fun l hl => ?_⟩
        rw [r1]
        exact frame l (r2 ▸ hl) (fun q hq => by rw [htask] at hq; cases hq) (fun q hq => by rw [htask] at hq; cases hq) _ hx
      | lookupEndGame t =>
        simp only
        unfold HState.completeLookup
        simp only
        cases hfl : s.lookups.find? (·.aid = t.aid) with
        | none =>
          simp only
          refine ⟨pok, h.aidLt, fun m hm => frame m hm (fun q hq => by rw [htask] at hq; cases hq) (fun q hq => ?_) _ (timerExt_refl _)⟩
          rw [htask] at hq
          simp only [Task.lookupEndGame.injEq] at hq
          subst hq
          intro hc
          have := List.find?_eq_none.mp hfl m hm
          simp [hc] at this
        | some l =>
          simp only [HState.withEnv, HState.env]
          refine ⟨by rw [recvFinished_timer]; exact pok, fun m hm => h.aidLt m (List.mem_filter.mp hm).1, fun m hm => ?_⟩
          obtain ⟨hm1, hm2⟩ := List.mem_filter.mp hm
          rw [recvFinished_timer]
          refine frame m hm1 (fun q hq => by rw [htask] at hq; cases hq) (fun q hq => ?_) _ (timerExt_refl _)
          rw [htask] at hq
          simp only [Task.lookupEndGame.injEq] at hq
          subst hq
          intro hc
          simp [hc] at hm2
      | lookupTimeout t =>
        simp only
        cases hfl : s.lookups.find? (·.aid = t.aid) with
        | none =>
          simp only
          refine ⟨pok, h.aidLt, fun m hm => frame m hm (fun q hq => ?_) (fun q hq => by rw [htask] at hq; cases hq) _ (timerExt_refl _)⟩
          rw [htask] at hq
          simp only [Task.lookupTimeout.injEq] at hq
          subst hq
          intro hc
          have := List.find?_eq_none.mp hfl m hm
          simp [hc] at this
        | some l =>
          simp only
          obtain ⟨hl, haid⟩ := find_some_mem _ _ _ hfl
          have haid' : l.aid = t.aid := by simpa using haid
          have hlinv := h.inv l hl
          exact lookupTimeout_dl J g s now h hp timer e hpop t htask l hl haid'

/-- a run of the handler: what it reacts to, with the instant of each reaction -/
def HState.runOps (s : HState) : List (HOp × Nat) → HState
  | [] => s
  | (op, now) :: rest => HState.runOps (s.hstep op now) rest


end Btdht
