import Btdht.Proofs.BootDecT
import Btdht.Proofs.BootWait
/-
C15 timed clause, part 10: the composition.
-/
namespace Btdht

/-- the timed clause from a `Safe` state at a step boundary: what the trace of the run contains -/
theorem completes_full (c : Addr) (N : Nat) (s : DState) (hs : Safe c N s) (hb : Boundary s)
    (hlt : ∀ i ∈ s.waiters, i < s.nextWaiter) (hst : s.phase ≠ .awaitStart) (hpub : s.pub ≠ .bootstrapped)
    (t0 : Nat) (h0 : s.clock ≤ t0) (ins : List DInput) (hp : s.runP ins) (hr : RespRun c t0 s ins)
    (hlate : t0 + bootBound N < (s.run ins).1.clock) :
    ∃ t pre post, t ≤ t0 + bootBound N ∧ (t, DEv.bpub .bootstrapped) ∈ pre ∧
      (s.run ins).2 = pre ++ stamp t (DEv.bstate :: (unresolvedAfter s.waiters s.nextWaiter pre).1.map DEv.resolved) ++ post := by
  obtain ⟨t, ht, hmem⟩ := completes_safe c N s hs hb hst hpub t0 h0 ins hp hr hlate
  obtain ⟨pre, post', heq⟩ := List.append_of_mem hmem
  obtain ⟨hbp, post, hpost⟩ := run_goodHist s ins hb hlt hp pre t post' heq
  refine ⟨t, pre, post, ht, hbp, ?_⟩
  rw [heq, hpost]
  simp [stamp]

/-- in every state reached by a punctual run from a new node the waiting calls have ids below the next id -/
theorem waiters_lt_run (selfId : Bytes) (addr : Addr) (ro : Bool) (port : Option Nat) (fa : List Addr) (cfg : BConfig)
    (now : Nat) (pre : List DInput) (hp : (DState.new selfId addr ro port fa cfg now).runP pre) :
    ∀ i ∈ ((DState.new selfId addr ro port fa cfg now).run pre).1.waiters,
      i < ((DState.new selfId addr ro port fa cfg now).run pre).1.nextWaiter := by
  have h0 : WH [] 0 (DState.new selfId addr ro port fa cfg now) [] :=
    ⟨rfl, rfl, by simp [DState.new], fun hne => absurd rfl hne, by
      intro pre t post' heq
      cases pre <;> simp at heq⟩
  exact (wh_run [] 0 pre _ [] h0 ⟨rfl, trivial, rfl⟩ hp).lt

end Btdht
