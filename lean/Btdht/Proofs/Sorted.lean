import Btdht.Proofs.Deadline
/-!
C02 helpers: the candidate list of a search is sorted by XOR distance to the info-hash at all
times (the binary search of `insert_sorted_node` returns a correct insertion point), so the nodes a
search announces to are the closest ones among those that answered with a token.
-/
namespace Btdht

/-! ### the lexicographic order on byte strings -/

def bLe (a b : Bytes) : Prop := bytesCmp a b ≠ .gt

theorem bytesCmp_refl : ∀ (a : Bytes), bytesCmp a a = .eq
  | [] => rfl
  | x :: xs => by simp [bytesCmp, bytesCmp_refl xs]

theorem bytesCmp_swap : ∀ (a b : Bytes), bytesCmp a b = .gt ↔ bytesCmp b a = .lt
  | [], [] => by simp [bytesCmp]
  | [], _ :: _ => by simp [bytesCmp]
  | _ :: _, [] => by simp [bytesCmp]
  | x :: xs, y :: ys => by
    unfold bytesCmp
    by_cases h1 : x < y
    · have : ¬ y < x := by omega
      simp [h1, this]
    · by_cases h2 : x > y
      · have h2' : y < x := h2
        simp [h1, h2, h2']
      · have : x = y := by omega
        subst this
        simp only [Nat.lt_irrefl, if_false]
        exact bytesCmp_swap xs ys

theorem bytesCmp_swap' (a b : Bytes) : bytesCmp a b = .lt ↔ bytesCmp b a = .gt := (bytesCmp_swap b a).symm

theorem bytesCmp_eq_swap : ∀ (a b : Bytes), bytesCmp a b = .eq → bytesCmp b a = .eq
  | [], [], _ => rfl
  | [], _ :: _, h => by simp [bytesCmp] at h
  | _ :: _, [], h => by simp [bytesCmp] at h
  | x :: xs, y :: ys, h => by
    unfold bytesCmp at h ⊢
    by_cases h1 : x < y
    · simp [h1] at h
    · by_cases h2 : x > y
      · simp [h1, h2] at h
      · have : x = y := by omega
        subst this
        simp only [Nat.lt_irrefl, if_false] at h ⊢
        exact bytesCmp_eq_swap xs ys h

/-- `a ≤ b` and `b ≤ c` give `a ≤ c`; strict as soon as one of them is -/
theorem bytesCmp_trans : ∀ (a b c : Bytes), bytesCmp a b ≠ .gt → bytesCmp b c ≠ .gt →
    bytesCmp a c ≠ .gt ∧ (bytesCmp a b = .lt ∨ bytesCmp b c = .lt → bytesCmp a c = .lt)
  | [], [], c, _, h2 => ⟨h2, fun h => by
      rcases h with h | h
      · simp [bytesCmp] at h
      · exact h⟩
  | [], _ :: _, [], _, h2 => by simp [bytesCmp] at h2
  | [], _ :: _, _ :: _, _, _ => by simp [bytesCmp]
  | _ :: _, [], _, h1, _ => by simp [bytesCmp] at h1
  | _ :: _, _ :: _, [], _, h2 => by simp [bytesCmp] at h2
  | x :: xs, y :: ys, z :: zs, h1, h2 => by
    unfold bytesCmp at h1 h2 ⊢
    by_cases hxy : x < y
    · by_cases hyz : y < z
      · have : x < z := by omega
        simp [this]
      · by_cases hzy : y > z
        · simp [hyz, hzy] at h2
        · have : y = z := by omega
          subst this
          simp [hxy]
    · by_cases hyx : x > y
      · simp [hxy, hyx] at h1
      · have : x = y := by omega
        subst this
        simp only [Nat.lt_irrefl, if_false] at h1
        by_cases hyz : x < z
        · simp [hyz]
        · by_cases hzy : x > z
          · simp [hyz, hzy] at h2
          · have : x = z := by omega
            subst this
            simp only [Nat.lt_irrefl, if_false] at h2 ⊢
            exact bytesCmp_trans xs ys zs h1 h2

theorem bLe_trans {a b c : Bytes} (h1 : bLe a b) (h2 : bLe b c) : bLe a c := (bytesCmp_trans a b c h1 h2).1

theorem bLe_refl (a : Bytes) : bLe a a := by simp [bLe, bytesCmp_refl]

theorem bLe_of_lt {a b : Bytes} (h : bytesCmp a b = .lt) : bLe a b := by simp [bLe, h]

theorem bLe_of_eq {a b : Bytes} (h : bytesCmp a b = .eq) : bLe a b := by simp [bLe, h]

theorem bLe_of_not_gt_swap {a b : Bytes} (h : bytesCmp a b = .gt) : bLe b a := by
  have := (bytesCmp_swap a b).mp h
  simp [bLe, this]

/-! ### sorted key lists and the binary search -/

theorem getD_eq_getElem' {α} (l : List α) (d : α) {i : Nat} (h : i < l.length) : l.getD i d = l[i] := by
  simp [List.getD_eq_getElem?_getD, h]


def SortedKeys (keys : List Bytes) : Prop := keys.Pairwise bLe

theorem sortedKeys_getD {keys : List Bytes} (h : SortedKeys keys) {i j : Nat} (hij : i ≤ j) (hj : j < keys.length) :
    bLe (keys.getD i []) (keys.getD j []) := by
  have hi : i < keys.length := Nat.lt_of_le_of_lt hij hj
  rw [getD_eq_getElem' _ _ hi, getD_eq_getElem' _ _ hj]
  rcases Nat.lt_or_ge i j with hlt | hge
  · exact (List.pairwise_iff_getElem.mp h) i j hi hj hlt
  · have : i = j := by omega
    subst this
    exact bLe_refl _

/-- the loop of the branch-free binary search keeps: everything before `base` is `≤ key`,
everything from `base + size` on is `> key` -/
theorem binarySearch_go (keys : List Bytes) (key : Bytes) (hs : SortedKeys keys) :
    ∀ (fuel base size : Nat), size ≤ fuel → 1 ≤ size → base + size ≤ keys.length →
      (∀ i, i < base → bLe (keys.getD i []) key) →
      (∀ i, base + size ≤ i → i < keys.length → bytesCmp (keys.getD i []) key = .gt) →
      let b := binarySearch.go keys key fuel base size
      b < keys.length ∧ (∀ i, i < b → bLe (keys.getD i []) key) ∧
      (∀ i, b + 1 ≤ i → i < keys.length → bytesCmp (keys.getD i []) key = .gt) := by
  intro fuel
  induction fuel with
  | zero => intro base size h1 h2; omega
  | succ fuel ih =>
    intro base size hf hsz hlen hlo hhi
    unfold binarySearch.go
    by_cases hgt : size > 1
    · rw [if_pos hgt]
      simp only
      have hhalf : 1 ≤ size / 2 := by omega
      have hhalf2 : size / 2 ≤ size - size / 2 := by omega
      by_cases hc : (bytesCmp (keys.getD (base + size / 2) []) key == .gt) = true
      · rw [if_pos hc]
        have hc' : bytesCmp (keys.getD (base + size / 2) []) key = .gt := by simpa using hc
        refine ih base (size - size / 2) (by omega) (by omega) (by omega) hlo ?_
        intro i hi hil
        -- keys[i] ≥ keys[mid] > key
        have hmid : bLe (keys.getD (base + size / 2) []) (keys.getD i []) := sortedKeys_getD hs (by omega) hil
        have := (bytesCmp_swap _ _).mp hc'
        have h2 := (bytesCmp_trans key _ _ (bLe_of_lt this) hmid).2 (Or.inl this)
        exact (bytesCmp_swap _ _).mpr h2
      · rw [if_neg hc]
        have hc' : bLe (keys.getD (base + size / 2) []) key := by simpa [bLe] using hc
        refine ih (base + size / 2) (size - size / 2) (by omega) (by omega) (by omega) ?_ ?_
        · intro i hi
          exact bLe_trans (sortedKeys_getD hs (by omega) (by omega)) hc'
        · intro i hi hil
          exact hhi i (by omega) hil
    · rw [if_neg hgt]
      have : size = 1 := by omega
      subst this
      exact ⟨by omega, hlo, fun i hi hil => hhi i (by omega) hil⟩

/-- **the binary search returns a correct insertion point**: everything before it is `≤ key`,
everything from it on is `≥ key` -/
theorem binarySearch_spec (keys : List Bytes) (key : Bytes) (hs : SortedKeys keys) :
    (binarySearch keys key).2 ≤ keys.length ∧
    (∀ i, i < (binarySearch keys key).2 → bLe (keys.getD i []) key) ∧
    (∀ i, (binarySearch keys key).2 ≤ i → i < keys.length → bLe key (keys.getD i [])) := by
  unfold binarySearch
  simp only
  by_cases h0 : keys.length = 0
  · rw [if_pos h0]
    exact ⟨by omega, fun i hi => by omega, fun i _ hil => by omega⟩
  · rw [if_neg h0]
    obtain ⟨hb, hlo, hhi⟩ := binarySearch_go keys key hs keys.length 0 keys.length (Nat.le_refl _) (by omega) (by omega)
      (fun i hi => by omega) (fun i hi hil => by omega)
    generalize binarySearch.go keys key keys.length 0 keys.length = b at hb hlo hhi
    cases hc : bytesCmp (keys.getD b []) key with
    | eq =>
      simp only
      refine ⟨by omega, hlo, fun i hi hil => ?_⟩
      rcases Nat.lt_or_ge b i with hlt | hge
      · exact bLe_of_not_gt_swap (hhi i (by omega) hil)
      · have : i = b := by omega
        subst this
        exact bLe_of_eq (bytesCmp_eq_swap _ _ hc)
    | lt =>
      simp only
      refine ⟨by omega, fun i hi => ?_, fun i hi hil => bLe_of_not_gt_swap (hhi i hi hil)⟩
      rcases Nat.lt_or_ge i b with hlt | hge
      · exact hlo i hlt
      · have : i = b := by omega
        subst this
        exact bLe_of_lt hc
    | gt =>
      simp only
      refine ⟨by omega, hlo, fun i hi hil => ?_⟩
      rcases Nat.lt_or_ge b i with hlt | hge
      · exact bLe_of_not_gt_swap (hhi i (by omega) hil)
      · have : i = b := by omega
        subst this
        exact bLe_of_not_gt_swap hc

/-! ### the candidate list -/

/-- the candidate list is sorted by its distance field, which is the XOR distance to the target -/
structure CandOk (target : Bytes) (nodes : List (Bytes × Handle × Bool)) : Prop where
  sorted : SortedKeys (nodes.map (·.1))
  dist : ∀ e ∈ nodes, e.1 = xorBytes target e.2.1.id

theorem pairwise_insert {α} (R : α → α → Prop) (l : List α) (idx : Nat) (x : α) (h : l.Pairwise R)
    (hlo : ∀ i (hi : i < l.length), i < idx → R l[i] x) (hhi : ∀ i (hi : i < l.length), idx ≤ i → R x l[i]) :
    (l.take idx ++ [x] ++ l.drop idx).Pairwise R := by
  have hdrop : ∀ b ∈ l.drop idx, ∃ k, ∃ hk : k < l.length, idx ≤ k ∧ b = l[k] := by
    intro b hb
    obtain ⟨j, hj, rfl⟩ := List.mem_iff_getElem.mp hb
    have hj' : idx + j < l.length := by simp at hj; omega
    exact ⟨idx + j, hj', by omega, by rw [List.getElem_drop]⟩
  have htake : ∀ a ∈ l.take idx, ∃ k, ∃ hk : k < l.length, k < idx ∧ a = l[k] := by
    intro a ha
    obtain ⟨i, hi, rfl⟩ := List.mem_iff_getElem.mp ha
    have hi' : i < idx ∧ i < l.length := by simp at hi; omega
    exact ⟨i, hi'.2, hi'.1, by rw [List.getElem_take]⟩
  rw [List.append_assoc, List.pairwise_append]
  refine ⟨h.sublist (List.take_sublist _ _), ?_, ?_⟩
  · rw [List.singleton_append, List.pairwise_cons]
    refine ⟨fun y hy => ?_, h.sublist (List.drop_sublist _ _)⟩
    obtain ⟨k, hk, hge, rfl⟩ := hdrop y hy
    exact hhi k hk hge
  · intro a ha b hb
    obtain ⟨i, hi, hlt, rfl⟩ := htake a ha
    rw [List.singleton_append] at hb
    rcases List.mem_cons.mp hb with rfl | hb
    · exact hlo i hi hlt
    · obtain ⟨k, hk, hge, rfl⟩ := hdrop b hb
      exact (List.pairwise_iff_getElem.mp h) i k hi hk (by omega)

theorem insertSorted_ok (target : Bytes) (nodes : List (Bytes × Handle × Bool)) (h : Handle) (pinged : Bool)
    (hok : CandOk target nodes) : CandOk target (insertSorted nodes target h pinged) := by
  have spec := binarySearch_spec (nodes.map (·.1)) (xorBytes target h.id) hok.sorted
  have ins : CandOk target (nodes.take (binarySearch (nodes.map (·.1)) (xorBytes target h.id)).2 ++
      [(xorBytes target h.id, h, pinged)] ++ nodes.drop (binarySearch (nodes.map (·.1)) (xorBytes target h.id)).2) := by
    constructor
    · unfold SortedKeys
      rw [List.map_append, List.map_append, List.map_take, List.map_drop]
      apply pairwise_insert _ _ _ _ hok.sorted
      · intro i hi hlt
        have := spec.2.1 i hlt
        rwa [getD_eq_getElem' _ _ hi] at this
      · intro i hi hge
        have := spec.2.2 i hge hi
        rwa [getD_eq_getElem' _ _ hi] at this
    · intro e he
      simp only [List.mem_append, List.mem_singleton] at he
      rcases he with (he | rfl) | he
      · exact hok.dist e (List.mem_of_mem_take he)
      · rfl
      · exact hok.dist e (List.mem_of_mem_drop he)
  unfold insertSorted
  simp only
  cases hb : binarySearch (nodes.map (·.1)) (xorBytes target h.id) with
  | mk found idx =>
    rw [hb] at ins
    cases found with
    | true =>
      simp only
      cases nodes[idx]? with
      | none => exact hok
      | some e =>
        obtain ⟨_, h', _⟩ := e
        simp only
        split
        · exact ins
        · exact hok
    | false => exact ins

theorem foldl_insert_ok (target : Bytes) (f : Handle → Bool) : ∀ (hs : List Handle) (nodes : List (Bytes × Handle × Bool)),
    CandOk target nodes → CandOk target (hs.foldl (fun acc n => insertSorted acc target n (f n)) nodes)
  | [], _, h => h
  | x :: xs, nodes, h => foldl_insert_ok target f xs _ (insertSorted_ok target nodes x (f x) h)

theorem candOk_nil (target : Bytes) : CandOk target [] := ⟨by simp [SortedKeys], by simp⟩

/-- changing the `queried` flags keeps the list sorted -/
theorem candOk_flags (target : Bytes) (nodes nodes' : List (Bytes × Handle × Bool))
    (h : CandOk target nodes) (hk : nodes'.map (fun e => (e.1, e.2.1)) = nodes.map (fun e => (e.1, e.2.1))) :
    CandOk target nodes' := by
  have hkeys : nodes'.map (·.1) = nodes.map (·.1) := by
    have := congrArg (List.map Prod.fst) hk
    simp only [List.map_map] at this
    exact this
  refine ⟨by rw [hkeys]; exact h.sorted, fun e he => ?_⟩
  have : (e.1, e.2.1) ∈ nodes.map (fun e => (e.1, e.2.1)) := by
    rw [← hk]; exact List.mem_map.mpr ⟨e, he, rfl⟩
  obtain ⟨e0, he0, heq⟩ := List.mem_map.mp this
  have hd := h.dist e0 he0
  simp only [Prod.mk.injEq] at heq
  rw [← heq.1, ← heq.2]
  exact hd

/-! ### the operations of a search keep its candidate list sorted -/

def LookupSorted (l : Lookup) : Prop := CandOk l.target l.sorted

theorem requestRound_sorted (l : Lookup) (env : LEnv) (nodes : List (Handle × Bytes)) :
    (l.requestRound env nodes).1.sorted = l.sorted ∧ (l.requestRound env nodes).1.target = l.target := by
  unfold Lookup.requestRound
  have key := foldl_pred (fun (acc : RoundAcc) => acc.l.sorted = l.sorted ∧ acc.l.target = l.target) requestStep
    (fun b a hb => by
      unfold requestStep
      simp only
      split <;> exact hb)
    nodes { l := l, env := env, effs := [], sent := 0 } ⟨rfl, rfl⟩
  simp only
  split
  · exact key
  · exact key

theorem endgameRound_sorted (l : Lookup) (env : LEnv) (h : LookupSorted l) : LookupSorted (l.endgameRound env).1 := by
  unfold Lookup.endgameRound
  simp only
  -- the rebuilt list has the same distances and nodes in the same order
  have key : ∀ (es : List (Bytes × Handle × Bool)) (acc : EndAcc), acc.l.target = l.target →
      (es.foldl (endgameStep (env.timer.scheduleAt (env.now + Constants.ENDGAME_TIMEOUT_ns) (.lookupEndGame ⟨l.aid, l.nextSeq⟩)).2) acc).l.target = l.target ∧
      (es.foldl (endgameStep (env.timer.scheduleAt (env.now + Constants.ENDGAME_TIMEOUT_ns) (.lookupEndGame ⟨l.aid, l.nextSeq⟩)).2) acc).out.map (fun e => (e.1, e.2.1)) =
        acc.out.map (fun e => (e.1, e.2.1)) ++ es.map (fun e => (e.1, e.2.1)) := by
    intro es
    induction es with
    | nil => intro acc ht; exact ⟨ht, by simp⟩
    | cons e rest ih =>
      intro acc ht
      simp only [List.foldl_cons, List.map_cons]
      have hstep : (endgameStep (env.timer.scheduleAt (env.now + Constants.ENDGAME_TIMEOUT_ns) (.lookupEndGame ⟨l.aid, l.nextSeq⟩)).2 acc e).l.target = l.target ∧
          (endgameStep (env.timer.scheduleAt (env.now + Constants.ENDGAME_TIMEOUT_ns) (.lookupEndGame ⟨l.aid, l.nextSeq⟩)).2 acc e).out.map (fun e => (e.1, e.2.1)) =
            acc.out.map (fun e => (e.1, e.2.1)) ++ [(e.1, e.2.1)] := by
        unfold endgameStep
        split
        · exact ⟨ht, by simp⟩
        · simp only
          split
          · exact ⟨ht, by simp⟩
          · exact ⟨ht, by simp⟩
      obtain ⟨r1, r2⟩ := ih _ hstep.1
      exact ⟨r1, by rw [r2, hstep.2]; simp⟩
  obtain ⟨k1, k2⟩ := key l.sorted
    { l := { l with inEndgame := true, nextSeq := l.nextSeq + 1 },
      env := { env with timer := (env.timer.scheduleAt (env.now + Constants.ENDGAME_TIMEOUT_ns) (.lookupEndGame ⟨l.aid, l.nextSeq⟩)).1 },
      effs := [], out := [] } rfl
  unfold LookupSorted
  simp only
  rw [k1]
  exact candOk_flags l.target l.sorted _ h (by simpa using k2)

theorem absorbNodes_sorted (l : Lookup) (nodes : List Handle) (d : Bytes) (h : LookupSorted l) :
    LookupSorted (l.absorbNodes nodes d).1 := by
  unfold Lookup.absorbNodes
  split
  · exact h
  · simp only
    split
    · exact foldl_insert_ok l.target _ nodes l.sorted h
    · exact foldl_insert_ok l.target (fun _ => false) nodes l.sorted h

theorem recordToken_sorted (l : Lookup) (fr : Handle) (tok : Option Bytes) (h : LookupSorted l) :
    LookupSorted (l.recordToken fr tok) := by
  unfold Lookup.recordToken
  cases tok with
  | none => exact h
  | some t => simp only; split <;> exact h

theorem continueSearch_sorted (l : Lookup) (env : LEnv) (it : Option (List (Handle × Bool))) (nd : Bytes) (h : LookupSorted l) :
    LookupSorted (l.continueSearch env it nd).1 := by
  have h1 : LookupSorted (l.iterRound env it nd).1 := by
    unfold Lookup.iterRound
    cases it with
    | none => exact h
    | some picks =>
      unfold LookupSorted
      simp only
      rw [(requestRound_sorted l env _).1, (requestRound_sorted l env _).2]
      exact h
  unfold Lookup.continueSearch
  split
  · simp only
    split
    · exact endgameRound_sorted _ _ h1
    · exact h1
  · exact h

theorem recvResponse_sorted (l : Lookup) (env : LEnv) (fr : Handle) (tid : Tid) (rsp : Resp) (h : LookupSorted l) :
    LookupSorted (l.recvResponse env fr tid rsp).1 := by
  unfold Lookup.recvResponse
  cases l.active.find? (·.1 = tid) with
  | none => exact h
  | some entry =>
    simp only
    apply continueSearch_sorted
    apply absorbNodes_sorted
    apply recordToken_sorted
    exact h

theorem recvTimeout_sorted (l : Lookup) (env : LEnv) (tid : Tid) (h : LookupSorted l) :
    LookupSorted (l.recvTimeout env tid).1 := by
  unfold Lookup.recvTimeout
  cases l.active.find? (·.1 = tid) with
  | none => exact h
  | some entry =>
    simp only
    split
    · exact endgameRound_sorted _ _ h
    · exact h

theorem new_sorted (aid stream : Nat) (selfId : Bytes) (v6 : Bool) (target : Bytes) (announce : Bool) (env : LEnv) :
    LookupSorted (Lookup.new aid stream selfId v6 target announce env).1 := by
  unfold Lookup.new LookupSorted
  simp only
  rw [(requestRound_sorted _ env _).1, (requestRound_sorted _ env _).2]
  simp only
  have h0 : CandOk target ((((env.table.closestNodes target env.now).filter (fun n => n.status env.now = .good)).take
      Constants.MAX_BUCKET_SIZE).foldl (fun acc n => insertSorted acc target n.handle false) []) := by
    have := foldl_insert_ok target (fun _ => false)
      ((((env.table.closestNodes target env.now).filter (fun n => n.status env.now = .good)).take Constants.MAX_BUCKET_SIZE).map (·.handle))
      [] (candOk_nil target)
    rwa [List.foldl_map] at this
  refine candOk_flags target _ _ h0 ?_
  rw [List.map_append, List.map_map]
  conv => rhs; rw [← List.take_append_drop Constants.INITIAL_PICK_NUM
    ((((env.table.closestNodes target env.now).filter (fun n => n.status env.now = .good)).take
      Constants.MAX_BUCKET_SIZE).foldl (fun acc n => insertSorted acc target n.handle false) [])]
  rw [List.map_append]
  congr 1

/-- the invariant of the handler: every stored search has a sorted candidate list -/
def SortInv (s : HState) : Prop := ∀ l ∈ s.lookups, LookupSorted l

theorem sort_replace (s : HState) (h : SortInv s) (a : Nat) (l' : Lookup) (hl' : LookupSorted l') (tbl : Table) (tm : Timer Task) :
    SortInv { s with table := tbl, timer := tm, lookups := s.lookups.map (fun x => if x.aid = a then l' else x) } := by
  intro m hm
  obtain ⟨x, hx, rfl⟩ := List.mem_map.mp hm
  split
  · exact hl'
  · exact h x hx

theorem sort_complete (s : HState) (h : SortInv s) (a now : Nat) : SortInv (s.completeLookup a now).1 := by
  unfold HState.completeLookup
  cases s.lookups.find? (·.aid = a) with
  | none => exact h
  | some l =>
    simp only [HState.withEnv]
    exact fun m hm => h m (List.mem_filter.mp hm).1

theorem hstep_sort (s : HState) (op : HOp) (now : Nat) (h : SortInv s) : SortInv (s.hstep op now) := by
  cases op with
  | incoming tid body src =>
    show SortInv (s.handleIncoming tid body src now).1
    unfold HState.handleIncoming
    cases body with
    | req r =>
      obtain ⟨_, f2, _⟩ := handleRequest_frame s tid r src now
      exact fun l hl => h l (f2 ▸ hl)
    | err c m => exact h
    | resp rsp =>
      simp only
      unfold HState.handleResponse
      cases tid.route with
      | none => exact h
      | some at_ =>
        obtain ⟨aid, t?⟩ := at_
        simp only
        cases hfl : s.lookups.find? (·.aid = aid) with
        | none =>
          simp only
          split
          · exact h
          · exact h
        | some l =>
          simp only
          obtain ⟨hl, _⟩ := find_some_mem _ _ _ hfl
          unfold HState.lookupResponse
          extract_lets s1 r s2
          have hr : LookupSorted r.1 := by
            cases t? with
            | none => exact h l hl
            | some t => exact recvResponse_sorted l _ _ t rsp (h l hl)
          have hs2 : SortInv { s with table := r.2.1.table, timer := r.2.1.timer, lookups := s.lookups.map (fun x => if x.aid = l.aid then r.1 else x) } :=
            sort_replace s h l.aid r.1 hr _ _
          by_cases hc : r.1.completedNow = true
          · rw [if_pos hc]; exact sort_complete _ hs2 l.aid now
          · rw [if_neg hc]; exact hs2
  | start target ann =>
    show SortInv (s.startLookup target ann now).1
    unfold HState.startLookup HState.afterNew
    simp only
    have hn := new_sorted s.nextAid s.nextStream s.selfId s.v6 target ann (s.env now)
    generalize Lookup.new s.nextAid s.nextStream s.selfId s.v6 target ann (s.env now) = r at hn
    split
    · simp only [HState.withEnv]; exact h
    · simp only [HState.withEnv]
      intro m hm
      rcases List.mem_append.mp hm with hm | hm
      · exact h m hm
      · simp only [List.mem_singleton] at hm; subst hm; exact hn
  | fire =>
    show SortInv (s.fireTimer now).1
    unfold HState.fireTimer
    cases s.timer.pop with
    | none => exact h
    | some pe =>
      obtain ⟨timer, e⟩ := pe
      simp only
      have h' : SortInv { s with timer := timer } := h
      unfold HState.handleTask
      cases e.task with
      | tableRefresh =>
        simp only
        obtain ⟨_, r2, _⟩ := refresh_frame { s with timer := timer } now
        exact fun l hl => h l (by rw [r2] at hl; exact hl)
      | lookupEndGame t => exact sort_complete _ h' t.aid now
      | lookupTimeout t =>
        simp only
        cases hfl : s.lookups.find? (·.aid = t.aid) with
        | none => exact h'
        | some l =>
          simp only
          obtain ⟨hl, _⟩ := find_some_mem _ _ _ hfl
          unfold HState.lookupTimeout
          extract_lets r s2
          have hr : LookupSorted r.1 := recvTimeout_sorted l _ t (h l hl)
          have hs2 : SortInv { s with table := r.2.1.table, timer := r.2.1.timer, lookups := s.lookups.map (fun x => if x.aid = l.aid then r.1 else x) } :=
            sort_replace { s with timer := timer } h' l.aid r.1 hr _ _
          by_cases hc : r.1.completedNow = true
          · rw [if_pos hc]; exact sort_complete _ hs2 l.aid now
          · rw [if_neg hc]; exact hs2

theorem runOps_sort : ∀ (ops : List (HOp × Nat)) (s : HState), SortInv s → SortInv (s.runOps ops)
  | [], _, h => h
  | (op, now) :: rest, s, h => runOps_sort rest _ (hstep_sort s op now h)

end Btdht
