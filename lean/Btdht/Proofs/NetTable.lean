import Btdht.Props.C09
import Btdht.Proofs.Handler
/-!
C01 helpers (network composition, routing-table part): the routing table of a node of a small
network in which "all nodes know each other".

`Knows sid M G t`: the table `t` of the node with id `sid` consists of its single initial bucket,
whose eight slots hold exactly the handles `M` (the other nodes of the network), each with an answer
recent enough to make it `Good` until the instant `G`, and otherwise never-used placeholder slots.
This is the table `add_node` builds from at most 8 contacts that have all answered (no bucket ever
overflows, so no split happens). The lemmas show that it is preserved by everything the handler
does to the table while the node serves queries and runs searches inside such a network, and what
`find_closest_nodes` / `TableLookup::new` read off it.
-/
namespace Btdht

/-- the node answered at an instant that keeps it `Good` until `G` -/
def GoodTill (G : Nat) (m : Node) : Prop := ∃ r, m.lastResponse = some r ∧ G < r + lastSeenNs

instance (G : Nat) (m : Node) : Decidable (GoodTill G m) :=
  match h : m.lastResponse with
  | some r =>
    if hG : G < r + lastSeenNs then isTrue ⟨r, h, hG⟩
    else isFalse (fun ⟨r', hr', hG'⟩ => by rw [h] at hr'; cases hr'; exact hG hG')
  | none => isFalse (fun ⟨r', hr', _⟩ => by rw [h] at hr'; cases hr')

/-- the slots of the single bucket -/
structure KnowsB (M : List Handle) (G : Nat) (ns : List Node) : Prop where
  len : ns.length = 8
  slot : ∀ m ∈ ns, (m.lastResponse = none ∧ m.handle = placeholderHandle) ∨ (m.handle ∈ M ∧ GoodTill G m)
  all : ∀ x ∈ M, ∃ m ∈ ns, m.handle = x ∧ GoodTill G m
  handles : HandlesOk ns

structure Knows (sid : Bytes) (M : List Handle) (G : Nat) (t : Table) : Prop where
  self : t.selfId = sid
  routers : t.routers = []
  /-- no other node's id shares all 160 bits with the own id -/
  far : ∀ x ∈ M, lcp sid x.id ≠ maxBuckets
  one : ∃ ns, t.buckets = [⟨ns⟩] ∧ KnowsB M G ns

theorem goodTill_status {G : Nat} {m : Node} (h : GoodTill G m) (now : Nat) (hn : now ≤ G) : m.status now = .good := by
  obtain ⟨r, hr, hG⟩ := h
  have hL : 0 < lastSeenNs := by decide
  unfold Node.status
  rw [hr]
  simp only
  rw [if_pos (by omega)]

theorem dead_status {m : Node} (h : m.lastResponse = none) (now : Nat) : m.status now = .bad := by
  unfold Node.status; rw [h]

theorem knows_tinv {sid : Bytes} {M : List Handle} {G : Nat} {t : Table} (h : Knows sid M G t) : TInv t := by
  obtain ⟨ns, hb, hk⟩ := h.one
  refine ⟨by rw [hb]; simp, by rw [hb]; simp [maxBuckets]; decide, ?_, ?_, ?_⟩
  · intro b hbm
    rw [hb] at hbm
    simp only [List.mem_singleton] at hbm
    subst hbm
    exact hk.len
  · intro i hi m hm
    have hi0 : i = 0 := by rw [hb] at hi; simp at hi; omega
    subst hi0
    simp only [hb, List.getElem_cons_zero] at hm
    unfold SlotOk
    by_cases hd : m.lastResponse = none
    · exact Or.inl hd
    · right
      refine ⟨?_, by rw [h.routers]; rfl, ?_⟩
      · rcases hk.slot m hm with ⟨h1, _⟩ | ⟨h1, _⟩
        · exact absurd h1 hd
        · rw [h.self]; exact h.far _ h1
      · rw [hb]; unfold Placed; simp
  · intro b hbm
    rw [hb] at hbm
    simp only [List.mem_singleton] at hbm
    subst hbm
    exact hk.handles

theorem mem_modify_elim {α} {l : List α} {i : Nat} {f : α → α} {x : α} (h : x ∈ l.modify i f) :
    x ∈ l ∨ ∃ m ∈ l, x = f m := by
  rw [List.mem_iff_getElem] at h
  obtain ⟨j, hj, rfl⟩ := h
  simp only [List.length_modify] at hj
  rw [List.getElem_modify]
  by_cases hij : i = j
  · rw [if_pos hij]; exact Or.inr ⟨l[j], List.getElem_mem hj, rfl⟩
  · rw [if_neg hij]; exact Or.inl (List.getElem_mem hj)

theorem mem_modify_intro {α} {l : List α} (i : Nat) (f : α → α) {m : α} (h : m ∈ l) :
    m ∈ l.modify i f ∨ f m ∈ l.modify i f := by
  rw [List.mem_iff_getElem] at h
  obtain ⟨j, hj, rfl⟩ := h
  have hj' : j < (l.modify i f).length := by simpa using hj
  have hg := List.getElem_modify (f := f) (i := i) (l := l) (j := j) hj'
  by_cases hij : i = j
  · rw [if_pos hij] at hg; exact Or.inr (hg ▸ List.getElem_mem hj')
  · rw [if_neg hij] at hg; exact Or.inl (hg ▸ List.getElem_mem hj')

/-- the slots of the single bucket after one of them was changed by `f`, which keeps the handle and
turns a good answer into a good answer -/
theorem knowsB_modify {M : List Handle} {G : Nat} {ns : List Node} (h : KnowsB M G ns) (i : Nat) (f : Node → Node)
    (hh : ∀ m ∈ ns, (f m).handle = m.handle) (hd : ∀ m ∈ ns, m.lastResponse = none → (f m).lastResponse = none)
    (hg : ∀ m ∈ ns, GoodTill G m → GoodTill G (f m)) (hok : HandlesOk (ns.modify i f)) :
    KnowsB M G (ns.modify i f) := by
  refine ⟨by rw [List.length_modify]; exact h.len, fun m hm => ?_, fun x hx => ?_, hok⟩
  · rcases mem_modify_elim hm with h1 | ⟨m0, h1, rfl⟩
    · exact h.slot m h1
    · rcases h.slot m0 h1 with ⟨a, b⟩ | ⟨a, b⟩
      · exact Or.inl ⟨hd m0 h1 a, (hh m0 h1).trans b⟩
      · exact Or.inr ⟨(hh m0 h1).symm ▸ a, hg m0 h1 b⟩
  · obtain ⟨m, hm, hmx, hmg⟩ := h.all x hx
    rcases mem_modify_intro i f hm with h1 | h1
    · exact ⟨m, h1, hmx, hmg⟩
    · exact ⟨f m, h1, (hh m hm).trans hmx, hg m hm hmg⟩

theorem single_getElem? {b b' : Bucket} {idx : Nat} (h : [b][idx]? = some b') : idx = 0 ∧ b' = b := by
  cases idx with
  | zero => simp at h; exact ⟨rfl, h.symm⟩
  | succ k => simp at h

/-- request marks (`local_request`, `remote_request`) keep the table of a node that knows everybody -/
theorem knows_modifyNode {sid : Bytes} {M : List Handle} {G : Nat} {t : Table} (h : Knows sid M G t)
    (hd : Handle) (now : Nat) (f : Node → Node)
    (hf : ∀ m, (f m).handle = m.handle ∧ (f m).lastResponse = m.lastResponse) :
    Knows sid M G (t.modifyNode hd now f).1 := by
  obtain ⟨ti, se⟩ := tinv_modifyNode t hd now f (knows_tinv h) hf
  refine ⟨se.1.trans h.self, se.2.trans h.routers, h.far, ?_⟩
  obtain ⟨ns, hb, hk⟩ := h.one
  revert ti
  unfold Table.modifyNode
  simp only
  cases hbk : t.buckets[t.bucketIndexFor hd.id]? with
  | none => intro _; exact ⟨ns, hb, hk⟩
  | some b =>
    simp only
    rw [hb] at hbk
    obtain ⟨h0, hbe⟩ := single_getElem? hbk
    subst hbe
    cases hp : positionOf (fun m => m.isPingable now && decide (m.handle = hd)) ns with
    | none => intro _; exact ⟨ns, hb, hk⟩
    | some i =>
      simp only
      intro ti
      refine ⟨ns.modify i f, by rw [hb, h0]; rfl, ?_⟩
      have hok : HandlesOk (ns.modify i f) := by
        have := ti.handles ⟨ns.modify i f⟩ (by rw [hb, h0]; simp)
        exact this
      exact knowsB_modify hk i f (fun m _ => (hf m).1) (fun m _ hm => by rw [(hf m).2]; exact hm)
        (fun m _ hg => by obtain ⟨r, hr, hG⟩ := hg; exact ⟨r, by rw [(hf m).2]; exact hr, hG⟩) hok

theorem knows_markRequested {sid : Bytes} {M : List Handle} {G : Nat} {t : Table} (h : Knows sid M G t)
    (hd : Handle) (now : Nat) : Knows sid M G (markRequested t hd now) :=
  knows_modifyNode h hd now _ (fun m => localRequest_keeps m now)

theorem lcp_self (a : Bytes) (h : a.length = 20) : lcp a a = maxBuckets := by
  unfold lcp
  rw [commonPrefix_self, idBits_length, h]; rfl

theorem knows_addNode {sid : Bytes} {M : List Handle} {G : Nat} {t : Table} (h : Knows sid M G t)
    (hsid : sid.length = 20) (hph : placeholderHandle ∉ M) (n : Node) (now : Nat)
    (hn : n.handle ∈ M ∨ n.handle.id = sid) (hnG : now ≤ G) (hgood : n.status now = .good → GoodTill G n) :
    Knows sid M G (t.addNode n now) := by
  obtain ⟨ti, se⟩ := tinv_addNode t n now (knows_tinv h)
  refine ⟨se.1.trans h.self, se.2.trans h.routers, h.far, ?_⟩
  obtain ⟨ns, hb, hk⟩ := h.one
  revert ti
  unfold Table.addNode Table.addNodeF
  split
  · intro _; exact ⟨ns, hb, hk⟩
  split
  · intro _; exact ⟨ns, hb, hk⟩
  simp only
  split
  · intro _; exact ⟨ns, hb, hk⟩
  rename_i hr hbad hk160
  unfold Table.addNodeF.bucketNodeF
  simp only
  cases hbk : t.buckets[bucketPlacement (lcp t.selfId n.handle.id) t.buckets.length]? with
  | none => intro _; exact ⟨ns, hb, hk⟩
  | some b =>
    simp only
    rw [hb] at hbk
    obtain ⟨h0, hbe⟩ := single_getElem? hbk
    subst hbe
    have hnM : n.handle ∈ M := by
      rcases hn with h1 | h1
      · exact h1
      · exact absurd (by rw [h.self, h1]; exact lcp_self sid hsid) hk160
    have ho := addNode_outcome ⟨ns⟩ n now
    generalize (⟨ns⟩ : Bucket).addNode n now = r at ho ⊢
    rw [hb]
    rw [h0]
    obtain ⟨m0, hm0, hm0x, hm0g⟩ := hk.all _ hnM
    cases ho with
    | offeredBad hx => exact absurd hx hbad
    | tookFree i hi _ hno _ => exact absurd hm0x (hno m0 hm0)
    | evicted i hi _ hno _ _ => exact absurd hm0x (hno m0 hm0)
    | rejected _ hno _ _ => exact absurd hm0x (hno m0 hm0)
    | updated i hi _ heq hfirst =>
      simp only [if_true, List.set_cons_zero]
      intro ti
      refine ⟨ns.modify i (fun m => m.update n now), rfl, ?_⟩
      have hok : HandlesOk (ns.modify i (fun m => m.update n now)) := ti.handles ⟨ns.modify i (fun m => m.update n now)⟩ (List.mem_singleton.mpr rfl)
      let g : Node → Node := fun m => if m.handle = n.handle then m.update n now else m
      have hmg : ns.modify i (fun m => m.update n now) = ns.modify i g := by
        apply List.ext_getElem (by simp)
        intro j h1 h2
        rw [List.getElem_modify, List.getElem_modify]
        by_cases hij : i = j
        · subst hij; simp only [if_true, g]; rw [if_pos heq]
        · simp only [hij, if_false]
      rw [hmg] at hok ⊢
      refine knowsB_modify hk i g (fun m _ => ?_) (fun m hm hd => ?_) (fun m hm hg => ?_) hok
      · simp only [g]; split
        · rename_i he; exact update_handle m n now he
        · rfl
      · simp only [g]
        rcases hk.slot m hm with ⟨_, h2⟩ | ⟨h2, ⟨r, hr, _⟩⟩
        · rw [if_neg (by rw [h2]; intro hc; exact hph (hc ▸ hnM))]; exact hd
        · rw [hr] at hd; cases hd
      · simp only [g]; split
        · unfold Node.update
          rw [goodTill_status hg now hnG]
          cases hs : n.status now with
          | good => simp only; obtain ⟨r, hr, hG⟩ := hgood hs; exact ⟨r, hr, hG⟩
          | questionable => exact hg
          | bad => exact hg
        · exact hg

/-- `add_nodes(responder, named)` with the responder as a good node and the named nodes as
questionable ones, all of them other nodes of the network or the node itself -/
theorem knows_addNodes {sid : Bytes} {M : List Handle} {G : Nat} {t : Table} (h : Knows sid M G t)
    (hsid : sid.length = 20) (hph : placeholderHandle ∉ M) (fr : Handle) (named : List Handle) (now : Nat)
    (hfr : fr ∈ M ∨ fr.id = sid) (hnamed : ∀ x ∈ named, x ∈ M ∨ x.id = sid)
    (hL : lastSeenNs ≤ now) (hnG : now ≤ G) (hGn : G < now + lastSeenNs) :
    Knows sid M G (t.addNodes (Node.asGood fr now) named now) := by
  unfold Table.addNodes
  have h1 : Knows sid M G (t.addNode (Node.asGood fr now) now) :=
    knows_addNode h hsid hph _ now hfr hnG (fun _ => ⟨now, rfl, hGn⟩)
  have key : ∀ (l : List Handle) (acc : Table), (∀ x ∈ l, x ∈ M ∨ x.id = sid) → Knows sid M G acc →
      Knows sid M G (l.foldl (fun acc h => acc.addNode (Node.asQuestionable h now) now) acc) := by
    intro l
    induction l with
    | nil => intro acc _ ha; exact ha
    | cons x xs ih =>
      intro acc hl ha
      refine ih _ (fun y hy => hl y (List.mem_cons_of_mem _ hy)) ?_
      refine knows_addNode ha hsid hph _ now (hl x List.mem_cons_self) hnG (fun hs => ?_)
      -- a node offered as questionable is not good (the clock is past 15 minutes)
      exfalso
      have hL0 : 0 < lastSeenNs := by decide
      simp only [Node.status, Node.asQuestionable] at hs
      rw [if_neg (by omega)] at hs
      have h2 : Constants.MAX_REFRESH_REQUESTS = 2 := rfl
      rw [h2] at hs
      simp at hs
  exact key named _ hnamed h1

/-! ### what is read off such a table -/

theorem knows_live {sid : Bytes} {M : List Handle} {G : Nat} {t : Table} (h : Knows sid M G t) (now : Nat) (hnG : now ≤ G) :
    (∀ m ∈ t.liveNodes now, m.handle ∈ M ∧ m.status now = .good) ∧
    (∀ x ∈ M, ∃ m ∈ t.liveNodes now, m.handle = x) ∧ (t.liveNodes now).length ≤ 8 := by
  obtain ⟨ns, hb, hk⟩ := h.one
  have hl : t.liveNodes now = ns.filter (·.isPingable now) := by
    simp [Table.liveNodes, hb, Bucket.pingable]
  rw [hl]
  refine ⟨fun m hm => ?_, fun x hx => ?_, ?_⟩
  · obtain ⟨h1, h2⟩ := List.mem_filter.mp hm
    rcases hk.slot m h1 with ⟨hd, _⟩ | ⟨hM, hg⟩
    · simp [Node.isPingable, dead_status hd] at h2
    · exact ⟨hM, goodTill_status hg now hnG⟩
  · obtain ⟨m, hm, hmx, hg⟩ := hk.all x hx
    exact ⟨m, List.mem_filter.mpr ⟨hm, by simp [Node.isPingable, goodTill_status hg now hnG]⟩, hmx⟩
  · exact Nat.le_trans (List.length_filter_le _ _) (Nat.le_of_eq hk.len)

/-- **the node list of a reply** of a node that knows everybody: exactly the other nodes of the
requested address family -/
theorem knows_replyNodes {sid : Bytes} {M : List Handle} {G : Nat} {t : Table} (h : Knows sid M G t) (hsid : sid.length = 20)
    (target : Bytes) (v6 : Bool) (now : Nat) (hnG : now ≤ G) :
    (∀ x ∈ replyNodes t target v6 now, x ∈ M ∧ x.addr.v6 = v6) ∧
    (∀ x ∈ M, x.addr.v6 = v6 → x ∈ replyNodes t target v6 now) := by
  have hperm := C09_perm t (knows_tinv h) (by rw [h.self]; exact hsid) target now
  obtain ⟨l1, l2, l3⟩ := knows_live h now hnG
  have h8 : Constants.REPLY_NODES_PER_FAMILY = 8 := by decide
  have hlen : ((t.closestNodes target now).filter (fun n => n.handle.addr.v6 = v6)).length ≤ 8 :=
    Nat.le_trans (List.length_filter_le _ _) (by rw [hperm.length_eq]; exact l3)
  unfold replyNodes
  rw [h8, List.take_of_length_le hlen]
  refine ⟨fun x hx => ?_, fun x hx hf => ?_⟩
  · obtain ⟨m, hm, rfl⟩ := List.mem_map.mp hx
    obtain ⟨hm1, hm2⟩ := List.mem_filter.mp hm
    exact ⟨(l1 m (hperm.mem_iff.mp hm1)).1, by simpa using hm2⟩
  · obtain ⟨m, hm, rfl⟩ := l2 x hx
    exact List.mem_map.mpr ⟨m, List.mem_filter.mpr ⟨hperm.mem_iff.mpr hm, by simpa using hf⟩, rfl⟩

/-- **the nodes a search starts from** on a node that knows everybody: all the other nodes -/
theorem knows_goodNodes {sid : Bytes} {M : List Handle} {G : Nat} {t : Table} (h : Knows sid M G t) (hsid : sid.length = 20)
    (target : Bytes) (now : Nat) (hnG : now ≤ G) :
    ∀ x, x ∈ (((t.closestNodes target now).filter (fun n => n.status now = .good)).take Constants.MAX_BUCKET_SIZE).map (·.handle) ↔ x ∈ M := by
  have hperm := C09_perm t (knows_tinv h) (by rw [h.self]; exact hsid) target now
  obtain ⟨l1, l2, l3⟩ := knows_live h now hnG
  have h8 : Constants.MAX_BUCKET_SIZE = 8 := by decide
  have hlen : ((t.closestNodes target now).filter (fun n => n.status now = .good)).length ≤ 8 :=
    Nat.le_trans (List.length_filter_le _ _) (by rw [hperm.length_eq]; exact l3)
  rw [h8, List.take_of_length_le hlen]
  intro x
  constructor
  · intro hx
    obtain ⟨m, hm, rfl⟩ := List.mem_map.mp hx
    exact (l1 m (hperm.mem_iff.mp (List.mem_filter.mp hm).1)).1
  · intro hx
    obtain ⟨m, hm, rfl⟩ := l2 x hx
    exact List.mem_map.mpr ⟨m, List.mem_filter.mpr ⟨hperm.mem_iff.mpr hm, by simp [(l1 m hm).2]⟩, rfl⟩

/-! ### a search changes the routing table by request marks only -/

/-- a property of tables kept by `local_request` marks -/
def MarkClosed (P : Table → Prop) : Prop := ∀ t h now, P t → P (markRequested t h now)

theorem requestRound_tbl {P : Table → Prop} (hP : MarkClosed P) (l : Lookup) (env : LEnv) (nodes : List (Handle × Bytes))
    (h : P env.table) : P (l.requestRound env nodes).2.1.table := by
  unfold Lookup.requestRound
  have key := foldl_pred (fun (acc : RoundAcc) => P acc.env.table) requestStep
    (fun b a hb => by unfold requestStep; simp only; split; exact hb; exact hP _ _ _ hb)
    nodes { l := l, env := env, effs := [], sent := 0 } h
  simp only
  split <;> exact key

theorem endgameRound_tbl {P : Table → Prop} (hP : MarkClosed P) (l : Lookup) (env : LEnv) (h : P env.table) :
    P (l.endgameRound env).2.1.table := by
  unfold Lookup.endgameRound
  simp only
  exact foldl_pred (fun (acc : EndAcc) => P acc.env.table) _
    (fun b a hb => by
      unfold endgameStep
      split
      · exact hb
      · simp only; split; exact hb; exact hP _ _ _ hb) l.sorted _ h

theorem continueSearch_tbl {P : Table → Prop} (hP : MarkClosed P) (l : Lookup) (env : LEnv)
    (it : Option (List (Handle × Bool))) (nd : Bytes) (h : P env.table) : P (l.continueSearch env it nd).2.1.table := by
  have h1 : P (l.iterRound env it nd).2.1.table := by
    unfold Lookup.iterRound
    cases it with
    | none => exact h
    | some picks => exact requestRound_tbl hP l env _ h
  unfold Lookup.continueSearch
  split
  · simp only
    split
    · exact endgameRound_tbl hP _ _ h1
    · exact h1
  · exact h

theorem recvResponse_tbl {P : Table → Prop} (hP : MarkClosed P) (l : Lookup) (env : LEnv) (fr : Handle) (tid : Tid) (rsp : Resp)
    (h : P env.table) : P (l.recvResponse env fr tid rsp).2.1.table := by
  unfold Lookup.recvResponse
  split
  · exact h
  · simp only
    apply continueSearch_tbl hP
    split <;> exact h

theorem recvTimeout_tbl {P : Table → Prop} (hP : MarkClosed P) (l : Lookup) (env : LEnv) (tid : Tid)
    (h : P env.table) : P (l.recvTimeout env tid).2.1.table := by
  unfold Lookup.recvTimeout
  split
  · exact h
  · simp only
    split
    · exact endgameRound_tbl hP _ _ h
    · exact h

theorem recvFinished_tbl {P : Table → Prop} (hP : MarkClosed P) (l : Lookup) (env : LEnv) (port : Option Nat)
    (h : P env.table) : P (l.recvFinished env port).2.1.table := by
  unfold Lookup.recvFinished
  simp only
  split
  · exact foldl_pred (fun (acc : Lookup × LEnv × List Effect) => P acc.2.1.table) _
      (fun b a hb => by unfold announceStep; simp only; split; exact hb; exact hP _ _ _ hb) _ _ h
  · exact h

theorem new_tbl {P : Table → Prop} (hP : MarkClosed P) (aid stream : Nat) (selfId : Bytes) (v6 : Bool) (target : Bytes) (ann : Bool)
    (env : LEnv) (h : P env.table) : P (Lookup.new aid stream selfId v6 target ann env).2.1.table := by
  unfold Lookup.new
  exact requestRound_tbl hP _ env _ h

theorem knows_markClosed (sid : Bytes) (M : List Handle) (G : Nat) : MarkClosed (Knows sid M G) :=
  fun _ h now hk => knows_markRequested hk h now

end Btdht
