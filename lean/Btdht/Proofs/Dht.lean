import Btdht.Model.Dht
import Btdht.Proofs.Handler
/-
Lemmas about the node model: what the lookup / handler steps do to the pending `TableRefresh`
timer entries (never add one), and the step structure of the node (`DState`).
-/
namespace Btdht

/-- the pending `TableRefresh` entries of a timer -/
def refreshEntries (t : Timer Task) : List (TimerEntry Task) := t.entries.filter (fun e => decide (e.task = .tableRefresh))

/-- `t'` holds no refresh entry that `t` does not hold (as a sub-list) -/
def RLe (t t' : Timer Task) : Prop := (refreshEntries t').Sublist (refreshEntries t)

theorem RLe.refl (t : Timer Task) : RLe t t := List.Sublist.refl _
theorem RLe.trans {a b c : Timer Task} (h1 : RLe a b) (h2 : RLe b c) : RLe a c := List.Sublist.trans h2 h1
theorem RLe.of_eq {a b : Timer Task} (h : b = a) : RLe a b := h ▸ RLe.refl a

theorem refresh_schedule_other (t : Timer Task) (d : Nat) (task : Task) (h : task ≠ .tableRefresh) :
    refreshEntries (t.scheduleAt d task).1 = refreshEntries t := by
  simp [refreshEntries, Timer.scheduleAt, List.filter_append, h]

theorem refresh_schedule_refresh (t : Timer Task) (d : Nat) :
    refreshEntries (t.scheduleAt d .tableRefresh).1 = refreshEntries t ++ [⟨d, t.nextId, .tableRefresh⟩] := by
  simp [refreshEntries, Timer.scheduleAt, List.filter_append]

theorem rle_cancel (t : Timer Task) (key : Nat × Nat) : RLe t (t.cancel key).1 := by
  unfold RLe refreshEntries Timer.cancel
  exact List.Sublist.filter _ List.filter_sublist

theorem rle_schedule_other (t : Timer Task) (d : Nat) (task : Task) (h : task ≠ .tableRefresh) :
    RLe t (t.scheduleAt d task).1 := by
  unfold RLe; rw [refresh_schedule_other t d task h]; exact List.Sublist.refl _

theorem requestStep_rle (acc : RoundAcc) (hd : Handle × Bytes) : RLe acc.env.timer (requestStep acc hd).env.timer := by
  unfold requestStep
  simp only
  split <;> exact rle_schedule_other _ _ _ (by simp)

theorem requestRound_rle (l : Lookup) (env : LEnv) (nodes : List (Handle × Bytes)) :
    RLe env.timer (l.requestRound env nodes).2.1.timer := by
  unfold Lookup.requestRound
  have h := foldl_pred (fun (acc : RoundAcc) => RLe env.timer acc.env.timer) requestStep
    (fun b a hb => RLe.trans hb (requestStep_rle b a)) nodes { l := l, env := env, effs := [], sent := 0 } (RLe.refl _)
  simp only
  split <;> exact h

theorem endgameStep_timer (key : Nat × Nat) (acc : EndAcc) (e : Bytes × Handle × Bool) :
    (endgameStep key acc e).env.timer = acc.env.timer := by
  unfold endgameStep
  split
  · rfl
  · simp only; split <;> rfl

theorem endgameRound_rle (l : Lookup) (env : LEnv) : RLe env.timer (l.endgameRound env).2.1.timer := by
  unfold Lookup.endgameRound
  simp only
  have h := foldl_pred (fun (acc : EndAcc) => acc.env.timer =
      (env.timer.scheduleAt (env.now + Constants.ENDGAME_TIMEOUT_ns) (.lookupEndGame ⟨l.aid, l.nextSeq⟩)).1)
    (endgameStep (env.timer.scheduleAt (env.now + Constants.ENDGAME_TIMEOUT_ns) (.lookupEndGame ⟨l.aid, l.nextSeq⟩)).2)
    (fun b a hb => by rw [endgameStep_timer]; exact hb) l.sorted
    { l := { l with inEndgame := true, nextSeq := l.nextSeq + 1 },
      env := { env with timer := (env.timer.scheduleAt (env.now + Constants.ENDGAME_TIMEOUT_ns) (.lookupEndGame ⟨l.aid, l.nextSeq⟩)).1 },
      effs := [], out := [] } rfl
  rw [h]
  exact rle_schedule_other _ _ _ (by simp)

theorem new_rle (aid stream : Nat) (selfId : Bytes) (v6 : Bool) (target : Bytes) (ann : Bool) (env : LEnv) :
    RLe env.timer (Lookup.new aid stream selfId v6 target ann env).2.1.timer := by
  unfold Lookup.new
  exact requestRound_rle _ _ _

theorem iterRound_rle (l : Lookup) (env : LEnv) (it : Option (List (Handle × Bool))) (nd : Bytes) :
    RLe env.timer (l.iterRound env it nd).2.1.timer := by
  unfold Lookup.iterRound
  split
  · exact requestRound_rle _ _ _
  · exact RLe.refl _

theorem continueSearch_rle (l : Lookup) (env : LEnv) (it : Option (List (Handle × Bool))) (nd : Bytes) :
    RLe env.timer (l.continueSearch env it nd).2.1.timer := by
  unfold Lookup.continueSearch
  split
  · simp only
    split
    · exact RLe.trans (iterRound_rle l env it nd) (endgameRound_rle _ _)
    · exact iterRound_rle l env it nd
  · exact RLe.refl _

theorem recvResponse_rle (l : Lookup) (env : LEnv) (fr : Handle) (tid : Tid) (rsp : Resp) :
    RLe env.timer (l.recvResponse env fr tid rsp).2.1.timer := by
  unfold Lookup.recvResponse
  split
  · exact RLe.refl _
  · simp only
    refine RLe.trans ?_ (continueSearch_rle _ _ _ _)
    split
    · exact rle_cancel _ _
    · exact RLe.refl _

theorem recvTimeout_rle (l : Lookup) (env : LEnv) (tid : Tid) : RLe env.timer (l.recvTimeout env tid).2.1.timer := by
  unfold Lookup.recvTimeout
  split
  · exact RLe.refl _
  · simp only
    split
    · exact endgameRound_rle _ _
    · exact RLe.refl _

theorem announceStep_timer (port : Option Nat) (acc : Lookup × LEnv × List Effect) (e : Bytes × Handle × Bool) :
    (announceStep port acc e).2.1.timer = acc.2.1.timer := by
  unfold announceStep
  simp only
  split <;> rfl

theorem recvFinished_timer (l : Lookup) (env : LEnv) (port : Option Nat) : (l.recvFinished env port).2.1.timer = env.timer := by
  unfold Lookup.recvFinished
  simp only
  split
  · exact foldl_pred (fun (acc : Lookup × LEnv × List Effect) => acc.2.1.timer = env.timer) (announceStep port)
      (fun b a hb => by rw [announceStep_timer]; exact hb) _ (l, env, []) rfl
  · rfl

-- ---------------------------------------------------------------- handler level

theorem completeLookup_timer (s : HState) (aid now : Nat) : (s.completeLookup aid now).1.timer = s.timer := by
  unfold HState.completeLookup
  split
  · rfl
  · simp only [HState.withEnv]
    rw [recvFinished_timer]
    rfl

theorem lookupResponse_rle (s : HState) (l : Lookup) (t? : Option Tid) (rsp : Resp) (src : Addr) (now : Nat) :
    RLe s.timer (s.lookupResponse l t? rsp src now).1.timer := by
  cases t? with
  | none =>
    simp only [HState.lookupResponse]
    split
    · rw [completeLookup_timer]; exact RLe.refl _
    · exact RLe.refl _
  | some t =>
    simp only [HState.lookupResponse]
    split
    · rw [completeLookup_timer]; exact recvResponse_rle _ _ _ _ _
    · exact recvResponse_rle _ _ _ _ _

theorem handleRequest_timer (s : HState) (tid : InTid) (r : Req) (src : Addr) (now : Nat) :
    (s.handleRequest tid r src now).1.timer = s.timer := by
  unfold HState.handleRequest
  split
  · rfl
  · cases r with
    | ping id => rfl
    | findNode id tg w => rfl
    | getPeers id ih w => rfl
    | announce id ih p tok =>
      simp only
      split
      · simp only [HState.checkToken, HState.markRemote]; split <;> rfl
      · split
        · simp only [HState.checkToken, HState.markRemote]; split <;> rfl
        · simp only [HState.checkToken, HState.markRemote]; split <;> rfl

theorem handleIncoming_rle (s : HState) (tid : InTid) (body : Body) (src : Addr) (now : Nat) :
    RLe s.timer (s.handleIncoming tid body src now).1.timer := by
  unfold HState.handleIncoming
  cases body with
  | req r => exact RLe.of_eq (handleRequest_timer s tid r src now)
  | err c m => exact RLe.refl _
  | resp r =>
    simp only [HState.handleResponse]
    split
    · exact RLe.refl _
    · split
      · exact lookupResponse_rle _ _ _ _ _ _
      · split <;> exact RLe.refl _

theorem afterNew_timer (s : HState) (r : Lookup × LEnv × List Effect) (now : Nat) :
    (s.afterNew r now).1.timer = r.2.1.timer := by
  unfold HState.afterNew
  simp only
  split
  · simp only [HState.withEnv]; rw [recvFinished_timer]; rfl
  · rfl

theorem startLookup_rle (s : HState) (target : Bytes) (ann : Bool) (now : Nat) :
    RLe s.timer (s.startLookup target ann now).1.timer := by
  unfold HState.startLookup
  rw [afterNew_timer]
  exact new_rle s.nextAid s.nextStream s.selfId s.v6 target ann (s.env now)

theorem handleTask_rle (s : HState) (task : Task) (now : Nat) (h : task ≠ .tableRefresh) :
    RLe s.timer (s.handleTask task now).1.timer := by
  cases task with
  | tableRefresh => exact absurd rfl h
  | lookupEndGame t => exact RLe.of_eq (completeLookup_timer s t.aid now)
  | lookupTimeout t =>
    simp only [HState.handleTask]
    split
    · exact RLe.refl _
    · simp only [HState.lookupTimeout]
      have h1 := recvTimeout_rle ‹Lookup› (s.env now) t
      split
      · rw [completeLookup_timer]; exact h1
      · exact h1

/-- the refresh round leaves the pending refresh entries and adds the next one, 6 s ahead -/
theorem refresh_entries (s : HState) (now : Nat) :
    refreshEntries (s.refresh now).1.timer =
      refreshEntries s.timer ++ [⟨now + Constants.REFRESH_INTERVAL_TIMEOUT_ns, s.timer.nextId, .tableRefresh⟩] := by
  unfold HState.refresh
  simp only
  have h := foldl_pred (fun (acc : HState × List HEffect) => acc.1.timer = s.timer)
    (fun (acc : HState × List HEffect) h =>
      ({ acc.1 with refreshSeq := acc.1.refreshSeq + 1, table := markRequested acc.1.table h now },
       acc.2 ++ [HEffect.send h.addr (.sym ⟨refreshAid, acc.1.refreshSeq⟩) (.req (.findNode acc.1.selfId (flipBit s.selfId (if s.refreshBucket = maxBuckets then 0 else s.refreshBucket)) none)) (!acc.1.failAddrs.contains h.addr)]))
    (fun b a hb => hb)
    ((((s.table.closestNodes (flipBit s.selfId (if s.refreshBucket = maxBuckets then 0 else s.refreshBucket)) now).filter
      (fun n => n.status now = .questionable && !n.recentlyRequestedFrom now)).take Constants.REFRESH_CONCURRENCY).map (·.handle)) (s, []) rfl
  simp only at h ⊢
  rw [refresh_schedule_refresh, h]



-- ---------------------------------------------------------------- monitors over the node's transitions

/-- read the events `evs`, all at instant `t`, with the monitor `scan` (`none`: the monitor objects) -/
def scanL {γ : Type} (scan : γ → Nat → DEv → Option γ) (g : γ) (t : Nat) : List DEv → Option γ
  | [] => some g
  | e :: rest => match scan g t e with
    | none => none
    | some g' => scanL scan g' t rest

def scanT {γ : Type} (scan : γ → Nat → DEv → Option γ) (g : γ) : List (Nat × DEv) → Option γ
  | [] => some g
  | e :: rest => match scan g e.1 e.2 with
    | none => none
    | some g' => scanT scan g' rest

theorem scanL_append {γ} (scan : γ → Nat → DEv → Option γ) (g : γ) (t : Nat) (a b : List DEv) :
    scanL scan g t (a ++ b) = (scanL scan g t a).bind (fun g' => scanL scan g' t b) := by
  induction a generalizing g with
  | nil => rfl
  | cons e rest ih =>
    simp only [List.cons_append, scanL]
    cases scan g t e with
    | none => rfl
    | some g' => exact ih g'

theorem scanT_append {γ} (scan : γ → Nat → DEv → Option γ) (g : γ) (a b : List (Nat × DEv)) :
    scanT scan g (a ++ b) = (scanT scan g a).bind (fun g' => scanT scan g' b) := by
  induction a generalizing g with
  | nil => rfl
  | cons e rest ih =>
    simp only [List.cons_append, scanT]
    cases scan g e.1 e.2 with
    | none => rfl
    | some g' => exact ih g'

theorem scanT_stamp {γ} (scan : γ → Nat → DEv → Option γ) (g : γ) (t : Nat) (evs : List DEv) :
    scanT scan g (stamp t evs) = scanL scan g t evs := by
  induction evs generalizing g with
  | nil => rfl
  | cons e rest ih =>
    simp only [stamp, List.map_cons, scanT, scanL]
    cases scan g t e with
    | none => rfl
    | some g' => exact ih g'

/-- "from `(s, g)` the transition to `s'` with events `evs` at `t` is accepted and re-establishes `I`" -/
def Ok {γ} (I : DState → γ → Prop) (scan : γ → Nat → DEv → Option γ) (g : γ) (t : Nat) (r : DState × List DEv) : Prop :=
  ∃ g', scanL scan g t r.2 = some g' ∧ I r.1 g'

theorem Ok.seq {γ} {I : DState → γ → Prop} {scan : γ → Nat → DEv → Option γ} {g : γ} {t : Nat}
    {s1 : DState} {e1 : List DEv} (h1 : Ok I scan g t (s1, e1)) {s2 : DState} {e2 : List DEv}
    (h2 : ∀ g', I s1 g' → Ok I scan g' t (s2, e2)) : Ok I scan g t (s2, e1 ++ e2) := by
  obtain ⟨g1, hs1, hi1⟩ := h1
  obtain ⟨g2, hs2, hi2⟩ := h2 g1 hi1
  exact ⟨g2, by rw [scanL_append, hs1]; exact hs2, hi2⟩

/-- the proof obligations of a monitored invariant, one per kind of transition -/
structure Obligations {γ : Type} (I : DState → γ → Prop) (scan : γ → Nat → DEv → Option γ) : Prop where
  clock : ∀ s g d, I s g → I { s with clock := d } g
  oracle : ∀ s g fr, I s g → I { s with frOracle := fr } g
  worker : ∀ s g now r, I s g → s.bStep now = some r → Ok I scan g now r
  timer : ∀ s g now r, I s g → s.fireOne now = some r → Ok I scan g now r
  observe : ∀ s g now, I s g → Ok I scan g now (s.hObserve now)
  command : ∀ s g now c, I s g → Ok I scan g now (s.command c now)
  datagram : ∀ s g now tid body src, I s g → Ok I scan g now (s.datagram tid body src now)
  garbage : ∀ s g now src, I s g → Ok I scan g now (s, [.undecodable src])

variable {γ : Type} {I : DState → γ → Prop} {scan : γ → Nat → DEv → Option γ}

theorem ok_nil (s : DState) (g : γ) (t : Nat) (h : I s g) : Ok I scan g t (s, []) := ⟨g, rfl, h⟩

theorem bRun_ok (ob : Obligations I scan) (fuel : Nat) (s : DState) (g : γ) (now : Nat) (h : I s g) :
    Ok I scan g now (DState.bRun fuel s now) := by
  induction fuel generalizing s g with
  | zero => exact ok_nil s g now h
  | succ n ih =>
    unfold DState.bRun
    cases hb : s.bStep now with
    | none => exact ok_nil s g now h
    | some r =>
      obtain ⟨s', evs⟩ := r
      simp only
      exact Ok.seq (ob.worker s g now (s', evs) h hb) (fun g' hi => ih s' g' hi)

theorem fireDue_ok (ob : Obligations I scan) (fuel : Nat) (s : DState) (g : γ) (now : Nat) (h : I s g) :
    Ok I scan g now (DState.fireDue fuel s now) := by
  induction fuel generalizing s g with
  | zero => exact ok_nil s g now h
  | succ n ih =>
    unfold DState.fireDue
    cases hb : s.fireOne now with
    | none => exact ok_nil s g now h
    | some r =>
      obtain ⟨s', evs⟩ := r
      simp only
      exact Ok.seq (ob.timer s g now (s', evs) h hb) (fun g' hi => ih s' g' hi)

theorem settle_ok (ob : Obligations I scan) (s : DState) (g : γ) (now : Nat) (h : I s g) :
    Ok I scan g now (s.settle now) := by
  unfold DState.settle
  exact Ok.seq (s1 := (DState.bRun bFuel s now).1) (e1 := (DState.bRun bFuel s now).2) (bRun_ok ob bFuel s g now h)
    (fun g' hi => ob.observe _ g' now hi)

theorem instant_ok (ob : Obligations I scan) (bf : Bool) (s : DState) (g : γ) (d : Nat) (h : I s g) :
    Ok I scan g d (s.instant bf d) := by
  unfold DState.instant
  simp only
  have h0 : Ok I scan g d (if bf then DState.bRun bFuel { s with clock := d } d else ({ s with clock := d }, [])) := by
    split
    · exact bRun_ok ob bFuel _ g d (ob.clock s g d h)
    · exact ok_nil _ g d (ob.clock s g d h)
  rw [List.append_assoc]
  refine Ok.seq (s1 := (if bf then DState.bRun bFuel { s with clock := d } d else ({ s with clock := d }, [])).1)
    (e1 := (if bf then DState.bRun bFuel { s with clock := d } d else ({ s with clock := d }, [])).2) h0 (fun g1 h1 => ?_)
  exact Ok.seq (s1 := (DState.fireDue 1000 _ d).1) (e1 := (DState.fireDue 1000 _ d).2) (fireDue_ok ob 1000 _ g1 d h1)
    (fun g2 h2 => settle_ok ob _ g2 d h2)

/-- timed version of `Ok` -/
def OkT (I : DState → γ → Prop) (scan : γ → Nat → DEv → Option γ) (g : γ) (r : DState × List (Nat × DEv)) : Prop :=
  ∃ g', scanT scan g r.2 = some g' ∧ I r.1 g'

theorem advance_ok (ob : Obligations I scan) (bf : Bool) (fuel : Nat) (s : DState) (g : γ) (t : Nat) (h : I s g) :
    OkT I scan g (DState.advance bf fuel s t) := by
  induction fuel generalizing s g with
  | zero => exact ⟨g, rfl, h⟩
  | succ n ih =>
    unfold DState.advance
    cases s.nextDeadline with
    | none => exact ⟨g, rfl, h⟩
    | some d =>
      simp only
      split
      · obtain ⟨g1, hs1, hi1⟩ := instant_ok ob bf s g (max d s.clock) h
        obtain ⟨g2, hs2, hi2⟩ := ih _ g1 hi1
        exact ⟨g2, by rw [scanT_append, scanT_stamp, hs1]; exact hs2, hi2⟩
      · exact ⟨g, rfl, h⟩

theorem input_ok (ob : Obligations I scan) (s : DState) (g : γ) (op : DOp) (t : Nat) (h : I s g) :
    Ok I scan g t (s.input op t) := by
  cases op with
  | adv => exact ok_nil s g t h
  | cmd c => exact ob.command s g t c h
  | datagram tid body src => exact ob.datagram s g t tid body src h
  | garbage src => exact ob.garbage s g t src h
  | worker => exact bRun_ok ob bFuel s g t h
  | timer1 =>
    show Ok I scan g t ((s.fireOne t).getD (s, []))
    cases hf : s.fireOne t with
    | none => exact ok_nil s g t h
    | some r => exact ob.timer s g t r h hf
  | observe => exact ob.observe s g t h

theorem inputs_ok (ob : Obligations I scan) (ops : List DOp) (s : DState) (g : γ) (t : Nat) (h : I s g) :
    Ok I scan g t (s.inputs ops t) := by
  induction ops generalizing s g with
  | nil => exact ok_nil s g t h
  | cons op rest ih =>
    unfold DState.inputs
    simp only
    exact Ok.seq (s1 := (s.input op t).1) (e1 := (s.input op t).2) (input_ok ob s g op t h) (fun g' hi => ih _ g' hi)

/-- the generalised step (several inputs back to back, possibly interleaved with explicit scheduler
choices at the same instant) is a sequence of the same kinds of transitions -/
theorem stepG_ok (ob : Obligations I scan) (s : DState) (g : γ) (ops : List DOp) (t : Nat) (bf : Bool) (hold : Bool)
    (h : I s g) : OkT I scan g (s.stepG ops t bf hold) := by
  unfold DState.stepG
  simp only
  generalize (if hold = true then max t s.clock - 1 else max t s.clock) = upTo
  obtain ⟨g1, hs1, hi1⟩ := advance_ok ob bf advFuel s g upTo h
  have h2 : Ok I scan g1 (max t s.clock)
      ((({ (DState.advance bf advFuel s upTo).1 with clock := max t s.clock }).inputs ops (max t s.clock)).1.settle (max t s.clock) |>.1,
       (({ (DState.advance bf advFuel s upTo).1 with clock := max t s.clock }).inputs ops (max t s.clock)).2 ++
       ((({ (DState.advance bf advFuel s upTo).1 with clock := max t s.clock }).inputs ops (max t s.clock)).1.settle (max t s.clock)).2) :=
    Ok.seq (s1 := (({ (DState.advance bf advFuel s upTo).1 with clock := max t s.clock }).inputs ops (max t s.clock)).1)
      (inputs_ok ob ops _ g1 _ (ob.clock _ g1 _ hi1)) (fun g' hi => settle_ok ob _ g' _ hi)
  obtain ⟨g2, hs2, hi2⟩ := h2
  refine ⟨g2, ?_, hi2⟩
  rw [scanT_append, hs1]
  simp only [Option.bind_some]
  rw [scanT_stamp]
  exact hs2

theorem step_ok (ob : Obligations I scan) (s : DState) (g : γ) (op : DOp) (t : Nat) (bf : Bool) (h : I s g) :
    OkT I scan g (s.step op t bf) := stepG_ok ob s g [op] t bf false h

theorem stepIn_ok (ob : Obligations I scan) (s : DState) (g : γ) (i : DInput) (h : I s g) : OkT I scan g (s.stepIn i) :=
  stepG_ok ob _ g i.ops i.t i.bFirst i.hold (ob.oracle s g i.fr h)

/-- **monitored invariants hold along every run**: if the monitor accepts each kind of transition
and the invariant is re-established, it accepts the event sequence of every run -/
theorem run_ok (ob : Obligations I scan) (s : DState) (g : γ) (ins : List DInput) (h : I s g) :
    OkT I scan g (s.run ins) := by
  induction ins generalizing s g with
  | nil => exact ⟨g, rfl, h⟩
  | cons i rest ih =>
    unfold DState.run
    simp only
    obtain ⟨g1, hs1, hi1⟩ := stepIn_ok ob s g i h
    obtain ⟨g2, hs2, hi2⟩ := ih _ g1 hi1
    exact ⟨g2, by rw [scanT_append, hs1]; exact hs2, hi2⟩

end Btdht

namespace Btdht

-- ---------------------------------------------------------------- what the bootstrap worker touches

/-- the worker changes the routing table, its own phase/attempt/ids/exchanges and the published
state, nothing else -/
structure WFrame (s s' : DState) : Prop where
  h : s'.h = { s.h with table := s'.h.table }
  waiters : s'.waiters = s.waiters
  nextWaiter : s'.nextWaiter = s.nextWaiter
  queued : s'.queued = s.queued
  once : s'.bootstrappedOnce = s.bootstrappedOnce
  started : s'.refreshStarted = s.refreshStarted
  seen : s'.seenVersion = s.seenVersion
  cfg : s'.cfg = s.cfg
  addr : s'.addr = s.addr
  clock : s'.clock = s.clock
  version : s.pubVersion ≤ s'.pubVersion
  pubSame : s'.pubVersion = s.pubVersion → s'.pub = s.pub

theorem WFrame.refl (s : DState) : WFrame s s := ⟨rfl, rfl, rfl, rfl, rfl, rfl, rfl, rfl, rfl, rfl, Nat.le_refl _, fun _ => rfl⟩

theorem WFrame.trans {a b c : DState} (h1 : WFrame a b) (h2 : WFrame b c) : WFrame a c where
  h := by rw [h2.h, h1.h]
  waiters := h2.waiters.trans h1.waiters
  nextWaiter := h2.nextWaiter.trans h1.nextWaiter
  queued := h2.queued.trans h1.queued
  once := h2.once.trans h1.once
  started := h2.started.trans h1.started
  seen := h2.seen.trans h1.seen
  cfg := h2.cfg.trans h1.cfg
  addr := h2.addr.trans h1.addr
  clock := h2.clock.trans h1.clock
  version := Nat.le_trans h1.version h2.version
  pubSame := fun h => by
    have hb : b.pubVersion = a.pubVersion := Nat.le_antisymm (h ▸ h2.version) h1.version
    have hc : c.pubVersion = b.pubVersion := h.trans hb.symm
    rw [h2.pubSame hc, h1.pubSame hb]

/-- events only the worker emits in its own transitions -/
def DEv.isWorker : DEv → Bool
  | .bpub _ | .battempt _ _ | .binitialDone _ | .bround _ _ | .bsweep _ _ | .bcheck | .send _ _ _ _ => true
  | _ => false

theorem setPub_frame (s : DState) (p : BPub) : WFrame s (s.setPub p).1 ∧ ∀ e ∈ (s.setPub p).2, e.isWorker = true := by
  unfold DState.setPub
  split
  · exact ⟨WFrame.refl s, by simp⟩
  · refine ⟨⟨rfl, rfl, rfl, rfl, rfl, rfl, rfl, rfl, rfl, rfl, Nat.le_succ _, fun h => ?_⟩, by simp [DEv.isWorker]⟩
    simp at h

/-- a state that differs from `s` in worker fields only -/
theorem wframe_fields (s : DState) (phase : BPhase) (attempt bseq : Nat) (stale : List Pending) (fr : List Addr) :
    WFrame s { s with phase := phase, attempt := attempt, bseq := bseq, stale := stale, frOracle := fr } :=
  ⟨rfl, rfl, rfl, rfl, rfl, rfl, rfl, rfl, rfl, rfl, Nat.le_refl _, fun _ => rfl⟩

theorem wframe_both (s : DState) (t : Table) (phase : BPhase) (attempt bseq : Nat) (stale : List Pending) (fr : List Addr) :
    WFrame s { s with h := { s.h with table := t }, phase := phase, attempt := attempt, bseq := bseq, stale := stale, frOracle := fr } :=
  ⟨rfl, rfl, rfl, rfl, rfl, rfl, rfl, rfl, rfl, rfl, Nat.le_refl _, fun _ => rfl⟩

theorem wframe_table (s : DState) (t : Table) : WFrame s { s with h := { s.h with table := t } } :=
  ⟨rfl, rfl, rfl, rfl, rfl, rfl, rfl, rfl, rfl, rfl, Nat.le_refl _, fun _ => rfl⟩

theorem beginAttempt_frame (s : DState) (now : Nat) :
    WFrame s (s.beginAttempt now).1 ∧ ∀ e ∈ (s.beginAttempt now).2, e.isWorker = true := by
  unfold DState.beginAttempt
  simp only
  split
  · have h := setPub_frame { s with stale := [] } .bootstrapped
    exact ⟨WFrame.trans (WFrame.trans (wframe_fields s s.phase s.attempt s.bseq [] s.frOracle) h.1) (wframe_fields _ .forever _ _ _ _), h.2⟩
  · split
    · have h := setPub_frame { s with stale := [], h := { s.h with table := { s.h.table with routers := (s.cfg.contacts).1 } } } .idle
      refine ⟨WFrame.trans (WFrame.trans (WFrame.trans (wframe_fields s s.phase s.attempt s.bseq [] s.frOracle) (wframe_table _ _)) h.1) (wframe_fields _ _ _ _ _ _), ?_⟩
      intro e he
      simp only [List.mem_append, List.mem_singleton] at he
      rcases he with rfl | he
      · rfl
      · exact h.2 e he
    · have h := setPub_frame { s with stale := [], h := { s.h with table := { s.h.table with routers := (s.cfg.contacts).1 } } } .initialContact
      refine ⟨WFrame.trans (WFrame.trans (WFrame.trans (wframe_fields s s.phase s.attempt s.bseq [] s.frOracle) (wframe_table _ _)) h.1) (wframe_fields _ _ _ _ _ _), ?_⟩
      intro e he
      simp only [List.mem_append, List.mem_singleton] at he
      rcases he with rfl | he
      · rfl
      · exact h.2 e he

theorem finishInitial_frame (s : DState) (responses : Nat) (remaining : List Pending) (now : Nat) :
    WFrame s (s.finishInitial responses remaining now).1 ∧ ∀ e ∈ (s.finishInitial responses remaining now).2, e.isWorker = true := by
  unfold DState.finishInitial
  split
  · have h := setPub_frame s .idle
    refine ⟨WFrame.trans h.1 (wframe_fields _ _ _ _ _ _), ?_⟩
    intro e he
    simp only [List.mem_append, List.mem_singleton] at he
    rcases he with rfl | he
    · rfl
    · exact h.2 e he
  · have h := setPub_frame s .bootstrapping
    refine ⟨WFrame.trans h.1 (wframe_fields _ _ _ _ _ _), ?_⟩
    intro e he
    simp only [List.mem_append, List.mem_singleton] at he
    rcases he with rfl | he
    · rfl
    · exact h.2 e he

theorem sweepDone_frame (s : DState) (now : Nat) :
    WFrame s (s.sweepDone now).1 ∧ ∀ e ∈ (s.sweepDone now).2, e.isWorker = true := by
  unfold DState.sweepDone
  simp only
  split
  · have h := setPub_frame s .idle
    refine ⟨WFrame.trans h.1 (wframe_fields _ _ _ _ _ _), ?_⟩
    intro e he
    simp only [List.mem_append, List.mem_singleton] at he
    rcases he with rfl | he
    · rfl
    · exact h.2 e he
  · have h := setPub_frame s .bootstrapped
    refine ⟨WFrame.trans h.1 (wframe_fields _ _ _ _ _ _), ?_⟩
    intro e he
    simp only [List.mem_append, List.mem_singleton] at he
    rcases he with rfl | he
    · rfl
    · exact h.2 e he

theorem bucketSend_frame (s0 : DState) (target : Bytes) (now : Nat) (acc : DState × List Pending × List DEv) (hd : Handle)
    (h : WFrame s0 acc.1 ∧ ∀ e ∈ acc.2.2, e.isWorker = true) :
    WFrame s0 (bucketSend target now acc hd).1 ∧ ∀ e ∈ (bucketSend target now acc hd).2.2, e.isWorker = true := by
  obtain ⟨s, active, evs⟩ := acc
  unfold bucketSend
  simp only
  split
  · refine ⟨WFrame.trans h.1 (WFrame.trans (wframe_fields s s.phase s.attempt (s.bseq + 1) s.stale s.frOracle) (wframe_table _ _)), ?_⟩
    intro e he
    simp only [List.mem_append, List.mem_singleton] at he
    rcases he with he | rfl
    · exact h.2 e he
    · rfl
  · refine ⟨WFrame.trans h.1 (wframe_fields s s.phase s.attempt (s.bseq + 1) s.stale s.frOracle), ?_⟩
    intro e he
    simp only [List.mem_append, List.mem_singleton] at he
    rcases he with he | rfl
    · exact h.2 e he
    · rfl

theorem firstRoundSend_frame (s : DState) (tid : Tid) (rl nl : List Addr) (count : Nat) (active : List Pending)
    (responses stopAt now : Nat) (r : DState × List DEv) (hr : s.firstRoundSend tid rl nl count active responses stopAt now = some r) :
    WFrame s r.1 ∧ ∀ e ∈ r.2, e.isWorker = true := by
  unfold DState.firstRoundSend at hr
  split at hr
  · simp at hr
  · simp only [Option.some.injEq] at hr; subst hr
    exact ⟨wframe_fields _ _ _ _ _ _, by simp [DEv.isWorker]⟩

theorem bucketRound_frame (s : DState) (k now : Nat) :
    WFrame s (s.bucketRound k now).1 ∧ ∀ e ∈ (s.bucketRound k now).2, e.isWorker = true := by
  unfold DState.bucketRound
  have hf := foldl_pred (fun (acc : DState × List Pending × List DEv) => WFrame s acc.1 ∧ ∀ e ∈ acc.2.2, e.isWorker = true)
    (bucketSend (flipBit s.h.selfId k) now) (fun b a hbb => bucketSend_frame s _ now b a hbb) (s.bucketPicks k now) (s, [], [])
    ⟨WFrame.refl s, by simp⟩
  simp only
  generalize (s.bucketPicks k now).foldl (bucketSend (flipBit s.h.selfId k) now) (s, [], []) = acc at hf ⊢
  obtain ⟨s', active, evs⟩ := acc
  simp only at hf ⊢
  have hev : ∀ e ∈ (if (s.bucketPicks k now).isEmpty = true then evs else [DEv.bround k (s.bucketPicks k now).length] ++ evs), e.isWorker = true := by
    intro e he
    split at he
    · exact hf.2 e he
    · simp only [List.mem_append, List.mem_singleton, List.cons_append, List.nil_append, List.mem_cons] at he
      rcases he with rfl | he
      · rfl
      · exact hf.2 e he
  split
  · exact ⟨WFrame.trans hf.1 (wframe_fields _ _ _ _ _ _), hev⟩
  · exact ⟨WFrame.trans hf.1 (wframe_fields _ _ _ _ _ _), hev⟩

theorem periodicCheck_frame (s : DState) (now : Nat) :
    WFrame s (s.periodicCheck now).1 ∧ ∀ e ∈ (s.periodicCheck now).2, e.isWorker = true := by
  unfold DState.periodicCheck
  split
  · have h := beginAttempt_frame s now
    refine ⟨h.1, ?_⟩
    intro e he
    simp only [List.mem_append, List.mem_singleton, List.cons_append, List.nil_append, List.mem_cons] at he
    rcases he with rfl | he
    · rfl
    · exact h.2 e he
  · exact ⟨wframe_fields _ _ _ _ _ _, by simp [DEv.isWorker]⟩

/-- **the worker's own transitions** touch nothing of the handler but the routing table, and emit
only worker events -/
theorem bStepMain_frame (s : DState) (now : Nat) (r : DState × List DEv) (hb : s.bStepMain now = some r) :
    WFrame s r.1 ∧ ∀ e ∈ r.2, e.isWorker = true := by
  unfold DState.bStepMain at hb
  split at hb
  · simp at hb
  · simp at hb
  · split at hb
    · simp only [Option.some.injEq] at hb; subst hb; exact beginAttempt_frame s now
    · simp at hb
  · split at hb
    · simp only [Option.some.injEq] at hb; subst hb; exact periodicCheck_frame s now
    · simp at hb
  · simp only at hb
    split at hb
    · simp only [Option.some.injEq] at hb; subst hb
      exact ⟨wframe_fields _ _ _ _ _ _, by simp⟩
    · split at hb
      · split at hb
        · simp only [Option.some.injEq] at hb; subst hb; exact finishInitial_frame s _ [] now
        · simp at hb
      · split at hb
        · split at hb
          · exact firstRoundSend_frame s _ _ _ _ _ _ _ now r hb
          · simp at hb
        · split at hb
          · simp only [Option.some.injEq] at hb; subst hb
            exact ⟨wframe_fields _ _ _ _ _ _, by simp⟩
          · exact firstRoundSend_frame s _ _ _ _ _ _ _ now r hb
  · split at hb
    · simp only [Option.some.injEq] at hb; subst hb; exact bucketRound_frame s _ now
    · simp only [Option.some.injEq] at hb; subst hb; exact sweepDone_frame s now
  · simp only at hb
    split at hb
    · simp only [Option.some.injEq] at hb; subst hb
      exact ⟨wframe_fields _ _ _ _ _ _, by simp⟩
    · split at hb
      · simp only [Option.some.injEq] at hb; subst hb
        exact ⟨wframe_fields _ _ _ _ _ _, by simp⟩
      · simp at hb

/-- events of the worker's `handle_message` -/
def DEv.isWorkerMsg : DEv → Bool
  | .bhandled _ | .bignored _ => true
  | e => e.isWorker

theorem workerMessage_frame (s : DState) (p : Pending) (body : Body) (src : Addr) (now : Nat) :
    WFrame s (s.workerMessage p body src now).1 ∧ ∀ e ∈ (s.workerMessage p body src now).2, e.isWorkerMsg = true := by
  unfold DState.workerMessage
  cases body with
  | resp r =>
    simp only
    split
    · split
      · split
        · refine ⟨WFrame.trans ?_ (finishInitial_frame _ _ _ now).1, ?_⟩
          · exact wframe_table s _
          · intro e he
            simp only [List.cons_append, List.nil_append, List.mem_cons] at he
            rcases he with rfl | he
            · rfl
            · have := (finishInitial_frame _ _ _ now).2 e he; cases e <;> simp_all [DEv.isWorkerMsg, DEv.isWorker]
        · exact ⟨wframe_both _ _ _ _ _ _ _, by simp [DEv.isWorkerMsg]⟩
      · exact ⟨wframe_fields _ _ _ _ _ _, by simp⟩
    · split
      · exact ⟨wframe_both _ _ _ _ _ _ _, by simp [DEv.isWorkerMsg]⟩
      · exact ⟨wframe_fields _ _ _ _ _ _, by simp⟩
    · exact ⟨wframe_fields _ _ _ _ _ _, by simp⟩
  | req r =>
    simp only
    split
    · split
      · exact ⟨wframe_fields _ _ _ _ _ _, by simp [DEv.isWorkerMsg]⟩
      · exact ⟨wframe_fields _ _ _ _ _ _, by simp⟩
    · split
      · exact ⟨wframe_fields _ _ _ _ _ _, by simp [DEv.isWorkerMsg]⟩
      · exact ⟨wframe_fields _ _ _ _ _ _, by simp⟩
    · exact ⟨wframe_fields _ _ _ _ _ _, by simp⟩
  | err c m =>
    simp only
    split
    · split
      · exact ⟨wframe_fields _ _ _ _ _ _, by simp [DEv.isWorkerMsg]⟩
      · exact ⟨wframe_fields _ _ _ _ _ _, by simp⟩
    · split
      · exact ⟨wframe_fields _ _ _ _ _ _, by simp [DEv.isWorkerMsg]⟩
      · exact ⟨wframe_fields _ _ _ _ _ _, by simp⟩
    · exact ⟨wframe_fields _ _ _ _ _ _, by simp⟩

theorem isWorkerMsg_of_isWorker (e : DEv) (h : e.isWorker = true) : e.isWorkerMsg = true := by
  cases e <;> simp_all [DEv.isWorkerMsg, DEv.isWorker]

/-- dropping / adding answers waiting for the worker touches nothing the frame speaks about -/
theorem wframe_ready (s : DState) (r : List (Pending × Body × Addr)) : WFrame s { s with ready := r } :=
  ⟨rfl, rfl, rfl, rfl, rfl, rfl, rfl, rfl, rfl, rfl, Nat.le_refl _, fun _ => rfl⟩

/-- **every transition of the worker** (handling an answer that was routed to it, or one of its
own transitions) touches nothing of the handler but the routing table -/
theorem bStep_frame (s : DState) (now : Nat) (r : DState × List DEv) (hb : s.bStep now = some r) :
    WFrame s r.1 ∧ ∀ e ∈ r.2, e.isWorkerMsg = true := by
  unfold DState.bStep at hb
  split at hb
  · simp only [Option.some.injEq] at hb; subst hb
    rename_i p body src rest _
    have h := workerMessage_frame { s with ready := rest } p body src now
    exact ⟨WFrame.trans (wframe_ready s rest) h.1, h.2⟩
  · have h := bStepMain_frame s now r hb
    exact ⟨h.1, fun e he => isWorkerMsg_of_isWorker e (h.2 e he)⟩

theorem startLookup_once (s : DState) (ih : Bytes) (ann : Bool) (now : Nat) (h : s.bootstrappedOnce = true) :
    s.startLookup ih ann now = ({ s with h := (s.h.startLookup ih ann now).1 }, liftH (s.h.startLookup ih ann now).2.1) := by
  unfold DState.startLookup
  rw [if_neg (by simp [h])]

-- ---------------------------------------------------------------- what the handler's steps leave alone

/-- the handler-side transitions do not touch the worker's state -/
structure HFrame (s s' : DState) : Prop where
  cfg : s'.cfg = s.cfg
  phase : s'.phase = s.phase
  attempt : s'.attempt = s.attempt
  bseq : s'.bseq = s.bseq
  stale : s'.stale = s.stale
  pub : s'.pub = s.pub
  version : s'.pubVersion = s.pubVersion
  addr : s'.addr = s.addr
  ready : s'.ready = s.ready

theorem HFrame.refl (s : DState) : HFrame s s := ⟨rfl, rfl, rfl, rfl, rfl, rfl, rfl, rfl, rfl⟩

theorem HFrame.trans {a b c : DState} (h1 : HFrame a b) (h2 : HFrame b c) : HFrame a c :=
  ⟨h2.cfg.trans h1.cfg, h2.phase.trans h1.phase, h2.attempt.trans h1.attempt, h2.bseq.trans h1.bseq,
   h2.stale.trans h1.stale, h2.pub.trans h1.pub, h2.version.trans h1.version, h2.addr.trans h1.addr,
   h2.ready.trans h1.ready⟩

theorem refreshRound_hframe (s : DState) (now : Nat) : HFrame s (s.refreshRound now).1 ∧
    (s.refreshRound now).1.waiters = s.waiters ∧ (s.refreshRound now).1.seenVersion = s.seenVersion := by
  unfold DState.refreshRound
  exact ⟨⟨rfl, rfl, rfl, rfl, rfl, rfl, rfl, rfl, rfl⟩, rfl, rfl⟩

theorem startLookup_hframe (s : DState) (ih : Bytes) (ann : Bool) (now : Nat) : HFrame s (s.startLookup ih ann now).1 ∧
    (s.startLookup ih ann now).1.waiters = s.waiters ∧ (s.startLookup ih ann now).1.seenVersion = s.seenVersion := by
  unfold DState.startLookup
  split
  · exact ⟨⟨rfl, rfl, rfl, rfl, rfl, rfl, rfl, rfl, rfl⟩, rfl, rfl⟩
  · exact ⟨⟨rfl, rfl, rfl, rfl, rfl, rfl, rfl, rfl, rfl⟩, rfl, rfl⟩

theorem startQueued_hframe (s : DState) (now : Nat) : HFrame s (s.startQueued now).1 ∧
    (s.startQueued now).1.waiters = s.waiters ∧ (s.startQueued now).1.seenVersion = s.seenVersion := by
  unfold DState.startQueued
  have hf := foldl_pred (fun (acc : DState × List DEv) => HFrame s acc.1 ∧ acc.1.waiters = s.waiters ∧ acc.1.seenVersion = s.seenVersion)
    (fun (acc : DState × List DEv) q => ((acc.1.startLookup q.1 q.2 now).1, acc.2 ++ (acc.1.startLookup q.1 q.2 now).2))
    (fun b a hb => by
      have h := startLookup_hframe b.1 a.1 a.2 now
      exact ⟨HFrame.trans hb.1 h.1, h.2.1.trans hb.2.1, h.2.2.trans hb.2.2⟩)
    s.queued ({ s with queued := [] }, []) ⟨⟨rfl, rfl, rfl, rfl, rfl, rfl, rfl, rfl, rfl⟩, rfl, rfl⟩
  exact hf

theorem firstRefresh_hframe (s : DState) (now : Nat) : HFrame s (s.firstRefresh now).1 ∧
    (s.firstRefresh now).1.waiters = s.waiters ∧ (s.firstRefresh now).1.seenVersion = s.seenVersion := by
  unfold DState.firstRefresh
  split
  · exact ⟨HFrame.refl s, rfl, rfl⟩
  · have h := refreshRound_hframe { s with refreshStarted := true } now
    exact ⟨HFrame.trans (b := { s with refreshStarted := true }) ⟨rfl, rfl, rfl, rfl, rfl, rfl, rfl, rfl, rfl⟩ h.1, h.2.1, h.2.2⟩

/-- handling a bootstrap completion: worker state untouched, nobody left waiting -/
theorem bootstrapSuccess_hframe (s : DState) (now : Nat) : HFrame s (s.bootstrapSuccess now).1 ∧
    (s.bootstrapSuccess now).1.waiters = [] ∧ (s.bootstrapSuccess now).1.seenVersion = s.seenVersion := by
  unfold DState.bootstrapSuccess
  simp only
  have h1 := firstRefresh_hframe { s with waiters := [] } now
  have h2 := startQueued_hframe { (({ s with waiters := [] } : DState).firstRefresh now).1 with bootstrappedOnce := true } now
  refine ⟨HFrame.trans (HFrame.trans (b := { s with waiters := [] }) ⟨rfl, rfl, rfl, rfl, rfl, rfl, rfl, rfl, rfl⟩ h1.1)
    (HFrame.trans (b := { (({ s with waiters := [] } : DState).firstRefresh now).1 with bootstrappedOnce := true }) ⟨rfl, rfl, rfl, rfl, rfl, rfl, rfl, rfl, rfl⟩ h2.1), ?_, ?_⟩
  · rw [h2.2.1]; exact h1.2.1
  · rw [h2.2.2]; exact h1.2.2

theorem fireOne_hframe (s : DState) (now : Nat) (r : DState × List DEv) (hf : s.fireOne now = some r) :
    HFrame s r.1 ∧ r.1.waiters = s.waiters ∧ r.1.seenVersion = s.seenVersion := by
  unfold DState.fireOne at hf
  cases hp : s.h.timer.pop with
  | none => simp [hp] at hf
  | some pe =>
    obtain ⟨timer, e⟩ := pe
    simp only [hp] at hf
    split at hf
    · split at hf
      · simp only [Option.some.injEq] at hf; subst hf
        have h := refreshRound_hframe { s with h := { s.h with timer := timer } } now
        exact ⟨HFrame.trans (b := { s with h := { s.h with timer := timer } }) ⟨rfl, rfl, rfl, rfl, rfl, rfl, rfl, rfl, rfl⟩ h.1, h.2.1, h.2.2⟩
      · simp only [Option.some.injEq] at hf; subst hf
        exact ⟨⟨rfl, rfl, rfl, rfl, rfl, rfl, rfl, rfl, rfl⟩, rfl, rfl⟩
    · simp at hf

end Btdht
