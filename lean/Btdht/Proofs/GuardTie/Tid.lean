import Btdht.Generated.Guards
import Btdht.Model.Tid
/-! Tie of the id-generator model to the wrap guards regenerated from src/transaction.rs. -/
namespace Btdht

theorem guardtie_aid_wrap (nextAlloc : Nat) :
    blockStart nextAlloc maxActionId = if Guards.aid_wrap nextAlloc then 0 else nextAlloc := by
  unfold blockStart Guards.aid_wrap maxActionId
  by_cases h : nextAlloc = 2 ^ (Constants.ACTION_ID_BYTES * 8) <;> simp [h]

theorem guardtie_mid_wrap (nextAlloc : Nat) :
    blockStart nextAlloc maxMessageId = if Guards.mid_wrap nextAlloc then 0 else nextAlloc := by
  unfold blockStart Guards.mid_wrap maxMessageId
  by_cases h : nextAlloc = 2 ^ (Constants.MESSAGE_ID_BYTES * 8) <;> simp [h]

end Btdht
