import Btdht.Generated.Guards
import Btdht.Model.Lookup
/-! Tie of the search model to the guard regenerated from src/action/lookup.rs. -/
namespace Btdht

theorem guardtie_lookup_token_fits (l : Lookup) (from_ : Handle) (tok? : Option Bytes) :
    l.recordToken from_ tok? =
      (match tok? with
       | some tok =>
         if Guards.lookup_token_fits tok.length then { l with tokens := (l.tokens.filter (·.1 ≠ from_)) ++ [(from_, tok)] }
         else l
       | none => l) := by
  cases tok? with
  | none => rfl
  | some tok => simp [Lookup.recordToken, Guards.lookup_token_fits]

end Btdht
