import Btdht.Generated.Guards
import Btdht.Model.Token
/-! Tie of the token-store model to the arithmetic regenerated from src/token.rs. -/
namespace Btdht

theorem guardtie_token_intervals (lastRefresh now : Nat) :
    intervalsPassed lastRefresh now = Guards.token_intervals (now - lastRefresh) := rfl

end Btdht
