import Btdht.Generated.Guards
import Btdht.Model.Node
/-! Tie of the contact-status model to the guards regenerated from src/node.rs. -/
namespace Btdht

theorem guardtie_node_status (n : Node) (now : Nat) :
    n.status now =
      (match n.lastResponse with
       | none => .bad
       | some r =>
         if Guards.node_recent_response (now - r) then .good
         else if Guards.node_struck_out n.refreshRequests then .bad
         else match n.lastRequest with
           | some q => if Guards.node_recent_request (now - q) then .good else .questionable
           | none => .questionable) := by
  unfold Node.status Guards.node_recent_response Guards.node_struck_out Guards.node_recent_request lastSeenNs
  cases n.lastResponse with
  | none => rfl
  | some r =>
    simp only [decide_eq_true_eq]
    cases n.lastRequest <;> rfl

theorem guardtie_node_recently_requested (n : Node) (now : Nat) :
    n.recentlyRequestedFrom now =
      (match n.lastLocalRequest with
       | some t => Guards.node_recently_requested now t
       | none => false) := by
  unfold Node.recentlyRequestedFrom Guards.node_recently_requested
  cases n.lastLocalRequest with
  | none => rfl
  | some t =>
    have : Constants.RECENTLY_REQUESTED_SECS * 1000000000 = ((30) * 1000000000) := by decide
    simp only [this]

end Btdht
