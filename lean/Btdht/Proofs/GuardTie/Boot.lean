import Btdht.Generated.Guards
import Btdht.Model.Dht
/-! Tie of the bootstrap-worker model to the guards regenerated from src/action/bootstrap.rs. -/
namespace Btdht

/-- after the sweep: `num_good_nodes < GOOD_NODE_THRESHOLD` (and routers configured) → back off -/
theorem guardtie_bootstrap_sweep (s : DState) (now : Nat) :
    s.sweepDone now =
      (let good := s.h.table.numGood now
       let quest := s.h.table.numQuestionable now
       if Guards.bootstrap_too_few_good good && !(dedup s.cfg.routers).isEmpty then
         let r := s.setPub .idle
         ({ r.1 with phase := .sleeping (now + retryDelay r.1.attempt), attempt := r.1.attempt + 1 },
          [DEv.bsweep good quest] ++ r.2)
       else
         let r := s.setPub .bootstrapped
         ({ r.1 with phase := .bootstrapped (now + Constants.PERIODIC_CHECK_TIMEOUT_ns), attempt := 0 },
          [DEv.bsweep good quest] ++ r.2)) := by
  simp [DState.sweepDone, Guards.bootstrap_too_few_good]

/-- the periodic check: `num_good_nodes() < GOOD_NODE_THRESHOLD` → a new attempt -/
theorem guardtie_bootstrap_check (s : DState) (now : Nat) :
    s.periodicCheck now =
      (if Guards.bootstrap_too_few_good (s.h.table.numGood now) then
         ((s.beginAttempt now).1, [DEv.bcheck] ++ (s.beginAttempt now).2)
       else ({ s with phase := .bootstrapped (now + Constants.PERIODIC_CHECK_TIMEOUT_ns) }, [.bcheck])) := by
  simp [DState.periodicCheck, Guards.bootstrap_too_few_good]

/-- first round, no exchange timed out, contacts left, no throttle sleep running:
`count > PINGS_PER_BUCKET` → sleep before the next send -/
theorem guardtie_bootstrap_throttle (s : DState) (now : Nat) (tid : Tid) (rl nl : List Addr) (count : Nat)
    (active : List Pending) (responses stopAt : Nat)
    (hp : s.phase = .initial tid rl nl none count active responses stopAt)
    (hlive : ¬ (active.filter (fun p => now < p.deadline)).length < active.length)
    (hleft : (rl.isEmpty && nl.isEmpty) = false) :
    s.bStepMain now =
      (if Guards.bootstrap_throttle count then
         some ({ s with phase := .initial tid rl nl (some (now + throttleDelay)) count active responses stopAt }, [])
       else s.firstRoundSend tid rl nl count active responses stopAt now) := by
  have hc : Constants.BOOTSTRAP_THROTTLE_AFTER = Constants.PINGS_PER_BUCKET := by decide
  unfold DState.bStepMain
  rw [hp]
  simp only [hlive, if_false, hleft, Bool.false_eq_true, Guards.bootstrap_throttle, hc, decide_eq_true_eq]

/-- first round: an accepted response ends the round when `responses_received >= stop_at` -/
theorem guardtie_bootstrap_enough (s : DState) (p : Pending) (r : Resp) (src : Addr) (now : Nat) (tid : Tid)
    (rl nl : List Addr) (sl : Option Nat) (count : Nat) (active : List Pending) (responses stopAt : Nat)
    (hp : s.phase = .initial tid rl nl sl count active responses stopAt) (ha : active.contains p = true) :
    s.workerMessage p (.resp r) src now =
      (let s' : DState := { s with h := { s.h with table := s.h.table.addNodes (Node.asGood ⟨r.id, src⟩ now) (s.h.namedBy r) now } }
       if Guards.bootstrap_enough_responses (responses + 1) stopAt then
         ((s'.finishInitial (responses + 1) (removePending active p) now).1,
          [DEv.bhandled src] ++ (s'.finishInitial (responses + 1) (removePending active p) now).2)
       else ({ s' with phase := .initial tid rl nl sl count (removePending active p) (responses + 1) stopAt }, [.bhandled src])) := by
  unfold DState.workerMessage
  rw [hp]
  simp only [ha, if_true, Guards.bootstrap_enough_responses]
  by_cases h : responses + 1 ≥ stopAt <;> simp [h, hp]

end Btdht
