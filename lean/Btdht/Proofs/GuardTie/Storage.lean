import Btdht.Generated.Guards
import Btdht.Model.Storage
/-!
Tie of the peer-store model to the guards regenerated from src/storage.rs on every run
(tools/extract_guards.py): the model function that plays the guard's role *is* the generated
definition. A flipped comparison in the code changes `Generated/Guards.lean` and breaks these.
-/
namespace Btdht

theorem guardtie_storage_expired (e : Expiration) (now : Nat) :
    e.isExpired now = Guards.storage_expired now e.inserted := rfl

theorem guardtie_storage_has_room (s : Storage) (it : Item) (now : Nat) :
    s.add it now =
      (let s' := s.removeExpired now
       if s'.items.contains it then
         ({ s' with expires := s'.expires.filter (fun e => e.item ≠ it) ++ [{ item := it, inserted := now }] }, true)
       else if Guards.storage_has_room s'.expires.length then
         ({ items := s'.items ++ [it], expires := s'.expires ++ [{ item := it, inserted := now }] }, true)
       else (s', false)) := by
  simp [Storage.add, Guards.storage_has_room]

end Btdht
