import Btdht.Proofs.BootRun
/-
C15 timed clause, part 11: responsiveness of `c` as a property of the inputs and the trace of the run
only (`RespRunT`), and the proof that it implies the step-wise formulation `RespRun`.
-/
namespace Btdht

/-- monitor over the trace: the instants at which the first-round queries to `c` that are still
outstanding were sent (after `t0`; there is at most one); a query is no longer outstanding once the worker has handled
an answer of `c` (`bhandled c`), or the first round is over (`binitialDone`), or a new attempt begins -/
def owedScan (c : Addr) (t0 : Nat) (o : List Nat) (t : Nat) (e : DEv) : List Nat :=
  match e with
  | .send dst (.sym _) (.req (.findNode id tg none)) ok =>
    if dst = c ∧ id = tg ∧ ok = true ∧ t0 < t then o ++ [t] else o
  | .bhandled src => if src = c then [] else o
  | .binitialDone _ => []
  | .battempt _ _ => []
  | _ => o

/-- **`c` is responsive after `t0` in the step `i`**, in terms of the step's inputs and trace, given
the instant `o` at which the outstanding first-round query to `c` was sent, if there is one:
* the step does not last until the time-out of that query (2.5 s after it was sent);
* a first-round query sent to `c` after `t0` during this step does not fail to be sent, and the step
  does not last until its time-out;
* `c` sends no KRPC error messages. -/
def RespStepT (c : Addr) (t0 : Nat) (o : List Nat) (s : DState) (i : DInput) : Prop :=
  (∀ u ∈ o, max i.t s.clock < u + Constants.INITIAL_TIMEOUT_ns) ∧
  (∀ e ∈ (s.stepIn i).2, ∀ tid id ok, e.2 = .send c (.sym tid) (.req (.findNode id id none)) ok → t0 < e.1 →
      ok = true ∧ max i.t s.clock < e.1 + Constants.INITIAL_TIMEOUT_ns) ∧
  (t0 < max i.t s.clock → ∀ tid body, .datagram tid body c ∈ i.ops → ∀ code msg, body ≠ .err code msg)

/-- ... in every step of the run; the monitor reads the trace of each step -/
def RespRunT (c : Addr) (t0 : Nat) : List Nat → DState → List DInput → Prop
  | _, _, [] => True
  | o, s, i :: rest =>
    RespStepT c t0 o s i ∧ RespRunT c t0 (scanS (owedScan c t0) o (s.stepIn i).2) (s.stepIn i).1 rest

/-- the link between the monitor and the state: an awaited first-round exchange with `c` that was sent
after `t0` is the outstanding query of the monitor; first-round exchanges go to pairwise distinct
addresses that are no longer in the to-do lists; answers are queued for the exchange of their sender -/
structure LK (c : Addr) (t0 : Nat) (s : DState) (o : List Nat) : Prop where
  link : ∀ p ∈ s.phase.firstRound, p.addr = c → t0 + Constants.INITIAL_TIMEOUT_ns < p.deadline →
    ∃ u ∈ o, p.deadline = u + Constants.INITIAL_TIMEOUT_ns
  uniq : ∀ tid rl nl sl cnt active r st, s.phase = .initial tid rl nl sl cnt active r st →
    (∀ p ∈ active, p.addr ∉ rl ++ nl) ∧ (active.map (·.addr)).Nodup
  rdy : ∀ e ∈ s.ready, e.1.addr = e.2.2

/-- outside the first round only the queue of answers matters -/
theorem lk_noninitial (c : Addr) (t0 : Nat) (s : DState) (o : List Nat) (hr : ∀ e ∈ s.ready, e.1.addr = e.2.2)
    (hph : ∀ tid rl nl sl cnt active r st, s.phase ≠ .initial tid rl nl sl cnt active r st) : LK c t0 s o := by
  refine ⟨?_, fun tid rl nl sl cnt active r st he => absurd he (hph _ _ _ _ _ _ _ _), hr⟩
  intro p hp
  cases hs : s.phase with
  | initial tid rl nl sl cnt active r st => exact absurd hs (hph _ _ _ _ _ _ _ _)
  | _ => rw [hs] at hp; simp [BPhase.firstRound] at hp

theorem lk_of_nil (c : Addr) (t0 : Nat) (s : DState) (o : List Nat) (hr : ∀ e ∈ s.ready, e.1.addr = e.2.2)
    (h : s.phase.firstRound = []) : LK c t0 s o := by
  refine ⟨by rw [h]; simp, ?_, hr⟩
  intro tid rl nl sl cnt active r st he
  rw [he] at h
  have : active = [] := h
  subst this
  simp

theorem setPub_phase_eq (s : DState) (p : BPub) : (s.setPub p).1.phase = s.phase := by
  unfold DState.setPub; split <;> rfl

theorem beginAttempt_firstRound (s : DState) (now : Nat) : (s.beginAttempt now).1.phase.firstRound = [] := by
  unfold DState.beginAttempt
  simp only
  split
  · rfl
  · split <;> rfl

theorem finishInitial_firstRound (s : DState) (r : Nat) (rem : List Pending) (now : Nat) :
    (s.finishInitial r rem now).1.phase.firstRound = [] := by
  unfold DState.finishInitial
  split <;> rfl

theorem sweepDone_firstRound (s : DState) (now : Nat) : (s.sweepDone now).1.phase.firstRound = [] := by
  unfold DState.sweepDone
  simp only
  split <;> rfl

theorem bucketRound_firstRound (s : DState) (k now : Nat) : (s.bucketRound k now).1.phase.firstRound = [] := by
  unfold DState.bucketRound
  simp only
  split <;> rfl

theorem periodicCheck_firstRound (s : DState) (now : Nat) : (s.periodicCheck now).1.phase.firstRound = [] := by
  unfold DState.periodicCheck
  split
  · exact beginAttempt_firstRound s now
  · rfl

/-- outside the first round no transition of the worker leads to a first round with exchanges -/
theorem bStepMain_firstRound_nil (s : DState) (now : Nat) (r : DState × List DEv)
    (hph : ∀ tid rl nl sl cnt active rr st, s.phase ≠ .initial tid rl nl sl cnt active rr st)
    (hb : s.bStepMain now = some r) : r.1.phase.firstRound = [] := by
  unfold DState.bStepMain at hb
  split at hb
  · simp at hb
  · simp at hb
  · split at hb
    · simp only [Option.some.injEq] at hb; subst hb; exact beginAttempt_firstRound s now
    · simp at hb
  · split at hb
    · simp only [Option.some.injEq] at hb; subst hb; exact periodicCheck_firstRound s now
    · simp at hb
  · rename_i h; exact absurd h (hph _ _ _ _ _ _ _ _)
  · split at hb
    · simp only [Option.some.injEq] at hb; subst hb; exact bucketRound_firstRound s _ now
    · simp only [Option.some.injEq] at hb; subst hb; exact sweepDone_firstRound s now
  · simp only at hb
    split at hb
    · simp only [Option.some.injEq] at hb; subst hb; rfl
    · split at hb
      · simp only [Option.some.injEq] at hb; subst hb; rfl
      · simp at hb

theorem pickFirstRound_spec' (o rl nl : List Addr) (dst : Addr) (o' rl' nl' : List Addr)
    (h : pickFirstRound o rl nl = some (dst, o', rl', nl')) :
    dst ∈ rl ++ nl ∧ rl' = rl.filter (· ≠ dst) ∧ nl' = nl.filter (· ≠ dst) := by
  unfold pickFirstRound at h
  simp only at h
  split at h
  · simp at h
  · rename_i d rest heq
    simp only [Option.some.injEq, Prod.mk.injEq] at h
    obtain ⟨h1, _, h3, h4⟩ := h
    refine ⟨?_, ?_, ?_⟩
    · rw [← h1]
      cases o with
      | nil => simp only; rw [heq]; simp
      | cons x xs =>
        simp only
        split
        · rename_i hc; simpa using hc
        · rw [heq]; simp
    · rw [← h3, ← h1]
    · rw [← h4, ← h1]

theorem scanE_owed_nil (c : Addr) (t0 : Nat) (o : List Nat) (t : Nat) : scanE (owedScan c t0) o t [] = o := rfl

theorem scanE_owed_one (c : Addr) (t0 : Nat) (o : List Nat) (t : Nat) (e : DEv) :
    scanE (owedScan c t0) o t [e] = owedScan c t0 o t e := rfl

/-- a first-round send keeps the link -/
theorem lk_send (c : Addr) (t0 : Nat) (s : DState) (o : List Nat) (tid : Tid) (rl nl : List Addr) (sl : Option Nat) (count : Nat)
    (active : List Pending) (resp stopAt now : Nat) (r : DState × List DEv) (h : LK c t0 s o)
    (hph : s.phase = .initial tid rl nl sl count active resp stopAt)
    (hr : s.firstRoundSend tid rl nl count active resp stopAt now = some r) :
    LK c t0 r.1 (scanE (owedScan c t0) o now r.2) := by
  obtain ⟨hu1, hu2⟩ := h.uniq _ _ _ _ _ _ _ _ hph
  have hlink := h.link
  rw [hph] at hlink
  simp only [BPhase.firstRound] at hlink
  unfold DState.firstRoundSend at hr
  split at hr
  · simp at hr
  · rename_i dst o' rl' nl' hpick
    obtain ⟨hmem, hrl, hnl⟩ := pickFirstRound_spec' _ _ _ _ _ _ _ hpick
    simp only [Option.some.injEq] at hr
    subst hr
    have hfil : rl' ++ nl' = (rl ++ nl).filter (· ≠ dst) := by rw [hrl, hnl, List.filter_append]
    rw [scanE_owed_one]
    refine ⟨?_, ?_, h.rdy⟩
    · -- link
      intro p hp hpc hlate
      simp only [BPhase.firstRound] at hp
      have hold : p ∈ active → ∃ u ∈ owedScan c t0 o now (DEv.send dst (.sym tid) (.req (.findNode s.h.selfId s.h.selfId none)) (!s.h.failAddrs.contains dst)),
          p.deadline = u + Constants.INITIAL_TIMEOUT_ns := by
        intro hpa
        obtain ⟨u, hou, hd⟩ := hlink p hpa hpc hlate
        refine ⟨u, ?_, hd⟩
        simp only [owedScan]
        split
        · exact List.mem_append_left _ hou
        · exact hou
      split at hp
      · rename_i hok
        rcases List.mem_append.mp hp with hp | hp
        · exact hold hp
        · simp only [List.mem_singleton] at hp
          subst hp
          simp only at hpc hlate ⊢
          subst hpc
          refine ⟨now, ?_, rfl⟩
          simp only [owedScan, hok, true_and, and_true]
          rw [if_pos (by omega)]
          simp
      · exact hold hp
    · -- uniqueness
      intro tid2 rl2 nl2 sl2 c2 a2 r2 st2 he
      simp only [BPhase.initial.injEq] at he
      obtain ⟨_, rfl, rfl, _, _, rfl, _, _⟩ := he
      have hnotin : ∀ p ∈ active, p.addr ∉ rl' ++ nl' := by
        intro p hp hc
        rw [hfil] at hc
        exact hu1 p hp (List.mem_filter.mp hc).1
      split
      · refine ⟨?_, ?_⟩
        · intro p hp
          rcases List.mem_append.mp hp with hp | hp
          · exact hnotin p hp
          · simp only [List.mem_singleton] at hp; subst hp; rw [hfil]; simp
        · rw [List.map_append, List.nodup_append]
          refine ⟨hu2, by simp, ?_⟩
          intro a ha b hb
          simp only [List.map_cons, List.map_nil, List.mem_singleton] at hb
          subst hb
          obtain ⟨p, hp, rfl⟩ := List.mem_map.mp ha
          intro heq
          exact hu1 p hp (heq ▸ hmem)
      · exact ⟨hnotin, hu2⟩

/-- the first round goes on with fewer exchanges awaited (time-outs, answers): the link is kept -/
theorem lk_shrink (c : Addr) (t0 : Nat) (s s' : DState) (o : List Nat) (tid : Tid) (rl nl : List Addr) (sl sl' : Option Nat)
    (count : Nat) (active active' : List Pending) (resp resp' stopAt : Nat) (h : LK c t0 s o)
    (hph : s.phase = .initial tid rl nl sl count active resp stopAt)
    (hph' : s'.phase = .initial tid rl nl sl' count active' resp' stopAt) (hsub : active'.Sublist active)
    (hr : ∀ e ∈ s'.ready, e ∈ s.ready) : LK c t0 s' o := by
  obtain ⟨hu1, hu2⟩ := h.uniq _ _ _ _ _ _ _ _ hph
  have hlink := h.link
  rw [hph] at hlink
  simp only [BPhase.firstRound] at hlink
  refine ⟨?_, ?_, fun e he => h.rdy e (hr e he)⟩
  · intro p hp
    rw [hph'] at hp
    exact hlink p (hsub.subset hp)
  · intro tid2 rl2 nl2 sl2 c2 a2 r2 st2 he
    rw [hph'] at he
    simp only [BPhase.initial.injEq] at he
    obtain ⟨_, rfl, rfl, _, _, rfl, _, _⟩ := he
    exact ⟨fun p hp => hu1 p (hsub.subset hp), (hsub.map _).nodup hu2⟩

theorem lk_main (c : Addr) (t0 : Nat) (s : DState) (o : List Nat) (now : Nat) (r : DState × List DEv) (h : LK c t0 s o)
    (hb : s.bStepMain now = some r) : LK c t0 r.1 (scanE (owedScan c t0) o now r.2) := by
  have hrd : ∀ e ∈ r.1.ready, e.1.addr = e.2.2 := by
    rw [(bStepMain_cr s now r hb).2]; exact h.rdy
  cases hph : s.phase with
  | initial tid rl nl sl count active resp stopAt =>
    unfold DState.bStepMain at hb
    simp only [hph] at hb
    split at hb
    · simp only [Option.some.injEq] at hb; subst hb
      exact lk_shrink c t0 s _ o tid rl nl sl sl count active _ resp resp stopAt h hph rfl List.filter_sublist (fun e he => he)
    · split at hb
      · split at hb
        · simp only [Option.some.injEq] at hb; subst hb
          exact lk_of_nil c t0 _ _ hrd (finishInitial_firstRound s _ [] now)
        · simp at hb
      · split at hb
        · split at hb
          · exact lk_send c t0 s o tid rl nl _ count active resp stopAt now r h hph hb
          · simp at hb
        · split at hb
          · simp only [Option.some.injEq] at hb; subst hb
            exact lk_shrink c t0 s _ o tid rl nl none _ count active active resp resp stopAt h hph rfl (List.Sublist.refl _) (fun e he => he)
          · exact lk_send c t0 s o tid rl nl _ count active resp stopAt now r h hph hb
  | awaitStart => exact lk_of_nil c t0 _ _ hrd (bStepMain_firstRound_nil s now r (by intro _ _ _ _ _ _ _ _ he; rw [hph] at he; cases he) hb)
  | forever => exact lk_of_nil c t0 _ _ hrd (bStepMain_firstRound_nil s now r (by intro _ _ _ _ _ _ _ _ he; rw [hph] at he; cases he) hb)
  | sleeping w => exact lk_of_nil c t0 _ _ hrd (bStepMain_firstRound_nil s now r (by intro _ _ _ _ _ _ _ _ he; rw [hph] at he; cases he) hb)
  | bucketStart k => exact lk_of_nil c t0 _ _ hrd (bStepMain_firstRound_nil s now r (by intro _ _ _ _ _ _ _ _ he; rw [hph] at he; cases he) hb)
  | buckets k a => exact lk_of_nil c t0 _ _ hrd (bStepMain_firstRound_nil s now r (by intro _ _ _ _ _ _ _ _ he; rw [hph] at he; cases he) hb)
  | bootstrapped ck => exact lk_of_nil c t0 _ _ hrd (bStepMain_firstRound_nil s now r (by intro _ _ _ _ _ _ _ _ he; rw [hph] at he; cases he) hb)

theorem eq_of_nodup_map {α β} (f : α → β) (l : List α) (h : (l.map f).Nodup) (a b : α) (ha : a ∈ l) (hb : b ∈ l)
    (hf : f a = f b) : a = b := by
  induction l with
  | nil => simp at ha
  | cons x xs ih =>
    simp only [List.map_cons, List.nodup_cons, List.mem_map, not_exists, not_and] at h
    rcases List.mem_cons.mp ha with rfl | ha' <;> rcases List.mem_cons.mp hb with rfl | hb'
    · rfl
    · exact absurd hf.symm (h.1 b hb')
    · exact absurd hf (h.1 a ha')
    · exact ih h.2 ha' hb'

theorem lk_message_initial (c : Addr) (t0 : Nat) (s : DState) (o : List Nat) (p : Pending) (body : Body) (src : Addr) (now : Nat)
    (tid : Tid) (rl nl : List Addr) (sl : Option Nat) (count : Nat) (active : List Pending) (resp stopAt : Nat)
    (h : LK c t0 s o) (hph : s.phase = .initial tid rl nl sl count active resp stopAt) (hsrc : p.addr = src) :
    LK c t0 (s.workerMessage p body src now).1 (scanE (owedScan c t0) o now (s.workerMessage p body src now).2) := by
  have hrd : ∀ e ∈ (s.workerMessage p body src now).1.ready, e.1.addr = e.2.2 := by
    rw [(workerMessage_cr s p body src now).2]; exact h.rdy
  have hsub : (removePending active p).Sublist active := List.filter_sublist
  by_cases hc : active.contains p = true
  · unfold DState.workerMessage at hrd ⊢
    simp only [hph, hc, if_true] at hrd ⊢
    cases body with
    | resp r =>
      simp only at hrd ⊢
      split
      · rename_i hfin
        simp only [hfin, if_true] at hrd
        exact lk_of_nil c t0 _ _ hrd (finishInitial_firstRound _ _ _ now)
      · rename_i hfin
        simp only [hfin, if_false] at hrd
        rw [scanE_owed_one]
        have hbase := lk_shrink c t0 s
          { s with h := { s.h with table := s.h.table.addNodes (Node.asGood ⟨r.id, src⟩ now) (s.h.namedBy r) now },
                   phase := .initial tid rl nl sl count (removePending active p) (resp + 1) stopAt }
          o tid rl nl sl sl count active _ resp (resp + 1) stopAt h hph rfl hsub (fun e he => he)
        refine ⟨?_, hbase.uniq, hbase.rdy⟩
        intro q hq hqc hlate
        obtain ⟨u, hu, hd⟩ := hbase.link q hq hqc hlate
        refine ⟨u, ?_, hd⟩
        have hne : src ≠ c := by
          intro hs
          have hq' : q ∈ removePending active p := hq
          have hqa : q ∈ active := hsub.subset hq'
          have hpa : p ∈ active := by simpa using hc
          have heq : q = p := eq_of_nodup_map _ _ (h.uniq _ _ _ _ _ _ _ _ hph).2 q p hqa hpa (by rw [hqc, hsrc, hs])
          subst heq
          simp [removePending] at hq'
        simp only [owedScan, hne, if_false]
        exact hu
    | req q =>
      simp only at hrd ⊢
      exact lk_shrink c t0 s _ o tid rl nl sl sl count active _ resp resp stopAt h hph rfl hsub (fun e he => he)
    | err cd m =>
      simp only at hrd ⊢
      exact lk_shrink c t0 s _ o tid rl nl sl sl count active _ resp resp stopAt h hph rfl hsub (fun e he => he)
  · unfold DState.workerMessage
    simp only [hph, hc, Bool.false_eq_true, if_false]
    exact lk_shrink c t0 s _ o tid rl nl sl sl count active active resp resp stopAt h hph rfl (List.Sublist.refl _) (fun e he => he)

theorem workerMessage_firstRound_nil (s : DState) (p : Pending) (body : Body) (src : Addr) (now : Nat)
    (hph : ∀ tid rl nl sl cnt active rr st, s.phase ≠ .initial tid rl nl sl cnt active rr st) :
    (s.workerMessage p body src now).1.phase.firstRound = [] := by
  unfold DState.workerMessage
  cases hs : s.phase with
  | initial tid rl nl sl cnt active rr st => exact absurd hs (hph _ _ _ _ _ _ _ _)
  | buckets k a =>
    simp only
    split
    · cases body <;> rfl
    · simp only [BPhase.firstRound, hs]
  | awaitStart => simp only [BPhase.firstRound, hs]
  | forever => simp only [BPhase.firstRound, hs]
  | sleeping w => simp only [BPhase.firstRound, hs]
  | bucketStart k => simp only [BPhase.firstRound, hs]
  | bootstrapped c => simp only [BPhase.firstRound, hs]

theorem lk_worker (c : Addr) (t0 : Nat) (s : DState) (o : List Nat) (now : Nat) (r : DState × List DEv) (h : LK c t0 s o)
    (hb : s.bStep now = some r) : LK c t0 r.1 (scanE (owedScan c t0) o now r.2) := by
  unfold DState.bStep at hb
  split at hb
  · rename_i p body src rest hready
    simp only [Option.some.injEq] at hb; subst hb
    have hsrc : p.addr = src := h.rdy (p, body, src) (by rw [hready]; exact List.mem_cons_self)
    have h0 : LK c t0 { s with ready := rest } o :=
      ⟨h.link, h.uniq, fun e he => h.rdy e (by rw [hready]; exact List.mem_cons_of_mem _ he)⟩
    have hcase : (∃ tid rl nl sl count active resp stopAt, s.phase = .initial tid rl nl sl count active resp stopAt) ∨
        (∀ tid rl nl sl cnt active rr st, s.phase ≠ .initial tid rl nl sl cnt active rr st) := by
      cases s.phase <;> simp
    rcases hcase with ⟨tid, rl, nl, sl, count, active, resp, stopAt, hph⟩ | hph
    · exact lk_message_initial c t0 { s with ready := rest } o p body src now tid rl nl sl count active resp stopAt h0 hph hsrc
    · refine lk_of_nil c t0 _ _ ?_ (workerMessage_firstRound_nil { s with ready := rest } p body src now hph)
      rw [(workerMessage_cr { s with ready := rest } p body src now).2]
      exact h0.rdy
  · exact lk_main c t0 s o now r h hb

/-- events after which a query is no longer outstanding -/
def DEv.isClearing : DEv → Bool
  | .bhandled _ | .binitialDone _ | .battempt _ _ => true
  | _ => false

theorem owedScan_mono (c : Addr) (t0 : Nat) (o : List Nat) (t : Nat) (e : DEv) (h : e.isClearing = false) :
    ∀ u ∈ o, u ∈ owedScan c t0 o t e := by
  intro u hu
  unfold owedScan
  split
  · split
    · exact List.mem_append_left _ hu
    · exact hu
  · simp [DEv.isClearing] at h
  · simp [DEv.isClearing] at h
  · simp [DEv.isClearing] at h
  · exact hu

theorem scanE_owed_mono (c : Addr) (t0 : Nat) (o : List Nat) (t : Nat) (evs : List DEv)
    (h : ∀ e ∈ evs, e.isClearing = false) : ∀ u ∈ o, u ∈ scanE (owedScan c t0) o t evs := by
  induction evs generalizing o with
  | nil => intro u hu; exact hu
  | cons e rest ih =>
    intro u hu
    simp only [scanE, List.foldl_cons]
    exact ih _ (fun x hx => h x (by simp [hx])) u (owedScan_mono c t0 o t e (h e (by simp)) u hu)

theorem lk_mono (c : Addr) (t0 : Nat) (s s' : DState) (o o' : List Nat) (h : LK c t0 s o) (hph : s'.phase = s.phase)
    (hr : ∀ e ∈ s'.ready, e.1.addr = e.2.2) (ho : ∀ u ∈ o, u ∈ o') : LK c t0 s' o' := by
  refine ⟨?_, ?_, hr⟩
  · intro p hp hc hl
    rw [hph] at hp
    obtain ⟨u, hu, hd⟩ := h.link p hp hc hl
    exact ⟨u, ho u hu, hd⟩
  · intro tid rl nl sl cnt active r st he
    rw [hph] at he
    exact h.uniq _ _ _ _ _ _ _ _ he

theorem isQuiet_not_clearing' (e : DEv) (h : e.isWorkerMsg = false) (h2 : e.isClearing = true) : False := by
  cases e <;> simp_all [DEv.isWorkerMsg, DEv.isWorker, DEv.isClearing]

theorem liftH_notClearing (effs : List HEffect) : ∀ e ∈ liftH effs, e.isClearing = false := by
  intro e he
  simp only [liftH, List.mem_map] at he
  obtain ⟨x, _, rfl⟩ := he
  cases x <;> rfl

theorem refreshRound_notClearing (s : DState) (now : Nat) : ∀ e ∈ (s.refreshRound now).2, e.isClearing = false := by
  unfold DState.refreshRound
  intro e he
  simp only [List.cons_append, List.nil_append, List.mem_cons] at he
  rcases he with rfl | he
  · rfl
  · exact liftH_notClearing _ e he

theorem fireOne_notClearing (s : DState) (now : Nat) (r : DState × List DEv) (hf : s.fireOne now = some r) :
    ∀ e ∈ r.2, e.isClearing = false := by
  unfold DState.fireOne at hf
  cases hp : s.h.timer.pop with
  | none => simp [hp] at hf
  | some pe =>
    obtain ⟨timer, e⟩ := pe
    simp only [hp] at hf
    split at hf
    · split at hf
      · simp only [Option.some.injEq] at hf; subst hf
        intro x hx
        simp only [List.cons_append, List.nil_append, List.mem_cons] at hx
        rcases hx with rfl | hx
        · rfl
        · exact refreshRound_notClearing _ now x hx
      · simp only [Option.some.injEq] at hf; subst hf
        intro x hx
        simp only [List.cons_append, List.nil_append, List.mem_cons] at hx
        rcases hx with rfl | hx
        · rfl
        · exact liftH_notClearing _ x hx
    · simp at hf

theorem startLookup_notClearing (s : DState) (ih : Bytes) (ann : Bool) (now : Nat) :
    ∀ e ∈ (s.startLookup ih ann now).2, e.isClearing = false := by
  unfold DState.startLookup
  split
  · simp
  · exact liftH_notClearing _

theorem startQueued_notClearing (s : DState) (now : Nat) : ∀ e ∈ (s.startQueued now).2, e.isClearing = false := by
  unfold DState.startQueued
  have hf := foldl_pred (fun (acc : DState × List DEv) => ∀ e ∈ acc.2, e.isClearing = false)
    (fun (acc : DState × List DEv) q => ((acc.1.startLookup q.1 q.2 now).1, acc.2 ++ (acc.1.startLookup q.1 q.2 now).2))
    (fun b a hb e he => by
      rcases List.mem_append.mp he with he | he
      · exact hb e he
      · exact startLookup_notClearing _ _ _ _ e he)
    s.queued ({ s with queued := [] }, []) (by simp)
  exact hf

theorem bootstrapSuccess_notClearing (s : DState) (now : Nat) : ∀ e ∈ (s.bootstrapSuccess now).2, e.isClearing = false := by
  unfold DState.bootstrapSuccess DState.firstRefresh
  simp only
  intro e he
  rcases List.mem_append.mp he with he | he
  · simp only [List.cons_append, List.nil_append, List.mem_cons, List.mem_map] at he
    rcases he with rfl | ⟨i, _, rfl⟩ <;> rfl
  · rcases List.mem_append.mp he with he | he
    · split at he
      · simp at he
      · exact refreshRound_notClearing _ now e he
    · exact startQueued_notClearing _ now e he

theorem hObserve_notClearing (s : DState) (now : Nat) : ∀ e ∈ (s.hObserve now).2, e.isClearing = false := by
  unfold DState.hObserve
  split
  · simp
  · simp only
    split
    · exact bootstrapSuccess_notClearing _ now
    · simp

/-- a handler-side transition: the worker's phase and the queue of answers are untouched, no
clearing events -/
theorem lk_hframe (c : Addr) (t0 : Nat) (s s' : DState) (o : List Nat) (t : Nat) (evs : List DEv) (h : LK c t0 s o)
    (hf : HFrame s s') (hq : ∀ e ∈ evs, e.isClearing = false) : LK c t0 s' (scanE (owedScan c t0) o t evs) :=
  lk_mono c t0 s s' o _ h hf.phase (by rw [hf.ready]; exact h.rdy) (scanE_owed_mono c t0 o t evs hq)

theorem lk_command (c : Addr) (t0 : Nat) (s : DState) (o : List Nat) (cmd : Cmd) (h : LK c t0 s o) :
    LK c t0 (s.command cmd s.clock).1 (scanE (owedScan c t0) o s.clock (s.command cmd s.clock).2) := by
  cases cmd with
  | startBootstrap =>
    simp only [DState.command]
    split
    · refine lk_of_nil c t0 _ _ ?_ (beginAttempt_firstRound s s.clock)
      rw [(beginAttempt_cr s s.clock).2]; exact h.rdy
    · exact lk_mono c t0 s s o _ h rfl h.rdy (scanE_owed_mono c t0 o _ _ (by simp [DEv.isClearing]))
  | checkBootstrap =>
    simp only [DState.command]
    split
    · exact lk_mono c t0 s _ o _ h rfl h.rdy (scanE_owed_mono c t0 o _ _ (by simp [DEv.isClearing]))
    · exact lk_mono c t0 s _ o _ h rfl h.rdy (scanE_owed_mono c t0 o _ _ (by simp [DEv.isClearing]))
  | startLookup ih ann =>
    simp only [DState.command]
    refine lk_hframe c t0 s _ o _ _ h (startLookup_hframe s ih ann s.clock).1 ?_
    intro e he
    simp only [List.cons_append, List.nil_append, List.mem_cons] at he
    rcases he with rfl | he
    · rfl
    · exact startLookup_notClearing _ _ _ _ e he
  | getLocalAddr => exact lk_mono c t0 s s o _ h rfl h.rdy (scanE_owed_mono c t0 o _ _ (by simp [DState.command, DEv.isClearing]))
  | getState => exact lk_mono c t0 s s o _ h rfl h.rdy (scanE_owed_mono c t0 o _ _ (by simp [DState.command, DEv.isClearing]))
  | loadContacts => exact lk_mono c t0 s s o _ h rfl h.rdy (scanE_owed_mono c t0 o _ _ (by simp [DState.command, DEv.isClearing]))

theorem lk_datagram (c : Addr) (t0 : Nat) (s : DState) (o : List Nat) (tid : InTid) (body : Body) (src : Addr) (h : LK c t0 s o) :
    LK c t0 (s.datagram tid body src s.clock).1 (scanE (owedScan c t0) o s.clock (s.datagram tid body src s.clock).2) := by
  unfold DState.datagram
  simp only
  split
  · rename_i p hfind
    refine lk_mono c t0 s _ o _ h rfl ?_ (scanE_owed_mono c t0 o _ _ (by simp [DEv.isClearing]))
    intro e he
    rcases List.mem_append.mp he with he | he
    · exact h.rdy e he
    · simp only [List.mem_singleton] at he
      subst he
      split at hfind
      · cases hfind
      · exact findPending_addr s tid src p hfind
  · refine lk_mono c t0 s _ o _ h rfl h.rdy (scanE_owed_mono c t0 o _ _ ?_)
    intro e he
    simp only [List.cons_append, List.nil_append, List.mem_cons] at he
    rcases he with rfl | he
    · rfl
    · exact liftH_notClearing _ e he

/-- the link between the monitor and the state is kept by every transition of a step -/
theorem lk_obs (c : Addr) (t0 T : Nat) : ObS (LK c t0) (owedScan c t0) (fun _ _ => True) (fun _ _ _ => True) T where
  clock := fun s o _ h _ _ _ _ => ⟨h.link, h.uniq, h.rdy⟩
  oracle := fun s o _ h => ⟨h.link, h.uniq, h.rdy⟩
  worker := fun s o r h hb _ => ⟨lk_worker c t0 s o s.clock r h hb, (bStep_frame s s.clock r hb).1.clock⟩
  timer := fun s o r h hf =>
    ⟨lk_hframe c t0 s r.1 o _ _ h (fireOne_hframe s s.clock r hf).1 (fireOne_notClearing s s.clock r hf), fireOne_clock s s.clock r hf⟩
  observe := fun s o h =>
    ⟨lk_hframe c t0 s _ o _ _ h (hObserve_hframe s s.clock).1 (hObserve_notClearing s s.clock), hObserve_clock s s.clock⟩
  command := fun s o cmd h => ⟨lk_command c t0 s o cmd h, command_clock s cmd s.clock⟩
  datagram := fun s o tid body src h _ => ⟨lk_datagram c t0 s o tid body src h, datagram_clock s tid body src s.clock⟩
  garbage := fun s o src h => lk_mono c t0 s s o _ h rfl h.rdy (owedScan_mono c t0 o _ _ rfl)

theorem lk_stepIn (c : Addr) (t0 : Nat) (s : DState) (o : List Nat) (i : DInput) (h : LK c t0 s o) (hb : Boundary s)
    (hp : s.stepInP i) : LK c t0 (s.stepIn i).1 (scanS (owedScan c t0) o (s.stepIn i).2) ∧ Boundary (s.stepIn i).1 := by
  have h2 : LK c t0 { s with frOracle := i.fr } o := ⟨h.link, h.uniq, h.rdy⟩
  have hb2 : Boundary { s with frOracle := i.fr } := ⟨hb.ready, hb.waits, hb.seen⟩
  have := stepG_s { s with frOracle := i.fr } i.t (lk_obs c t0 _) o i.ops i.bFirst i.hold h2 hb2 hp
    (fun _ _ _ _ => trivial) (fun _ _ => trivial)
  exact ⟨this.1, this.2.1⟩

/-- **the trace-level formulation of responsiveness implies the step-wise one** -/
theorem respRunT_sound (c : Addr) (t0 : Nat) (ins : List DInput) : ∀ (s : DState) (o : List Nat),
    LK c t0 s o → Boundary s → s.runP ins → RespRunT c t0 o s ins → RespRun c t0 s ins := by
  induction ins with
  | nil => intro _ _ _ _ _ _; trivial
  | cons i rest ih =>
    intro s o h hb hp hr
    obtain ⟨h1, b1⟩ := lk_stepIn c t0 s o i h hb hp.1
    refine ⟨⟨hr.1.2.1, ?_, hr.1.2.2⟩, ih _ _ h1 b1 hp.2 hr.2⟩
    intro p hpm hpc hlate
    obtain ⟨u, hu, hd⟩ := h.link p hpm hpc hlate
    rw [hd]
    exact hr.1.1 u hu

theorem lk_run (c : Addr) (t0 : Nat) (ins : List DInput) : ∀ (s : DState) (o : List Nat),
    LK c t0 s o → Boundary s → s.runP ins → LK c t0 (s.run ins).1 (scanS (owedScan c t0) o (s.run ins).2) := by
  induction ins with
  | nil => intro s o h _ _; exact h
  | cons i rest ih =>
    intro s o h hb hp
    obtain ⟨h1, b1⟩ := lk_stepIn c t0 s o i h hb hp.1
    have := ih _ _ h1 b1 hp.2
    unfold DState.run
    simp only
    rw [scanS_append]
    exact this

theorem lk_new (c : Addr) (t0 : Nat) (selfId : Bytes) (addr : Addr) (ro : Bool) (port : Option Nat) (fa : List Addr)
    (cfg : BConfig) (now : Nat) : LK c t0 (DState.new selfId addr ro port fa cfg now) [] :=
  lk_of_nil c t0 _ _ (by simp [DState.new]) rfl

end Btdht
