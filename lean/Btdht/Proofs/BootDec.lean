import Btdht.Proofs.BootSafe
/-
C15 timed clause, part 8: the hypotheses of the timed theorem are decidable on concrete runs
(used for the non-vacuity examples).
-/
namespace Btdht

instance (fuel : Nat) (s : DState) (now : Nat) : Decidable (bRunP fuel s now) :=
  decidable_of_iff (((DState.bRun fuel s now).1.bStep now).isNone = true) (by unfold bRunP; exact Option.isNone_iff_eq_none)

instance (bf : Bool) (s : DState) (d : Nat) : Decidable (instantP bf s d) := by
  unfold instantP; exact inferInstance

def advancePDec (bf : Bool) : (fuel : Nat) → (s : DState) → (t : Nat) → Decidable (advanceP bf fuel s t)
  | 0, s, t => by
    unfold advanceP
    cases h : s.nextDeadline with
    | none => exact isTrue (fun d hd => by cases hd)
    | some d =>
      exact if hlt : t < d then isTrue (fun d' hd' => by cases hd'; exact hlt)
        else isFalse (fun hall => hlt (hall d rfl))
  | fuel + 1, s, t => by
    unfold advanceP
    cases h : s.nextDeadline with
    | none => exact isTrue trivial
    | some d =>
      simp only
      exact if hdt : d ≤ t then
        (by
          rw [if_pos hdt]
          exact @instDecidableAnd _ _ inferInstance (advancePDec bf fuel _ t))
        else (by rw [if_neg hdt]; exact isTrue trivial)

instance (bf : Bool) (fuel : Nat) (s : DState) (t : Nat) : Decidable (advanceP bf fuel s t) := advancePDec bf fuel s t

instance (s : DState) (ops : List DOp) (t : Nat) (bf hold : Bool) : Decidable (stepP s ops t bf hold) := by
  unfold stepP; exact inferInstance

instance (s : DState) (i : DInput) : Decidable (s.stepInP i) := by unfold DState.stepInP; exact inferInstance

def runPDec : (ins : List DInput) → (s : DState) → Decidable (s.runP ins)
  | [], _ => isTrue trivial
  | i :: rest, s => by
    unfold DState.runP
    exact @instDecidableAnd _ _ inferInstance (runPDec rest _)

instance (s : DState) (ins : List DInput) : Decidable (s.runP ins) := runPDec ins s

/-- executable form of the first clause of `RespStep`, for one event -/
def respEvB (c : Addr) (t0 T : Nat) (e : Nat × DEv) : Bool :=
  match e.2 with
  | .send dst (.sym _) (.req (.findNode id tg none)) ok =>
    !(decide (dst = c) && decide (id = tg) && decide (t0 < e.1)) || (ok && decide (T < e.1 + Constants.INITIAL_TIMEOUT_ns))
  | _ => true

def respOpB (c : Addr) (op : DOp) : Bool :=
  match op with
  | .datagram _ (.err _ _) src => !decide (src = c)
  | _ => true

/-- executable form of `RespStep` -/
def respStepB (c : Addr) (t0 : Nat) (s : DState) (i : DInput) : Bool :=
  (s.stepIn i).2.all (respEvB c t0 (max i.t s.clock)) &&
  s.phase.firstRound.all (fun p => !(decide (p.addr = c) && decide (t0 + Constants.INITIAL_TIMEOUT_ns < p.deadline)) ||
    decide (max i.t s.clock < p.deadline)) &&
  (!decide (t0 < max i.t s.clock) || i.ops.all (respOpB c))

theorem respStepB_sound (c : Addr) (t0 : Nat) (s : DState) (i : DInput) (h : respStepB c t0 s i = true) : RespStep c t0 s i := by
  unfold respStepB at h
  simp only [Bool.and_eq_true, List.all_eq_true] at h
  obtain ⟨⟨h1, h2⟩, h3⟩ := h
  refine ⟨?_, ?_, ?_⟩
  · intro e he tid id ok heq ht
    have := h1 e he
    unfold respEvB at this
    rw [heq] at this
    simp only [decide_true, Bool.true_and, ht, Bool.not_true, Bool.false_or, Bool.and_eq_true, decide_eq_true_eq] at this
    exact this
  · intro p hp hc hd
    have := h2 p hp
    simpa [hc, hd] using this
  · intro ht tid body hm code msg hb
    subst hb
    rcases (Bool.or_eq_true _ _).mp h3 with h3 | h3
    · simp [ht] at h3
    · have := (List.all_eq_true.mp h3) _ hm
      simp [respOpB] at this

def respRunB (c : Addr) (t0 : Nat) : DState → List DInput → Bool
  | _, [] => true
  | s, i :: rest => respStepB c t0 s i && respRunB c t0 (s.stepIn i).1 rest

theorem respRunB_sound (c : Addr) (t0 : Nat) (ins : List DInput) : ∀ s, respRunB c t0 s ins = true → RespRun c t0 s ins := by
  induction ins with
  | nil => intro _ _; trivial
  | cons i rest ih =>
    intro s h
    simp only [respRunB, Bool.and_eq_true] at h
    exact ⟨respStepB_sound c t0 s i h.1, ih _ h.2⟩

end Btdht
