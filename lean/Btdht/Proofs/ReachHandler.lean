import Btdht.Proofs.Reach
import Btdht.Proofs.Attribution
/-!
C02 helpers (reachability, handler level): what a step of the handler does to one stored search.
Every step of `HState.hstep` either leaves the search with action id `A` alone, or feeds it one
`ReachEv` event (`projectOp`), or — when its end-game timer entry fires — finishes it. So a run of
the handler projects to a run of the closed loop of `Proofs/Reach.lean`.
-/
namespace Btdht

/-! ### the set of unreachable addresses never changes -/

theorem completeLookup_fa (s : HState) (aid now : Nat) : (s.completeLookup aid now).1.failAddrs = s.failAddrs := by
  unfold HState.completeLookup
  split <;> rfl

theorem handleRequest_fa (s : HState) (tid : InTid) (r : Req) (src : Addr) (now : Nat) :
    (s.handleRequest tid r src now).1.failAddrs = s.failAddrs := by
  unfold HState.handleRequest
  split
  · rfl
  · cases r with
    | ping id => rfl
    | findNode id target want => rfl
    | getPeers id ih want => rfl
    | announce id ih port token =>
      simp only [HState.checkToken, HState.markRemote]
      repeat' (first | rfl | split)

theorem refresh_fa (s : HState) (now : Nat) : (s.refresh now).1.failAddrs = s.failAddrs := by
  unfold HState.refresh
  simp only
  have key := foldl_pred (fun (acc : HState × List HEffect) => acc.1.failAddrs = s.failAddrs)
    (fun (acc : HState × List HEffect) (h : Handle) =>
      (({ acc.1 with refreshSeq := acc.1.refreshSeq + 1, table := markRequested acc.1.table h now } : HState),
       acc.2 ++ [HEffect.send h.addr (.sym ⟨refreshAid, acc.1.refreshSeq⟩)
         (.req (.findNode acc.1.selfId (flipBit s.selfId (if s.refreshBucket = maxBuckets then 0 else s.refreshBucket)) none))
         (!acc.1.failAddrs.contains h.addr)]))
    (fun b a hb => hb)
    ((((s.table.closestNodes (flipBit s.selfId (if s.refreshBucket = maxBuckets then 0 else s.refreshBucket)) now).filter
      (fun n => n.status now = .questionable && !n.recentlyRequestedFrom now)).take Constants.REFRESH_CONCURRENCY).map (·.handle))
    (s, []) rfl
  exact key

theorem lookupResponse_fa (s : HState) (l : Lookup) (t? : Option Tid) (rsp : Resp) (src : Addr) (now : Nat) :
    (s.lookupResponse l t? rsp src now).1.failAddrs = s.failAddrs := by
  unfold HState.lookupResponse
  extract_lets s1 r s2
  by_cases hc : r.1.completedNow = true
  · rw [if_pos hc]; exact (completeLookup_fa _ _ _).trans rfl
  · rw [if_neg hc]; rfl

theorem lookupTimeout_fa (s : HState) (l : Lookup) (t : Tid) (now : Nat) :
    (s.lookupTimeout l t now).1.failAddrs = s.failAddrs := by
  unfold HState.lookupTimeout
  extract_lets r s2
  by_cases hc : r.1.completedNow = true
  · rw [if_pos hc]; exact (completeLookup_fa _ _ _).trans rfl
  · rw [if_neg hc]; rfl

theorem hstep_fa (s : HState) (op : HOp) (now : Nat) : (s.hstep op now).failAddrs = s.failAddrs := by
  cases op with
  | incoming tid body src =>
    show (s.handleIncoming tid body src now).1.failAddrs = s.failAddrs
    unfold HState.handleIncoming
    cases body with
    | req r => exact handleRequest_fa s tid r src now
    | err c m => rfl
    | resp rsp =>
      simp only
      unfold HState.handleResponse
      cases tid.route with
      | none => rfl
      | some at_ =>
        obtain ⟨aid, t?⟩ := at_
        simp only
        cases s.lookups.find? (·.aid = aid) with
        | none => simp only; split <;> rfl
        | some l => exact lookupResponse_fa s l t? rsp src now
  | start target ann =>
    show (s.startLookup target ann now).1.failAddrs = s.failAddrs
    unfold HState.startLookup HState.afterNew
    simp only
    generalize Lookup.new s.nextAid s.nextStream s.selfId s.v6 target ann (s.env now) = r
    split <;> rfl
  | fire =>
    show (s.fireTimer now).1.failAddrs = s.failAddrs
    unfold HState.fireTimer
    cases s.timer.pop with
    | none => rfl
    | some pe =>
      obtain ⟨timer, e⟩ := pe
      simp only
      unfold HState.handleTask
      cases e.task with
      | tableRefresh => exact refresh_fa { s with timer := timer } now
      | lookupEndGame t => exact completeLookup_fa { s with timer := timer } t.aid now
      | lookupTimeout t =>
        simp only
        cases s.lookups.find? (·.aid = t.aid) with
        | none => rfl
        | some l => exact lookupTimeout_fa { s with timer := timer } l t now

/-! ### nor does the configured announce port -/

theorem completeLookup_ap (s : HState) (aid now : Nat) : (s.completeLookup aid now).1.announcePort = s.announcePort := by
  unfold HState.completeLookup
  split <;> rfl

theorem handleRequest_ap (s : HState) (tid : InTid) (r : Req) (src : Addr) (now : Nat) :
    (s.handleRequest tid r src now).1.announcePort = s.announcePort := by
  unfold HState.handleRequest
  split
  · rfl
  · cases r with
    | ping id => rfl
    | findNode id target want => rfl
    | getPeers id ih want => rfl
    | announce id ih port token =>
      simp only [HState.checkToken, HState.markRemote]
      repeat' (first | rfl | split)

theorem refresh_ap (s : HState) (now : Nat) : (s.refresh now).1.announcePort = s.announcePort := by
  unfold HState.refresh
  simp only
  have key := foldl_pred (fun (acc : HState × List HEffect) => acc.1.announcePort = s.announcePort)
    (fun (acc : HState × List HEffect) (h : Handle) =>
      (({ acc.1 with refreshSeq := acc.1.refreshSeq + 1, table := markRequested acc.1.table h now } : HState),
       acc.2 ++ [HEffect.send h.addr (.sym ⟨refreshAid, acc.1.refreshSeq⟩)
         (.req (.findNode acc.1.selfId (flipBit s.selfId (if s.refreshBucket = maxBuckets then 0 else s.refreshBucket)) none))
         (!acc.1.failAddrs.contains h.addr)]))
    (fun b a hb => hb)
    ((((s.table.closestNodes (flipBit s.selfId (if s.refreshBucket = maxBuckets then 0 else s.refreshBucket)) now).filter
      (fun n => n.status now = .questionable && !n.recentlyRequestedFrom now)).take Constants.REFRESH_CONCURRENCY).map (·.handle))
    (s, []) rfl
  exact key

theorem lookupResponse_ap (s : HState) (l : Lookup) (t? : Option Tid) (rsp : Resp) (src : Addr) (now : Nat) :
    (s.lookupResponse l t? rsp src now).1.announcePort = s.announcePort := by
  unfold HState.lookupResponse
  extract_lets s1 r s2
  by_cases hc : r.1.completedNow = true
  · rw [if_pos hc]; exact (completeLookup_ap _ _ _).trans rfl
  · rw [if_neg hc]; rfl

theorem lookupTimeout_ap (s : HState) (l : Lookup) (t : Tid) (now : Nat) :
    (s.lookupTimeout l t now).1.announcePort = s.announcePort := by
  unfold HState.lookupTimeout
  extract_lets r s2
  by_cases hc : r.1.completedNow = true
  · rw [if_pos hc]; exact (completeLookup_ap _ _ _).trans rfl
  · rw [if_neg hc]; rfl

theorem hstep_ap (s : HState) (op : HOp) (now : Nat) : (s.hstep op now).announcePort = s.announcePort := by
  cases op with
  | incoming tid body src =>
    show (s.handleIncoming tid body src now).1.announcePort = s.announcePort
    unfold HState.handleIncoming
    cases body with
    | req r => exact handleRequest_ap s tid r src now
    | err c m => rfl
    | resp rsp =>
      simp only
      unfold HState.handleResponse
      cases tid.route with
      | none => rfl
      | some at_ =>
        obtain ⟨aid, t?⟩ := at_
        simp only
        cases s.lookups.find? (·.aid = aid) with
        | none => simp only; split <;> rfl
        | some l => exact lookupResponse_ap s l t? rsp src now
  | start target ann =>
    show (s.startLookup target ann now).1.announcePort = s.announcePort
    unfold HState.startLookup HState.afterNew
    simp only
    generalize Lookup.new s.nextAid s.nextStream s.selfId s.v6 target ann (s.env now) = r
    split <;> rfl
  | fire =>
    show (s.fireTimer now).1.announcePort = s.announcePort
    unfold HState.fireTimer
    cases s.timer.pop with
    | none => rfl
    | some pe =>
      obtain ⟨timer, e⟩ := pe
      simp only
      unfold HState.handleTask
      cases e.task with
      | tableRefresh => exact refresh_ap { s with timer := timer } now
      | lookupEndGame t => exact completeLookup_ap { s with timer := timer } t.aid now
      | lookupTimeout t =>
        simp only
        cases s.lookups.find? (·.aid = t.aid) with
        | none => rfl
        | some l => exact lookupTimeout_ap { s with timer := timer } l t now

/-! ### finding the search with a given action id -/

theorem find_replace_other (ls : List Lookup) (a A : Nat) (l' : Lookup) (hne : a ≠ A) (h : l'.aid = a) :
    (ls.map (fun x => if x.aid = a then l' else x)).find? (·.aid = A) = ls.find? (·.aid = A) := by
  induction ls with
  | nil => rfl
  | cons x xs ih =>
    simp only [List.map_cons, List.find?_cons]
    by_cases hx : x.aid = a
    · rw [if_pos hx]
      have h1 : decide (l'.aid = A) = false := by simp [h, hne]
      have h2 : decide (x.aid = A) = false := by simp [hx, hne]
      rw [h1, h2]; exact ih
    · rw [if_neg hx]
      cases decide (x.aid = A) with
      | true => rfl
      | false => exact ih

theorem find_replace_same (ls : List Lookup) (A : Nat) (l l' : Lookup) (hf : ls.find? (·.aid = A) = some l) (h : l'.aid = A) :
    (ls.map (fun x => if x.aid = A then l' else x)).find? (·.aid = A) = some l' := by
  induction ls with
  | nil => simp at hf
  | cons x xs ih =>
    simp only [List.map_cons, List.find?_cons] at hf ⊢
    by_cases hx : x.aid = A
    · rw [if_pos hx]
      simp [h]
    · rw [if_neg hx]
      have h2 : decide (x.aid = A) = false := by simp [hx]
      rw [h2] at hf ⊢
      exact ih hf

theorem find_filter_other (ls : List Lookup) (a A : Nat) (hne : a ≠ A) :
    (ls.filter (·.aid ≠ a)).find? (·.aid = A) = ls.find? (·.aid = A) := by
  induction ls with
  | nil => rfl
  | cons x xs ih =>
    by_cases hx : x.aid = a
    · have h2 : decide (x.aid = A) = false := by simp [hx, hne]
      simp only [List.filter_cons, List.find?_cons, h2]
      simp only [hx, ne_eq, not_true_eq_false, decide_false, Bool.false_eq_true, if_false]
      exact ih
    · simp only [List.filter_cons, ne_eq, hx, not_false_eq_true, decide_true, if_true, List.find?_cons]
      cases decide (x.aid = A) with
      | true => rfl
      | false => exact ih

theorem completeLookup_find (s : HState) (a A now : Nat) (hne : a ≠ A) :
    (s.completeLookup a now).1.lookups.find? (·.aid = A) = s.lookups.find? (·.aid = A) := by
  unfold HState.completeLookup
  split
  · rfl
  · simp only [HState.withEnv]
    exact find_filter_other s.lookups a A hne

/-! ### a handler step seen from one stored search -/

theorem recvTimeout_aid (l : Lookup) (env : LEnv) (t : Tid) : (l.recvTimeout env t).1.aid = l.aid :=
  (recvTimeout_spec env.table l env t (.refl _)).2.2.1

theorem lookupResponse_find_other (s : HState) (l0 : Lookup) (t? : Option Tid) (rsp : Resp) (src : Addr) (now A : Nat)
    (hne : l0.aid ≠ A) :
    (s.lookupResponse l0 t? rsp src now).1.lookups.find? (·.aid = A) = s.lookups.find? (·.aid = A) := by
  unfold HState.lookupResponse
  extract_lets s1 r s2
  have hr : r.1.aid = l0.aid := by
    cases t? with
    | none => rfl
    | some t => exact recvResponse_aid l0 _ _ t rsp
  have h2 : (s.lookups.map (fun x => if x.aid = l0.aid then r.1 else x)).find? (·.aid = A) = s.lookups.find? (·.aid = A) :=
    find_replace_other s.lookups l0.aid A r.1 hne hr
  by_cases hc : r.1.completedNow = true
  · rw [if_pos hc]
    exact (completeLookup_find _ l0.aid A now hne).trans h2
  · rw [if_neg hc]; exact h2

theorem lookupTimeout_find_other (s : HState) (l0 : Lookup) (t : Tid) (now A : Nat) (hne : l0.aid ≠ A) :
    (s.lookupTimeout l0 t now).1.lookups.find? (·.aid = A) = s.lookups.find? (·.aid = A) := by
  unfold HState.lookupTimeout
  extract_lets r s2
  have h2 : (s.lookups.map (fun x => if x.aid = l0.aid then r.1 else x)).find? (·.aid = A) = s.lookups.find? (·.aid = A) :=
    find_replace_other s.lookups l0.aid A r.1 hne (recvTimeout_aid l0 _ t)
  by_cases hc : r.1.completedNow = true
  · rw [if_pos hc]
    exact (completeLookup_find _ l0.aid A now hne).trans h2
  · rw [if_neg hc]; exact h2

/-- the environment the handler runs `recv_response` in -/
def respEnv (s : HState) (rsp : Resp) (src : Addr) (now : Nat) : LEnv :=
  ({ s with table := s.table.addNodes (Node.asGood ⟨rsp.id, src⟩ now) (s.namedBy rsp) now } : HState).env now

theorem lookupResponse_find_same (s : HState) (l : Lookup) (t : Tid) (rsp : Resp) (src : Addr) (now : Nat)
    (hf : s.lookups.find? (·.aid = l.aid) = some l)
    (hc : (l.recvResponse (respEnv s rsp src now) ⟨rsp.id, src⟩ t rsp).1.completedNow = false) :
    (s.lookupResponse l (some t) rsp src now).1.lookups.find? (·.aid = l.aid) =
      some (l.recvResponse (respEnv s rsp src now) ⟨rsp.id, src⟩ t rsp).1 := by
  unfold HState.lookupResponse
  simp only
  rw [if_neg (by rw [show (({ s with table := s.table.addNodes (Node.asGood ⟨rsp.id, src⟩ now) (s.namedBy rsp) now } : HState).env now) =
    respEnv s rsp src now from rfl, hc]; simp)]
  exact find_replace_same s.lookups l.aid l _ hf (recvResponse_aid l _ _ t rsp)

theorem lookupResponse_find_fresh (s : HState) (l : Lookup) (rsp : Resp) (src : Addr) (now : Nat)
    (hf : s.lookups.find? (·.aid = l.aid) = some l) (hc : l.completedNow = false) :
    (s.lookupResponse l none rsp src now).1.lookups.find? (·.aid = l.aid) = some l := by
  unfold HState.lookupResponse
  simp only
  rw [if_neg (by rw [hc]; simp)]
  exact find_replace_same s.lookups l.aid l l hf rfl

theorem lookupTimeout_find_same (s : HState) (l : Lookup) (t : Tid) (now : Nat)
    (hf : s.lookups.find? (·.aid = l.aid) = some l) (hc : (l.recvTimeout (s.env now) t).1.completedNow = false) :
    (s.lookupTimeout l t now).1.lookups.find? (·.aid = l.aid) = some (l.recvTimeout (s.env now) t).1 := by
  unfold HState.lookupTimeout
  simp only
  rw [if_neg (by rw [hc]; simp)]
  exact find_replace_same s.lookups l.aid l _ hf (recvTimeout_aid l _ t)

/-- what a step of the handler means for the stored search with action id `A`: an answer whose
transaction id is one this node drew under the prefix `A` (`HState.handleResponse`,
`HState.lookupResponse`), or the firing of a query-timeout entry of `A` (`HState.handleTask`,
`HState.lookupTimeout`); everything else does not concern it -/
def projectOp (s : HState) (A : Nat) (op : HOp) (now : Nat) : Option (LEnv × ReachEv) :=
  match op with
  | .incoming tid (.resp rsp) src =>
    match tid.route with
    | some (a, some t) => if a = A then some (respEnv s rsp src now, .resp ⟨rsp.id, src⟩ t rsp) else none
    | _ => none
  | .fire =>
    match s.timer.pop with
    | some (timer, e) =>
      match e.task with
      | .lookupTimeout t => if t.aid = A then some (({ s with timer := timer } : HState).env now, .timeout t) else none
      | _ => none
    | none => none
  | _ => none

/-- the step pops an end-game timer entry of the search `A` -/
def firesEndgame (s : HState) (A : Nat) (op : HOp) : Prop :=
  match op with
  | .fire =>
    match s.timer.pop with
    | some (_, e) => ∃ q, e.task = .lookupEndGame ⟨A, q⟩
    | none => False
  | _ => False

/-- the search after the event a handler step projects to -/
def lstep (l : Lookup) : Option (LEnv × ReachEv) → Lookup
  | none => l
  | some (env, .resp h t rsp) => (l.recvResponse env h t rsp).1
  | some (env, .timeout t) => (l.recvTimeout env t).1

/-- **simulation**: a handler step that does not fire the end-game entry of the stored search `A`
transforms that search exactly by the event the step projects to (provided the result is not
`Completed`, else the handler finishes it at once) -/
theorem hstep_sim (s : HState) (A : Nat) (l : Lookup) (op : HOp) (now : Nat)
    (hf : s.lookups.find? (·.aid = A) = some l) (hnf : ¬ firesEndgame s A op)
    (hc : (lstep l (projectOp s A op now)).completedNow = false) :
    (s.hstep op now).lookups.find? (·.aid = A) = some (lstep l (projectOp s A op now)) := by
  have hlA : l.aid = A := by simpa using (find_some_mem _ _ _ hf).2
  cases op with
  | incoming tid body src =>
    show (s.handleIncoming tid body src now).1.lookups.find? (·.aid = A) = _
    unfold HState.handleIncoming
    cases body with
    | req r => rw [(handleRequest_frame s tid r src now).2.1]; exact hf
    | err c m => exact hf
    | resp rsp =>
      simp only
      unfold HState.handleResponse
      cases hr : tid.route with
      | none =>
        have hp : projectOp s A (.incoming tid (.resp rsp) src) now = none := by simp [projectOp, hr]
        rw [hp]; exact hf
      | some at_ =>
        obtain ⟨a, t?⟩ := at_
        simp only
        by_cases haA : a = A
        · subst haA
          rw [hf]
          simp only
          cases t? with
          | none =>
            have hp : projectOp s a (.incoming tid (.resp rsp) src) now = none := by simp [projectOp, hr]
            rw [hp] at hc ⊢
            rw [← hlA] at hf ⊢
            exact lookupResponse_find_fresh s l rsp src now hf hc
          | some t =>
            have hp : projectOp s a (.incoming tid (.resp rsp) src) now =
                some (respEnv s rsp src now, .resp ⟨rsp.id, src⟩ t rsp) := by simp [projectOp, hr]
            rw [hp] at hc ⊢
            rw [← hlA] at hf ⊢
            exact lookupResponse_find_same s l t rsp src now hf hc
        · have hp : projectOp s A (.incoming tid (.resp rsp) src) now = none := by
            cases t? <;> simp [projectOp, hr, haA]
          rw [hp]
          cases hfl : s.lookups.find? (·.aid = a) with
          | none => simp only; split <;> exact hf
          | some l0 =>
            simp only
            have hl0 : l0.aid = a := by simpa using (find_some_mem _ _ _ hfl).2
            rw [lookupResponse_find_other s l0 t? rsp src now A (by rw [hl0]; exact haA)]
            exact hf
  | start target ann =>
    show (s.startLookup target ann now).1.lookups.find? (·.aid = A) = _
    unfold HState.startLookup HState.afterNew
    simp only
    generalize Lookup.new s.nextAid s.nextStream s.selfId s.v6 target ann (s.env now) = r
    split
    · exact hf
    · simp only [HState.withEnv]
      rw [List.find?_append, hf]; rfl
  | fire =>
    show (s.fireTimer now).1.lookups.find? (·.aid = A) = _
    unfold HState.fireTimer
    cases hpop : s.timer.pop with
    | none =>
      have hp : projectOp s A .fire now = none := by simp [projectOp, hpop]
      rw [hp]; exact hf
    | some pe =>
      obtain ⟨timer, e⟩ := pe
      simp only
      unfold HState.handleTask
      cases htask : e.task with
      | tableRefresh =>
        have hp : projectOp s A .fire now = none := by simp [projectOp, hpop, htask]
        rw [hp]
        simp only
        rw [(refresh_frame { s with timer := timer } now).2.1]; exact hf
      | lookupEndGame t =>
        have hp : projectOp s A .fire now = none := by simp [projectOp, hpop, htask]
        rw [hp]
        have hne : t.aid ≠ A := by
          intro heq
          apply hnf
          simp only [firesEndgame, hpop]
          exact ⟨t.seq, by rw [htask, ← heq]⟩
        simp only
        rw [completeLookup_find _ t.aid A now hne]; exact hf
      | lookupTimeout t =>
        simp only
        by_cases htA : t.aid = A
        · have hp : projectOp s A .fire now = some (({ s with timer := timer } : HState).env now, .timeout t) := by
            simp [projectOp, hpop, htask, htA]
          rw [hp] at hc ⊢
          rw [htA, hf]
          simp only
          rw [← hlA] at hf ⊢
          exact lookupTimeout_find_same { s with timer := timer } l t now hf hc
        · have hp : projectOp s A .fire now = none := by simp [projectOp, hpop, htask, htA]
          rw [hp]
          cases hfl : s.lookups.find? (·.aid = t.aid) with
          | none => exact hf
          | some l0 =>
            simp only
            have hl0 : l0.aid = t.aid := by simpa using (find_some_mem _ _ _ hfl).2
            rw [lookupTimeout_find_other { s with timer := timer } l0 t now A (by rw [hl0]; exact htA)]
            exact hf

/-! ### a run of the handler projects to a run of the closed loop -/

/-- the events a run of the handler feeds the stored search `A` with -/
def projectRun (s : HState) (A : Nat) : List (HOp × Nat) → List (LEnv × ReachEv)
  | [] => []
  | (op, now) :: rest => (projectOp s A op now).toList ++ projectRun (s.hstep op now) A rest

/-- no step of the run pops an end-game timer entry of the search `A` -/
def NoEndgameFire (s : HState) (A : Nat) : List (HOp × Nat) → Prop
  | [] => True
  | (op, now) :: rest => ¬ firesEndgame s A op ∧ NoEndgameFire (s.hstep op now) A rest

theorem rinv_not_completed {N : List Handle} {tok : Handle → Bytes} {target : Bytes} {c : RCfg} (hinv : RInv N tok target c) :
    c.l.completedNow = false := by
  unfold Lookup.completedNow
  cases heg : c.l.inEndgame with
  | true => simp
  | false =>
    have := (hinv.reg heg).2
    cases hact : c.l.active with
    | nil => exact absurd hact this
    | cons a t => simp

theorem step_inv {N : List Handle} {tok : Handle → Bytes} {target : Bytes} {D : Nat} (hn : NetOk N target)
    (htl : ∀ h ∈ N, (tok h).length ≤ Constants.MAX_TOKEN_LEN) (hD : D < Constants.LOOKUP_TIMEOUT_ns)
    (c : RCfg) (env : LEnv) (ev : ReachEv) (h : RInv N tok target c) (hadm : Admissible N tok target D c env ev) :
    RInv N tok target (c.step env ev) ∧ Static c.l (c.step env ev).l := by
  cases ev with
  | resp x tid rsp => exact step_resp hn htl c env x tid rsp h hadm
  | timeout tid =>
    obtain ⟨h1, h2⟩ := step_timeout hD c env tid h hadm
    exact ⟨h1, by rw [h2]; exact Static.refl _⟩

theorem step_l (c : RCfg) (env : LEnv) (ev : ReachEv) : (c.step env ev).l = lstep c.l (some (env, ev)) := by
  cases ev <;> rfl

/-- **the stored search follows the projected run**: along a handler run on a node whose sends
succeed, in which the end-game entry of the search `A` does not fire and whose projection is a
truthful run, the search stored under `A` is the one the closed loop reaches, and the invariant holds -/
theorem runOps_sim {N : List Handle} {tok : Handle → Bytes} {target : Bytes} {D : Nat} (hn : NetOk N target)
    (htl : ∀ h ∈ N, (tok h).length ≤ Constants.MAX_TOKEN_LEN) (hD : D < Constants.LOOKUP_TIMEOUT_ns) (A : Nat) :
    ∀ (ops : List (HOp × Nat)) (s : HState) (c : RCfg), s.failAddrs = [] → s.lookups.find? (·.aid = A) = some c.l →
      RInv N tok target c → NoEndgameFire s A ops → TruthfulRun N tok target D c (projectRun s A ops) →
      (s.runOps ops).failAddrs = [] ∧
      (s.runOps ops).lookups.find? (·.aid = A) = some (c.run (projectRun s A ops)).l ∧
      RInv N tok target (c.run (projectRun s A ops)) ∧ Static c.l (c.run (projectRun s A ops)).l
  | [], s, c, hfa, hf, hinv, _, _ => ⟨hfa, hf, hinv, Static.refl _⟩
  | (op, now) :: rest, s, c, hfa, hf, hinv, hno, hrun => by
    obtain ⟨hno1, hno2⟩ := hno
    have hfa' : (s.hstep op now).failAddrs = [] := by rw [hstep_fa]; exact hfa
    simp only [projectRun, HState.runOps] at hrun ⊢
    cases hp : projectOp s A op now with
    | none =>
      rw [hp] at hrun
      simp only [Option.toList_none, List.nil_append] at hrun ⊢
      have hsim := hstep_sim s A c.l op now hf hno1 (by rw [hp]; exact rinv_not_completed hinv)
      rw [hp] at hsim
      exact runOps_sim hn htl hD A rest _ c hfa' hsim hinv hno2 hrun
    | some p =>
      obtain ⟨env, ev⟩ := p
      rw [hp] at hrun
      simp only [Option.toList_some, List.cons_append, List.nil_append] at hrun ⊢
      obtain ⟨hadm, hrest⟩ := hrun
      obtain ⟨hinv', hst⟩ := step_inv hn htl hD c env ev hinv hadm
      have hsim := hstep_sim s A c.l op now hf hno1 (by rw [hp, ← step_l]; exact rinv_not_completed hinv')
      rw [hp, ← step_l] at hsim
      obtain ⟨r1, r2, r3, r4⟩ := runOps_sim hn htl hD A rest _ (c.step env ev) hfa' hsim hinv' hno2 hrest
      exact ⟨r1, r2, r3, hst.trans r4⟩

/-! ### the first and the last step -/

/-- the datagrams among the effects of a handler step: destination, body, whether it went out -/
def hsendsOf (effs : List HEffect) : List (Addr × Body × Bool) :=
  effs.filterMap fun e => match e with
    | .send dst _ body ok => some (dst, body, ok)
    | _ => none

theorem hsendsOf_lift (effs : List Effect) :
    hsendsOf (liftEffects effs) = (sendsOf effs).map fun x => (x.1, Body.req x.2.1, x.2.2) := by
  induction effs with
  | nil => rfl
  | cons e es ih =>
    have hc : liftEffects (e :: es) = liftEffects [e] ++ liftEffects es := by simp [liftEffects]
    have hs : sendsOf (e :: es) = sendsOf [e] ++ sendsOf es := by
      show sendsOf ([e] ++ es) = _
      unfold sendsOf; rw [List.filterMap_append]
    rw [hc, hs, List.map_append, ← ih]
    unfold hsendsOf
    rw [List.filterMap_append]
    congr 1
    cases e <;> rfl

/-- `handle_start_lookup` stores the new search under the next action id -/
theorem startLookup_stored (s : HState) (target : Bytes) (ann : Bool) (now : Nat)
    (hfree : ∀ l ∈ s.lookups, l.aid ≠ s.nextAid)
    (haid : (Lookup.new s.nextAid s.nextStream s.selfId s.v6 target ann (s.env now)).1.aid = s.nextAid)
    (hc : (Lookup.new s.nextAid s.nextStream s.selfId s.v6 target ann (s.env now)).1.completedNow = false) :
    (s.startLookup target ann now).1.lookups.find? (·.aid = s.nextAid) =
      some (Lookup.new s.nextAid s.nextStream s.selfId s.v6 target ann (s.env now)).1 := by
  unfold HState.startLookup HState.afterNew
  simp only
  generalize Lookup.new s.nextAid s.nextStream s.selfId s.v6 target ann (s.env now) = r at haid hc
  rw [if_neg (by rw [hc]; simp)]
  simp only [HState.withEnv]
  rw [List.find?_append]
  have : s.lookups.find? (·.aid = s.nextAid) = none :=
    List.find?_eq_none.mpr (fun l hl => by simpa using hfree l hl)
  rw [this]
  simp [haid]

/-- when the end-game entry of the stored search `l` is popped, the handler runs `recv_finished` -/
theorem fireTimer_finish (s : HState) (A q now : Nat) (timer : Timer Task) (e : TimerEntry Task) (l : Lookup)
    (hpop : s.timer.pop = some (timer, e)) (htask : e.task = .lookupEndGame ⟨A, q⟩)
    (hf : s.lookups.find? (·.aid = A) = some l) (hfa : s.failAddrs = []) :
    ∃ env : LEnv, env.now = now ∧ (∀ a, env.sendFails a = false) ∧
      (s.fireTimer now).2.1 = liftEffects (l.recvFinished env s.announcePort).2.2 := by
  refine ⟨({ s with timer := timer, lookups := s.lookups.filter (·.aid ≠ A) } : HState).env now, rfl,
    fun a => by simp [HState.env, hfa], ?_⟩
  unfold HState.fireTimer
  simp only [hpop]
  unfold HState.handleTask
  simp only [htask]
  unfold HState.completeLookup
  simp only [hf]

theorem runOps_ap : ∀ (ops : List (HOp × Nat)) (s : HState), (s.runOps ops).announcePort = s.announcePort
  | [], _ => rfl
  | (op, now) :: rest, s => (runOps_ap rest _).trans (hstep_ap s op now)

/-! ### helpers for concrete runs -/

def HOp.isFire : HOp → Bool
  | .fire => true
  | _ => false

theorem noEndgameFire_of_no_fire (A : Nat) : ∀ (ops : List (HOp × Nat)) (s : HState),
    (∀ p ∈ ops, p.1.isFire = false) → NoEndgameFire s A ops
  | [], _, _ => trivial
  | (op, now) :: rest, s, h => by
    refine ⟨?_, noEndgameFire_of_no_fire A rest _ (fun p hp => h p (List.mem_cons_of_mem _ hp))⟩
    have := h (op, now) List.mem_cons_self
    cases op with
    | fire => simp [HOp.isFire] at this
    | incoming tid body src => exact fun hf => hf
    | start t a => exact fun hf => hf

theorem projectOp_sends (s : HState) (A : Nat) (op : HOp) (now : Nat) (hfa : s.failAddrs = []) :
    ∀ p ∈ (projectOp s A op now).toList, ∀ a, p.1.sendFails a = false := by
  intro p hp a
  unfold projectOp at hp
  cases op with
  | start t an => simp at hp
  | incoming tid body src =>
    cases body with
    | req r => simp at hp
    | err c m => simp at hp
    | resp rsp =>
      simp only at hp
      split at hp
      · split at hp
        · simp only [Option.toList_some, List.mem_singleton] at hp
          subst hp
          simp [respEnv, HState.env, hfa]
        · simp at hp
      · simp at hp
  | fire =>
    simp only at hp
    split at hp
    · split at hp
      · split at hp
        · simp only [Option.toList_some, List.mem_singleton] at hp
          subst hp
          simp [HState.env, hfa]
        · simp at hp
      · simp at hp
    · simp at hp

theorem projectRun_sends (A : Nat) : ∀ (ops : List (HOp × Nat)) (s : HState), s.failAddrs = [] →
    ∀ p ∈ projectRun s A ops, ∀ a, p.1.sendFails a = false
  | [], _, _, p, hp, _ => by simp [projectRun] at hp
  | (op, now) :: rest, s, hfa, p, hp, a => by
    simp only [projectRun] at hp
    rcases List.mem_append.mp hp with hp | hp
    · exact projectOp_sends s A op now hfa p hp a
    · exact projectRun_sends A rest _ ((hstep_fa s op now).trans hfa) p hp a

end Btdht
