import Btdht.Proofs.BootLive
/-
C15 timed clause, part 5: the progress invariant `Live` meets the obligations `ObS` of a step.
-/
namespace Btdht

theorem liveScan_other (g : Option Nat) (t : Nat) (e : DEv) (h : e ≠ .bstate) : liveScan g t e = g := by
  unfold liveScan
  cases g <;> cases e <;> first | rfl | exact absurd rfl h

theorem scanE_live_other (g : Option Nat) (t : Nat) (evs : List DEv) (h : ∀ e ∈ evs, e ≠ .bstate) :
    scanE liveScan g t evs = g := by
  induction evs generalizing g with
  | nil => rfl
  | cons e rest ih =>
    simp only [scanE, List.foldl_cons]
    rw [liveScan_other g t e (h e (by simp))]
    exact ih g (fun x hx => h x (by simp [hx]))

theorem live_worker (P : LP) (s : DState) (g : Option Nat) (r : DState × List DEv) (h : Live P s g)
    (hb : s.bStep s.clock = some r) (ha : ∀ e ∈ r.2, LiveA P s.clock e) :
    Live P r.1 (scanE liveScan g s.clock r.2) ∧ r.1.clock = s.clock := by
  obtain ⟨hf, hev⟩ := bStep_frame s s.clock r hb
  have hsc : scanE liveScan g s.clock r.2 = g := scanE_live_other g _ _ (fun e he hbs => by
    have := hev e he; rw [hbs] at this; simp [DEv.isWorkerMsg, DEv.isWorker] at this)
  rw [hsc]
  refine ⟨?_, hf.clock⟩
  have hrdy : (∀ e ∈ r.1.ready, e ∈ s.ready) ∧ (g = none → PhaseOk P r.1) := by
    unfold DState.bStep at hb
    split at hb
    · rename_i p body src rest hready
      simp only [Option.some.injEq] at hb; subst hb
      have hcr := workerMessage_cr { s with ready := rest } p body src s.clock
      refine ⟨fun e he => ?_, fun hg => ?_⟩
      · rw [hcr.2] at he; rw [hready]; exact List.mem_cons_of_mem _ he
      · have hok : PhaseOk P { s with ready := rest } := phaseOk_congr P s _ (h.live hg) rfl rfl rfl rfl rfl
        exact phaseOk_message P { s with ready := rest } p body src hok
          (fun ht hpc => h.rdy ht (p, body, src) (by rw [hready]; exact List.mem_cons_self) hpc)
    · have hcr := bStepMain_cr s s.clock r hb
      exact ⟨fun e he => by rw [hcr.2] at he; exact he, fun hg => phaseOk_main P s g r h (h.live hg) hb ha⟩
  exact ⟨by rw [hf.cfg]; exact h.noRouters, by rw [hf.cfg]; exact h.contacts,
    by rw [hf.seen]; exact Nat.le_trans h.ver hf.version, by rw [hf.clock]; exact h.clk,
    fun ht e he => h.rdy (by rw [← hf.clock]; exact ht) e (hrdy.1 e he), h.done, hrdy.2⟩

theorem live_frame (P : LP) (s s' : DState) (g : Option Nat) (h : Live P s g) (hcfg : s'.cfg = s.cfg)
    (hph : s'.phase = s.phase) (hclk : s'.clock = s.clock) (hpub : s'.pub = s.pub)
    (hseen : s'.seenVersion = s.seenVersion) (hver : s'.pubVersion = s.pubVersion) (hrdy : s'.ready = s.ready) :
    Live P s' g :=
  ⟨by rw [hcfg]; exact h.noRouters, by rw [hcfg]; exact h.contacts, by rw [hseen, hver]; exact h.ver,
   by rw [hclk]; exact h.clk, by rw [hclk, hrdy]; exact h.rdy, h.done,
   fun hg => phaseOk_congr P s s' (h.live hg) hph hclk hpub hseen hver⟩

theorem live_hframe (P : LP) (s s' : DState) (g : Option Nat) (h : Live P s g) (hf : HFrame s s')
    (hclk : s'.clock = s.clock) (hseen : s'.seenVersion = s.seenVersion) : Live P s' g :=
  live_frame P s s' g h hf.cfg hf.phase hclk hf.pub hseen hf.version hf.ready

theorem liftH_noBstate15 (effs : List HEffect) : ∀ e ∈ liftH effs, e ≠ .bstate := by
  intro e he
  simp only [liftH, List.mem_map] at he
  obtain ⟨x, _, rfl⟩ := he
  cases x <;> simp

theorem refreshRound_noBstate (s : DState) (now : Nat) : ∀ e ∈ (s.refreshRound now).2, e ≠ .bstate := by
  unfold DState.refreshRound
  intro e he
  simp only [List.cons_append, List.nil_append, List.mem_cons] at he
  rcases he with rfl | he
  · simp
  · exact liftH_noBstate15 _ e he

theorem fireOne_noBstate (s : DState) (now : Nat) (r : DState × List DEv) (hf : s.fireOne now = some r) :
    ∀ e ∈ r.2, e ≠ .bstate := by
  unfold DState.fireOne at hf
  cases hp : s.h.timer.pop with
  | none => simp [hp] at hf
  | some pe =>
    obtain ⟨timer, e⟩ := pe
    simp only [hp] at hf
    split at hf
    · split at hf
      · simp only [Option.some.injEq] at hf; subst hf
        intro x hx
        simp only [List.cons_append, List.nil_append, List.mem_cons] at hx
        rcases hx with rfl | hx
        · simp
        · exact refreshRound_noBstate _ now x hx
      · simp only [Option.some.injEq] at hf; subst hf
        intro x hx
        simp only [List.cons_append, List.nil_append, List.mem_cons] at hx
        rcases hx with rfl | hx
        · simp
        · exact liftH_noBstate15 _ x hx
    · simp at hf

theorem live_timer (P : LP) (s : DState) (g : Option Nat) (r : DState × List DEv) (h : Live P s g)
    (hf : s.fireOne s.clock = some r) : Live P r.1 (scanE liveScan g s.clock r.2) ∧ r.1.clock = s.clock := by
  rw [scanE_live_other g _ _ (fireOne_noBstate s _ r hf)]
  have hfr := fireOne_hframe s s.clock r hf
  have hc := fireOne_clock s s.clock r hf
  exact ⟨live_hframe P s r.1 g h hfr.1 hc hfr.2.2, hc⟩

theorem startLookup_noBstate (s : DState) (ih : Bytes) (ann : Bool) (now : Nat) :
    ∀ e ∈ (s.startLookup ih ann now).2, e ≠ .bstate := by
  unfold DState.startLookup
  split
  · simp
  · exact liftH_noBstate15 _

theorem phaseOk_not_awaitStart (P : LP) (s : DState) (h : PhaseOk P s) : s.phase ≠ .awaitStart := by
  intro hp; unfold PhaseOk at h; rw [hp] at h; exact h

theorem live_command (P : LP) (s : DState) (g : Option Nat) (c : Cmd) (h : Live P s g) :
    Live P (s.command c s.clock).1 (scanE liveScan g s.clock (s.command c s.clock).2) ∧
    (s.command c s.clock).1.clock = s.clock := by
  refine ⟨?_, command_clock s c s.clock⟩
  cases c with
  | startBootstrap =>
    simp only [DState.command]
    split
    · rename_i hph
      have hfr := beginAttempt_frame s s.clock
      have hcr := beginAttempt_cr s s.clock
      rw [scanE_live_other g _ _ (fun e he => by
        simp only [List.cons_append, List.nil_append, List.mem_cons] at he
        rcases he with rfl | he
        · simp
        · intro hb; have := hfr.2 e he; rw [hb] at this; simp [DEv.isWorker] at this)]
      exact ⟨by rw [hfr.1.cfg]; exact h.noRouters, by rw [hfr.1.cfg]; exact h.contacts,
        by rw [hfr.1.seen]; exact Nat.le_trans h.ver hfr.1.version, by rw [hcr.1]; exact h.clk,
        by rw [hcr.1, hcr.2]; exact h.rdy, h.done,
        fun hg => absurd hph (phaseOk_not_awaitStart P s (h.live hg))⟩
    · rw [scanE_live_other g _ _ (by simp)]; exact h
  | checkBootstrap =>
    simp only [DState.command]
    split
    · rw [scanE_live_other g _ _ (by simp)]
      exact live_frame P s _ g h rfl rfl rfl rfl rfl rfl rfl
    · rw [scanE_live_other g _ _ (by simp)]
      exact live_frame P s _ g h rfl rfl rfl rfl rfl rfl rfl
  | startLookup ih ann =>
    simp only [DState.command]
    have hf := startLookup_hframe s ih ann s.clock
    rw [scanE_live_other g _ _ (fun e he => by
      simp only [List.cons_append, List.nil_append, List.mem_cons] at he
      rcases he with rfl | he
      · simp
      · exact startLookup_noBstate _ _ _ _ e he)]
    exact live_hframe P s _ g h hf.1 (startLookup_clock s ih ann s.clock) hf.2.2
  | getLocalAddr => simp only [DState.command]; rw [scanE_live_other g _ _ (by simp)]; exact h
  | getState => simp only [DState.command]; rw [scanE_live_other g _ _ (by simp)]; exact h
  | loadContacts => simp only [DState.command]; rw [scanE_live_other g _ _ (by simp)]; exact h

theorem findPending_addr (s : DState) (tid : InTid) (src : Addr) (p : Pending) (h : s.findPending tid src = some p) :
    p.addr = src := by
  unfold DState.findPending at h
  cases tid with
  | sym t =>
    simp only at h
    have := List.find?_some h
    simp only [decide_eq_true_eq] at this
    exact this.1
  | raw b => simp at h
  | fresh a => simp at h

theorem live_datagram (P : LP) (s : DState) (g : Option Nat) (tid : InTid) (body : Body) (src : Addr) (h : Live P s g)
    (hd : LiveAd P tid body src) :
    Live P (s.datagram tid body src s.clock).1 (scanE liveScan g s.clock (s.datagram tid body src s.clock).2) ∧
    (s.datagram tid body src s.clock).1.clock = s.clock := by
  refine ⟨?_, datagram_clock s tid body src s.clock⟩
  unfold DState.datagram
  simp only
  split
  · rename_i p hfind
    rw [scanE_live_other g _ _ (by simp)]
    refine ⟨h.noRouters, h.contacts, h.ver, h.clk, ?_, h.done, fun hg => phaseOk_congr P s _ (h.live hg) rfl rfl rfl rfl rfl⟩
    intro ht e he
    rcases List.mem_append.mp he with he | he
    · exact h.rdy ht e he
    · simp only [List.mem_singleton] at he
      subst he
      intro hpc
      dsimp only at hpc ⊢
      split at hfind
      · cases hfind
      · rename_i hreq
        have hsrc := findPending_addr s tid src p hfind
        have hne := hd (Nat.le_trans ht h.clk) (hsrc.symm.trans hpc)
        cases body with
        | resp r => exact ⟨r, rfl⟩
        | req q => simp at hreq
        | err c m => exact absurd rfl (hne c m)
  · rw [scanE_live_other g _ _ (fun e he => by
      simp only [List.cons_append, List.nil_append, List.mem_cons] at he
      rcases he with rfl | he
      · simp
      · exact liftH_noBstate15 _ e he)]
    exact live_frame P s _ g h rfl rfl rfl rfl rfl rfl rfl

theorem live_garbage (P : LP) (s : DState) (g : Option Nat) (src : Addr) (h : Live P s g) :
    Live P s (liveScan g s.clock (.undecodable src)) := by
  rw [liveScan_other g _ _ (by simp)]; exact h

theorem T1_le_T2 (P : LP) : P.T1 ≤ P.T2 := by simp only [LP.T2]; omega

theorem phaseOk_clock (P : LP) (s : DState) (h : PhaseOk P s) : s.clock ≤ P.T2 := by
  have h12 := T1_le_T2 P
  unfold PhaseOk at h
  cases hph : s.phase with
  | awaitStart => rw [hph] at h; exact h.elim
  | forever => rw [hph] at h; exact h.elim
  | sleeping w => rw [hph] at h; dsimp only at h; omega
  | bootstrapped c => rw [hph] at h; dsimp only at h; omega
  | bucketStart k => rw [hph] at h; dsimp only at h; omega
  | buckets k a => rw [hph] at h; dsimp only at h; omega
  | initial tid rl nl sl count active resp stopAt =>
    rw [hph] at h; dsimp only at h
    rcases h.2.2.2.2.2 with ⟨_, hre⟩ | hre
    · have := hre.1; omega
    · have := hre.1; omega

theorem liveScan_some (t t' : Nat) (e : DEv) : liveScan (some t) t' e = some t := by
  unfold liveScan; cases e <;> rfl

theorem scanE_live_some (t t' : Nat) (evs : List DEv) : scanE liveScan (some t) t' evs = some t := by
  induction evs with
  | nil => rfl
  | cons e rest ih => simp only [scanE, List.foldl_cons, liveScan_some]; exact ih

theorem bootstrapSuccess_head (s : DState) (now : Nat) : ∃ rest, (s.bootstrapSuccess now).2 = .bstate :: rest := by
  unfold DState.bootstrapSuccess
  exact ⟨_, rfl⟩

/-- the ghost state after an observed completion: its instant, if it is the first -/
theorem scanE_live_bstate (g : Option Nat) (t : Nat) (rest : List DEv) :
    scanE liveScan g t (.bstate :: rest) = some (g.getD t) := by
  cases g with
  | none => simp only [scanE, List.foldl_cons, liveScan]; exact scanE_live_some t t rest
  | some u => exact scanE_live_some u t _

theorem phaseOk_seen (P : LP) (s : DState) (x : Nat) (h : PhaseOk P s) (hp : s.pub ≠ .bootstrapped) :
    PhaseOk P { s with seenVersion := x } := by
  unfold PhaseOk at h ⊢
  cases hph : s.phase with
  | bootstrapped c => rw [hph] at h; dsimp only at h; exact absurd h.1 hp
  | awaitStart => rw [hph] at h; exact h.elim
  | forever => rw [hph] at h; exact h.elim
  | sleeping w => rw [hph] at h; exact h
  | bucketStart k => rw [hph] at h; exact h
  | buckets k a => rw [hph] at h; exact h
  | initial tid rl nl sl count active resp stopAt => rw [hph] at h; exact h

theorem live_observe (P : LP) (s : DState) (g : Option Nat) (h : Live P s g) :
    Live P (s.hObserve s.clock).1 (scanE liveScan g s.clock (s.hObserve s.clock).2) ∧
    (s.hObserve s.clock).1.clock = s.clock := by
  refine ⟨?_, hObserve_clock s s.clock⟩
  unfold DState.hObserve
  split
  · exact h
  · simp only
    split
    · have hb := bootstrapSuccess_hframe { s with seenVersion := s.pubVersion } s.clock
      have hc := bootstrapSuccess_clock { s with seenVersion := s.pubVersion } s.clock
      obtain ⟨rest, hev⟩ := bootstrapSuccess_head { s with seenVersion := s.pubVersion } s.clock
      rw [hev, scanE_live_bstate]
      refine ⟨by rw [hb.1.cfg]; exact h.noRouters, by rw [hb.1.cfg]; exact h.contacts,
        by rw [hb.2.2, hb.1.version]; exact Nat.le_refl _, by rw [hc]; exact h.clk,
        by rw [hc, hb.1.ready]; exact h.rdy, ?_, fun hg => by cases hg⟩
      intro t ht
      simp only [Option.some.injEq] at ht
      subst ht
      cases g with
      | none => exact phaseOk_clock P s (h.live rfl)
      | some u => exact h.done u rfl
    · rename_i hpub
      exact ⟨h.noRouters, h.contacts, Nat.le_refl _, h.clk, h.rdy, h.done, fun hg => phaseOk_seen P s _ (h.live hg) hpub⟩

theorem pendingMin_fold (l : List Pending) (x : Nat) :
    ∃ y, l.foldl (fun acc p => minOpt acc (some p.deadline)) (some x) = some y ∧ (y = x ∨ ∃ p ∈ l, y = p.deadline) := by
  induction l generalizing x with
  | nil => exact ⟨x, rfl, Or.inl rfl⟩
  | cons q rest ih =>
    simp only [List.foldl_cons, minOpt]
    obtain ⟨y, hy, hy2⟩ := ih (min x q.deadline)
    refine ⟨y, hy, ?_⟩
    rcases hy2 with h | ⟨p, hp, h⟩
    · by_cases hx : x ≤ q.deadline
      · left; omega
      · right; exact ⟨q, List.mem_cons_self, by omega⟩
    · right; exact ⟨p, List.mem_cons_of_mem _ hp, h⟩

/-- the earliest deadline of a non-empty list of exchanges is the deadline of one of them -/
theorem pendingMin_mem (l : List Pending) (h : l ≠ []) : ∃ p ∈ l, pendingMin l = some p.deadline := by
  cases l with
  | nil => exact absurd rfl h
  | cons q rest =>
    obtain ⟨y, hy, hy2⟩ := pendingMin_fold rest q.deadline
    have he : pendingMin (q :: rest) = some y := hy
    rcases hy2 with h | ⟨p, hp, h⟩
    · exact ⟨q, List.mem_cons_self, by rw [he, h]⟩
    · exact ⟨p, List.mem_cons_of_mem _ hp, by rw [he, h]⟩

theorem minOpt_some_left (t : Nat) (x : Option Nat) : ∃ b, minOpt (some t) x = some b ∧ b ≤ t := by
  cases x with
  | none => exact ⟨t, rfl, Nat.le_refl _⟩
  | some y => exact ⟨min t y, rfl, Nat.min_le_left _ _⟩

/-- time passing at a step boundary, not beyond what the worker waits for, keeps the phase bounds -/
theorem phaseOk_clock_move (P : LP) (s : DState) (d : Nat) (h : PhaseOk P s) (hb : Boundary s) (hd : s.clock ≤ d)
    (hdue : ∀ b, s.phase.due = some b → d ≤ max b s.clock) : PhaseOk P { s with clock := d } := by
  have hw := hb.waits
  unfold PhaseOk at h ⊢
  cases hph : s.phase with
  | awaitStart => rw [hph] at h; exact h.elim
  | forever => rw [hph] at h; exact h.elim
  | sleeping w =>
    rw [hph] at h; dsimp only at h ⊢
    have := hdue w (by rw [hph]; rfl)
    exact ⟨h.1, by omega, h.2.2⟩
  | bootstrapped c =>
    rw [hph] at h; dsimp only at h
    have := hb.seen; omega
  | bucketStart k => rw [hph] at hw; exact hw.elim
  | buckets k a =>
    rw [hph] at h hw; dsimp only at h ⊢
    simp only [BPhase.waits] at hw
    obtain ⟨p, hp, hmin⟩ := pendingMin_mem a hw.1
    have := hdue p.deadline (by rw [hph]; exact hmin)
    have := h.2.2.2 p hp
    exact ⟨h.1, h.2.1, by omega, h.2.2.2⟩
  | initial tid rl nl sl count active resp stopAt =>
    rw [hph] at h hw; dsimp only at h ⊢
    simp only [BPhase.waits] at hw
    obtain ⟨hpb, hrl, hst, hnl, hslc, hre⟩ := h
    subst hrl
    -- the instant `d` is within the bound of the round
    have key : ∀ K lim, RoundEnds s.clock nl sl count active K lim → RoundEnds d nl sl count active K lim ∧
        (∀ t, sl = some t → d ≤ t) := by
      intro K lim hr
      by_cases hne : nl = []
      · have hsl := hnl hne
        subst hne hsl
        simp only [List.isEmpty_nil, Bool.and_self, if_true] at hw
        obtain ⟨p, hp, hmin⟩ := pendingMin_mem active hw.2
        have := hdue p.deadline (by rw [hph]; simp only [BPhase.due, minOpt]; exact hmin)
        have := hr.2.1 p hp
        have := hr.1
        exact ⟨⟨by omega, hr.2.1, fun h => absurd rfl h⟩, fun t ht => by cases ht⟩
      · have hemp : (([] : List Addr).isEmpty && nl.isEmpty) = false := by
          cases nl with
          | nil => exact absurd rfl hne
          | cons a b => rfl
        simp only [hemp, Bool.false_eq_true, if_false] at hw
        obtain ⟨t, hslt, hlt⟩ := hw.2
        subst hslt
        obtain ⟨b, hb1, hb2⟩ := minOpt_some_left t (pendingMin active)
        have := hdue b (by rw [hph]; exact hb1)
        have h3 := hr.2.2 hne
        simp only [Option.getD_some] at h3 ⊢
        refine ⟨⟨by omega, hr.2.1, fun _ => ?_⟩, fun t' ht' => by cases ht'; omega⟩
        simp only [Option.getD_some]
        exact h3
    refine ⟨hpb, rfl, hst, hnl, ?_, ?_⟩
    · intro t ht
      have hk : ∀ t, sl = some t → d ≤ t := by
        rcases hre with ⟨_, hre⟩ | hre
        · exact (key _ _ hre).2
        · exact (key _ _ hre).2
      exact ⟨(hslc t ht).1, hk t ht⟩
    · rcases hre with ⟨hg, hre⟩ | hre
      · exact Or.inl ⟨⟨by have := hg.1; omega, hg.2⟩, (key _ _ hre).1⟩
      · exact Or.inr (key _ _ hre).1

theorem live_clock (P : LP) (s : DState) (g : Option Nat) (d : Nat) (h : Live P s g) (hb : Boundary s) (hd : s.clock ≤ d)
    (hT : d ≤ P.T) (hdue : ∀ b, s.phase.due = some b → d ≤ max b s.clock) : Live P { s with clock := d } g := by
  refine ⟨h.noRouters, h.contacts, h.ver, hT, ?_, h.done, fun hg => phaseOk_clock_move P s d (h.live hg) hb hd hdue⟩
  intro _ e he
  have hr : ({ s with clock := d } : DState).ready = [] := hb.ready
  rw [hr] at he
  cases he

/-- **the progress invariant is kept by every transition of a step** (under the assumptions on the
step's events and datagrams) -/
theorem live_obs (P : LP) : ObS (Live P) liveScan (LiveA P) (LiveAd P) P.T where
  clock := fun s g d h hb hd hT hdue => live_clock P s g d h hb hd hT hdue
  oracle := fun s g fr h => live_frame P s _ g h rfl rfl rfl rfl rfl rfl rfl
  worker := fun s g r h hb ha => live_worker P s g r h hb ha
  timer := fun s g r h hf => live_timer P s g r h hf
  observe := fun s g h => live_observe P s g h
  command := fun s g c h => live_command P s g c h
  datagram := fun s g tid body src h hd => live_datagram P s g tid body src h hd
  garbage := fun s g src h => live_garbage P s g src h

end Btdht
