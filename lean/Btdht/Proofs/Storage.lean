import Btdht.Model.Storage
/-!
Helper lemmas for C07: the peer store's expiry queue refines a simple specification
(`sPurge`/`sAdd`/`sFind` on a list of (pair, time-of-last-announce)).
-/
namespace Btdht

/-! ### The specification -/

/-- spec: drop everything announced 24 h ago or earlier -/
def sPurge (l : List Expiration) (now : Nat) : List Expiration := l.filter (fun e => !e.isExpired now)

/-- spec: announce `it` at `now` -/
def sAdd (l : List Expiration) (it : Item) (now : Nat) : List Expiration × Bool :=
  let l := sPurge l now
  if l.any (fun e => e.item = it) then (l.filter (fun e => e.item ≠ it) ++ [{ item := it, inserted := now }], true)
  else if l.length < Constants.MAX_ITEMS_STORED then (l ++ [{ item := it, inserted := now }], true)
  else (l, false)

/-- spec: the addresses stored for `ih` -/
def sFind (l : List Expiration) (ih : Bytes) (now : Nat) : List Expiration × List Addr :=
  let l := sPurge l now
  (l, (l.filter (fun e => e.item.ih = ih)).map (fun e => e.item.addr))

/-! ### takeWhile on a sorted queue is filter -/

def SortedQ (l : List Expiration) : Prop := l.Pairwise (fun a b => a.inserted ≤ b.inserted)

theorem isExpired_mono {a b : Expiration} {now : Nat} (h : a.inserted ≤ b.inserted)
    (hb : b.isExpired now = true) : a.isExpired now = true := by
  simp only [Expiration.isExpired, decide_eq_true_eq] at *
  omega

theorem takeWhile_eq_filter (now : Nat) : ∀ (l : List Expiration), SortedQ l →
    l.takeWhile (·.isExpired now) = l.filter (·.isExpired now) ∧
    l.dropWhile (·.isExpired now) = l.filter (fun e => !e.isExpired now)
  | [], _ => by simp
  | a :: l, h => by
    have hl : SortedQ l := (List.pairwise_cons.mp h).2
    have ha := (List.pairwise_cons.mp h).1
    obtain ⟨ih1, ih2⟩ := takeWhile_eq_filter now l hl
    by_cases hp : a.isExpired now = true
    · simp [List.takeWhile_cons, List.dropWhile_cons, List.filter_cons, hp, ih1, ih2]
    · have hnone : ∀ x ∈ l, x.isExpired now = false := by
        intro x hx
        cases hx' : x.isExpired now with
        | false => rfl
        | true => exact absurd (isExpired_mono (ha x hx) hx') hp
      have hf1 : l.filter (·.isExpired now) = [] := by
        apply List.filter_eq_nil_iff.mpr; intro x hx; simp [hnone x hx]
      have hf2 : l.filter (fun e => !e.isExpired now) = l := by
        apply List.filter_eq_self.mpr; intro x hx; simp [hnone x hx]
      simp [List.takeWhile_cons, List.dropWhile_cons, List.filter_cons, hp, hf1, hf2]

theorem take_length_takeWhile {α} (p : α → Bool) : ∀ (l : List α),
    l.take (l.takeWhile p).length = l.takeWhile p ∧ l.drop (l.takeWhile p).length = l.dropWhile p
  | [] => by simp
  | a :: l => by
    obtain ⟨h1, h2⟩ := take_length_takeWhile p l
    by_cases hp : p a = true
    · simp [List.takeWhile_cons, List.dropWhile_cons, hp, h1, h2]
    · simp [List.takeWhile_cons, List.dropWhile_cons, hp]

theorem map_nodup_inj {α β} (f : α → β) : ∀ {l : List α}, (l.map f).Nodup →
    ∀ {a b : α}, a ∈ l → b ∈ l → f a = f b → a = b
  | [], _, _, _, ha, _, _ => by simp at ha
  | x :: l, h, a, b, ha, hb, e => by
    rw [List.map_cons, List.nodup_cons] at h
    rcases List.mem_cons.mp ha with rfl | ha' <;> rcases List.mem_cons.mp hb with rfl | hb'
    · rfl
    · exact absurd (List.mem_map.mpr ⟨b, hb', e.symm⟩) h.1
    · exact absurd (List.mem_map.mpr ⟨a, ha', e⟩) h.1
    · exact map_nodup_inj f h.2 ha' hb' e

/-! ### Well-formedness of the store and its preservation -/

structure StWF (s : Storage) (now : Nat) : Prop where
  sorted : SortedQ s.expires
  le_now : ∀ e ∈ s.expires, e.inserted ≤ now
  nodup : (s.expires.map (·.item)).Nodup
  perm : s.items.Perm (s.expires.map (·.item))

theorem stWF_empty (now : Nat) : StWF Storage.empty now :=
  ⟨List.Pairwise.nil, by simp [Storage.empty], by simp [Storage.empty], by simp [Storage.empty]⟩

theorem removeExpired_expires (s : Storage) (now : Nat) (h : SortedQ s.expires) :
    (s.removeExpired now).expires = sPurge s.expires now := by
  unfold Storage.removeExpired sPurge
  simp only
  rw [(take_length_takeWhile _ _).2, (takeWhile_eq_filter now _ h).2]

theorem removeExpired_wf (s : Storage) (now0 now : Nat) (h : StWF s now0) (hn : now0 ≤ now) :
    StWF (s.removeExpired now) now := by
  have hexp := removeExpired_expires s now h.sorted
  have hitems : (s.removeExpired now).items =
      s.items.filter (fun it => !((s.expires.filter (·.isExpired now)).map (·.item)).contains it) := by
    unfold Storage.removeExpired
    simp only
    rw [(take_length_takeWhile _ _).1, (takeWhile_eq_filter now _ h.sorted).1]
  refine ⟨?_, ?_, ?_, ?_⟩
  · rw [hexp]; exact List.Pairwise.filter _ h.sorted
  · rw [hexp]; intro e he
    have := h.le_now e (List.mem_filter.mp he).1
    omega
  · rw [hexp]
    exact List.Nodup.sublist (List.Sublist.map _ List.filter_sublist) h.nodup
  · rw [hexp, hitems]
    have hp := List.Perm.filter (fun it => !((s.expires.filter (·.isExpired now)).map (·.item)).contains it) h.perm
    refine hp.trans ?_
    rw [List.filter_map]
    apply List.Perm.of_eq
    congr 1
    apply List.filter_congr
    intro e he
    simp only [Function.comp, sPurge]
    cases hpe : e.isExpired now with
    | true =>
      simp only [Bool.not_true, Bool.not_eq_false', List.contains_iff_mem]
      simp only [List.mem_map, List.mem_filter]
      exact ⟨e, ⟨he, hpe⟩, rfl⟩
    | false =>
      simp only [Bool.not_false, Bool.not_eq_true', List.contains_eq_mem, decide_eq_false_iff_not]
      simp only [List.mem_map, List.mem_filter]
      rintro ⟨e', ⟨he', hpe'⟩, heq⟩
      have : e' = e := map_nodup_inj _ h.nodup he' he heq
      rw [this, hpe] at hpe'
      exact absurd hpe' (by simp)

end Btdht

namespace Btdht

theorem contains_items_iff (s : Storage) (now : Nat) (h : StWF s now) (it : Item) :
    s.items.contains it = s.expires.any (fun e => e.item = it) := by
  have h1 : s.items.contains it = true ↔ s.expires.any (fun e => decide (e.item = it)) = true := by
    rw [List.contains_iff_mem, h.perm.mem_iff, List.any_eq_true]
    simp only [List.mem_map, decide_eq_true_eq]
  cases ha : s.expires.any (fun e => decide (e.item = it)) with
  | true => exact h1.mpr ha
  | false =>
    cases hc : s.items.contains it with
    | false => rfl
    | true => rw [h1.mp hc] at ha; exact absurd ha (by simp)

/-- `add` on a well-formed store: the queue follows the specification, the result is the
specification's, and well-formedness is kept. -/
theorem add_refines (s : Storage) (now0 now : Nat) (h : StWF s now0) (hn : now0 ≤ now) (it : Item) :
    (s.add it now).1.expires = (sAdd s.expires it now).1 ∧ (s.add it now).2 = (sAdd s.expires it now).2 ∧
    StWF (s.add it now).1 now := by
  have hw := removeExpired_wf s now0 now h hn
  have hexp := removeExpired_expires s now h.sorted
  have hc := contains_items_iff _ now hw it
  have hqs : SortedQ (sPurge s.expires now) := hexp ▸ hw.sorted
  have hql : ∀ e ∈ sPurge s.expires now, e.inserted ≤ now := hexp ▸ hw.le_now
  have hqn : ((sPurge s.expires now).map (·.item)).Nodup := hexp ▸ hw.nodup
  have hqp : (s.removeExpired now).items.Perm ((sPurge s.expires now).map (·.item)) := hexp ▸ hw.perm
  unfold Storage.add sAdd
  simp only [hc, hexp]
  generalize sPurge s.expires now = q at *
  by_cases hany : q.any (fun e => decide (e.item = it)) = true
  · simp only [hany, if_true, true_and]
    refine ⟨?_, ?_, ?_, ?_⟩
    · show SortedQ (_ ++ _)
      unfold SortedQ
      rw [List.pairwise_append]
      refine ⟨List.Pairwise.filter _ hqs, List.pairwise_singleton _ _, ?_⟩
      intro a ha b hb
      simp only [List.mem_singleton] at hb; subst hb
      exact hql a (List.mem_filter.mp ha).1
    · intro e he
      show e.inserted ≤ now
      simp only [List.mem_append, List.mem_filter, List.mem_singleton] at he
      rcases he with ⟨he, _⟩ | rfl
      · exact hql e he
      · exact Nat.le_refl _
    · show (List.map _ (_ ++ _)).Nodup
      rw [List.map_append, List.nodup_append]
      refine ⟨List.Nodup.sublist (List.Sublist.map _ List.filter_sublist) hqn, by simp, ?_⟩
      intro a ha b hb
      simp only [List.map_cons, List.map_nil, List.mem_singleton] at hb; subst hb
      simp only [List.mem_map, List.mem_filter] at ha
      obtain ⟨e, ⟨_, hne⟩, rfl⟩ := ha
      simpa using hne
    · show List.Perm (s.removeExpired now).items (List.map _ (_ ++ _))
      rw [List.map_append]
      refine hqp.trans ?_
      have hmem : it ∈ q.map (·.item) := by
        rw [List.any_eq_true] at hany
        obtain ⟨e, he, hd⟩ := hany
        exact List.mem_map.mpr ⟨e, he, by simpa using hd⟩
      have hfm : List.map (·.item) (q.filter (fun e => decide (e.item ≠ it))) =
          (q.map (·.item)).filter (fun x => decide (x ≠ it)) := by
        rw [List.filter_map]; rfl
      rw [hfm]
      have herase : (q.map (·.item)).filter (fun x => decide (x ≠ it)) = (q.map (·.item)).erase it := by
        rw [List.Nodup.erase_eq_filter hqn]
        apply List.filter_congr; intro x _
        by_cases hx : x = it <;> simp [bne, hx]
      rw [herase]
      exact (List.perm_cons_erase hmem).trans (List.perm_append_singleton _ _).symm
  · simp only [hany, if_false, Bool.false_eq_true]
    by_cases hroom : q.length < Constants.MAX_ITEMS_STORED
    · simp only [hroom, if_true, true_and]
      have hnot : it ∉ q.map (·.item) := by
        intro hm
        apply hany
        rw [List.any_eq_true]
        obtain ⟨e, he, rfl⟩ := List.mem_map.mp hm
        exact ⟨e, he, by simp⟩
      refine ⟨?_, ?_, ?_, ?_⟩
      · show SortedQ (_ ++ _)
        unfold SortedQ
        rw [List.pairwise_append]
        refine ⟨hqs, List.pairwise_singleton _ _, ?_⟩
        intro a ha b hb
        simp only [List.mem_singleton] at hb; subst hb
        exact hql a ha
      · intro e he
        show e.inserted ≤ now
        simp only [List.mem_append, List.mem_singleton] at he
        rcases he with he | rfl
        · exact hql e he
        · exact Nat.le_refl _
      · show (List.map _ (_ ++ _)).Nodup
        rw [List.map_append, List.nodup_append]
        refine ⟨hqn, by simp, ?_⟩
        intro a ha b hb
        simp only [List.map_cons, List.map_nil, List.mem_singleton] at hb; subst hb
        intro e; subst e; exact hnot ha
      · show List.Perm ((s.removeExpired now).items ++ [it]) (List.map _ (_ ++ _))
        rw [List.map_append]
        exact List.Perm.append_right _ hqp
    · simp only [hroom, if_false, true_and]
      exact ⟨hexp, ⟨hexp ▸ hqs, hexp ▸ hql, hexp ▸ hqn, hexp ▸ hqp⟩⟩

/-- `find` on a well-formed store: same queue as the specification, the answer is a permutation
of the specification's answer, and well-formedness is kept. -/
theorem find_refines (s : Storage) (now0 now : Nat) (h : StWF s now0) (hn : now0 ≤ now) (ih : Bytes) :
    (s.find ih now).1.expires = (sFind s.expires ih now).1 ∧
    ((s.find ih now).2).Perm (sFind s.expires ih now).2 ∧
    StWF (s.find ih now).1 now := by
  have hw := removeExpired_wf s now0 now h hn
  have hexp := removeExpired_expires s now h.sorted
  unfold Storage.find sFind
  simp only
  refine ⟨hexp, ?_, hw⟩
  have hp := (List.Perm.filter (fun it : Item => decide (it.ih = ih)) hw.perm).map (·.addr)
  rw [hexp, List.filter_map, List.map_map] at hp
  exact hp

end Btdht
