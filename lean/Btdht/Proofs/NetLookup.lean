import Btdht.Proofs.Reach
/-!
C01 helpers: the shape of what a search hands to the socket and to the timer when every send
succeeds — every datagram is a `get_peers` query for the search's target carrying the own id, and
every new timer entry is the time-out entry of a query sent in the same step (due 1.5 s later) or
the end-game entry of the step that started the end-game (due 1.5 s later).
-/
namespace Btdht

/-- every effect is a `get_peers` query for `(selfId, target)` that went out -/
def AllQ (selfId target : Bytes) (effs : List Effect) : Prop :=
  ∀ e ∈ effs, ∃ dst tid, e = .send dst tid (.getPeers selfId target none) true

/-- the entries of `t'` are entries of `t`, time-out entries of queries among `effs` sent at `now`,
or — if `E` — an end-game entry of the search `aid` scheduled at `now` -/
def TimerNew (now aid : Nat) (effs : List Effect) (E : Prop) (t t' : Timer Task) : Prop :=
  ∀ te ∈ t'.entries, te ∈ t.entries ∨
    (∃ tid dst, te.task = .lookupTimeout tid ∧ te.deadline = now + Constants.LOOKUP_TIMEOUT_ns ∧ (tid, dst, now) ∈ queriesOf now effs) ∨
    (E ∧ ∃ q, te.task = .lookupEndGame ⟨aid, q⟩ ∧ te.deadline = now + Constants.ENDGAME_TIMEOUT_ns)

theorem timerNew_refl (now aid : Nat) (effs : List Effect) (E : Prop) (t : Timer Task) : TimerNew now aid effs E t t :=
  fun _ h => Or.inl h

theorem allQ_append {selfId target : Bytes} {a b : List Effect} (ha : AllQ selfId target a) (hb : AllQ selfId target b) :
    AllQ selfId target (a ++ b) := by
  intro e he
  rcases List.mem_append.mp he with h | h
  · exact ha e h
  · exact hb e h

theorem timerNew_trans {now aid : Nat} {e1 e2 : List Effect} {E1 E2 : Prop} {t t1 t2 : Timer Task}
    (h1 : TimerNew now aid e1 E1 t t1) (h2 : TimerNew now aid e2 E2 t1 t2) :
    TimerNew now aid (e1 ++ e2) (E1 ∨ E2) t t2 := by
  intro te hte
  rcases h2 te hte with h | ⟨tid, dst, a, b, c⟩ | ⟨hE, q, a, b⟩
  · rcases h1 te h with h | ⟨tid, dst, a, b, c⟩ | ⟨hE, q, a, b⟩
    · exact Or.inl h
    · exact Or.inr (Or.inl ⟨tid, dst, a, b, by rw [queriesOf_append]; exact List.mem_append_left _ c⟩)
    · exact Or.inr (Or.inr ⟨Or.inl hE, q, a, b⟩)
  · exact Or.inr (Or.inl ⟨tid, dst, a, b, by rw [queriesOf_append]; exact List.mem_append_right _ c⟩)
  · exact Or.inr (Or.inr ⟨Or.inr hE, q, a, b⟩)

structure RShape (l : Lookup) (env : LEnv) (acc : RoundAcc) : Prop where
  selfId : acc.l.selfId = l.selfId
  target : acc.l.target = l.target
  aid : acc.l.aid = l.aid
  now : acc.env.now = env.now
  fails : acc.env.sendFails = env.sendFails
  effs : AllQ l.selfId l.target acc.effs
  timer : TimerNew env.now l.aid acc.effs False env.timer acc.env.timer

theorem requestStep_shape (l : Lookup) (env : LEnv) (acc : RoundAcc) (hd : Handle × Bytes)
    (hf : ∀ a, env.sendFails a = false) (h : RShape l env acc) : RShape l env (requestStep acc hd) := by
  have hnf : ¬ (acc.env.sendFails hd.1.addr = true) := by rw [h.fails, hf]; simp
  unfold requestStep
  simp only
  rw [if_neg hnf]
  refine ⟨h.selfId, h.target, h.aid, h.now, h.fails, ?_, ?_⟩
  · simp only
    refine allQ_append h.effs (fun e he => ?_)
    rw [List.mem_singleton.mp he]
    exact ⟨hd.1.addr, ⟨acc.l.aid, acc.l.nextSeq⟩, by simp [getPeersReq, h.selfId, h.target]⟩
  · intro te hte
    simp only [Timer.scheduleAt, List.mem_append, List.mem_singleton] at hte
    rcases hte with hte | hte
    · rcases h.timer te hte with h1 | ⟨tid, dst, a, b, c⟩ | ⟨hE, _⟩
      · exact Or.inl h1
      · exact Or.inr (Or.inl ⟨tid, dst, a, b, by simp only; rw [queriesOf_append]; exact List.mem_append_left _ c⟩)
      · exact absurd hE id
    · refine Or.inr (Or.inl ⟨⟨acc.l.aid, acc.l.nextSeq⟩, hd.1.addr, by rw [hte], by rw [hte, h.now], ?_⟩)
      simp only
      rw [queriesOf_append]
      apply List.mem_append_right
      rw [h.now]
      simp [queriesOf, getPeersReq]

theorem requestRound_shape (l : Lookup) (env : LEnv) (nodes : List (Handle × Bytes)) (hf : ∀ a, env.sendFails a = false) :
    AllQ l.selfId l.target (l.requestRound env nodes).2.2 ∧
    TimerNew env.now l.aid (l.requestRound env nodes).2.2 False env.timer (l.requestRound env nodes).2.1.timer := by
  have key : ∀ (ns : List (Handle × Bytes)) (acc : RoundAcc), RShape l env acc → RShape l env (ns.foldl requestStep acc) := by
    intro ns
    induction ns with
    | nil => intro acc h; exact h
    | cons x xs ih => intro acc h; exact ih _ (requestStep_shape l env acc x hf h)
  have h1 := key nodes { l := l, env := env, effs := [], sent := 0 }
    ⟨rfl, rfl, rfl, rfl, rfl, fun e he => by simp at he, timerNew_refl _ _ _ _ _⟩
  unfold Lookup.requestRound
  simp only
  split <;> exact ⟨h1.effs, h1.timer⟩

theorem endgameRound_shape (l : Lookup) (env : LEnv) (hf : ∀ a, env.sendFails a = false) :
    AllQ l.selfId l.target (l.endgameRound env).2.2 ∧
    TimerNew env.now l.aid (l.endgameRound env).2.2 True env.timer (l.endgameRound env).2.1.timer := by
  unfold Lookup.endgameRound
  simp only
  have key := foldl_pred
    (fun (acc : EndAcc) => acc.l.selfId = l.selfId ∧ acc.l.target = l.target ∧ acc.env.sendFails = env.sendFails ∧
      AllQ l.selfId l.target acc.effs ∧
      acc.env.timer = (env.timer.scheduleAt (env.now + Constants.ENDGAME_TIMEOUT_ns) (.lookupEndGame ⟨l.aid, l.nextSeq⟩)).1)
    (endgameStep (env.timer.scheduleAt (env.now + Constants.ENDGAME_TIMEOUT_ns) (.lookupEndGame ⟨l.aid, l.nextSeq⟩)).2)
    (fun b a hb => by
      obtain ⟨h1, h2, h3, h4, h5⟩ := hb
      unfold endgameStep
      split
      · exact ⟨h1, h2, h3, h4, h5⟩
      · simp only
        have hnf : ¬ (b.env.sendFails a.2.1.addr = true) := by rw [h3, hf]; simp
        rw [if_neg hnf]
        refine ⟨h1, h2, h3, allQ_append h4 (fun e he => ?_), h5⟩
        rw [List.mem_singleton.mp he]
        exact ⟨a.2.1.addr, ⟨b.l.aid, b.l.nextSeq⟩, by simp [getPeersReq, h1, h2]⟩)
    l.sorted
    { l := { l with inEndgame := true, nextSeq := l.nextSeq + 1 },
      env := { env with timer := (env.timer.scheduleAt (env.now + Constants.ENDGAME_TIMEOUT_ns)
        (.lookupEndGame ⟨l.aid, l.nextSeq⟩)).1 }, effs := [], out := [] }
    ⟨rfl, rfl, rfl, fun e he => by simp at he, rfl⟩
  obtain ⟨_, _, _, k4, k5⟩ := key
  refine ⟨k4, ?_⟩
  rw [k5]
  intro te hte
  simp only [Timer.scheduleAt, List.mem_append, List.mem_singleton] at hte
  rcases hte with hte | hte
  · exact Or.inl hte
  · exact Or.inr (Or.inr ⟨trivial, l.nextSeq, by rw [hte], by rw [hte]⟩)

theorem requestRound_now (l : Lookup) (env : LEnv) (nodes : List (Handle × Bytes)) :
    (l.requestRound env nodes).2.1.now = env.now ∧ (l.requestRound env nodes).2.1.sendFails = env.sendFails ∧
    (l.requestRound env nodes).1.selfId = l.selfId ∧ (l.requestRound env nodes).1.target = l.target ∧
    (l.requestRound env nodes).1.aid = l.aid ∧ (l.requestRound env nodes).1.inEndgame = l.inEndgame := by
  obtain ⟨k, e⟩ := requestRound_keeps env.table l env nodes (.refl _)
  exact ⟨k.now, k.fails, k.selfId, k.target, k.aid, e⟩

/-- `continue_search`, every send succeeding; `E`: this step started the end-game -/
theorem continueSearch_shape (l : Lookup) (env : LEnv) (it : Option (List (Handle × Bool))) (nd : Bytes)
    (hf : ∀ a, env.sendFails a = false) :
    AllQ l.selfId l.target (l.continueSearch env it nd).2.2 ∧
    TimerNew env.now l.aid (l.continueSearch env it nd).2.2 (l.inEndgame = false ∧ (l.continueSearch env it nd).1.inEndgame = true)
      env.timer (l.continueSearch env it nd).2.1.timer := by
  have h1 : AllQ l.selfId l.target (l.iterRound env it nd).2.2 ∧
      TimerNew env.now l.aid (l.iterRound env it nd).2.2 False env.timer (l.iterRound env it nd).2.1.timer ∧
      (l.iterRound env it nd).2.1.now = env.now ∧ (l.iterRound env it nd).2.1.sendFails = env.sendFails ∧
      (l.iterRound env it nd).1.selfId = l.selfId ∧ (l.iterRound env it nd).1.target = l.target ∧
      (l.iterRound env it nd).1.aid = l.aid := by
    unfold Lookup.iterRound
    cases it with
    | none => exact ⟨fun e he => by simp at he, timerNew_refl _ _ _ _ _, rfl, rfl, rfl, rfl, rfl⟩
    | some picks =>
      obtain ⟨a, b⟩ := requestRound_shape l env _ hf
      obtain ⟨c, d, e, f, g, _⟩ := requestRound_now l env ((picks.filter (fun (p : Handle × Bool) => p.2)).map fun (p : Handle × Bool) => (p.1, nd))
      exact ⟨a, b, c, d, e, f, g⟩
  unfold Lookup.continueSearch
  generalize l.iterRound env it nd = r1 at h1
  obtain ⟨a1, t1, n1, f1, s1, g1, i1⟩ := h1
  by_cases heg : (!l.inEndgame) = true
  · rw [if_pos heg]
    have hegf : l.inEndgame = false := by simpa using heg
    simp only
    by_cases hemp : r1.1.active.isEmpty = true
    · rw [if_pos hemp]
      obtain ⟨a2, t2⟩ := endgameRound_shape r1.1 r1.2.1 (fun a => by rw [f1]; exact hf a)
      rw [s1, g1] at a2
      rw [n1, i1] at t2
      refine ⟨allQ_append a1 a2, ?_⟩
      have := timerNew_trans t1 t2
      intro te hte
      rcases this te hte with h | h | ⟨_, h⟩
      · exact Or.inl h
      · exact Or.inr (Or.inl h)
      · exact Or.inr (Or.inr ⟨⟨hegf, (endgameRound_keeps r1.2.1.table r1.1 r1.2.1 (.refl _)).2⟩, h⟩)
    · rw [if_neg hemp]
      refine ⟨a1, fun te hte => ?_⟩
      rcases t1 te hte with h | h | ⟨hE, _⟩
      · exact Or.inl h
      · exact Or.inr (Or.inl h)
      · exact absurd hE id
  · rw [if_neg heg]
    exact ⟨fun e he => by simp at he, timerNew_refl _ _ _ _ _⟩

theorem cancel_entries {τ} (t : Timer τ) (key : Nat × Nat) : ∀ e ∈ (t.cancel key).1.entries, e ∈ t.entries := by
  intro e he
  simp only [Timer.cancel] at he
  exact (List.mem_filter.mp he).1

/-- `recv_response`, every send succeeding: the effects are queries followed by yields of the
answer's values; the new timer entries belong to those queries / the end-game this step started -/
theorem recvResponse_shape (l : Lookup) (env : LEnv) (fr : Handle) (tid : Tid) (rsp : Resp) (hf : ∀ a, env.sendFails a = false) :
    ∃ sends ys, (l.recvResponse env fr tid rsp).2.2 = sends ++ ys ∧ AllQ l.selfId l.target sends ∧
      (∀ y ∈ ys, ∃ a ∈ rsp.values, y = .yield l.stream a) ∧
      TimerNew env.now l.aid sends (l.inEndgame = false ∧ (l.recvResponse env fr tid rsp).1.inEndgame = true)
        env.timer (l.recvResponse env fr tid rsp).2.1.timer := by
  cases hfind : l.active.find? (·.1 = tid) with
  | none =>
    rw [recvResponse_unknown l env fr tid rsp hfind]
    exact ⟨[], [], rfl, fun e he => by simp at he, fun y hy => by simp at hy, timerNew_refl _ _ _ _ _⟩
  | some entry =>
    unfold Lookup.recvResponse
    simp only [hfind]
    -- the environment handed on differs from `env` by a cancelled entry at most
    have henv : ∀ (b : Bool), (∀ a, (if b then { env with timer := (env.timer.cancel entry.2.2).1 } else env).sendFails a = false) ∧
        (if b then { env with timer := (env.timer.cancel entry.2.2).1 } else env).now = env.now ∧
        ∀ e ∈ (if b then { env with timer := (env.timer.cancel entry.2.2).1 } else env).timer.entries, e ∈ env.timer.entries := by
      intro b
      cases b
      · exact ⟨hf, rfl, fun e he => he⟩
      · exact ⟨hf, rfl, cancel_entries _ _⟩
    obtain ⟨hf1, hn1, ht1⟩ := henv (!l.inEndgame)
    generalize (if (!l.inEndgame) = true then { env with timer := (env.timer.cancel entry.2.2).1 } else env) = env1 at hf1 hn1 ht1
    have c2 := recordToken_core ({ l with active := l.active.filter (·.1 ≠ tid) } : Lookup) fr rsp.token
    generalize (({ l with active := l.active.filter (·.1 ≠ tid) } : Lookup).recordToken fr rsp.token) = l2 at c2
    obtain ⟨c3, _, _⟩ := absorbNodes_core l2 (if l2.v6 = true then rsp.nodes6 else rsp.nodes4) entry.2.1
    generalize l2.absorbNodes (if l2.v6 = true then rsp.nodes6 else rsp.nodes4) entry.2.1 = A at c3
    obtain ⟨a, t⟩ := continueSearch_shape A.1 env1 A.2.1 A.2.2 hf1
    have hs : A.1.selfId = l.selfId := c3.selfId.trans c2.selfId
    have htg : A.1.target = l.target := c3.target.trans c2.target
    have hai : A.1.aid = l.aid := c3.aid.trans c2.aid
    have heg : A.1.inEndgame = l.inEndgame := c3.eg.trans c2.eg
    rw [hs, htg] at a
    rw [hn1, hai, heg] at t
    refine ⟨_, _, rfl, a, fun y hy => ?_, fun te hte => ?_⟩
    · obtain ⟨x, hx, rfl⟩ := List.mem_map.mp hy
      exact ⟨x, hx, rfl⟩
    · rcases t te hte with h | h | h
      · exact Or.inl (ht1 te h)
      · exact Or.inr (Or.inl h)
      · exact Or.inr (Or.inr h)

theorem recvTimeout_shape (l : Lookup) (env : LEnv) (tid : Tid) (hf : ∀ a, env.sendFails a = false) :
    AllQ l.selfId l.target (l.recvTimeout env tid).2.2 ∧
    TimerNew env.now l.aid (l.recvTimeout env tid).2.2 (l.inEndgame = false ∧ (l.recvTimeout env tid).1.inEndgame = true)
      env.timer (l.recvTimeout env tid).2.1.timer := by
  unfold Lookup.recvTimeout
  split
  · exact ⟨fun e he => by simp at he, timerNew_refl _ _ _ _ _⟩
  · simp only
    split
    · rename_i hc
      obtain ⟨a, t⟩ := endgameRound_shape { l with active := l.active.filter (·.1 ≠ tid) } env hf
      refine ⟨a, fun te hte => ?_⟩
      rcases t te hte with h | h | ⟨_, h⟩
      · exact Or.inl h
      · exact Or.inr (Or.inl h)
      · refine Or.inr (Or.inr ⟨⟨?_, (endgameRound_keeps env.table _ env (.refl _)).2⟩, h⟩)
        simp only [Bool.and_eq_true, Bool.not_eq_eq_eq_not, Bool.not_true] at hc
        exact hc.1
    · exact ⟨fun e he => by simp at he, timerNew_refl _ _ _ _ _⟩

theorem new_shape (aid stream : Nat) (selfId : Bytes) (v6 : Bool) (target : Bytes) (ann : Bool) (env : LEnv)
    (hf : ∀ a, env.sendFails a = false) :
    AllQ selfId target (Lookup.new aid stream selfId v6 target ann env).2.2 ∧
    TimerNew env.now aid (Lookup.new aid stream selfId v6 target ann env).2.2 False env.timer
      (Lookup.new aid stream selfId v6 target ann env).2.1.timer := by
  unfold Lookup.new
  exact requestRound_shape _ env _ hf

end Btdht
