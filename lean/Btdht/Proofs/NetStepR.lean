import Btdht.Proofs.NetStepC
import Btdht.Props.C03
/-!
C01 helpers: an answer to a query of the running search is delivered to the searching node.
-/
namespace Btdht

theorem step_egAt {c : RCfg} {env : LEnv} {ev : ReachEv} {N : List Handle} {target : Bytes} (hinv : GInv N target c) :
    (∀ u, c.egAt = some u → (c.step env ev).egAt = some u) ∧
    (c.l.inEndgame = false ∧ (c.step env ev).l.inEndgame = true → (c.step env ev).egAt = some env.now) := by
  constructor
  · intro u hu
    have heg : c.l.inEndgame = true := by
      cases hc : c.l.inEndgame with
      | true => rfl
      | false => have := (hinv.reg hc).1; rw [hu] at this; cases this
    cases ev <;> simp [RCfg.step, heg, hu]
  · rintro ⟨h1, h2⟩
    cases ev with
    | resp h tid rsp =>
      have : (c.l.recvResponse env h tid rsp).1.inEndgame = true := h2
      simp [RCfg.step, h1, this]
    | timeout tid =>
      have : (c.l.recvTimeout env tid).1.inEndgame = true := h2
      simp [RCfg.step, h1, this]

theorem sinv_deliver_answer {P : Phase} (hW : NetWF P) {cfg : NetCfg} {c : RCfg} (h : SInv P cfg c none)
    (i now : Nat) (hok : cfg.okStep P.D (.deliver i) now) (hG : now ≤ P.G) (p : Pkt) (hp : cfg.flight[i]? = some p)
    (x : Handle) (tid : Tid) (rsp : Resp) (u : Nat) (t : Bytes) (hx : x ∈ P.N) (hdst : p.dst = P.a.addr) (hsrc : p.src = x.addr)
    (htid : p.tid = .sym tid) (haid : tid.aid = P.A) (hbody : p.body = .resp rsp) (hlog : (tid, x.addr, u) ∈ c.log)
    (htr : GTruthful P.N P.a.addr.v6 x rsp) (htok : rsp.token = some t) (htv : TokV P cfg x t)
    (hvs : ∀ y ∈ rsp.values, P.Src x y) (hvc : P.Must x → P.x ∈ rsp.values) :
    ∃ c', SInv P (cfg.step (.deliver i) now) c' none := by
  obtain ⟨hn1, htimely, _⟩ := hok
  obtain ⟨n, hk, hna, hfi⟩ := client_node hW h
  rw [← hdst] at hfi
  rw [step_deliver_eq cfg i P.ia p n now hp hfi hk]
  have hnk := h.nodes P.ia n hk
  have hc := h.client rfl
  obtain ⟨m, hm, hml, hmt, hmp⟩ := hc.node
  rw [hk] at hm; cases hm
  have hxe : (⟨rsp.id, x.addr⟩ : Handle) = x := handle_eta x rsp.id htr.id
  -- the closed-loop step
  have hfails : ∀ a, (respEnvOf n.st rsp x.addr now).sendFails a = false := fun a => by
    simp [respEnvOf, hnk.serves.sends]
  have hadm : GAdm P.N (2 * P.D) c (respEnvOf n.st rsp x.addr now) (.resp x tid rsp) :=
    ⟨hfails, Nat.le_trans hc.clock hn1, client_timely h now htimely, hx, ⟨_, hlog, rfl, rfl⟩, by rw [hc.v6]; exact htr⟩
  obtain ⟨hg', hst, htev⟩ := gstep_inv (hc.ginv.tgt ▸ hW.net) hW.lat c _ _ hc.ginv hadm
  have hnc := ginv_not_completed hg'
  have hcl : (c.step (respEnvOf n.st rsp x.addr now) (.resp x tid rsp)).l =
      (c.l.recvResponse (respEnvOf n.st rsp x.addr now) x tid rsp).1 := rfl
  have hlog' : (c.step (respEnvOf n.st rsp x.addr now) (.resp x tid rsp)).log =
      c.log ++ queriesOf now (c.l.recvResponse (respEnvOf n.st rsp x.addr now) x tid rsp).2.2 := rfl
  have hans' : (c.step (respEnvOf n.st rsp x.addr now) (.resp x tid rsp)).answered = tid :: c.answered := rfl
  have hnow' : (c.step (respEnvOf n.st rsp x.addr now) (.resp x tid rsp)).now = now := rfl
  rw [hcl] at hnc
  have hstepE : n.st.hstepE (.incoming p.tid p.body p.src) now =
      ({ n.st with
          table := (c.l.recvResponse (respEnvOf n.st rsp x.addr now) x tid rsp).2.1.table,
          timer := (c.l.recvResponse (respEnvOf n.st rsp x.addr now) x tid rsp).2.1.timer,
          lookups := [(c.l.recvResponse (respEnvOf n.st rsp x.addr now) x tid rsp).1] },
       liftEffects (c.l.recvResponse (respEnvOf n.st rsp x.addr now) x tid rsp).2.2) := by
    rw [htid, hbody, hsrc]
    have := client_resp n.st c.l tid rsp x.addr now hml (haid.trans hc.aid.symm) (by rw [hxe]; exact hnc)
    rw [hxe] at this
    exact this
  rw [hstepE]
  have hv6n : n.st.v6 = P.a.addr.v6 := serves_v6 hW hnk.serves
  have hL : lastSeenNs = 900000000000 := by decide
  have hwin := hW.window
  have hclk := hW.clock
  have ht0 := h.time.1
  -- the routing table keeps listing exactly the other nodes
  have hknows : Knows n.st.selfId (P.N.filter (· ≠ n.handle)) P.G
      (c.l.recvResponse (respEnvOf n.st rsp x.addr now) x tid rsp).2.1.table := by
    apply recvResponse_tbl (knows_markClosed _ _ _)
    refine knows_addNodes hnk.serves.knows hnk.serves.idlen hnk.serves.noph _ _ now ?_ (fun y hy => ?_) (by omega) hG (by omega)
    · rw [hxe]
      by_cases hxn : x = n.handle
      · right; rw [hxn]; rfl
      · left; exact List.mem_filter.mpr ⟨hx, by simpa using hxn⟩
    · have hyN : y ∈ P.N := by
        apply htr.sub
        unfold HState.namedBy at hy
        rw [hv6n] at hy
        exact hy
      by_cases hyn : y = n.handle
      · right; rw [hyn]; rfl
      · left; exact List.mem_filter.mpr ⟨hyN, by simpa using hyn⟩
  obtain ⟨hegkeep, hegnew⟩ := step_egAt (env := respEnvOf n.st rsp x.addr now) (ev := .resp x tid rsp) hc.ginv
  -- a first answer yields its values
  have hyfresh : tid ∉ c.answered → ∀ a ∈ rsp.values,
      Effect.yield c.l.stream a ∈ (c.l.recvResponse (respEnvOf n.st rsp x.addr now) x tid rsp).2.2 := by
    intro hna a ha
    obtain ⟨e0, he0, he0t⟩ := hc.ginv.q.act _ hlog hna
    cases hfind : c.l.active.find? (·.1 = tid) with
    | none =>
      have := List.find?_eq_none.mp hfind e0 he0
      simp only at he0t
      simp [he0t] at this
    | some entry =>
      obtain ⟨sends, _, heq⟩ := C03_yields_exactly c.l (respEnvOf n.st rsp x.addr now) x tid rsp entry hfind
      rw [heq]
      exact List.mem_append_right _ (List.mem_map.mpr ⟨a, ha, rfl⟩)
  obtain ⟨sends, ys, heffs, hallq, hysv, htnew⟩ := recvResponse_shape c.l (respEnvOf n.st rsp x.addr now) x tid rsp hfails
  generalize hce : c.step (respEnvOf n.st rsp x.addr now) (.resp x tid rsp) = c' at hg' hst htev hcl hlog' hans' hnow' hegkeep hegnew
  generalize hre : c.l.recvResponse (respEnvOf n.st rsp x.addr now) x tid rsp = r at hnc hcl hlog' heffs htnew hknows hyfresh
  have hys' : ∀ y ∈ ys, ∃ st a, y = Effect.yield st a := fun y hy => by
    obtain ⟨a, _, e⟩ := hysv y hy; exact ⟨_, a, e⟩
  have hqs : queriesOf now r.2.2 = queriesOf now sends := by
    rw [heffs, queriesOf_append]
    have : queriesOf now ys = [] := by
      apply List.eq_nil_iff_forall_not_mem.mpr
      intro q hq
      obtain ⟨_, _, _, he, _⟩ := mem_queriesOf.mp hq
      obtain ⟨_, _, e⟩ := hys' _ he
      cases e
    rw [this, List.append_nil]
  obtain ⟨hnewp, hnewq⟩ := client_new_pkts hW h.len (fun k n hk => (h.nodes k n hk).handle) hna now r.2.2 sends ys heffs
    (by rw [← hc.selfId, ← hc.ginv.tgt]; exact hallq) hys' hg' (hst.aid.trans hc.aid)
    (fun q hq => by rw [hlog']; exact List.mem_append_right _ hq)
  have hsub : ∀ q ∈ c.log, q ∈ c'.log := fun q hq => by rw [hlog']; exact List.mem_append_left _ hq
  have hpm : p ∈ cfg.flight := List.mem_of_getElem? hp
  refine ⟨c', sinv_client_step hW h hk { n.st with table := r.2.1.table, timer := r.2.1.timer, lookups := [r.1] } c' now hn1 hG
    rfl rfl rfl rfl hknows rfl rfl (by rw [hcl]) ?_ rfl hg' hst (by rw [hnow']; exact Nat.le_refl _) _ _
    (fun q hq => ?_) (fun q hq hna => ?_) (fun pr hpr => ?_) (fun q hq hqa y hy hya hym => ?_) (fun e he => ?_)⟩
  · -- the timer
    refine timerLog_step hmt htnew hsub (fun q hq => by rw [hlog', hqs]; exact List.mem_append_right _ hq) hegkeep
      hst.aid rfl (fun hE => ?_)
    exact hegnew ⟨hE.1, by rw [hcl]; exact hE.2⟩
  · -- the datagrams
    rcases List.mem_append.mp hq with hq | hq
    · refine pktOk_mono (fun y t hv => ?_) hsub (fun T hf => hf) (h.pkts q (List.mem_of_mem_eraseIdx hq))
      exact tokV_set (n' := { n with st := { n.st with table := r.2.1.table, timer := r.2.1.timer, lookups := [r.1] } })
        hW hk rfl (Or.inl rfl) (Nat.le_trans hnk.tokClock hn1) hG hv
    · exact hnewp _ q hq
  · -- the cover
    rw [hlog'] at hq
    rw [hans'] at hna
    rcases List.mem_append.mp hq with hq | hq
    · obtain ⟨p', hp', ht', hd'⟩ := hc.cover q hq (fun hc' => hna (List.mem_cons_of_mem _ hc'))
      rcases mem_eraseIdx_or cfg.flight i p' hp' with hin | hiq
      · exact ⟨p', List.mem_append_left _ hin, ht', hd'⟩
      · rw [hp] at hiq
        cases hiq
        rw [htid] at ht'
        cases ht'
        exact absurd List.mem_cons_self hna
    · obtain ⟨p', hp', a, b, d⟩ := hnewq q hq
      exact ⟨p', List.mem_append_right _ hp', a, Or.inl ⟨b, d⟩⟩
  · -- the recorded tokens
    rcases htev with ⟨_, hl⟩ | ⟨_, t', ht', hl⟩
    · rw [hl] at hpr; exact hc.toks pr hpr
    · rw [hl] at hpr
      rcases List.mem_append.mp hpr with hpr | hpr
      · exact hc.toks pr (List.mem_filter.mp hpr).1
      · rw [List.mem_singleton.mp hpr]
        rw [htok] at ht'
        cases ht'
        exact htv
  · -- answers handled so far have yielded the contact
    rw [hans'] at hqa
    have hold : ∀ q0 ∈ c.log, q0.1 = q.1 → q0.1 ∈ c.answered → (P.ia, P.stream, P.x) ∈ cfg.yields := by
      intro q0 hq0 he hq0a
      have : q0.2.1 = q.2.1 := hg'.q.uniq q0 (hsub q0 hq0) q hq he
      exact hc.yielded q0 hq0 hq0a y hy (hya.trans this.symm) hym
    by_cases hqold : q.1 ∈ c.answered
    · obtain ⟨q0, hq0, he⟩ := hc.ginv.ansLog _ hqold
      exact List.mem_append_left _ (hold q0 hq0 he (he ▸ hqold))
    · have hqt : q.1 = tid := by
        rcases List.mem_cons.mp hqa with h1 | h1
        · exact h1
        · exact absurd h1 hqold
      have hqx : q.2.1 = x.addr := (hg'.q.uniq _ (hsub _ hlog) q hq hqt.symm).symm
      have hyx : y = x := hW.net.addr_inj hy hx (hya.trans hqx)
      subst hyx
      have hin := hyfresh (hqt ▸ hqold) P.x (hvc hym)
      apply List.mem_append_right
      exact mem_yieldsOf.mpr ⟨rfl, mem_lift_yield.mpr (hc.stream ▸ hin)⟩
  · -- yields are sound
    rcases List.mem_append.mp he with he | he
    · exact h.ysound e he
    · obtain ⟨h1, h2⟩ := mem_yieldsOf.mp he
      have h3 := mem_lift_yield.mp h2
      rw [heffs] at h3
      rcases List.mem_append.mp h3 with h3 | h3
      · obtain ⟨_, _, e'⟩ := hallq _ h3; cases e'
      · obtain ⟨a, ha, e'⟩ := hysv _ h3
        simp only [Effect.yield.injEq] at e'
        exact Or.inr ⟨h1, e'.1.trans hc.stream, x, hx, e'.2 ▸ hvs a ha⟩

end Btdht
