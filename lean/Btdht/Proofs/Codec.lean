import Btdht.Model.Codec
/-!
Helper lemmas for C13: tree-level round trip of every message kind.
-/
namespace Btdht

def Addr.WF (a : Addr) : Prop :=
  a.port < 65536 ∧ ((a.v6 = false ∧ a.ip.length = 4) ∨ (a.v6 = true ∧ a.ip.length = 16))

def Handle.WF (v6 : Bool) (h : Handle) : Prop :=
  h.id.length = 20 ∧ h.addr.v6 = v6 ∧ h.addr.port < 65536 ∧ h.addr.ip.length = (if v6 then 16 else 4)

def Req.WF : Req → Prop
  | .ping id => id.length = 20
  | .findNode id target _ => id.length = 20 ∧ target.length = 20
  | .getPeers id ih _ => id.length = 20 ∧ ih.length = 20
  | .announce id ih port _ => id.length = 20 ∧ ih.length = 20 ∧ ∀ p, port = some p → p < 65536

def Resp.WF (r : Resp) : Prop :=
  r.id.length = 20 ∧ (∀ a ∈ r.values, a.WF) ∧ (∀ h ∈ r.nodes4, h.WF false) ∧ (∀ h ∈ r.nodes6, h.WF true)

/-- well-formed messages: what the Rust types guarantee (20-byte ids, u16 ports, u8 error codes,
UTF-8 text, address family of each node list) -/
def Msg.WF (m : Msg) : Prop :=
  match m.body with
  | .req r => r.WF
  | .resp r => r.WF
  | .err code msg => code < 256 ∧ validUtf8 msg = true

theorem infoHashLen_eq : Constants.INFO_HASH_LEN = 20 := by decide
theorem v4Len_eq : Constants.SOCKET_ADDR_V4_LEN = 6 := by decide
theorem v6Len_eq : Constants.SOCKET_ADDR_V6_LEN = 18 := by decide

theorem bytesLike_bytes (b : Bytes) : bytesLike (.bytes b) = some b := rfl

theorem idLike_bytes (b : Bytes) (h : b.length = 20) : idLike (.bytes b) = some b := by
  simp [idLike, bytesLike, infoHashLen_eq, h]

theorem port_roundtrip (p : Nat) (h : p < 65536) : (p / 256 % 256) * 256 + p % 256 = p := by omega

theorem decodeAddr_compact (a : Addr) (h : a.WF) : decodeAddr (compactAddr a) = some a := by
  obtain ⟨hp, hf⟩ := h
  obtain ⟨v6, ip, port⟩ := a
  simp only at hp hf
  rcases hf with ⟨rfl, hl⟩ | ⟨rfl, hl⟩
  · match ip, hl with
    | [a, b, c, d], _ =>
      simp [decodeAddr, compactAddr, portBytes, v4Len_eq, v6Len_eq]
      exact port_roundtrip port hp
  · match ip, hl with
    | [a1,a2,a3,a4,a5,a6,a7,a8,a9,a10,a11,a12,a13,a14,a15,a16], _ =>
      simp [decodeAddr, compactAddr, portBytes, v4Len_eq, v6Len_eq]
      exact port_roundtrip port hp

theorem compactAddr_length (a : Addr) (h : a.WF) :
    (compactAddr a).length = if a.v6 then 18 else 6 := by
  obtain ⟨_, hf⟩ := h
  rcases hf with ⟨hv, hl⟩ | ⟨hv, hl⟩ <;> simp [compactAddr, portBytes, hv, hl]

theorem decodeValues_compact (l : List Addr) (h : ∀ a ∈ l, a.WF) :
    decodeValues (.list (BList.ofList (l.map fun a => .bytes (compactAddr a)))) = some l := by
  have toList_ofList : ∀ (xs : List BVal), (BList.ofList xs).toList = xs := by
    intro xs; induction xs with
    | nil => rfl
    | cons x xs ih => simp [BList.ofList, BList.toList, ih]
  simp only [decodeValues, toList_ofList]
  induction l with
  | nil => rfl
  | cons a l ih =>
    have ha := h a (by simp)
    have hl := ih (fun x hx => h x (by simp [hx]))
    simp only [List.map_cons, List.mapM_cons, bytesLike_bytes, Option.bind_some, decodeAddr_compact a ha]
    simp only [Option.bind_eq_bind, Option.bind_some] at hl ⊢
    rw [hl]; rfl

theorem toList_ofList (xs : List BVal) : (BList.ofList xs).toList = xs := by
  induction xs with
  | nil => rfl
  | cons x xs ih => simp [BList.ofList, BList.toList, ih]

theorem decodeNodes_compact (v6 : Bool) (l : List Handle) (h : ∀ x ∈ l, x.WF v6) :
    ∀ fuel, l.length < fuel →
      decodeNodes (if v6 then 18 else 6) fuel (l.flatMap compactNode) = some l := by
  induction l with
  | nil => intro fuel hf; cases fuel with
    | zero => omega
    | succ f => simp [decodeNodes]
  | cons x l ih =>
    intro fuel hf
    cases fuel with
    | zero => omega
    | succ f =>
      obtain ⟨hid, hv, hp, hip⟩ := h x (by simp)
      have hx : Addr.WF x.addr := by
        refine ⟨hp, ?_⟩
        cases v6 <;> simp_all
      have hrest := ih (fun y hy => h y (by simp [hy])) f (by simp at hf; omega)
      have hcl : (compactAddr x.addr).length = if v6 then 18 else 6 := by
        rw [compactAddr_length _ hx, hv]
      have hnl : (compactNode x).length = 20 + (if v6 then 18 else 6) := by
        simp [compactNode, hid, hcl]
      unfold decodeNodes
      simp only [List.flatMap_cons, infoHashLen_eq]
      have hne : ((compactNode x ++ l.flatMap compactNode).isEmpty) = false := by
        cases hc : compactNode x with
        | nil => rw [hc] at hnl; simp at hnl; split at hnl <;> omega
        | cons _ _ => rfl
      simp only [hne, Bool.false_eq_true, if_false]
      have hlen : ¬ (compactNode x ++ l.flatMap compactNode).length < 20 + (if v6 then 18 else 6) := by
        simp [hnl]
      simp only [hlen, if_false]
      have htake : (compactNode x ++ l.flatMap compactNode).take (20 + (if v6 then 18 else 6)) = compactNode x := by
        rw [← hnl, List.take_left']
        rfl
      have hdrop : (compactNode x ++ l.flatMap compactNode).drop (20 + (if v6 then 18 else 6)) = l.flatMap compactNode := by
        rw [← hnl, List.drop_left']
        rfl
      rw [htake, hdrop, hrest]
      have h1 : (compactNode x).drop 20 = compactAddr x.addr := by
        simp [compactNode, ← hid]
      have h2 : (compactNode x).take 20 = x.id := by
        simp [compactNode, ← hid]
      rw [h1, h2, decodeAddr_compact _ hx]

end Btdht

namespace Btdht

theorem decodeWant_wantVal (w : Want) : decodeWant (wantVal w) = some (some w) := by
  cases w <;> decide

theorem fieldOf_nil (key : Bytes) : fieldOf key [] = none := rfl

theorem fieldOf_cons (key : Bytes) (k v : BVal) (rest : List BVal) :
    fieldOf key (k :: v :: rest) =
      (match fieldOf key rest with
       | some none => some none
       | some (some v') => if isKey k key then some none else some (some v')
       | none => if isKey k key then some (some v) else none) := rfl

theorem isKey_bytes (a key : Bytes) : isKey (.bytes a) key = decide (a = key) := rfl

/-- evaluation of a field lookup over a literal item list -/
macro "fields" : tactic =>
  `(tactic| simp only [fieldOf_cons, fieldOf_nil, isKey_bytes, K.a, K.e, K.q, K.r, K.t, K.y, K.id, K.target,
      K.infoHash, K.want, K.port, K.impliedPort, K.token, K.values, K.nodes, K.nodes6, K.ping, K.findNode,
      K.getPeers, K.announcePeer, List.cons.injEq, decide_eq_true_eq, reduceCtorEq])

theorem decodeArgs_reqArgs (r : Req) (h : r.WF) : decodeArgs (reqArgs r) = some r := by
  cases r with
  | ping id =>
    simp only [Req.WF] at h
    simp [decodeArgs, reqArgs, keysBytes, reqField, optField, fieldOf, isKey, K.id, K.target, K.infoHash, K.token,
      K.port, K.impliedPort, K.want, idLike_bytes id h]
  | findNode id target w =>
    simp only [Req.WF] at h
    cases w with
    | none =>
      simp [decodeArgs, reqArgs, keysBytes, reqField, optField, fieldOf, isKey, K.id, K.target, K.infoHash, K.token,
        K.port, K.impliedPort, K.want, idLike_bytes id h.1, idLike_bytes target h.2]
    | some w =>
      simp [decodeArgs, reqArgs, keysBytes, reqField, optField, fieldOf, isKey, K.id, K.target, K.infoHash, K.token,
        K.port, K.impliedPort, K.want, idLike_bytes id h.1, idLike_bytes target h.2, decodeWant_wantVal]
  | getPeers id ih w =>
    simp only [Req.WF] at h
    cases w with
    | none =>
      simp [decodeArgs, reqArgs, keysBytes, reqField, optField, fieldOf, isKey, K.id, K.target, K.infoHash, K.token,
        K.port, K.impliedPort, K.want, idLike_bytes id h.1, idLike_bytes ih h.2]
    | some w =>
      simp [decodeArgs, reqArgs, keysBytes, reqField, optField, fieldOf, isKey, K.id, K.target, K.infoHash, K.token,
        K.port, K.impliedPort, K.want, idLike_bytes id h.1, idLike_bytes ih h.2, decodeWant_wantVal]
  | announce id ih port token =>
    simp only [Req.WF] at h
    obtain ⟨h1, h2, h3⟩ := h
    cases port with
    | none =>
      simp [decodeArgs, reqArgs, keysBytes, reqField, optField, fieldOf, isKey, K.id, K.target, K.infoHash, K.token,
        K.port, K.impliedPort, K.want, idLike_bytes id h1, idLike_bytes ih h2, bytesLike, intIn]
    | some p =>
      have hp := h3 p rfl
      simp [decodeArgs, reqArgs, keysBytes, reqField, optField, fieldOf, isKey, K.id, K.target, K.infoHash, K.token,
        K.port, K.impliedPort, K.want, idLike_bytes id h1, idLike_bytes ih h2, bytesLike, intIn]
      have hi : (p : Int) ≤ 65535 := by omega
      simp [hi]

end Btdht

namespace Btdht

theorem decodeResp_respArgs (r : Resp) (h : r.WF) : decodeResp (respArgs r) = some r := by
  obtain ⟨hid, hv, h4, h6⟩ := h
  obtain ⟨id, values, nodes4, nodes6, token⟩ := r
  simp only at hid hv h4 h6
  have hvals := decodeValues_compact values hv
  have hn4 : ∀ fuel, nodes4.length < fuel → decodeNodes 6 fuel (nodes4.flatMap compactNode) = some nodes4 :=
    decodeNodes_compact false nodes4 h4
  have hn6 : ∀ fuel, nodes6.length < fuel → decodeNodes 18 fuel (nodes6.flatMap compactNode) = some nodes6 :=
    decodeNodes_compact true nodes6 h6
  -- every node contributes at least one byte, so the byte length bounds the node count
  have hlen : ∀ (v6 : Bool) (l : List Handle), (∀ x ∈ l, x.WF v6) → l.length < (l.flatMap compactNode).length + 1 := by
    intro v6 l hl
    induction l with
    | nil => simp
    | cons x l ih =>
      have := ih (fun y hy => hl y (by simp [hy]))
      obtain ⟨hxid, _, _, _⟩ := hl x (by simp)
      simp only [List.flatMap_cons, List.length_append, List.length_cons, compactNode, hxid]
      omega
  have e4 := hn4 _ (hlen false nodes4 h4)
  have e6 := hn6 _ (hlen true nodes6 h6)
  unfold decodeResp respArgs
  by_cases c4 : nodes4.isEmpty <;> by_cases c6 : nodes6.isEmpty <;> by_cases cv : values.isEmpty <;>
    cases token <;>
    simp_all [keysUtf8, validUtf8, reqField, optField, fieldOf, isKey, K.id, K.values, K.nodes, K.nodes6, K.token,
      idLike_bytes, bytesLike, v4Len_eq, v6Len_eq, decodeNodes, decodeValues, toList_ofList]

theorem decodeErr_ok (code : Nat) (msg : Bytes) (hc : code < 256) (hm : validUtf8 msg = true) :
    decodeErr (.list (BList.ofList [.int (Int.ofNat code), .bytes msg])) = some (code, msg) := by
  have hi : (code : Int) ≤ 255 := by omega
  simp [decodeErr, toList_ofList, intIn, hm, hi]

/-- **Tree-level round trip**: interpreting the encoder's tree gives back the message. -/
theorem decodeTree_msgTree (m : Msg) (h : m.WF) : decodeTree (msgTree m) = .ok m := by
  obtain ⟨tid, body⟩ := m
  cases body with
  | req r =>
    have ha := decodeArgs_reqArgs r h
    have hname : reqNameOf? (reqName r) = some (reqName r) := by cases r <;> simp [reqNameOf?, reqName]
    simp only [msgTree, decodeTree, toList_ofList]
    simp [keysUtf8, validUtf8, fieldOf, isKey, K.a, K.e, K.q, K.r, K.t, K.y, isDict, isList, isDup, decodeQ, assemble, bytesLike, toList_ofList, ha, hname]
  | resp r =>
    have hr := decodeResp_respArgs r h
    simp only [msgTree, decodeTree, toList_ofList]
    simp [keysUtf8, validUtf8, fieldOf, isKey, K.a, K.e, K.q, K.r, K.t, K.y, isDict, isList, isDup, decodeQ, assemble, bytesLike, toList_ofList, hr]
  | err code msg =>
    have he := decodeErr_ok code msg h.1 h.2
    simp only [Int.ofNat_eq_natCast] at he
    simp only [msgTree, decodeTree, toList_ofList]
    simp [keysUtf8, validUtf8, fieldOf, isKey, K.a, K.e, K.q, K.r, K.t, K.y, isDict, isList, isDup, decodeQ, assemble, bytesLike, toList_ofList, he]

end Btdht
