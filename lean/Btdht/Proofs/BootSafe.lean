import Btdht.Proofs.BootRun
/-
C15 timed clause, part 7: every state a started node without routers can reach (at a step boundary
of a punctual run) either is bootstrapped or satisfies the progress invariant for every `t0` from
now on — whatever the network did before.
-/
namespace Btdht

/-- the state-only part of the progress invariant, for every instant `t0` from now on -/
structure Safe (c : Addr) (N : Nat) (s : DState) : Prop where
  noRouters : s.cfg.routersGiven = false ∧ s.cfg.routers = []
  contacts : (dedup s.cfg.nodes).length = N ∧ c ∈ dedup s.cfg.nodes
  ver : s.seenVersion ≤ s.pubVersion
  phase : (s.phase = .awaitStart ∧ s.pub ≠ .bootstrapped) ∨
    (∃ ck, s.phase = .bootstrapped ck ∧ s.pub = .bootstrapped ∧ s.seenVersion = s.pubVersion) ∨
    ∀ t0 T, s.clock ≤ t0 → s.clock ≤ T → PhaseOk ⟨c, t0, N, T⟩ s

theorem Safe.live {c : Addr} {N : Nat} {s : DState} (h : Safe c N s) (t0 T : Nat) (h0 : s.clock ≤ t0) (hT : s.clock ≤ T)
    (hp : PhaseOk ⟨c, t0, N, T⟩ s) : Live ⟨c, t0, N, T⟩ s none := by
  refine ⟨h.noRouters, h.contacts, h.ver, hT, ?_, ?_, fun _ => hp⟩
  · intro hlt
    have : t0 < s.clock := hlt
    omega
  · intro t ht; cases ht

/-- from a state whose phase is known only through a frame: the same case of `Safe` -/
theorem Safe.frame {c : Addr} {N : Nat} {s s' : DState} (h : Safe c N s) (hcfg : s'.cfg = s.cfg) (hph : s'.phase = s.phase)
    (hclk : s'.clock = s.clock) (hpub : s'.pub = s.pub) (hseen : s'.seenVersion = s.seenVersion)
    (hver : s'.pubVersion = s.pubVersion) : Safe c N s' := by
  refine ⟨by rw [hcfg]; exact h.noRouters, by rw [hcfg]; exact h.contacts, by rw [hseen, hver]; exact h.ver, ?_⟩
  rcases h.phase with h1 | ⟨ck, h1, h2, h3⟩ | h1
  · exact Or.inl ⟨hph.trans h1.1, by rw [hpub]; exact h1.2⟩
  · exact Or.inr (Or.inl ⟨ck, hph.trans h1, hpub.trans h2, by rw [hseen, hver]; exact h3⟩)
  · exact Or.inr (Or.inr (fun t0 T h0 hT => phaseOk_congr _ s s' (h1 t0 T (hclk ▸ h0) (hclk ▸ hT)) hph hclk hpub hseen hver))

theorem Safe.hframe {c : Addr} {N : Nat} {s s' : DState} (h : Safe c N s) (hf : HFrame s s')
    (hclk : s'.clock = s.clock) (hseen : s'.seenVersion = s.seenVersion) : Safe c N s' :=
  h.frame hf.cfg hf.phase hclk hf.pub hseen hf.version

theorem liveA_vacuous (c : Addr) (t0 N T now : Nat) (h : now ≤ t0) (e : DEv) : LiveA ⟨c, t0, N, T⟩ now e := by
  intro tid id ok _ hlt
  have : t0 < now := hlt
  omega

theorem workerMessage_idle (s : DState) (p : Pending) (body : Body) (src : Addr) (now : Nat)
    (h : s.phase = .awaitStart ∨ ∃ ck, s.phase = .bootstrapped ck) :
    (s.workerMessage p body src now).1 = { s with stale := removePending s.stale p } := by
  unfold DState.workerMessage
  rcases h with h | ⟨ck, h⟩ <;> simp only [h]

/-- a state that is `Safe` through `PhaseOk` for every `t0` from now on: after a worker transition -/
theorem safe_worker_live (c : Addr) (N : Nat) (s : DState) (r : DState × List DEv) (h : Safe c N s)
    (h1 : ∀ t0 T, s.clock ≤ t0 → s.clock ≤ T → PhaseOk ⟨c, t0, N, T⟩ s) (hb : s.bStep s.clock = some r) :
    Safe c N r.1 ∧ r.1.clock = s.clock := by
  have hf := (bStep_frame s s.clock r hb).1
  refine ⟨⟨by rw [hf.cfg]; exact h.noRouters, by rw [hf.cfg]; exact h.contacts,
    by rw [hf.seen]; exact Nat.le_trans h.ver hf.version, Or.inr (Or.inr ?_)⟩, hf.clock⟩
  intro t0 T h0 hT
  rw [hf.clock] at h0 hT
  have hl := h.live t0 T h0 hT (h1 t0 T h0 hT)
  have := (live_worker ⟨c, t0, N, T⟩ s none r hl hb (fun e _ => liveA_vacuous c t0 N T s.clock h0 e)).1
  have hev := (bStep_frame s s.clock r hb).2
  have hsc : scanE liveScan none s.clock r.2 = none := scanE_live_other none _ _ (fun e he hbs => by
    have := hev e he; rw [hbs] at this; simp [DEv.isWorkerMsg, DEv.isWorker] at this)
  rw [hsc] at this
  exact this.live rfl

/-- a new attempt begun now meets the bounds for every `t0` from now on -/
theorem safe_begin (c : Addr) (N : Nat) (s : DState) (h : Safe c N s) : Safe c N (s.beginAttempt s.clock).1 := by
  have hf := (beginAttempt_frame s s.clock).1
  have hcr := beginAttempt_cr s s.clock
  refine ⟨by rw [hf.cfg]; exact h.noRouters, by rw [hf.cfg]; exact h.contacts,
    by rw [hf.seen]; exact Nat.le_trans h.ver hf.version, Or.inr (Or.inr ?_)⟩
  intro t0 T h0 hT
  rw [hcr.1] at h0 hT
  have hl : Live ⟨c, t0, N, T⟩ s (some 0) :=
    ⟨h.noRouters, h.contacts, h.ver, hT, fun hlt => by have : t0 < s.clock := hlt; omega,
     fun t ht => by cases ht; exact Nat.zero_le _, fun hg => by cases hg⟩
  refine phaseOk_begin ⟨c, t0, N, T⟩ s (some 0) hl ?_
  show s.clock ≤ t0 + firstRoundMax N + retryMax
  omega

theorem safe_worker (c : Addr) (N : Nat) (s : DState) (r : DState × List DEv) (h : Safe c N s)
    (hb : s.bStep s.clock = some r) : Safe c N r.1 ∧ r.1.clock = s.clock := by
  rcases h.phase with h1 | ⟨ck, h1, h2, h3⟩ | h1
  · -- not started: only an answer nobody awaits can be handed to the worker
    unfold DState.bStep at hb
    split at hb
    · rename_i p body src rest _
      simp only [Option.some.injEq] at hb; subst hb
      rw [workerMessage_idle { s with ready := rest } p body src _ (Or.inl h1.1)]
      exact ⟨h.frame rfl rfl rfl rfl rfl rfl, rfl⟩
    · unfold DState.bStepMain at hb; simp [h1.1] at hb
  · unfold DState.bStep at hb
    split at hb
    · rename_i p body src rest _
      simp only [Option.some.injEq] at hb; subst hb
      rw [workerMessage_idle { s with ready := rest } p body src _ (Or.inr ⟨ck, h1⟩)]
      exact ⟨h.frame rfl rfl rfl rfl rfl rfl, rfl⟩
    · unfold DState.bStepMain at hb
      simp only [h1] at hb
      split at hb
      · simp only [Option.some.injEq] at hb; subst hb
        unfold DState.periodicCheck
        split
        · exact ⟨safe_begin c N s h, (beginAttempt_cr s s.clock).1⟩
        · exact ⟨⟨h.noRouters, h.contacts, h.ver, Or.inr (Or.inl ⟨_, rfl, h2, h3⟩)⟩, rfl⟩
      · simp at hb
  · exact safe_worker_live c N s r h h1 hb

theorem safe_timer (c : Addr) (N : Nat) (s : DState) (r : DState × List DEv) (h : Safe c N s)
    (hf : s.fireOne s.clock = some r) : Safe c N r.1 ∧ r.1.clock = s.clock := by
  have hfr := fireOne_hframe s s.clock r hf
  have hc := fireOne_clock s s.clock r hf
  exact ⟨h.hframe hfr.1 hc hfr.2.2, hc⟩

theorem safe_command (c : Addr) (N : Nat) (s : DState) (cmd : Cmd) (h : Safe c N s) :
    Safe c N (s.command cmd s.clock).1 ∧ (s.command cmd s.clock).1.clock = s.clock := by
  refine ⟨?_, command_clock s cmd s.clock⟩
  cases cmd with
  | startBootstrap =>
    simp only [DState.command]
    split
    · exact safe_begin c N s h
    · exact h
  | checkBootstrap => simp only [DState.command]; split <;> exact h.frame rfl rfl rfl rfl rfl rfl
  | startLookup ih ann =>
    simp only [DState.command]
    have hf := startLookup_hframe s ih ann s.clock
    exact h.hframe hf.1 (startLookup_clock s ih ann s.clock) hf.2.2
  | getLocalAddr => exact h
  | getState => exact h
  | loadContacts => exact h

theorem safe_datagram (c : Addr) (N : Nat) (s : DState) (tid : InTid) (body : Body) (src : Addr) (h : Safe c N s) :
    Safe c N (s.datagram tid body src s.clock).1 ∧ (s.datagram tid body src s.clock).1.clock = s.clock := by
  refine ⟨?_, datagram_clock s tid body src s.clock⟩
  unfold DState.datagram
  simp only
  split <;> exact h.frame rfl rfl rfl rfl rfl rfl

theorem phaseOk_pub_bootstrapped (P : LP) (s : DState) (h : PhaseOk P s) (hp : s.pub = .bootstrapped) :
    ∃ ck, s.phase = .bootstrapped ck := by
  unfold PhaseOk at h
  cases hph : s.phase with
  | bootstrapped c => exact ⟨c, rfl⟩
  | awaitStart => rw [hph] at h; exact h.elim
  | forever => rw [hph] at h; exact h.elim
  | sleeping w => rw [hph] at h; exact absurd hp h.2.2
  | bucketStart k => rw [hph] at h; dsimp only at h; rw [hp] at h; cases h.2.1
  | buckets k a => rw [hph] at h; dsimp only at h; rw [hp] at h; cases h.2.1
  | initial tid rl nl sl count active resp stopAt => rw [hph] at h; exact absurd hp h.1

theorem safe_observe (c : Addr) (N : Nat) (s : DState) (h : Safe c N s) :
    Safe c N (s.hObserve s.clock).1 ∧ (s.hObserve s.clock).1.clock = s.clock := by
  refine ⟨?_, hObserve_clock s s.clock⟩
  unfold DState.hObserve
  split
  · exact h
  · rename_i hne
    simp only
    split
    · rename_i hpub
      have hpub' : s.pub = .bootstrapped := hpub
      have hb := bootstrapSuccess_hframe { s with seenVersion := s.pubVersion } s.clock
      have hc := bootstrapSuccess_clock { s with seenVersion := s.pubVersion } s.clock
      refine ⟨by rw [hb.1.cfg]; exact h.noRouters, by rw [hb.1.cfg]; exact h.contacts,
        by rw [hb.2.2, hb.1.version]; exact Nat.le_refl _, Or.inr (Or.inl ?_)⟩
      rcases h.phase with h1 | ⟨ck, h1, h2, h3⟩ | h1
      · exact absurd hpub' h1.2
      · exact absurd h3 hne
      · obtain ⟨ck, hck⟩ := phaseOk_pub_bootstrapped _ s (h1 s.clock s.clock (Nat.le_refl _) (Nat.le_refl _)) hpub'
        exact ⟨ck, by rw [hb.1.phase]; exact hck, by rw [hb.1.pub]; exact hpub', by rw [hb.2.2, hb.1.version]⟩
    · rename_i hpub
      have hpub' : s.pub ≠ .bootstrapped := hpub
      refine ⟨h.noRouters, h.contacts, Nat.le_refl _, ?_⟩
      rcases h.phase with h1 | ⟨ck, h1, h2, h3⟩ | h1
      · exact Or.inl h1
      · exact absurd h2 hpub'
      · exact Or.inr (Or.inr (fun t0 T h0 hT => phaseOk_seen _ s _ (h1 t0 T h0 hT) hpub'))

theorem safe_clock (c : Addr) (N : Nat) (s : DState) (d : Nat) (h : Safe c N s) (hb : Boundary s) (hd : s.clock ≤ d)
    (hdue : ∀ b, s.phase.due = some b → d ≤ max b s.clock) : Safe c N { s with clock := d } := by
  refine ⟨h.noRouters, h.contacts, h.ver, ?_⟩
  rcases h.phase with h1 | h1 | h1
  · exact Or.inl h1
  · exact Or.inr (Or.inl h1)
  · refine Or.inr (Or.inr (fun t0 T h0 hT => ?_))
    have h0' : d ≤ t0 := h0
    have hT' : d ≤ T := hT
    exact phaseOk_clock_move _ s d (h1 t0 T (by omega) (by omega)) hb hd hdue

def unitScan (_ : Unit) (_ : Nat) (_ : DEv) : Unit := ()

/-- `Safe` is kept by every transition of a step, with no assumption on the network -/
theorem safe_obs (c : Addr) (N T : Nat) : ObS (fun s (_ : Unit) => Safe c N s) unitScan (fun _ _ => True) (fun _ _ _ => True) T where
  clock := fun s _ d h hb hd _ hdue => safe_clock c N s d h hb hd hdue
  oracle := fun s _ fr h => h.frame rfl rfl rfl rfl rfl rfl
  worker := fun s _ r h hb _ => safe_worker c N s r h hb
  timer := fun s _ r h hf => safe_timer c N s r h hf
  observe := fun s _ h => safe_observe c N s h
  command := fun s _ cmd h => safe_command c N s cmd h
  datagram := fun s _ tid body src h _ => safe_datagram c N s tid body src h
  garbage := fun s _ src h => h

theorem safe_stepIn (c : Addr) (N : Nat) (s : DState) (i : DInput) (h : Safe c N s) (hb : Boundary s) (hp : s.stepInP i) :
    Safe c N (s.stepIn i).1 ∧ Boundary (s.stepIn i).1 := by
  have h2 : Safe c N { s with frOracle := i.fr } := h.frame rfl rfl rfl rfl rfl rfl
  have hb2 : Boundary { s with frOracle := i.fr } := ⟨hb.ready, hb.waits, hb.seen⟩
  have := stepG_s (I := fun s (_ : Unit) => Safe c N s) { s with frOracle := i.fr } i.t (safe_obs c N _) () i.ops i.bFirst i.hold h2 hb2 hp
    (fun _ _ _ _ => trivial) (fun _ _ => trivial)
  exact ⟨this.1, this.2.1⟩

/-- **`Safe` holds at every step boundary of every punctual run** -/
theorem safe_run (c : Addr) (N : Nat) (ins : List DInput) : ∀ s : DState, Safe c N s → Boundary s → s.runP ins →
    Safe c N (s.run ins).1 ∧ Boundary (s.run ins).1 := by
  induction ins with
  | nil => intro s h hb _; exact ⟨h, hb⟩
  | cons i rest ih =>
    intro s h hb hp
    obtain ⟨h1, b1⟩ := safe_stepIn c N s i h hb hp.1
    exact ih _ h1 b1 hp.2

theorem mem_dedup_fold (l acc : List Addr) (a : Addr) (h : a ∈ acc ∨ a ∈ l) :
    a ∈ l.foldl (fun acc a => if acc.contains a then acc else acc ++ [a]) acc := by
  induction l generalizing acc with
  | nil => simpa using h
  | cons x xs ih =>
    simp only [List.foldl_cons]
    apply ih
    rcases h with h | h
    · left; split
      · exact h
      · exact List.mem_append_left _ h
    · rcases List.mem_cons.mp h with h | h
      · subst h
        left; split
        · rename_i hc; simpa using hc
        · simp
      · exact Or.inr h

theorem mem_dedup (l : List Addr) (a : Addr) (h : a ∈ l) : a ∈ dedup l := mem_dedup_fold l [] a (Or.inr h)

/-- a node that has just been created is `Safe` and at a step boundary -/
theorem safe_new (c : Addr) (selfId : Bytes) (addr : Addr) (ro : Bool) (port : Option Nat) (fa : List Addr) (cfg : BConfig)
    (now : Nat) (hr : cfg.routersGiven = false ∧ cfg.routers = []) (hc : c ∈ cfg.nodes) :
    Safe c (dedup cfg.nodes).length (DState.new selfId addr ro port fa cfg now) ∧
    Boundary (DState.new selfId addr ro port fa cfg now) := by
  refine ⟨⟨hr, ⟨rfl, ?_⟩, Nat.le_refl _, Or.inl ⟨rfl, by simp [DState.new]⟩⟩, ⟨rfl, trivial, rfl⟩⟩
  exact mem_dedup _ _ hc

/-- the bound of the timed clause: the longest back-off sleep, two first rounds, the bucket rounds -/
def bootBound (n : Nat) : Nat := retryMax + 2 * firstRoundMax n + sweepMax

theorem T2_eq (c : Addr) (t0 N T : Nat) : LP.T2 ⟨c, t0, N, T⟩ = t0 + bootBound N := by
  simp only [LP.T2, LP.T1, bootBound]; omega

/-- from a `Safe` state at a step boundary in which the node is started and not bootstrapped -/
theorem completes_safe (c : Addr) (N : Nat) (s : DState) (hs : Safe c N s) (hb : Boundary s)
    (hst : s.phase ≠ .awaitStart) (hpub : s.pub ≠ .bootstrapped) (t0 : Nat) (h0 : s.clock ≤ t0) (ins : List DInput)
    (hp : s.runP ins) (hr : RespRun c t0 s ins) (hlate : t0 + bootBound N < (s.run ins).1.clock) :
    ∃ t, t ≤ t0 + bootBound N ∧ (t, DEv.bstate) ∈ (s.run ins).2 := by
  rcases hs.phase with h1 | ⟨ck, _, h2, _⟩ | h1
  · exact absurd h1.1 hst
  · exact absurd h2 hpub
  · have hl := hs.live t0 s.clock h0 (Nat.le_refl _) (h1 t0 s.clock h0 (Nat.le_refl _))
    have := completes_core c t0 N s.clock s ins hl hb hp hr (by rw [T2_eq]; exact hlate)
    rw [T2_eq] at this
    exact this

theorem bootBound_le_11min (n : Nat) (h : n ≤ 20) : bootBound n ≤ 660000000000 := by
  unfold bootBound firstRoundMax
  rw [retryMax_val, sweepMax_val, initialTimeout_val, freeSends_val]
  have h1 : (n - 9) * throttleDelay ≤ 11 * throttleDelay := Nat.mul_le_mul_right _ (by omega)
  rw [throttleDelay_val] at h1 ⊢
  omega

end Btdht
