import Btdht.Proofs.RefreshRun
import Btdht.Proofs.RefreshAnswer
import Btdht.Proofs.Attribution
/-!
C11 helpers, part 7: the freshness bound — a waiting contact is queried within `⌈(m+1)/4⌉` rounds,
whatever the length of the run; refresh answers are accepted whenever they arrive.
-/
namespace Btdht

/-- the latest round after a run with `k` rounds is at most `k·(6 s + J)` after the one before it -/
theorem lr_progress (J : Nat) : ∀ (ops : List (NOp × Nat)) (g : Nat → Nat × Nat) (s : HState) (lr t0 : Nat),
    HDl J g s → ChainInv s (some lr) → NRun J s t0 ops →
    ∃ r', lrRun (some lr) s ops = some r' ∧ r' ≤ lr + (roundsOf s ops).length * (sixS + J)
  | [], _, _, lr, _, _, _, _ => ⟨lr, rfl, by simp [roundsOf]⟩
  | (op, now) :: rest, g, s, lr, t0, h, hc, hrun => by
    obtain ⟨_, hp, hk, h4⟩ := hrun
    have hb := chain_bound J s lr now hc hp
    have h' := nstep_dl J g s op now h hp
    have hc' := nstep_chain J g s (some lr) op now h hc hp hk
    cases hr : s.isRound op with
    | true =>
      simp only [lrStep, hr, if_true] at hc'
      obtain ⟨r', e1, e2⟩ := lr_progress J rest _ _ now now h' hc' h4
      refine ⟨r', by simp only [lrRun, lrStep, hr, if_true]; exact e1, ?_⟩
      simp only [roundsOf, hr, if_true, List.singleton_append, List.length_cons, Nat.succ_mul]
      omega
    | false =>
      simp only [lrStep, hr, Bool.false_eq_true, if_false] at hc'
      obtain ⟨r', e1, e2⟩ := lr_progress J rest _ _ lr now h' hc' h4
      refine ⟨r', by simp only [lrRun, lrStep, hr, Bool.false_eq_true, if_false]; exact e1, ?_⟩
      simp only [roundsOf, hr, Bool.false_eq_true, if_false, List.nil_append]
      exact e2

/-- the part of a run before the first step at or after `B` -/
theorem window_prefix (B : Nat) : ∀ (ops : List (NOp × Nat)) (t0 : Nat), t0 < B →
    lastTime t0 ops < B ∨ ∃ pre op u post, ops = pre ++ (op, u) :: post ∧ lastTime t0 pre < B ∧ B ≤ u
  | [], _, h => Or.inl h
  | (op, now) :: rest, t0, h => by
    by_cases hn : now < B
    · rcases window_prefix B rest now hn with h1 | ⟨pre, op', u, post, e, h1, h2⟩
      · exact Or.inl h1
      · exact Or.inr ⟨(op, now) :: pre, op', u, post, by rw [e]; rfl, h1, h2⟩
    · exact Or.inr ⟨[], op, now, rest, rfl, h, by omega⟩

/-- after a stretch (within 30 s) during which `X` waited at every round without being picked,
whatever runs next runs by `lr + (m/4 + 1)·(6 s + J)` -/
theorem step_after_wait (J : Nat) (g : Nat → Nat × Nat) (X : Handle) (C : List Handle) (s : HState) (lr t0 : Nat)
    (p : List (NOp × Nat)) (v : Nat) (hrun : NRun J s t0 p) (hpv : Punctual J (s.nrun p) v)
    (hd : HDl J g s) (hc : ChainInv s (some lr)) (ht : TInv s.table) (hself : s.table.selfId.length = 20)
    (hwin : lastTime t0 p < t0 + thirtyS)
    (hrely : ∀ q op' now post, p = q ++ (op', now) :: post → Rely C t0 (s.nrun q).table ((s.nrun q).nstep op' now).table)
    (hw : ∀ r ∈ roundsOf s p, Waits X C r.1 r.2.2)
    (hun : ∀ r ∈ roundsOf s p, X ∉ (r.1.refreshPicks r.2.1 r.2.2).map (·.handle)) :
    v ≤ lr + (C.length / 4 + 1) * (sixS + J) := by
  have hcount : (roundsOf s p).length ≤ C.length / 4 := by
    refine Classical.byContradiction fun hlt => ?_
    obtain ⟨r, hr, hx⟩ := run_pick_fair J X C s t0 p hrun ht hself hwin hrely hw (by omega)
    exact hun r hr hx
  obtain ⟨r', e1, e2⟩ := lr_progress J p g s lr t0 hd hc hrun
  have hinv := (nrun_inv J p g s (some lr) t0 hd hc hrun).2
  rw [e1] at hinv
  have hb := chain_bound J _ r' v hinv hpv
  have hmul : (roundsOf s p).length * (sixS + J) ≤ (C.length / 4) * (sixS + J) := Nat.mul_le_mul_right _ hcount
  rw [Nat.succ_mul]
  omega

/-- **the freshness bound (time to the query)**: as long as `X` keeps waiting — listed, questionable,
not queried within 30 s — with at most `m` competitors, nothing runs later than
`lr + (m/4 + 1)·(6 s + J)`: the round that picks `X` comes by then. No assumption on the length of
the run: `(m/4 + 1)·(6 s + J) < 30 s` keeps the argument inside one 30 s window. -/
theorem fresh_within (J : Nat) (g : Nat → Nat × Nat) (X : Handle) (C : List Handle) (s : HState) (lr t0 : Nat)
    (pre : List (NOp × Nat)) (op : NOp) (u : Nat) (hrun : NRun J s t0 (pre ++ [(op, u)]))
    (hd : HDl J g s) (hc : ChainInv s (some lr)) (hlr : lr ≤ t0) (ht : TInv s.table) (hself : s.table.selfId.length = 20)
    (hR : (C.length / 4 + 1) * (sixS + J) < thirtyS)
    (hrely : ∀ q op' now post, pre = q ++ (op', now) :: post → Rely C t0 (s.nrun q).table ((s.nrun q).nstep op' now).table)
    (hw : ∀ r ∈ roundsOf s pre, Waits X C r.1 r.2.2)
    (hun : ∀ r ∈ roundsOf s pre, X ∉ (r.1.refreshPicks r.2.1 r.2.2).map (·.handle)) :
    u ≤ lr + (C.length / 4 + 1) * (sixS + J) := by
  have h30 := thirtyS_eq
  rcases window_prefix (t0 + thirtyS) pre t0 (by omega) with hin | ⟨q, o, v, post, e, hq, hv⟩
  · obtain ⟨h1, h2⟩ := nrun_split J s t0 pre _ hrun
    exact step_after_wait J g X C s lr t0 pre u h1 h2.2.1 hd hc ht hself hin hrely hw hun
  · exfalso
    subst e
    rw [List.append_assoc] at hrun
    obtain ⟨h1, h2⟩ := nrun_split J s t0 q _ hrun
    have hsub : ∀ r ∈ roundsOf s q, r ∈ roundsOf s (q ++ (o, v) :: post) := by
      intro r hr; rw [roundsOf_append]; exact List.mem_append_left _ hr
    have := step_after_wait J g X C s lr t0 q v h1 h2.2.1 hd hc ht hself hq
      (fun q' op' now post' e' => hrely q' op' now (post' ++ (o, v) :: post) (by rw [e']; simp))
      (fun r hr => hw r (hsub r hr)) (fun r hr => hun r (hsub r hr))
    omega

/-! ### refresh answers are accepted whenever they arrive -/

theorem nstep_attr (s : HState) (op : NOp) (now : Nat) (h : AttrInv s) : AttrInv (s.nstep op now) := by
  cases op with
  | h hop => exact hstep_attr s hop now h
  | kick =>
    obtain ⟨_, r2, r3⟩ := refresh_frame s now
    show AttrInv (s.refresh now).1
    exact ⟨r2 ▸ h.aidsNodup, fun l hl => by rw [r3]; exact h.aidRange l (r2 ▸ hl), fun l hl => h.tids l (r2 ▸ hl), r3 ▸ h.next2⟩
  | wAnswer rsp src => exact ⟨h.aidsNodup, h.aidRange, h.tids, h.next2⟩
  | wQuery hd => exact ⟨h.aidsNodup, h.aidRange, h.tids, h.next2⟩

theorem nrun_attr : ∀ (ops : List (NOp × Nat)) (s : HState), AttrInv s → AttrInv (s.nrun ops)
  | [], _, h => h
  | (op, now) :: rest, s, h => nrun_attr rest _ (nstep_attr s op now h)

/-- **an answer carrying a transaction id of the refresh action is accepted whenever it arrives**
(no timeout is kept for refresh queries; search action ids start at 2): the responder is offered
as good, the nodes it names as questionable -/
theorem refresh_answer_accepted (s : HState) (h : AttrInv s) (q : Nat) (rsp : Resp) (src : Addr) (now : Nat) :
    (s.handleIncoming (.sym ⟨refreshAid, q⟩) (.resp rsp) src now).1.table =
      s.table.addNodes (Node.asGood ⟨rsp.id, src⟩ now) (s.namedBy rsp) now := by
  have hnone : s.lookups.find? (·.aid = refreshAid) = none := by
    apply List.find?_eq_none.mpr
    intro l hl
    have := (h.aidRange l hl).1
    have hne : l.aid ≠ refreshAid := by unfold refreshAid; omega
    simp [hne]
  simp only [HState.handleIncoming, HState.handleResponse, InTid.route, hnone, if_true]

end Btdht
