import Btdht.Model.Table
/-!
C09 helper: the bucket walk of `ClosestNodes` visits every bucket index exactly once.
The walk is checked by a linear "growing interval" certificate (each visited index extends the
interval of visited indices by one at either end); a general lemma turns an accepted certificate
into a permutation of the interval.
-/
namespace Btdht

/-- accept `x` iff it extends the interval `[lo, hi]` by one at either end -/
def growStep (st : Nat × Nat) (x : Nat) : Option (Nat × Nat) :=
  if x + 1 = st.1 then some (x, st.2)
  else if x = st.2 + 1 then some (st.1, x)
  else none

def grow : Nat × Nat → List Nat → Option (Nat × Nat)
  | st, [] => some st
  | st, x :: xs => match growStep st x with
    | some st' => grow st' xs
    | none => none

/-- An accepted walk over `[lo, hi]` ending with `[lo', hi']` visited exactly the new indices. -/
theorem grow_perm : ∀ (l : List Nat) (lo hi lo' hi' : Nat), lo ≤ hi + 1 →
    grow (lo, hi) l = some (lo', hi') →
    lo' ≤ lo ∧ hi ≤ hi' ∧ l.Perm (List.range' lo' (lo - lo') ++ List.range' (hi + 1) (hi' - hi))
  | [], lo, hi, lo', hi', _, h => by
    simp only [grow, Option.some.injEq, Prod.mk.injEq] at h
    obtain ⟨rfl, rfl⟩ := h
    simp
  | x :: xs, lo, hi, lo', hi', hle, h => by
    unfold grow at h
    unfold growStep at h
    by_cases h1 : x + 1 = lo
    · simp only [h1, if_true] at h
      obtain ⟨a, b, p⟩ := grow_perm xs x hi lo' hi' (by omega) h
      refine ⟨by omega, b, ?_⟩
      -- range' lo' (lo - lo') = range' lo' (x - lo') ++ [x]
      have hsplit : List.range' lo' (lo - lo') = List.range' lo' (x - lo') ++ [x] := by
        have h1' : lo - lo' = (x - lo') + 1 := by omega
        have h2' : lo' + (x - lo') = x := by omega
        rw [h1', List.range'_1_concat, h2']
      rw [hsplit]
      refine (List.Perm.cons x p).trans ?_
      simp only [List.append_assoc, List.singleton_append]
      exact List.perm_middle.symm
    · simp only [h1, if_false] at h
      by_cases h2 : x = hi + 1
      · simp only [h2, if_true] at h
        obtain ⟨a, b, p⟩ := grow_perm xs lo (hi + 1) lo' hi' (by omega) h
        refine ⟨a, by omega, ?_⟩
        have hsplit : List.range' (hi + 1) (hi' - hi) = (hi + 1) :: List.range' (hi + 1 + 1) (hi' - (hi + 1)) := by
          have : hi' - hi = (hi' - (hi + 1)) + 1 := by omega
          rw [this, List.range'_succ]
        rw [hsplit, h2]
        refine (List.Perm.cons (hi + 1) p).trans ?_
        exact List.perm_middle.symm
      · simp [h2] at h

/-- certificate for one start index: the walk begins at `start` and grows an interval to `[0, 159]`
(for `start = 160`, which is not a bucket index, the walk continues with 159 and grows from there) -/
def walkCert (start : Nat) : Bool :=
  match walkFrom 160 start 161 start with
  | [] => false
  | h :: rest =>
    if h < 160 then h == start && grow (h, h) rest == some (0, 159)
    else match rest with
      | [] => false
      | h2 :: rest2 => h == start && h2 == 159 && grow (159, 159) rest2 == some (0, 159)

theorem walkCert_all : ∀ s, s < 161 → walkCert s = true := by decide +kernel

end Btdht

namespace Btdht

theorem range'_split (s : Nat) (hs : s < 160) :
    List.range 160 = List.range' 0 s ++ s :: List.range' (s + 1) (159 - s) := by
  rw [List.range_eq_range']
  have h1 : (160 : Nat) = s + (1 + (159 - s)) := by omega
  conv => lhs; rw [h1]
  rw [← List.range'_append_1, ← List.range'_append_1]
  simp [List.range'_one]

/-- The walk from any start `s ≤ 160` is a permutation of the 160 bucket indices, preceded by the
(non-)index 160 itself when `s = 160`; and it begins with `s`. -/
theorem walk_perm (s : Nat) (hs : s < 161) :
    (walkFrom 160 s 161 s).head? = some s ∧
    ((s < 160 ∧ (walkFrom 160 s 161 s).Perm (List.range 160)) ∨
     (s = 160 ∧ (walkFrom 160 s 161 s).Perm (160 :: List.range 160))) := by
  have hc := walkCert_all s hs
  unfold walkCert at hc
  cases hw : walkFrom 160 s 161 s with
  | nil => simp [hw] at hc
  | cons h rest =>
    simp only [hw] at hc
    by_cases hlt : h < 160
    · simp only [hlt, if_true, Bool.and_eq_true, beq_iff_eq] at hc
      obtain ⟨rfl, hg⟩ := hc
      obtain ⟨_, _, p⟩ := grow_perm rest h h 0 159 (by omega) hg
      refine ⟨rfl, Or.inl ⟨hlt, ?_⟩⟩
      rw [range'_split h hlt]
      refine (List.Perm.cons h p).trans ?_
      simp only [Nat.sub_zero]
      exact List.perm_middle.symm
    · simp only [hlt, if_false] at hc
      cases rest with
      | nil => simp at hc
      | cons h2 rest2 =>
        simp only [Bool.and_eq_true, beq_iff_eq] at hc
        obtain ⟨⟨rfl, rfl⟩, hg⟩ := hc
        obtain ⟨_, _, p⟩ := grow_perm rest2 159 159 0 159 (by omega) hg
        have h160 : h = 160 := by omega
        subst h160
        refine ⟨rfl, Or.inr ⟨rfl, ?_⟩⟩
        refine List.Perm.cons 160 ?_
        rw [List.range_eq_range']
        have : List.range' 0 160 = List.range' 0 159 ++ [159] := by
          rw [show (160 : Nat) = 159 + 1 from rfl, List.range'_1_concat]
        rw [this]
        refine (List.Perm.cons 159 p).trans ?_
        simp only [Nat.sub_zero, Nat.sub_self, List.range'_zero, List.append_nil]
        exact (List.perm_append_singleton 159 _).symm

end Btdht
