import Btdht.Proofs.Bucket
/-!
Helper lemmas for C08: the routing-table invariant `TInv` and its preservation by
`add_node` (including bucket splits) and by request marks.
-/
namespace Btdht

/-- where a node with `k` shared prefix bits may sit: bucket `i` of `len` -/
def Placed (len i k : Nat) : Prop := (i + 1 < len → k = i) ∧ (i + 1 = len → i ≤ k)

/-- a slot is either dead-from-birth (never answered: placeholder) or holds an admissible, correctly placed node -/
def SlotOk (self : Bytes) (routers : List Addr) (len i : Nat) (m : Node) : Prop :=
  m.lastResponse = none ∨
  (lcp self m.handle.id ≠ maxBuckets ∧ routers.contains m.handle.addr = false ∧
   Placed len i (lcp self m.handle.id))

/-- of two slots with the same handle only the first may hold a real node -/
def HandlesOk (l : List Node) : Prop := l.Pairwise (fun a b => a.handle = b.handle → b.lastResponse = none)

structure TInv (t : Table) : Prop where
  len_pos : 1 ≤ t.buckets.length
  len_le : t.buckets.length ≤ maxBuckets
  slots : ∀ b ∈ t.buckets, b.nodes.length = Constants.MAX_BUCKET_SIZE
  placed : ∀ (i : Nat) (hi : i < t.buckets.length), ∀ m ∈ t.buckets[i].nodes, SlotOk t.selfId t.routers t.buckets.length i m
  handles : ∀ b ∈ t.buckets, HandlesOk b.nodes

theorem bucketNew_dead : ∀ m ∈ Bucket.new.nodes, m.lastResponse = none := by
  intro m hm
  simp only [Bucket.new, List.mem_replicate] at hm
  rw [hm.2]; rfl

theorem bucketNew_handles : HandlesOk Bucket.new.nodes := by
  unfold HandlesOk Bucket.new
  rw [List.pairwise_replicate]
  right; intro _; rfl

theorem bucketNew_len : Bucket.new.nodes.length = Constants.MAX_BUCKET_SIZE := by simp [Bucket.new]

theorem tinv_new (selfId : Bytes) : TInv (Table.new selfId) := by
  refine ⟨by simp [Table.new], by simp [Table.new, maxBuckets]; decide, ?_, ?_, ?_⟩
  · intro b hb; simp only [Table.new, List.mem_singleton] at hb; subst hb; exact bucketNew_len
  · intro i hi m hm
    simp only [Table.new, List.length_singleton] at hi
    have : i = 0 := by omega
    subst this
    exact Or.inl (bucketNew_dead m hm)
  · intro b hb; simp only [Table.new, List.mem_singleton] at hb; subst hb; exact bucketNew_handles

/-- `bucket_placement` puts an id with `k` shared bits where `Placed` allows it -/
theorem placed_bucketPlacement (len k : Nat) (hlen : 1 ≤ len) :
    Placed len (bucketPlacement k len) k ∧ bucketPlacement k len < len := by
  unfold Placed bucketPlacement
  by_cases h : k ≥ len
  · rw [if_pos h]; exact ⟨⟨fun _ => by omega, fun _ => by omega⟩, by omega⟩
  · rw [if_neg h]; exact ⟨⟨fun _ => rfl, fun _ => Nat.le_refl _⟩, by omega⟩

/-- Replacing bucket `idx` by a bucket whose slots are all fine keeps the invariant. -/
theorem tinv_set (t : Table) (idx : Nat) (b' : Bucket) (h : TInv t) (hidx : idx < t.buckets.length)
    (hlen : b'.nodes.length = Constants.MAX_BUCKET_SIZE)
    (hslots : ∀ m ∈ b'.nodes, SlotOk t.selfId t.routers t.buckets.length idx m)
    (hh : HandlesOk b'.nodes) :
    TInv { t with buckets := t.buckets.set idx b' } := by
  refine ⟨by simpa using h.len_pos, by simpa using h.len_le, ?_, ?_, ?_⟩
  · intro b hb
    rcases List.mem_or_eq_of_mem_set hb with hb | rfl
    · exact h.slots b hb
    · exact hlen
  · intro i hi m hm
    simp only [List.length_set] at hi ⊢
    by_cases hii : idx = i
    · subst hii
      simp only [List.getElem_set_self] at hm
      exact hslots m hm
    · simp only [List.getElem_set_ne hii] at hm
      exact h.placed i hi m hm
  · intro b hb
    rcases List.mem_or_eq_of_mem_set hb with hb | rfl
    · exact h.handles b hb
    · exact hh

/-- The bucket produced by `Bucket::add_node` for an admissible, correctly placed node is fine. -/
theorem addNode_bucket_ok (self : Bytes) (routers : List Addr) (len idx : Nat) (b : Bucket) (n : Node) (now : Nat)
    (hb : ∀ m ∈ b.nodes, SlotOk self routers len idx m) (hh : HandlesOk b.nodes)
    (hn : SlotOk self routers len idx n) :
    (∀ m ∈ (b.addNode n now).1.nodes, SlotOk self routers len idx m) ∧ HandlesOk (b.addNode n now).1.nodes := by
  have ho := addNode_outcome b n now
  generalize b.addNode n now = r at ho
  cases ho with
  | offeredBad _ => exact ⟨hb, hh⟩
  | rejected _ _ _ _ => exact ⟨hb, hh⟩
  | updated i hi hlive heq hfirst =>
    constructor
    · intro m hm
      simp only at hm
      rw [List.mem_iff_getElem] at hm
      obtain ⟨j, hj, rfl⟩ := hm
      simp only [List.length_modify] at hj
      rw [List.getElem_modify]
      by_cases hij : i = j
      · subst hij
        simp only [if_true]
        -- the updated slot holds either the old node (with new marks) or the offered one
        have hold := hb b.nodes[i] (List.getElem_mem hi)
        unfold Node.update
        split <;> first | exact hold | exact hn | skip
        · -- good/good: old node with `lastResponse := other.lastResponse`
          rcases hold with hnone | hok
          · rename_i hs _
            simp [Node.status, hnone] at hs
          · exact Or.inr hok
      · simp only [hij, if_false]
        exact hb _ (List.getElem_mem hj)
    · -- handles are unchanged by `update`, and a slot that turns real is the first with its handle
      unfold HandlesOk at hh ⊢
      simp only
      rw [List.pairwise_iff_getElem] at hh ⊢
      intro a c ha hc hac
      simp only [List.length_modify] at ha hc
      rw [List.getElem_modify, List.getElem_modify]
      intro hhandle
      have hupd : ∀ (m : Node), m.handle = n.handle → (m.update n now).handle = m.handle :=
        fun m hm => update_handle m n now hm
      by_cases hic : i = c
      · subst hic
        -- slot a < i has a different handle than n, slot i has n's handle
        exfalso
        have hai : i ≠ a := by omega
        simp only [hai, if_false, if_true] at hhandle
        rw [hupd _ heq] at hhandle
        exact hfirst a hac (hhandle.trans heq)
      · simp only [hic, if_false] at hhandle ⊢
        by_cases hia : i = a
        · subst hia
          simp only [if_true] at hhandle
          rw [hupd _ heq] at hhandle
          exact hh i c ha hc hac hhandle
        · simp only [hia, if_false] at hhandle
          exact hh a c ha hc hac hhandle
  | tookFree i hi hlive hno _ =>
    constructor
    · intro m hm
      rcases List.mem_or_eq_of_mem_set hm with hm | rfl
      · exact hb m hm
      · exact hn
    · unfold HandlesOk at hh ⊢
      simp only
      rw [List.pairwise_iff_getElem] at hh ⊢
      intro a c ha hc hac
      simp only [List.length_set] at ha hc
      rw [List.getElem_set, List.getElem_set]
      intro hhandle
      by_cases hia : i = a
      · subst hia
        have hic : i ≠ c := by omega
        simp only [if_true, hic, if_false] at hhandle
        exact absurd hhandle.symm (hno _ (List.getElem_mem hc))
      · by_cases hic : i = c
        · subst hic
          simp only [hia, if_false, if_true] at hhandle
          exact absurd hhandle (hno _ (List.getElem_mem ha))
        · simp only [hia, hic, if_false] at hhandle ⊢
          exact hh a c ha hc hac hhandle
  | evicted i hi hlive hno _ _ =>
    constructor
    · intro m hm
      rcases List.mem_or_eq_of_mem_set hm with hm | rfl
      · exact hb m hm
      · exact hn
    · unfold HandlesOk at hh ⊢
      simp only
      rw [List.pairwise_iff_getElem] at hh ⊢
      intro a c ha hc hac
      simp only [List.length_set] at ha hc
      rw [List.getElem_set, List.getElem_set]
      intro hhandle
      by_cases hia : i = a
      · subst hia
        have hic : i ≠ c := by omega
        simp only [if_true, hic, if_false] at hhandle
        exact absurd hhandle.symm (hno _ (List.getElem_mem hc))
      · by_cases hic : i = c
        · subst hic
          simp only [hia, if_false, if_true] at hhandle
          exact absurd hhandle (hno _ (List.getElem_mem ha))
        · simp only [hia, hic, if_false] at hhandle ⊢
          exact hh a c ha hc hac hhandle

end Btdht

namespace Btdht

def SameEnv (t t' : Table) : Prop := t'.selfId = t.selfId ∧ t'.routers = t.routers

theorem sameEnv_refl (t : Table) : SameEnv t t := ⟨rfl, rfl⟩
theorem sameEnv_trans {a b c : Table} (h1 : SameEnv a b) (h2 : SameEnv b c) : SameEnv a c :=
  ⟨h2.1.trans h1.1, h2.2.trans h1.2⟩

theorem foldl_inv (f : Table → Node → Table)
    (P : ∀ t m, TInv t → TInv (f t m) ∧ SameEnv t (f t m)) :
    ∀ (l : List Node) (t : Table), TInv t → TInv (l.foldl f t) ∧ SameEnv t (l.foldl f t)
  | [], t, h => ⟨h, sameEnv_refl t⟩
  | m :: l, t, h => by
    obtain ⟨h1, e1⟩ := P t m h
    obtain ⟨h2, e2⟩ := foldl_inv f P l (f t m) h1
    exact ⟨h2, sameEnv_trans e1 e2⟩

/-- the table right after `split_bucket` replaced the last bucket by two empty ones -/
theorem tinv_split (t : Table) (h : TInv t) (hsplit : t.buckets.length - 1 ≠ maxBuckets - 1) :
    TInv { t with buckets := t.buckets.dropLast ++ [Bucket.new, Bucket.new] } := by
  have hpos := h.len_pos
  have hle := h.len_le
  have hlen : (t.buckets.dropLast ++ [Bucket.new, Bucket.new]).length = t.buckets.length + 1 := by
    simp; omega
  refine ⟨by simp only [hlen]; omega, by simp only [hlen]; omega, ?_, ?_, ?_⟩
  · intro b hb
    simp only [List.mem_append, List.mem_cons, List.not_mem_nil, or_false] at hb
    rcases hb with hb | rfl | rfl
    · exact h.slots b (List.dropLast_subset _ hb)
    · exact bucketNew_len
    · exact bucketNew_len
  · intro i hi m hm
    simp only [hlen] at hi ⊢
    by_cases hold : i < t.buckets.length - 1
    · have hget : (t.buckets.dropLast ++ [Bucket.new, Bucket.new])[i]'(by rw [hlen]; exact hi) = t.buckets[i]'(by omega) := by
        rw [List.getElem_append_left (by simp; exact hold), List.getElem_dropLast]
      rw [hget] at hm
      rcases h.placed i (by omega) m hm with hnone | ⟨h1, h2, h3⟩
      · exact Or.inl hnone
      · refine Or.inr ⟨h1, h2, ?_⟩
        unfold Placed at h3 ⊢
        constructor
        · intro _; exact h3.1 (by omega)
        · intro hc; omega
    · -- one of the two new buckets
      have hm' : m ∈ Bucket.new.nodes := by
        have hge : (t.buckets.dropLast).length ≤ i := by simp; omega
        rw [List.getElem_append_right hge] at hm
        have hin := List.getElem_mem (l := [Bucket.new, Bucket.new]) (n := i - t.buckets.dropLast.length)
          (by simp; omega)
        simp only [List.mem_cons, List.not_mem_nil, or_false, or_self] at hin
        rw [hin] at hm
        exact hm
      exact Or.inl (bucketNew_dead m hm')
  · intro b hb
    simp only [List.mem_append, List.mem_cons, List.not_mem_nil, or_false] at hb
    rcases hb with hb | rfl | rfl
    · exact h.handles b (List.dropLast_subset _ hb)
    · exact bucketNew_handles
    · exact bucketNew_handles

/-- placing an admissible node into its bucket (no split) -/
theorem tinv_place (t : Table) (n : Node) (k now : Nat) (h : TInv t)
    (hk : k = lcp t.selfId n.handle.id) (hk160 : k ≠ maxBuckets)
    (hr : t.routers.contains n.handle.addr = false) (b : Bucket)
    (hb : t.buckets[bucketPlacement k t.buckets.length]? = some b) :
    TInv { t with buckets := t.buckets.set (bucketPlacement k t.buckets.length) (b.addNode n now).1 } := by
  obtain ⟨hpl, hidx⟩ := placed_bucketPlacement t.buckets.length k h.len_pos
  have hbmem : b ∈ t.buckets := List.mem_of_getElem? hb
  have hbeq : t.buckets[bucketPlacement k t.buckets.length]'hidx = b := by
    rw [List.getElem?_eq_getElem hidx] at hb; exact Option.some.inj hb
  have hn : SlotOk t.selfId t.routers t.buckets.length (bucketPlacement k t.buckets.length) n :=
    Or.inr ⟨hk ▸ hk160, hr, hk ▸ hpl⟩
  obtain ⟨h1, h2⟩ := addNode_bucket_ok t.selfId t.routers t.buckets.length _ b n now
    (fun m hm => h.placed _ hidx m (hbeq ▸ hm)) (h.handles b hbmem) hn
  exact tinv_set t _ _ h hidx (by rw [addNode_length]; exact h.slots b hbmem) h1 h2

/-- `add_node` is `bucket_node` behind three filters (router address, bad standing, own id) -/
theorem addNodeF_of_bucketNodeF (fuel : Nat)
    (h2 : ∀ (t : Table) (n : Node) (k now : Nat), TInv t → k = lcp t.selfId n.handle.id → k ≠ maxBuckets →
      t.routers.contains n.handle.addr = false →
      TInv (Table.addNodeF.bucketNodeF fuel t n k now) ∧ SameEnv t (Table.addNodeF.bucketNodeF fuel t n k now)) :
    ∀ (t : Table) (n : Node) (now : Nat), TInv t →
      TInv (Table.addNodeF fuel t n now) ∧ SameEnv t (Table.addNodeF fuel t n now) := by
  intro t n now ht
  rw [Table.addNodeF.eq_1]
  by_cases hr : t.routers.contains n.handle.addr = true
  · simp only [hr, if_true]; exact ⟨ht, sameEnv_refl t⟩
  · simp only [hr, if_false, Bool.false_eq_true]
    by_cases hb : n.status now = .bad
    · simp only [hb, if_true]; exact ⟨ht, sameEnv_refl t⟩
    · simp only [hb, if_false]
      by_cases hk : lcp t.selfId n.handle.id = maxBuckets
      · simp only [hk, if_true]; exact ⟨ht, sameEnv_refl t⟩
      · simp only [hk, if_false]
        exact h2 t n _ now ht rfl hk (by simpa using hr)

/-- **Invariant preservation** for `add_node` / `bucket_node` / `split_bucket`, by induction on the
split budget. -/
theorem tinv_addNodeF : ∀ (fuel : Nat),
    (∀ (t : Table) (n : Node) (now : Nat), TInv t →
      TInv (Table.addNodeF fuel t n now) ∧ SameEnv t (Table.addNodeF fuel t n now)) ∧
    (∀ (t : Table) (n : Node) (k now : Nat), TInv t → k = lcp t.selfId n.handle.id → k ≠ maxBuckets →
      t.routers.contains n.handle.addr = false →
      TInv (Table.addNodeF.bucketNodeF fuel t n k now) ∧ SameEnv t (Table.addNodeF.bucketNodeF fuel t n k now)) := by
  intro fuel
  induction fuel with
  | zero =>
    have h2 : ∀ (t : Table) (n : Node) (k now : Nat), TInv t → k = lcp t.selfId n.handle.id → k ≠ maxBuckets →
        t.routers.contains n.handle.addr = false →
        TInv (Table.addNodeF.bucketNodeF 0 t n k now) ∧ SameEnv t (Table.addNodeF.bucketNodeF 0 t n k now) := by
      intro t n k now ht hk hk160 hr
      rw [Table.addNodeF.bucketNodeF.eq_1]
      cases hb : t.buckets[bucketPlacement k t.buckets.length]? with
      | none => exact ⟨ht, sameEnv_refl t⟩
      | some b =>
        simp only
        cases hres : b.addNode n now with
        | mk b' ok =>
          simp only
          by_cases hok : ok = true
          · simp only [hok, if_true]
            have := tinv_place t n k now ht hk hk160 hr b hb
            rw [hres] at this
            exact ⟨this, ⟨rfl, rfl⟩⟩
          · simp only [hok, if_false, Bool.false_eq_true]
            split <;> exact ⟨ht, sameEnv_refl t⟩
    exact ⟨addNodeF_of_bucketNodeF _ h2, h2⟩
  | succ fuel ih =>
    obtain ⟨ih1, ih2⟩ := ih
    have h2 : ∀ (t : Table) (n : Node) (k now : Nat), TInv t → k = lcp t.selfId n.handle.id → k ≠ maxBuckets →
        t.routers.contains n.handle.addr = false →
        TInv (Table.addNodeF.bucketNodeF (fuel + 1) t n k now) ∧
        SameEnv t (Table.addNodeF.bucketNodeF (fuel + 1) t n k now) := by
      intro t n k now ht hk hk160 hr
      rw [Table.addNodeF.bucketNodeF.eq_2]
      cases hb : t.buckets[bucketPlacement k t.buckets.length]? with
      | none => exact ⟨ht, sameEnv_refl t⟩
      | some b =>
        simp only
        cases hres : b.addNode n now with
        | mk b' ok =>
          simp only
          by_cases hok : ok = true
          · simp only [hok, if_true]
            have := tinv_place t n k now ht hk hk160 hr b hb
            rw [hres] at this
            exact ⟨this, ⟨rfl, rfl⟩⟩
          · simp only [hok, if_false, Bool.false_eq_true]
            by_cases hsplit : canSplitBucket t.buckets.length (bucketPlacement k t.buckets.length) = true
            · simp only [hsplit, if_true]
              have hs : t.buckets.length - 1 ≠ maxBuckets - 1 := by
                simp only [canSplitBucket, Bool.and_eq_true, decide_eq_true_eq, ne_eq] at hsplit
                intro hc; exact hsplit.2 (hsplit.1.trans hc)
              have ht1 := tinv_split t ht hs
              obtain ⟨ht2, e2⟩ := foldl_inv (fun acc m => Table.addNodeF fuel acc m now)
                (fun t m h => ih1 t m now h) (t.buckets.getLast?.getD Bucket.new).nodes _ ht1
              obtain ⟨ht3, e3⟩ := ih2 _ n k now ht2 (by rw [e2.1]; exact hk) hk160 (by rw [e2.2]; exact hr)
              exact ⟨ht3, sameEnv_trans (sameEnv_trans (⟨rfl, rfl⟩ : SameEnv t _) e2) e3⟩
            · simp only [hsplit, if_false, Bool.false_eq_true]
              exact ⟨ht, sameEnv_refl t⟩
    exact ⟨addNodeF_of_bucketNodeF _ h2, h2⟩

theorem tinv_addNode (t : Table) (n : Node) (now : Nat) (h : TInv t) :
    TInv (t.addNode n now) ∧ SameEnv t (t.addNode n now) :=
  (tinv_addNodeF maxBuckets).1 t n now h

/-- request marks (`local_request` / `remote_request` through `find_node_mut`) keep the invariant:
they change neither handle nor the recorded answer -/
theorem tinv_modifyNode (t : Table) (h : Handle) (now : Nat) (f : Node → Node) (ht : TInv t)
    (hf : ∀ m, (f m).handle = m.handle ∧ (f m).lastResponse = m.lastResponse) :
    TInv (t.modifyNode h now f).1 ∧ SameEnv t (t.modifyNode h now f).1 := by
  unfold Table.modifyNode
  simp only
  cases hb : t.buckets[t.bucketIndexFor h.id]? with
  | none => exact ⟨ht, sameEnv_refl t⟩
  | some b =>
    simp only
    cases hp : positionOf (fun m => m.isPingable now && decide (m.handle = h)) b.nodes with
    | none => exact ⟨ht, sameEnv_refl t⟩
    | some i =>
      simp only
      have hidx : t.bucketIndexFor h.id < t.buckets.length := by
        rcases List.getElem?_eq_some_iff.mp hb with ⟨hlt, _⟩; exact hlt
      have hbmem : b ∈ t.buckets := List.mem_of_getElem? hb
      have hbeq : t.buckets[t.bucketIndexFor h.id]'hidx = b := by
        rw [List.getElem?_eq_getElem hidx] at hb; exact Option.some.inj hb
      refine ⟨tinv_set t _ _ ht hidx (by simp only [List.length_modify]; exact ht.slots b hbmem) ?_ ?_, ⟨rfl, rfl⟩⟩
      · intro m hm
        simp only at hm
        rw [List.mem_iff_getElem] at hm
        obtain ⟨j, hj, rfl⟩ := hm
        simp only [List.length_modify] at hj
        rw [List.getElem_modify]
        have hold := ht.placed _ hidx b.nodes[j] (by rw [hbeq]; exact List.getElem_mem hj)
        by_cases hij : i = j
        · simp only [hij, if_true]
          unfold SlotOk at hold ⊢
          rw [(hf _).1, (hf _).2]; exact hold
        · simp only [hij, if_false]; exact hold
      · have hh := ht.handles b hbmem
        unfold HandlesOk at hh ⊢
        simp only
        rw [List.pairwise_iff_getElem] at hh ⊢
        intro a c ha hc hac
        simp only [List.length_modify] at ha hc
        rw [List.getElem_modify, List.getElem_modify]
        have key := hh a c ha hc hac
        by_cases hia : i = a
        · have hic : i ≠ c := by omega
          rw [if_pos hia, if_neg hic, (hf _).1]; exact key
        · rw [if_neg hia]
          by_cases hic : i = c
          · rw [if_pos hic, (hf _).1, (hf _).2]; exact key
          · rw [if_neg hic]; exact key

end Btdht
