import Btdht.Proofs.Table
/-!
C08 helpers: `split_bucket` loses no live node, and the table-level description of one offer
(`add_node` = "split the last bucket zero or more times, losing nothing; then one bucket-level
`Bucket::add_node`").
-/
namespace Btdht

/-- every slot of every bucket -/
def Table.allNodes (t : Table) : List Node := t.buckets.flatMap (·.nodes)

/-- every node of `t` that is live at `now` is still a slot of `t'` (same `Node` value) -/
def Lossless (t t' : Table) (now : Nat) : Prop :=
  ∀ m ∈ t.allNodes, m.status now ≠ .bad → m ∈ t'.allNodes

/-- `t'` holds nothing but slots of `t` and never-answered placeholders -/
def NoNew (t t' : Table) : Prop := ∀ m ∈ t'.allNodes, m ∈ t.allNodes ∨ m.lastResponse = none

theorem lossless_refl (t : Table) (now : Nat) : Lossless t t now := fun _ h _ => h
theorem lossless_trans {a b c : Table} {now : Nat} (h1 : Lossless a b now) (h2 : Lossless b c now) :
    Lossless a c now := fun m hm hl => h2 m (h1 m hm hl) hl
theorem noNew_refl (t : Table) : NoNew t t := fun _ h => Or.inl h
theorem noNew_trans {a b c : Table} (h1 : NoNew a b) (h2 : NoNew b c) : NoNew a c := fun m hm => by
  rcases h2 m hm with h | h
  · exact h1 m h
  · exact Or.inr h

theorem modify_eq_set' {α} (f : α → α) (l : List α) (i : Nat) (hi : i < l.length) :
    l.modify i f = l.set i (f l[i]) := by
  apply List.ext_getElem?
  intro j
  rw [List.getElem?_modify, List.getElem?_set]
  by_cases hij : i = j
  · subst hij; simp [hi]
  · simp [hij]

theorem status_cases (n : Node) (now : Nat) :
    n.status now = .bad ∨ n.status now = .questionable ∨ n.status now = .good := by
  cases n.status now <;> simp

theorem update_of_bad (m n : Node) (now : Nat) (hm : m.status now = .bad) (hn : n.status now ≠ .bad) :
    m.update n now = n := by
  unfold Node.update
  rcases status_cases n now with h | h | h
  · exact absurd h hn
  · rw [hm, h]
  · rw [hm, h]

/-- A live node offered to a bucket that has a free (bad) slot, and in which every slot carrying
the same handle is bad, takes a bad slot; nothing else changes. -/
theorem addNode_free (b : Bucket) (n : Node) (now : Nat) (hlive : n.status now ≠ .bad)
    (hsame : ∀ x ∈ b.nodes, x.handle = n.handle → x.status now = .bad)
    (hfree : ∃ x ∈ b.nodes, x.status now = .bad) :
    ∃ i, ∃ hi : i < b.nodes.length, b.nodes[i].status now = .bad ∧
      b.addNode n now = ({ nodes := b.nodes.set i n }, true) := by
  have ho := addNode_outcome b n now
  generalize b.addNode n now = r at ho
  cases ho with
  | offeredBad hb => exact absurd hb hlive
  | updated i hi _ heq _ =>
    have hbad := hsame _ (List.getElem_mem hi) heq
    refine ⟨i, hi, hbad, ?_⟩
    rw [modify_eq_set' _ _ _ hi, update_of_bad _ _ _ hbad hlive]
  | tookFree i hi _ _ hbad => exact ⟨i, hi, hbad, rfl⟩
  | evicted i hi _ _ hnobad _ =>
    obtain ⟨x, hx, hb⟩ := hfree
    exact absurd hb (hnobad x hx)
  | rejected _ _ hnobad _ =>
    obtain ⟨x, hx, hb⟩ := hfree
    exact absurd hb (hnobad x hx)

/-- `bucket_node` when the placement bucket accepts the node: no split, one bucket replaced -/
theorem bucketNodeF_ok (fuel : Nat) (t : Table) (n : Node) (k now : Nat) (b : Bucket)
    (hb : t.buckets[bucketPlacement k t.buckets.length]? = some b) (hok : (b.addNode n now).2 = true) :
    Table.addNodeF.bucketNodeF fuel t n k now =
      { t with buckets := t.buckets.set (bucketPlacement k t.buckets.length) (b.addNode n now).1 } := by
  cases hres : b.addNode n now with
  | mk b' ok =>
    rw [hres] at hok
    simp only at hok
    cases fuel with
    | zero => rw [Table.addNodeF.bucketNodeF.eq_1]; simp only [hb, hres, hok, if_true]
    | succ f => rw [Table.addNodeF.bucketNodeF.eq_2]; simp only [hb, hres, hok, if_true]

/-- `bucket_node` when the placement bucket is full and may not be split: nothing happens -/
theorem bucketNodeF_nosplit (fuel : Nat) (t : Table) (n : Node) (k now : Nat) (b : Bucket)
    (hb : t.buckets[bucketPlacement k t.buckets.length]? = some b) (hok : (b.addNode n now).2 = false)
    (hns : canSplitBucket t.buckets.length (bucketPlacement k t.buckets.length) = false) :
    Table.addNodeF.bucketNodeF fuel t n k now = t := by
  cases hres : b.addNode n now with
  | mk b' ok =>
    rw [hres] at hok
    simp only at hok
    cases fuel with
    | zero =>
      rw [Table.addNodeF.bucketNodeF.eq_1]
      simp only [hb, hres, hok, hns, Bool.false_eq_true, if_false]
    | succ f =>
      rw [Table.addNodeF.bucketNodeF.eq_2]
      simp only [hb, hres, hok, hns, Bool.false_eq_true, if_false]

def liveB (now : Nat) (m : Node) : Bool := decide (m.status now ≠ .bad)

theorem exists_bad_of_count (l : List Node) (now c : Nat) (hc : l.countP (liveB now) ≤ c) (hl : c < l.length) :
    ∃ x ∈ l, x.status now = .bad := by
  refine Classical.byContradiction fun hne => ?_
  have hall : ∀ a ∈ l, liveB now a = true := by
    intro a ha
    cases hs : liveB now a with
    | true => rfl
    | false => exact absurd ⟨a, ha, by simpa [liveB] using hs⟩ hne
  have := List.countP_eq_length.mpr hall
  omega

theorem count_set_bad (l : List Node) (now i : Nat) (n : Node) (hi : i < l.length)
    (hbad : l[i].status now = .bad) : (l.set i n).countP (liveB now) ≤ l.countP (liveB now) + 1 := by
  rw [List.countP_set hi]
  have : liveB now l[i] = false := by simp [liveB, hbad]
  simp only [this, Bool.false_eq_true, if_false]
  split <;> omega

/-- what `TInv` says about the slots of the last bucket of a table with `L + 1` buckets -/
def LastOk (self : Bytes) (routers : List Addr) (L : Nat) (m : Node) : Prop :=
  m.lastResponse = none ∨
  (lcp self m.handle.id ≠ maxBuckets ∧ routers.contains m.handle.addr = false ∧ L ≤ lcp self m.handle.id)

theorem status_bad_of_none (m : Node) (now : Nat) (h : m.lastResponse = none) : m.status now = .bad := by
  simp [Node.status, h]

/-- **Re-adding the nodes of the split bucket** (the `for` loop of `split_bucket`): starting from
two buckets that hold, besides free slots, only live nodes already re-added (`P`), re-adding the
remaining nodes `R` fills free slots only — no split, no eviction — and every live node of `R`
ends up in one of the two buckets. -/
theorem split_fold (fuel : Nat) (self : Bytes) (routers : List Addr) (pre : List Bucket) (now : Nat) :
    ∀ (R P : List Node) (b1 b2 : Bucket),
      (∀ m ∈ R, LastOk self routers pre.length m) →
      HandlesOk (P ++ R) →
      P.length + R.length ≤ Constants.MAX_BUCKET_SIZE →
      b1.nodes.length = Constants.MAX_BUCKET_SIZE → b2.nodes.length = Constants.MAX_BUCKET_SIZE →
      (∀ x ∈ b1.nodes ++ b2.nodes, x.lastResponse = none ∨ x ∈ P) →
      (b1.nodes ++ b2.nodes).countP (liveB now) ≤ P.length →
      ∃ b1' b2' : Bucket,
        R.foldl (fun acc m => Table.addNodeF fuel acc m now) ⟨self, pre ++ [b1, b2], routers⟩
          = ⟨self, pre ++ [b1', b2'], routers⟩ ∧
        b1'.nodes.length = Constants.MAX_BUCKET_SIZE ∧ b2'.nodes.length = Constants.MAX_BUCKET_SIZE ∧
        (∀ x ∈ b1.nodes ++ b2.nodes, x.status now ≠ .bad → x ∈ b1'.nodes ++ b2'.nodes) ∧
        (∀ m ∈ R, m.status now ≠ .bad → m ∈ b1'.nodes ++ b2'.nodes) ∧
        (∀ x ∈ b1'.nodes ++ b2'.nodes, x.lastResponse = none ∨ x ∈ P ++ R) := by
  intro R
  induction R with
  | nil =>
    intro P b1 b2 _ _ _ h1 h2 hin _
    exact ⟨b1, b2, rfl, h1, h2, fun x hx _ => hx, fun m hm => absurd hm (List.not_mem_nil),
      fun x hx => by simpa using hin x hx⟩
  | cons m R ih =>
    intro P b1 b2 hR hH hlen h1 h2 hin hcnt
    simp only [List.foldl_cons]
    have hRtail : ∀ x ∈ R, LastOk self routers pre.length x := fun x hx => hR x (List.mem_cons_of_mem _ hx)
    have hH' : HandlesOk ((P ++ [m]) ++ R) := by simpa using hH
    have hlen' : (P ++ [m]).length + R.length ≤ Constants.MAX_BUCKET_SIZE := by
      simp only [List.length_append, List.length_cons, List.length_nil] at hlen ⊢; omega
    by_cases hlive : m.status now = .bad
    · -- a bad node is not re-added
      have hstep : Table.addNodeF fuel ⟨self, pre ++ [b1, b2], routers⟩ m now = ⟨self, pre ++ [b1, b2], routers⟩ := by
        rw [Table.addNodeF.eq_1]
        simp only [hlive, if_true]
        split <;> rfl
      rw [hstep]
      obtain ⟨b1', b2', e, l1, l2, k1, k2, k3⟩ := ih (P ++ [m]) b1 b2 hRtail hH' hlen' h1 h2
        (fun x hx => by
          rcases hin x hx with h | h
          · exact Or.inl h
          · exact Or.inr (List.mem_append_left _ h))
        (by simp only [List.length_append, List.length_cons, List.length_nil]; omega)
      refine ⟨b1', b2', e, l1, l2, k1, ?_, fun x hx => by simpa using k3 x hx⟩
      intro x hx hxl
      rcases List.mem_cons.mp hx with rfl | hx'
      · exact absurd hlive hxl
      · exact k2 x hx' hxl
    · -- a live node takes a free slot of one of the two buckets
      have hmok : lcp self m.handle.id ≠ maxBuckets ∧ routers.contains m.handle.addr = false ∧
          pre.length ≤ lcp self m.handle.id := by
        rcases hR m (List.mem_cons_self) with hn | h
        · exact absurd (status_bad_of_none m now hn) hlive
        · exact h
      obtain ⟨hk160, hrt, hkge⟩ := hmok
      -- no live slot of the two buckets carries m's handle
      have hsame : ∀ x ∈ b1.nodes ++ b2.nodes, x.handle = m.handle → x.status now = .bad := by
        intro x hx hxe
        rcases hin x hx with h | h
        · exact status_bad_of_none x now h
        · exfalso
          unfold HandlesOk at hH
          rw [List.pairwise_append] at hH
          have := hH.2.2 x h m (List.mem_cons_self) hxe
          exact hlive (status_bad_of_none m now this)
      have hPlen : P.length < Constants.MAX_BUCKET_SIZE := by
        simp only [List.length_cons] at hlen; omega
      have hc1 : b1.nodes.countP (liveB now) ≤ P.length := by
        rw [List.countP_append] at hcnt; omega
      have hc2 : b2.nodes.countP (liveB now) ≤ P.length := by
        rw [List.countP_append] at hcnt; omega
      have hlenT : (pre ++ [b1, b2]).length = pre.length + 2 := by simp
      -- which of the two buckets
      by_cases hwhich : lcp self m.handle.id ≥ pre.length + 2 ∨ lcp self m.handle.id = pre.length + 1
      · -- second (last) bucket
        have hidx : bucketPlacement (lcp self m.handle.id) (pre.length + 2) = pre.length + 1 := by
          unfold bucketPlacement
          rcases hwhich with h | h
          · rw [if_pos h]; omega
          · rw [if_neg (by omega)]; exact h
        obtain ⟨i, hi, hbad, hres⟩ := addNode_free b2 m now hlive
          (fun x hx => hsame x (List.mem_append_right _ hx))
          (exists_bad_of_count b2.nodes now P.length hc2 (by rw [h2]; exact hPlen))
        have hget : (pre ++ [b1, b2])[pre.length + 1]? = some b2 := by
          rw [List.getElem?_append_right (by omega)]; simp
        have hstep : Table.addNodeF fuel ⟨self, pre ++ [b1, b2], routers⟩ m now =
            ⟨self, pre ++ [b1, { nodes := b2.nodes.set i m }], routers⟩ := by
          rw [Table.addNodeF.eq_1]
          simp only [hrt, hlive, hk160, Bool.false_eq_true, if_false]
          rw [bucketNodeF_ok fuel _ m _ now b2 (by simp only [hlenT, hidx]; exact hget) (by rw [hres])]
          simp only [hlenT, hidx, hres]
          rw [List.set_append_right _ _ (by omega)]
          simp
        rw [hstep]
        obtain ⟨b1', b2', e, l1, l2, k1, k2, k3⟩ := ih (P ++ [m]) b1 { nodes := b2.nodes.set i m } hRtail hH' hlen' h1
          (by simp only [List.length_set]; exact h2)
          (fun x hx => by
            simp only [List.mem_append] at hx
            rcases hx with hx | hx
            · rcases hin x (List.mem_append_left _ hx) with h | h
              · exact Or.inl h
              · exact Or.inr (List.mem_append_left _ h)
            · rcases List.mem_or_eq_of_mem_set hx with hx | rfl
              · rcases hin x (List.mem_append_right _ hx) with h | h
                · exact Or.inl h
                · exact Or.inr (List.mem_append_left _ h)
              · exact Or.inr (by simp))
          (by
            rw [List.countP_append] at hcnt ⊢
            have := count_set_bad b2.nodes now i m hi hbad
            simp only [List.length_append, List.length_cons, List.length_nil]; omega)
        refine ⟨b1', b2', e, l1, l2, ?_, ?_, fun x hx => by simpa using k3 x hx⟩
        · intro x hx hxl
          apply k1 x _ hxl
          simp only [List.mem_append] at hx ⊢
          rcases hx with hx | hx
          · exact Or.inl hx
          · right
            rw [List.mem_iff_getElem] at hx
            obtain ⟨j, hj, rfl⟩ := hx
            by_cases hij : i = j
            · subst hij; exact absurd hbad hxl
            · rw [List.mem_iff_getElem]
              exact ⟨j, by simpa using hj, by rw [List.getElem_set_ne hij]⟩
        · intro x hx hxl
          rcases List.mem_cons.mp hx with rfl | hx'
          · apply k1 x _ hxl
            simp only [List.mem_append]
            right; exact List.mem_set hi _
          · exact k2 x hx' hxl
      · -- first of the two buckets
        have hkeq : lcp self m.handle.id = pre.length := by omega
        have hidx : bucketPlacement (lcp self m.handle.id) (pre.length + 2) = pre.length := by
          unfold bucketPlacement
          rw [if_neg (by omega)]; exact hkeq
        obtain ⟨i, hi, hbad, hres⟩ := addNode_free b1 m now hlive
          (fun x hx => hsame x (List.mem_append_left _ hx))
          (exists_bad_of_count b1.nodes now P.length hc1 (by rw [h1]; exact hPlen))
        have hget : (pre ++ [b1, b2])[pre.length]? = some b1 := by
          rw [List.getElem?_append_right (by omega)]; simp
        have hstep : Table.addNodeF fuel ⟨self, pre ++ [b1, b2], routers⟩ m now =
            ⟨self, pre ++ [{ nodes := b1.nodes.set i m }, b2], routers⟩ := by
          rw [Table.addNodeF.eq_1]
          simp only [hrt, hlive, hk160, Bool.false_eq_true, if_false]
          rw [bucketNodeF_ok fuel _ m _ now b1 (by simp only [hlenT, hidx]; exact hget) (by rw [hres])]
          simp only [hlenT, hidx, hres]
          rw [List.set_append_right _ _ (by omega)]
          simp
        rw [hstep]
        obtain ⟨b1', b2', e, l1, l2, k1, k2, k3⟩ := ih (P ++ [m]) { nodes := b1.nodes.set i m } b2 hRtail hH' hlen'
          (by simp only [List.length_set]; exact h1) h2
          (fun x hx => by
            simp only [List.mem_append] at hx
            rcases hx with hx | hx
            · rcases List.mem_or_eq_of_mem_set hx with hx | rfl
              · rcases hin x (List.mem_append_left _ hx) with h | h
                · exact Or.inl h
                · exact Or.inr (List.mem_append_left _ h)
              · exact Or.inr (by simp)
            · rcases hin x (List.mem_append_right _ hx) with h | h
              · exact Or.inl h
              · exact Or.inr (List.mem_append_left _ h))
          (by
            rw [List.countP_append] at hcnt ⊢
            have := count_set_bad b1.nodes now i m hi hbad
            simp only [List.length_append, List.length_cons, List.length_nil]; omega)
        refine ⟨b1', b2', e, l1, l2, ?_, ?_, fun x hx => by simpa using k3 x hx⟩
        · intro x hx hxl
          apply k1 x _ hxl
          simp only [List.mem_append] at hx ⊢
          rcases hx with hx | hx
          · left
            rw [List.mem_iff_getElem] at hx
            obtain ⟨j, hj, rfl⟩ := hx
            by_cases hij : i = j
            · subst hij; exact absurd hbad hxl
            · rw [List.mem_iff_getElem]
              exact ⟨j, by simpa using hj, by rw [List.getElem_set_ne hij]⟩
          · exact Or.inr hx
        · intro x hx hxl
          rcases List.mem_cons.mp hx with rfl | hx'
          · apply k1 x _ hxl
            simp only [List.mem_append]
            left; exact List.mem_set hi _
          · exact k2 x hx' hxl

theorem mem_allNodes (t : Table) (m : Node) : m ∈ t.allNodes ↔ ∃ b ∈ t.buckets, m ∈ b.nodes := by
  simp [Table.allNodes, List.mem_flatMap]

/-- **`split_bucket` loses no live node**: the table after the split and the re-adding loop is the
old one with its last bucket replaced by two buckets that together hold every node of the old last
bucket that is live at `now`, and otherwise nothing but old slots and placeholders. -/
theorem split_step (fuel : Nat) (t : Table) (now : Nat) (ht : TInv t) :
    ∃ b1 b2 : Bucket,
      (t.buckets.getLast?.getD Bucket.new).nodes.foldl (fun acc m => Table.addNodeF fuel acc m now)
          { t with buckets := t.buckets.dropLast ++ [Bucket.new, Bucket.new] }
        = { t with buckets := t.buckets.dropLast ++ [b1, b2] } ∧
      Lossless t { t with buckets := t.buckets.dropLast ++ [b1, b2] } now ∧
      NoNew t { t with buckets := t.buckets.dropLast ++ [b1, b2] } := by
  have hne : t.buckets ≠ [] := by
    intro h; have := ht.len_pos; rw [h] at this; simp at this
  have hsplit := List.dropLast_concat_getLast hne
  have hlast : t.buckets.getLast?.getD Bucket.new = t.buckets.getLast hne := by
    rw [List.getLast?_eq_some_getLast hne]; rfl
  have hmem : t.buckets.getLast hne ∈ t.buckets := List.getLast_mem hne
  have hlen : t.buckets.dropLast.length = t.buckets.length - 1 := by simp
  have hidx : t.buckets.length - 1 < t.buckets.length := by have := ht.len_pos; omega
  have hget : t.buckets[t.buckets.length - 1]'hidx = t.buckets.getLast hne := by
    rw [List.getLast_eq_getElem]
  rw [hlast]
  obtain ⟨b1, b2, e, _, _, _, k2, k3⟩ := split_fold fuel t.selfId t.routers t.buckets.dropLast now
    (t.buckets.getLast hne).nodes [] Bucket.new Bucket.new
    (fun m hm => by
      rcases ht.placed (t.buckets.length - 1) hidx m (by rw [hget]; exact hm) with h | ⟨h1, h2, h3⟩
      · exact Or.inl h
      · refine Or.inr ⟨h1, h2, ?_⟩
        rw [hlen]
        exact h3.2 (by omega))
    (by simpa using ht.handles _ hmem)
    (by simp only [List.length_nil, Nat.zero_add]; exact Nat.le_of_eq (ht.slots _ hmem))
    bucketNew_len bucketNew_len
    (fun x hx => by
      simp only [List.mem_append, or_self] at hx
      exact Or.inl (bucketNew_dead x hx))
    (by
      simp only [List.length_nil, Nat.le_zero_eq, List.countP_eq_zero]
      intro a ha
      simp only [List.mem_append, or_self] at ha
      simp [liveB, status_bad_of_none a now (bucketNew_dead a ha)])
  refine ⟨b1, b2, e, ?_, ?_⟩
  · intro m hm hl
    rw [mem_allNodes] at hm ⊢
    obtain ⟨b, hb, hmb⟩ := hm
    rw [← hsplit] at hb
    simp only [List.mem_append, List.mem_singleton] at hb
    rcases hb with hb | rfl
    · exact ⟨b, by simp [hb], hmb⟩
    · have := k2 m hmb hl
      simp only [List.mem_append] at this
      rcases this with h | h
      · exact ⟨b1, by simp, h⟩
      · exact ⟨b2, by simp, h⟩
  · intro m hm
    rw [mem_allNodes] at hm
    obtain ⟨b, hb, hmb⟩ := hm
    simp only [List.mem_append, List.mem_cons, List.not_mem_nil, or_false] at hb
    have hfrom : m ∈ b1.nodes ++ b2.nodes → m ∈ t.allNodes ∨ m.lastResponse = none := by
      intro h
      rcases k3 m h with h | h
      · exact Or.inr h
      · left
        rw [mem_allNodes]
        exact ⟨_, hmem, by simpa using h⟩
    rcases hb with hb | rfl | rfl
    · left; rw [mem_allNodes]; exact ⟨b, List.dropLast_subset _ hb, hmb⟩
    · exact hfrom (List.mem_append_left _ hmb)
    · exact hfrom (List.mem_append_right _ hmb)

/-- the description of one `bucket_node` call: the table `tm` reached after the splits, and the
single bucket-level `add_node` that follows -/
structure OfferShape (t : Table) (n : Node) (k now : Nat) (res : Table) (tm : Table) (b : Bucket) : Prop where
  inv : TInv tm
  env : SameEnv t tm
  lossless : Lossless t tm now
  noNew : NoNew t tm
  others : t.buckets.dropLast <+: tm.buckets
  grows : t.buckets.length ≤ tm.buckets.length
  bucket : tm.buckets[bucketPlacement k tm.buckets.length]? = some b
  result : res = { tm with buckets := tm.buckets.set (bucketPlacement k tm.buckets.length) (b.addNode n now).1 }
  /-- a split happened only because the placement bucket of `t` refused the node -/
  split_only_if_full : tm.buckets.length ≠ t.buckets.length →
    ∃ b0, t.buckets[bucketPlacement k t.buckets.length]? = some b0 ∧ (b0.addNode n now).2 = false ∧
      canSplitBucket t.buckets.length (bucketPlacement k t.buckets.length) = true
  /-- if the node is refused in the end, the placement bucket may not be split any further -/
  final : (b.addNode n now).2 = false → canSplitBucket tm.buckets.length (bucketPlacement k tm.buckets.length) = false

theorem addNode_false_fst (b : Bucket) (n : Node) (now : Nat) (h : (b.addNode n now).2 = false) :
    (b.addNode n now).1 = b := by
  have ho := addNode_outcome b n now
  generalize b.addNode n now = r at ho h
  cases ho <;> simp_all

theorem table_set_self (t : Table) (i : Nat) (b : Bucket) (h : t.buckets[i]? = some b) :
    { t with buckets := t.buckets.set i b } = t := by
  obtain ⟨hi, hb⟩ := List.getElem?_eq_some_iff.mp h
  have : t.buckets.set i b = t.buckets := by rw [← hb]; exact List.set_getElem_self hi
  rw [this]

theorem bucketNodeF_shape : ∀ (fuel : Nat) (t : Table) (n : Node) (k now : Nat), TInv t →
    k = lcp t.selfId n.handle.id → k ≠ maxBuckets → t.routers.contains n.handle.addr = false →
    maxBuckets ≤ fuel + t.buckets.length →
    ∃ tm b, OfferShape t n k now (Table.addNodeF.bucketNodeF fuel t n k now) tm b := by
  intro fuel
  induction fuel with
  | zero =>
    intro t n k now ht hk hk160 hr hfuel
    obtain ⟨_, hidx⟩ := placed_bucketPlacement t.buckets.length k ht.len_pos
    have hb : t.buckets[bucketPlacement k t.buckets.length]? = some (t.buckets[bucketPlacement k t.buckets.length]'hidx) :=
      List.getElem?_eq_getElem hidx
    generalize t.buckets[bucketPlacement k t.buckets.length]'hidx = b at hb
    have hns : canSplitBucket t.buckets.length (bucketPlacement k t.buckets.length) = false := by
      have h1 := ht.len_le
      have : t.buckets.length = maxBuckets := by omega
      simp only [canSplitBucket, this, Bool.and_eq_false_iff, decide_eq_false_iff_not]
      by_cases hc : bucketPlacement k maxBuckets = maxBuckets - 1
      · right; simp [hc]
      · left; exact hc
    refine ⟨t, b, ht, sameEnv_refl t, lossless_refl t now, noNew_refl t, List.dropLast_prefix _, Nat.le_refl _, hb, ?_,
      fun h => absurd rfl h, fun _ => hns⟩
    by_cases hok : (b.addNode n now).2 = true
    · exact bucketNodeF_ok 0 t n k now b hb hok
    · have hok' : (b.addNode n now).2 = false := by simpa using hok
      rw [bucketNodeF_nosplit 0 t n k now b hb hok' hns]
      rw [addNode_false_fst b n now hok', table_set_self t _ b hb]
  | succ fuel ih =>
    intro t n k now ht hk hk160 hr hfuel
    obtain ⟨_, hidx⟩ := placed_bucketPlacement t.buckets.length k ht.len_pos
    have hb : t.buckets[bucketPlacement k t.buckets.length]? = some (t.buckets[bucketPlacement k t.buckets.length]'hidx) :=
      List.getElem?_eq_getElem hidx
    generalize t.buckets[bucketPlacement k t.buckets.length]'hidx = b at hb
    by_cases hok : (b.addNode n now).2 = true
    · exact ⟨t, b, ht, sameEnv_refl t, lossless_refl t now, noNew_refl t, List.dropLast_prefix _, Nat.le_refl _, hb,
        bucketNodeF_ok _ t n k now b hb hok, fun h => absurd rfl h, fun h => by rw [h] at hok; exact absurd hok (by decide)⟩
    · have hok' : (b.addNode n now).2 = false := by simpa using hok
      by_cases hsplit : canSplitBucket t.buckets.length (bucketPlacement k t.buckets.length) = true
      · -- split, re-add, retry
        have hs : t.buckets.length - 1 ≠ maxBuckets - 1 := by
          simp only [canSplitBucket, Bool.and_eq_true, decide_eq_true_eq, ne_eq] at hsplit
          intro hc; exact hsplit.2 (hsplit.1.trans hc)
        obtain ⟨b1, b2, e, hl, hnn⟩ := split_step fuel t now ht
        have hstep : Table.addNodeF.bucketNodeF (fuel + 1) t n k now =
            Table.addNodeF.bucketNodeF fuel { t with buckets := t.buckets.dropLast ++ [b1, b2] } n k now := by
          rw [Table.addNodeF.bucketNodeF.eq_2]
          cases hres : b.addNode n now with
          | mk b' ok =>
            rw [hres] at hok'
            simp only at hok'
            simp only [hb, hres, hok', hsplit, Bool.false_eq_true, if_false, if_true]
            rw [e]
        -- invariant of the split table
        have ht1 := tinv_split t ht hs
        obtain ⟨ht2, _⟩ := foldl_inv (fun acc m => Table.addNodeF fuel acc m now)
          (fun t m h => (tinv_addNodeF fuel).1 t m now h) (t.buckets.getLast?.getD Bucket.new).nodes _ ht1
        rw [e] at ht2
        have hlen2 : (t.buckets.dropLast ++ [b1, b2]).length = t.buckets.length + 1 := by
          have := ht.len_pos; simp; omega
        obtain ⟨tm, bm, sh⟩ := ih { t with buckets := t.buckets.dropLast ++ [b1, b2] } n k now ht2 hk hk160 hr
          (by simp only [hlen2]; omega)
        refine ⟨tm, bm, sh.inv, sameEnv_trans (⟨rfl, rfl⟩ : SameEnv t _) sh.env, lossless_trans hl sh.lossless,
          noNew_trans hnn sh.noNew, ?_, ?_, sh.bucket, by rw [hstep]; exact sh.result,
          fun _ => ⟨b, hb, hok', hsplit⟩, sh.final⟩
        · refine List.IsPrefix.trans ?_ sh.others
          simp only
          have : (t.buckets.dropLast ++ [b1, b2]).dropLast = t.buckets.dropLast ++ [b1] := by
            rw [show t.buckets.dropLast ++ [b1, b2] = (t.buckets.dropLast ++ [b1]) ++ [b2] by simp]
            exact List.dropLast_concat
          rw [this]
          exact List.prefix_append _ _
        · have := sh.grows
          simp only [hlen2] at this
          omega
      · have hns : canSplitBucket t.buckets.length (bucketPlacement k t.buckets.length) = false := by simpa using hsplit
        refine ⟨t, b, ht, sameEnv_refl t, lossless_refl t now, noNew_refl t, List.dropLast_prefix _, Nat.le_refl _, hb, ?_,
          fun h => absurd rfl h, fun _ => hns⟩
        rw [bucketNodeF_nosplit _ t n k now b hb hok' hns]
        rw [addNode_false_fst b n now hok', table_set_self t _ b hb]

/-- one bucket-level offer keeps every live node with another handle, except possibly one victim
of strictly lower standing, taken only from a bucket without any free/bad slot -/
theorem addNode_keeps (b : Bucket) (n : Node) (now : Nat) :
    ∃ victim : Option Node,
      (∀ m ∈ b.nodes, m.status now ≠ .bad → m.handle ≠ n.handle →
        m ∈ (b.addNode n now).1.nodes ∨ victim = some m) ∧
      (∀ v, victim = some v → v ∈ b.nodes ∧ v.status now < n.status now ∧ ∀ x ∈ b.nodes, x.status now ≠ .bad) := by
  have ho := addNode_outcome b n now
  generalize b.addNode n now = r at ho
  cases ho with
  | offeredBad _ => exact ⟨none, fun m hm _ _ => Or.inl hm, fun v hv => by simp at hv⟩
  | rejected _ _ _ _ => exact ⟨none, fun m hm _ _ => Or.inl hm, fun v hv => by simp at hv⟩
  | updated i hi _ heq _ =>
    refine ⟨none, fun m hm _ hne => Or.inl ?_, fun v hv => by simp at hv⟩
    rw [List.mem_iff_getElem] at hm ⊢
    obtain ⟨j, hj, rfl⟩ := hm
    have hij : i ≠ j := by rintro rfl; exact hne heq
    exact ⟨j, by simpa using hj, by simp [List.getElem_modify, hij]⟩
  | tookFree i hi _ _ hbad =>
    refine ⟨none, fun m hm hl _ => Or.inl ?_, fun v hv => by simp at hv⟩
    rw [List.mem_iff_getElem] at hm ⊢
    obtain ⟨j, hj, rfl⟩ := hm
    have hij : i ≠ j := by rintro rfl; exact hl hbad
    exact ⟨j, by simpa using hj, by simp [List.getElem_set_ne hij]⟩
  | evicted i hi _ _ hnobad hlt =>
    refine ⟨some b.nodes[i], fun m hm _ _ => ?_, fun v hv => ?_⟩
    · rw [List.mem_iff_getElem] at hm
      obtain ⟨j, hj, rfl⟩ := hm
      by_cases hij : i = j
      · subst hij; exact Or.inr rfl
      · left
        rw [List.mem_iff_getElem]
        exact ⟨j, by simpa using hj, by simp [List.getElem_set_ne hij]⟩
    · simp only [Option.some.injEq] at hv
      subst hv
      exact ⟨List.getElem_mem hi, hlt, hnobad⟩

theorem mem_allNodes_set (t : Table) (i : Nat) (b b' : Bucket) (hb : t.buckets[i]? = some b) (m : Node)
    (hm : m ∈ t.allNodes) (hkeep : m ∈ b.nodes → m ∈ b'.nodes) :
    m ∈ ({ t with buckets := t.buckets.set i b' } : Table).allNodes := by
  rw [mem_allNodes] at hm ⊢
  obtain ⟨c, hc, hmc⟩ := hm
  obtain ⟨hi, hbe⟩ := List.getElem?_eq_some_iff.mp hb
  rw [List.mem_iff_getElem] at hc
  obtain ⟨j, hj, rfl⟩ := hc
  by_cases hij : i = j
  · subst hij
    rw [hbe] at hmc
    exact ⟨b', List.mem_set hi _, hkeep hmc⟩
  · refine ⟨t.buckets[j], ?_, hmc⟩
    rw [List.mem_iff_getElem]
    exact ⟨j, by simpa using hj, by simp [List.getElem_set_ne hij]⟩

end Btdht
