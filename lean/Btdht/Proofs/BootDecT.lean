import Btdht.Proofs.BootDec
import Btdht.Proofs.BootTrace
/-
C15 timed clause, part 12: executable form of the trace-level responsiveness hypothesis.
-/
namespace Btdht

def respStepTB (c : Addr) (t0 : Nat) (o : List Nat) (s : DState) (i : DInput) : Bool :=
  o.all (fun u => decide (max i.t s.clock < u + Constants.INITIAL_TIMEOUT_ns)) &&
  (s.stepIn i).2.all (respEvB c t0 (max i.t s.clock)) &&
  (!decide (t0 < max i.t s.clock) || i.ops.all (respOpB c))

theorem respStepTB_sound (c : Addr) (t0 : Nat) (o : List Nat) (s : DState) (i : DInput) (h : respStepTB c t0 o s i = true) :
    RespStepT c t0 o s i := by
  unfold respStepTB at h
  simp only [Bool.and_eq_true, List.all_eq_true] at h
  obtain ⟨⟨h1, h2⟩, h3⟩ := h
  refine ⟨fun u hu => by simpa using h1 u hu, ?_, ?_⟩
  · intro e he tid id ok heq ht
    have := h2 e he
    unfold respEvB at this
    rw [heq] at this
    simp only [decide_true, Bool.true_and, ht, Bool.not_true, Bool.false_or, Bool.and_eq_true, decide_eq_true_eq] at this
    exact this
  · intro ht tid body hm code msg hb
    subst hb
    rcases (Bool.or_eq_true _ _).mp h3 with h3 | h3
    · simp [ht] at h3
    · have := (List.all_eq_true.mp h3) _ hm
      simp [respOpB] at this

def respRunTB (c : Addr) (t0 : Nat) : List Nat → DState → List DInput → Bool
  | _, _, [] => true
  | o, s, i :: rest => respStepTB c t0 o s i && respRunTB c t0 (scanS (owedScan c t0) o (s.stepIn i).2) (s.stepIn i).1 rest

theorem respRunTB_sound (c : Addr) (t0 : Nat) (ins : List DInput) : ∀ o s, respRunTB c t0 o s ins = true → RespRunT c t0 o s ins := by
  induction ins with
  | nil => intro _ _ _; trivial
  | cons i rest ih =>
    intro o s h
    simp only [respRunTB, Bool.and_eq_true] at h
    exact ⟨respStepTB_sound c t0 o s i h.1, ih _ _ h.2⟩

end Btdht
