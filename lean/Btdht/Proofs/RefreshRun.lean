import Btdht.Proofs.RefreshStep
/-!
C11 helpers, part 5: the rounds of a run, their number against elapsed time (from the cadence
bound), and the fairness pigeonhole transported to runs.
-/
namespace Btdht

/-- the target of the next refresh round -/
def HState.roundTarget (s : HState) : Bytes :=
  flipBit s.selfId (if s.refreshBucket = maxBuckets then 0 else s.refreshBucket)

/-- the refresh rounds of a run: table just before the round, target, instant -/
def roundsOf (s : HState) : List (NOp × Nat) → List (Table × Bytes × Nat)
  | [] => []
  | (op, now) :: rest =>
    (if s.isRound op then [(s.table, s.roundTarget, now)] else []) ++ roundsOf (s.nstep op now) rest

theorem roundsOf_append (s : HState) (a b : List (NOp × Nat)) :
    roundsOf s (a ++ b) = roundsOf s a ++ roundsOf (s.nrun a) b := by
  induction a generalizing s with
  | nil => rfl
  | cons x a ih =>
    obtain ⟨op, now⟩ := x
    simp only [List.cons_append, roundsOf, HState.nrun, ih, List.append_assoc]

/-- the table after a round step is the table-level round applied to the table before it -/
theorem round_table (s : HState) (op : NOp) (now : Nat) (h : s.isRound op = true) :
    (s.nstep op now).table = s.table.afterRound s.roundTarget now := by
  cases op with
  | kick => exact refresh_table s now
  | wAnswer _ _ => simp [HState.isRound] at h
  | wQuery _ => simp [HState.isRound] at h
  | h hop =>
    cases hop with
    | start _ _ => simp [HState.isRound] at h
    | incoming _ _ _ => simp [HState.isRound] at h
    | fire =>
      simp only [HState.isRound] at h
      show (s.fireTimer now).1.table = _
      unfold HState.fireTimer
      cases hp : s.timer.pop with
      | none => simp [hp] at h
      | some pe =>
        obtain ⟨timer, e⟩ := pe
        simp only [hp, decide_eq_true_eq] at h
        simp only [h, HState.handleTask]
        exact refresh_table { s with timer := timer } now

/-- the first round starts from a table reached from `t` under the rely; then `Linked` -/
def LinkedFrom (C : List Handle) (τ : Nat) : Table → List (Table × Bytes × Nat) → Prop
  | _, [] => True
  | t, r :: w => Rely C τ t r.1 ∧ LinkedFrom C τ (r.1.afterRound r.2.1 r.2.2) w

theorem LinkedFrom.linked {C : List Handle} {τ : Nat} : ∀ {t : Table} {w : List (Table × Bytes × Nat)},
    LinkedFrom C τ t w → Linked C τ w
  | _, [], _ => trivial
  | _, [_], _ => trivial
  | _, _ :: r' :: rest, h => ⟨h.2.1, LinkedFrom.linked (w := r' :: rest) h.2⟩

theorem LinkedFrom.rely {C : List Handle} {τ : Nat} {t t' : Table} {w : List (Table × Bytes × Nat)}
    (h : LinkedFrom C τ t w) (hr : Rely C τ t' t) : LinkedFrom C τ t' w := by
  cases w with
  | nil => trivial
  | cons r w => exact ⟨hr.trans h.1, h.2⟩

/-- every step that is not a round satisfies the rely (hypothesis, discharged by `nstep_rely` for
the steps that name no handle of `C`) ⇒ the rounds of the run are linked -/
theorem roundsOf_linked (C : List Handle) (τ : Nat) : ∀ (ops : List (NOp × Nat)) (s : HState),
    (∀ pre op now post, ops = pre ++ (op, now) :: post → (s.nrun pre).isRound op = false →
      Rely C τ (s.nrun pre).table ((s.nrun pre).nstep op now).table) →
    LinkedFrom C τ s.table (roundsOf s ops)
  | [], _, _ => trivial
  | (op, now) :: rest, s, hstep => by
    have ih := roundsOf_linked C τ rest (s.nstep op now)
      (fun pre op' now' post he hr => hstep ((op, now) :: pre) op' now' post (by rw [he]; rfl) hr)
    cases hr : s.isRound op with
    | true =>
      simp only [roundsOf, hr, if_true, List.singleton_append]
      refine ⟨Rely.refl _ _ _, ?_⟩
      rw [← round_table s op now hr]
      exact ih
    | false =>
      simp only [roundsOf, hr, Bool.false_eq_true, if_false, List.nil_append]
      exact ih.rely (hstep [] op now rest rfl hr)

/-- **the rely holds for every step that names no handle of `C`** (table invariant, clock ≥ 15 min) -/
theorem nstep_rely (s : HState) (op : NOp) (now : Nat) (C : List Handle) (τ : Nat) (ht : TInv s.table) (hle : τ ≤ now)
    (hnow : 900000000000 ≤ now) (hC : ∀ h ∈ C, h ∉ op.named s) : Rely C τ s.table (s.nstep op now).table :=
  (nstep_tev s op now).rely ht τ hle hnow C (fun h hc hm => hC h hc (marks_hearsay op s h hm))

theorem roundsOf_times (J : Nat) : ∀ (ops : List (NOp × Nat)) (s : HState) (t0 : Nat), NRun J s t0 ops →
    ∀ r ∈ roundsOf s ops, t0 ≤ r.2.2 ∧ r.2.2 ≤ lastTime t0 ops
  | [], _, _, _, r, hr => by simp [roundsOf] at hr
  | (op, now) :: rest, s, t0, hrun, r, hr => by
    obtain ⟨h1, _, _, h4⟩ := hrun
    simp only [roundsOf, List.mem_append] at hr
    rcases hr with hr | hr
    · split at hr
      · simp only [List.mem_singleton] at hr
        subst hr
        exact ⟨h1, lastTime_le J _ now rest h4⟩
      · simp at hr
    · obtain ⟨a, b⟩ := roundsOf_times J rest _ now h4 r hr
      exact ⟨Nat.le_trans h1 a, b⟩

theorem roundsOf_tinv : ∀ (ops : List (NOp × Nat)) (s : HState), TInv s.table →
    ∀ r ∈ roundsOf s ops, TInv r.1 ∧ r.1.selfId = s.table.selfId
  | [], _, _, r, hr => by simp [roundsOf] at hr
  | (op, now) :: rest, s, ht, r, hr => by
    simp only [roundsOf, List.mem_append] at hr
    rcases hr with hr | hr
    · split at hr
      · simp only [List.mem_singleton] at hr
        subst hr
        exact ⟨ht, rfl⟩
      · simp at hr
    · obtain ⟨h1, e1⟩ := nstep_tinv s op now ht
      obtain ⟨a, b⟩ := roundsOf_tinv rest _ h1 r hr
      exact ⟨a, b.trans e1.1⟩

/-- **number of rounds against elapsed time**: with the latest round at `lr` and the run starting
no later than `lr + 6 s + J`, `k` rounds later every step still happens by `lr + (k + 1)·(6 s + J)` -/
theorem rounds_time (J : Nat) : ∀ (ops : List (NOp × Nat)) (g : Nat → Nat × Nat) (s : HState) (lr t0 : Nat),
    HDl J g s → ChainInv s (some lr) → NRun J s t0 ops → t0 ≤ lr + (sixS + J) →
    lastTime t0 ops ≤ lr + ((roundsOf s ops).length + 1) * (sixS + J)
  | [], _, _, lr, t0, _, _, _, h0 => by simp only [roundsOf, lastTime, List.length_nil]; omega
  | (op, now) :: rest, g, s, lr, t0, h, hc, hrun, _ => by
    obtain ⟨_, hp, hk, h4⟩ := hrun
    have hb := chain_bound J s lr now hc hp
    have h' := nstep_dl J g s op now h hp
    have hc' := nstep_chain J g s (some lr) op now h hc hp hk
    cases hr : s.isRound op with
    | true =>
      simp only [lrStep, hr, if_true] at hc'
      have ih := rounds_time J rest _ _ now now h' hc' h4 (by omega)
      simp only [roundsOf, hr, if_true, List.singleton_append, List.length_cons, lastTime]
      have e : (roundsOf (s.nstep op now) rest).length + 1 + 1 = ((roundsOf (s.nstep op now) rest).length + 1) + 1 := rfl
      rw [e, Nat.succ_mul]
      omega
    | false =>
      simp only [lrStep, hr, Bool.false_eq_true, if_false] at hc'
      have ih := rounds_time J rest _ _ lr now h' hc' h4 (by omega)
      simp only [roundsOf, hr, Bool.false_eq_true, if_false, List.nil_append, lastTime]
      exact ih

/-- at `(t, now)` the contact `X` is listed and eligible for a refresh ping, and every other
eligible contact is one of `C` -/
def Waits (X : Handle) (C : List Handle) (t : Table) (now : Nat) : Prop :=
  (∀ n ∈ t.allNodes, eligB now n = true → n.handle ≠ X → n.handle ∈ C) ∧
  ∃ n ∈ t.allNodes, n.handle = X ∧ eligB now n = true

/-- the rely of the steps of a run: proved for the steps naming no handle of `C`, assumed (`hhear`) for the others -/
theorem run_rely (J : Nat) (C : List Handle) (s : HState) (t0 : Nat) (ops : List (NOp × Nat)) (hrun : NRun J s t0 ops)
    (ht : TInv s.table) (h15 : 900000000000 ≤ t0)
    (hhear : ∀ pre op now post, ops = pre ++ (op, now) :: post → (∃ h ∈ C, h ∈ op.named (s.nrun pre)) →
      Rely C t0 (s.nrun pre).table ((s.nrun pre).nstep op now).table) :
    ∀ pre op now post, ops = pre ++ (op, now) :: post → Rely C t0 (s.nrun pre).table ((s.nrun pre).nstep op now).table := by
  intro pre op now post he
  by_cases hn : ∃ h ∈ C, h ∈ op.named (s.nrun pre)
  · exact hhear pre op now post he hn
  · subst he
    obtain ⟨h1, h2⟩ := nrun_split J s t0 pre _ hrun
    have hle : t0 ≤ now := Nat.le_trans (lastTime_le J s t0 pre h1) h2.1
    exact nstep_rely _ op now C t0 (nrun_tinv pre s ht).1 hle (Nat.le_trans h15 hle)
      (fun h hc hm => hn ⟨h, hc, hm⟩)

/-- **fairness of the picks along a run** that lies within 30 s: if `X` waits at every round and
fewer than `4 · (number of rounds)` other contacts are ever eligible, one of the rounds picks `X` -/
theorem run_pick_fair (J : Nat) (X : Handle) (C : List Handle) (s : HState) (t0 : Nat) (ops : List (NOp × Nat))
    (hrun : NRun J s t0 ops) (ht : TInv s.table) (hself : s.table.selfId.length = 20)
    (hwin : lastTime t0 ops < t0 + thirtyS)
    (hrely : ∀ pre op now post, ops = pre ++ (op, now) :: post →
      Rely C t0 (s.nrun pre).table ((s.nrun pre).nstep op now).table)
    (hw : ∀ r ∈ roundsOf s ops, Waits X C r.1 r.2.2)
    (hm : C.length < 4 * (roundsOf s ops).length) :
    ∃ r ∈ roundsOf s ops, X ∈ (r.1.refreshPicks r.2.1 r.2.2).map (·.handle) := by
  refine Classical.byContradiction fun hno => ?_
  have hall : ∀ r ∈ roundsOf s ops, RoundOk X C t0 r := by
    intro r hr
    obtain ⟨a, b⟩ := roundsOf_times J ops s t0 hrun r hr
    obtain ⟨c, d⟩ := roundsOf_tinv ops s ht r hr
    exact ⟨c, by rw [d]; exact hself, a, Nat.lt_of_le_of_lt b hwin, (hw r hr).1, (hw r hr).2,
      fun hx => hno ⟨r, hr, hx⟩⟩
  have hlink := (roundsOf_linked C t0 ops s (fun pre op now post he _ => hrely pre op now post he)).linked
  have := unpicked_rounds X C t0 (roundsOf s ops) [] List.nodup_nil (by simp) (by simp) hlink hall
  simp only [List.length_nil, Nat.zero_add] at this
  omega

/-- **a waiting contact is picked within `⌈(m+1)/4⌉` rounds, i.e. within `(m/4 + 1)·(6 s + J)`**: a
run within 30 s during which `X` waits at every round without ever being picked cannot last longer -/
theorem wait_bound (J : Nat) (g : Nat → Nat × Nat) (X : Handle) (C : List Handle) (s : HState) (lr t0 : Nat)
    (ops : List (NOp × Nat)) (hrun : NRun J s t0 ops) (hd : HDl J g s) (hc : ChainInv s (some lr))
    (h0 : t0 ≤ lr + (sixS + J)) (ht : TInv s.table) (hself : s.table.selfId.length = 20)
    (hwin : lastTime t0 ops < t0 + thirtyS)
    (hrely : ∀ pre op now post, ops = pre ++ (op, now) :: post →
      Rely C t0 (s.nrun pre).table ((s.nrun pre).nstep op now).table)
    (hw : ∀ r ∈ roundsOf s ops, Waits X C r.1 r.2.2)
    (hun : ∀ r ∈ roundsOf s ops, X ∉ (r.1.refreshPicks r.2.1 r.2.2).map (·.handle)) :
    lastTime t0 ops ≤ lr + (C.length / 4 + 1) * (sixS + J) := by
  have hcount : (roundsOf s ops).length ≤ C.length / 4 := by
    refine Classical.byContradiction fun hlt => ?_
    obtain ⟨r, hr, hx⟩ := run_pick_fair J X C s t0 ops hrun ht hself hwin hrely hw (by omega)
    exact hun r hr hx
  have := rounds_time J ops g s lr t0 hd hc hrun h0
  exact Nat.le_trans this (Nat.add_le_add_left (Nat.mul_le_mul_right _ (by omega)) _)

end Btdht
