import Btdht.Proofs.BootOb
/-
C15 timed clause, part 6: the progress invariant along a punctual run in which `c` is responsive.
-/
namespace Btdht

/-- the exchanges of the first round the worker awaits -/
def BPhase.firstRound : BPhase → List Pending
  | .initial _ _ _ _ _ a _ _ => a
  | _ => []

/-- **`c` is responsive after `t0`, in the step `i` taken from `s`** (which lasts until `max i.t s.clock`):
* a first-round query (`find_node` for the node's own id) sent to `c` after `t0` during this step
  does not fail to be sent, and the step does not last until its time-out (2.5 s after the send);
* the step does not last until the time-out of a first-round query to `c` that was sent after `t0`
  and is still unanswered when the step begins;
* `c` sends no KRPC error messages. -/
def RespStep (c : Addr) (t0 : Nat) (s : DState) (i : DInput) : Prop :=
  (∀ e ∈ (s.stepIn i).2, ∀ tid id ok, e.2 = .send c (.sym tid) (.req (.findNode id id none)) ok → t0 < e.1 →
      ok = true ∧ max i.t s.clock < e.1 + Constants.INITIAL_TIMEOUT_ns) ∧
  (∀ p ∈ s.phase.firstRound, p.addr = c → t0 + Constants.INITIAL_TIMEOUT_ns < p.deadline → max i.t s.clock < p.deadline) ∧
  (t0 < max i.t s.clock → ∀ tid body, .datagram tid body c ∈ i.ops → ∀ code msg, body ≠ .err code msg)

/-- ... in every step of the run -/
def RespRun (c : Addr) (t0 : Nat) : DState → List DInput → Prop
  | _, [] => True
  | s, i :: rest => RespStep c t0 s i ∧ RespRun c t0 (s.stepIn i).1 rest

theorem phaseOk_retime (P : LP) (T' : Nat) (s : DState) (h : PhaseOk P s)
    (hB : ∀ p ∈ s.phase.firstRound, p.addr = P.c → P.t0 + Constants.INITIAL_TIMEOUT_ns < p.deadline → T' < p.deadline) :
    PhaseOk { P with T := T' } s := by
  unfold PhaseOk at h ⊢
  cases hph : s.phase with
  | awaitStart => rw [hph] at h; exact h.elim
  | forever => rw [hph] at h; exact h.elim
  | sleeping w => rw [hph] at h; exact h
  | bootstrapped c => rw [hph] at h; exact h
  | bucketStart k => rw [hph] at h; exact h
  | buckets k a => rw [hph] at h; exact h
  | initial tid rl nl sl count active resp stopAt =>
    rw [hph] at h hB; dsimp only at h ⊢
    obtain ⟨hpb, hrl, hst, hnl, hslc, hre⟩ := h
    refine ⟨hpb, hrl, hst, hnl, hslc, ?_⟩
    rcases hre with ⟨hg, hre⟩ | hre
    · refine Or.inl ⟨⟨hg.1, ?_⟩, hre⟩
      rcases hg.2 with h | h | ⟨p, hp, h1, h2, h3⟩
      · exact Or.inl h
      · exact Or.inr (Or.inl h)
      · exact Or.inr (Or.inr ⟨p, hp, h1, hB p hp h1 h3, h3⟩)
    · exact Or.inr hre

theorem live_retime (P : LP) (T' : Nat) (s : DState) (g : Option Nat) (h : Live P s g) (hc : s.clock ≤ T')
    (hB : ∀ p ∈ s.phase.firstRound, p.addr = P.c → P.t0 + Constants.INITIAL_TIMEOUT_ns < p.deadline → T' < p.deadline) :
    Live { P with T := T' } s g :=
  ⟨h.noRouters, h.contacts, h.ver, hc, h.rdy, h.done, fun hg => phaseOk_retime P T' s (h.live hg) hB⟩

/-- one punctual step in which `c` is responsive keeps the progress invariant -/
theorem live_stepIn (c : Addr) (t0 N T : Nat) (s : DState) (g : Option Nat) (i : DInput)
    (h : Live ⟨c, t0, N, T⟩ s g) (hb : Boundary s) (hp : s.stepInP i) (hr : RespStep c t0 s i) :
    Live ⟨c, t0, N, max i.t s.clock⟩ (s.stepIn i).1 (scanS liveScan g (s.stepIn i).2) ∧
    Boundary (s.stepIn i).1 ∧ (s.stepIn i).1.clock = max i.t s.clock := by
  have h1 : Live ⟨c, t0, N, max i.t s.clock⟩ s g := live_retime ⟨c, t0, N, T⟩ (max i.t s.clock) s g h (Nat.le_max_right _ _) hr.2.1
  have h2 : Live ⟨c, t0, N, max i.t s.clock⟩ { s with frOracle := i.fr } g := (live_obs _).oracle s g i.fr h1
  have hb2 : Boundary { s with frOracle := i.fr } := ⟨hb.ready, hb.waits, hb.seen⟩
  exact stepG_s { s with frOracle := i.fr } i.t (live_obs ⟨c, t0, N, max i.t s.clock⟩) g i.ops i.bFirst i.hold h2 hb2 hp
    (fun tid body src hm ht hsrc => by subst hsrc; exact hr.2.2 ht tid body hm)
    (fun e he tid id ok heq ht => hr.1 e he tid id ok heq ht)

/-- **the progress invariant holds along every punctual run in which `c` is responsive** -/
theorem live_run (c : Addr) (t0 N : Nat) (ins : List DInput) : ∀ (s : DState) (g : Option Nat) (T : Nat),
    Live ⟨c, t0, N, T⟩ s g → Boundary s → s.runP ins → RespRun c t0 s ins →
    ∃ T', Live ⟨c, t0, N, T'⟩ (s.run ins).1 (scanS liveScan g (s.run ins).2) ∧ Boundary (s.run ins).1 := by
  induction ins with
  | nil => intro s g T h hb _ _; exact ⟨T, h, hb⟩
  | cons i rest ih =>
    intro s g T h hb hp hr
    obtain ⟨h1, b1, _⟩ := live_stepIn c t0 N T s g i h hb hp.1 hr.1
    obtain ⟨T', h2, b2⟩ := ih _ _ _ h1 b1 hp.2 hr.2
    refine ⟨T', ?_, b2⟩
    unfold DState.run
    simp only
    rw [scanS_append]
    exact h2

theorem scanS_live_some (u : Nat) (tr : List (Nat × DEv)) : scanS liveScan (some u) tr = some u := by
  induction tr with
  | nil => rfl
  | cons e rest ih => simp only [scanS, List.foldl_cons, liveScan_some]; exact ih

theorem scanS_live_mem (tr : List (Nat × DEv)) (t : Nat) (h : scanS liveScan none tr = some t) : (t, DEv.bstate) ∈ tr := by
  induction tr with
  | nil => simp [scanS] at h
  | cons e rest ih =>
    obtain ⟨u, ev⟩ := e
    by_cases hb : ev = .bstate
    · subst hb
      have h2 : scanS liveScan none ((u, DEv.bstate) :: rest) = scanS liveScan (some u) rest := rfl
      rw [h2, scanS_live_some] at h
      simp only [Option.some.injEq] at h
      subst h
      exact List.mem_cons_self
    · have h2 : scanS liveScan none ((u, ev) :: rest) = scanS liveScan none rest := by
        simp only [scanS, List.foldl_cons]
        rw [liveScan_other none u ev hb]
      rw [h2] at h
      exact List.mem_cons_of_mem _ (ih h)

/-- **core of the timed clause**: from a state that satisfies the progress invariant, along every
punctual run in which `c` is responsive, the handler has observed a completion (`bstate`) at an
instant `≤ T2` once the run has gone past `T2` -/
theorem completes_core (c : Addr) (t0 N T : Nat) (s : DState) (ins : List DInput)
    (h : Live ⟨c, t0, N, T⟩ s none) (hb : Boundary s) (hp : s.runP ins) (hr : RespRun c t0 s ins)
    (hlate : LP.T2 ⟨c, t0, N, T⟩ < (s.run ins).1.clock) :
    ∃ t, t ≤ LP.T2 ⟨c, t0, N, T⟩ ∧ (t, DEv.bstate) ∈ (s.run ins).2 := by
  obtain ⟨T', hl, _⟩ := live_run c t0 N ins s none T h hb hp hr
  cases hg : scanS liveScan none (s.run ins).2 with
  | none =>
    have := phaseOk_clock _ _ (hl.live hg)
    have h2 : LP.T2 ⟨c, t0, N, T'⟩ = LP.T2 ⟨c, t0, N, T⟩ := rfl
    omega
  | some t => exact ⟨t, hl.done t hg, scanS_live_mem _ t hg⟩

end Btdht
