import Btdht.Proofs.RefreshRely
/-!
C11 helpers, part 6: an accepted answer makes a listed contact good at once (table level, through
the whole `add_nodes`: the responder, then every node it names), and a good contact stays listed.
-/
namespace Btdht

/-- a live entry makes its handle admissible (the invariant keeps router addresses and the own id out) -/
theorem entry_admissible (t : Table) (ht : TInv t) (e : Node) (he : e ∈ t.allNodes) (hl : e.lastResponse ≠ none)
    (n : Node) (hh : e.handle = n.handle) (now : Nat) (hn : n.status now ≠ .bad) : Admissible t n now := by
  obtain ⟨i, hi, a, ha, rfl⟩ := (mem_allNodes_idx t e).mp he
  rcases ht.placed i hi _ (List.getElem_mem ha) with hnone | ⟨h1, h2, _⟩
  · exact absurd hnone hl
  · rw [hh] at h1 h2
    exact ⟨h2, hn, h1⟩

/-- **re-offering a listed contact updates its entry in place** (any number of splits before) -/
theorem offer_listed (t : Table) (ht : TInv t) (e : Node) (he : e ∈ t.allNodes) (n : Node) (hh : e.handle = n.handle)
    (now : Nat) (hel : e.status now ≠ .bad) (hn : n.status now ≠ .bad) :
    e.update n now ∈ (t.addNode n now).allNodes := by
  have hel' : e.lastResponse ≠ none := status_live_answered e now hel
  obtain ⟨tm, b, sh⟩ := C08_split_lossless t ht n now (entry_admissible t ht e he hel' n hh now hn)
  have hbmem : b ∈ tm.buckets := List.mem_of_getElem? sh.bucket
  obtain ⟨hidx, hbe⟩ := List.getElem?_eq_some_iff.mp sh.bucket
  -- the entry sits in the placement bucket
  have heb : e ∈ b.nodes := by
    obtain ⟨i2, hi2, a2, ha2, rfl⟩ := (mem_allNodes_idx tm e).mp (sh.lossless e he hel)
    have hplace := (entry_bucket tm sh.inv i2 hi2 _ (List.getElem_mem ha2) hel').2
    rw [hh, sh.env.1] at hplace
    subst hplace
    subst hbe
    exact List.getElem_mem ha2
  have hin : ∀ x ∈ (b.addNode n now).1.nodes, x ∈ (t.addNode n now).allNodes := by
    intro x hx
    rw [sh.result, mem_allNodes]
    exact ⟨_, List.mem_set hidx _, hx⟩
  apply hin
  have ho := addNode_outcome b n now
  generalize b.addNode n now = r at ho
  cases ho with
  | offeredBad hb => exact absurd hb hn
  | updated i hi _ heq hfirst =>
    have := first_slot b (sh.inv.handles b hbmem) n.handle i hi heq hfirst e heb hh hel'
    subst this
    exact List.mem_iff_getElem.mpr ⟨i, by simpa using hi, by simp⟩
  | tookFree _ _ _ hno _ => exact absurd hh (hno e heb)
  | evicted _ _ _ hno _ _ => exact absurd hh (hno e heb)
  | rejected _ hno _ _ => exact absurd hh (hno e heb)

theorem update_asGood_status (m : Node) (h : Handle) (now : Nat) : (m.update (Node.asGood h now) now).status now = .good := by
  have hg := asGood_status h now
  simp only [Node.update, hg]
  cases hs : m.status now with
  | good => simp [Node.status, Node.asGood, lastSeenNs_eq]
  | questionable => exact hg
  | bad => exact hg

/-- **an accepted answer makes a listed contact good at once** -/
theorem offer_good_listed (t : Table) (ht : TInv t) (X : Handle) (now : Nat)
    (hl : ∃ e ∈ t.allNodes, e.handle = X ∧ e.status now ≠ .bad) :
    ∃ n ∈ (t.addNode (Node.asGood X now) now).allNodes, n.handle = X ∧ n.status now = .good := by
  obtain ⟨e, he, heh, hel⟩ := hl
  refine ⟨_, offer_listed t ht e he (Node.asGood X now) heh now hel (by rw [asGood_status]; decide), ?_, update_asGood_status e X now⟩
  rw [update_handle e _ now heh]; exact heh

/-- a mention by another node never removes or degrades a good contact -/
theorem hearsay_keeps_good (t : Table) (ht : TInv t) (X : Handle) (now : Nat) (hnow : 900000000000 ≤ now) (h' : Handle)
    (hg : ∃ n ∈ t.allNodes, n.handle = X ∧ n.status now = .good) :
    ∃ n ∈ (t.addNode (Node.asQuestionable h' now) now).allNodes, n.handle = X ∧ n.status now = .good := by
  obtain ⟨n, hn, hh, hs⟩ := hg
  have hq := asQuestionable_status h' now hnow
  by_cases hx : h' = X
  · subst hx
    have := offer_listed t ht n hn (Node.asQuestionable h' now) hh now (by rw [hs]; decide) (by rw [hq]; decide)
    have hupd : n.update (Node.asQuestionable h' now) now = n := by
      unfold Node.update; rw [hs, hq]
    rw [hupd] at this
    exact ⟨n, this, hh, hs⟩
  · obtain ⟨victim, hkeep, hvic⟩ := C08_table_trade t ht (Node.asQuestionable h' now) now
    rcases hkeep n hn (by rw [hs]; decide) (by rw [hh]; exact fun e => hx e.symm) with h | h
    · exact ⟨n, h, hh, hs⟩
    · have := (hvic n h).1
      rw [hs, hq] at this
      exact absurd this (by decide)

/-- **the whole `add_nodes` of an accepted answer**: the responder, if it is listed, is good afterwards -/
theorem answer_makes_good (t : Table) (ht : TInv t) (X : Handle) (named : List Handle) (now : Nat) (hnow : 900000000000 ≤ now)
    (hl : ∃ e ∈ t.allNodes, e.handle = X ∧ e.status now ≠ .bad) :
    ∃ n ∈ (t.addNodes (Node.asGood X now) named now).allNodes, n.handle = X ∧ n.status now = .good := by
  unfold Table.addNodes
  have key : ∀ (l : List Handle) (acc : Table), TInv acc → (∃ n ∈ acc.allNodes, n.handle = X ∧ n.status now = .good) →
      ∃ n ∈ (l.foldl (fun acc h => acc.addNode (Node.asQuestionable h now) now) acc).allNodes, n.handle = X ∧ n.status now = .good := by
    intro l
    induction l with
    | nil => intro acc _ h; exact h
    | cons x l ih =>
      intro acc hacc h
      exact ih _ (tinv_addNode acc _ now hacc).1 (hearsay_keeps_good acc hacc X now hnow x h)
  exact key named _ (tinv_addNode t _ now ht).1 (offer_good_listed t ht X now hl)

end Btdht
