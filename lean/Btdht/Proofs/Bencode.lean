import Btdht.Model.Bencode
/-!
Helper lemmas for C13/C14: the reader inverts the printer; `check_limits` accepts every printed
value of bounded depth.
-/
namespace Btdht

/-! ### numbers -/

theorem natDigits_eq (n : Nat) :
    natDigits n = if n < 10 then [digitChar n] else natDigits (n / 10) ++ [digitChar (n % 10)] := by
  rw [natDigits]

theorem digitsVal_append (ds : Bytes) (c : Nat) : digitsVal (ds ++ [c]) = digitsVal ds * 10 + (c - 48) := by
  simp [digitsVal, List.foldl_append]

theorem natDigits_spec : ∀ (n : Nat),
    (natDigits n).all isDigit = true ∧ natDigits n ≠ [] ∧ digitsVal (natDigits n) = n := by
  intro n
  induction n using Nat.strongRecOn with
  | _ n ih =>
    rw [natDigits_eq]
    by_cases h : n < 10
    · simp only [h, if_true]
      refine ⟨?_, by simp, ?_⟩
      · simp [isDigit, digitChar]; omega
      · simp [digitsVal, digitChar]
    · simp only [h, if_false]
      obtain ⟨h1, h2, h3⟩ := ih (n / 10) (by omega)
      refine ⟨?_, by simp, ?_⟩
      · simp only [List.all_append, h1, Bool.true_and, List.all_cons, List.all_nil, Bool.and_true]
        have hm : n % 10 < 10 := Nat.mod_lt n (by decide)
        unfold isDigit digitChar
        simp only [Bool.and_eq_true, decide_eq_true_eq]
        omega
      · have hd : digitChar (n % 10) - 48 = n % 10 := by unfold digitChar; omega
        rw [digitsVal_append, h3, hd]; omega

theorem natDigits_head (n : Nat) : ∃ c t, natDigits n = c :: t ∧ isDigit c = true := by
  obtain ⟨h1, h2, _⟩ := natDigits_spec n
  cases h : natDigits n with
  | nil => exact absurd h h2
  | cons c t =>
    rw [h] at h1
    simp only [List.all_cons, Bool.and_eq_true] at h1
    exact ⟨c, t, rfl, h1.1⟩

theorem parseUsize_natDigits (n : Nat) (h : n < 2 ^ 64) : parseUsize (natDigits n) = some n := by
  obtain ⟨h1, h2, h3⟩ := natDigits_spec n
  unfold parseUsize
  have : (natDigits n).isEmpty = false := by
    cases hd : natDigits n with
    | nil => exact absurd hd h2
    | cons _ _ => rfl
  simp [this, h1, h3, h]

theorem isDigit_ne (c : Nat) (h : isDigit c = true) : c ≠ 43 ∧ c ≠ 45 ∧ c ≠ 58 ∧ c ≠ 101 ∧ c ≠ 105 ∧ c ≠ 108 ∧ c ≠ 100 := by
  simp [isDigit] at h; omega

theorem parseI64_intText (i : Int) (h1 : -(2 ^ 63 : Int) ≤ i) (h2 : i < (2 ^ 63 : Int)) : parseI64 (intText i) = some i := by
  cases i with
  | ofNat n =>
    obtain ⟨c, t, hc, hd⟩ := natDigits_head n
    obtain ⟨a1, a2, a3⟩ := natDigits_spec n
    obtain ⟨n43, n45, _⟩ := isDigit_ne c hd
    have hn : n < 2 ^ 63 := by
      have h2' : (n : Int) < (2 ^ 63 : Int) := h2
      omega
    simp only [intText]
    rw [hc] at a1 a3 ⊢
    unfold parseI64
    split
    · rename_i ds heq; simp at heq; exact absurd heq.1 n43
    · rename_i ds heq; simp at heq; exact absurd heq.1 n45
    · simp [a1, a3, hn]
  | negSucc n =>
    obtain ⟨a1, a2, a3⟩ := natDigits_spec (n + 1)
    have hn : n + 1 ≤ 2 ^ 63 := by
      have : -(2 ^ 63 : Int) ≤ Int.negSucc n := h1
      omega
    have hne : (natDigits (n + 1)).isEmpty = false := by
      cases hd : natDigits (n + 1) with
      | nil => exact absurd hd a2
      | cons _ _ => rfl
    simp only [intText]
    unfold parseI64
    simp [hne, a1, a3, hn]
    omega

theorem splitAt1_mid (c : Nat) : ∀ (pre post : Bytes), (∀ x ∈ pre, x ≠ c) →
    splitAt1 c (pre ++ c :: post) = some (pre, post)
  | [], post, _ => by simp [splitAt1]
  | x :: pre, post, h => by
    have hx : x ≠ c := h x (by simp)
    simp only [List.cons_append, splitAt1, hx, if_false]
    rw [splitAt1_mid c pre post (fun y hy => h y (by simp [hy]))]
    rfl

theorem intText_no_e (i : Int) : ∀ x ∈ intText i, x ≠ 101 := by
  intro x hx
  cases i with
  | ofNat n =>
    simp only [intText] at hx
    have := (natDigits_spec n).1
    rw [List.all_eq_true] at this
    exact (isDigit_ne x (this x hx)).2.2.2.1
  | negSucc n =>
    simp only [intText, List.mem_cons] at hx
    rcases hx with rfl | hx
    · decide
    · have := (natDigits_spec (n + 1)).1
      rw [List.all_eq_true] at this
      exact (isDigit_ne x (this x hx)).2.2.2.1

theorem natDigits_no_colon (n : Nat) : ∀ x ∈ natDigits n, x ≠ 58 := by
  intro x hx
  have := (natDigits_spec n).1
  rw [List.all_eq_true] at this
  exact (isDigit_ne x (this x hx)).2.2.1

/-! ### well-formed trees -/

mutual
/-- values the printer/reader pair handles: i64 integers, string lengths below 2^64, dictionaries
with an even number of items -/
def BVal.Ok : BVal → Prop
  | .int i => -(2 ^ 63 : Int) ≤ i ∧ i < (2 ^ 63 : Int)
  | .bytes b => b.length < 2 ^ 64
  | .list l => BList.Ok l
  | .dict l => BList.Ok l ∧ l.toList.length % 2 = 0
def BList.Ok : BList → Prop
  | .nil => True
  | .cons v t => BVal.Ok v ∧ BList.Ok t
end

mutual
/-- recursion height of the reader on the printed value -/
def BVal.height : BVal → Nat
  | .int _ => 1
  | .bytes _ => 1
  | .list l => 1 + BList.height l
  | .dict l => 1 + BList.height l
def BList.height : BList → Nat
  | .nil => 1
  | .cons v t => 1 + max (BVal.height v) (BList.height t)
end

mutual
/-- nesting depth (containers) -/
def BVal.depth : BVal → Nat
  | .int _ => 0
  | .bytes _ => 0
  | .list l => 1 + BList.depth l
  | .dict l => 1 + BList.depth l
def BList.depth : BList → Nat
  | .nil => 0
  | .cons v t => max (BVal.depth v) (BList.depth t)
end

/-- the first byte of a printed value is one of `i`, a digit, `l`, `d` — never `e` -/
theorem printVal_head (v : BVal) : ∃ c t, printVal v = c :: t ∧ c ≠ 101 := by
  cases v with
  | int i => exact ⟨105, intText i ++ [101], by simp [printVal], by decide⟩
  | bytes b =>
    obtain ⟨c, t, hc, hd⟩ := natDigits_head b.length
    exact ⟨c, t ++ [58] ++ b, by simp [printVal, printBytes, hc], (isDigit_ne c hd).2.2.2.1⟩
  | list l => exact ⟨108, printList l ++ [101], by simp [printVal], by decide⟩
  | dict l => exact ⟨100, printList l ++ [101], by simp [printVal], by decide⟩

mutual
/-- **the reader inverts the printer** (values) -/
theorem readVal_printVal : ∀ (v : BVal) (fuel : Nat) (rest : Bytes), BVal.Ok v → BVal.height v ≤ fuel →
    readVal fuel (printVal v ++ rest) = some (v, rest)
  | .int i, fuel, rest, hok, hf => by
    cases fuel with
    | zero => simp [BVal.height] at hf
    | succ f =>
      simp only [BVal.Ok] at hok
      simp only [printVal, List.append_assoc, List.singleton_append, List.cons_append, List.nil_append, readVal]
      simp only [if_true]
      rw [splitAt1_mid 101 (intText i) rest (intText_no_e i)]
      simp [parseI64_intText i hok.1 hok.2]
  | .bytes b, fuel, rest, hok, hf => by
    cases fuel with
    | zero => simp [BVal.height] at hf
    | succ f =>
      simp only [BVal.Ok] at hok
      obtain ⟨c, t, hc, hd⟩ := natDigits_head b.length
      obtain ⟨_, _, _, _, n105, _, _⟩ := isDigit_ne c hd
      have hsplit := splitAt1_mid 58 (natDigits b.length) (b ++ rest) (natDigits_no_colon b.length)
      simp only [printVal, printBytes, List.append_assoc, List.singleton_append]
      rw [hc] at hsplit ⊢
      simp only [List.cons_append, readVal, n105, if_false, hd, if_true]
      simp only [List.cons_append] at hsplit
      rw [hsplit]
      simp only
      rw [← hc, parseUsize_natDigits b.length hok]
      simp
  | .list l, fuel, rest, hok, hf => by
    cases fuel with
    | zero => simp [BVal.height] at hf
    | succ f =>
      simp only [BVal.Ok] at hok
      simp only [BVal.height] at hf
      have ih := readItems_printList l f rest hok (by omega)
      simp only [printVal, List.append_assoc, List.singleton_append, List.cons_append, List.nil_append, readVal]
      simp [isDigit, ih]
  | .dict l, fuel, rest, hok, hf => by
    cases fuel with
    | zero => simp [BVal.height] at hf
    | succ f =>
      simp only [BVal.Ok] at hok
      simp only [BVal.height] at hf
      have ih := readItems_printList l f rest hok.1 (by omega)
      simp only [printVal, List.append_assoc, List.singleton_append, List.cons_append, List.nil_append, readVal]
      simp [isDigit, ih, hok.2]
/-- **the reader inverts the printer** (items up to the closing `e`) -/
theorem readItems_printList : ∀ (l : BList) (fuel : Nat) (rest : Bytes), BList.Ok l → BList.height l ≤ fuel →
    readItems fuel (printList l ++ 101 :: rest) = some (l, rest)
  | .nil, fuel, rest, _, hf => by
    cases fuel with
    | zero => simp [BList.height] at hf
    | succ f => simp [printList, readItems]
  | .cons v t, fuel, rest, hok, hf => by
    cases fuel with
    | zero => simp [BList.height] at hf
    | succ f =>
      simp only [BList.Ok] at hok
      simp only [BList.height] at hf
      obtain ⟨c, tl, hc, hne⟩ := printVal_head v
      have ihv := readVal_printVal v f (printList t ++ 101 :: rest) hok.1 (by omega)
      have iht := readItems_printList t f rest hok.2 (by omega)
      simp only [printList, List.append_assoc]
      rw [hc] at ihv ⊢
      simp only [List.cons_append, readItems, hne, if_false]
      simp only [List.cons_append] at ihv
      rw [ihv]
      simp [iht]
end

end Btdht

namespace Btdht

theorem maxDepth_eq : Constants.BENCODE_MAX_DEPTH = 32 := by decide

theorem scanLoop_succ (fuel : Nat) (input : Bytes) (d : Nat) :
    scanLoop (fuel + 1) input d = (match scanStep input d with
      | .continue rest d' => scanLoop fuel rest d'
      | .accept => true
      | .reject => false) := rfl

mutual
/-- `check_limits` never rejects while it scans a printed value nested `d ≥ 1` deep, provided the
nesting stays within the limit -/
theorem scan_printVal : ∀ (v : BVal) (d : Nat) (rest : Bytes), BVal.Ok v → 1 ≤ d → d + BVal.depth v ≤ 32 →
    (∀ fuel, scanLoop fuel rest d = true) → ∀ fuel, scanLoop fuel (printVal v ++ rest) d = true
  | .int i, d, rest, _, hd, _, hk, fuel => by
    cases fuel with
    | zero => rfl
    | succ f =>
      rw [scanLoop_succ]
      have hd0 : ¬ d = 0 := by omega
      simp only [printVal, List.append_assoc, List.singleton_append, List.cons_append, List.nil_append, scanStep, if_true]
      rw [splitAt1_mid 101 (intText i) rest (intText_no_e i)]
      simp only [hd0, if_false]
      exact hk f
  | .bytes b, d, rest, hok, hd, _, hk, fuel => by
    cases fuel with
    | zero => rfl
    | succ f =>
      rw [scanLoop_succ]
      simp only [BVal.Ok] at hok
      have hd0 : ¬ d = 0 := by omega
      obtain ⟨c, t, hc, hdg⟩ := natDigits_head b.length
      obtain ⟨_, _, _, _, n105, _, _⟩ := isDigit_ne c hdg
      have hsplit := splitAt1_mid 58 (natDigits b.length) (b ++ rest) (natDigits_no_colon b.length)
      have hall := (natDigits_spec b.length).1
      simp only [printVal, printBytes, List.append_assoc, List.singleton_append]
      rw [hc] at hsplit ⊢
      simp only [List.cons_append, scanStep, n105, if_false, hdg, if_true]
      simp only [List.cons_append] at hsplit
      rw [hsplit]
      simp only
      rw [← hc, parseUsize_natDigits b.length hok]
      simp only [hall, Bool.not_true, Bool.false_eq_true, if_false, List.length_append, Nat.le_add_right, if_true, hd0,
        List.drop_left']
      exact hk f
  | .list l, d, rest, hok, hd, hdep, hk, fuel => by
    cases fuel with
    | zero => rfl
    | succ f =>
      rw [scanLoop_succ]
      simp only [BVal.Ok] at hok
      simp only [BVal.depth] at hdep
      have hlim : ¬ (d + 1 > Constants.BENCODE_MAX_DEPTH) := by rw [maxDepth_eq]; omega
      simp only [printVal, List.append_assoc, List.singleton_append, List.cons_append, List.nil_append, scanStep]
      simp only [show (108 : Nat) ≠ 105 from by decide, if_false, show isDigit 108 = false from rfl, Bool.false_eq_true,
        show ((108 : Nat) = 108 || (108 : Nat) = 100) = true from rfl, if_true, hlim]
      exact scan_printList l (d + 1) rest hok (by omega) (by omega) (Or.inr (by simpa using hk)) f
  | .dict l, d, rest, hok, hd, hdep, hk, fuel => by
    cases fuel with
    | zero => rfl
    | succ f =>
      rw [scanLoop_succ]
      simp only [BVal.Ok] at hok
      simp only [BVal.depth] at hdep
      have hlim : ¬ (d + 1 > Constants.BENCODE_MAX_DEPTH) := by rw [maxDepth_eq]; omega
      simp only [printVal, List.append_assoc, List.singleton_append, List.cons_append, List.nil_append, scanStep]
      simp only [show (100 : Nat) ≠ 105 from by decide, if_false, show isDigit 100 = false from rfl, Bool.false_eq_true,
        show ((100 : Nat) = 108 || (100 : Nat) = 100) = true from rfl, if_true, hlim]
      exact scan_printList l (d + 1) rest hok.1 (by omega) (by omega) (Or.inr (by simpa using hk)) f
/-- ... and while it scans the items of a container opened at depth `d`, up to its closing `e` -/
theorem scan_printList : ∀ (l : BList) (d : Nat) (rest : Bytes), BList.Ok l → 1 ≤ d → d + BList.depth l ≤ 32 →
    (d - 1 = 0 ∨ ∀ fuel, scanLoop fuel rest (d - 1) = true) →
    ∀ fuel, scanLoop fuel (printList l ++ 101 :: rest) d = true
  | .nil, d, rest, _, hd, _, hk, fuel => by
    cases fuel with
    | zero => rfl
    | succ f =>
      rw [scanLoop_succ]
      have hd0 : d > 0 := by omega
      simp only [printList, List.nil_append, scanStep]
      simp only [show (101 : Nat) ≠ 105 from by decide, if_false, show isDigit 101 = false from rfl, Bool.false_eq_true,
        show ((101 : Nat) = 108 || (101 : Nat) = 100) = false from rfl, hd0, decide_true, Bool.and_self, if_true,
        BEq.rfl, Bool.true_and]
      rcases hk with h0 | hk
      · simp [h0]
      · by_cases h0 : d - 1 = 0
        · simp [h0]
        · simp only [h0, if_false]; exact hk f
  | .cons v t, d, rest, hok, hd, hdep, hk, fuel => by
    simp only [BList.Ok] at hok
    simp only [BList.depth] at hdep
    simp only [printList, List.append_assoc]
    exact scan_printVal v d (printList t ++ 101 :: rest) hok.1 hd (by omega)
      (fun f => scan_printList t d rest hok.2 hd (by omega) hk f) fuel
end

/-- **`check_limits` accepts every well-formed value nested at most 32 deep**, whatever follows it. -/
theorem checkLimits_printVal (v : BVal) (trailing : Bytes) (hok : BVal.Ok v) (hdep : BVal.depth v ≤ 32) :
    checkLimits (printVal v ++ trailing) = true := by
  unfold checkLimits
  generalize (printVal v ++ trailing).length = n
  rw [scanLoop_succ]
  cases v with
  | int i =>
    simp only [printVal, List.append_assoc, List.singleton_append, List.cons_append, List.nil_append, scanStep, if_true]
    rw [splitAt1_mid 101 (intText i) trailing (intText_no_e i)]
  | bytes b =>
    simp only [BVal.Ok] at hok
    obtain ⟨c, t, hc, hdg⟩ := natDigits_head b.length
    obtain ⟨_, _, _, _, n105, _, _⟩ := isDigit_ne c hdg
    have hsplit := splitAt1_mid 58 (natDigits b.length) (b ++ trailing) (natDigits_no_colon b.length)
    have hall := (natDigits_spec b.length).1
    simp only [printVal, printBytes, List.append_assoc, List.singleton_append]
    rw [hc] at hsplit ⊢
    simp only [List.cons_append, scanStep, n105, if_false, hdg, if_true]
    simp only [List.cons_append] at hsplit
    rw [hsplit]
    simp only
    rw [← hc, parseUsize_natDigits b.length hok]
    simp [hall]
  | list l =>
    simp only [BVal.Ok] at hok
    simp only [BVal.depth] at hdep
    have hlim : ¬ (0 + 1 > Constants.BENCODE_MAX_DEPTH) := by rw [maxDepth_eq]; omega
    simp only [printVal, List.append_assoc, List.singleton_append, List.cons_append, List.nil_append, scanStep]
    simp only [show (108 : Nat) ≠ 105 from by decide, if_false, show isDigit 108 = false from rfl, Bool.false_eq_true,
      show ((108 : Nat) = 108 || (108 : Nat) = 100) = true from rfl, if_true, hlim]
    exact scan_printList l 1 trailing hok (by omega) (by omega) (Or.inl rfl) n
  | dict l =>
    simp only [BVal.Ok] at hok
    simp only [BVal.depth] at hdep
    have hlim : ¬ (0 + 1 > Constants.BENCODE_MAX_DEPTH) := by rw [maxDepth_eq]; omega
    simp only [printVal, List.append_assoc, List.singleton_append, List.cons_append, List.nil_append, scanStep]
    simp only [show (100 : Nat) ≠ 105 from by decide, if_false, show isDigit 100 = false from rfl, Bool.false_eq_true,
      show ((100 : Nat) = 108 || (100 : Nat) = 100) = true from rfl, if_true, hlim]
    exact scan_printList l 1 trailing hok.1 (by omega) (by omega) (Or.inl rfl) n

mutual
theorem height_le_length : ∀ (v : BVal), BVal.height v ≤ (printVal v).length
  | .int i => by simp [BVal.height, printVal]
  | .bytes b => by
    obtain ⟨c, t, hc, _⟩ := natDigits_head b.length
    simp [BVal.height, printVal, printBytes, hc]
  | .list l => by
    have := heightL_le_length l
    simp [BVal.height, printVal]; omega
  | .dict l => by
    have := heightL_le_length l
    simp [BVal.height, printVal]; omega
theorem heightL_le_length : ∀ (l : BList), BList.height l ≤ (printList l).length + 1
  | .nil => by simp [BList.height, printList]
  | .cons v t => by
    have h1 := height_le_length v
    have h2 := heightL_le_length t
    obtain ⟨c, tl, hc, _⟩ := printVal_head v
    have hpos : 1 ≤ (printVal v).length := by rw [hc]; simp
    simp only [BList.height, printList, List.length_append]
    omega
end

/-- **reading back a printed value**: the first value of `print v ++ trailing` is `v`. -/
theorem readTop_printVal (v : BVal) (trailing : Bytes) (hok : BVal.Ok v) :
    readTop (printVal v ++ trailing) = some v := by
  unfold readTop
  rw [readVal_printVal v _ trailing hok (by have := height_le_length v; simp; omega)]
  rfl

end Btdht
