import Btdht.Proofs.Deadline
/-!
C19 helpers: at any moment the searches stored by the handler have pairwise distinct action ids
(none of them the refresh's or the bootstrap's), and the outstanding queries of a search have
pairwise distinct transaction ids — so a response is attributed to at most one outstanding query.
-/
namespace Btdht

/-- outstanding queries of a search have pairwise distinct ids -/
def TidsNodup (l : Lookup) : Prop := (l.active.map (·.1)).Nodup

theorem nodup_filter_append (active : List (Tid × Bytes × (Nat × Nat))) (tid : Tid) (d : Bytes) (key : Nat × Nat)
    (h : (active.map (·.1)).Nodup) :
    (((active.filter (·.1 ≠ tid)) ++ [(tid, d, key)]).map (·.1)).Nodup := by
  rw [List.map_append, List.nodup_append]
  refine ⟨(List.Sublist.map _ List.filter_sublist).nodup h, by simp, ?_⟩
  intro a ha b hb
  simp only [List.map_cons, List.map_nil, List.mem_singleton] at hb
  subst hb
  obtain ⟨e, he, rfl⟩ := List.mem_map.mp ha
  have := (List.mem_filter.mp he).2
  simpa using this

theorem nodup_filter (active : List (Tid × Bytes × (Nat × Nat))) (p : Tid × Bytes × (Nat × Nat) → Bool)
    (h : (active.map (·.1)).Nodup) : ((active.filter p).map (·.1)).Nodup :=
  (List.Sublist.map _ List.filter_sublist).nodup h

theorem requestRound_nodup (l : Lookup) (env : LEnv) (nodes : List (Handle × Bytes)) (h : TidsNodup l) :
    TidsNodup (l.requestRound env nodes).1 := by
  unfold Lookup.requestRound
  have key := foldl_pred (fun (acc : RoundAcc) => TidsNodup acc.l) requestStep
    (fun b a hb => by
      unfold requestStep
      simp only
      split <;> exact nodup_filter_append _ _ _ _ hb)
    nodes { l := l, env := env, effs := [], sent := 0 } h
  simp only
  split
  · simp [TidsNodup]
  · exact key

theorem endgameRound_nodup (l : Lookup) (env : LEnv) (h : TidsNodup l) : TidsNodup (l.endgameRound env).1 := by
  unfold Lookup.endgameRound
  simp only
  exact foldl_pred (fun (acc : EndAcc) => TidsNodup acc.l) _
    (fun b a hb => by
      unfold endgameStep
      split
      · exact hb
      · simp only
        split <;> exact nodup_filter_append _ _ _ _ hb)
    l.sorted _ h

theorem continueSearch_nodup (l : Lookup) (env : LEnv) (it : Option (List (Handle × Bool))) (nd : Bytes) (h : TidsNodup l) :
    TidsNodup (l.continueSearch env it nd).1 := by
  have h1 : TidsNodup (l.iterRound env it nd).1 := by
    unfold Lookup.iterRound
    cases it with
    | none => exact h
    | some picks => exact requestRound_nodup l env _ h
  unfold Lookup.continueSearch
  split
  · simp only
    split
    · exact endgameRound_nodup _ _ h1
    · exact h1
  · exact h

theorem recvResponse_nodup (l : Lookup) (env : LEnv) (fr : Handle) (tid : Tid) (rsp : Resp) (h : TidsNodup l) :
    TidsNodup (l.recvResponse env fr tid rsp).1 := by
  unfold Lookup.recvResponse
  cases hfind : l.active.find? (·.1 = tid) with
  | none => exact h
  | some entry =>
    simp only
    apply continueSearch_nodup
    unfold TidsNodup
    rw [(absorbNodes_dl _ _ _).2.1, (recordToken_dl _ _ _).2.1]
    exact nodup_filter _ _ h

theorem recvTimeout_nodup (l : Lookup) (env : LEnv) (tid : Tid) (h : TidsNodup l) : TidsNodup (l.recvTimeout env tid).1 := by
  unfold Lookup.recvTimeout
  cases l.active.find? (·.1 = tid) with
  | none => exact h
  | some entry =>
    simp only
    split
    · exact endgameRound_nodup _ _ (nodup_filter _ _ h)
    · exact nodup_filter _ _ h

theorem new_nodup (aid stream : Nat) (selfId : Bytes) (v6 : Bool) (target : Bytes) (announce : Bool) (env : LEnv) :
    TidsNodup (Lookup.new aid stream selfId v6 target announce env).1 := by
  unfold Lookup.new
  simp only
  exact requestRound_nodup _ _ _ (by simp [TidsNodup])

/-- the attribution invariant of the handler -/
structure AttrInv (s : HState) : Prop where
  aidsNodup : (s.lookups.map (·.aid)).Nodup
  aidRange : ∀ l ∈ s.lookups, 2 ≤ l.aid ∧ l.aid < s.nextAid
  tids : ∀ l ∈ s.lookups, TidsNodup l
  next2 : 2 ≤ s.nextAid

theorem attr_new (selfId : Bytes) (v6 ro : Bool) (port : Option Nat) (fa : List Addr) (now : Nat) :
    AttrInv (HState.new selfId v6 ro port fa now) :=
  ⟨by simp [HState.new], by simp [HState.new], by simp [HState.new], by simp [HState.new]⟩

theorem map_replace_aid (ls : List Lookup) (a : Nat) (l' : Lookup) (h : l'.aid = a) :
    (ls.map (fun x => if x.aid = a then l' else x)).map (·.aid) = ls.map (·.aid) := by
  induction ls with
  | nil => rfl
  | cons x xs ih =>
    simp only [List.map_cons, ih, List.cons.injEq, and_true]
    split
    · rename_i hx; rw [h, hx]
    · rfl

/-- replacing the search with action id `l.aid` by its successor `l'` -/
theorem attr_replace (s : HState) (h : AttrInv s) (l l' : Lookup) (hl : l ∈ s.lookups) (haid : l'.aid = l.aid)
    (ht : TidsNodup l') (tbl : Table) (tm : Timer Task) :
    AttrInv { s with table := tbl, timer := tm, lookups := s.lookups.map (fun x => if x.aid = l.aid then l' else x) } := by
  refine ⟨by simp only; rw [map_replace_aid _ _ _ haid]; exact h.aidsNodup, ?_, ?_, h.next2⟩
  · intro m hm
    obtain ⟨x, hx, rfl⟩ := List.mem_map.mp hm
    split
    · rw [haid]; exact h.aidRange l hl
    · exact h.aidRange x hx
  · intro m hm
    obtain ⟨x, hx, rfl⟩ := List.mem_map.mp hm
    split
    · exact ht
    · exact h.tids x hx

/-- removing the searches with action id `a` -/
theorem attr_complete (s : HState) (h : AttrInv s) (a now : Nat) : AttrInv (s.completeLookup a now).1 := by
  unfold HState.completeLookup
  cases s.lookups.find? (·.aid = a) with
  | none => exact h
  | some l =>
    simp only [HState.withEnv]
    refine ⟨(List.Sublist.map _ List.filter_sublist).nodup h.aidsNodup,
      fun m hm => h.aidRange m (List.mem_filter.mp hm).1, fun m hm => h.tids m (List.mem_filter.mp hm).1, h.next2⟩

theorem recvResponse_aid (l : Lookup) (env : LEnv) (fr : Handle) (tid : Tid) (rsp : Resp) :
    (l.recvResponse env fr tid rsp).1.aid = l.aid := by
  cases hfind : l.active.find? (·.1 = tid) with
  | none => rw [recvResponse_unknown l env fr tid rsp hfind]
  | some entry =>
    obtain ⟨_, _, _, _, _, haid, _⟩ := recvResponse_accepted env.table l env fr tid rsp entry hfind (.refl _)
    exact haid

theorem hstep_attr (s : HState) (op : HOp) (now : Nat) (h : AttrInv s) : AttrInv (s.hstep op now) := by
  cases op with
  | incoming tid body src =>
    show AttrInv (s.handleIncoming tid body src now).1
    unfold HState.handleIncoming
    cases body with
    | req r =>
      obtain ⟨_, f2, f3⟩ := handleRequest_frame s tid r src now
      exact ⟨f2 ▸ h.aidsNodup, fun l hl => by rw [f3]; exact h.aidRange l (f2 ▸ hl), fun l hl => h.tids l (f2 ▸ hl), f3 ▸ h.next2⟩
    | err c m => exact h
    | resp rsp =>
      simp only
      unfold HState.handleResponse
      cases tid.route with
      | none => exact h
      | some at_ =>
        obtain ⟨aid, t?⟩ := at_
        simp only
        cases hfl : s.lookups.find? (·.aid = aid) with
        | none =>
          simp only
          split
          · exact ⟨h.aidsNodup, h.aidRange, h.tids, h.next2⟩
          · exact h
        | some l =>
          simp only
          obtain ⟨hl, _⟩ := find_some_mem _ _ _ hfl
          unfold HState.lookupResponse
          extract_lets s1 r s2
          have hr : r.1.aid = l.aid ∧ TidsNodup r.1 := by
            cases t? with
            | none => exact ⟨rfl, h.tids l hl⟩
            | some t => exact ⟨recvResponse_aid l _ _ t rsp, recvResponse_nodup l _ _ t rsp (h.tids l hl)⟩
          have hs2 : AttrInv { s with table := r.2.1.table, timer := r.2.1.timer, lookups := s.lookups.map (fun x => if x.aid = l.aid then r.1 else x) } :=
            attr_replace s h l r.1 hl hr.1 hr.2 r.2.1.table r.2.1.timer
          by_cases hc : r.1.completedNow = true
          · rw [if_pos hc]; exact attr_complete _ hs2 l.aid now
          · rw [if_neg hc]; exact hs2
  | start target ann =>
    show AttrInv (s.startLookup target ann now).1
    unfold HState.startLookup HState.afterNew
    simp only
    have hn := new_nodup s.nextAid s.nextStream s.selfId s.v6 target ann (s.env now)
    have ha := (new_dl 0 s.nextAid s.nextStream s.selfId s.v6 target ann (s.env now)).2.1
    generalize Lookup.new s.nextAid s.nextStream s.selfId s.v6 target ann (s.env now) = r at hn ha
    split
    · simp only [HState.withEnv]
      exact ⟨h.aidsNodup, fun m hm => ⟨(h.aidRange m hm).1, Nat.lt_succ_of_lt (h.aidRange m hm).2⟩, h.tids,
        Nat.le_succ_of_le h.next2⟩
    · simp only [HState.withEnv]
      refine ⟨?_, ?_, ?_, Nat.le_succ_of_le h.next2⟩
      · rw [List.map_append, List.nodup_append]
        refine ⟨h.aidsNodup, by simp, ?_⟩
        intro a ha' b hb
        simp only [List.map_cons, List.map_nil, List.mem_singleton] at hb
        subst hb
        obtain ⟨m, hm, rfl⟩ := List.mem_map.mp ha'
        rw [ha]
        exact Nat.ne_of_lt (h.aidRange m hm).2
      · intro m hm
        rcases List.mem_append.mp hm with hm | hm
        · exact ⟨(h.aidRange m hm).1, Nat.lt_succ_of_lt (h.aidRange m hm).2⟩
        · simp only [List.mem_singleton] at hm
          subst hm
          rw [ha]
          exact ⟨h.next2, Nat.lt_succ_self _⟩
      · intro m hm
        rcases List.mem_append.mp hm with hm | hm
        · exact h.tids m hm
        · simp only [List.mem_singleton] at hm
          subst hm
          exact hn
  | fire =>
    show AttrInv (s.fireTimer now).1
    unfold HState.fireTimer
    cases s.timer.pop with
    | none => exact h
    | some pe =>
      obtain ⟨timer, e⟩ := pe
      simp only
      have h' : AttrInv { s with timer := timer } := ⟨h.aidsNodup, h.aidRange, h.tids, h.next2⟩
      unfold HState.handleTask
      cases e.task with
      | tableRefresh =>
        simp only
        obtain ⟨_, r2, r3⟩ := refresh_frame { s with timer := timer } now
        exact ⟨by rw [r2]; exact h.aidsNodup, fun l hl => by rw [r3]; rw [r2] at hl; exact h.aidRange l hl,
          fun l hl => by rw [r2] at hl; exact h.tids l hl, by rw [r3]; exact h.next2⟩
      | lookupEndGame t => exact attr_complete _ h' t.aid now
      | lookupTimeout t =>
        simp only
        cases hfl : s.lookups.find? (·.aid = t.aid) with
        | none => exact h'
        | some l =>
          simp only
          obtain ⟨hl, _⟩ := find_some_mem _ _ _ hfl
          unfold HState.lookupTimeout
          extract_lets r s2
          have hr : r.1.aid = l.aid ∧ TidsNodup r.1 :=
            ⟨(recvTimeout_spec (({ s with timer := timer } : HState).env now).table l _ t (.refl _)).2.2.1,
             recvTimeout_nodup l _ t (h.tids l hl)⟩
          have hs2 : AttrInv { s with table := r.2.1.table, timer := r.2.1.timer, lookups := s.lookups.map (fun x => if x.aid = l.aid then r.1 else x) } :=
            attr_replace { s with timer := timer } h' l r.1 hl hr.1 hr.2 r.2.1.table r.2.1.timer
          by_cases hc : r.1.completedNow = true
          · rw [if_pos hc]; exact attr_complete _ hs2 l.aid now
          · rw [if_neg hc]; exact hs2

theorem runOps_attr : ∀ (ops : List (HOp × Nat)) (s : HState), AttrInv s → AttrInv (s.runOps ops)
  | [], _, h => h
  | (op, now) :: rest, s, h => runOps_attr rest _ (hstep_attr s op now h)

end Btdht
